(* Extraction of the C15 model (ExtrOcamlBasic only; Z, positive, nat, string
   stay the extracted inductives).  Compiled by tools/checks/c15.py in a build
   directory; not part of the Coq project build. *)
Require Extraction.
From Coq Require Import ExtrOcamlBasic.
From Coq Require Import String ZArith List Bool.
From Nexus Require Import Transport.GoArith Transport.RawOps Transport.RawFrame Transport.RawSpec
  Transport.RawGen Transport.RawHandshake Transport.PeerDiscipline Transport.WsPeer gen.GenC15.

Definition m_recv := recv (fun _ => true) gen_params.
Definition m_select := select_ops gen_params.
Definition m_send_writes := send_writes gen_params.
Definition m_send_drop := p_send_drop gen_params.
Definition m_send_header := p_send_header gen_params.
Definition m_send_ops := p_send_ops gen_params.
Definition m_discipline := discipline_ok GenC15.send_ops gen_ping_ops.
Definition m_mutex := gen_mutex.
(* one message body and one PING under a schedule: the wire *)
Definition m_machine (sched : list who) (body hdr payload : list Z) : state :=
  run sched (init (writer_frames gen_params gen_mutex (body :: nil))
                  (reader_frames (ops_for gen_params 1 (len payload)) gen_mutex ((hdr, payload) :: nil))).
(* the reference instance, for the monitor side of a verdict *)
Definition s_recv := recv (fun _ => true) spec_params.

(* websocket sender loop on a queue given as "is this message serializable":
   the indices of the messages written *)
Definition m_ws_send (keepalive : bool) (pattern : list bool) : list (list Z) :=
  ws_send (Z * bool)%type (fun m => if snd m then Some (fst m :: nil) else None)
          (if keepalive then ws_send_keepalive else ws_send_plain)
          (combine (map Z.of_nat (seq 0 (length pattern))) pattern).

Extraction "c15model"
  server_handshake client_handshake accept_handshake connect_handshake
  accept_closes_on_error connect_closes_on_error get_proto_byte server_accept_args server_attaches_peer
  byte_to_length fit_recv_limit int_to_bytes bytes_to_int
  c_magic c_rawsocketJSON c_rawsocketMsgpack c_rawsocketCBOR
  m_recv m_select m_send_writes m_send_drop m_send_header m_send_ops m_discipline m_mutex
  m_machine tags wire_bytes contiguousb finished
  s_recv m_ws_send.
