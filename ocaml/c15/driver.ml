(* Driver for the extracted C15 model.  Reads one case per line on stdin,
   prints one line of model output per case on stdout: "<id> <output>".

   Case syntax (fields separated by one space; <hex> is a possibly empty
   string of hex digits, "-" for empty):
     <id> hs_server <cfg> <outq> <hex input>
     <id> hs_client <proto> <cfg> <hex input>
     <id> arith btl <b> | fit <r> | i2b <n> | b2i <hex>
     <id> send <lim> <len>                      (limit test + header, no body)
     <id> recv <lim> <hex stream>               (full receive loop)
     <id> select <lim> <hex header4>            (ops chosen for one header)
     <id> machine <sched WR..> <hex body> <hex ping header> <hex ping payload>
     <id> ws_send <keepalive 0|1> <pattern of G/B>               (websocket sender loop: indices written)
     <id> wires <body size> <hex ping header> <hex ping payload>   (all finished schedules of length 12)
     <id> limits_server / limits_client / recvcase / routercase    (same text as the Go harness prints)
     <id> consts
   Everything printed is computed by extracted code; this file only converts
   between text and the extracted inductives. *)

open C15model

let rec pos_of_int n = if n = 1 then XH else if n land 1 = 1 then XI (pos_of_int (n lsr 1)) else XO (pos_of_int (n lsr 1))
let z_of_int n = if n = 0 then Z0 else if n > 0 then Zpos (pos_of_int n) else Zneg (pos_of_int (-n))
let rec int_of_pos = function XH -> 1 | XO p -> 2 * int_of_pos p | XI p -> 2 * int_of_pos p + 1
let int_of_z = function Z0 -> 0 | Zpos p -> int_of_pos p | Zneg p -> - (int_of_pos p)
let rec int_of_nat = function O -> 0 | S n -> 1 + int_of_nat n

let bytes_of_hex s =
  if s = "-" then [] else begin
    let n = String.length s / 2 in
    let rec go i acc = if i < 0 then acc else go (i - 1) (z_of_int (int_of_string ("0x" ^ String.sub s (2 * i) 2)) :: acc) in
    go (n - 1) []
  end

let hex_of_bytes l =
  if l = [] then "-" else begin
    let b = Buffer.create 64 in
    List.iter (fun z -> Buffer.add_string b (Printf.sprintf "%02x" ((int_of_z z) land 0xffffff))) l;
    Buffer.contents b
  end

let string_of_coq s =
  let b = Buffer.create 16 in
  let bit x k = if x then k else 0 in
  let rec go = function
    | EmptyString -> ()
    | String (Ascii (b0, b1, b2, b3, b4, b5, b6, b7), t) ->
        Buffer.add_char b (Char.chr (bit b0 1 + bit b1 2 + bit b2 4 + bit b3 8 + bit b4 16 + bit b5 32 + bit b6 64 + bit b7 128));
        go t in
  go s; Buffer.contents b

let ser_name = function SerNone -> "none" | SerJSON -> "json" | SerMsgpack -> "msgpack" | SerCBOR -> "cbor"

let show_hs closes r =
  match r with
  | HsErr (w, e) ->
      Printf.sprintf "result=err written=%s closed=%b err=%S" (String.concat "," (List.map hex_of_bytes w)) closes (string_of_coq e)
  | HsPeer (w, s, sl, rl) ->
      Printf.sprintf "result=peer written=%s ser=%s send=%d recv=%d" (String.concat "," (List.map hex_of_bytes w)) (ser_name s) (int_of_z sl) (int_of_z rl)

let show_event = function
  | EvMsg b -> "msg:" ^ hex_of_bytes b
  | EvIgnore b -> "ignore:" ^ hex_of_bytes b
  | EvPong b -> "pong:" ^ hex_of_bytes b
  | EvNil -> "nil"
  | EvClose -> "close"
  | EvEOF -> "eof"
  | EvPanic -> "panic"

let show_parts ps = String.concat "" (List.map (function PHeader -> "H" | PPayload -> "P") ps)

let show_rop = function
  | RReadBody n -> Printf.sprintf "ReadBody(%d)" (int_of_z n)
  | RDeserialize -> "Deserialize"
  | RSetHeader (i, v) -> Printf.sprintf "SetHeader(%d,%d)" (int_of_nat i) (int_of_z v)
  | RWrite ps -> "Write(" ^ show_parts ps ^ ")"
  | REcho n -> Printf.sprintf "Echo(%d)" (int_of_z n)
  | RDiscard n -> Printf.sprintf "Discard(%d)" (int_of_z n)
  | RLock m -> "Lock(" ^ string_of_coq m ^ ")"
  | RUnlock m -> "Unlock(" ^ string_of_coq m ^ ")"
  | RContinue -> "Continue"
  | RCloseReturn -> "CloseReturn"

let show_wop = function
  | WLock m -> "Lock(" ^ string_of_coq m ^ ")"
  | WUnlock m -> "Unlock(" ^ string_of_coq m ^ ")"
  | WWrite ps -> "Write(" ^ show_parts ps ^ ")"

let who_of_char = function 'W' -> W | 'R' -> R | c -> failwith (Printf.sprintf "bad process %c" c)

let handle id = function
  | ["hs_server"; cfg; outq; inp] ->
      let r = accept_handshake (z_of_int (int_of_string cfg)) (z_of_int (int_of_string outq)) (bytes_of_hex inp) in
      Printf.printf "%s %s\n" id (show_hs accept_closes_on_error r)
  | ["hs_client"; proto; cfg; inp] ->
      let r = connect_handshake (z_of_int (int_of_string cfg)) (z_of_int (int_of_string proto)) (bytes_of_hex inp) in
      Printf.printf "%s %s\n" id (show_hs connect_closes_on_error r)
  | ["arith"; "btl"; b] -> Printf.printf "%s %d\n" id (int_of_z (byte_to_length (z_of_int (int_of_string b))))
  | ["arith"; "fit"; r] -> Printf.printf "%s %d\n" id (int_of_z (fit_recv_limit (z_of_int (int_of_string r))))
  | ["arith"; "i2b"; n] -> Printf.printf "%s %s\n" id (hex_of_bytes (int_to_bytes (z_of_int (int_of_string n))))
  | ["arith"; "b2i"; h] -> Printf.printf "%s %d\n" id (int_of_z (bytes_to_int (bytes_of_hex h)))
  | ["send"; lim; len] ->
      let l = z_of_int (int_of_string len) and lm = z_of_int (int_of_string lim) in
      if m_send_drop l lm then Printf.printf "%s drop\n" id
      else Printf.printf "%s header=%s ops=%s\n" id (hex_of_bytes (m_send_header l)) (String.concat "," (List.map show_wop m_send_ops))
  | ["recv"; lim; inp] ->
      let evs = m_recv (z_of_int (int_of_string lim)) (bytes_of_hex inp) in
      Printf.printf "%s %s\n" id (String.concat " " (List.map show_event evs))
  | ["srecv"; lim; inp] ->
      let evs = s_recv (z_of_int (int_of_string lim)) (bytes_of_hex inp) in
      Printf.printf "%s %s\n" id (String.concat " " (List.map show_event evs))
  | ["select"; lim; hdr] ->
      let ops = m_select (z_of_int (int_of_string lim)) (bytes_of_hex hdr) in
      Printf.printf "%s %s\n" id (if ops = [] then "FallOut" else String.concat "," (List.map show_rop ops))
  | ["machine"; sched; body; hdr; payload] ->
      let sc = List.init (String.length sched) (fun i -> who_of_char sched.[i]) in
      let st = m_machine sc (bytes_of_hex body) (bytes_of_hex hdr) (bytes_of_hex payload) in
      let tg = List.map (fun (p, i) -> (match p with W -> "W" | R -> "R") ^ string_of_int (int_of_nat i)) (tags st) in
      Printf.printf "%s wire=%s tags=%s contiguous=%b finished=%b\n" id (hex_of_bytes (wire_bytes st)) (String.concat "," tg) (contiguousb (tags st)) (finished st)
  | ["consts"] ->
      let (rl, oq) = server_accept_args (z_of_int 4096) Z0 in
      Printf.printf "%s magic=%d json=%d msgpack=%d cbor=%d proto=%s accept_closes=%b connect_closes=%b server_args(4096,0)=%d,%d attaches=%b discipline_ok=%b mutex=%s send_ops=%s ping_ops=%s\n" id
        (int_of_z c_magic) (int_of_z c_rawsocketJSON) (int_of_z c_rawsocketMsgpack) (int_of_z c_rawsocketCBOR)
        (String.concat "," (List.map (fun (n, v) -> string_of_coq n ^ ":" ^ string_of_int (int_of_z v)) get_proto_byte))
        accept_closes_on_error connect_closes_on_error (int_of_z rl) (int_of_z oq) server_attaches_peer
        m_discipline (string_of_coq m_mutex)
        (String.concat "," (List.map show_wop m_send_ops))
        (String.concat "," (List.map show_rop (m_select (z_of_int 512) [z_of_int 1; Z0; Z0; Z0])))
  | l -> Printf.printf "%s ERROR bad case: %s\n" id (String.concat " " l)


(* ---- combined cases: the same text the Go harness prints ---- *)

let ints_of_csv s = if s = "-" || s = "" then [] else List.map int_of_string (String.split_on_char ',' s)

let len3_int n = [z_of_int ((n lsr 16) land 0xff); z_of_int ((n lsr 8) land 0xff); z_of_int (n land 0xff)]

let classify_ops n ops =
  match ops with
  | [RReadBody m; RDeserialize] when int_of_z m = n -> "delivered"
  | [RCloseReturn] -> "closed"
  | [] -> "nil"
  | l -> "other:" ^ String.concat "," (List.map show_rop l)

let probe_text sl rl sends recvs =
  let s1 = List.map (fun n ->
      if m_send_drop (z_of_int n) sl then Printf.sprintf "%d:dropped" n
      else Printf.sprintf "%d:sent:%s" n (hex_of_bytes (m_send_header (z_of_int n)))) sends in
  let rec go = function
    | [] -> []
    | n :: t ->
        let c = classify_ops n (m_select rl (Z0 :: len3_int n)) in
        let r = Printf.sprintf "%d:%s" n c in
        if c = "closed" then [r] else r :: go t in
  let s2 = go recvs in
  let j l = if l = [] then "-" else String.concat ";" l in
  Printf.sprintf "hs=ok send=%s recv=%s" (j s1) (j s2)

let events_text evs = String.concat " " (List.map show_event evs)

let rec all_scheds n = if n = 0 then [[]] else
    List.concat_map (fun s -> [W :: s; R :: s]) (all_scheds (n - 1))

let handle2 id = function
  | ["limits_server"; cfg; b1; sends; recvs] ->
      (match accept_handshake (z_of_int (int_of_string cfg)) (z_of_int 8) [z_of_int 0x7f; z_of_int (int_of_string b1); Z0; Z0] with
       | HsPeer (_, _, sl, rl) -> Printf.printf "%s %s\n" id (probe_text sl rl (ints_of_csv sends) (ints_of_csv recvs))
       | HsErr _ -> Printf.printf "%s hs=fail\n" id); true
  | ["limits_client"; proto; cfg; reply; sends; recvs] ->
      (match connect_handshake (z_of_int (int_of_string cfg)) (z_of_int (int_of_string proto)) (bytes_of_hex reply) with
       | HsPeer (_, _, sl, rl) -> Printf.printf "%s %s\n" id (probe_text sl rl (ints_of_csv sends) (ints_of_csv recvs))
       | HsErr _ -> Printf.printf "%s hs=fail\n" id); true
  | ["recvcase"; cfg; nib; serb; stream] ->
      let b1 = (int_of_string nib) * 16 + int_of_string serb in
      (match accept_handshake (z_of_int (int_of_string cfg)) (z_of_int 8) [z_of_int 0x7f; z_of_int b1; Z0; Z0] with
       | HsPeer (_, _, _, rl) -> Printf.printf "%s hs=ok %s\n" id (events_text (m_recv rl (bytes_of_hex stream)))
       | HsErr _ -> Printf.printf "%s hs=fail\n" id); true
  | ["routercase"; cfg; serb; stream] ->
      let (rl0, oq) = server_accept_args (z_of_int (int_of_string cfg)) Z0 in
      let b1 = 15 * 16 + int_of_string serb in
      (match accept_handshake rl0 oq [z_of_int 0x7f; z_of_int b1; Z0; Z0] with
       | HsPeer (w, _, _, rl) ->
           Printf.printf "%s reply=%s attaches=%b %s\n" id (hex_of_bytes (List.concat w)) server_attaches_peer (events_text (m_recv rl (bytes_of_hex stream)))
       | HsErr _ -> Printf.printf "%s hs=fail\n" id); true
  | ["ws_send"; ka; pattern] ->
      (* pattern: G = serializable, B = not; prints the indices of the messages written *)
      let pat = List.init (String.length pattern) (fun i -> pattern.[i] = 'G') in
      let ws = m_ws_send (ka = "1") pat in
      Printf.printf "%s sent=%s\n" id
        (if ws = [] then "-" else String.concat "," (List.map (fun b -> match b with [z] -> string_of_int (int_of_z z) | _ -> "?") ws)); true
  | ["wires"; size; hdr; payload] ->
      let b = List.init (int_of_string size) (fun _ -> Z0) and h = bytes_of_hex hdr and p = bytes_of_hex payload in
      let seen = Hashtbl.create 16 in
      List.iter (fun sc ->
          let st = m_machine sc b h p in
          if finished st then begin
            let key = String.concat "," (List.map (fun ((w, _), bs) ->
                (match w with W -> "W" | R -> "R") ^ ":" ^ string_of_int (List.length bs) ^ ":" ^
                hex_of_bytes (List.filteri (fun i _ -> i < 4) bs)) st.wire) in
            if not (Hashtbl.mem seen key) then Hashtbl.add seen key (contiguousb (tags st))
          end) (all_scheds 12);
      let l = Hashtbl.fold (fun k c acc -> (k ^ "/" ^ (if c then "contiguous" else "INTERLEAVED")) :: acc) seen [] in
      Printf.printf "%s %s\n" id (String.concat " | " (List.sort compare l)); true
  | _ -> false

let () =
  try
    while true do
      let line = input_line stdin in
      if String.length line > 0 then begin
        match String.split_on_char ' ' line with
        | id :: rest -> (try (if not (handle2 id rest) then handle id rest) with e -> Printf.printf "%s ERROR %s\n" id (Printexc.to_string e))
        | [] -> ()
      end
    done
  with End_of_file -> ()
