(* Extraction of the REFERENCE instance of the C15 model (RawSpec.spec_params,
   RawHandshakeSpec): the monitor the implementation's observations are judged
   by.  Independent of the generated code.  Same value names as
   extract_c15.v so that driver.ml serves both. *)
Require Extraction.
From Coq Require Import ExtrOcamlBasic.
From Coq Require Import String ZArith List Bool.
From Nexus Require Import Transport.GoArith Transport.RawOps Transport.RawFrame Transport.RawSpec
  Transport.RawHandshakeSpec Transport.PeerDiscipline Transport.WsPeer.
Import ListNotations.
Open Scope Z_scope.

Definition accept_handshake (cfg outq : Z) (input : list Z) : hs_result := spec_accept cfg input.
Definition connect_handshake (cfg proto : Z) (input : list Z) : hs_result := spec_connect cfg proto input.
Definition accept_closes_on_error := true.
Definition connect_closes_on_error := true.
Definition get_proto_byte : list (string * Z) :=
  [("AUTO"%string, 1); ("JSON"%string, 1); ("MSGPACK"%string, 2); ("CBOR"%string, 3)].
Definition server_accept_args (r q : Z) : Z * Z := (r, if q =? 0 then 64 else q).
Definition server_attaches_peer := true.
Definition byte_to_length (k : Z) : Z := announced k.
Definition fit_recv_limit := spec_fit.
Definition int_to_bytes := len3.
Definition bytes_to_int (l : list Z) : Z := fold_left (fun n b => n * 256 + b) l 0.
Definition c_magic : Z := 127.
Definition c_rawsocketJSON : Z := 1.
Definition c_rawsocketMsgpack : Z := 2.
Definition c_rawsocketCBOR : Z := 3.

Definition m_recv := recv (fun _ => true) spec_params.
Definition s_recv := m_recv.
Definition m_select := select_ops spec_params.
Definition m_send_drop := p_send_drop spec_params.
Definition m_send_header := p_send_header spec_params.
Definition m_send_ops := p_send_ops spec_params.
Definition m_discipline := discipline_ok (p_send_ops spec_params) (ops_for spec_params 1 0).
Definition m_mutex := "wrMutex"%string.
Definition m_machine (sched : list who) (body hdr payload : list Z) : state :=
  run sched (init (map (frame_acts_w spec_params m_mutex) (body :: nil))
                  (map (fun hp => frame_acts_r (ops_for spec_params 1 (len payload)) m_mutex (fst hp) (snd hp))
                       ((hdr, payload) :: nil))).

Definition m_ws_send (keepalive : bool) (pattern : list bool) : list (list Z) :=
  ws_send (Z * bool)%type (fun m => if snd m then Some (fst m :: nil) else None) ws_spec_shape
          (combine (map Z.of_nat (seq 0 (length pattern))) pattern).

Extraction "c15spec"
  accept_handshake connect_handshake accept_closes_on_error connect_closes_on_error
  get_proto_byte server_accept_args server_attaches_peer
  byte_to_length fit_recv_limit int_to_bytes bytes_to_int
  c_magic c_rawsocketJSON c_rawsocketMsgpack c_rawsocketCBOR
  m_recv s_recv m_select m_send_drop m_send_header m_send_ops m_discipline m_mutex
  m_machine tags wire_bytes contiguousb finished m_ws_send.
