(* c14run: line-oriented driver around the extracted C14 model (C14model).

   One request per input line:  <id> <op> <args…>   ->   <id> <result…>
   Values, messages and byte strings travel in the "V-syntax" shared with the
   Go driver (go/cmd/c14drive):

     value  ::= N | T | F | I<dec> | U<dec> | D<16 hex> | S<hex> | B<hex>
              | L[ value* ] | M{ (K<hex> value)* }          (space separated)
     msg    ::= <StructName> value*      (one value per field; N = nil list/dict)

   ops:  ser F msg | des F hex | desx F hex | dec F hex | enc F value
         l2m F L[ … ] | l2mx F L[ … ] | rt F msg ; msg | canon F msg
         equiv msg ; msg | info
   F ∈ json msgpack cbor.  `des`/`l2m` run the model at the shape the
   translator read from the code (gen_shape); `desx`/`l2mx` at the intended
   (repaired) shape: guarded conversions, top-level item must be a list.

   Trusted: this file (parsing/printing, dict-key sorting for display, the
   float text oracle fprint/fparse standing for Go's strconv). *)

open C14model

(* ---------- numbers ---------- *)
let rec pos_of_int (i : int) : positive =
  if i = 1 then XH else if i land 1 = 0 then XO (pos_of_int (i lsr 1)) else XI (pos_of_int (i lsr 1))
let n_of_int (i : int) : n = if i = 0 then N0 else Npos (pos_of_int i)
let rec int_of_pos = function XH -> 1 | XO p -> 2 * int_of_pos p | XI p -> 2 * int_of_pos p + 1
let int_of_n = function N0 -> 0 | Npos p -> int_of_pos p

let byte_tab : byte array = Array.init 256 (fun i -> n2b (n_of_int i))
let byte_of_char (c : char) : byte = byte_tab.(Char.code c)
let char_of_byte (b : byte) : char = Char.chr (int_of_n (b2n b))

let bytes_of_string (s : Stdlib.String.t) : byte list =
  let r = ref [] in
  for i = String.length s - 1 downto 0 do r := byte_of_char s.[i] :: !r done; !r
let string_of_bytes (l : byte list) : Stdlib.String.t =
  let b = Buffer.create 64 in List.iter (fun x -> Buffer.add_char b (char_of_byte x)) l; Buffer.contents b

let hexdigit i = "0123456789abcdef".[i]
let hex_of_string (s : Stdlib.String.t) : Stdlib.String.t =
  let b = Buffer.create (2 * String.length s) in
  String.iter (fun c -> let k = Char.code c in Buffer.add_char b (hexdigit (k lsr 4)); Buffer.add_char b (hexdigit (k land 15))) s;
  Buffer.contents b
let hexval c = match c with
  | '0'..'9' -> Char.code c - 48 | 'a'..'f' -> Char.code c - 87 | 'A'..'F' -> Char.code c - 55
  | _ -> failwith "bad hex"
let string_of_hex (h : Stdlib.String.t) : Stdlib.String.t =
  let n = String.length h in
  if n land 1 = 1 then failwith "odd hex";
  String.init (n / 2) (fun i -> Char.chr (hexval h.[2*i] * 16 + hexval h.[2*i+1]))
let hex_of_bytes l = hex_of_string (string_of_bytes l)
let bytes_of_hex h = bytes_of_string (string_of_hex h)

(* decimal <-> N through the model's own (extracted) conversions *)
let n_of_dec (s : Stdlib.String.t) : n =
  if s = "" then failwith "empty number";
  String.iter (fun c -> if c < '0' || c > '9' then failwith "bad digit") s;
  dec_val (bytes_of_string s)
let dec_of_n (x : n) : Stdlib.String.t = string_of_bytes (dec_of_N x)
let z_of_dec (s : Stdlib.String.t) : z =
  if s <> "" && s.[0] = '-' then
    (match n_of_dec (String.sub s 1 (String.length s - 1)) with N0 -> Z0 | Npos p -> Zneg p)
  else (match n_of_dec s with N0 -> Z0 | Npos p -> Zpos p)
let dec_of_z = function Z0 -> "0" | Zpos p -> dec_of_n (Npos p) | Zneg p -> "-" ^ dec_of_n (Npos p)

(* N (< 2^64) <-> Int64 bit pattern *)
let int64_of_n (x : n) : int64 =
  let rec go p = match p with
    | XH -> 1L
    | XO q -> Int64.shift_left (go q) 1
    | XI q -> Int64.logor (Int64.shift_left (go q) 1) 1L in
  match x with N0 -> 0L | Npos p -> go p
let n_of_int64 (v : int64) : n =
  (* unsigned reading of the 64 bits *)
  let rec go (v : int64) : positive =
    (* v <> 0, unsigned *)
    let rest = Int64.shift_right_logical v 1 in
    let bit = Int64.logand v 1L in
    if rest = 0L then XH else if bit = 0L then XO (go rest) else XI (go rest) in
  if v = 0L then N0 else Npos (go v)

(* ---------- the float text oracle (Go: strconv via ugorji's JSON handle) ---------- *)
(* shortest decimal digits that round-trip, and the decimal exponent: value = 0.d1d2… × 10^e10 *)
let shortest (f : float) : Stdlib.String.t * int =
  (* f finite, > 0 *)
  let rec try_p p =
    let s = Printf.sprintf "%.*e" (p - 1) f in
    if p >= 17 || float_of_string s = f then s else try_p (p + 1) in
  let s = try_p 1 in
  (* s = d.ddddde±XX *)
  let epos = String.index s 'e' in
  let mant = String.sub s 0 epos in
  let ex = int_of_string (String.sub s (epos + 1) (String.length s - epos - 1)) in
  let digits = Buffer.create 20 in
  String.iter (fun c -> if c <> '.' then Buffer.add_char digits c) mant;
  (* strip trailing zeros *)
  let d = Buffer.contents digits in
  let n = ref (String.length d) in
  while !n > 1 && d.[!n - 1] = '0' do decr n done;
  (String.sub d 0 !n, ex + 1)

let go_fmt_f_shortest (neg : bool) (d : Stdlib.String.t) (e10 : int) : Stdlib.String.t =
  (* strconv 'f', precision -1 *)
  let b = Buffer.create 32 in
  if neg then Buffer.add_char b '-';
  let nd = String.length d in
  if e10 <= 0 then begin
    Buffer.add_string b "0."; Buffer.add_string b (String.make (- e10) '0'); Buffer.add_string b d
  end else if e10 >= nd then begin
    Buffer.add_string b d; Buffer.add_string b (String.make (e10 - nd) '0')
  end else begin
    Buffer.add_string b (String.sub d 0 e10); Buffer.add_char b '.'; Buffer.add_string b (String.sub d e10 (nd - e10))
  end;
  Buffer.contents b

let go_fmt_e_shortest (neg : bool) (d : Stdlib.String.t) (e10 : int) : Stdlib.String.t =
  (* strconv 'e', precision -1: d[.ddd]e±XX (at least two exponent digits) *)
  let b = Buffer.create 32 in
  if neg then Buffer.add_char b '-';
  Buffer.add_char b d.[0];
  if String.length d > 1 then begin Buffer.add_char b '.'; Buffer.add_string b (String.sub d 1 (String.length d - 1)) end;
  let ex = e10 - 1 in
  Buffer.add_char b 'e';
  Buffer.add_char b (if ex < 0 then '-' else '+');
  let a = abs ex in
  if a < 10 then Buffer.add_char b '0';
  Buffer.add_string b (string_of_int a);
  Buffer.contents b

(* ugorji's noFrac64: integral AND below 2^52 (unbiased exponent < 52) *)
let no_frac (f : float) =
  let bits = Int64.bits_of_float f in
  if bits = 0L then true
  else
    let e = Int64.to_int (Int64.logand (Int64.shift_right_logical bits 52) 0x7FFL) - 1023 in
    e >= 0 && e < 52 && Int64.shift_left bits (12 + e) = 0L

(* jsonFloatStrconvFmtPrec64 + strconv.AppendFloat; finite floats only *)
let fprint_go (bits : n) : byte list =
  let f = Int64.float_of_bits (int64_of_n bits) in
  let neg = Int64.compare (int64_of_n bits) 0L < 0 in
  let a = Float.abs f in
  let s =
    if a = 0.0 || a = 1.0 then Printf.sprintf "%s%.1f" (if neg && a = 0.0 then "-" else "") (if a = 0.0 then 0.0 else f)
    else if a < 1e-6 || a >= 1e21 then let (d, e) = shortest a in go_fmt_e_shortest neg d e
    else if no_frac f then Printf.sprintf "%.1f" f
    else let (d, e) = shortest a in go_fmt_f_shortest neg d e in
  bytes_of_string s

let fparse_go (tok : byte list) : n option =
  (* strconv.ParseFloat reports a range error for text that overflows binary64 *)
  match float_of_string_opt (string_of_bytes tok) with
  | Some f when Float.is_finite f -> Some (n_of_int64 (Int64.bits_of_float f))
  | _ -> None

(* ---------- Coq strings ---------- *)
let ascii_of_char (c : char) : ascii =
  let k = Char.code c in
  let b i = (k lsr i) land 1 = 1 in
  Ascii (b 0, b 1, b 2, b 3, b 4, b 5, b 6, b 7)
let char_of_ascii (Ascii (b0, b1, b2, b3, b4, b5, b6, b7)) : char =
  let v b i = if b then 1 lsl i else 0 in
  Char.chr (v b0 0 + v b1 1 + v b2 2 + v b3 3 + v b4 4 + v b5 5 + v b6 6 + v b7 7)
let rec coqstr_of (s : Stdlib.String.t) (i : int) : C14model.string =
  if i >= String.length s then EmptyString else String (ascii_of_char s.[i], coqstr_of s (i + 1))
let coqstr (s : Stdlib.String.t) = coqstr_of s 0
let rec ocamlstr (s : C14model.string) : Stdlib.String.t =
  match s with EmptyString -> "" | String (a, r) -> String.make 1 (char_of_ascii a) ^ ocamlstr r

(* ---------- V-syntax ---------- *)
exception Parse of Stdlib.String.t

let parse_float_token (t : Stdlib.String.t) : n =
  (* D<16 hex> *)
  if String.length t <> 17 then raise (Parse ("bad float token " ^ t));
  let h = String.sub t 1 16 in
  let hi = Int64.of_string ("0x" ^ String.sub h 0 8) and lo = Int64.of_string ("0x" ^ String.sub h 8 8) in
  n_of_int64 (Int64.logor (Int64.shift_left hi 32) lo)

let hex16_of_n (x : n) : Stdlib.String.t = Printf.sprintf "%016Lx" (int64_of_n x)

let rec parse_value2 (toks : Stdlib.String.t list) : value * Stdlib.String.t list =
  match toks with
  | [] -> raise (Parse "value expected")
  | t :: rest ->
    let n = String.length t in
    let tl1 () = String.sub t 1 (n - 1) in
    if t = "N" then (VNull, rest)
    else if t = "T" then (VBool true, rest)
    else if t = "F" then (VBool false, rest)
    else if t = "L[" then
      let rec items acc toks = match toks with
        | "]" :: r -> (List.rev acc, r)
        | _ -> let (v, r) = parse_value2 toks in items (v :: acc) r in
      let (l, r) = items [] rest in (VList l, r)
    else if t = "M{" then
      let rec items acc toks = match toks with
        | "}" :: r -> (List.rev acc, r)
        | k :: r when String.length k >= 1 && k.[0] = 'K' ->
          let key = bytes_of_hex (String.sub k 1 (String.length k - 1)) in
          let (v, r') = parse_value2 r in items ((key, v) :: acc) r'
        | _ -> raise (Parse "key expected") in
      let (d, r) = items [] rest in (VDict d, r)
    else match t.[0] with
      | 'I' -> (VInt (KI64, z_of_dec (tl1 ())), rest)
      | 'U' -> (VInt (KU64, z_of_dec (tl1 ())), rest)
      | 'D' -> (VFloat (parse_float_token t), rest)
      | 'S' -> (VStr (bytes_of_hex (tl1 ())), rest)
      | 'B' -> (VBin (bytes_of_hex (tl1 ())), rest)
      | _ -> raise (Parse ("bad token " ^ t))

let rec print_value (b : Buffer.t) (v : value) : unit =
  match v with
  | VNull -> Buffer.add_string b "N"
  | VBool true -> Buffer.add_string b "T"
  | VBool false -> Buffer.add_string b "F"
  | VInt (KI64, z) -> Buffer.add_string b ("I" ^ dec_of_z z)
  | VInt (KU64, z) -> Buffer.add_string b ("U" ^ dec_of_z z)
  | VFloat f -> Buffer.add_string b ("D" ^ hex16_of_n f)
  | VStr s -> Buffer.add_string b ("S" ^ hex_of_bytes s)
  | VBin s -> Buffer.add_string b ("B" ^ hex_of_bytes s)
  | VList l ->
    Buffer.add_string b "L[";
    List.iter (fun x -> Buffer.add_char b ' '; print_value b x) l;
    Buffer.add_string b " ]"
  | VDict d ->
    (* display order: keys sorted bytewise (a Go map has no order) *)
    let d' = List.map (fun (k, x) -> (string_of_bytes k, x)) d in
    let d' = List.stable_sort (fun (a, _) (c, _) -> compare a c) d' in
    Buffer.add_string b "M{";
    List.iter (fun (k, x) -> Buffer.add_string b (" K" ^ hex_of_string k ^ " "); print_value b x) d';
    Buffer.add_string b " }"

let find_sdesc (name : Stdlib.String.t) : sdesc =
  match find_struct (coqstr name) gen_schema.sc_structs with
  | Some s -> s
  | None -> raise (Parse ("unknown struct " ^ name))

let parse_msg (toks : Stdlib.String.t list) : msg * Stdlib.String.t list =
  match toks with
  | [] -> raise (Parse "struct name expected")
  | name :: rest ->
    let s = find_sdesc name in
    let rec fields (fs : field list) toks acc =
      match fs with
      | [] -> (List.rev acc, toks)
      | f :: fs' ->
        let (v, r) = parse_value2 toks in
        let fv = match f.f_kind, v with
          | FKId, VInt (_, z) -> FId z
          | (FKUri | FKStr), VStr s -> FStr s
          | FKDict, VNull -> FDict None
          | FKDict, VDict d -> FDict (Some d)
          | FKList, VNull -> FList None
          | FKList, VList l -> FList (Some l)
          | FKMsgType, VInt (_, z) -> FMt z
          | _, _ -> raise (Parse ("field " ^ ocamlstr f.f_name ^ " of " ^ name ^ ": value of the wrong kind")) in
        fields fs' r (fv :: acc) in
    let (l, r) = fields s.s_fields rest [] in
    ({ m_struct = s.s_name; m_fields = l }, r)

let print_msg (b : Buffer.t) (m : msg) : unit =
  Buffer.add_string b (ocamlstr m.m_struct);
  List.iter (fun fv ->
      Buffer.add_char b ' ';
      match fv with
      | FId z -> Buffer.add_string b ("U" ^ dec_of_z z)
      | FStr s -> Buffer.add_string b ("S" ^ hex_of_bytes s)
      | FDict None -> Buffer.add_string b "N"
      | FDict (Some d) -> print_value b (VDict d)
      | FList None -> Buffer.add_string b "N"
      | FList (Some l) -> print_value b (VList l)
      | FMt z -> Buffer.add_string b ("I" ^ dec_of_z z)) m.m_fields

let format_of = function
  | "json" -> FJson | "msgpack" -> FMsgpack | "cbor" -> FCbor
  | s -> raise (Parse ("format " ^ s))

let intended_shape : ser_shape =
  { gen_shape with sh_conv = CVExact;
                   sh_top_json = TRAnyThenAssert; sh_top_msgpack = TRAnyThenAssert; sh_top_cbor = TRAnyThenAssert }

(* an unknown rule (translator did not recognise the code) is run as the intended one *)
let effective (sh : ser_shape) : ser_shape =
  let t r = match r with TRUnknown -> TRAnyThenAssert | _ -> r in
  let c r d = match r with CRUnknown -> d | _ -> r in
  { sh with sh_conv = (match sh.sh_conv with CVUnknown -> CVExact | x -> x);
            sh_top_json = t sh.sh_top_json; sh_top_msgpack = t sh.sh_top_msgpack; sh_top_cbor = t sh.sh_top_cbor;
            sh_code_json = c sh.sh_code_json CRUint64Only; sh_code_msgpack = c sh.sh_code_msgpack CRInt64OrUint64;
            sh_code_cbor = c sh.sh_code_cbor CRUint64Only }

let shape_gen = effective gen_shape
let shape_int = effective intended_shape

let errk_str = function
  | EDecode -> "decode" | EInvalidMessage -> "invalid" | EFormat -> "format" | EUnknownType -> "unknowntype"
  | EField i -> let rec nat_to_int = function O -> 0 | S k -> 1 + nat_to_int k in "field" ^ string_of_int (nat_to_int i)

let print_outcome (b : Buffer.t) (o : outcome) : unit =
  match o with
  | OOk m -> Buffer.add_string b "ok "; print_msg b m
  | OErr e -> Buffer.add_string b ("err " ^ errk_str e)
  | OPanic -> Buffer.add_string b "panic"
  | OUnsup -> Buffer.add_string b "unsup"
  | OFuel -> Buffer.add_string b "fuel"

let code_rule_of sh fm = match fm with FJson -> sh.sh_code_json | FMsgpack -> sh.sh_code_msgpack | FCbor -> sh.sh_code_cbor

let split_semicolon (toks : Stdlib.String.t list) : Stdlib.String.t list * Stdlib.String.t list =
  let rec go acc = function
    | ";" :: r -> (List.rev acc, r)
    | x :: r -> go (x :: acc) r
    | [] -> raise (Parse "';' expected") in
  go [] toks

let diag_items (b : Buffer.t) (fm : format) (l : value list) : unit =
  match l with
  | [] -> Buffer.add_string b "empty"
  | c :: rest ->
    (match code_of (code_rule_of shape_int fm) c with
     | None -> Buffer.add_string b "code=unacceptable"
     | Some code ->
       (match find_new code gen_schema.sc_new with
        | None -> Buffer.add_string b "code=unknown"
        | Some nc ->
          (match find_struct nc.n_struct gen_schema.sc_structs with
           | None -> Buffer.add_string b "struct=missing"
           | Some sd ->
             let rec go i fs its = match fs, its with
               | f :: fs', it :: its' ->
                 if compatible f.f_kind it then go (i + 1) fs' its'
                 else begin
                   let fk = (match f.f_kind with FKId -> "id" | FKUri -> "uri" | FKStr -> "string" | FKDict -> "dict"
                                              | FKList -> "list" | FKMsgType -> "msgtype" | FKOther -> "other") in
                   let ik = (match it with
                       | VNull -> "nil" | VBool _ -> "bool"
                       | VInt (KI64, z) -> (match z with Zneg _ -> "negative-int64" | _ -> "int64")
                       | VInt (KU64, _) -> "uint64" | VFloat _ -> "float64" | VStr _ -> "string" | VBin _ -> "bytes"
                       | VList _ -> "list" | VDict _ -> "dict") in
                   Buffer.add_string b (Printf.sprintf "field=%d fkind=%s item=%s" i fk ik)
                 end
               | _, _ -> Buffer.add_string b "all-compatible" in
             go 1 sd.s_fields rest)))

let handle (b : Buffer.t) (op : Stdlib.String.t) (args : Stdlib.String.t list) : unit =
  match op, args with
  | "ser", f :: rest ->
    let fm = format_of f in
    let (m, _) = parse_msg rest in
    (match serialize fprint_go gen_mp_opts gen_schema fm m with
     | SerOk bs -> Buffer.add_string b ("ok " ^ hex_of_bytes bs)
     | SerPanic -> Buffer.add_string b "panic"
     | SerIllTyped -> Buffer.add_string b "illtyped")
  | ("des" | "desx"), [f; h] ->
    let fm = format_of f in
    let sh = if op = "des" then shape_gen else shape_int in
    print_outcome b (deserialize fparse_go gen_mp_opts sh gen_schema fm (bytes_of_hex h))
  | ("des" | "desx"), [f] ->
    let fm = format_of f in
    let sh = if op = "des" then shape_gen else shape_int in
    print_outcome b (deserialize fparse_go gen_mp_opts sh gen_schema fm [])
  | "dec", f :: hs ->
    let fm = format_of f in
    let h = match hs with [h] -> h | [] -> "" | _ -> raise (Parse "dec: one hex argument") in
    (match decode_value fparse_go gen_mp_opts fm (bytes_of_hex h) with
     | DOk (v, r) -> Buffer.add_string b "ok "; print_value b v; Buffer.add_string b (" rest=" ^ string_of_int (List.length r))
     | DErr -> Buffer.add_string b "err"
     | DUnsup -> Buffer.add_string b "unsup"
     | DFuel -> Buffer.add_string b "fuel")
  | "enc", f :: rest ->
    let fm = format_of f in
    let (v, _) = parse_value2 rest in
    Buffer.add_string b ("ok " ^ hex_of_bytes (encode_value fprint_go gen_mp_opts fm v))
  | ("l2m" | "l2mx"), f :: rest ->
    let fm = format_of f in
    let sh = if op = "l2m" then shape_gen else shape_int in
    (match parse_value2 rest with
     | (VList l, _) -> print_outcome b (from_list sh.sh_conv (code_rule_of sh fm) gen_schema l)
     | _ -> raise (Parse "l2m: list expected"))
  | "rt", f :: rest ->
    let fm = format_of f in
    let (a, c) = split_semicolon rest in
    let (m, _) = parse_msg a in
    let (m', _) = parse_msg c in
    Buffer.add_string b (if roundtrip_ok fm m m' then "true" else "false")
  | "rtv", f :: rest ->
    let fm = format_of f in
    let (a, c) = split_semicolon rest in
    let (v, _) = parse_value2 a in
    let (v', _) = parse_value2 c in
    Buffer.add_string b (if value_roundtrip_ok fm v v' then "true" else "false")
  | "canon", f :: rest ->
    let fm = format_of f in
    let (m, _) = parse_msg rest in
    Buffer.add_string b "ok "; print_msg b (msg_norm (canon_msg fm m))
  | "canonv", f :: rest ->
    let fm = format_of f in
    let (v, _) = parse_value2 rest in
    Buffer.add_string b "ok "; print_value b (canon fm v)
  | "diag", [f; h] ->
    (* why the intended model rejects what the implementation accepted: the
       first item that is not compatible with its field, or a non-list *)
    let fm = format_of f in
    let bs = bytes_of_hex h in
    (match decode_value fparse_go gen_mp_opts fm bs with
     | DOk (VList l, _) -> diag_items b fm l
     | DOk (VDict _, _) -> Buffer.add_string b "top=map"
     | DOk (_, _) -> Buffer.add_string b "top=not-a-list"
     | DUnsup | DErr | DFuel -> Buffer.add_string b "undecodable")
  | "diagl", f :: rest ->
    let fm = format_of f in
    (match parse_value2 rest with
     | (VList l, _) -> diag_items b fm l
     | _ -> raise (Parse "diagl: list expected"))
  | "equiv", rest ->
    let (a, c) = split_semicolon rest in
    let (m, _) = parse_msg a in
    let (m', _) = parse_msg c in
    Buffer.add_string b (if msg_equiv m m' then "true" else "false")
  | "info", _ ->
    let cv = match gen_shape.sh_conv with CVReflect -> "CVReflect" | CVExact -> "CVExact" | CVUnknown -> "CVUnknown" in
    Buffer.add_string b ("schema_ok=" ^ string_of_bool (schema_ok gen_schema) ^ " conv=" ^ cv)
  | _ -> raise (Parse ("bad request " ^ op))

let () =
  let out = Buffer.create 65536 in
  (try
     while true do
       let line = input_line stdin in
       let toks = List.filter (fun s -> s <> "") (String.split_on_char ' ' line) in
       (match toks with
        | id :: op :: args ->
          Buffer.add_string out id; Buffer.add_char out ' ';
          (try handle out op args with
           | Parse m -> Buffer.add_string out ("parse-error " ^ m)
           | Failure m -> Buffer.add_string out ("parse-error " ^ m)
           | Stack_overflow -> Buffer.add_string out "driver-stack-overflow");
          Buffer.add_char out '\n'
        | _ -> ());
       if Buffer.length out > 1 lsl 20 then begin print_string (Buffer.contents out); Buffer.clear out end
     done
   with End_of_file -> ());
  print_string (Buffer.contents out)
