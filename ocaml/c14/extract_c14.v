(* Extraction of the C14 model (run by tools/checks/c14.py with cwd = the
   build directory that receives c14model.ml / .mli).  ExtrOcamlBasic only;
   N, Z, positive, nat, byte, string stay the extracted inductives. *)
Require Extraction.
From Coq Require Import ExtrOcamlBasic.
From Nexus Require Import Codec.Bytes Codec.Values Codec.Utf8 Codec.Tlv Codec.MsgPack Codec.Cbor Codec.Json
     Codec.Schema Codec.MsgList Codec.Serial Codec.Canon gen.GenC14Schema.
Extraction Language OCaml.
Extraction "c14model.ml"
  b2n n2b
  value_eqb value_equiv dicts_ok
  encode_value decode_value deserialize serialize items_of
  msg_to_list list_to_msg from_list code_of compatible
  canon canon_msg msg_norm msg_eqb msg_equiv roundtrip_ok value_roundtrip_ok
  find_struct find_new
  gen_schema gen_mp_opts gen_shape gen_codes schema_ok mp_opts_nexus.
