(* C08: extraction of the monitor (Order/Spec.v).  ExtrOcamlBasic only; N stays
   the extracted inductive.  Compiled by tools/checks/c08.py in the build dir. *)
Require Extraction.
From Coq Require Import ExtrOcamlBasic.
From Nexus Require Import Order.Model Order.Spec.
Extraction "model" monitor bad_keys sel_event sel_inv sel_res mon_event_order mon_call_order
  mon_progress_order mon_sub mon_reg.
