(* C08 monitor driver.  stdin: logs written by go/cmd/c08drive, one receiver
   log per "R" block:

     R <burst> <receiver>
     E <sub> <publisher|-> <topic> <seq>      EVENT
     S <sub>                                 SUBSCRIBED
     U <sub>                                 UNSUBSCRIBED
     I <reg> <inv> <caller> <call> <seq> <first>   INVOCATION
     G <reg>                                 REGISTERED
     H <reg>                                 UNREGISTERED
     X <call> <seq> <from> <progress>        RESULT   (non-progressive = final)
     Z <call>                                ERROR(CALL)
     O                                       anything else
     .                                       end of block

   stdout: "V <burst> <receiver> <claim numbers...>" for each log the extracted
   monitor rejects, then "DONE <logs> <messages> <rejected>".  With argument
   "-v" also "OK <burst> <receiver> <n>" per accepted log. *)
open Model

let rec pos_of_int (n : int) : positive =
  if n = 1 then XH
  else if n land 1 = 0 then XO (pos_of_int (n lsr 1))
  else XI (pos_of_int (n lsr 1))

let n_of_int (n : int) : n = if n <= 0 then N0 else Npos (pos_of_int n)

let rec int_of_pos = function
  | XH -> 1
  | XO p -> 2 * int_of_pos p
  | XI p -> 2 * int_of_pos p + 1

let int_of_n = function N0 -> 0 | Npos p -> int_of_pos p

let ni s = n_of_int (int_of_string s)
let bi s = s <> "0"

let parse (toks : string list) : smsg =
  match toks with
  | [ "E"; sb; p; t; y ] ->
      SEvent (ni sb, (if p = "-" then None else Some (ni p)), ni t, ni y)
  | [ "S"; sb ] -> SSubscribed (ni sb)
  | [ "U"; sb ] -> SUnsubscribed (ni sb)
  | [ "I"; rg; inv; c; cid; y; f ] -> SInvocation (ni rg, ni inv, ni c, ni cid, ni y, bi f)
  | [ "G"; rg ] -> SRegistered (ni rg)
  | [ "H"; rg ] -> SUnregistered (ni rg)
  | [ "X"; cid; y; e; pr ] -> SResult (ni cid, ni y, ni e, bi pr, not (bi pr))
  | [ "Z"; cid ] -> SErrorCall (ni cid, true)
  | "O" :: _ -> SOther N0
  | _ -> failwith ("c08mon: bad line: " ^ String.concat " " toks)

let () =
  let verbose = Array.length Sys.argv > 1 && Sys.argv.(1) = "-v" in
  let logs = ref 0 and msgs = ref 0 and bad = ref 0 in
  let cur = ref [] and hdr = ref ("", "") and inblock = ref false and lossy = ref false in
  let flush_block () =
    if !inblock then begin
      let l = List.rev !cur in
      incr logs;
      msgs := !msgs + List.length l;
      let r = monitor l in
      (* a receiver whose queue dropped messages: the SUBSCRIBED / REGISTERED
         claims are conditional on no such drop (Props/C08.v), not evaluated *)
      let r = if !lossy then List.filter (fun x -> let i = int_of_n x in i <> 4 && i <> 5) r else r in
      (match r with
       | [] -> if verbose then Printf.printf "OK %s %s %d\n" (fst !hdr) (snd !hdr) (List.length l)
       | _ ->
           incr bad;
           Printf.printf "V %s %s %s\n" (fst !hdr) (snd !hdr)
             (String.concat " " (List.map (fun x -> string_of_int (int_of_n x)) r)));
      cur := [];
      inblock := false
    end
  in
  (try
     while true do
       let line = input_line stdin in
       let toks = List.filter (fun s -> s <> "") (String.split_on_char ' ' (String.trim line)) in
       match toks with
       | [] -> ()
       | [ "R"; b; r ] -> flush_block (); hdr := (b, r); inblock := true; lossy := false
       | [ "R"; b; r; "lossy" ] -> flush_block (); hdr := (b, r); inblock := true; lossy := true
       | [ "." ] -> flush_block ()
       | _ -> cur := parse toks :: !cur
     done
   with
   | End_of_file -> flush_block ()
   | Failure _ ->
       (* a log cut short by a dying harness process: the incomplete block is not judged *)
       cur := []; inblock := false);
  Printf.printf "DONE %d %d %d\n" !logs !msgs !bad
