(* Hand-written driver around the extracted router model (router_model.ml).
   Reads one command per line on stdin, prints observations on stdout.

   (the state is one extracted RouterTop.router value; each command is one rstep)
   rmrealm <idx> | tryrm <idx>   remove a realm: its clients are told GOODBYE system_shutdown
   realm <idx> <strict> <disclose> <meta_strict> <kill> <modify> <local_authz>
         <nhist> (<hextopic> <hexmatch> <limit>)* <nrules> (<code> <hexuri|*> <sid> <act> [<hexuri>])*
   try <idx> <op...>     run one op, print its outputs, do NOT commit
   do  <idx> <op...>     run one op, print its outputs, commit
   ops:  join <sid> <local> <dict> | drop <sid> | tick <ms>
         msg <sid> <oracle> pub <req> <dict> <hex> <list> <dict> | sub <req> <dict> <hex>
             | unsub <req> <id> | reg <req> <dict> <hex> | unreg <req> <id>
             | call <req> <dict> <hex> <list> <dict> | cancel <req> <dict>
             | yield <req> <dict> <list> <dict> | err <ty> <req> <dict> <hex> <list> <dict>
             | bye | other <code>
   values: N | T | F | I<i|l|u|d|f> <decimal> | S<s|u|b> <hex|-> | L <n> v.. | D <n> (<hex|-> v)..
   output: "out <sid> <value>" per message, "sizes n.." , "end". *)
module M = Router_model

let coq_ascii (c : char) : M.ascii =
  let n = Char.code c in
  let b i = (n lsr i) land 1 = 1 in
  M.Ascii (b 0, b 1, b 2, b 3, b 4, b 5, b 6, b 7)

let ocaml_char (a : M.ascii) : char =
  match a with
  | M.Ascii (b0, b1, b2, b3, b4, b5, b6, b7) ->
    let v b i = if b then 1 lsl i else 0 in
    Char.chr (v b0 0 + v b1 1 + v b2 2 + v b3 3 + v b4 4 + v b5 5 + v b6 6 + v b7 7)

let coq_string (s : Stdlib.String.t) : M.string =
  let r = ref M.EmptyString in
  for i = Stdlib.String.length s - 1 downto 0 do r := M.String (coq_ascii s.[i], !r) done;
  !r

let ocaml_string (s : M.string) : Stdlib.String.t =
  let b = Buffer.create 16 in
  let rec go = function M.EmptyString -> () | M.String (a, r) -> Buffer.add_char b (ocaml_char a); go r in
  go s; Buffer.contents b

let unhex (h : Stdlib.String.t) : Stdlib.String.t =
  if h = "-" then "" else begin
    let n = Stdlib.String.length h / 2 in
    Stdlib.String.init n (fun i -> Char.chr (int_of_string ("0x" ^ Stdlib.String.sub h (2 * i) 2)))
  end

let hex (s : Stdlib.String.t) : Stdlib.String.t =
  if s = "" then "-" else begin
    let b = Buffer.create (2 * Stdlib.String.length s) in
    Stdlib.String.iter (fun c -> Buffer.add_string b (Printf.sprintf "%02x" (Char.code c))) s;
    Buffer.contents b
  end

let z_of_dec (s : Stdlib.String.t) : M.z =
  match M.z_of_string (coq_string s) with Some z -> z | None -> failwith ("bad integer " ^ s)
let n_of_dec (s : Stdlib.String.t) : M.n =
  match z_of_dec s with M.Z0 -> M.N0 | M.Zpos p -> M.Npos p | M.Zneg _ -> failwith "negative N"
let dec_of_z (z : M.z) = ocaml_string (M.z_to_string z)
let dec_of_n (n : M.n) = ocaml_string (M.n_to_string n)

(* token stream *)
let toks = ref []
let next () = match !toks with [] -> failwith "unexpected end of line" | t :: r -> toks := r; t
let next_int () = int_of_string (next ())
let next_n () = n_of_dec (next ())
let next_bool () = next () = "1"
let next_str () = coq_string (unhex (next ()))

let rec parse_value () : M.value =
  let t = next () in
  match t with
  | "N" -> M.VNull
  | "T" -> M.VBool true
  | "F" -> M.VBool false
  | "L" -> let n = next_int () in M.VList (parse_n n)
  | "D" -> let n = next_int () in M.VDict (parse_pairs n)
  | _ when t.[0] = 'I' ->
    let k = (match t.[1] with 'i' -> M.KInt | 'l' -> M.KInt64 | 'u' -> M.KUint64 | 'd' -> M.KID | 'f' -> M.KFloat
                           | _ -> failwith "bad int kind") in
    M.VInt (k, z_of_dec (next ()))
  | _ when t.[0] = 'S' ->
    let k = (match t.[1] with 's' -> M.SStr | 'u' -> M.SURI | 'b' -> M.SBytes | _ -> failwith "bad string kind") in
    M.VStr (k, next_str ())
  | _ -> failwith ("bad value token " ^ t)
and parse_n n = if n = 0 then [] else let v = parse_value () in v :: parse_n (n - 1)
and parse_pairs n = if n = 0 then [] else let k = next_str () in let v = parse_value () in (k, v) :: parse_pairs (n - 1)

let parse_dict () = match parse_value () with M.VDict d -> d | M.VNull -> [] | _ -> failwith "dict expected"
let parse_list () = match parse_value () with M.VList l -> l | M.VNull -> [] | _ -> failwith "list expected"

let rec print_value (b : Buffer.t) (v : M.value) : unit =
  match v with
  | M.VNull -> Buffer.add_string b "N"
  | M.VBool true -> Buffer.add_string b "T"
  | M.VBool false -> Buffer.add_string b "F"
  | M.VInt (k, z) ->
    Buffer.add_string b (match k with M.KInt -> "Ii " | M.KInt64 -> "Il " | M.KUint64 -> "Iu " | M.KID -> "Id " | M.KFloat -> "If ");
    Buffer.add_string b (dec_of_z z)
  | M.VStr (k, s) ->
    Buffer.add_string b (match k with M.SStr -> "Ss " | M.SURI -> "Su " | M.SBytes -> "Sb ");
    Buffer.add_string b (hex (ocaml_string s))
  | M.VList l ->
    Buffer.add_string b (Printf.sprintf "L %d" (List.length l));
    List.iter (fun x -> Buffer.add_char b ' '; print_value b x) l
  | M.VDict d ->
    Buffer.add_string b (Printf.sprintf "D %d" (List.length d));
    List.iter (fun (k, x) -> Buffer.add_char b ' '; Buffer.add_string b (hex (ocaml_string k));
                Buffer.add_char b ' '; print_value b x) d

let parse_cmsg () : M.cmsg =
  match next () with
  | "pub" -> let req = next_n () in let o = parse_dict () in let t = next_str () in
    let a = parse_list () in let k = parse_dict () in M.CPublish (req, o, t, a, k)
  | "sub" -> let req = next_n () in let o = parse_dict () in let t = next_str () in M.CSubscribe (req, o, t)
  | "unsub" -> let req = next_n () in let id = next_n () in M.CUnsubscribe (req, id)
  | "reg" -> let req = next_n () in let o = parse_dict () in let p = next_str () in M.CRegister (req, o, p)
  | "unreg" -> let req = next_n () in let id = next_n () in M.CUnregister (req, id)
  | "call" -> let req = next_n () in let o = parse_dict () in let p = next_str () in
    let a = parse_list () in let k = parse_dict () in M.CCall (req, o, p, a, k)
  | "cancel" -> let req = next_n () in let o = parse_dict () in M.CCancel (req, o)
  | "yield" -> let req = next_n () in let o = parse_dict () in
    let a = parse_list () in let k = parse_dict () in M.CYield (req, o, a, k)
  | "err" -> let ty = next_n () in let req = next_n () in let d = parse_dict () in let e = next_str () in
    let a = parse_list () in let k = parse_dict () in M.CError (ty, req, d, e, a, k)
  | "bye" -> M.CGoodbye ([], coq_string "wamp.close.close_realm")
  | "other" -> M.COther (next_n ())
  | t -> failwith ("bad message kind " ^ t)

let parse_op () : M.op =
  match next () with
  | "join" -> let sid = next_n () in let local = next_bool () in let h = parse_dict () in M.OJoin (sid, local, h)
  | "drop" -> M.ODrop (next_n ())
  | "tick" -> M.OTick (next_n ())
  | "msg" -> let sid = next_n () in let oracle = next_n () in let m = parse_cmsg () in M.OMsg (sid, m, oracle)
  | t -> failwith ("bad op " ^ t)

let parse_config () : M.config =
  let strict = next_bool () in let disclose = next_bool () in let meta_strict = next_bool () in
  let kill = next_bool () in let modify = next_bool () in let local_authz = next_bool () in
  let nh = next_int () in
  let rec hist n = if n = 0 then [] else
      let t = next_str () in let m = next_str () in let l = next_n () in
      { M.hc_topic = t; M.hc_match = m; M.hc_limit = l } :: hist (n - 1) in
  let h = hist nh in
  let nr = next_int () in
  let rec rules n = if n = 0 then [] else
      let code = next_n () in
      let u = (match next () with "*" -> None | x -> Some (coq_string (unhex x))) in
      let sid = next_n () in
      let act = (match next () with
          | "allow" -> M.ActAllow | "deny" -> M.ActDeny | "fail" -> M.ActFail
          | "rewrite" -> M.ActRewrite (next_str ())
          | x -> failwith ("bad action " ^ x)) in
      { M.ar_code = code; M.ar_uri = u; M.ar_sid = sid; M.ar_act = act } :: rules (n - 1) in
  let rs = rules nr in
  { M.c_strict = strict; M.c_disclose = disclose; M.c_meta_strict = meta_strict;
    M.c_meta_kill = kill; M.c_meta_modify = modify; M.c_local_authz = local_authz;
    M.c_hist = h; M.c_authz = (if nr = 0 then None else Some (M.table_authz rs)) }

(* The whole state is one value of the extracted [router] type; every command
   is one [rstep] (RouterTop.v).  "try" computes without committing. *)
let state : M.router ref = ref []

let rec find_realm (l : (M.n * M.realm) list) (i : M.n) : M.realm option =
  match l with [] -> None | (k, r) :: t -> if k = i then Some r else find_realm t i

let () =
  let b = Buffer.create 4096 in
  (try
     while true do
       let line = input_line stdin in
       toks := List.filter (fun s -> s <> "") (Stdlib.String.split_on_char ' ' line);
       Buffer.clear b;
       (try
          let emit (outs : (M.n * (M.n * M.rmsg)) list) =
            List.iter (fun (_, (sid, m)) ->
                Buffer.add_string b "out "; Buffer.add_string b (dec_of_n sid); Buffer.add_char b ' ';
                print_value b (M.msg_value m); Buffer.add_char b '\n') outs in
          (match next () with
           | "realm" ->
             let idx = next_n () in
             let cfg = parse_config () in
             let (rt, outs) = M.rstep !state (M.RAddRealm (idx, cfg)) in
             state := rt; emit outs
           | "rtick" ->
             (* time passes in ONE realm only: a realm created at virtual time T
                is brought to the router's clock (the model has no router-level
                clock; init_realm starts at 0) *)
             let idx = next_n () in
             let ms = next_n () in
             let (rt, outs) = M.rstep !state (M.ROp (idx, M.OTick ms)) in
             state := rt; emit outs
           | ("tryrm" | "rmrealm") as cmd ->
             let idx = next_n () in
             let (rt, outs) = M.rstep !state (M.RRemoveRealm idx) in
             if cmd = "rmrealm" then state := rt;
             emit outs
           | ("try" | "do") as cmd ->
             let idx = next_n () in
             let o = parse_op () in
             let rop = (match o with M.OTick ms -> M.RTick ms | _ -> M.ROp (idx, o)) in
             let (rt, outs) = M.rstep !state rop in
             if cmd = "do" then state := rt;
             emit outs;
             (match find_realm (M.rt_realms rt) idx with
              | Some r ->
                Buffer.add_string b "sizes";
                List.iter (fun n -> Buffer.add_char b ' '; Buffer.add_string b (dec_of_n n)) (M.sizes r);
                Buffer.add_char b '\n'
              | None -> ())
           | "quit" -> raise End_of_file
           | t -> failwith ("bad command " ^ t))
        with Failure m -> Buffer.clear b; Buffer.add_string b ("error " ^ m ^ "\n")
           | Not_found -> Buffer.clear b; Buffer.add_string b "error no such realm\n");
       Buffer.add_string b "end\n";
       print_string (Buffer.contents b); flush stdout
     done
   with End_of_file -> ())
