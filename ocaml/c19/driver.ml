(* Runner for the extracted C19 models (c19gen / c19ref; the same source is
   linked against either model.ml).

   stdin : one case per line, as written by go/cmd/c19drive, holding the
           inputs AND what the real nexus function returned
   stdout: "MISMATCH <line> || model=<what the model says>" for every
           disagreement, "ECHO <line> || model=..." for every line with
           -echo, and a final "SUMMARY lines=<n> mismatches=<k> skipped=<s>".
   "driver diag" prints the diagnostics of the per-run regex obligations.

   Strings are hex ("-" = empty), numbers are hex (signed kinds with a
   leading '-').  No arithmetic is done here: numbers are converted digit by
   digit into the extracted binary representation. *)

open Model

let ascii_of_int c =
  Ascii (c land 1 <> 0, c land 2 <> 0, c land 4 <> 0, c land 8 <> 0,
         c land 16 <> 0, c land 32 <> 0, c land 64 <> 0, c land 128 <> 0)

let int_of_ascii (Ascii (b0, b1, b2, b3, b4, b5, b6, b7)) =
  let v b k = if b then k else 0 in
  v b0 1 + v b1 2 + v b2 4 + v b3 8 + v b4 16 + v b5 32 + v b6 64 + v b7 128

let hexval c =
  match c with
  | '0' .. '9' -> Char.code c - 48
  | 'a' .. 'f' -> Char.code c - 87
  | 'A' .. 'F' -> Char.code c - 55
  | _ -> failwith ("bad hex digit " ^ String.make 1 c)

let bytes_of_hex s =
  if s = "-" then []
  else begin
    let n = String.length s / 2 in
    List.init n (fun i -> ascii_of_int (hexval s.[2 * i] * 16 + hexval s.[2 * i + 1]))
  end

let hex_of_bytes l =
  if l = [] then "-"
  else String.concat "" (List.map (fun a -> Printf.sprintf "%02x" (int_of_ascii a)) l)

(* bits, most significant first *)
let bits_of_hex s =
  let l = ref [] in
  String.iter (fun c -> let v = hexval c in
                l := (v land 1 <> 0) :: (v land 2 <> 0) :: (v land 4 <> 0) :: (v land 8 <> 0) :: !l) s;
  List.rev !l

let n_of_hex s =
  let rec strip = function false :: r -> strip r | l -> l in
  match strip (bits_of_hex s) with
  | [] -> N0
  | _ :: rest -> Npos (List.fold_left (fun p b -> if b then XI p else XO p) XH rest)

let z_of_hex s =
  if String.length s > 0 && s.[0] = '-' then
    (match n_of_hex (String.sub s 1 (String.length s - 1)) with N0 -> Z0 | Npos p -> Zneg p)
  else (match n_of_hex s with N0 -> Z0 | Npos p -> Zpos p)

let hex_of_n n =
  match n with
  | N0 -> "0"
  | Npos p ->
    (* least significant bit first *)
    let rec bits p acc = match p with
      | XH -> true :: acc
      | XO q -> bits q (false :: acc)
      | XI q -> bits q (true :: acc) in
    (* bits p [] yields most significant first *)
    let msb = bits p [] in
    let pad = (4 - List.length msb mod 4) mod 4 in
    let msb = List.init pad (fun _ -> false) @ msb in
    let buf = Buffer.create 16 in
    let rec go = function
      | a :: b :: c :: d :: r ->
        let v = (if a then 8 else 0) + (if b then 4 else 0) + (if c then 2 else 0) + (if d then 1 else 0) in
        Buffer.add_char buf "0123456789abcdef".[v]; go r
      | _ -> () in
    go msb; Buffer.contents buf

let rec pos_bits = function XH -> 1 | XO q | XI q -> 1 + pos_bits q

let policy_of = function
  | "e" | "o" -> MExact | "p" -> MPrefix | "w" -> MWildcard
  | s -> failwith ("bad policy " ^ s)
let policy_str = function MExact -> "e" | MPrefix -> "p" | MWildcard -> "w"

let b01 b = if b then "1" else "0"
let ob = function Some true -> "1" | Some false -> "0" | None -> "X"

let value_of kind payload =
  match kind with
  | "int64" -> VInt64 (z_of_hex payload)
  | "int" -> VInt (z_of_hex payload)
  | "int32" -> VInt32 (z_of_hex payload)
  | "id" -> VID (n_of_hex payload)
  | "uint64" -> VUint64 (n_of_hex payload)
  | "uint" -> VUint (n_of_hex payload)
  | "uint32" -> VUint32 (n_of_hex payload)
  | "float64" -> VFloat64 (n_of_hex payload)
  | "float32" -> VFloat32 (n_of_hex payload)
  | "other" -> VOther
  | s -> failwith ("bad kind " ^ s)

let split line = String.split_on_char ' ' line |> List.filter (fun s -> s <> "")

(* returns (expected fields from the line, model fields) *)
let eval fields =
  match fields with
  | ["V"; s; p; h; r] ->
    [r], [b01 (m_valid_uri (s = "1") (policy_of p) (bytes_of_hex h))]
  | ["P"; u; p; r] -> [r], [ob (m_prefix (bytes_of_hex u) (bytes_of_hex p))]
  | ["W"; u; w; r] -> [r], [ob (m_wildcard (bytes_of_hex u) (bytes_of_hex w))]
  | ("N" | "S") :: st :: k :: rs ->
    let k = int_of_string k in
    let rec go s k = if k = 0 then [] else let (s', r) = m_idgen_next s in hex_of_n r :: go s' (k - 1) in
    rs, go (n_of_hex st) k
  | ["I"; last; id; r] -> [r], [b01 (m_is_new (n_of_hex last) (n_of_hex id))]
  | ["U"; last; id; "X"] ->
    (* the harness could not reach this state through the API, or the API
       path and the direct path disagreed *)
    let (nl', r') = m_update (n_of_hex last) (n_of_hex id) in ["X"], [hex_of_n nl'; b01 r']
  | ["U"; last; id; nl; r] ->
    let (nl', r') = m_update (n_of_hex last) (n_of_hex id) in [nl; r], [hex_of_n nl'; b01 r']
  | ["A"; kind; payload; id; ok] ->
    let (id', ok') = m_as_id (value_of kind payload) in [id; ok], [hex_of_n id'; b01 ok']
  | ["G"; id; idm1] ->
    let r = z_of_hex idm1 in
    let inrange = (match r with Z0 -> true | Zpos p -> pos_bits p <= 53 | Zneg _ -> false) in
    [id; "1"], [hex_of_n (m_global_id r); b01 inrange]
  | ["g"; r] ->
    (* model-only query: the id the model computes for oracle value r *)
    ["?"], [hex_of_n (m_global_id (z_of_hex r))]
  | _ -> failwith "bad line"

(* The reference model speaks about IDGen only for states the generator can
   hold (0 .. 2^53); with -domain other N/S lines are skipped. *)
let in_domain fields =
  match fields with
  | ("N" | "S") :: st :: _ ->
    (match n_of_hex st with
     | N0 -> true
     | Npos p -> pos_bits p <= 53 || String.lowercase_ascii st = "20000000000000")
  | _ -> true

let diag () =
  List.iter (fun (((s, p), (resp, off)), (bis, diff)) ->
      Printf.printf "D %s %s respects=%s offenders=%s bisim=%s diff=%s\n"
        (b01 s) (policy_str p) (b01 resp) (hex_of_bytes off) (b01 bis)
        (match diff with None -> "none" | Some w -> hex_of_bytes w))
    (m_diag ())

let () =
  let args = Array.to_list Sys.argv |> List.tl in
  if List.mem "diag" args then diag ()
  else begin
    let echo = List.mem "-echo" args in
    let domain = List.mem "-domain" args in
    let skip_g = List.mem "-skipG" args in
    let n = ref 0 and bad = ref 0 and skipped = ref 0 in
    (try
       while true do
         let line = input_line stdin in
         if String.length line > 0 && line.[0] <> '#' then begin
           incr n;
           let fields = split line in
           if (skip_g && (match fields with "G" :: _ -> true | _ -> false))
              || (domain && not (try in_domain fields with Failure _ -> true)) then incr skipped else
           match (try Some (eval fields) with Failure _ | Invalid_argument _ -> None) with
           | None -> incr skipped; Printf.printf "BADLINE %s\n" line
           | Some (exp, got) ->
             if exp <> got then begin
               incr bad;
               Printf.printf "MISMATCH %s || model=%s\n" line (String.concat " " got)
             end else if echo then
               Printf.printf "ECHO %s || model=%s\n" line (String.concat " " got)
         end
       done
     with End_of_file -> ());
    Printf.printf "SUMMARY lines=%d mismatches=%d skipped=%d\n" !n !bad !skipped
  end
