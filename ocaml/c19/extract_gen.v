(* Extraction of the GENERATED C19 model (coq/gen/GenC19*.v behind the
   interface of coq/Wamp/C19GenModel.v) for the runner c19gen.
   Compiled per run with cwd = the build directory that receives model.ml. *)
Require Extraction.
From Coq Require Import ExtrOcamlBasic.
From Nexus Require Import Wamp.C19GenModel.
Extraction Language OCaml.
Extraction "model.ml" C19GenModel.m_valid_uri C19GenModel.m_prefix C19GenModel.m_wildcard
  C19GenModel.m_idgen_next C19GenModel.m_is_new C19GenModel.m_update C19GenModel.m_as_id
  C19GenModel.m_global_id C19GenModel.m_diag.
