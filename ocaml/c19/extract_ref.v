(* Extraction of the hand-written reference model (the rules of C19 as
   boolean functions, coq/Wamp/C19RefModel.v) for the runner c19ref. *)
Require Extraction.
From Coq Require Import ExtrOcamlBasic.
From Nexus Require Import Wamp.C19RefModel.
Extraction Language OCaml.
Extraction "model.ml" C19RefModel.m_valid_uri C19RefModel.m_prefix C19RefModel.m_wildcard
  C19RefModel.m_idgen_next C19RefModel.m_is_new C19RefModel.m_update C19RefModel.m_as_id
  C19RefModel.m_global_id C19RefModel.m_diag.
