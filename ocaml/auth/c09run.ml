(* Driver for the extracted C09 handshake model.

   stdin : one case per line, as an s-expression (grammar in docs/C09.md)
   stdout: one observation per line, as a canonical s-expression
           (dictionary keys sorted, strings hex-encoded with an 'x' prefix).

   Hand-written part of the trusted base: the parser, the conversions between
   OCaml and extracted values, the printer.  No model logic lives here. *)
module M = C09model

(* ---------- s-expressions ---------- *)
type sexp = A of string | L of sexp list

let parse_sexp (s : string) : sexp =
  let n = String.length s in
  let pos = ref 0 in
  let rec skip () =
    if !pos < n && (s.[!pos] = ' ' || s.[!pos] = '\t' || s.[!pos] = '\n' || s.[!pos] = '\r')
    then (incr pos; skip ()) in
  let rec item () =
    skip ();
    if !pos >= n then failwith "unexpected end of input";
    if s.[!pos] = '(' then begin
      incr pos;
      let items = ref [] in
      let rec loop () =
        skip ();
        if !pos >= n then failwith "unterminated list";
        if s.[!pos] = ')' then incr pos
        else (items := item () :: !items; loop ()) in
      loop ();
      L (List.rev !items)
    end else begin
      let st = !pos in
      while !pos < n && not (s.[!pos] = ' ' || s.[!pos] = '(' || s.[!pos] = ')'
                             || s.[!pos] = '\t' || s.[!pos] = '\n' || s.[!pos] = '\r') do incr pos done;
      if !pos = st then failwith "empty atom";
      A (String.sub s st (!pos - st))
    end in
  let r = item () in
  skip ();
  if !pos <> n then failwith "trailing input";
  r

(* ---------- conversions ---------- *)
let ascii_of_char (c : char) : M.ascii =
  let k = Char.code c in
  let b i = (k lsr i) land 1 = 1 in
  M.Ascii (b 0, b 1, b 2, b 3, b 4, b 5, b 6, b 7)

let char_of_ascii (a : M.ascii) : char =
  match a with
  | M.Ascii (b0, b1, b2, b3, b4, b5, b6, b7) ->
    let v b i = if b then 1 lsl i else 0 in
    Char.chr (v b0 0 + v b1 1 + v b2 2 + v b3 3 + v b4 4 + v b5 5 + v b6 6 + v b7 7)

let to_cstr (s : string) : M.string =
  let r = ref M.EmptyString in
  for i = String.length s - 1 downto 0 do r := M.String (ascii_of_char s.[i], !r) done;
  !r

let of_cstr (s : M.string) : string =
  let b = Buffer.create 64 in
  let rec go = function
    | M.EmptyString -> ()
    | M.String (a, r) -> Buffer.add_char b (char_of_ascii a); go r in
  go s; Buffer.contents b

let rec to_pos (k : int) : M.positive =
  if k <= 1 then M.XH
  else if k land 1 = 1 then M.XI (to_pos (k lsr 1)) else M.XO (to_pos (k lsr 1))

let rec of_pos : M.positive -> int = function
  | M.XH -> 1 | M.XO p -> 2 * of_pos p | M.XI p -> 2 * of_pos p + 1

let to_n (k : int) : M.n = if k <= 0 then M.N0 else M.Npos (to_pos k)
let of_n : M.n -> int = function M.N0 -> 0 | M.Npos p -> of_pos p
let to_z (k : int) : M.z = if k = 0 then M.Z0 else if k > 0 then M.Zpos (to_pos k) else M.Zneg (to_pos (- k))
let of_z : M.z -> int = function M.Z0 -> 0 | M.Zpos p -> of_pos p | M.Zneg p -> - (of_pos p)

let unhex (a : string) : string =
  (* atom "x<hex>" *)
  if String.length a < 1 || a.[0] <> 'x' then failwith ("bad string atom " ^ a);
  let h = String.sub a 1 (String.length a - 1) in
  let n = String.length h in
  if n mod 2 <> 0 then failwith "odd hex";
  let d c = match c with
    | '0'..'9' -> Char.code c - 48 | 'a'..'f' -> Char.code c - 87
    | _ -> failwith "bad hex digit" in
  String.init (n / 2) (fun i -> Char.chr (16 * d h.[2*i] + d h.[2*i+1]))

let hex (s : string) : string =
  let b = Buffer.create (2 * String.length s + 1) in
  Buffer.add_char b 'x';
  String.iter (fun c -> Buffer.add_string b (Printf.sprintf "%02x" (Char.code c))) s;
  Buffer.contents b

let str = function A a -> to_cstr (unhex a) | _ -> failwith "string expected"
let boolean = function A "1" -> true | A "0" -> false | _ -> failwith "0/1 expected"
let integer = function A a -> int_of_string a | _ -> failwith "integer expected"

let rec value : sexp -> M.value = function
  | A "null" -> M.VNull
  | A "true" -> M.VBool true
  | A "false" -> M.VBool false
  | L [A "i"; k] -> M.VInt (to_z (integer k))
  | L [A "fl"; x] -> M.VFloat (str x)
  | L [A "s"; x] -> M.VStr (str x)
  | L [A "b"; x] -> M.VBytes (str x)
  | L [A "u"; x] -> M.VUri (str x)
  | L (A "l" :: vs) -> M.VList (List.map value vs)
  | L (A "d" :: _) as d -> M.VDict (dict d)
  | _ -> failwith "bad value"
and dict : sexp -> M.dict = function
  | L (A "d" :: kvs) ->
    List.map (function L [k; v] -> (str k, value v) | _ -> failwith "bad dict entry") kvs
  | _ -> failwith "dict expected"

let opt f = function A "none" -> None | x -> Some (f x)

let user : sexp -> M.user = function
  | L [A "user"; a; role; L keys; salt; keylen; iters] ->
    { M.u_authid = str a; u_role = opt str role;
      u_keys = List.map (function L [m; k] -> (str m, str k) | _ -> failwith "bad key") keys;
      u_salt = str salt; u_keylen = to_z (integer keylen); u_iters = to_z (integer iters) }
  | _ -> failwith "bad user"

let keystore : sexp -> M.keystore = function
  | L [A "ks"; provider; bp; L users] ->
    M.table_keystore (str provider) (List.map user users) (boolean bp)
  | _ -> failwith "bad keystore"

let authenticator : sexp -> M.authenticator = function
  | L [A "anonymous"; role] -> M.AAnonymous (str role)
  | L [A "ticket"; ks] -> M.ATicket (keystore ks)
  | L [A "wampcra"; ks] -> M.ACra (keystore ks)
  | L [A "cryptosign"; ks] -> M.ACryptosign (keystore ks)
  | _ -> failwith "bad authenticator"

let realm_cfg : sexp -> M.realm_cfg = function
  | L [A "rc"; anon; la; strict; ms; L auths] ->
    { M.rc_authenticators = List.map authenticator auths; rc_anonymous = boolean anon;
      rc_local_auth = boolean la; rc_strict_uri = boolean strict; rc_meta_strict = boolean ms }
  | _ -> failwith "bad realm config"

let event : sexp -> M.cevent = function
  | A "timeout" -> M.EvTimeout
  | A "closed" -> M.EvClosed
  | L [A "hello"; r; d] -> M.EvMsg (M.CHello (str r, dict d))
  | L [A "auth"; s; d] -> M.EvMsg (M.CAuthenticate (str s, dict d))
  | L [A "abort"; r] -> M.EvMsg (M.CAbort (str r))
  | L [A "other"; c] -> M.EvMsg (M.COther (to_n (integer c)))
  | _ -> failwith "bad event"

let parse_case (sx : sexp) : string * bool * M.case =
  match sx with
  | L [A "case"; A id; bind;
       L [A "router"; closed; L (A "realms" :: realms); template];
       L [A "peer"; local; transport];
       L [A "oracle"; sid; gen; nonce; ts; rk; csc; blocked; rclosed];
       L (A "script" :: evs);
       L (A "cra" :: cra);
       L (A "open" :: opn)] ->
    let rt = { M.rt_realms = List.map (function L [u; rc] -> (str u, realm_cfg rc)
                                              | _ -> failwith "bad realm") realms;
               rt_template = opt realm_cfg template;
               rt_closed = boolean closed } in
    let c = { M.c_router = rt;
              c_peer = { M.p_local = boolean local; p_transport = dict transport };
              c_oracle = { M.o_sid = to_n (integer sid); o_gen_authid = str gen; o_nonce = str nonce;
                           o_timestamp = str ts; o_rand_key = str rk; o_cs_challenge = str csc;
                           o_chal_blocked = boolean blocked; o_realm_closed = boolean rclosed };
              c_script = List.map event evs;
              c_cra = List.map (function L [s; c; k; b] -> (((str s, str c), str k), boolean b)
                                        | _ -> failwith "bad cra entry") cra;
              c_open = List.map (function L [p; s; m] -> ((str p, str s), opt str m)
                                         | _ -> failwith "bad open entry") opn } in
    (id, boolean bind, c)
  | _ -> failwith "bad case"

(* ---------- canonical printing ---------- *)
let rec show_value (b : Buffer.t) (v : M.value) : unit =
  match v with
  | M.VNull -> Buffer.add_string b "null"
  | M.VBool true -> Buffer.add_string b "true"
  | M.VBool false -> Buffer.add_string b "false"
  | M.VInt z -> Buffer.add_string b (Printf.sprintf "(i %d)" (of_z z))
  | M.VFloat s -> Buffer.add_string b ("(fl " ^ hex (of_cstr s) ^ ")")
  | M.VStr s -> Buffer.add_string b ("(s " ^ hex (of_cstr s) ^ ")")
  | M.VBytes s -> Buffer.add_string b ("(b " ^ hex (of_cstr s) ^ ")")
  | M.VUri s -> Buffer.add_string b ("(u " ^ hex (of_cstr s) ^ ")")
  | M.VList l ->
    Buffer.add_string b "(l";
    List.iter (fun x -> Buffer.add_char b ' '; show_value b x) l;
    Buffer.add_char b ')'
  | M.VDict d -> show_dict b d
and show_dict (b : Buffer.t) (d : M.dict) : unit =
  (* first binding of a key wins; keys sorted *)
  let seen = Hashtbl.create 8 in
  let kvs = List.filter_map (fun (k, v) ->
      let k = of_cstr k in
      if Hashtbl.mem seen k then None else (Hashtbl.add seen k (); Some (k, v))) d in
  let kvs = List.sort (fun (a, _) (c, _) -> compare a c) kvs in
  Buffer.add_string b "(d";
  List.iter (fun (k, v) ->
      Buffer.add_string b (" (" ^ hex k ^ " ");
      show_value b v;
      Buffer.add_char b ')') kvs;
  Buffer.add_char b ')'

let show_obs (id : string) (o : M.observation) : string =
  let b = Buffer.create 256 in
  let bit x = if x then "1" else "0" in
  Buffer.add_string b ("(obs " ^ id ^ " (out");
  List.iter (fun m ->
      Buffer.add_char b ' ';
      match m with
      | M.OChallenge (m, e) ->
        Buffer.add_string b ("(challenge " ^ hex (of_cstr m) ^ " "); show_dict b e; Buffer.add_char b ')'
      | M.OWelcome (sid, d) ->
        Buffer.add_string b (Printf.sprintf "(welcome %d " (of_n sid)); show_dict b d; Buffer.add_char b ')'
      | M.OAbort (r, w) ->
        Buffer.add_string b ("(abort " ^ hex (of_cstr r) ^ " " ^ bit w ^ ")")) o.M.ob_out;
  Buffer.add_string b (") " ^ bit o.M.ob_closed ^ " " ^ bit o.M.ob_err ^ " ");
  (match o.M.ob_shown with None -> Buffer.add_string b "none" | Some d -> show_dict b d);
  Buffer.add_string b (" " ^ bit o.M.ob_created ^ " " ^ string_of_int (of_n o.M.ob_effects) ^ ")");
  Buffer.contents b

let () =
  try
    while true do
      let line = input_line stdin in
      if String.trim line <> "" then begin
        match (try Ok (parse_case (parse_sexp line)) with Failure m -> Error m) with
        | Ok (id, bind, c) -> print_endline (show_obs id (M.run_case bind c))
        | Error m -> print_endline ("(error " ^ m ^ ")")
      end
    done
  with End_of_file -> ()
