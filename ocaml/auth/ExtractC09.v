(* Extraction of the C09 handshake model (ExtrOcamlBasic only; N / Z / string
   stay the extracted inductives).  Compiled by tools/checks/c09.py with
   cwd = the build directory that receives c09model.ml(i). *)
Require Extraction.
From Coq Require Import ExtrOcamlBasic.
From Nexus Require Import Auth.Values Auth.Handshake Auth.KeyTable Auth.Runner.
Extraction "c09model.ml" run_case table_keystore.
