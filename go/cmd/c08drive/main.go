// c08drive - dynamic harness for property C08 (per-peer ordering under
// concurrency).
//
// Runs bursts against the REAL router (one fresh router per burst, in-process
// LinkedPeersQSize peers, real goroutine concurrency; GOMAXPROCS is whatever
// the environment says - the check starts one child per setting).  Every
// client has exactly one goroutine writing to its router channel, which
// stamps a per-client sequence number into the payload at the moment of
// sending, and one goroutine reading, which logs what arrives in arrival
// order.  The logs go to -out in the format of ocaml/order/driver.ml (the
// extracted Coq monitor decides); a JSON summary (workloads, distribution)
// goes to -summary.
//
//	c08drive -seed S -first I -bursts N -profile P -out logs -summary s.json
//	c08drive -replay workload.json -tries K -out logs -summary s.json
//	c08drive -scenario refused_chunk -out logs
package main

import (
	"encoding/json"
	"flag"
	"fmt"
	"bufio"
	"os"
	"runtime"
	"strings"
	"sync"
	"sync/atomic"
	"time"

	"github.com/gammazero/nexus/v3/router"
	"github.com/gammazero/nexus/v3/transport"
	"github.com/gammazero/nexus/v3/wamp"
)

// Workload describes one burst completely (together with the scheduler).
type Workload struct {
	Seed        uint64 `json:"seed"`
	Profile     string `json:"profile"`
	Publishers  int    `json:"publishers"`
	Topics      int    `json:"topics"`
	PubMsgs     int    `json:"pub_msgs"`
	Subscribers int    `json:"subscribers"`
	PrefixSubs  int    `json:"prefix_subs"`
	Churners    int    `json:"churners"`
	ChurnRounds int    `json:"churn_rounds"`
	Callees     int    `json:"callees"`
	Procs       int    `json:"procs"`
	Shared      bool   `json:"shared"`
	RegChurn    int    `json:"reg_churn"`
	Callers     int    `json:"callers"`
	CallsPer    int    `json:"calls_per"`
	Chunks      int    `json:"chunks"`
	Bystanders  int    `json:"bystanders"`
	MetaCalls   int    `json:"meta_calls"`
	JoinLeave   int    `json:"join_leave"`
	SmallQ      int    `json:"small_q"` // callers with a tiny queue and a slow reader
	MetaSubs    int    `json:"meta_subs"`
	// realm with TopicEventHistoryConfigs on every topic of the burst (exact),
	// on the prefix "c08." and on the wildcard "c08."
	History        bool `json:"history"`
	SoleChurners   int  `json:"sole_churners"`   // subscribe/unsubscribe as the ONLY holder of an exact subscription
	PrefixChurners int  `json:"prefix_churners"` // the same with a prefix subscription "c08."
	WildChurners   int  `json:"wild_churners"`   // the same with a wildcard subscription "c08."
	StallMs        int  `json:"stall_ms"`        // the small-queue caller stops reading for that long (once)
	YieldGapMs     int  `json:"yield_gap_ms"`    // callees send the k-th YIELD of an invocation no earlier than k gaps after it
	DupReg         int  `json:"dup_reg"`         // sessions that REGISTER a shared procedure twice, UNREGISTER once
}

type rng struct{ s uint64 }

func (r *rng) next() uint64 {
	r.s += 0x9E3779B97F4A7C15
	z := r.s
	z = (z ^ (z >> 30)) * 0xBF58476D1CE4E5B9
	z = (z ^ (z >> 27)) * 0x94D049BB133111EB
	return z ^ (z >> 31)
}
func (r *rng) in(lo, hi int) int {
	if hi <= lo {
		return lo
	}
	return lo + int(r.next()%uint64(hi-lo+1))
}

func genWorkload(seed uint64, profile string) Workload {
	r := &rng{s: seed}
	w := Workload{Seed: seed, Profile: profile}
	switch profile {
	case "pubsub":
		w.Publishers, w.Topics, w.PubMsgs = r.in(2, 5), r.in(1, 3), r.in(100, 400)
		w.Subscribers, w.PrefixSubs, w.Churners, w.ChurnRounds = r.in(1, 3), r.in(0, 2), r.in(2, 4), r.in(10, 40)
		w.MetaSubs = r.in(0, 1)
	case "rpc":
		w.Callees, w.Procs, w.Shared, w.RegChurn = r.in(1, 3), r.in(1, 2), r.in(0, 1) == 1, r.in(3, 12)
		w.Callers, w.CallsPer, w.Chunks = r.in(2, 4), r.in(40, 150), r.in(0, 3)
	case "progress":
		w.Callees, w.Procs, w.Shared, w.RegChurn = r.in(1, 2), 1, false, 0
		w.Callers, w.CallsPer, w.Chunks = r.in(1, 3), r.in(10, 30), r.in(10, 40)
	case "smallq":
		w.Callees, w.Procs = 1, 1
		w.Callers, w.CallsPer, w.Chunks, w.SmallQ = r.in(1, 2), r.in(3, 8), r.in(10, 30), 1
	case "stall":
		// the caller's queue stays full for more than a second while the callee keeps yielding
		w.Callees, w.Procs = 1, 1
		// (the callee paces its YIELDs so that the call is still alive when a RESULT that
		// was blocked for more than a second is finally retried)
		w.Callers, w.CallsPer, w.Chunks, w.SmallQ = 1, 1, r.in(44, 56), 1
		w.StallMs = r.in(1150, 1600)
		w.YieldGapMs = 50
	case "history":
		// subscriptions that keep an event history: unsubscribing as the only holder and as one of several
		w.History = true
		w.Publishers, w.Topics, w.PubMsgs = r.in(2, 3), r.in(1, 2), r.in(80, 250)
		w.Subscribers, w.Churners, w.ChurnRounds = r.in(1, 2), r.in(1, 2), r.in(8, 25)
		w.SoleChurners = 1
		switch r.in(0, 2) {
		case 0:
			w.PrefixChurners = 1
		case 1:
			w.WildChurners = 1
		default:
			w.PrefixSubs = 1
		}
	default: // mixed
		w.Profile = "mixed"
		w.Publishers, w.Topics, w.PubMsgs = r.in(1, 4), r.in(1, 3), r.in(30, 200)
		w.Subscribers, w.PrefixSubs, w.Churners, w.ChurnRounds = r.in(1, 3), r.in(0, 1), r.in(1, 3), r.in(5, 25)
		w.Callees, w.Procs, w.Shared, w.RegChurn = r.in(1, 3), r.in(1, 2), r.in(0, 1) == 1, r.in(0, 8)
		w.Callers, w.CallsPer, w.Chunks = r.in(1, 3), r.in(20, 80), r.in(0, 8)
		w.Bystanders, w.MetaCalls, w.JoinLeave = r.in(0, 2), r.in(3, 15), r.in(0, 6)
		w.MetaSubs = r.in(0, 1)
	}
	// (drawn after the older fields so that older seeds keep their workloads)
	switch w.Profile {
	case "mixed", "pubsub":
		w.History = r.in(0, 1) == 1
		w.SoleChurners = r.in(0, 1)
	}
	switch w.Profile {
	case "mixed", "rpc":
		if w.Shared {
			w.DupReg = r.in(0, 1)
		}
	}
	return w
}

// ---------------------------------------------------------------- clients

type cli struct {
	idx    int
	role   string
	peer   wamp.Peer
	out    chan func(seq int) wamp.Message
	wdone  chan struct{}
	rdone  chan struct{}
	log    []string
	lossy  bool
	slow   time.Duration
	stallAfter int           // stop reading once, after that many RESULTs ...
	stallFor   time.Duration // ... for that long; afterwards read at full speed
	nres       int
	mu     sync.Mutex
	unsub  map[wamp.ID]wamp.ID // UNSUBSCRIBE request -> subscription
	unreg  map[wamp.ID]wamp.ID // UNREGISTER request -> registration
	reqSeq int64
	onMsg  func(c *cli, m wamp.Message)
	notify chan wamp.Message // replies the script waits for
	finals    int64
	sentCalls int64
	lastRx    int64
}

const bigQ = 1 << 13

var allRoles = wamp.Dict{
	"publisher":  wamp.Dict{"features": wamp.Dict{"publisher_exclusion": true}},
	"subscriber": wamp.Dict{"features": wamp.Dict{"pattern_based_subscription": true}},
	"caller": wamp.Dict{"features": wamp.Dict{"progressive_call_results": true, "call_canceling": true,
		"progressive_call_invocations": true}},
	"callee": wamp.Dict{"features": wamp.Dict{"progressive_call_results": true, "call_canceling": true,
		"progressive_call_invocations": true, "shared_registration": true, "pattern_based_registration": true}},
}

func attach(r router.Router, idx int, role string, q int) (*cli, error) {
	return attachQ(r, idx, role, q, bigQ)
}

// outCap: capacity of the client's own send queue; small for the traffic
// generators so that they are paced by what the router really takes
func attachQ(r router.Router, idx int, role string, q int, outCap int) (*cli, error) {
	c, s := transport.LinkedPeersQSize(q)
	go func() { c.Send() <- &wamp.Hello{Realm: "c08", Details: wamp.Dict{"roles": allRoles}} }()
	if err := r.Attach(s); err != nil {
		return nil, err
	}
	m := <-c.Recv()
	if _, ok := m.(*wamp.Welcome); !ok {
		return nil, fmt.Errorf("no WELCOME: %T", m)
	}
	cl := &cli{idx: idx, role: role, peer: c, out: make(chan func(int) wamp.Message, outCap),
		wdone: make(chan struct{}), rdone: make(chan struct{}), notify: make(chan wamp.Message, 256),
		unsub: map[wamp.ID]wamp.ID{}, unreg: map[wamp.ID]wamp.ID{}}
	go cl.writer()
	go cl.reader()
	return cl, nil
}

// the only goroutine that writes to the router: the sequence number is the
// order of sending
func (c *cli) writer() {
	defer close(c.wdone)
	seq := 0
	for b := range c.out {
		seq++
		m := b(seq)
		if m == nil {
			continue
		}
		c.peer.Send() <- m
	}
}

// after the end of the burst the queue is closed; a late INVOCATION then finds
// no writer any more
func (c *cli) send(b func(seq int) wamp.Message) {
	defer func() { _ = recover() }()
	c.out <- b
}

// replies for the script of this client (which awaits one reply at a time);
// clients without a script let them fall
func (c *cli) tell(m wamp.Message) {
	select {
	case c.notify <- m:
	default:
	}
}

func (c *cli) nextReq() wamp.ID { return wamp.ID(atomic.AddInt64(&c.reqSeq, 1)) }

func asInt(v any) (int, bool) {
	if i, ok := wamp.AsInt64(v); ok {
		return int(i), true
	}
	return 0, false
}

func (c *cli) reader() {
	defer close(c.rdone)
	for m := range c.peer.Recv() {
		if c.slow > 0 {
			time.Sleep(c.slow)
		}
		atomic.StoreInt64(&c.lastRx, time.Now().UnixNano())
		switch x := m.(type) {
		case *wamp.Event:
			p, ok1 := 0, false
			t, ok2 := 0, false
			y, ok3 := 0, false
			if len(x.Arguments) == 3 {
				p, ok1 = asInt(x.Arguments[0])
				t, ok2 = asInt(x.Arguments[1])
				y, ok3 = asInt(x.Arguments[2])
			}
			if ok1 && ok2 && ok3 {
				c.log = append(c.log, fmt.Sprintf("E %d %d %d %d", x.Subscription, p, t, y))
			} else {
				c.log = append(c.log, fmt.Sprintf("E %d - 0 0", x.Subscription))
			}
		case *wamp.Subscribed:
			c.log = append(c.log, fmt.Sprintf("S %d", x.Subscription))
			c.tell(m)
		case *wamp.Unsubscribed:
			c.mu.Lock()
			sub, ok := c.unsub[x.Request]
			c.mu.Unlock()
			if ok {
				c.log = append(c.log, fmt.Sprintf("U %d", sub))
			} else {
				c.log = append(c.log, "O unsubscribed-unknown")
			}
			c.tell(m)
		case *wamp.Registered:
			c.log = append(c.log, fmt.Sprintf("G %d", x.Registration))
			c.tell(m)
		case *wamp.Unregistered:
			c.mu.Lock()
			reg, ok := c.unreg[x.Request]
			c.mu.Unlock()
			if ok {
				c.log = append(c.log, fmt.Sprintf("H %d", reg))
			} else {
				c.log = append(c.log, "O unregistered-unknown")
			}
			c.tell(m)
		case *wamp.Invocation:
			caller, ok1 := 0, false
			y, ok2 := 0, false
			if len(x.Arguments) >= 2 {
				caller, ok1 = asInt(x.Arguments[0])
				y, ok2 = asInt(x.Arguments[1])
			}
			if ok1 && ok2 {
				c.log = append(c.log, fmt.Sprintf("I %d %d %d %d %d 1", x.Registration, x.Request, caller, caller*10000000+y, y))
			} else {
				c.log = append(c.log, "O invocation-foreign")
			}
		case *wamp.Result:
			c.nres++
			if c.stallFor > 0 && c.nres == c.stallAfter {
				time.Sleep(c.stallFor)
				c.slow = 0
			}
			from, y := 0, 1
			if len(x.Arguments) >= 2 {
				if a, ok := asInt(x.Arguments[0]); ok {
					if b, ok := asInt(x.Arguments[1]); ok {
						from, y = a, b
					}
				}
			}
			pr := 0
			if b, _ := x.Details["progress"].(bool); b {
				pr = 1
			}
			c.log = append(c.log, fmt.Sprintf("X %d %d %d %d", c.idx*10000000+int(x.Request), y, from, pr))
			if pr == 0 {
				atomic.AddInt64(&c.finals, 1)
				c.tell(m)
			}
		case *wamp.Error:
			if x.Type == wamp.CALL {
				c.log = append(c.log, fmt.Sprintf("Z %d", c.idx*10000000+int(x.Request)))
				atomic.AddInt64(&c.finals, 1)
				c.tell(m)
			} else {
				c.log = append(c.log, fmt.Sprintf("O error-%d", x.Type))
				c.tell(m)
			}
		case *wamp.Goodbye:
			c.log = append(c.log, "O goodbye")
			c.tell(m)
		default:
			c.log = append(c.log, fmt.Sprintf("O %s", m.MessageType()))
		}
		if c.onMsg != nil {
			c.onMsg(c, m)
		}
	}
}

// wait for a reply of the given type (others of the awaited kinds are skipped)
func (c *cli) await(match func(wamp.Message) bool, d time.Duration) wamp.Message {
	t := time.After(d)
	for {
		select {
		case m := <-c.notify:
			if match(m) {
				return m
			}
		case <-t:
			return nil
		}
	}
}

// ---------------------------------------------------------------- a burst

type stats struct {
	Published, Calls, Yields, SubRounds, RegRounds, MetaCalls, Joins int64
	Events, Invocations, Results, Errors                            int64
	Dropped                                                         int64
}

type dropLogger struct{ n *int64 }

func (l dropLogger) Print(v ...any) {}
func (l dropLogger) Println(v ...any) {
	for _, x := range v {
		if s, ok := x.(string); ok && strings.Contains(s, "Dropped") {
			atomic.AddInt64(l.n, 1)
		}
	}
}
func (l dropLogger) Printf(f string, v ...any) {
	if strings.Contains(f, "Dropped") {
		atomic.AddInt64(l.n, 1)
	}
}

func topicURI(i int) wamp.URI { return wamp.URI(fmt.Sprintf("c08.t%d", i)) }
func procURI(i int) wamp.URI  { return wamp.URI(fmt.Sprintf("c08.p%d", i)) }

func runBurst(w Workload) (clients []*cli, st stats, err error) {
	rc := &router.RealmConfig{URI: "c08", AnonymousAuth: true, AllowDisclose: true, EnableMetaKill: true}
	if w.History {
		for t := 0; t <= w.Topics; t++ {
			rc.TopicEventHistoryConfigs = append(rc.TopicEventHistoryConfigs,
				&router.TopicEventHistoryConfig{Topic: topicURI(t), MatchPolicy: wamp.MatchExact, Limit: 5})
		}
		rc.TopicEventHistoryConfigs = append(rc.TopicEventHistoryConfigs,
			&router.TopicEventHistoryConfig{Topic: "c08.", MatchPolicy: wamp.MatchPrefix, Limit: 5},
			&router.TopicEventHistoryConfig{Topic: "c08.", MatchPolicy: wamp.MatchWildcard, Limit: 5})
	}
	rt, e := router.NewRouter(&router.Config{RealmConfigs: []*router.RealmConfig{rc}}, dropLogger{&st.Dropped})
	if e != nil {
		return nil, st, e
	}
	r := &rng{s: w.Seed ^ 0xC08}
	tSetup := time.Now()
	idx := 0
	mk := func(role string, q int) *cli {
		idx++
		oc := bigQ
		if role == "publisher" || role == "caller" {
			oc = 16
		}
		ta := time.Now()
		c, e := attachQ(rt, idx, role, q, oc)
		if os.Getenv("C08DEBUG") == "2" {
			fmt.Fprintf(os.Stderr, "  attach %d %s %v (since setup %v)\n", idx, role, time.Since(ta), time.Since(tSetup))
		}
		if e != nil {
			err = e
			return nil
		}
		clients = append(clients, c)
		return c
	}
	var scripts sync.WaitGroup
	start := make(chan struct{})
	var trafficDone sync.WaitGroup // publishers and callers
	var subChurn, regChurn sync.WaitGroup
	var subChurning, regChurning int32 // traffic keeps flowing while the churn lasts

	// ---- static subscribers (subscribe before the traffic starts)
	for i := 0; i < w.Subscribers; i++ {
		c := mk("subscriber", bigQ)
		if c == nil {
			return
		}
		for t := 0; t < w.Topics; t++ {
			if t == 0 || r.in(0, 1) == 1 {
				req := c.nextReq()
				tt := t
				c.send(func(int) wamp.Message { return &wamp.Subscribe{Request: req, Topic: topicURI(tt)} })
				c.await(func(m wamp.Message) bool { _, ok := m.(*wamp.Subscribed); return ok }, 5*time.Second)
			}
		}
	}
	for i := 0; i < w.PrefixSubs; i++ {
		c := mk("prefixsub", bigQ)
		if c == nil {
			return
		}
		req := c.nextReq()
		c.send(func(int) wamp.Message {
			return &wamp.Subscribe{Request: req, Topic: "c08.", Options: wamp.Dict{"match": "prefix"}}
		})
		c.await(func(m wamp.Message) bool { _, ok := m.(*wamp.Subscribed); return ok }, 5*time.Second)
	}
	for i := 0; i < w.MetaSubs; i++ {
		c := mk("metasub", bigQ)
		if c == nil {
			return
		}
		for _, t := range []wamp.URI{"wamp.subscription.on_subscribe", "wamp.subscription.on_unsubscribe",
			"wamp.registration.on_register", "wamp.session.on_join"} {
			req := c.nextReq()
			tt := t
			c.send(func(int) wamp.Message { return &wamp.Subscribe{Request: req, Topic: tt} })
			c.await(func(m wamp.Message) bool { _, ok := m.(*wamp.Subscribed); return ok }, 5*time.Second)
		}
	}

	// ---- churning subscribers: subscribe / unsubscribe while events flow
	type churnSpec struct {
		topic wamp.URI
		match string
	}
	var churns []churnSpec
	for i := 0; i < w.Churners; i++ {
		churns = append(churns, churnSpec{topicURI(r.in(0, max(w.Topics-1, 0))), ""})
	}
	// the only holder of its subscription: the extra topic t<Topics> has no other subscriber
	for i := 0; i < w.SoleChurners; i++ {
		churns = append(churns, churnSpec{topicURI(w.Topics + i), ""})
	}
	for i := 0; i < w.PrefixChurners; i++ {
		churns = append(churns, churnSpec{"c08.", wamp.MatchPrefix})
	}
	for i := 0; i < w.WildChurners; i++ {
		churns = append(churns, churnSpec{"c08.", wamp.MatchWildcard})
	}
	for _, cs := range churns {
		c := mk("churner", bigQ)
		if c == nil {
			return
		}
		topic := cs.topic
		opts := wamp.Dict{}
		if cs.match != "" {
			opts["match"] = cs.match
		}
		rounds := w.ChurnRounds
		pause := r.in(0, 2)
		scripts.Add(1)
		subChurn.Add(1)
		atomic.StoreInt32(&subChurning, 1)
		go func() {
			defer scripts.Done()
			defer subChurn.Done()
			<-start
			for k := 0; k < rounds; k++ {
				req := c.nextReq()
				c.send(func(int) wamp.Message { return &wamp.Subscribe{Request: req, Topic: topic, Options: opts} })
				m := c.await(func(m wamp.Message) bool { s, ok := m.(*wamp.Subscribed); return ok && s.Request == req }, 5*time.Second)
				if m == nil {
					return
				}
				sub := m.(*wamp.Subscribed).Subscription
				if pause > 0 {
					runtime.Gosched()
				}
				if pause > 1 {
					time.Sleep(time.Duration(50*(k%5)) * time.Microsecond)
				}
				ureq := c.nextReq()
				c.mu.Lock()
				c.unsub[ureq] = sub
				c.mu.Unlock()
				c.send(func(int) wamp.Message { return &wamp.Unsubscribe{Request: ureq, Subscription: sub} })
				if c.await(func(m wamp.Message) bool { u, ok := m.(*wamp.Unsubscribed); return ok && u.Request == ureq }, 5*time.Second) == nil {
					return
				}
				atomic.AddInt64(&st.SubRounds, 1)
				// stay unsubscribed for a moment: what is published now must not arrive
				if k%3 == 2 {
					time.Sleep(time.Duration(100+40*(k%4)) * time.Microsecond)
				}
			}
		}()
	}

	// ---- callees
	procs := max(w.Procs, 1)
	for i := 0; i < w.Callees+w.DupReg; i++ {
		dup := i >= w.Callees
		c := mk("callee", bigQ)
		if c == nil {
			return
		}
		chunks := w.Chunks
		me := c.idx
		c.onMsg = func(c *cli, m wamp.Message) {
			inv, ok := m.(*wamp.Invocation)
			if !ok {
				return
			}
			atomic.AddInt64(&st.Invocations, 1)
			prog, _ := inv.Details["receive_progress"].(bool)
			t0 := time.Now()
			gap := time.Duration(w.YieldGapMs) * time.Millisecond
			if prog {
				for k := 0; k < chunks; k++ {
					due := t0.Add(time.Duration(k) * gap)
					c.send(func(seq int) wamp.Message {
						if gap > 0 {
							time.Sleep(time.Until(due))
						}
						atomic.AddInt64(&st.Yields, 1)
						return &wamp.Yield{Request: inv.Request, Options: wamp.Dict{"progress": true}, Arguments: wamp.List{me, seq}}
					})
				}
			}
			due := t0.Add(time.Duration(chunks) * gap)
			c.send(func(seq int) wamp.Message {
				if gap > 0 {
					time.Sleep(time.Until(due))
				}
				atomic.AddInt64(&st.Yields, 1)
				return &wamp.Yield{Request: inv.Request, Options: wamp.Dict{}, Arguments: wamp.List{me, seq}}
			})
		}
		proc := procURI(i % procs)
		if dup {
			proc = procURI(0)
		}
		opts := wamp.Dict{}
		if w.Shared {
			opts["invoke"] = "roundrobin"
		}
		register := func() (wamp.ID, bool) {
			req := c.nextReq()
			c.send(func(int) wamp.Message { return &wamp.Register{Request: req, Procedure: proc, Options: opts} })
			m := c.await(func(m wamp.Message) bool {
				switch x := m.(type) {
				case *wamp.Registered:
					return x.Request == req
				case *wamp.Error:
					return x.Request == req
				}
				return false
			}, 5*time.Second)
			if g, ok := m.(*wamp.Registered); ok {
				return g.Registration, true
			}
			return 0, false
		}
		reg, ok := register()
		rounds := w.RegChurn
		if dup {
			// the same session asks for the same shared registration again (refused, or
			// at least without effect), unregisters once and must then be left alone
			rounds = 0
			register()
			if ok {
				ureq := c.nextReq()
				c.mu.Lock()
				c.unreg[ureq] = reg
				c.mu.Unlock()
				rr := reg
				c.send(func(int) wamp.Message { return &wamp.Unregister{Request: ureq, Registration: rr} })
				c.await(func(m wamp.Message) bool {
					switch x := m.(type) {
					case *wamp.Unregistered:
						return x.Request == ureq
					case *wamp.Error:
						return x.Request == ureq
					}
					return false
				}, 5*time.Second)
				ok = false
			}
		}
		scripts.Add(1)
		regChurn.Add(1)
		if rounds > 0 {
			atomic.StoreInt32(&regChurning, 1)
		}
		go func() {
			defer scripts.Done()
			defer regChurn.Done()
			<-start
			for k := 0; k < rounds; k++ {
				time.Sleep(time.Duration(100+50*(k%7)) * time.Microsecond)
				if ok {
					ureq := c.nextReq()
					c.mu.Lock()
					c.unreg[ureq] = reg
					c.mu.Unlock()
					rr := reg
					c.send(func(int) wamp.Message { return &wamp.Unregister{Request: ureq, Registration: rr} })
					if c.await(func(m wamp.Message) bool {
						switch x := m.(type) {
						case *wamp.Unregistered:
							return x.Request == ureq
						case *wamp.Error:
							return x.Request == ureq
						}
						return false
					}, 5*time.Second) == nil {
						return
					}
					atomic.AddInt64(&st.RegRounds, 1)
				}
				reg, ok = register()
			}
		}()
	}

	// ---- publishers
	for i := 0; i < w.Publishers; i++ {
		c := mk("publisher", bigQ)
		if c == nil {
			return
		}
		me := c.idx
		n := w.PubMsgs
		ack := r.in(0, 2)
		own := r.in(0, 3) == 0
		if own { // the publisher listens to its own topic: PUBLISHED and its own EVENT race (not claimed)
			req := c.nextReq()
			c.send(func(int) wamp.Message { return &wamp.Subscribe{Request: req, Topic: topicURI(0)} })
			c.await(func(m wamp.Message) bool { _, ok := m.(*wamp.Subscribed); return ok }, 5*time.Second)
		}
		scripts.Add(1)
		trafficDone.Add(1)
		rr := &rng{s: w.Seed + uint64(me)*7919}
		go func() {
			defer scripts.Done()
			defer trafficDone.Done()
			<-start
			for k := 0; k < n || (atomic.LoadInt32(&subChurning) == 1 && k < 20*n); k++ {
				if k%64 == 63 {
					time.Sleep(20 * time.Microsecond)
				}
				t := rr.in(0, max(w.Topics-1+w.SoleChurners, 0))
				opts := wamp.Dict{}
				if ack == 2 || (ack == 1 && k%3 == 0) {
					opts["acknowledge"] = true
				}
				if own {
					opts["exclude_me"] = false
				}
				req := c.nextReq()
				c.send(func(seq int) wamp.Message {
					atomic.AddInt64(&st.Published, 1)
					return &wamp.Publish{Request: req, Topic: topicURI(t), Options: opts, Arguments: wamp.List{me, t, seq}}
				})
				if k%16 == 15 {
					runtime.Gosched()
				}
			}
		}()
	}

	// ---- callers
	var callers []*cli
	for i := 0; i < w.Callers; i++ {
		q := bigQ
		slow := time.Duration(0)
		if i < w.SmallQ {
			q = 2
			slow = 300 * time.Microsecond
		}
		c := mk("caller", q)
		if c == nil {
			return
		}
		c.lossy = q != bigQ
		c.slow = slow
		if c.lossy && w.StallMs > 0 {
			c.stallAfter = 3
			c.stallFor = time.Duration(w.StallMs) * time.Millisecond
		}
		me := c.idx
		n := w.CallsPer
		callers = append(callers, c)
		rr := &rng{s: w.Seed + uint64(me)*104729}
		scripts.Add(1)
		trafficDone.Add(1)
		go func() {
			defer scripts.Done()
			defer trafficDone.Done()
			<-start
			for k := 0; k < n || (atomic.LoadInt32(&regChurning) == 1 && k < 10*n); k++ {
				if k%32 == 31 {
					time.Sleep(20 * time.Microsecond)
				}
				p := rr.in(0, procs-1)
				c.send(func(seq int) wamp.Message {
					atomic.AddInt64(&st.Calls, 1)
					atomic.AddInt64(&c.sentCalls, 1)
					return &wamp.Call{Request: wamp.ID(seq), Procedure: procURI(p),
						Options: wamp.Dict{"receive_progress": true}, Arguments: wamp.List{me, seq}}
				})
				if k%8 == 7 {
					runtime.Gosched()
				}
			}
		}()
	}

	// ---- bystanders: meta API calls, sessions joining and leaving
	for i := 0; i < w.Bystanders; i++ {
		c := mk("bystander", bigQ)
		if c == nil {
			return
		}
		n, jl := w.MetaCalls, w.JoinLeave
		scripts.Add(1)
		go func() {
			defer scripts.Done()
			<-start
			metas := []wamp.URI{"wamp.session.count", "wamp.session.list", "wamp.registration.list",
				"wamp.subscription.list", "wamp.registration.match", "wamp.subscription.match"}
			for k := 0; k < n; k++ {
				uri := metas[k%len(metas)]
				args := wamp.List{}
				if strings.HasSuffix(string(uri), "match") {
					args = wamp.List{"c08.p0"}
				}
				c.send(func(seq int) wamp.Message {
					return &wamp.Call{Request: wamp.ID(seq), Procedure: uri, Arguments: args}
				})
				if c.await(func(m wamp.Message) bool {
					switch x := m.(type) {
					case *wamp.Result:
						return true
					case *wamp.Error:
						return x.Type == wamp.CALL
					}
					return false
				}, 5*time.Second) == nil {
					return
				}
				atomic.AddInt64(&st.MetaCalls, 1)
			}
			for k := 0; k < jl; k++ {
				cp, sp := transport.LinkedPeersQSize(bigQ)
				go func() { cp.Send() <- &wamp.Hello{Realm: "c08", Details: wamp.Dict{"roles": allRoles}} }()
				if rt.Attach(sp) != nil {
					return
				}
				<-cp.Recv()
				cp.Send() <- &wamp.Subscribe{Request: 1, Topic: topicURI(0)}
				cp.Send() <- &wamp.Goodbye{Reason: wamp.CloseRealm, Details: wamp.Dict{}}
				for m := range cp.Recv() {
					if _, ok := m.(*wamp.Goodbye); ok {
						break
					}
				}
				atomic.AddInt64(&st.Joins, 1)
			}
		}()
	}

	if err != nil {
		rt.Close()
		return
	}
	t0 := time.Now()
	dbg := os.Getenv("C08DEBUG") != ""
	if dbg {
		fmt.Fprintf(os.Stderr, "setup took %v\n", time.Since(tSetup))
	}
	close(start)
	go func() { subChurn.Wait(); atomic.StoreInt32(&subChurning, 0) }()
	go func() { regChurn.Wait(); atomic.StoreInt32(&regChurning, 0) }()
	trafficDone.Wait()
	if dbg {
		fmt.Fprintf(os.Stderr, "traffic done %v\n", time.Since(t0))
	}
	waitDone := make(chan struct{})
	go func() { scripts.Wait(); close(waitDone) }()
	select {
	case <-waitDone:
	case <-time.After(20 * time.Second):
	}
	if dbg {
		fmt.Fprintf(os.Stderr, "scripts done %v\n", time.Since(t0))
	}
	deadline := time.Now().Add(15 * time.Second)
	for time.Now().Before(deadline) {
		all := true
		for _, c := range callers {
			// every CALL that was sent gets a final reply (the writer has drained its queue)
			if len(c.out) > 0 || atomic.LoadInt64(&c.finals) < atomic.LoadInt64(&c.sentCalls) {
				all = false
			}
		}
		if all {
			break
		}
		time.Sleep(200 * time.Microsecond)
	}
	if dbg {
		fmt.Fprintf(os.Stderr, "finals done %v\n", time.Since(t0))
	}
	// barrier: each client makes one round trip through the broker and one
	// through the dealer behind everything it sent; the workers execute in
	// arrival order, so afterwards nothing of this burst is in flight
	var bar sync.WaitGroup
	for _, c := range clients {
		bar.Add(1)
		go func(c *cli) {
			defer bar.Done()
			for len(c.notify) > 0 {
				<-c.notify
			}
			sreq := c.nextReq() + 5000000
			c.send(func(int) wamp.Message {
				return &wamp.Subscribe{Request: sreq, Topic: wamp.URI(fmt.Sprintf("c08.barrier.%d", c.idx))}
			})
			m := c.await(func(m wamp.Message) bool { s, ok := m.(*wamp.Subscribed); return ok && s.Request == sreq }, 10*time.Second)
			if m != nil {
				sub := m.(*wamp.Subscribed).Subscription
				ureq := sreq + 1
				c.mu.Lock()
				c.unsub[ureq] = sub
				c.mu.Unlock()
				c.send(func(int) wamp.Message { return &wamp.Unsubscribe{Request: ureq, Subscription: sub} })
				c.await(func(m wamp.Message) bool { u, ok := m.(*wamp.Unsubscribed); return ok && u.Request == ureq }, 10*time.Second)
			}
			c.send(func(seq int) wamp.Message {
				return &wamp.Call{Request: wamp.ID(seq), Procedure: "c08.barrier.none", Arguments: wamp.List{c.idx, seq}}
			})
			c.await(func(m wamp.Message) bool { e, ok := m.(*wamp.Error); return ok && e.Type == wamp.CALL }, 10*time.Second)
		}(c)
	}
	bar.Wait()
	// and nothing received anywhere for 2 ms
	for k := 0; k < 4000; k++ {
		now := time.Now().UnixNano()
		quiet := true
		for _, c := range clients {
			if len(c.out) > 0 || now-atomic.LoadInt64(&c.lastRx) < int64(2*time.Millisecond) {
				quiet = false
			}
		}
		if quiet {
			break
		}
		time.Sleep(500 * time.Microsecond)
	}
	if dbg {
		fmt.Fprintf(os.Stderr, "drained %v\n", time.Since(t0))
	}
	for _, c := range clients {
		close(c.out)
	}
	for _, c := range clients {
		<-c.wdone
	}
	rt.Close()
	if dbg {
		fmt.Fprintf(os.Stderr, "closed %v\n", time.Since(t0))
	}
	for _, c := range clients {
		select {
		case <-c.rdone:
		case <-time.After(5 * time.Second):
			err = fmt.Errorf("reader of client %d did not finish", c.idx)
		}
		if dbg {
			fmt.Fprintf(os.Stderr, "reader %d (%s) done %v\n", c.idx, c.role, time.Since(t0))
		}
		for _, l := range c.log {
			switch l[0] {
			case 'E':
				st.Events++
			case 'X':
				st.Results++
			case 'Z':
				st.Errors++
			}
		}
	}
	return
}

// the shape of fixes/C08-refused-chunk: sequential, no scheduler involved
func scenarioRefusedChunk() ([]*cli, error) {
	var dropped int64
	rt, err := router.NewRouter(&router.Config{RealmConfigs: []*router.RealmConfig{{URI: "c08", AnonymousAuth: true}}}, dropLogger{&dropped})
	if err != nil {
		return nil, err
	}
	callee, err := attach(rt, 1, "callee", bigQ)
	if err != nil {
		return nil, err
	}
	caller, err := attach(rt, 2, "caller", bigQ)
	if err != nil {
		return nil, err
	}
	invCh := make(chan *wamp.Invocation, 4)
	callee.onMsg = func(c *cli, m wamp.Message) {
		if inv, ok := m.(*wamp.Invocation); ok {
			invCh <- inv
		}
	}
	callee.send(func(int) wamp.Message { return &wamp.Register{Request: 1, Procedure: "c08.p0"} })
	g := callee.await(func(m wamp.Message) bool { _, ok := m.(*wamp.Registered); return ok }, 5*time.Second)
	if g == nil {
		return nil, fmt.Errorf("no REGISTERED")
	}
	reg := g.(*wamp.Registered).Registration
	caller.send(func(int) wamp.Message {
		return &wamp.Call{Request: 7, Procedure: "c08.p0", Options: wamp.Dict{"progress": true, "receive_progress": true}, Arguments: wamp.List{2, 7}}
	})
	var inv *wamp.Invocation
	select {
	case inv = <-invCh:
	case <-time.After(5 * time.Second):
		return nil, fmt.Errorf("no INVOCATION")
	}
	callee.mu.Lock()
	callee.unreg[2] = reg
	callee.mu.Unlock()
	callee.send(func(int) wamp.Message { return &wamp.Unregister{Request: 2, Registration: reg} })
	callee.await(func(m wamp.Message) bool { _, ok := m.(*wamp.Unregistered); return ok }, 5*time.Second)
	caller.send(func(int) wamp.Message {
		return &wamp.Call{Request: 7, Procedure: "c08.p0", Options: wamp.Dict{"receive_progress": true}, Arguments: wamp.List{2, 7}}
	})
	caller.await(func(m wamp.Message) bool { e, ok := m.(*wamp.Error); return ok && e.Type == wamp.CALL }, 2*time.Second)
	callee.send(func(seq int) wamp.Message {
		return &wamp.Yield{Request: inv.Request, Options: wamp.Dict{"progress": true}, Arguments: wamp.List{1, seq}}
	})
	callee.send(func(seq int) wamp.Message {
		return &wamp.Yield{Request: inv.Request, Options: wamp.Dict{}, Arguments: wamp.List{1, seq}}
	})
	time.Sleep(100 * time.Millisecond)
	cls := []*cli{callee, caller}
	for _, c := range cls {
		close(c.out)
		<-c.wdone
	}
	rt.Close()
	for _, c := range cls {
		<-c.rdone
	}
	return cls, nil
}

// ---------------------------------------------------------------- main

type burstRec struct {
	Burst    string   `json:"burst"`
	Workload Workload `json:"workload"`
	Stats    stats    `json:"stats"`
	WallMs   float64  `json:"wall_ms"`
	Lossy    bool     `json:"lossy"`
	Err      string   `json:"err,omitempty"`
}

func writeLogs(bw *bufio.Writer, burst string, clients []*cli, allLossy bool) {
	for _, c := range clients {
		tag := ""
		if c.lossy || allLossy {
			tag = " lossy"
		}
		fmt.Fprintf(bw, "R %s %d%s\n", burst, c.idx, tag)
		for _, l := range c.log {
			bw.WriteString(l)
			bw.WriteByte('\n')
		}
		bw.WriteString(".\n")
	}
}

func main() {
	seed := flag.Uint64("seed", 1, "VERIF_SEED")
	first := flag.Int("first", 0, "index of the first burst")
	n := flag.Int("bursts", 10, "number of bursts")
	profile := flag.String("profile", "mixed", "mixed|pubsub|rpc|progress|smallq|stall|history")
	out := flag.String("out", "", "log file")
	summary := flag.String("summary", "", "summary file (json lines)")
	replay := flag.String("replay", "", "workload json to run instead of generating")
	tries := flag.Int("tries", 1, "repetitions of the replayed workload")
	scenario := flag.String("scenario", "", "refused_chunk")
	tag := flag.String("tag", "", "prefix of burst ids")
	flag.Parse()

	of := os.Stdout
	if *out != "" {
		f, err := os.Create(*out)
		if err != nil {
			fmt.Fprintln(os.Stderr, err)
			os.Exit(2)
		}
		defer f.Close()
		of = f
	}
	bw := bufio.NewWriterSize(of, 1<<20)
	defer bw.Flush()
	var sw *bufio.Writer
	if *summary != "" {
		f, err := os.Create(*summary)
		if err != nil {
			fmt.Fprintln(os.Stderr, err)
			os.Exit(2)
		}
		defer f.Close()
		sw = bufio.NewWriter(f)
		defer sw.Flush()
	}

	if *scenario == "refused_chunk" {
		cls, err := scenarioRefusedChunk()
		if err != nil {
			fmt.Fprintln(os.Stderr, "scenario:", err)
			os.Exit(2)
		}
		writeLogs(bw, "refused_chunk", cls, false)
		return
	}

	var work []Workload
	if *replay != "" {
		b, err := os.ReadFile(*replay)
		if err != nil {
			fmt.Fprintln(os.Stderr, err)
			os.Exit(2)
		}
		var w Workload
		if err := json.Unmarshal(b, &w); err != nil {
			fmt.Fprintln(os.Stderr, err)
			os.Exit(2)
		}
		for i := 0; i < *tries; i++ {
			work = append(work, w)
		}
	} else {
		for i := 0; i < *n; i++ {
			s := *seed*1000003 + uint64(*first+i)*2654435761 + 17
			work = append(work, genWorkload(s, *profile))
		}
	}
	for i, w := range work {
		id := fmt.Sprintf("%s%d-g%d", *tag, *first+i, runtime.GOMAXPROCS(0))
		t0 := time.Now()
		clients, st, err := runBurst(w)
		rec := burstRec{Burst: id, Workload: w, Stats: st, WallMs: float64(time.Since(t0).Microseconds()) / 1000}
		if err != nil {
			rec.Err = err.Error()
		}
		// a dropped message outside the small-queue receivers makes the
		// SUBSCRIBED / REGISTERED claims conditional: such a burst is marked
		smallqDrops := w.SmallQ > 0
		rec.Lossy = st.Dropped > 0 && !smallqDrops
		writeLogs(bw, id, clients, rec.Lossy)
		bw.Flush()
		if sw != nil {
			b, _ := json.Marshal(rec)
			sw.Write(b)
			sw.WriteByte('\n')
			sw.Flush()
		}
	}
}
