// genrouter regenerates coq/gen/GenRouter.v from the repository's current
// source: the constants the router-core model depends on (message codes,
// option keys, feature names, URIs, meta procedure registration order, the
// standard session detail items, the dealer's retry constants).  It fails
// loudly on source forms it does not understand.
package main

import (
	"fmt"
	"go/ast"
	"go/parser"
	"go/token"
	"os"
	"path/filepath"
	"sort"
	"strconv"
	"strings"
)

func die(format string, a ...any) {
	fmt.Fprintf(os.Stderr, "genrouter: "+format+"\n", a...)
	os.Exit(2)
}

func parse(fset *token.FileSet, path string) *ast.File {
	f, err := parser.ParseFile(fset, path, nil, 0)
	if err != nil {
		die("%v", err)
	}
	return f
}

// stringConsts collects NAME = "lit" and NAME = T("lit") constants.
func stringConsts(f *ast.File, out map[string]string) {
	for _, d := range f.Decls {
		gd, ok := d.(*ast.GenDecl)
		if !ok || gd.Tok != token.CONST {
			continue
		}
		for _, sp := range gd.Specs {
			vs := sp.(*ast.ValueSpec)
			for i, n := range vs.Names {
				if i >= len(vs.Values) {
					continue
				}
				v := vs.Values[i]
				if ce, ok := v.(*ast.CallExpr); ok && len(ce.Args) == 1 {
					v = ce.Args[0]
				}
				switch x := v.(type) {
				case *ast.BasicLit:
					if x.Kind == token.STRING {
						s, err := strconv.Unquote(x.Value)
						if err != nil {
							die("cannot unquote %s", x.Value)
						}
						out[n.Name] = s
					}
				case *ast.Ident: // alias of another constant
					if s, ok := out[x.Name]; ok {
						out[n.Name] = s
					}
				}
			}
		}
	}
}

// messageCodes reads the MessageType constants (explicit integer values).
func messageCodes(f *ast.File) map[string]int {
	out := map[string]int{}
	for _, d := range f.Decls {
		gd, ok := d.(*ast.GenDecl)
		if !ok || gd.Tok != token.CONST {
			continue
		}
		for _, sp := range gd.Specs {
			vs := sp.(*ast.ValueSpec)
			id, isMT := vs.Type.(*ast.Ident)
			if !isMT || id.Name != "MessageType" {
				continue
			}
			for i, n := range vs.Names {
				if i >= len(vs.Values) {
					die("message code %s without explicit value", n.Name)
				}
				bl, ok := vs.Values[i].(*ast.BasicLit)
				if !ok || bl.Kind != token.INT {
					die("message code %s is not an integer literal", n.Name)
				}
				v, _ := strconv.Atoi(bl.Value)
				out[n.Name] = v
			}
		}
	}
	return out
}

func funcBody(f *ast.File, recv, name string) *ast.BlockStmt {
	for _, d := range f.Decls {
		fd, ok := d.(*ast.FuncDecl)
		if !ok || fd.Name.Name != name {
			continue
		}
		if recv == "" && fd.Recv == nil {
			return fd.Body
		}
		if recv != "" && fd.Recv != nil {
			return fd.Body
		}
	}
	die("function %s not found", name)
	return nil
}

type metaReg struct {
	cond string // "", "kill", "modify"
	uri  string
}

// metaProcs reads setupMetaProcedures: r.registerMetaProcedure(wamp.X, h)
// calls, possibly inside `if r.enableMetaKill {…}` / `if r.enableMetaModify {…}`.
func metaProcs(body *ast.BlockStmt, consts map[string]string) []metaReg {
	var out []metaReg
	var walk func(stmts []ast.Stmt, cond string)
	walk = func(stmts []ast.Stmt, cond string) {
		for _, st := range stmts {
			switch s := st.(type) {
			case *ast.ExprStmt:
				ce, ok := s.X.(*ast.CallExpr)
				if !ok {
					die("setupMetaProcedures: unexpected expression statement")
				}
				sel, ok := ce.Fun.(*ast.SelectorExpr)
				if !ok {
					die("setupMetaProcedures: unexpected call")
				}
				switch sel.Sel.Name {
				case "registerMetaProcedure":
					arg, ok := ce.Args[0].(*ast.SelectorExpr)
					if !ok {
						die("registerMetaProcedure: first argument is not wamp.<Const>")
					}
					u, ok := consts[arg.Sel.Name]
					if !ok {
						die("registerMetaProcedure: unknown constant %s", arg.Sel.Name)
					}
					out = append(out, metaReg{cond, u})
				case "createMetaSession":
				default:
					die("setupMetaProcedures: unexpected call %s", sel.Sel.Name)
				}
			case *ast.IfStmt:
				c, ok := s.Cond.(*ast.SelectorExpr)
				if !ok || s.Else != nil || s.Init != nil {
					die("setupMetaProcedures: unexpected if form")
				}
				switch c.Sel.Name {
				case "enableMetaKill":
					walk(s.Body.List, "kill")
				case "enableMetaModify":
					walk(s.Body.List, "modify")
				default:
					die("setupMetaProcedures: unknown condition %s", c.Sel.Name)
				}
			default:
				die("setupMetaProcedures: unexpected statement %T", st)
			}
		}
	}
	walk(body.List, "")
	return out
}

// stdItems finds `stdItems := []string{...}` in cleanSessionDetails.
func stdItems(body *ast.BlockStmt) []string {
	var out []string
	ast.Inspect(body, func(n ast.Node) bool {
		as, ok := n.(*ast.AssignStmt)
		if !ok || len(as.Lhs) != 1 {
			return true
		}
		id, ok := as.Lhs[0].(*ast.Ident)
		if !ok || id.Name != "stdItems" {
			return true
		}
		cl, ok := as.Rhs[0].(*ast.CompositeLit)
		if !ok {
			die("stdItems is not a composite literal")
		}
		for _, e := range cl.Elts {
			bl := e.(*ast.BasicLit)
			s, _ := strconv.Unquote(bl.Value)
			out = append(out, s)
		}
		return false
	})
	if out == nil {
		die("stdItems not found in cleanSessionDetails")
	}
	return out
}

func coqStr(s string) string { return `"` + strings.ReplaceAll(s, `"`, `""`) + `"` }

func main() {
	if len(os.Args) != 3 {
		die("usage: genrouter <repo> <out.v>")
	}
	repo, outPath := os.Args[1], os.Args[2]
	fset := token.NewFileSet()
	consts := map[string]string{}
	for _, f := range []string{"wamp/uris.go", "wamp/options.go", "wamp/roles_reatures.go"} {
		stringConsts(parse(fset, filepath.Join(repo, f)), consts)
	}
	codes := messageCodes(parse(fset, filepath.Join(repo, "wamp/message.go")))
	realm := parse(fset, filepath.Join(repo, "router/realm.go"))
	realmConsts := map[string]string{}
	stringConsts(realm, realmConsts)
	procs := metaProcs(funcBody(realm, "r", "setupMetaProcedures"), consts)
	items := stdItems(funcBody(realm, "r", "cleanSessionDetails"))

	var sb strings.Builder
	sb.WriteString("(* GENERATED by go/cmd/genrouter from the repository's current source. Do not edit. *)\n")
	sb.WriteString("From Coq Require Import List String NArith.\nImport ListNotations.\nOpen Scope string_scope.\n\n")
	names := make([]string, 0, len(consts))
	for k := range consts {
		names = append(names, k)
	}
	sort.Strings(names)
	for _, k := range names {
		fmt.Fprintf(&sb, "Definition g_%s : string := %s.\n", k, coqStr(consts[k]))
	}
	sb.WriteString("\n")
	cn := make([]string, 0, len(codes))
	for k := range codes {
		cn = append(cn, k)
	}
	sort.Strings(cn)
	for _, k := range cn {
		fmt.Fprintf(&sb, "Definition g_code_%s : N := %d%%N.\n", k, codes[k])
	}
	for _, k := range []string{"destroyedScope", "detachedScope"} {
		v, ok := realmConsts[k]
		if !ok {
			die("constant %s not found in realm.go", k)
		}
		fmt.Fprintf(&sb, "Definition g_%s : string := %s.\n", k, coqStr(v))
	}
	sb.WriteString("\n(* setupMetaProcedures: (condition, procedure) in registration order *)\n")
	sb.WriteString("Definition g_meta_procs : list (string * string) := [\n")
	for i, p := range procs {
		sep := ";"
		if i == len(procs)-1 {
			sep = ""
		}
		fmt.Fprintf(&sb, "  (%s, %s)%s\n", coqStr(p.cond), coqStr(p.uri), sep)
	}
	sb.WriteString("].\n\n")
	sb.WriteString("Definition g_std_items : list string := [")
	for i, s := range items {
		if i > 0 {
			sb.WriteString("; ")
		}
		sb.WriteString(coqStr(s))
	}
	sb.WriteString("].\n")
	if err := os.MkdirAll(filepath.Dir(outPath), 0o755); err != nil {
		die("%v", err)
	}
	old, _ := os.ReadFile(outPath)
	if string(old) != sb.String() {
		if err := os.WriteFile(outPath, []byte(sb.String()), 0o644); err != nil {
			die("%v", err)
		}
	}
}
