package main

import (
	"bufio"
	"crypto/rand"
	"encoding/base64"
	"encoding/binary"
	"errors"
	"fmt"
	"io"
	"net"
	"strings"
	"sync"
	"time"

	"github.com/gammazero/nexus/v3/router"
	"github.com/gammazero/nexus/v3/transport"
	"github.com/gammazero/nexus/v3/transport/serialize"
	"github.com/gammazero/nexus/v3/wamp"
)

// link is the client end of one transport to the router under test.
type link interface {
	// sendTyped hands a Go message to a local peer; network links ignore it.
	// sendList serializes the list for a network link; local links ignore it.
	isLocal() bool
	sendTyped(m wamp.Message) error
	sendList(list []any) error
	sendBytes(b []byte) error                 // raw bytes on the connection
	sendWSFrame(op int, payload []byte) error // websocket frame (masked)
	incoming() <-chan wamp.Message            // decoded messages from the router; closed when the link is down
	close()
}

var errBlocked = errors.New("send blocked")
var errDown = errors.New("link down")

const sendTimeout = 100 * time.Millisecond

// ---------------------------------------------------------------- local

type localLink struct {
	smu     sync.Mutex // a send and the close of the client side never overlap
	c       wamp.Peer
	in      chan wamp.Message
	once    sync.Once
	down    chan struct{}
	rclosed chan struct{} // the router closed its side
}

func newLocalLink(r router.Router) *localLink {
	c, s := transport.LinkedPeersQSize(256)
	l := &localLink{c: c, in: make(chan wamp.Message, 1024), down: make(chan struct{}), rclosed: make(chan struct{})}
	go func() { _ = r.Attach(s) }()
	go func() {
		defer close(l.in)
		defer close(l.rclosed)
		for {
			select {
			case m, ok := <-c.Recv():
				if !ok {
					return
				}
				select {
				case l.in <- m:
				default: // drop when nobody looks; never stall the router
				}
			case <-l.down:
				return
			}
		}
	}()
	return l
}

func (l *localLink) isLocal() bool { return true }

func (l *localLink) sendTyped(m wamp.Message) (err error) {
	l.smu.Lock()
	defer l.smu.Unlock()
	select {
	case <-l.down:
		return errDown
	default:
	}
	t := time.NewTimer(sendTimeout)
	defer t.Stop()
	select {
	case l.c.Send() <- m:
		return nil
	case <-l.down:
		return errDown
	case <-l.rclosed:
		return errDown
	case <-t.C:
		return errBlocked
	}
}

func (l *localLink) sendList([]any) error          { return errors.New("not a network link") }
func (l *localLink) sendBytes([]byte) error        { return errors.New("not a network link") }
func (l *localLink) sendWSFrame(int, []byte) error { return errors.New("not a websocket link") }
func (l *localLink) incoming() <-chan wamp.Message { return l.in }
func (l *localLink) close() {
	l.once.Do(func() {
		close(l.down) // a blocked send returns, later sends are refused
		l.smu.Lock()
		l.c.Close()
		l.smu.Unlock()
	})
}

// ---------------------------------------------------------------- serializers

func serializerFor(name string) serialize.Serializer {
	switch name {
	case "msgpack":
		return &serialize.MessagePackSerializer{}
	case "cbor":
		return &serialize.CBORSerializer{}
	}
	return &serialize.JSONSerializer{}
}

// ---------------------------------------------------------------- rawsocket

type rawLink struct {
	conn net.Conn
	ser  serialize.Serializer
	in   chan wamp.Message
	wmu  sync.Mutex
	once sync.Once
}

func rawProto(ser string) byte {
	switch ser {
	case "msgpack":
		return 2
	case "cbor":
		return 3
	}
	return 1
}

// dialRaw connects and, unless noHandshake, performs the rawsocket handshake.
func dialRaw(addr, ser string, noHandshake bool) (*rawLink, error) {
	conn, err := net.DialTimeout("tcp", addr, 2*time.Second)
	if err != nil {
		return nil, err
	}
	l := &rawLink{conn: conn, ser: serializerFor(ser), in: make(chan wamp.Message, 1024)}
	if noHandshake {
		go l.drainBytes()
		return l, nil
	}
	_ = conn.SetDeadline(time.Now().Add(2 * time.Second))
	if _, err = conn.Write([]byte{0x7f, 0xf0 | rawProto(ser), 0, 0}); err != nil {
		conn.Close()
		return nil, err
	}
	var rep [4]byte
	if _, err = io.ReadFull(conn, rep[:]); err != nil {
		conn.Close()
		return nil, err
	}
	_ = conn.SetDeadline(time.Time{})
	if rep[0] != 0x7f || rep[1]&0xf != rawProto(ser) {
		conn.Close()
		return nil, fmt.Errorf("rawsocket handshake refused: %x", rep)
	}
	go l.reader()
	return l, nil
}

func (l *rawLink) drainBytes() {
	defer close(l.in)
	_, _ = io.Copy(io.Discard, l.conn)
}

func (l *rawLink) reader() {
	defer close(l.in)
	for {
		var h [4]byte
		if _, err := io.ReadFull(l.conn, h[:]); err != nil {
			return
		}
		n := int(h[1])<<16 | int(h[2])<<8 | int(h[3])
		buf := make([]byte, n)
		if _, err := io.ReadFull(l.conn, buf); err != nil {
			return
		}
		switch h[0] & 7 {
		case 0:
			if m, err := l.ser.Deserialize(buf); err == nil && m != nil {
				select {
				case l.in <- m:
				default:
				}
			}
		case 1: // PING -> PONG
			l.wmu.Lock()
			_, _ = l.conn.Write(append([]byte{2, h[1], h[2], h[3]}, buf...))
			l.wmu.Unlock()
		}
	}
}

func (l *rawLink) isLocal() bool                 { return false }
func (l *rawLink) sendTyped(wamp.Message) error  { return errors.New("not a local link") }
func (l *rawLink) sendWSFrame(int, []byte) error { return errors.New("not a websocket link") }
func (l *rawLink) incoming() <-chan wamp.Message { return l.in }

func (l *rawLink) sendList(list []any) error {
	b, err := l.ser.SerializeDataItem(list)
	if err != nil {
		return fmt.Errorf("unencodable: %w", err)
	}
	if len(b) >= 1<<24 {
		return errors.New("unencodable: too long for a frame")
	}
	frame := append([]byte{0, byte(len(b) >> 16), byte(len(b) >> 8), byte(len(b))}, b...)
	return l.sendBytes(frame)
}

func (l *rawLink) sendBytes(b []byte) error {
	l.wmu.Lock()
	defer l.wmu.Unlock()
	_ = l.conn.SetWriteDeadline(time.Now().Add(2 * time.Second))
	_, err := l.conn.Write(b)
	return err
}

func (l *rawLink) close() { l.once.Do(func() { l.conn.Close() }) }

// ---------------------------------------------------------------- websocket (minimal RFC 6455 client)

type wsLink struct {
	conn   net.Conn
	br     *bufio.Reader
	ser    serialize.Serializer
	binary bool
	in     chan wamp.Message
	wmu    sync.Mutex
	once   sync.Once
}

func wsProto(ser string) string {
	switch ser {
	case "msgpack":
		return "wamp.2.msgpack"
	case "cbor":
		return "wamp.2.cbor"
	}
	return "wamp.2.json"
}

// dialWS performs the HTTP upgrade. proto overrides the subprotocol header
// when non-empty (hostile handshakes).
func dialWS(addr, ser, proto string) (*wsLink, error) {
	conn, err := net.DialTimeout("tcp", addr, 2*time.Second)
	if err != nil {
		return nil, err
	}
	if proto == "" {
		proto = wsProto(ser)
	}
	key := make([]byte, 16)
	_, _ = rand.Read(key)
	req := "GET / HTTP/1.1\r\nHost: " + addr + "\r\nUpgrade: websocket\r\nConnection: Upgrade\r\n" +
		"Sec-WebSocket-Key: " + base64.StdEncoding.EncodeToString(key) + "\r\nSec-WebSocket-Version: 13\r\n" +
		"Sec-WebSocket-Protocol: " + proto + "\r\n\r\n"
	_ = conn.SetDeadline(time.Now().Add(2 * time.Second))
	if _, err = conn.Write([]byte(req)); err != nil {
		conn.Close()
		return nil, err
	}
	br := bufio.NewReader(conn)
	status, err := br.ReadString('\n')
	if err != nil {
		conn.Close()
		return nil, err
	}
	for {
		line, err := br.ReadString('\n')
		if err != nil {
			conn.Close()
			return nil, err
		}
		if line == "\r\n" {
			break
		}
	}
	_ = conn.SetDeadline(time.Time{})
	if !strings.Contains(status, " 101 ") {
		conn.Close()
		return nil, fmt.Errorf("websocket upgrade refused: %s", strings.TrimSpace(status))
	}
	l := &wsLink{conn: conn, br: br, ser: serializerFor(ser), binary: ser != "json", in: make(chan wamp.Message, 1024)}
	go l.reader()
	return l, nil
}

func (l *wsLink) reader() {
	defer close(l.in)
	var frag []byte
	for {
		var h [2]byte
		if _, err := io.ReadFull(l.br, h[:]); err != nil {
			return
		}
		fin := h[0]&0x80 != 0
		op := int(h[0] & 0x0f)
		n := uint64(h[1] & 0x7f)
		switch n {
		case 126:
			var b [2]byte
			if _, err := io.ReadFull(l.br, b[:]); err != nil {
				return
			}
			n = uint64(binary.BigEndian.Uint16(b[:]))
		case 127:
			var b [8]byte
			if _, err := io.ReadFull(l.br, b[:]); err != nil {
				return
			}
			n = binary.BigEndian.Uint64(b[:])
		}
		if n > 64<<20 {
			return
		}
		var mask [4]byte
		masked := h[1]&0x80 != 0
		if masked {
			if _, err := io.ReadFull(l.br, mask[:]); err != nil {
				return
			}
		}
		buf := make([]byte, n)
		if _, err := io.ReadFull(l.br, buf); err != nil {
			return
		}
		if masked {
			for i := range buf {
				buf[i] ^= mask[i%4]
			}
		}
		switch op {
		case 0, 1, 2:
			frag = append(frag, buf...)
			if fin {
				if m, err := l.ser.Deserialize(frag); err == nil && m != nil {
					select {
					case l.in <- m:
					default:
					}
				}
				frag = nil
			}
		case 8:
			return
		case 9:
			_ = l.sendWSFrame(10, buf)
		}
	}
}

func (l *wsLink) isLocal() bool                 { return false }
func (l *wsLink) sendTyped(wamp.Message) error  { return errors.New("not a local link") }
func (l *wsLink) incoming() <-chan wamp.Message { return l.in }

func (l *wsLink) sendList(list []any) error {
	b, err := l.ser.SerializeDataItem(list)
	if err != nil {
		return fmt.Errorf("unencodable: %w", err)
	}
	op := 1
	if l.binary {
		op = 2
	}
	return l.sendWSFrame(op, b)
}

// sendWSFrame writes one masked frame; op may carry extra bits (0x100: clear
// FIN, 0x200: do not mask, 0x70 in the low byte: reserved bits).
func (l *wsLink) sendWSFrame(op int, payload []byte) error {
	first := byte(op&0x7f) | 0x80
	if op&0x100 != 0 {
		first &^= 0x80
	}
	hdr := []byte{first}
	maskBit := byte(0x80)
	if op&0x200 != 0 {
		maskBit = 0
	}
	n := len(payload)
	switch {
	case n < 126:
		hdr = append(hdr, maskBit|byte(n))
	case n < 1<<16:
		hdr = append(hdr, maskBit|126, byte(n>>8), byte(n))
	default:
		hdr = append(hdr, maskBit|127)
		var b [8]byte
		binary.BigEndian.PutUint64(b[:], uint64(n))
		hdr = append(hdr, b[:]...)
	}
	body := append([]byte{}, payload...)
	if maskBit != 0 {
		var mask [4]byte
		_, _ = rand.Read(mask[:])
		hdr = append(hdr, mask[:]...)
		for i := range body {
			body[i] ^= mask[i%4]
		}
	}
	return l.sendBytes(append(hdr, body...))
}

func (l *wsLink) sendBytes(b []byte) error {
	l.wmu.Lock()
	defer l.wmu.Unlock()
	_ = l.conn.SetWriteDeadline(time.Now().Add(2 * time.Second))
	_, err := l.conn.Write(b)
	return err
}

func (l *wsLink) close() { l.once.Do(func() { l.conn.Close() }) }
