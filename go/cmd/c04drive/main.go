package main

import (
	"bufio"
	"encoding/json"
	"flag"
	"fmt"
	"io"
	"os"
	"os/exec"
	"regexp"
	"sort"
	"strconv"
	"strings"
	"sync"
	"sync/atomic"
	"syscall"
	"time"
)

func main() {
	if len(os.Args) < 2 {
		fmt.Fprintln(os.Stderr, "usage: c04drive worker | run | replay | accessors | list")
		os.Exit(2)
	}
	switch os.Args[1] {
	case "worker":
		workerMain()
	case "run":
		runMain(os.Args[2:])
	case "replay":
		replayMain(os.Args[2:])
	case "accessors":
		accessorsMain(os.Args[2:])
	default:
		fmt.Fprintln(os.Stderr, "unknown mode", os.Args[1])
		os.Exit(2)
	}
}

// ---------------------------------------------------------------- child processes

type proc struct {
	step    atomic.Int64 // index of the top-level step the child started last
	cmd     *exec.Cmd
	stdin   io.WriteCloser
	out     *bufio.Reader
	errBuf  *tailBuffer
	lines   chan []byte
	done    chan struct{}
	waitErr error
}

// tailBuffer keeps the first and the last part of what the child wrote to
// stderr (a panic trace is at the end, a data race report anywhere).
type tailBuffer struct {
	mu   sync.Mutex
	head []byte
	tail []byte
}

func (t *tailBuffer) Write(p []byte) (int, error) {
	t.mu.Lock()
	defer t.mu.Unlock()
	if len(t.head) < 256<<10 {
		t.head = append(t.head, p...)
	} else {
		t.tail = append(t.tail, p...)
		if len(t.tail) > 512<<10 {
			t.tail = t.tail[len(t.tail)-256<<10:]
		}
	}
	return len(p), nil
}

func (t *tailBuffer) String() string {
	t.mu.Lock()
	defer t.mu.Unlock()
	if len(t.tail) == 0 {
		return string(t.head)
	}
	return string(t.head) + "\n[...]\n" + string(t.tail)
}

type launcher struct {
	exe  string
	env  []string
	slow bool
}

func (l *launcher) start() (*proc, error) {
	cmd := exec.Command(l.exe, "worker")
	cmd.Env = append(os.Environ(), l.env...)
	cmd.Env = append(cmd.Env, "GOTRACEBACK=all")
	if l.slow {
		cmd.Env = append(cmd.Env, "C04_SLOW=1")
	}
	stdin, _ := cmd.StdinPipe()
	stdout, _ := cmd.StdoutPipe()
	pr, pw, perr := os.Pipe()
	if perr != nil {
		return nil, perr
	}
	cmd.ExtraFiles = []*os.File{pw} // fd 3 in the child: progress
	p := &proc{cmd: cmd, stdin: stdin, errBuf: &tailBuffer{}, lines: make(chan []byte, 4), done: make(chan struct{})}
	p.step.Store(-1)
	cmd.Stderr = p.errBuf
	if err := cmd.Start(); err != nil {
		pr.Close()
		pw.Close()
		return nil, err
	}
	pw.Close()
	go func() {
		defer pr.Close()
		var b [4]byte
		for {
			if _, err := io.ReadFull(pr, b[:]); err != nil {
				return
			}
			p.step.Store(int64(int32(uint32(b[0]) | uint32(b[1])<<8 | uint32(b[2])<<16 | uint32(b[3])<<24)))
		}
	}()
	p.out = bufio.NewReaderSize(stdout, 1<<20)
	go func() {
		for {
			line, err := p.out.ReadBytes('\n')
			if len(line) > 0 {
				p.lines <- line
			}
			if err != nil {
				break
			}
		}
		p.waitErr = cmd.Wait()
		close(p.done)
	}()
	// wait for the ready line
	select {
	case line := <-p.lines:
		var r workerRsp
		if json.Unmarshal(line, &r) != nil || !r.Ready {
			p.kill()
			return nil, fmt.Errorf("worker did not become ready: %s / %s", line, p.errBuf.String())
		}
	case <-p.done:
		return nil, fmt.Errorf("worker exited at start: %v\n%s", p.waitErr, p.errBuf.String())
	case <-time.After(60 * time.Second):
		p.kill()
		return nil, fmt.Errorf("worker start timed out\n%s", p.errBuf.String())
	}
	return p, nil
}

func (p *proc) kill() {
	_ = p.cmd.Process.Kill()
	<-p.done
}

// death describes how the router process ended (or stopped serving).
type death struct {
	Kind      string   `json:"kind"` // panic fatal race wedge hang exit
	Exit      int      `json:"exit"`
	Signature string   `json:"signature"`
	Message   string   `json:"message"`
	Frames    []string `json:"frames"`
	Stderr    string   `json:"stderr"`
}

// run executes one history in the child. rsp is nil when the child died or hung.
func (p *proc) run(id int, h *History, timeout time.Duration) (*workerRsp, *death) {
	p.step.Store(-1)
	b, _ := json.Marshal(workerReq{ID: id, History: h})
	b = append(b, '\n')
	if _, err := p.stdin.Write(b); err != nil {
		<-p.done
		return nil, classify(p, "exit")
	}
	t := time.NewTimer(timeout)
	defer t.Stop()
	select {
	case line := <-p.lines:
		var r workerRsp
		if err := json.Unmarshal(line, &r); err != nil {
			p.kill()
			return nil, &death{Kind: "exit", Signature: "harness:bad-response", Message: string(line)}
		}
		if !r.OK {
			// the child reports a wedge, dumps its goroutines and exits
			select {
			case <-p.done:
			case <-time.After(10 * time.Second):
				p.kill()
			}
			d := classify(p, "wedge")
			d.Message = r.Wedge
			d.Signature = "wedge:" + wedgeClass(r.Wedge)
			return &r, d
		}
		// a data race report does not stop the process unless halt_on_error
		return &r, nil
	case <-p.done:
		return nil, classify(p, "exit")
	case <-t.C:
		_ = p.cmd.Process.Signal(syscall.SIGQUIT) // goroutine dump
		select {
		case <-p.done:
		case <-time.After(10 * time.Second):
			p.kill()
		}
		d := classify(p, "hang")
		d.Kind = "hang"
		d.Signature = "hang:no-answer-within-" + timeout.String()
		return nil, d
	}
}

func wedgeClass(s string) string {
	s = strings.TrimPrefix(s, "probe: ")
	if i := strings.Index(s, " ("); i > 0 {
		s = s[:i]
	}
	return strings.ReplaceAll(s, " ", "-")
}

// frameName: "pkg/path.(*T).method(0x1, ...)" -> "pkg/path.(*T).method"
func frameName(l string) string {
	l = strings.TrimSpace(l)
	if strings.HasPrefix(l, "/") || strings.HasPrefix(l, "created by ") || strings.HasPrefix(l, "goroutine ") {
		return ""
	}
	i := strings.LastIndex(l, "(")
	if i <= 0 || !strings.Contains(l[:i], ".") {
		return ""
	}
	return l[:i]
}

var reDigits = regexp.MustCompile(`[0-9]+|'[^']*'|"[^"]*"`)

// classify reads the child's stderr: panic / fatal error / data race.
func classify(p *proc, dflt string) *death {
	text := p.errBuf.String()
	d := &death{Kind: dflt, Stderr: excerpt(text)}
	if p.cmd.ProcessState != nil {
		d.Exit = p.cmd.ProcessState.ExitCode()
	}
	lines := strings.Split(text, "\n")
	start := -1
	for i, l := range lines {
		switch {
		case strings.HasPrefix(l, "panic: "):
			d.Kind, d.Message, start = "panic", strings.TrimPrefix(l, "panic: "), i
		case strings.HasPrefix(l, "fatal error: "):
			d.Kind, d.Message, start = "fatal", strings.TrimPrefix(l, "fatal error: "), i
		case strings.HasPrefix(l, "WARNING: DATA RACE") && d.Kind != "panic" && d.Kind != "fatal":
			d.Kind, d.Message, start = "race", "DATA RACE", i
		}
		if start >= 0 && d.Kind != "race" {
			break
		}
	}
	if start < 0 {
		d.Signature = d.Kind + ":exit-" + strconv.Itoa(d.Exit)
		return d
	}
	// frames of the first goroutine after the message
	var frames []string
	inBlock := false
	for _, l := range lines[start+1:] {
		if d.Kind == "race" {
			if strings.HasPrefix(l, "====") {
				break
			}
			if fn := frameName(l); fn != "" && strings.HasPrefix(l, "  ") {
				frames = append(frames, fn)
			}
			continue
		}
		if strings.HasPrefix(l, "goroutine ") {
			if inBlock {
				break
			}
			inBlock = true
			continue
		}
		if !inBlock || strings.HasPrefix(l, "\t") || l == "" {
			if inBlock && l == "" {
				break
			}
			continue
		}
		if strings.HasPrefix(l, "created by ") {
			continue
		}
		if fn := frameName(l); fn != "" {
			frames = append(frames, fn)
		}
	}
	var nexus []string
	harnessFirst := false
	for _, f := range frames {
		if strings.Contains(f, "github.com/gammazero/nexus/v3/") {
			nexus = append(nexus, strings.TrimPrefix(f, "github.com/gammazero/nexus/v3/"))
		} else if strings.HasPrefix(f, "main.") && len(nexus) == 0 {
			harnessFirst = true
		}
	}
	d.Frames = nexus
	class := panicClass(d.Message)
	if d.Kind == "race" {
		class = "data-race"
	}
	where := "?"
	if len(nexus) > 0 {
		where = nexus[0]
		if (class == "close-of-closed-channel" || class == "send-on-closed-channel" || class == "data-race") && len(nexus) > 1 {
			where += "<" + nexus[1]
		}
	} else if harnessFirst {
		where = "HARNESS"
	}
	d.Signature = class + "@" + where
	if len(nexus) == 0 && (d.Kind == "race" || harnessFirst) {
		// nothing of the router is involved: a defect of this harness, not a verdict
		d.Signature = "harness:" + class
	}
	return d
}

func panicClass(msg string) string {
	switch {
	case strings.Contains(msg, "interface conversion"):
		return "interface-conversion"
	case strings.Contains(msg, "close of closed channel"):
		return "close-of-closed-channel"
	case strings.Contains(msg, "send on closed channel"):
		return "send-on-closed-channel"
	case strings.Contains(msg, "nil pointer dereference"):
		return "nil-dereference"
	case strings.Contains(msg, "index out of range"):
		return "index-out-of-range"
	case strings.Contains(msg, "slice bounds out of range"):
		return "slice-bounds"
	case strings.Contains(msg, "nil map"):
		return "nil-map-write"
	case strings.Contains(msg, "concurrent map"):
		return "concurrent-map-access"
	case strings.Contains(msg, "all goroutines are asleep"):
		return "deadlock"
	case strings.Contains(msg, "stack overflow"), strings.Contains(msg, "stack exceeds"):
		return "stack-overflow"
	case strings.Contains(msg, "out of memory"):
		return "out-of-memory"
	case strings.Contains(msg, "comparing uncomparable"), strings.Contains(msg, "hash of unhashable"):
		return "uncomparable-value"
	}
	// an explicit panic(...) of the code: keep the first words, drop names and numbers
	var w []string
	for _, x := range strings.Fields(reDigits.ReplaceAllString(msg, "")) {
		if strings.ContainsAny(x, "./:") {
			continue
		}
		w = append(w, strings.Trim(x, "!,;"))
		if len(w) == 4 {
			break
		}
	}
	return "explicit:" + strings.Join(w, "-")
}

func excerpt(s string) string {
	// keep the message and the first goroutine
	i := strings.Index(s, "panic: ")
	if j := strings.Index(s, "fatal error: "); j >= 0 && (i < 0 || j < i) {
		i = j
	}
	if j := strings.Index(s, "WARNING: DATA RACE"); j >= 0 && (i < 0 || j < i) {
		i = j
	}
	if j := strings.Index(s, "c04drive: WEDGE"); j >= 0 && (i < 0 || j < i) {
		i = j
	}
	if i < 0 {
		i = 0
		if len(s) > 3000 {
			i = len(s) - 3000
		}
	}
	s = s[i:]
	// a panic trace: the message and the panicking goroutine are enough
	if strings.HasPrefix(s, "panic: ") || strings.HasPrefix(s, "fatal error: ") {
		if j := strings.Index(s, "\ngoroutine "); j >= 0 {
			if k := strings.Index(s[j+1:], "\n\ngoroutine "); k >= 0 {
				s = s[:j+1+k] + "\n[... other goroutines omitted]"
			}
		}
	}
	if len(s) > 6000 {
		s = s[:6000] + "\n[...]"
	}
	return s
}

// ---------------------------------------------------------------- findings, shrinking

type finding struct {
	Signature string   `json:"signature"`
	Kind      string   `json:"kind"`
	Message   string   `json:"message"`
	Frames    []string `json:"frames"`
	Stream    string   `json:"stream"`
	Origin    string   `json:"origin_history"`
	Trigger   string   `json:"trigger"`    // note of the last hostile step of the shrunk history
	Repro     string   `json:"reproduced"` // alone / with-predecessors / not-reproduced
	Runs      int      `json:"shrink_runs"`
	History   *History `json:"history"`
	Stderr    string   `json:"stderr"`
	Count     int      `json:"occurrences"`
}

type engine struct {
	l        *launcher
	timeout  time.Duration
	mu       sync.Mutex
	findings map[string]*finding
	restarts int
	runs     int
}

// once runs h alone in a fresh child.
func (e *engine) once(h *History) *death {
	d, _ := e.onceAt(h)
	return d
}

// onceAt also tells which top-level step the child had started last.
func (e *engine) onceAt(h *History) (*death, int) {
	p, err := e.l.start()
	if err != nil {
		return &death{Kind: "exit", Signature: "harness:cannot-start-worker", Message: err.Error()}, -1
	}
	defer func() {
		time.Sleep(time.Millisecond)
	}()
	e.mu.Lock()
	e.runs++
	e.mu.Unlock()
	_, d := p.run(0, h, e.timeout)
	if d == nil {
		// also catches a data race reported without halting
		p.stdin.Close()
		select {
		case <-p.done:
		case <-time.After(5 * time.Second):
			p.kill()
		}
		if strings.Contains(p.errBuf.String(), "WARNING: DATA RACE") {
			return classify(p, "race"), int(p.step.Load())
		}
		return nil, -1
	}
	if d.Kind != "hang" && d.Kind != "wedge" {
		select {
		case <-p.done:
		default:
			p.kill()
		}
	}
	time.Sleep(2 * time.Millisecond) // let the progress reader drain
	return d, int(p.step.Load())
}

func sameFailure(a, b *death) bool {
	if a == nil || b == nil {
		return false
	}
	ca, cb := a.Signature, b.Signature
	if i := strings.Index(ca, "@"); i > 0 {
		ca = ca[:i]
	}
	if i := strings.Index(cb, "@"); i > 0 {
		cb = cb[:i]
	}
	return ca == cb
}

// shrink: delta debugging over the steps of h.
func (e *engine) shrink(h *History, want *death, budget int) (*History, int) {
	steps := h.Steps
	runs := 0
	test := func(s []Step) bool {
		if runs >= budget {
			return false
		}
		runs++
		c := *h
		c.Steps = s
		return sameFailure(e.once(&c), want)
	}
	n := 2
	for len(steps) >= 2 && runs < budget {
		chunk := (len(steps) + n - 1) / n
		reduced := false
		// try each complement (removing one chunk); later chunks first: the
		// trigger is usually near the end, set-up at the beginning
		for i := n - 1; i >= 0; i-- {
			lo, hi := i*chunk, (i+1)*chunk
			if lo >= len(steps) {
				continue
			}
			if hi > len(steps) {
				hi = len(steps)
			}
			cand := append(append([]Step{}, steps[:lo]...), steps[hi:]...)
			if len(cand) > 0 && test(cand) {
				steps = cand
				if n > 2 {
					n--
				}
				reduced = true
				break
			}
		}
		if !reduced {
			if n >= len(steps) {
				break
			}
			n *= 2
			if n > len(steps) {
				n = len(steps)
			}
		}
	}
	out := *h
	out.Steps = steps
	return pruneSessions(&out), runs
}

// pruneSessions drops the sessions no step refers to (directly or through a
// sid:N / inv:N reference) and renumbers the rest.
func pruneSessions(h *History) *History {
	used := map[int]bool{}
	var markV func(v V)
	markV = func(v V) {
		switch {
		case v.Ref != nil:
			if i := strings.IndexByte(*v.Ref, ':'); i > 0 {
				if n, err := strconv.Atoi((*v.Ref)[i+1:]); err == nil {
					used[n] = true
				}
			}
		case v.L != nil:
			for _, x := range *v.L {
				markV(x)
			}
		case v.LA != nil:
			for _, x := range *v.LA {
				markV(x)
			}
		case v.D != nil:
			for _, x := range *v.D {
				markV(x)
			}
		case v.M != nil:
			for _, x := range *v.M {
				markV(x)
			}
		}
	}
	var mark func(ss []Step)
	mark = func(ss []Step) {
		for _, s := range ss {
			if s.Op != "sleep" && s.Op != "par" && s.Op != "removerealm" && s.Op != "addrealm" {
				used[s.S] = true
			}
			if s.M != nil {
				for _, f := range s.M.F {
					markV(f)
				}
			}
			mark(s.Par)
		}
	}
	mark(h.Steps)
	remap := map[int]int{}
	var sessions []SessionSpec
	for i, sp := range h.Sessions {
		if used[i] {
			remap[i] = len(sessions)
			sessions = append(sessions, sp)
		}
	}
	if len(sessions) == len(h.Sessions) {
		return h
	}
	var fixV func(v V) V
	fixV = func(v V) V {
		switch {
		case v.Ref != nil:
			if i := strings.IndexByte(*v.Ref, ':'); i > 0 {
				if n, err := strconv.Atoi((*v.Ref)[i+1:]); err == nil {
					return vRef(fmt.Sprintf("%s:%d", (*v.Ref)[:i], remap[n]))
				}
			}
		case v.L != nil:
			l := make([]V, len(*v.L))
			for i, x := range *v.L {
				l[i] = fixV(x)
			}
			return V{L: &l}
		case v.LA != nil:
			l := make([]V, len(*v.LA))
			for i, x := range *v.LA {
				l[i] = fixV(x)
			}
			return V{LA: &l}
		case v.D != nil:
			d := map[string]V{}
			for k, x := range *v.D {
				d[k] = fixV(x)
			}
			return V{D: &d}
		case v.M != nil:
			d := map[string]V{}
			for k, x := range *v.M {
				d[k] = fixV(x)
			}
			return V{M: &d}
		}
		return v
	}
	var fix func(ss []Step) []Step
	fix = func(ss []Step) []Step {
		out := make([]Step, len(ss))
		for i, s := range ss {
			if s.Op != "sleep" && s.Op != "par" && s.Op != "removerealm" && s.Op != "addrealm" {
				s.S = remap[s.S]
			}
			if s.M != nil {
				m := &Msg{T: s.M.T, F: make([]V, len(s.M.F))}
				for j, f := range s.M.F {
					m.F[j] = fixV(f)
				}
				s.M = m
			}
			s.Par = fix(s.Par)
			out[i] = s
		}
		return out
	}
	res := *h
	res.Sessions = sessions
	res.Steps = fix(h.Steps)
	return &res
}

func lastTrigger(h *History) string {
	var last string
	var walk func(ss []Step)
	walk = func(ss []Step) {
		for _, s := range ss {
			if s.Note != "" {
				last = s.Note
			}
			walk(s.Par)
		}
	}
	walk(h.Steps)
	if last == "" && len(h.Steps) > 0 {
		s := h.Steps[len(h.Steps)-1]
		last = s.Op
		if s.M != nil {
			last += ":" + msgName(s.M.T)
		}
	}
	return last
}

func noteClass(note string) string {
	if i := strings.LastIndexByte(note, '/'); i > 0 {
		return note[:i]
	}
	return note
}

// withoutClass removes every step whose note belongs to the class (the same
// hostile input family: same message type and key, any value kind), so that
// the rest of the history can still be run after a finding.
func withoutClass(h *History, class string) *History {
	rest := *h
	rest.Name = h.Name + "'"
	rest.Steps = nil
	n := 0
	for _, s := range h.Steps {
		if s.Note != "" && noteClass(s.Note) == class {
			n++
			continue
		}
		if len(s.Par) > 0 {
			var ps []Step
			for _, p := range s.Par {
				if p.Note != "" && noteClass(p.Note) == class {
					n++
					continue
				}
				ps = append(ps, p)
			}
			s.Par = ps
		}
		rest.Steps = append(rest.Steps, s)
	}
	if n == 0 {
		return nil
	}
	return &rest
}

// knownDeath: the same signature was already investigated; only find the
// trigger (the noted step running when the router died) and drop its class.
func (e *engine) knownDeath(h *History, d *death, at int) (*History, bool) {
	e.mu.Lock()
	old := e.findings[d.Signature]
	if old != nil && strings.HasPrefix(old.Repro, "alone") {
		old.Count++
	} else {
		old = nil
	}
	e.mu.Unlock()
	if old == nil || at < 0 || at >= len(h.Steps) {
		return nil, false
	}
	for j, back := at, 0; j >= 0 && back < 16; j, back = j-1, back+1 {
		if n := h.Steps[j].Note; n != "" {
			if rest := withoutClass(h, noteClass(n)); rest != nil {
				return rest, true
			}
			return nil, true
		}
	}
	return nil, false
}

// investigate: reproduce, shrink, record; returns the history with the
// trigger removed so that the rest of it can still be run.
func (e *engine) investigate(h *History, d *death, preds []*History, shrinkBudget int) *History {
	f := &finding{Signature: d.Signature, Kind: d.Kind, Message: d.Message, Frames: d.Frames, Stream: h.Stream, Origin: h.Name, Stderr: d.Stderr, Count: 1}
	var minimal *History
	if d2, at := e.onceAt(h); sameFailure(d2, d) {
		f.Repro = "alone"
		f.Signature, f.Message, f.Frames, f.Stderr = d2.Signature, d2.Message, d2.Frames, d2.Stderr
		start := h
		extra := 0
		if at >= 0 && at < len(h.Steps) {
			// everything after the step that was running when the router died is irrelevant;
			// usually so is everything between the set-up and the last sync before it
			cut := *h
			cut.Steps = h.Steps[:at+1]
			start = &cut
			setup := 0
			for setup < len(h.Steps) && h.Steps[setup].Note == "" && h.Steps[setup].Op != "par" {
				setup++
			}
			j := at
			for back := 0; j > setup && back < 12; j, back = j-1, back+1 {
				if h.Steps[j-1].Op == "sync" && back >= 2 {
					break
				}
			}
			if j > setup {
				win := *h
				win.Steps = append(append([]Step{}, h.Steps[:setup]...), h.Steps[j:at+1]...)
				extra++
				if sameFailure(e.once(&win), d2) {
					start = &win
				}
			}
		}
		minimal, f.Runs = e.shrink(start, d2, shrinkBudget)
		f.Runs += extra
	} else if d3 := e.once(h); sameFailure(d3, d) {
		f.Repro = "alone (2nd attempt)"
		minimal, f.Runs = e.shrink(h, d3, shrinkBudget/2)
	} else {
		// depends on what ran before in the same router process
		joined := &History{Name: h.Name + "+predecessors", Stream: h.Stream}
		k := len(preds)
		if k > 3 {
			preds = preds[k-3:]
		}
		for _, p := range append(append([]*History{}, preds...), h) {
			base := len(joined.Sessions)
			joined.Sessions = append(joined.Sessions, p.Sessions...)
			for _, s := range p.Steps {
				joined.Steps = append(joined.Steps, shiftStep(s, base))
			}
			for i := range p.Sessions {
				joined.Steps = append(joined.Steps, stepClose(base+i))
			}
		}
		if d4 := e.once(joined); sameFailure(d4, d) {
			f.Repro = "with-predecessors"
			minimal, f.Runs = e.shrink(joined, d4, shrinkBudget)
		} else {
			f.Repro = "not-reproduced (timing dependent)"
			minimal = h
		}
	}
	f.History = minimal
	f.Trigger = lastTrigger(minimal)
	e.mu.Lock()
	key := f.Signature
	if old, ok := e.findings[key]; ok {
		old.Count++
		if len(minimal.Steps) < len(old.History.Steps) && f.Repro != "not-reproduced (timing dependent)" {
			f.Count = old.Count
			e.findings[key] = f
		}
	} else {
		e.findings[key] = f
	}
	e.mu.Unlock()
	if strings.HasPrefix(f.Repro, "alone") && f.Trigger != "" {
		return withoutClass(h, noteClass(f.Trigger))
	}
	return nil
}

func shiftStep(s Step, base int) Step {
	s.S += base
	if s.M != nil {
		s.M = remapRefs(s.M, base)
	}
	if len(s.Par) > 0 {
		ps := make([]Step, len(s.Par))
		for i, p := range s.Par {
			ps[i] = shiftStep(p, base)
		}
		s.Par = ps
	}
	return s
}

// ---------------------------------------------------------------- run

type streamStat struct {
	Histories int            `json:"histories"`
	Steps     int            `json:"steps"`
	Sent      int            `json:"messages_sent"`
	Inexpr    int            `json:"inexpressible_on_transport"`
	Attaches  int            `json:"attaches"`
	Ended     int            `json:"sessions_ended_by_router"`
	Replies   map[string]int `json:"replies"`
	Ms        float64        `json:"ms"`
}

type results struct {
	Tier        string                 `json:"tier"`
	Seed        uint64                 `json:"seed"`
	Race        bool                   `json:"race_build"`
	Histories   int                    `json:"histories"`
	Steps       int                    `json:"steps"`
	Sent        int                    `json:"messages_sent"`
	DistinctIn  int                    `json:"distinct_hostile_inputs"`
	Streams     map[string]*streamStat `json:"streams"`
	ByTransport map[string]int         `json:"steps_by_transport"`
	ByConfig    map[string]int         `json:"histories_by_router_config"`
	ByMsgType   map[string]int         `json:"hostile_by_message_type"`
	ByKind      map[string]int         `json:"hostile_by_value_kind"`
	Keys        int                    `json:"keys"`
	Kinds       int                    `json:"value_kinds"`
	Findings    []*finding             `json:"findings"`
	Restarts    int                    `json:"worker_restarts"`
	ChildRuns   int                    `json:"isolated_child_runs"`
	WallS       float64                `json:"wall_s"`
	Samples     []string               `json:"samples"`
	Skipped     int                    `json:"histories_skipped_budget"`
}

func countSteps(ss []Step) int {
	n := 0
	for _, s := range ss {
		n++
		n += countSteps(s.Par)
	}
	return n
}

func runMain(args []string) {
	fs := flag.NewFlagSet("run", flag.ExitOnError)
	sites := fs.String("sites", "", "translator inventory (sites.json)")
	tier := fs.String("tier", "quick", "quick | thorough")
	seed := fs.Uint64("seed", 1, "VERIF_SEED")
	workers := fs.Int("workers", 8, "child processes")
	out := fs.String("out", "", "results file")
	streams := fs.String("streams", "", "comma separated: typeconf,fieldconf,states,meta,frames,disconnect,repeat,random,burst (default: by tier)")
	only := fs.String("only", "", "run only histories whose name contains this")
	keyFilter := fs.String("keys", "", "comma separated keys to aim the type-confusion stream at (targeted search)")
	workerExe := fs.String("worker-exe", "", "binary to use for the children (e.g. the -race build)")
	race := fs.Bool("race", false, "the children are a -race build: shorter, concurrency-heavy selection, slower clocks")
	budget := fs.Duration("budget", 0, "stop handing out histories after this long")
	histTimeout := fs.Duration("history-timeout", 60*time.Second, "a history (and its probe) must finish within this")
	corpus := fs.String("corpus", "", "directory of history files to run first")
	dump := fs.String("dump", "", "write the generated histories to this file and exit")
	verbose := fs.Bool("v", false, "print every history as it completes")
	fs.Parse(args)

	t0 := time.Now()
	var invKeys, hsKeys []string
	if *sites != "" {
		b, err := os.ReadFile(*sites)
		if err != nil {
			fmt.Fprintln(os.Stderr, "c04drive:", err)
			os.Exit(2)
		}
		var inv struct {
			Keys []struct {
				Key   string `json:"key"`
				Field string `json:"field"`
			} `json:"keys"`
		}
		if err := json.Unmarshal(b, &inv); err != nil {
			fmt.Fprintln(os.Stderr, "c04drive:", err)
			os.Exit(2)
		}
		for _, k := range inv.Keys {
			invKeys = append(invKeys, k.Key)
			switch k.Field {
			case "Details", "SessionDetails", "Extra", "HTTP":
				hsKeys = append(hsKeys, k.Key)
			default:
				if strings.HasPrefix(k.Field, "Unknown") {
					hsKeys = append(hsKeys, k.Key)
				}
			}
		}
	}
	hsKeys = append(hsKeys, "authextra", "authrole", "authprovider", "resumable", "agent", "x_custom", "")
	g := &genCtx{keys: keysOf(invKeys), kinds: kindValues(), seed: *seed, quick: *tier == "quick", hsKeys: hsKeys}
	if *keyFilter != "" {
		g.keys = strings.Split(*keyFilter, ",")
	}
	sel := map[string]bool{}
	def := "typeconf,fieldconf,states,meta,frames,disconnect,repeat,random,burst"
	if *streams != "" {
		def = *streams
	}
	for _, s := range strings.Split(def, ",") {
		sel[strings.TrimSpace(s)] = true
	}
	quickT := []transportSpec{{"local", ""}, {"raw", "json"}, {"ws", "msgpack"}}
	tr := allTransports
	if g.quick {
		tr = quickT
	}
	if *race {
		tr = []transportSpec{{"local", ""}, {"raw", "msgpack"}, {"ws", "json"}}
	}
	var corpusHs []*History
	if *corpus != "" {
		ents, _ := os.ReadDir(*corpus)
		for _, e := range ents {
			if strings.HasSuffix(e.Name(), ".json") {
				b, err := os.ReadFile(*corpus + "/" + e.Name())
				if err != nil {
					continue
				}
				var rep struct {
					History *History `json:"history"`
				}
				if json.Unmarshal(b, &rep) == nil && rep.History != nil {
					rep.History.Stream = "corpus"
					rep.History.Name = "corpus/" + e.Name()
					corpusHs = append(corpusHs, rep.History)
				}
			}
		}
	}
	// genAll: every selected generator, in the order the histories are run.
	// With gc.stub / gc.want set the big generators return stubs (name and
	// stream only) for the histories that are not wanted.
	var onlyStream string // build(): restrict generation to one stream
	genAll := func(gc *genCtx) []*History {
		var hs []*History
		hs = append(hs, corpusHs...)
		sel := sel
		if onlyStream != "" {
			sel = map[string]bool{onlyStream: sel[onlyStream]}
		}
		if sel["repeat"] {
			hs = append(hs, gc.contradictory(tr)...)
		}
		if sel["burst"] {
			rounds := 60
			if !gc.quick {
				rounds = 400
			}
			if *race {
				rounds = 150
			}
			hs = append(hs, gc.bursts(tr, rounds)...)
		}
		if sel["typeconf"] {
			hs = append(hs, gc.typeConfusion(tr)...)
		}
		if sel["states"] {
			hs = append(hs, gc.sessionStates(tr)...)
		}
		if sel["disconnect"] {
			hs = append(hs, gc.disconnects(tr)...)
		}
		if sel["meta"] {
			mt := tr
			if gc.quick {
				mt = []transportSpec{{"local", ""}, {"raw", "cbor"}}
			}
			hs = append(hs, gc.metaProcedures(mt)...)
		}
		if sel["fieldconf"] {
			hs = append(hs, gc.fieldConfusion(tr)...)
		}
		if sel["frames"] {
			hs = append(hs, gc.malformed([]string{"json", "msgpack", "cbor"})...)
		}
		if sel["random"] {
			n, l := 150, 60
			if !gc.quick {
				n, l = 3000, 120
			}
			if *race {
				n, l = 200, 80
			}
			hs = append(hs, gc.randomHistories(tr, n, l)...)
		}
		return hs
	}
	listCtx := *g
	listCtx.stub = true
	hs := genAll(&listCtx)
	// every history is run against several router configurations (quick: 2 of
	// the first 3, thorough: 3 of 4), chosen by its name so that each stream
	// meets all of them
	{
		per, of := 2, 3
		if !g.quick {
			per, of = 3, numConfigs
		}
		if *race {
			per = 2
		}
		var all []*History
		for _, h := range hs {
			if h.Stream == "corpus" {
				for c := 0; c < 3; c++ {
					cp := *h
					cp.Config, cp.Base, cp.Name = c, h.Name, fmt.Sprintf("%s@c%d", h.Name, c)
					all = append(all, &cp)
				}
				continue
			}
			hv := 0
			for i := 0; i < len(h.Name); i++ {
				hv = hv*31 + int(h.Name[i])
			}
			if hv < 0 {
				hv = -hv
			}
			for k := 0; k < per; k++ {
				cp := *h
				cp.Config = (hv + k) % of
				cp.Base, cp.Name = h.Name, fmt.Sprintf("%s@c%d", h.Name, cp.Config)
				all = append(all, &cp)
			}
		}
		hs = all
	}
	if *only != "" {
		var f []*History
		for _, h := range hs {
			for _, pat := range strings.Split(*only, ",") {
				if pat != "" && strings.Contains(h.Name, pat) {
					f = append(f, h)
					break
				}
			}
		}
		hs = f
	}
	// the histories that reach the most router code per second first: when the
	// budget ends a run early the rest is reported as skipped
	prio := func(h *History) int {
		switch {
		case h.Stream == "corpus":
			return 0
		case strings.HasSuffix(h.Name, "/nofeature"):
			return 1
		case h.Stream == "repeat":
			return 2
		case h.Stream == "typeconf" && strings.Contains(h.Name, "/local/"):
			return 3
		case h.Stream == "frames" && (strings.Contains(h.Name, "frametypes") || strings.Contains(h.Name, "limited")):
			return 4
		case h.Stream == "states":
			return 5
		case h.Stream == "typeconf":
			return 6
		case h.Stream == "frames":
			return 7
		case h.Stream == "meta":
			return 8
		case h.Stream == "burst":
			return 9
		case h.Stream == "disconnect":
			return 10
		case h.Stream == "fieldconf":
			return 11
		}
		return 12
	}
	sort.SliceStable(hs, func(i, j int) bool { return prio(hs[i]) < prio(hs[j]) })
	// build: the full history for a stub
	var genMu sync.Mutex
	build := func(h *History) *History {
		if len(h.Steps) > 0 {
			return h
		}
		base := h.Base
		if base == "" {
			base = h.Name
		}
		gc := *g
		gc.want = base
		genMu.Lock() // generation is allocation heavy: one at a time
		defer genMu.Unlock()
		onlyStream = h.Stream
		defer func() { onlyStream = "" }()
		for _, x := range genAll(&gc) {
			if x.Name == base && len(x.Steps) > 0 {
				cp := *x
				cp.Config, cp.Base, cp.Name = h.Config, base, h.Name
				return &cp
			}
		}
		return nil
	}
	if *dump != "" {
		var full []*History
		for _, h := range hs {
			if x := build(h); x != nil {
				full = append(full, x)
			}
		}
		b, _ := json.MarshalIndent(full, "", " ")
		_ = os.WriteFile(*dump, b, 0o644)
		fmt.Printf("c04drive: %d histories written to %s\n", len(hs), *dump)
		return
	}

	exe, _ := os.Executable()
	if *workerExe != "" {
		exe = *workerExe
	}
	l := &launcher{exe: exe, slow: *race}
	if *race {
		l.env = append(l.env, "GORACE=halt_on_error=1 exitcode=66")
	}
	e := &engine{l: l, timeout: *histTimeout, findings: map[string]*finding{}}
	if *race {
		e.timeout *= 3
	}

	res := &results{Tier: *tier, Seed: *seed, Race: *race, Streams: map[string]*streamStat{}, ByTransport: map[string]int{}, ByConfig: map[string]int{}, ByMsgType: map[string]int{},
		ByKind: map[string]int{}, Keys: len(g.keys), Kinds: len(g.kinds)}
	distinct := map[string]bool{}
	var rmu sync.Mutex
	account := func(h *History, r *workerRsp) {
		rmu.Lock()
		defer rmu.Unlock()
		ss := res.Streams[h.Stream]
		if ss == nil {
			ss = &streamStat{Replies: map[string]int{}}
			res.Streams[h.Stream] = ss
		}
		ss.Histories++
		res.ByConfig[fmt.Sprintf("config%d", h.Config)]++
		n := countSteps(h.Steps)
		ss.Steps += n
		res.Histories++
		res.Steps += n
		if r != nil {
			ss.Sent += r.Stats.Sent
			ss.Inexpr += r.Stats.Inexpress
			ss.Attaches += r.Stats.Attaches
			ss.Ended += r.Stats.Aborted
			ss.Ms += r.Ms
			res.Sent += r.Stats.Sent
			for k, v := range r.Stats.Got {
				ss.Replies[k] += v
			}
		}
		var walk func(st []Step)
		walk = func(st []Step) {
			for _, s := range st {
				if s.S >= 0 && s.S < len(h.Sessions) {
					sp := h.Sessions[s.S]
					res.ByTransport[transportSpec{sp.Transport, sp.Ser}.String()]++
				}
				if s.Note != "" {
					distinct[fmt.Sprintf("c%d|", h.Config)+h.Sessions[minInt(s.S, len(h.Sessions)-1)].Transport+"|"+h.Sessions[minInt(s.S, len(h.Sessions)-1)].Ser+"|"+s.Note] = true
					if s.M != nil {
						res.ByMsgType[msgName(s.M.T)]++
					} else {
						res.ByMsgType["(bytes)"]++
					}
					if i := strings.LastIndexByte(s.Note, '/'); i > 0 && h.Stream == "typeconf" {
						res.ByKind[s.Note[i+1:]]++
					}
				}
				walk(s.Par)
			}
		}
		walk(h.Steps)
	}

	queue := make(chan *History, len(hs)+1024)
	var pending sync.WaitGroup
	for _, h := range hs {
		pending.Add(1)
		queue <- h
	}
	go func() { pending.Wait(); close(queue) }()
	deadline := time.Time{}
	if *budget > 0 {
		deadline = t0.Add(*budget)
	}
	shrinkBudget := 45
	if !g.quick {
		shrinkBudget = 120
	}
	var wg sync.WaitGroup
	for w := 0; w < *workers; w++ {
		wg.Add(1)
		go func() {
			defer wg.Done()
			var p *proc
			var preds []*History
			id := 0
			for h := range queue {
				if x := build(h); x != nil {
					h = x
				} else {
					fmt.Fprintln(os.Stderr, "c04drive: INTERNAL: cannot build history", h.Name)
					pending.Done()
					continue
				}
				if !deadline.IsZero() && time.Now().After(deadline) {
					rmu.Lock()
					res.Skipped++
					rmu.Unlock()
					pending.Done()
					continue
				}
				if p == nil {
					var err error
					if p, err = l.start(); err != nil {
						fmt.Fprintln(os.Stderr, "c04drive: cannot start worker:", err)
						e.mu.Lock()
						e.findings["harness:cannot-start-worker"] = &finding{Signature: "harness:cannot-start-worker", Kind: "exit", Message: err.Error(), History: h}
						e.mu.Unlock()
						pending.Done()
						continue
					}
					preds = nil
				}
				id++
				th := time.Now()
				r, d := p.run(id, h, e.timeout)
				account(h, r)
				if *verbose {
					fmt.Fprintf(os.Stderr, "  %-60s %6d steps %8.0f ms died=%v\n", h.Name, countSteps(h.Steps), float64(time.Since(th).Milliseconds()), d != nil)
				}
				if d == nil {
					preds = append(preds, h)
					if len(preds) > 3 {
						preds = preds[1:]
					}
					pending.Done()
					continue
				}
				select {
				case <-p.done:
				default:
					p.kill()
				}
				time.Sleep(2 * time.Millisecond)
				p0step := p.step.Load()
				p = nil
				e.mu.Lock()
				e.restarts++
				e.mu.Unlock()
				at := int(p0step)
				rest, known := e.knownDeath(h, d, at)
				if !known {
					rest = e.investigate(h, d, preds, shrinkBudget)
				}
				if rest != nil && strings.Count(rest.Name, "'") <= 60 {
					pending.Add(1)
					queue <- rest
				}
				pending.Done()
			}
			if p != nil {
				p.stdin.Close()
				select {
				case <-p.done:
				case <-time.After(5 * time.Second):
					p.kill()
				}
				if *race && strings.Contains(p.errBuf.String(), "WARNING: DATA RACE") {
					d := classify(p, "race")
					e.mu.Lock()
					if _, ok := e.findings[d.Signature]; !ok {
						e.findings[d.Signature] = &finding{Signature: d.Signature, Kind: "race", Message: d.Message, Frames: d.Frames, Stderr: d.Stderr, Repro: "reported at exit", Count: 1, History: &History{Name: "(whole worker run)"}}
					}
					e.mu.Unlock()
				}
			}
		}()
	}
	wg.Wait()

	for _, f := range e.findings {
		res.Findings = append(res.Findings, f)
	}
	sort.Slice(res.Findings, func(i, j int) bool { return res.Findings[i].Signature < res.Findings[j].Signature })
	res.Restarts, res.ChildRuns = e.restarts, e.runs
	res.DistinctIn = len(distinct)
	res.WallS = time.Since(t0).Seconds()
	i := 0
	for k := range distinct {
		if i%(len(distinct)/12+1) == 0 && len(res.Samples) < 12 {
			res.Samples = append(res.Samples, k)
		}
		i++
	}
	sort.Strings(res.Samples)
	b, _ := json.MarshalIndent(res, "", " ")
	if *out != "" {
		_ = os.WriteFile(*out, append(b, '\n'), 0o644)
	}
	fmt.Printf("c04drive: %d histories, %d steps, %d messages sent, %d distinct hostile inputs, %d findings, %d restarts, %.1fs\n",
		res.Histories, res.Steps, res.Sent, res.DistinctIn, len(res.Findings), res.Restarts, res.WallS)
	for _, f := range res.Findings {
		fmt.Printf("  FINDING %s  [%s; trigger %s; %d steps; x%d]\n", f.Signature, f.Repro, f.Trigger, len(f.History.Steps), f.Count)
	}
}

func minInt(a, b int) int {
	if a < b {
		if a < 0 {
			return 0
		}
		return a
	}
	if b < 0 {
		return 0
	}
	return b
}

// ---------------------------------------------------------------- replay

func replayMain(args []string) {
	fs := flag.NewFlagSet("replay", flag.ExitOnError)
	file := fs.String("history", "", "replay file (with a 'history' member) or bare history")
	workerExe := fs.String("worker-exe", "", "binary for the child")
	times := fs.Int("times", 1, "repetitions")
	fs.Parse(args)
	b, err := os.ReadFile(*file)
	if err != nil {
		fmt.Fprintln(os.Stderr, "c04drive:", err)
		os.Exit(2)
	}
	var rep struct {
		History *History `json:"history"`
	}
	if json.Unmarshal(b, &rep) != nil || rep.History == nil {
		var h History
		if err := json.Unmarshal(b, &h); err != nil {
			fmt.Fprintln(os.Stderr, "c04drive: not a history:", err)
			os.Exit(2)
		}
		rep.History = &h
	}
	exe, _ := os.Executable()
	if *workerExe != "" {
		exe = *workerExe
	}
	e := &engine{l: &launcher{exe: exe}, timeout: 60 * time.Second, findings: map[string]*finding{}}
	type outT struct {
		Run       int    `json:"run"`
		Died      bool   `json:"router_died_or_wedged"`
		Signature string `json:"signature,omitempty"`
		Message   string `json:"message,omitempty"`
		Stderr    string `json:"stderr,omitempty"`
	}
	fail := false
	for i := 0; i < *times; i++ {
		d := e.once(rep.History)
		o := outT{Run: i + 1}
		if d != nil {
			o.Died, o.Signature, o.Message, o.Stderr = true, d.Signature, d.Message, d.Stderr
			fail = true
		}
		jb, _ := json.MarshalIndent(o, "", " ")
		fmt.Println(string(jb))
	}
	if fail {
		os.Exit(1)
	}
}
