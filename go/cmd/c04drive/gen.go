package main

import (
	"encoding/hex"
	"fmt"
	"sort"
	"strings"
)

// splitmix64: all randomness derives from VERIF_SEED through this generator.
type rng struct{ s uint64 }

func (r *rng) next() uint64 {
	r.s += 0x9e3779b97f4a7c15
	z := r.s
	z = (z ^ (z >> 30)) * 0xbf58476d1ce4e5b9
	z = (z ^ (z >> 27)) * 0x94d049bb133111eb
	return z ^ (z >> 31)
}
func (r *rng) intn(n int) int {
	if n <= 0 {
		return 0
	}
	return int(r.next() % uint64(n))
}
func (r *rng) pick(vs []V) V { return vs[r.intn(len(vs))] }

type transportSpec struct{ tr, ser string }

func (t transportSpec) String() string {
	if t.ser == "" {
		return t.tr
	}
	return t.tr + "-" + t.ser
}

var allTransports = []transportSpec{{"local", ""}, {"raw", "json"}, {"raw", "msgpack"}, {"raw", "cbor"}, {"ws", "json"}, {"ws", "msgpack"}, {"ws", "cbor"}}

func (t transportSpec) spec() SessionSpec { return SessionSpec{Transport: t.tr, Ser: t.ser} }

// kindValues: one value of every dynamic kind a client can put in an option,
// detail or argument position (plus boundary numbers and nested shapes).
func kindValues() []V {
	two64m1 := "18446744073709551615"
	return []V{
		vNil(), vBool(true), vBool(false),
		vInt(5), vInt(0), vInt(-1), {I8: sp("-7")}, {I16: sp("300")}, {I32: sp("70000")}, vInt64(-1), vInt64(1 << 62), vInt64(9007199254740993),
		{U: sp("7")}, {U8: sp("200")}, {U16: sp("65535")}, {U32: sp("4000000000")}, vUint64(1 << 63), {U64: sp(two64m1)}, vID(7), vID(0), {ID: sp(two64m1)},
		vFloat("1.5"), vFloat("-0.0"), vFloat("NaN"), vFloat("+Inf"), vFloat("-Inf"), vFloat("1e308"), vFloat("9.3e18"), {F32: sp("2.5")},
		vStr(""), vStr("text"), vStr("prefix"), vStr("x_custom"), vStr("\x00\xff\xfe"), vURI("a.b"), vURI(""), vBin([]byte("xy")), vBin(nil),
		vList(), vList(vInt(1), vStr("a"), vNil()), vList(vID(3), vID(4)), vSliceAny(vStr("s"), vList(vDict("k", vNil()))), vStrs("a", "b"), vStrs(),
		{LID: &[]string{"1", "2"}}, {LI: &[]string{"1", "2"}},
		vDict(), vDict("k", vInt(1), "match", vStr("prefix")), vMap("k", vList(vMap())), {MS: &map[string]string{"a": "b"}},
		{MK: &[][2]V{{vInt(1), vInt(2)}, {vStr("k"), vList()}, {vNil(), vNil()}}},
		vDeep(6), vDeep(40),
		vOther("struct"), vOther("ptr"), vOther("nilptr"), vOther("array"), vOther("chan"), vOther("func"), vOther("complex"), vOther("error"),
	}
}

var extraKeys = []string{
	"exclude_authid", "exclude_authrole", "eligible_authid", "eligible_authrole", "exclude_foo", "eligible_", "exclude_", "retain",
	"rkey", "runmode", "trustlevel", "nkey", "x_custom", "authextra", "authrole", "authprovider", "resumable", "resume_session",
	"session", "transport", "caller", "publisher", "topic", "procedure", "agent", "",
}

// keysOf merges the translator's key inventory with the spec keys above.
func keysOf(inv []string) []string {
	m := map[string]bool{}
	for _, k := range inv {
		m[k] = true
	}
	for _, k := range extraKeys {
		m[k] = true
	}
	ks := make([]string, 0, len(m))
	for k := range m {
		ks = append(ks, k)
	}
	sort.Strings(ks)
	return ks
}

// companions: other options needed for the router to look at key at all.
func companions(key string, v V) map[string]V {
	d := map[string]V{key: v}
	if strings.HasPrefix(key, "ppt_") && key != "ppt_scheme" {
		d["ppt_scheme"] = vStr("x_custom")
	}
	return d
}

func dictOf(m map[string]V) V { return V{D: &m} }

// netKinds: the value kinds that still differ after a serializer round trip
// (quick tier, network transports; local peers always get every kind).
func (g *genCtx) netKinds() []V {
	var out []V
	seen := map[string]bool{}
	for _, v := range g.kinds {
		k := v.kind()
		switch k {
		case "int8", "int16", "int32", "uint", "uint8", "uint16", "uint32", "float32", "wamp.URI", "[]any", "[]int", "[]wamp.ID", "map[string]any",
			"other:ptr", "other:array", "other:chan", "other:func", "other:complex", "other:error", "other:nilptr":
			continue
		}
		if seen[k] && k != "int64" && k != "float64" && k != "string" && k != "wamp.List" && k != "wamp.Dict" {
			continue
		}
		seen[k] = true
		out = append(out, v)
	}
	return out
}

func contains(l []string, x string) bool {
	for _, y := range l {
		if x == y {
			return true
		}
	}
	return false
}

type genCtx struct {
	keys  []string
	kinds []V
	seed  uint64
	quick bool
	// want: build only the history of this name (others are returned as
	// stubs: name and stream only).  Histories are big; the run builds each
	// one when a worker is ready for it.
	want string
	stub bool
	// keys read from HELLO details / session details by the router (quick
	// tier: the handshake contexts use these instead of every key)
	hsKeys []string
}

// skip reports whether the history `name` is to be returned as a stub.
func (g *genCtx) skip(name string) bool {
	return g.stub || (g.want != "" && g.want != name)
}

func stubH(name, stream string) *History { return &History{Name: name, Stream: stream} }

// rngFor: the generator of one history depends on the seed and its name only.
func (g *genCtx) rngFor(name string) *rng {
	h := uint64(1469598103934665603)
	for i := 0; i < len(name); i++ {
		h = (h ^ uint64(name[i])) * 1099511628211
	}
	return &rng{s: h ^ (g.seed * 0x9e3779b97f4a7c15)}
}

// ---------------------------------------------------------------- (1) type confusion

type tcContext struct {
	name string
	// sessions beyond S0 (the hostile one) and the set-up steps
	sessions func(t transportSpec) []SessionSpec
	setup    []Step
	// the hostile message for (key, value); n is a running number
	msg func(n int, opts V) []Step
}

func auto(sp SessionSpec, mode string) SessionSpec { sp.Roles = mode; return sp }

func tcContexts() []tcContext {
	helper := func(t transportSpec) []SessionSpec {
		h := t.spec()
		h.Roles = "all+yield"
		return []SessionSpec{t.spec(), h}
	}
	one := func(t transportSpec) []SessionSpec { return []SessionSpec{t.spec()} }
	return []tcContext{
		{name: "PUBLISH", sessions: helper,
			setup: []Step{
				stepAttach(0), stepAttach(1),
				stepMsg(1, "", mk(32, vID(1), vDict(), vURI("tc.topic"))),
				stepMsg(1, "", mk(32, vID(2), vDict("match", vStr("prefix")), vURI("tc."))),
				stepMsg(1, "", mk(32, vID(3), vDict(), vURI("hist.topic"))),
				stepMsg(0, "", mk(32, vID(4), vDict("match", vStr("wildcard")), vURI("tc..x"))),
				stepSync(1), stepSync(0)},
			msg: func(n int, o V) []Step {
				// every option goes to a topic with an exact subscriber, to one with an
				// event-history store and to one matched by prefix and wildcard subscriptions
				var out []Step
				for _, topic := range []string{"tc.topic", "hist.topic", "tc.a.x"} {
					out = append(out, Step{S: 0, Op: "msg", Re: true, M: mk(16, vRef("req"), o, vURI(topic), vList(vInt(n)), vDict("a", vInt(1)))})
				}
				return out
			}},
		{name: "SUBSCRIBE", sessions: one, setup: []Step{stepAttach(0)},
			msg: func(n int, o V) []Step {
				return []Step{{S: 0, Op: "msg", Re: true, M: mk(32, vRef("req"), o, vURI(fmt.Sprintf("tc.sub.t%d", n%7)))}}
			}},
		{name: "REGISTER", sessions: one, setup: []Step{stepAttach(0)},
			msg: func(n int, o V) []Step {
				return []Step{{S: 0, Op: "msg", Re: true, M: mk(64, vRef("req"), o, vURI(fmt.Sprintf("tc.reg.p%d", n%5)))}}
			}},
		{name: "CALL", sessions: helper,
			setup: []Step{stepAttach(0), stepAttach(1),
				stepMsg(1, "", mk(64, vID(1), vDict(), vURI("tc.callee"))),
				stepMsg(1, "", mk(64, vID(2), vDict("match", vStr("prefix"), "disclose_caller", vBool(true), "forward_timeout", vBool(true)), vURI("tc.pfx"))),
				stepSync(1)},
			msg: func(n int, o V) []Step {
				proc := []string{"tc.callee", "tc.pfx.q", "wamp.session.count", "tc.nosuch"}[n%4]
				return []Step{{S: 0, Op: "msg", Re: true, M: mk(48, vRef("req"), o, vURI(proc), vList(vInt(n)), vDict("a", vInt(1)))}}
			}},
		{name: "CANCEL", sessions: func(t transportSpec) []SessionSpec { return []SessionSpec{t.spec(), t.spec()} },
			setup: []Step{stepAttach(0), stepAttach(1),
				stepMsg(1, "", mk(64, vID(1), vDict(), vURI("tc.slow"))), stepSync(1)},
			msg: func(n int, o V) []Step {
				req := vID(uint64(1000 + n))
				return []Step{
					{S: 0, Op: "msg", Re: true, M: mk(48, req, vDict(), vURI("tc.slow"))},
					{S: 0, Op: "msg", M: mk(49, req, o)},
				}
			}},
		{name: "YIELD", sessions: func(t transportSpec) []SessionSpec { return []SessionSpec{t.spec(), t.spec()} },
			setup: []Step{stepAttach(0), stepAttach(1)},
			msg: func(n int, o V) []Step {
				proc := vURI("tc.hostile.callee")
				return []Step{
					{S: 0, Op: "msg", Re: true, M: mk(64, vRef("req"), vDict(), proc)},
					stepWait(0, 65, 100),
					{S: 1, Op: "msg", Re: true, M: mk(48, vRef("req"), vDict("receive_progress", vBool(n%2 == 0)), proc, vList(vInt(n)))},
					stepWait(0, 68, 100),
					{S: 0, Op: "msg", M: mk(70, vRef("inv"), o, vList(vInt(n)), vDict("r", vInt(1)))},
					{S: 0, Op: "msg", M: mk(66, vRef("req"), vRef("reg"))},
				}
			}},
		{name: "ERROR", sessions: func(t transportSpec) []SessionSpec { return []SessionSpec{t.spec(), t.spec()} },
			setup: []Step{stepAttach(0), stepAttach(1)},
			msg: func(n int, o V) []Step {
				proc := vURI("tc.hostile.errcallee")
				return []Step{
					{S: 0, Op: "msg", Re: true, M: mk(64, vRef("req"), vDict(), proc)},
					stepWait(0, 65, 100),
					{S: 1, Op: "msg", Re: true, M: mk(48, vRef("req"), vDict(), proc)},
					stepWait(0, 68, 100),
					{S: 0, Op: "msg", M: mk(8, vInt(68), vRef("inv"), o, vURI("tc.error"), vList(vInt(n)), vDict("e", vInt(1)))},
					{S: 0, Op: "msg", M: mk(66, vRef("req"), vRef("reg"))},
				}
			}},
		{name: "GOODBYE", sessions: one, setup: nil,
			msg: func(n int, o V) []Step {
				return []Step{stepAttach(0), {S: 0, Op: "msg", M: mk(6, o, vURI("wamp.close.close_realm"))}, {Op: "sleep", Ms: 1}}
			}},
		{name: "HELLO", sessions: one, setup: nil,
			msg: func(n int, o V) []Step {
				// the option dict IS the details; keep roles unless the key under test is roles
				d := map[string]V{}
				if o.D != nil {
					for k, v := range *o.D {
						d[k] = v
					}
				}
				if _, ok := d["roles"]; !ok {
					d["roles"] = allRoles()
				}
				realm := []string{"realm1", "realm2", "realm.auto"}[n%3]
				return []Step{{S: 0, Op: "open"}, {S: 0, Op: "msg", M: mk(1, vURI(realm), dictOf(d))}, stepWait(0, 2, 150),
					{S: 0, Op: "msg", M: mk(48, vID(1), vDict(), vURI("wamp.session.get"), vList(vRef("sid")))}, stepSync(0), stepClose(0)}
			}},
		{name: "AUTHENTICATE", sessions: func(t transportSpec) []SessionSpec {
			s := t.spec()
			return []SessionSpec{s}
		}, setup: nil,
			msg: func(n int, o V) []Step {
				method := []string{"ticket", "wampcra", "cryptosign"}[n%3]
				hello := vDict("roles", allRoles(), "authmethods", vList(vStr(method)), "authid", vStr("alice"))
				return []Step{{S: 0, Op: "open"}, {S: 0, Op: "msg", M: mk(1, vURI("realm1"), hello)}, stepWait(0, 4, 150),
					{S: 0, Op: "msg", M: mk(5, vStr("sig"), o)}, {Op: "sleep", Ms: 1}, stepClose(0)}
			}},
	}
}

func (g *genCtx) typeConfusion(transports []transportSpec) []*History {
	var hs []*History
	const keysPerHistory = 8
	for _, t := range transports {
		for _, c := range tcContexts() {
			for k0 := 0; k0 < len(g.keys); k0 += keysPerHistory {
				k1 := k0 + keysPerHistory
				if k1 > len(g.keys) {
					k1 = len(g.keys)
				}
				h := &History{Name: fmt.Sprintf("typeconf/%s/%s/keys%d-%d", t, c.name, k0, k1-1), Stream: "typeconf", Sessions: c.sessions(t)}
				if g.skip(h.Name) {
					hs = append(hs, stubH(h.Name, h.Stream))
					continue
				}
				h.Steps = append(h.Steps, c.setup...)
				n := k0 * len(g.kinds)
				kinds := g.kinds
				if g.quick && t.tr != "local" {
					kinds = g.netKinds()
				}
				for _, key := range g.keys[k0:k1] {
					if g.quick && len(g.hsKeys) > 0 && (c.name == "HELLO" || c.name == "AUTHENTICATE" || c.name == "GOODBYE") && !contains(g.hsKeys, key) {
						continue
					}
					for _, v := range kinds {
						n++
						o := dictOf(companions(key, v))
						steps := c.msg(n, o)
						for i := range steps {
							if steps[i].Op == "msg" && steps[i].Note == "" {
								steps[i].Note = fmt.Sprintf("%s/%s/%s", c.name, key, v.kind())
							}
						}
						h.Steps = append(h.Steps, steps...)
						h.Steps = append(h.Steps, stepSync(0))
					}
				}
				hs = append(hs, h)
			}
		}
		// protocol-violation paths: a session WITHOUT the features uses them
		nf := t.spec()
		nf.Roles = "none"
		helper := t.spec()
		helper.Roles = "all+yield"
		h := &History{Name: fmt.Sprintf("typeconf/%s/nofeature", t), Stream: "typeconf", Sessions: []SessionSpec{nf, helper, t.spec()}}
		if g.skip(h.Name) {
			hs = append(hs, stubH(h.Name, h.Stream))
			continue
		}
		h.Steps = []Step{stepAttach(1), stepMsg(1, "", mk(64, vID(1), vDict(), vURI("nf.proc"))), stepMsg(1, "", mk(32, vID(2), vDict(), vURI("nf.topic"))), stepSync(1)}
		n := 0
		for _, key := range []string{"ppt_scheme", "progress", "receive_progress", "ppt_serializer"} {
			for _, v := range g.kinds {
				n++
				o := dictOf(companions(key, v))
				note := fmt.Sprintf("nofeature/%s/%s", key, v.kind())
				h.Steps = append(h.Steps,
					Step{S: 0, Op: "msg", Re: true, Note: "PUBLISH/" + note, M: mk(16, vRef("req"), o, vURI("nf.topic"), vList(vInt(n)))}, stepSync(0),
					Step{S: 0, Op: "msg", Re: true, Note: "CALL/" + note, M: mk(48, vRef("req"), o, vURI("nf.proc"), vList(vInt(n)))}, stepSync(0),
				)
			}
		}
		// a callee without the feature yields with PPT options
		for i, v := range []V{vStr("x_custom"), vStr("wamp"), vStr(""), vInt(5), vNil()} {
			h.Steps = append(h.Steps,
				Step{S: 0, Op: "msg", Re: true, M: mk(64, vRef("req"), vDict(), vURI("nf.hostile"))}, stepWait(0, 65, 100),
				Step{S: 2, Op: "msg", Re: true, M: mk(48, vRef("req"), vDict(), vURI("nf.hostile"))}, stepWait(0, 68, 100),
				Step{S: 0, Op: "msg", Note: fmt.Sprintf("YIELD/nofeature/ppt_scheme/%d", i), M: mk(70, vRef("inv"), vDict("ppt_scheme", v, "ppt_serializer", vInt(i)))},
				stepSync(0), stepSync(2))
		}
		hs = append(hs, h)
	}
	return hs
}

// ---------------------------------------------------------------- field confusion: every field position of every message type

func validFields(t int) []V {
	d, l, id, uri := vDict(), vList(vInt(1)), vID(5), vURI("fc.x")
	switch t {
	case 1:
		return []V{vURI("realm1"), vDict("roles", allRoles())}
	case 2:
		return []V{id, d}
	case 3, 6:
		return []V{d, uri}
	case 4, 5:
		return []V{vStr("ticket"), d}
	case 8:
		return []V{vInt(68), id, d, uri, l, d}
	case 16, 48:
		return []V{id, d, uri, l, d}
	case 17, 33, 34, 65, 66:
		return []V{id, id}
	case 32, 64:
		return []V{id, d, uri}
	case 35, 67:
		return []V{id}
	case 36, 68:
		return []V{id, id, d, l, d}
	case 49, 69:
		return []V{id, d}
	case 50, 70:
		return []V{id, d, l, d}
	}
	return []V{id, d, uri, l, d}
}

func (g *genCtx) fieldConfusion(transports []transportSpec) []*History {
	var hs []*History
	for _, t := range transports {
		for _, mt := range append(append([]int{}, allMsgTypes...), 0, 7, 9, 71, 255, 1<<31-1) {
			h := &History{Name: fmt.Sprintf("fieldconf/%s/%s", t, msgName(mt)), Stream: "fieldconf", Sessions: []SessionSpec{t.spec()}}
			if g.skip(h.Name) {
				hs = append(hs, stubH(h.Name, h.Stream))
				continue
			}
			h.Steps = []Step{stepAttach(0)}
			base := validFields(mt)
			// wrong kind in each position
			for p := range base {
				for _, v := range g.kinds {
					f := append([]V{}, base...)
					f[p] = v
					h.Steps = append(h.Steps, Step{S: 0, Op: "msg", Re: true, Note: fmt.Sprintf("%s/field%d/%s", msgName(mt), p, v.kind()), M: &Msg{T: mt, F: f}}, stepSync(0))
				}
			}
			// short and long lists (network only: the struct has fixed fields)
			for n := 0; n <= len(base)+3; n++ {
				f := append([]V{}, base...)
				for len(f) < n {
					f = append(f, vInt(len(f)))
				}
				h.Steps = append(h.Steps, Step{S: 0, Op: "msg", Re: true, Note: fmt.Sprintf("%s/len%d", msgName(mt), n), M: &Msg{T: mt, F: f[:n]}}, stepSync(0))
			}
			hs = append(hs, h)
		}
	}
	return hs
}

// ---------------------------------------------------------------- (2) every message type in every session state

func minimalMsg(t int) *Msg { return &Msg{T: t, F: validFields(t)} }

func (g *genCtx) sessionStates(transports []transportSpec) []*History {
	types := append(append([]int{}, allMsgTypes...), 0, 7, 255, -1)
	var hs []*History
	for _, t := range transports {
		for _, state := range []string{"before-hello", "during-auth", "established", "after-goodbye", "after-abort", "established-realm2"} {
			h := &History{Name: fmt.Sprintf("states/%s/%s", t, state), Stream: "states"}
			if g.skip(h.Name) {
				hs = append(hs, stubH(h.Name, h.Stream))
				continue
			}
			add := func(mt int, m *Msg, note string) {
				s := len(h.Sessions)
				sp := t.spec()
				if state == "established-realm2" {
					sp.Realm = "realm2"
					sp.Auth = "ticket"
				}
				h.Sessions = append(h.Sessions, sp)
				switch state {
				case "before-hello":
					h.Steps = append(h.Steps, Step{S: s, Op: "open"})
				case "during-auth":
					hello := vDict("roles", allRoles(), "authmethods", vList(vStr([]string{"ticket", "wampcra", "cryptosign"}[s%3])), "authid", vStr("alice"))
					h.Steps = append(h.Steps, Step{S: s, Op: "open"}, Step{S: s, Op: "msg", M: mk(1, vURI("realm1"), hello)}, stepWait(s, 4, 150))
				case "established", "established-realm2":
					h.Steps = append(h.Steps, stepAttach(s))
				case "after-goodbye":
					h.Steps = append(h.Steps, stepAttach(s), Step{S: s, Op: "msg", M: mk(6, vDict(), vURI("wamp.close.close_realm"))})
				case "after-abort":
					// a protocol violation first (ERROR that is not an INVOCATION error)
					h.Steps = append(h.Steps, stepAttach(s), Step{S: s, Op: "msg", M: mk(8, vInt(48), vID(1), vDict(), vURI("x.y"))})
				}
				h.Steps = append(h.Steps, Step{S: s, Op: "msg", Note: note, M: m}, stepSync(s), Step{S: s, Op: "msg", M: minimalMsg(48)}, stepSync(s), stepClose(s))
			}
			for _, mt := range types {
				add(mt, minimalMsg(mt), fmt.Sprintf("%s/%s", state, msgName(mt)))
			}
			if strings.HasPrefix(state, "established") {
				// ERROR with every Type
				for _, et := range append(append([]int{}, allMsgTypes...), 0, 7, 255, -1, 1<<31-1) {
					add(8, mk(8, vInt(et), vID(3), vDict(), vURI("some.error"), vList(), vDict()), fmt.Sprintf("%s/ERROR-type-%d", state, et))
				}
			}
			hs = append(hs, h)
		}
	}
	return hs
}

// ---------------------------------------------------------------- (3) meta procedures with every argument shape

var metaProcs = []string{
	"wamp.session.count", "wamp.session.list", "wamp.session.get", "wamp.session.kill", "wamp.session.kill_by_authid",
	"wamp.session.kill_by_authrole", "wamp.session.kill_all", "wamp.session.modify_details",
	"wamp.registration.list", "wamp.registration.lookup", "wamp.registration.match", "wamp.registration.get",
	"wamp.registration.list_callees", "wamp.registration.count_callees",
	"wamp.subscription.list", "wamp.subscription.lookup", "wamp.subscription.match", "wamp.subscription.get",
	"wamp.subscription.list_subscribers", "wamp.subscription.count_suscribers", "wamp.subscription.get_events",
	"wamp.session.add_testament", "wamp.session.flush_testaments", "wamp.nosuch.proc",
}

func (g *genCtx) metaProcedures(transports []transportSpec) []*History {
	var hs []*History
	kwKeys := []string{"reason", "message", "scope", "publish_options", "limit", "reverse", "from_time", "after_time", "before_time", "until_time",
		"topic", "from_publication", "after_publication", "before_publication", "until_publication", "match", "x"}
	for _, t := range transports {
		for _, proc := range metaProcs {
			target := t.spec()
			h := &History{Name: fmt.Sprintf("meta/%s/%s", t, proc), Stream: "meta", Sessions: []SessionSpec{t.spec(), target}}
			if g.skip(h.Name) {
				hs = append(hs, stubH(h.Name, h.Stream))
				continue
			}
			h.Steps = []Step{stepAttach(0), stepAttach(1),
				stepMsg(1, "", mk(32, vID(1), vDict(), vURI("hist.topic"))), stepMsg(1, "", mk(64, vID(2), vDict(), vURI("meta.target.proc"))),
				stepMsg(1, "", mk(16, vID(3), vDict("acknowledge", vBool(true)), vURI("hist.topic"), vList(vInt(1)))), stepSync(1)}
			call := func(note string, args V, kw V) {
				h.Steps = append(h.Steps, Step{S: 0, Op: "msg", Re: true, Note: proc + "/" + note, M: mk(48, vRef("req"), vDict(), vURI(proc), args, kw)}, stepSync(0),
					Step{S: 1, Op: "sync", Re: true})
			}
			// argument lists of length 0..3 of every kind; the first argument also
			// as a real id (session / subscription / registration of the target)
			call("noargs", vNil(), vNil())
			call("empty", vList(), vDict())
			for _, v := range g.kinds {
				call("arg0/"+v.kind(), vList(v), vNil())
				call("arg1/"+v.kind(), vList(vRef("sid:1"), v), vNil())
				call("arg2/"+v.kind(), vList(vURI("t.x"), vList(), v), vNil())
			}
			for _, ref := range []string{"sid:1", "sub:1", "reg:1", "sid"} {
				call("ref/"+ref, vList(vRef(ref)), vNil())
				call("ref2/"+ref, vList(vRef(ref), vDict("k", vInt(1), "session", vInt(2))), vNil())
				if !g.quick {
					for _, k := range kwKeys {
						for _, v := range g.kinds {
							call(fmt.Sprintf("kw/%s/%s", k, v.kind()), vList(vRef(ref), vDict("x", vNil()), vDict()), vDict(k, v))
						}
					}
				}
			}
			readsKw := strings.Contains(proc, "kill") || strings.Contains(proc, "testament") || strings.Contains(proc, "get_events") || strings.Contains(proc, "lookup")
			if g.quick && readsKw {
				// quick: every kw key with every kind once, against one reference
				for _, k := range kwKeys {
					for _, v := range g.kinds {
						call(fmt.Sprintf("kw/%s/%s", k, v.kind()), vList(vRef("sub:1"), vDict(), vDict()), vDict(k, v))
					}
				}
			}
			call("longargs", vList(vInt(1), vInt(2), vInt(3), vInt(4), vInt(5), vInt(6), vInt(7), vInt(8)), vDict("a", vDeep(30)))
			hs = append(hs, h)
		}
	}
	return hs
}

// ---------------------------------------------------------------- (4) malformed frames and byte streams

func hx(b []byte) string { return hex.EncodeToString(b) }

func rawFrame(typ byte, payload []byte) []byte {
	n := len(payload)
	return append([]byte{typ, byte(n >> 16), byte(n >> 8), byte(n)}, payload...)
}

func payloads(ser string) [][]byte {
	var ps [][]byte
	add := func(s string) { ps = append(ps, []byte(s)) }
	switch ser {
	case "json":
		for _, s := range []string{"", " ", "[", "]", "[]", "[1]", "[1,", "{}", "null", "1", "\"x\"", "[null]", "[\"a\"]", "[1.5]", "[-1]", "[true]",
			"[99999999999999999999]", "[1e400]", "[1,\"realm1\"]", "[1,\"realm1\",{},1,2,3,4,5,6,7,8]", "[1,1,1]", "[1,{},{}]", "[1,\"realm1\",[]]",
			"[1,\"realm1\",{\"roles\":1}]", "[1,\"realm1\",{\"roles\":{\"caller\":null}}]", "[16,1,{},\"a\",{},[]]", "[16,1,{\"a\":1,\"a\":2},\"t\"]",
			"[16,-1,{},\"t\"]", "[16,1.5,{},\"t\"]", "[16,1e30,{},\"t\"]", "[8,\"x\",1,{},\"e\"]", "[1,\"\\ud800\",{}]", "[1,\"realm1\",{\"\\u0000\":1}]",
			"[1,\"realm1\",{}]garbage", "\xff\xfe[1]", "[1,\"realm1\",{\"roles\":{\"caller\":{}}}]"} {
			add(s)
		}
		add(strings.Repeat("[", 6000))
		add("[1,\"realm1\",{\"roles\":" + strings.Repeat("{\"a\":", 3000) + "1" + strings.Repeat("}", 3000) + "}]")
		add("[1,\"" + strings.Repeat("r", 300000) + "\",{}]")
	case "msgpack":
		for b := 0; b < 256; b++ {
			ps = append(ps, []byte{byte(b)}, []byte{byte(b), 0x01, 0x02, 0x03, 0x04, 0x05, 0x06, 0x07, 0x08, 0x09})
		}
		for _, h := range []string{"90", "91c0", "9101", "9301a67265616c6d3180", "93cf0000000000000001a67265616c6d3180", "9301a67265616c6d3181c001",
			"9301a67265616c6d3181a5726f6c657301", "93d301a67265616c6d3180", "dc0001", "dcffff", "ddffffffff", "dfffffffff", "9301a67265616c6d31de0001",
			"c7ff00", "c9ffffffff00", "d40001", "9301a67265616c6d3181a17890", "93ca7fc00000a1780180", "9301d9ff", "9301dbffffffff", "9301c4ff"} {
			b, _ := hex.DecodeString(h)
			ps = append(ps, b)
		}
		ps = append(ps, []byte(strings.Repeat("\x91", 6000)))
	case "cbor":
		for b := 0; b < 256; b++ {
			ps = append(ps, []byte{byte(b)}, []byte{byte(b), 0x01, 0x02, 0x03, 0x04, 0x05, 0x06, 0x07, 0x08, 0x09})
		}
		for _, h := range []string{"80", "8101", "830166726561 6c6d31a0", "9f01ff", "9f", "bf", "bfff", "8301667265616c6d31bf", "8301667265616c6d31a1f600",
			"83c2410166726561 6c6d31a0", "83f97e0066726561 6c6d31a0", "83fb7ff800000000000066726561 6c6d31a0", "8301667265616c6d31a165726f6c657301",
			"831bffffffffffffffff667265616c6d31a0", "833bffffffffffffffff667265616c6d31a0", "8301667265616c6d31a10102", "5bffffffffffffffff", "7bffffffffffffffff",
			"9bffffffffffffffff", "bbffffffffffffffff", "d9d9f78101", "f8ff", "8301667265616c6d31a1a00000"} {
			b, _ := hex.DecodeString(strings.ReplaceAll(h, " ", ""))
			ps = append(ps, b)
		}
		ps = append(ps, []byte(strings.Repeat("\x81", 6000)))
	}
	return ps
}

// validStream: handshake-less byte payloads of a small valid session, per serializer (encoded by the worker at run time is
// not possible for raw bytes, so the frames are produced here through the nexus serializers).
func validPayloads(ser string) [][]byte {
	s := serializerFor(ser)
	var out [][]byte
	for _, m := range []*Msg{
		mk(1, vURI("realm1"), vDict("roles", allRoles())),
		mk(32, vID(1), vDict(), vURI("vs.topic")),
		mk(16, vID(2), vDict("acknowledge", vBool(true), "exclude_me", vBool(false)), vURI("vs.topic"), vList(vInt(1), vStr("x")), vDict("k", vList())),
		mk(64, vID(3), vDict(), vURI("vs.proc")),
		mk(48, vID(4), vDict(), vURI("vs.proc"), vList(vInt(1))),
		mk(6, vDict(), vURI("wamp.close.close_realm")),
	} {
		l, _ := m.wireList(nil)
		b, err := s.SerializeDataItem(l)
		if err == nil {
			out = append(out, b)
		}
	}
	return out
}

func (g *genCtx) malformed(sers []string) []*History {
	var hs []*History
	emit := func(name string, sessions []SessionSpec, build func(h *History, r *rng)) {
		if g.skip(name) {
			hs = append(hs, stubH(name, "frames"))
			return
		}
		h := &History{Name: name, Stream: "frames", Sessions: sessions}
		build(h, g.rngFor(name))
		hs = append(hs, h)
	}
	for _, ser := range sers {
		proto := rawProto(ser)
		// -- rawsocket handshakes
		emit("frames/raw-"+ser+"/handshake", nil, func(h *History, r *rng) {
			b1s := []int{}
			for b := 0; b < 256; b++ {
				if g.quick && b%16 != int(proto) && b%16 != 0 && b%17 != 0 {
					continue
				}
				b1s = append(b1s, b)
			}
			for _, hs4 := range [][]byte{{0x7e, 0xf0 | proto, 0, 0}, {0x7f, 0xf0 | proto, 1, 0}, {0x7f, 0xf0 | proto, 0, 0xff}, {0x7f}, {0x7f, 0xf1}, {}, {0, 0, 0, 0}, []byte("GET / HTTP/1.1\r\n\r\n")} {
				s := len(h.Sessions)
				h.Sessions = append(h.Sessions, SessionSpec{Transport: "rawnohs", Ser: ser})
				h.Steps = append(h.Steps, Step{S: s, Op: "open"}, Step{S: s, Op: "bytes", Hex: hx(hs4), Note: "handshake/" + hx(hs4)}, Step{Op: "sleep", Ms: 1}, stepClose(s))
			}
			hello := rawFrame(0, validPayloads(ser)[0])
			for _, b1 := range b1s {
				s := len(h.Sessions)
				h.Sessions = append(h.Sessions, SessionSpec{Transport: "rawnohs", Ser: ser})
				h.Steps = append(h.Steps, Step{S: s, Op: "open"}, Step{S: s, Op: "bytes", Hex: hx([]byte{0x7f, byte(b1), 0, 0}), Note: fmt.Sprintf("handshake/byte1=%02x", b1)},
					Step{S: s, Op: "bytes", Hex: hx(hello)}, Step{Op: "sleep", Ms: 1}, stepClose(s))
			}
		})

		// -- frame types and lengths, before HELLO and in an established session
		for _, est := range []bool{false, true} {
			emit(fmt.Sprintf("frames/raw-%s/frametypes-established=%v", ser, est), nil, func(h *History, r *rng) {
				vp := validPayloads(ser)
				for ft := 0; ft < 256; ft++ {
					if g.quick && ft > 8 && ft%37 != 0 {
						continue
					}
					for _, pl := range [][]byte{nil, {0x01}, vp[0], vp[1]} {
						for _, lenAdj := range []int{0, 1, -1, 1 << 20} {
							if len(pl)+lenAdj < 0 {
								continue
							}
							if g.quick && lenAdj == 1<<20 && ft > 3 {
								continue
							}
							s := len(h.Sessions)
							h.Sessions = append(h.Sessions, SessionSpec{Transport: "raw", Ser: ser})
							if est {
								h.Steps = append(h.Steps, stepAttach(s))
							} else {
								h.Steps = append(h.Steps, Step{S: s, Op: "open"})
							}
							fr := rawFrame(byte(ft), pl)
							n := len(pl) + lenAdj
							fr[1], fr[2], fr[3] = byte(n>>16), byte(n>>8), byte(n)
							h.Steps = append(h.Steps, Step{S: s, Op: "bytes", Hex: hx(fr), Note: fmt.Sprintf("frame/type=%d/len%+d/established=%v", ft&7, lenAdj, est)},
								Step{S: s, Op: "bytes", Hex: hx(rawFrame(0, vp[1]))}, Step{Op: "sleep", Ms: 2}, stepClose(s))
						}
					}
				}
			})
		}

		// -- servers with a receive limit below the protocol maximum: headers that
		// announce more than the limit (limit+1, 2*limit, 16M-1), every frame type,
		// before HELLO and in an established session; and whole scenarios over the
		// limited servers / the websocket server with a tiny outbound queue
		emit("frames/raw-"+ser+"/overlimit-frametypes", nil, func(h *History, r *rng) {
			vp := validPayloads(ser)
			for _, lim := range rawLimits {
				eff := 1 << 24
				if lim > 0 {
					eff = 512
					for eff < lim {
						eff <<= 1
					}
				}
				announced := []int{eff + 1, 2 * eff, 1<<24 - 1, eff, eff - 1}
				for _, est := range []bool{false, true} {
					for ft := 0; ft < 8; ft++ {
						for ai, n := range announced {
							if n >= 1<<24 {
								n = 1<<24 - 1
							}
							if g.quick && (ai > 2 || (ft != 0 && ai > 0)) {
								continue
							}
							for bi, body := range [][]byte{nil, vp[1]} {
								if g.quick && ft != 0 && bi > 0 {
									continue
								}
								s := len(h.Sessions)
								h.Sessions = append(h.Sessions, SessionSpec{Transport: "raw", Ser: ser, Limit: lim, Roles: "none"})
								if est {
									h.Steps = append(h.Steps, stepAttach(s))
								} else {
									h.Steps = append(h.Steps, Step{S: s, Op: "open"})
								}
								fr := append([]byte{byte(ft), byte(n >> 16), byte(n >> 8), byte(n)}, body...)
								h.Steps = append(h.Steps,
									Step{S: s, Op: "bytes", Hex: hx(fr), Note: fmt.Sprintf("overlimit/type=%d/limit=%d,announced=%d,established=%v", ft, lim, n, est)},
									Step{S: s, Op: "bytes", Hex: hx(rawFrame(0, vp[1]))}, Step{Op: "sleep", Ms: 2}, stepClose(s))
							}
						}
					}
				}
			}
		})
		emit("frames/raw-"+ser+"/limited-servers-scenario", nil, func(h *History, r *rng) {
			for _, lim := range rawLimits[1:] {
				base := len(h.Sessions)
				for i := 0; i < 3; i++ {
					h.Sessions = append(h.Sessions, SessionSpec{Transport: "raw", Ser: ser, Limit: lim, Roles: "none"})
					h.Steps = append(h.Steps, stepAttach(base+i))
				}
				big := vStr(strings.Repeat("x", lim))
				h.Steps = append(h.Steps,
					stepMsg(base, "", mk(32, vID(1), vDict(), vURI("lim.t"))), stepMsg(base+1, "", mk(64, vID(1), vDict(), vURI("lim.p"))), stepSync(base), stepSync(base+1))
				for k := 0; k < 40; k++ {
					h.Steps = append(h.Steps,
						Step{S: base + 2, Op: "msg", Note: fmt.Sprintf("limited/limit=%d/publish", lim), M: mk(16, vRef("req"), vDict("acknowledge", vBool(true)), vURI("lim.t"), vList(vInt(k)))},
						Step{S: base + 2, Op: "msg", Note: fmt.Sprintf("limited/limit=%d/call", lim), M: mk(48, vRef("req"), vDict(), vURI("lim.p"), vList(vInt(k)))})
				}
				h.Steps = append(h.Steps,
					Step{S: base + 2, Op: "msg", Note: fmt.Sprintf("limited/message-larger-than-limit/limit=%d", lim), M: mk(16, vRef("req"), vDict(), vURI("lim.t"), vList(big))},
					Step{S: base + 2, Op: "msg", Re: true, Note: fmt.Sprintf("limited/limit=%d/after", lim), M: mk(16, vRef("req"), vDict(), vURI("lim.t"), vList(vInt(1)))},
					stepSync(base), stepSync(base+1), stepSync(base+2))
				for i := 0; i < 3; i++ {
					h.Steps = append(h.Steps, stepClose(base+i))
				}
			}
			// websocket server with an outbound queue of 2: the router has to drop, never block or die
			base := len(h.Sessions)
			for i := 0; i < 2; i++ {
				h.Sessions = append(h.Sessions, SessionSpec{Transport: "ws", Ser: ser, Limit: 1})
				h.Steps = append(h.Steps, stepAttach(base+i))
			}
			h.Steps = append(h.Steps, stepMsg(base, "", mk(32, vID(1), vDict("match", vStr("prefix")), vURI("lim."))), stepSync(base))
			for k := 0; k < 200; k++ {
				h.Steps = append(h.Steps, Step{S: base + 1, Op: "msg", Note: "limited/ws-small-queue/publish", M: mk(16, vRef("req"), vDict("exclude_me", vBool(false)), vURI("lim.q"), vList(vInt(k)))})
			}
			h.Steps = append(h.Steps, stepSync(base+1), stepSync(base))
		})

		// -- invalid serializer payloads in a well-formed frame (rawsocket) and message (websocket)
		for _, tr := range []string{"raw", "ws"} {
			for _, est := range []bool{false, true} {
				emit(fmt.Sprintf("frames/%s-%s/payloads-established=%v", tr, ser, est), []SessionSpec{{Transport: tr, Ser: ser}}, func(h *History, r *rng) {
					if est {
						h.Steps = append(h.Steps, stepAttach(0))
					}
					for i, pl := range payloads(ser) {
						st := Step{S: 0, Note: fmt.Sprintf("payload/%s/%d", ser, i)}
						if tr == "raw" {
							st.Op, st.Hex = "bytes", hx(rawFrame(0, pl))
						} else {
							st.Op, st.Hex, st.Code = "wsframe", hx(pl), 2
							if ser == "json" {
								st.Code = 1
							}
						}
						if est {
							h.Steps = append(h.Steps, Step{S: 0, Op: "ensure"})
						} else {
							h.Steps = append(h.Steps, Step{S: 0, Op: "open"})
						}
						h.Steps = append(h.Steps, st, stepSync(0))
					}
				})
			}
		}

		// -- truncation at every byte, random mutations of a valid stream
		stream := func() []byte {
			var b []byte
			for _, p := range validPayloads(ser) {
				b = append(b, rawFrame(0, p)...)
			}
			return b
		}
		emit("frames/raw-"+ser+"/truncate", nil, func(h *History, r *rng) {
			st := stream()
			stepCut := 1
			if g.quick {
				stepCut = 7
			}
			for cut := 0; cut <= len(st); cut += stepCut {
				s := len(h.Sessions)
				h.Sessions = append(h.Sessions, SessionSpec{Transport: "raw", Ser: ser})
				h.Steps = append(h.Steps, Step{S: s, Op: "open"}, Step{S: s, Op: "bytes", Hex: hx(st[:cut]), Note: "truncate"}, stepClose(s))
			}
		})
		emit("frames/raw-"+ser+"/mutate", nil, func(h *History, r *rng) {
			st := stream()
			nm := 1500
			if g.quick {
				nm = 150
			}
			for i := 0; i < nm; i++ {
				m := append([]byte{}, st...)
				for k := 0; k <= r.intn(4); k++ {
					switch r.intn(5) {
					case 0:
						m[r.intn(len(m))] ^= byte(1 << r.intn(8))
					case 1:
						m[r.intn(len(m))] = byte(r.intn(256))
					case 2:
						p := r.intn(len(m))
						m = append(m[:p], m[p+1:]...)
					case 3:
						p := r.intn(len(m))
						m = append(m[:p], append([]byte{byte(r.intn(256))}, m[p:]...)...)
					case 4:
						p, q := r.intn(len(m)), r.intn(len(m))
						if p > q {
							p, q = q, p
						}
						m = append(m[:q], append(append([]byte{}, m[p:q]...), m[q:]...)...)
					}
				}
				s := len(h.Sessions)
				h.Sessions = append(h.Sessions, SessionSpec{Transport: "raw", Ser: ser})
				h.Steps = append(h.Steps, Step{S: s, Op: "open"}, Step{S: s, Op: "bytes", Hex: hx(m), Note: "mutate"}, Step{Op: "sleep", Ms: 1}, stepClose(s))
			}
		})

		// -- websocket frames
		emit("frames/ws-"+ser+"/wsframes", nil, func(h *History, r *rng) {
			vp := validPayloads(ser)
			for op := 0; op < 16; op++ {
				for _, flags := range []int{0, 0x100, 0x200, 0x10, 0x20, 0x40} {
					for _, pl := range [][]byte{nil, vp[0], []byte(strings.Repeat("A", 200))} {
						s := len(h.Sessions)
						h.Sessions = append(h.Sessions, SessionSpec{Transport: "ws", Ser: ser})
						h.Steps = append(h.Steps, Step{S: s, Op: "open"}, Step{S: s, Op: "wsframe", Code: op | flags, Hex: hx(pl), Note: fmt.Sprintf("wsframe/op=%d/flags=%x", op, flags)},
							Step{S: s, Op: "wsframe", Code: 1, Hex: hx(vp[0])}, Step{S: s, Op: "wsframe", Code: 2, Hex: hx(vp[0])}, Step{Op: "sleep", Ms: 1}, stepClose(s))
					}
				}
			}
			for i := 0; i < 40; i++ {
				s := len(h.Sessions)
				h.Sessions = append(h.Sessions, SessionSpec{Transport: "ws", Ser: ser})
				junk := make([]byte, 1+r.intn(64))
				for k := range junk {
					junk[k] = byte(r.intn(256))
				}
				h.Steps = append(h.Steps, stepAttach(s), Step{S: s, Op: "bytes", Hex: hx(junk), Note: "ws/raw-junk"}, Step{Op: "sleep", Ms: 1}, stepClose(s))
			}
		})
	}
	return hs
}

// ---------------------------------------------------------------- (5) disconnects at every point of small scenarios

type scenario struct {
	name  string
	nsess int
	steps []Step
}

func scenarios() []scenario {
	return []scenario{
		{"pubsub", 3, []Step{
			stepAttach(0), stepAttach(1), stepAttach(2),
			stepMsg(0, "", mk(32, vID(1), vDict("match", vStr("prefix")), vURI("sc."))),
			stepMsg(1, "", mk(32, vID(1), vDict(), vURI("sc.t"))),
			stepMsg(1, "", mk(32, vID(2), vDict(), vURI("wamp.session.on_leave"))),
			stepMsg(1, "", mk(32, vID(3), vDict("match", vStr("prefix")), vURI("wamp.subscription."))),
			stepSync(0), stepSync(1),
			stepMsg(2, "", mk(16, vID(1), vDict("acknowledge", vBool(true), "disclose_me", vBool(true)), vURI("sc.t"), vList(vInt(1)))),
			stepMsg(2, "", mk(16, vID(2), vDict("exclude", vList(vRef("sid:0")), "eligible_authrole", vList(vStr("anonymous"))), vURI("sc.t"), vList(vInt(2)))),
			stepMsg(0, "", mk(34, vID(9), vRef("sub"))),
			stepMsg(2, "", mk(16, vID(3), vDict(), vURI("sc.t"), vList(vInt(3)))),
			stepSync(2), stepSync(0), stepSync(1),
		}},
		{"rpc", 3, []Step{
			stepAttach(0), stepAttach(1), stepAttach(2),
			stepMsg(0, "", mk(64, vID(1), vDict("invoke", vStr("roundrobin")), vURI("sc.proc"))),
			stepMsg(1, "", mk(64, vID(1), vDict("invoke", vStr("roundrobin")), vURI("sc.proc"))),
			stepMsg(2, "", mk(32, vID(1), vDict("match", vStr("prefix")), vURI("wamp.registration."))),
			stepSync(0), stepSync(1),
			stepMsg(2, "", mk(48, vID(10), vDict("receive_progress", vBool(true), "timeout", vInt(50)), vURI("sc.proc"), vList(vInt(1)))),
			stepWait(0, 68, 80),
			stepMsg(0, "", mk(70, vRef("inv"), vDict("progress", vBool(true)), vList(vInt(1)))),
			stepMsg(2, "", mk(48, vID(11), vDict(), vURI("sc.proc"), vList(vInt(2)))),
			stepWait(1, 68, 80),
			stepMsg(2, "", mk(49, vID(11), vDict("mode", vStr("kill")))),
			stepMsg(2, "", mk(49, vID(10), vDict("mode", vStr("killnowait")))),
			stepMsg(1, "", mk(8, vInt(68), vRef("inv"), vDict(), vURI("wamp.error.canceled"))),
			stepMsg(0, "", mk(70, vRef("inv"), vDict(), vList(vInt(9)))),
			stepMsg(0, "", mk(66, vID(2), vRef("reg"))),
			stepMsg(2, "", mk(48, vID(12), vDict(), vURI("sc.proc"), vList(vInt(3)))),
			stepSync(0), stepSync(1), stepSync(2),
		}},
		{"progressive-call", 2, []Step{
			stepAttach(0), stepAttach(1),
			stepMsg(0, "", mk(64, vID(1), vDict(), vURI("sc.prog"))), stepSync(0),
			stepMsg(1, "", mk(48, vID(20), vDict("progress", vBool(true)), vURI("sc.prog"), vList(vInt(1)))),
			stepWait(0, 68, 80),
			stepMsg(1, "", mk(48, vID(20), vDict("progress", vBool(true)), vURI("sc.prog"), vList(vInt(2)))),
			stepMsg(0, "", mk(70, vRef("inv"), vDict("progress", vBool(true)), vList(vInt(1)))),
			stepMsg(1, "", mk(48, vID(20), vDict(), vURI("sc.prog"), vList(vInt(3)))),
			stepMsg(0, "", mk(70, vRef("inv"), vDict(), vList(vInt(2)))),
			stepMsg(1, "", mk(48, vID(20), vDict(), vURI("wamp.session.count"))),
			stepSync(0), stepSync(1),
		}},
		{"meta-and-testament", 3, []Step{
			stepAttach(0), stepAttach(1), stepAttach(2),
			stepMsg(0, "", mk(32, vID(1), vDict(), vURI("sc.will"))),
			stepMsg(1, "", mk(48, vID(1), vDict(), vURI("wamp.session.add_testament"), vList(vURI("sc.will"), vList(vStr("bye")), vDict()), vDict("scope", vStr("destroyed")))),
			stepMsg(1, "", mk(48, vID(2), vDict(), vURI("wamp.session.add_testament"), vList(vURI("sc.will"), vList(vStr("det")), vDict()), vDict("scope", vStr("detached")))),
			stepMsg(2, "", mk(48, vID(1), vDict(), vURI("wamp.session.modify_details"), vList(vRef("sid:1"), vDict("foo", vStr("bar"), "authid", vNil())))),
			stepMsg(2, "", mk(48, vID(2), vDict(), vURI("wamp.session.get"), vList(vRef("sid:1")))),
			stepMsg(2, "", mk(48, vID(3), vDict(), vURI("wamp.session.kill"), vList(vRef("sid:1")), vDict("reason", vStr("sc.killed"), "message", vStr("m")))),
			stepMsg(2, "", mk(48, vID(4), vDict(), vURI("wamp.session.kill_by_authrole"), vList(vStr("anonymous")))),
			stepMsg(2, "", mk(48, vID(5), vDict(), vURI("wamp.session.kill_all"))),
			stepSync(2), stepSync(0),
		}},
	}
}

func (g *genCtx) disconnects(transports []transportSpec) []*History {
	var hs []*History
	for _, t := range transports {
		for _, sc := range scenarios() {
			h := &History{Name: fmt.Sprintf("disconnect/%s/%s", t, sc.name), Stream: "disconnect"}
			if g.skip(h.Name) {
				hs = append(hs, stubH(h.Name, h.Stream))
				continue
			}
			// the scenario once undisturbed, then with every session dropped after every step
			for cut := -1; cut < len(sc.steps); cut++ {
				for victim := 0; victim < sc.nsess; victim++ {
					if cut == -1 && victim > 0 {
						continue
					}
					for _, how := range []string{"close", "goodbye"} {
						if (cut == -1 || g.quick) && how == "goodbye" && (cut+victim)%3 != 0 {
							continue
						}
						base := len(h.Sessions)
						for i := 0; i < sc.nsess; i++ {
							h.Sessions = append(h.Sessions, t.spec())
						}
						dead := false
						for i, st := range sc.steps {
							if dead && st.S == victim {
								continue
							}
							st.S += base
							if st.M != nil {
								st.M = remapRefs(st.M, base)
							}
							h.Steps = append(h.Steps, st)
							if i == cut {
								h.Steps = append(h.Steps, Step{S: base + victim, Op: how, Note: fmt.Sprintf("%s/drop-s%d-after-%d/%s", sc.name, victim, cut, how)})
								dead = true
							}
						}
						for i := 0; i < sc.nsess; i++ {
							h.Steps = append(h.Steps, stepClose(base+i))
						}
					}
				}
			}
			hs = append(hs, h)
		}
	}
	return hs
}

// remapRefs shifts sid:N / inv:N ... references by base.
func remapRefs(m *Msg, base int) *Msg {
	var f func(v V) V
	f = func(v V) V {
		switch {
		case v.Ref != nil:
			if i := strings.IndexByte(*v.Ref, ':'); i > 0 {
				var n int
				fmt.Sscanf((*v.Ref)[i+1:], "%d", &n)
				return vRef(fmt.Sprintf("%s:%d", (*v.Ref)[:i], n+base))
			}
		case v.L != nil:
			l := make([]V, len(*v.L))
			for i, x := range *v.L {
				l[i] = f(x)
			}
			return V{L: &l}
		case v.D != nil:
			d := map[string]V{}
			for k, x := range *v.D {
				d[k] = f(x)
			}
			return V{D: &d}
		}
		return v
	}
	out := &Msg{T: m.T, F: make([]V, len(m.F))}
	for i, x := range m.F {
		out.F[i] = f(x)
	}
	return out
}

// ---------------------------------------------------------------- (6) contradictory / repeated requests

func (g *genCtx) contradictory(transports []transportSpec) []*History {
	var hs []*History
	policies := []string{"", "single", "roundrobin", "random", "first", "last", "bogus", "SINGLE"}
	for _, t := range transports {
		h := &History{Name: fmt.Sprintf("repeat/%s/registrations", t), Stream: "repeat", Sessions: []SessionSpec{t.spec(), t.spec(), t.spec()}}
		h.Steps = []Step{stepAttach(0), stepAttach(1), stepAttach(2)}
		n := 0
		for _, p1 := range policies {
			for _, p2 := range policies {
				n++
				proc := vURI(fmt.Sprintf("rp.proc%d", n))
				note := fmt.Sprintf("register-twice/%q/%q", p1, p2)
				h.Steps = append(h.Steps,
					Step{S: 0, Op: "msg", Re: true, Note: note, M: mk(64, vRef("req"), vDict("invoke", vStr(p1)), proc)},
					Step{S: 1, Op: "msg", Re: true, Note: note, M: mk(64, vRef("req"), vDict("invoke", vStr(p2)), proc)},
					Step{S: 0, Op: "msg", Note: note + "/same-session-again", M: mk(64, vRef("req"), vDict("invoke", vStr(p1)), proc)},
					stepSync(0), stepSync(1),
					Step{S: 2, Op: "msg", Re: true, Note: note + "/call", M: mk(48, vRef("req"), vDict(), proc)},
					Step{S: 2, Op: "msg", Note: note + "/call", M: mk(48, vRef("req"), vDict(), proc)},
					stepSync(2),
					Step{S: 0, Op: "msg", Note: note + "/unregister", M: mk(66, vRef("req"), vRef("reg"))},
					Step{S: 0, Op: "msg", Note: note + "/unregister-twice", M: mk(66, vRef("req"), vRef("reg"))},
					Step{S: 2, Op: "msg", Note: note + "/unregister-foreign", M: mk(66, vRef("req"), vRef("reg:1"))},
					stepSync(0),
					Step{S: 2, Op: "msg", Note: note + "/call-after", M: mk(48, vRef("req"), vDict(), proc)},
					stepSync(2),
				)
			}
		}
		hs = append(hs, h)

		h = &History{Name: fmt.Sprintf("repeat/%s/calls", t), Stream: "repeat", Sessions: []SessionSpec{t.spec(), t.spec(), t.spec()}}
		h.Steps = []Step{stepAttach(0), stepAttach(1), stepAttach(2),
			stepMsg(0, "", mk(64, vID(1), vDict(), vURI("rp.a"))), stepMsg(2, "", mk(64, vID(1), vDict(), vURI("rp.b"))), stepSync(0), stepSync(2)}
		for _, mode := range []string{"kill", "killnowait", "skip", "", "bogus"} {
			note := "cancel-" + mode
			h.Steps = append(h.Steps,
				// same request id reused while pending, for the same and for another procedure
				Step{S: 1, Op: "msg", Re: true, Note: note + "/call", M: mk(48, vID(7), vDict(), vURI("rp.a"))}, stepWait(0, 68, 80),
				Step{S: 1, Op: "msg", Note: note + "/same-id-again", M: mk(48, vID(7), vDict(), vURI("rp.a"))},
				Step{S: 1, Op: "msg", Note: note + "/same-id-other-proc", M: mk(48, vID(7), vDict(), vURI("rp.b"))},
				Step{S: 1, Op: "msg", Note: note + "/same-id-meta", M: mk(48, vID(7), vDict(), vURI("wamp.session.count"))},
			)
			for i := 0; i < 30; i++ {
				h.Steps = append(h.Steps, Step{S: 1, Op: "msg", Note: note + "/storm", M: mk(49, vID(7), vDict("mode", vStr(mode)))})
			}
			h.Steps = append(h.Steps,
				Step{S: 1, Op: "msg", Note: note + "/unknown", M: mk(49, vID(99999), vDict("mode", vStr(mode)))},
				Step{S: 2, Op: "msg", Note: note + "/foreign", M: mk(49, vID(7), vDict("mode", vStr(mode)))},
				stepSync(1),
				// callee leaves while the cancel is outstanding, caller reuses the id
				stepClose(0), Step{Op: "sleep", Ms: 3},
				Step{S: 1, Op: "msg", Note: note + "/recall-same-id-after-callee-left", M: mk(48, vID(7), vDict(), vURI("rp.b"))},
				Step{S: 1, Op: "msg", Note: note + "/recall-same-id-meta", M: mk(48, vID(7), vDict(), vURI("wamp.session.count"))},
				stepSync(1), stepSync(2),
				Step{S: 0, Op: "attach"}, stepMsg(0, "", mk(64, vID(1), vDict(), vURI("rp.a"))), stepSync(0),
			)
		}
		// YIELD / ERROR for unknown, foreign and finished invocations
		h.Steps = append(h.Steps,
			Step{S: 1, Op: "msg", Note: "yield/unknown", M: mk(70, vID(424242), vDict())},
			Step{S: 1, Op: "msg", Note: "yield/unknown-progress", M: mk(70, vID(424242), vDict("progress", vBool(true)))},
			Step{S: 1, Op: "msg", Note: "error/unknown", M: mk(8, vInt(68), vID(424242), vDict(), vURI("x.y"))},
			Step{S: 1, Op: "msg", Note: "call", M: mk(48, vID(8), vDict("receive_progress", vBool(true)), vURI("rp.a"))}, stepWait(0, 68, 80),
			Step{S: 2, Op: "msg", Note: "yield/foreign", M: mk(70, vRef("inv:0"), vDict())},
			Step{S: 0, Op: "msg", Note: "yield/final", M: mk(70, vRef("inv"), vDict())},
			Step{S: 0, Op: "msg", Note: "yield/twice", M: mk(70, vRef("inv"), vDict())},
			Step{S: 0, Op: "msg", Note: "yield/progress-after-final", M: mk(70, vRef("inv"), vDict("progress", vBool(true)))},
			Step{S: 0, Op: "msg", Note: "error/after-final", M: mk(8, vInt(68), vRef("inv"), vDict(), vURI("x.y"))},
			stepSync(0), stepSync(1), stepSync(2))
		hs = append(hs, h)

		h = &History{Name: fmt.Sprintf("repeat/%s/subscriptions", t), Stream: "repeat", Sessions: []SessionSpec{t.spec(), t.spec()}}
		h.Steps = []Step{stepAttach(0), stepAttach(1)}
		for _, match := range []string{"", "exact", "prefix", "wildcard", "bogus"} {
			for i := 0; i < 3; i++ {
				h.Steps = append(h.Steps, Step{S: 0, Op: "msg", Re: true, Note: "subscribe-again/" + match, M: mk(32, vRef("req"), vDict("match", vStr(match)), vURI("rs.t"))})
			}
			h.Steps = append(h.Steps,
				Step{S: 1, Op: "msg", Re: true, Note: "subscribe-other/" + match, M: mk(32, vRef("req"), vDict("match", vStr(match)), vURI("rs.t"))}, stepSync(0), stepSync(1),
				Step{S: 1, Op: "msg", Note: "publish-own", M: mk(16, vRef("req"), vDict("exclude_me", vBool(false), "acknowledge", vBool(true)), vURI("rs.t"))},
				Step{S: 1, Op: "msg", Note: "unsubscribe-foreign", M: mk(34, vRef("req"), vRef("sub:0"))},
				Step{S: 0, Op: "msg", Note: "unsubscribe", M: mk(34, vRef("req"), vRef("sub"))},
				Step{S: 0, Op: "msg", Note: "unsubscribe-twice", M: mk(34, vRef("req"), vRef("sub"))},
				Step{S: 0, Op: "msg", Note: "unsubscribe-zero", M: mk(34, vRef("req"), vID(0))},
				stepSync(0), stepSync(1))
		}
		hs = append(hs, h)
	}
	return hs
}

// ---------------------------------------------------------------- random histories

func (g *genCtx) randomHistories(transports []transportSpec, count, length int) []*History {
	var hs []*History
	uris := []string{"r.a", "r.a.b", "r.", "r..c", "", "wamp.session.count", "hist.topic", "r.A B", "wamp.session.kill_all", "r.a#"}
	for i := 0; i < count; i++ {
		t := transports[i%len(transports)]
		h := &History{Name: fmt.Sprintf("random/%s/%d", t, i), Stream: "random"}
		if g.skip(h.Name) {
			hs = append(hs, stubH(h.Name, h.Stream))
			continue
		}
		r := g.rngFor(h.Name)
		ns := 2 + r.intn(3)
		for s := 0; s < ns; s++ {
			sp := t.spec()
			if r.intn(4) == 0 {
				sp.Roles = "none"
			}
			if r.intn(5) == 0 {
				tt := transports[r.intn(len(transports))]
				sp.Transport, sp.Ser = tt.tr, tt.ser
			}
			h.Sessions = append(h.Sessions, sp)
			h.Steps = append(h.Steps, stepAttach(s))
		}
		uri := func() V { return vURI(uris[r.intn(len(uris))]) }
		opts := func() V {
			d := map[string]V{}
			for k := 0; k < r.intn(4); k++ {
				d[g.keys[r.intn(len(g.keys))]] = r.pick(g.kinds)
			}
			if r.intn(3) == 0 {
				d["match"] = vStr([]string{"prefix", "wildcard", "exact"}[r.intn(3)])
			}
			if r.intn(3) == 0 {
				d["invoke"] = vStr([]string{"roundrobin", "random", "first", "last", "single"}[r.intn(5)])
			}
			if r.intn(4) == 0 {
				d["acknowledge"] = vBool(true)
			}
			return dictOf(d)
		}
		refOrID := func(kind string) V {
			switch r.intn(4) {
			case 0:
				return vID(uint64(r.intn(20)))
			case 1:
				return vRef(fmt.Sprintf("%s:%d", kind, r.intn(ns)))
			}
			return vRef(kind)
		}
		for k := 0; k < length; k++ {
			s := r.intn(ns)
			var m *Msg
			switch r.intn(16) {
			case 0, 1:
				m = mk(32, vRef("req"), opts(), uri())
			case 2, 3:
				m = mk(64, vRef("req"), opts(), uri())
			case 4, 5, 6:
				m = mk(16, vRef("req"), opts(), uri(), vList(r.pick(g.kinds)), vDict("k", r.pick(g.kinds)))
			case 7, 8, 9:
				m = mk(48, vID(uint64(1+r.intn(6))), opts(), uri(), vList(r.pick(g.kinds), r.pick(g.kinds)), vDict("reason", r.pick(g.kinds)))
			case 10:
				m = mk(49, vID(uint64(1+r.intn(6))), opts())
			case 11:
				m = mk(70, refOrID("inv"), opts(), vList(r.pick(g.kinds)))
			case 12:
				m = mk(8, vInt(68), refOrID("inv"), opts(), uri())
			case 13:
				m = mk(34, vRef("req"), refOrID("sub"))
			case 14:
				m = mk(66, vRef("req"), refOrID("reg"))
			case 15:
				switch r.intn(4) {
				case 0:
					h.Steps = append(h.Steps, stepClose(s), Step{S: s, Op: "attach"})
				case 1:
					h.Steps = append(h.Steps, Step{S: s, Op: "goodbye"}, Step{S: s, Op: "attach"})
				default:
					h.Steps = append(h.Steps, stepSync(s))
				}
				continue
			}
			h.Steps = append(h.Steps, Step{S: s, Op: "msg", Re: true, Note: "random/" + msgName(m.T), M: m})
		}
		hs = append(hs, h)
	}
	return hs
}

// ---------------------------------------------------------------- concurrency bursts (also the -race tier)

func (g *genCtx) bursts(transports []transportSpec, rounds int) []*History {
	var hs []*History
	for _, t := range transports {
		// many publishers, pattern subscriptions with several remote subscribers, disclosure
		h := &History{Name: fmt.Sprintf("burst/%s/pubsub", t), Stream: "burst"}
		for i := 0; i < 6; i++ {
			h.Sessions = append(h.Sessions, t.spec())
			h.Steps = append(h.Steps, stepAttach(i))
		}
		for i := 0; i < 3; i++ {
			h.Steps = append(h.Steps, stepMsg(i, "", mk(32, vID(1), vDict("match", vStr("prefix")), vURI("bu."))), stepMsg(i, "", mk(32, vID(2), vDict("match", vStr("wildcard")), vURI("bu..x"))),
				stepMsg(i, "", mk(32, vID(3), vDict("match", vStr("prefix")), vURI("wamp."))), stepSync(i))
		}
		var par []Step
		for r := 0; r < rounds; r++ {
			for p := 3; p < 6; p++ {
				par = append(par, Step{S: p, Op: "msg", Note: "burst/publish", M: mk(16, vRef("req"), vDict("disclose_me", vBool(true), "exclude_me", vBool(false)), vURI("bu.t.x"), vList(vInt(r)), vDict("k", vList(vInt(1))))})
			}
			par = append(par, Step{S: r % 3, Op: "msg", Note: "burst/modify_details", M: mk(48, vRef("req"), vDict(), vURI("wamp.session.modify_details"), vList(vRef(fmt.Sprintf("sid:%d", 3+r%3)), vDict("foo", vInt(r), "authid", vStr(fmt.Sprintf("a%d", r)))))},
				Step{S: (r + 1) % 3, Op: "msg", Note: "burst/session.get", M: mk(48, vRef("req"), vDict(), vURI("wamp.session.get"), vList(vRef(fmt.Sprintf("sid:%d", 3+r%3))))})
		}
		h.Steps = append(h.Steps, Step{Op: "par", Par: par})
		for i := 0; i < 6; i++ {
			h.Steps = append(h.Steps, stepSync(i))
		}
		hs = append(hs, h)

		// register / call / unregister / leave storms
		h = &History{Name: fmt.Sprintf("burst/%s/rpc", t), Stream: "burst"}
		for i := 0; i < 6; i++ {
			sp := t.spec()
			if i < 3 {
				sp.Roles = "all+yield"
			}
			h.Sessions = append(h.Sessions, sp)
			h.Steps = append(h.Steps, stepAttach(i))
		}
		par = nil
		for r := 0; r < rounds; r++ {
			for c := 0; c < 3; c++ {
				par = append(par, Step{S: c, Op: "msg", Re: true, Note: "burst/register", M: mk(64, vRef("req"), vDict("invoke", vStr([]string{"roundrobin", "random", "first"}[r%3])), vURI(fmt.Sprintf("bu.proc%d", r%3)))})
				if r%5 == 4 {
					par = append(par, Step{S: c, Op: "msg", Note: "burst/unregister", M: mk(66, vRef("req"), vRef("reg"))})
				}
				if r%11 == 10 {
					par = append(par, Step{S: c, Op: "close"}, Step{S: c, Op: "attach"})
				}
			}
			for c := 3; c < 6; c++ {
				par = append(par, Step{S: c, Op: "msg", Re: true, Note: "burst/call", M: mk(48, vID(uint64(1+r%4)), vDict("timeout", vInt(1+r%3), "receive_progress", vBool(r%2 == 0)), vURI(fmt.Sprintf("bu.proc%d", r%3)), vList(vInt(r)))},
					Step{S: c, Op: "msg", Note: "burst/cancel", M: mk(49, vID(uint64(1+r%4)), vDict("mode", vStr([]string{"kill", "killnowait", "skip"}[r%3])))})
				if r%7 == 6 {
					par = append(par, Step{S: c, Op: "close"}, Step{S: c, Op: "attach"})
				}
			}
		}
		h.Steps = append(h.Steps, Step{Op: "par", Par: par})
		for i := 0; i < 6; i++ {
			h.Steps = append(h.Steps, stepSync(i))
		}
		hs = append(hs, h)

		// attach / leave storms: HELLO immediately followed by a disconnect or GOODBYE,
		// while another session kills sessions and lists them
		h = &History{Name: fmt.Sprintf("burst/%s/attach", t), Stream: "burst"}
		h.Sessions = append(h.Sessions, t.spec())
		h.Steps = append(h.Steps, stepAttach(0), stepMsg(0, "", mk(32, vID(1), vDict("match", vStr("prefix")), vURI("wamp.session."))), stepSync(0))
		par = nil
		for r := 0; r < rounds; r++ {
			s := len(h.Sessions)
			h.Sessions = append(h.Sessions, t.spec())
			par = append(par, Step{S: s, Op: "open"}, Step{S: s, Op: "msg", Note: "burst/hello-then-drop", M: mk(1, vURI("realm1"), vDict("roles", allRoles()))})
			switch r % 3 {
			case 0:
				par = append(par, stepClose(s))
			case 1:
				par = append(par, Step{S: s, Op: "msg", M: mk(6, vDict(), vURI("wamp.close.close_realm"))}, stepClose(s))
			case 2:
				par = append(par, Step{S: s, Op: "msg", M: mk(16, vID(1), vDict("ppt_scheme", vStr("x")), vURI("bu.t"))}, stepClose(s))
			}
			par = append(par, Step{S: 0, Op: "msg", Re: true, Note: "burst/kill_all", M: mk(48, vRef("req"), vDict(), vURI([]string{"wamp.session.list", "wamp.session.kill_by_authrole", "wamp.session.count"}[r%3]), vList(vStr("anonymous")))})
		}
		h.Steps = append(h.Steps, Step{Op: "par", Par: par}, Step{S: 0, Op: "sync", Re: true})
		hs = append(hs, h)

		// session details: one session keeps changing the details of a victim
		// subscriber (and of a caller / publisher) through
		// wamp.session.modify_details while others publish with attribute
		// filters to a topic the victim holds, call a procedure registered
		// with disclose_caller, publish with disclose_me and run the session
		// meta procedures that read details.  Every reader must hold the lock
		// of the session it reads; the race detector sees it when one does not.
		h = &History{Name: fmt.Sprintf("burst/%s/details-race", t), Stream: "burst"}
		for i := 0; i < 5; i++ {
			sp := t.spec()
			if i == 4 {
				sp.Roles = "all+yield"
			}
			h.Sessions = append(h.Sessions, sp)
			h.Steps = append(h.Steps, stepAttach(i))
		}
		h.Steps = append(h.Steps,
			stepMsg(0, "", mk(32, vID(1), vDict(), vURI("dr.topic"))),
			stepMsg(0, "", mk(32, vID(2), vDict("match", vStr("prefix")), vURI("dr."))),
			stepMsg(3, "", mk(32, vID(1), vDict(), vURI("dr.topic"))),
			stepMsg(4, "", mk(64, vID(1), vDict("disclose_caller", vBool(true)), vURI("dr.proc"))),
			stepSync(0), stepSync(3), stepSync(4))
		par = nil
		filters := []V{
			vDict("eligible_authrole", vList(vStr("anonymous"), vStr("x"))),
			vDict("exclude_authid", vList(vStr("nobody"))),
			vDict("exclude", vList(vRef("sid:3")), "eligible_authrole", vList(vStr("anonymous"))),
			vDict("eligible_color", vList(vStr("1"), vStr("2"))),
			vDict("exclude_authrole", vList(vStr("nobody")), "disclose_me", vBool(true)),
		}
		dr := rounds * 2
		for r := 0; r < dr; r++ {
			victim := []string{"sid:0", "sid:0", "sid:3", "sid:1"}[r%4]
			par = append(par,
				Step{S: 1, Op: "msg", Note: "details-race/publish-with-attribute-filter", M: mk(16, vRef("req"), filters[r%len(filters)], vURI("dr.topic"), vList(vInt(r)))},
				Step{S: 2, Op: "msg", Note: "details-race/modify_details", M: mk(48, vRef("req"), vDict(), vURI("wamp.session.modify_details"),
					vList(vRef(victim), vDict("color", vStr(fmt.Sprint(r%3)), "authrole", vStr("anonymous"), "authid", vStr(fmt.Sprintf("a%d", r%3)), "foo", vNil())))})
			switch r % 6 {
			case 0:
				par = append(par, Step{S: 3, Op: "msg", Note: "details-race/session.list", M: mk(48, vRef("req"), vDict(), vURI("wamp.session.list"), vList(vList(vStr("anonymous"))))})
			case 1:
				par = append(par, Step{S: 3, Op: "msg", Note: "details-race/session.get", M: mk(48, vRef("req"), vDict(), vURI("wamp.session.get"), vList(vRef("sid:0")))})
			case 2:
				par = append(par, Step{S: 3, Op: "msg", Note: "details-race/call-disclosed", M: mk(48, vRef("req"), vDict(), vURI("dr.proc"), vList(vInt(r)))})
			case 3:
				par = append(par, Step{S: 3, Op: "msg", Note: "details-race/kill_by_authid", M: mk(48, vRef("req"), vDict(), vURI("wamp.session.kill_by_authid"), vList(vStr("nobody")))})
			case 4:
				par = append(par, Step{S: 3, Op: "msg", Note: "details-race/session.count", M: mk(48, vRef("req"), vDict(), vURI("wamp.session.count"), vList(vList(vStr("anonymous"))))})
			case 5:
				par = append(par, Step{S: 3, Op: "msg", Note: "details-race/publish-disclose", M: mk(16, vRef("req"), vDict("disclose_me", vBool(true)), vURI("dr.x"), vList(vInt(r)))})
			}
		}
		h.Steps = append(h.Steps, Step{Op: "par", Par: par})
		for i := 0; i < 5; i++ {
			h.Steps = append(h.Steps, stepSync(i))
		}
		hs = append(hs, h)

		// a realm is removed (and added again) by the application while its
		// sessions publish, call and hold pending invocations: the peers of
		// those sessions are closed by the shutdown path
		h = &History{Name: fmt.Sprintf("burst/%s/realm-removal", t), Stream: "burst"}
		for i := 0; i < 5; i++ {
			sp := t.spec()
			sp.Realm = "realm.removable"
			if i == 0 {
				sp.Roles = "all+yield"
			}
			h.Sessions = append(h.Sessions, sp)
		}
		cycles := rounds / 20
		if cycles < 2 {
			cycles = 2
		}
		for c := 0; c < cycles; c++ {
			h.Steps = append(h.Steps, Step{Op: "addrealm", Hex: "realm.removable"})
			for i := 0; i < 5; i++ {
				h.Steps = append(h.Steps, stepAttach(i))
			}
			h.Steps = append(h.Steps,
				stepMsg(0, "", mk(64, vID(1), vDict(), vURI("rr.proc"))), stepMsg(1, "", mk(64, vID(1), vDict(), vURI("rr.slow"))),
				stepMsg(1, "", mk(32, vID(2), vDict("match", vStr("prefix")), vURI("rr."))), stepMsg(2, "", mk(32, vID(1), vDict("match", vStr("prefix")), vURI("wamp."))),
				stepSync(0), stepSync(1), stepSync(2))
			par = nil
			for r := 0; r < 25; r++ {
				par = append(par,
					Step{S: 3, Op: "msg", Note: "realm-removal/publish", M: mk(16, vRef("req"), vDict("exclude_me", vBool(false)), vURI("rr.t"), vList(vInt(r)))},
					Step{S: 4, Op: "msg", Note: "realm-removal/call", M: mk(48, vRef("req"), vDict("timeout", vInt(5)), vURI([]string{"rr.proc", "rr.slow", "wamp.session.count"}[r%3]), vList(vInt(r)))},
					Step{S: 2, Op: "msg", Note: "realm-removal/subscribe", M: mk(32, vRef("req"), vDict(), vURI(fmt.Sprintf("rr.s%d", r)))})
				if r == 12 {
					par = append(par, Step{S: 2, Op: "removerealm", Hex: "realm.removable"})
				}
			}
			// the removal runs concurrently with the senders: it is its own lane
			lane := []Step{{Op: "sleep", Ms: 1 + c%3}, {Op: "removerealm", Hex: "realm.removable", Note: "realm-removal/remove"}}
			h.Steps = append(h.Steps, Step{Op: "par", Par: append(par, laneOf(97, lane)...)})
			for i := 0; i < 5; i++ {
				h.Steps = append(h.Steps, stepClose(i))
			}
		}
		hs = append(hs, h)
	}
	return hs
}

// laneOf gives the steps their own goroutine in a par step (session index n is
// only a lane number: the steps must not refer to a session).
func laneOf(n int, steps []Step) []Step {
	out := make([]Step, len(steps))
	for i, s := range steps {
		s.S = n
		out[i] = s
	}
	return out
}
