package main

import (
	"bufio"
	"crypto/ed25519"
	"encoding/hex"
	"encoding/json"
	"errors"
	"fmt"
	"io"
	"log"
	"net"
	"os"
	"runtime"
	"strconv"
	"strings"
	"sync"
	"sync/atomic"
	"syscall"
	"time"

	"github.com/gammazero/nexus/v3/router"
	"github.com/gammazero/nexus/v3/router/auth"
	"github.com/gammazero/nexus/v3/wamp"
	"github.com/gammazero/nexus/v3/wamp/crsign"
)

// ---------------------------------------------------------------- router under test

type keyStore struct{ pub ed25519.PublicKey }

func (k *keyStore) AuthKey(authid, authmethod string) ([]byte, error) {
	if authid != "alice" {
		return nil, errors.New("no such user")
	}
	switch authmethod {
	case "ticket":
		return []byte("ticket-secret"), nil
	case "wampcra":
		return []byte("cra-secret"), nil
	case "cryptosign":
		return k.pub, nil
	}
	return nil, errors.New("no key")
}
func (k *keyStore) PasswordInfo(string) (string, int, int) { return "", 0, 0 }
func (k *keyStore) AuthRole(authid string) (string, error) {
	if authid != "alice" {
		return "", errors.New("no such user")
	}
	return "user", nil
}
func (k *keyStore) Provider() string { return "static" }

// authorizer: denies what mentions "deny", fails on "fail", and writes into
// the session details (which the Authorizer interface explicitly allows).
type authorizer struct{ n atomic.Int64 }

func (a *authorizer) Authorize(sess *wamp.Session, msg wamp.Message) (bool, error) {
	sess.Details["authz_seen"] = a.n.Add(1)
	var uri wamp.URI
	switch m := msg.(type) {
	case *wamp.Publish:
		uri = m.Topic
	case *wamp.Subscribe:
		uri = m.Topic
	case *wamp.Call:
		uri = m.Procedure
	case *wamp.Register:
		uri = m.Procedure
	}
	if strings.Contains(string(uri), "fail") {
		return false, errors.New("authorizer failure")
	}
	return !strings.Contains(string(uri), "deny"), nil
}

var edSeed = []byte("c04drive-ed25519-seed-0123456789")

type host struct {
	rtr     router.Router
	rawAddr string
	wsAddr  string
	rawLim  map[int]string // RecvLimit -> address of the rawsocket server configured with it
	wsSmall string         // websocket server with a small outbound queue
	priv    ed25519.PrivateKey
}

// allowAll: an Authorizer that allows everything, so that the authorization
// code path of the realm runs for every message without changing behaviour.
type allowAll struct{}

func (allowAll) Authorize(*wamp.Session, wamp.Message) (bool, error) { return true, nil }

// numConfigs router configurations the hostile streams are run against:
//
//	0  realm1: anonymous + ticket/wampcra/cryptosign, disclosure allowed, meta kill/modify, history on
//	   hist.topic / histp.; realm2: strict URIs, local auth + authz, an Authorizer that denies, fails and
//	   writes session details, MetaStrict; a bare realm template
//	1  realm1: disclosure allowed AND event history (exact, prefix, wildcard) over the topics the streams
//	   publish to, MetaStrict with extra details, an allow-all Authorizer that local sessions go through too
//	2  no realm1 configured: it is created from the realm template on the first HELLO (disclosure, history,
//	   strict URIs, meta kill/modify, local peers must authenticate)
//	3  realm1 with everything optional switched off (no disclosure, no history, no meta kill/modify, no template)
const numConfigs = 4

func historyEverywhere() []*router.TopicEventHistoryConfig {
	var out []*router.TopicEventHistoryConfig
	for _, t := range []string{"hist.topic", "tc.topic", "sc.t", "rs.t", "dr.topic", "nf.topic", "vs.topic", "c04.probe.topic", "bu.t.x"} {
		out = append(out, &router.TopicEventHistoryConfig{Topic: wamp.URI(t), MatchPolicy: "exact", Limit: 3})
	}
	for _, t := range []string{"histp.", "tc.", "bu.", "dr.", "sc.", "r."} {
		out = append(out, &router.TopicEventHistoryConfig{Topic: wamp.URI(t), MatchPolicy: "prefix", Limit: 2})
	}
	for _, t := range []string{"tc..x", "bu..x", "r..c"} {
		out = append(out, &router.TopicEventHistoryConfig{Topic: wamp.URI(t), MatchPolicy: "wildcard", Limit: 2})
	}
	return out
}

func startHost(logw io.Writer, variant int) (*host, error) {
	priv := ed25519.NewKeyFromSeed(edSeed[:32])
	ks := &keyStore{pub: priv.Public().(ed25519.PublicKey)}
	mkAuth := func() []auth.Authenticator {
		return []auth.Authenticator{
			auth.NewTicketAuthenticator(ks, 500*time.Millisecond),
			auth.NewCRAuthenticator(ks, 500*time.Millisecond),
			auth.NewCryptoSignAuthenticator(ks, 500*time.Millisecond),
		}
	}
	realm2 := &router.RealmConfig{
		URI: "realm2", StrictURI: true, AnonymousAuth: true, Authenticators: mkAuth(),
		RequireLocalAuth: true, RequireLocalAuthz: true, Authorizer: &authorizer{},
		MetaStrict: true, MetaIncludeSessionDetails: []string{"foo"}, EnableMetaKill: true, EnableMetaModify: true,
	}
	cfg := &router.Config{Debug: os.Getenv("C04_ROUTER_DEBUG") != ""}
	switch variant % numConfigs {
	case 0:
		cfg.RealmConfigs = []*router.RealmConfig{
			{
				URI: "realm1", AnonymousAuth: true, AllowDisclose: true, Authenticators: mkAuth(),
				EnableMetaKill: true, EnableMetaModify: true,
				TopicEventHistoryConfigs: []*router.TopicEventHistoryConfig{
					{Topic: "hist.topic", MatchPolicy: "exact", Limit: 3},
					{Topic: "histp.", MatchPolicy: "prefix", Limit: 2},
				},
			},
			realm2,
		}
		cfg.RealmTemplate = &router.RealmConfig{AnonymousAuth: true}
	case 1:
		cfg.RealmConfigs = []*router.RealmConfig{
			{
				URI: "realm1", AnonymousAuth: true, AllowDisclose: true, Authenticators: mkAuth(),
				EnableMetaKill: true, EnableMetaModify: true, TopicEventHistoryConfigs: historyEverywhere(),
				MetaStrict: true, MetaIncludeSessionDetails: []string{"color", "foo"},
				Authorizer: allowAll{}, RequireLocalAuthz: true,
			},
			realm2,
		}
		cfg.RealmTemplate = &router.RealmConfig{AnonymousAuth: true, AllowDisclose: true, EnableMetaKill: true}
	case 2:
		cfg.RealmConfigs = []*router.RealmConfig{realm2}
		cfg.RealmTemplate = &router.RealmConfig{
			AnonymousAuth: true, AllowDisclose: true, Authenticators: mkAuth(), StrictURI: true,
			EnableMetaKill: true, EnableMetaModify: true, RequireLocalAuth: true,
			TopicEventHistoryConfigs: []*router.TopicEventHistoryConfig{
				{Topic: "hist.topic", MatchPolicy: "exact", Limit: 2},
				{Topic: "tc.", MatchPolicy: "prefix", Limit: 2},
				{Topic: "dr.topic", MatchPolicy: "exact", Limit: 2},
				{Topic: "sc..", MatchPolicy: "wildcard", Limit: 2},
			},
		}
	case 3:
		cfg.RealmConfigs = []*router.RealmConfig{{URI: "realm1", AnonymousAuth: true, Authenticators: mkAuth()}, realm2}
	}
	r, err := router.NewRouter(cfg, log.New(logw, "", 0))
	if err != nil {
		return nil, err
	}
	h := &host{rtr: r, priv: priv}
	rs := router.NewRawSocketServer(r)
	rs.OutQueueSize = 256
	rc, err := rs.ListenAndServe("tcp", "127.0.0.1:0")
	if err != nil {
		return nil, err
	}
	h.rawAddr = rc.(net.Listener).Addr().String()
	ws := router.NewWebsocketServer(r)
	ws.OutQueueSize = 256
	wc, err := ws.ListenAndServe("127.0.0.1:0")
	if err != nil {
		return nil, err
	}
	h.wsAddr = wc.(net.Listener).Addr().String()
	// servers with receive limits below the protocol maximum and small
	// outbound queues (the embedding application's choice, not the client's)
	h.rawLim = map[int]string{0: h.rawAddr}
	for _, lim := range rawLimits[1:] {
		s := router.NewRawSocketServer(r)
		s.RecvLimit, s.OutQueueSize = lim, 4
		c, err := s.ListenAndServe("tcp", "127.0.0.1:0")
		if err != nil {
			return nil, err
		}
		h.rawLim[lim] = c.(net.Listener).Addr().String()
	}
	ws2 := router.NewWebsocketServer(r)
	ws2.OutQueueSize = 2
	wc2, err := ws2.ListenAndServe("127.0.0.1:0")
	if err != nil {
		return nil, err
	}
	h.wsSmall = wc2.(net.Listener).Addr().String()
	return h, nil
}

// rawLimits: RawSocketServer.RecvLimit of the servers every router
// configuration runs (0 = protocol maximum, 16M).
var rawLimits = []int{0, 512, 1000, 65536}

// ---------------------------------------------------------------- sessions

type sess struct {
	spec  SessionSpec
	lk    link
	alive bool
	est   bool // WELCOME received
	mu    sync.Mutex
	// refs learned from the router
	sid, lastInv, lastSub, lastReg, lastPub wamp.ID
	lastReq                                 uint64
	got                                     map[int]int // message type -> count
	waiters                                 []chan wamp.Message
	seen                                    []wamp.Message // recent, bounded
}

// link returns the session's current transport (nil before the first open).
func (s *sess) link() link {
	s.mu.Lock()
	defer s.mu.Unlock()
	return s.lk
}

// pump consumes what the router sends on lk; a session that was re-opened
// meanwhile has another pump, so everything here is tied to lk.
func (s *sess) pump(lk link) {
	for m := range lk.incoming() {
		s.mu.Lock()
		if m != nil {
			t := int(m.MessageType())
			s.got[t]++
			switch x := m.(type) {
			case *wamp.Welcome:
				s.sid, s.est = x.ID, true
			case *wamp.Invocation:
				s.lastInv = x.Request
				if s.spec.Roles == "all+yield" {
					req := x.Request
					go func() {
						y := &Msg{T: 70, F: []V{vID(uint64(req)), vDict(), vList(vInt(1))}}
						if lk.isLocal() {
							if tm, ok := y.typed(nil); ok {
								_ = lk.sendTyped(tm)
							}
						} else {
							l, _ := y.wireList(nil)
							_ = lk.sendList(l)
						}
					}()
				}
			case *wamp.Subscribed:
				s.lastSub = x.Subscription
			case *wamp.Registered:
				s.lastReg = x.Registration
			case *wamp.Published:
				s.lastPub = x.Publication
			case *wamp.Abort:
				s.est = false
			}
			if len(s.seen) > 64 {
				s.seen = s.seen[32:]
			}
			s.seen = append(s.seen, m)
		}
		ws := append([]chan wamp.Message(nil), s.waiters...) // the slice is edited under the lock
		s.mu.Unlock()
		for _, w := range ws {
			select {
			case w <- m:
			default:
			}
		}
	}
	s.mu.Lock()
	if s.lk != lk {
		s.mu.Unlock()
		return // the session was re-opened: this pump belongs to the old transport
	}
	s.alive, s.est = false, false
	ws := s.waiters
	s.waiters = nil
	s.mu.Unlock()
	for _, w := range ws {
		close(w)
	}
}

// waitFor waits until pred accepts an incoming message, the link goes down
// (ok=false, down=true) or the timeout expires.
func (s *sess) waitFor(pred func(wamp.Message) bool, d time.Duration) (found wamp.Message, down bool) {
	ch := make(chan wamp.Message, 256)
	s.mu.Lock()
	if !s.alive {
		s.mu.Unlock()
		return nil, true
	}
	// look at what already arrived
	for _, m := range s.seen {
		if pred(m) {
			s.mu.Unlock()
			return m, false
		}
	}
	s.waiters = append(s.waiters, ch)
	s.mu.Unlock()
	defer func() {
		s.mu.Lock()
		for i, w := range s.waiters {
			if w == ch {
				s.waiters = append(s.waiters[:i], s.waiters[i+1:]...)
				break
			}
		}
		s.mu.Unlock()
	}()
	t := time.NewTimer(d)
	defer t.Stop()
	for {
		select {
		case m, ok := <-ch:
			if !ok {
				return nil, true
			}
			if m != nil && pred(m) {
				return m, false
			}
		case <-t.C:
			return nil, false
		}
	}
}

func (s *sess) clearSeen() {
	s.mu.Lock()
	s.seen = nil
	s.mu.Unlock()
}

// ---------------------------------------------------------------- executing a history

type runStats struct {
	Sent        int            `json:"sent"`
	Inexpress   int            `json:"inexpressible"` // value cannot be put into the Go message struct / serializer
	SendErr     int            `json:"send_errors"`
	Attaches    int            `json:"attaches"`
	AttachFail  int            `json:"attach_failures"`
	SyncTimeout int            `json:"sync_timeouts"`
	Aborted     int            `json:"sessions_ended_by_router"`
	Got         map[string]int `json:"replies"`
}

// hostState: one router configuration hosted by the worker, with the probe
// sessions attached to it.
type hostState struct {
	h      *host
	probeA *sess
	probeB *sess
	probeN int
}

type worker struct {
	hosts    map[int]*hostState
	cfg      int
	logw     io.Writer
	h        *host
	probeA   *sess
	probeB   *sess
	probeN   int
	reqCtr   uint64
	timeMult time.Duration
	prog     *os.File
}

func (w *worker) newSess(spec SessionSpec) *sess {
	return &sess{spec: spec, got: map[int]int{}}
}

func allRoles() V {
	feat := func(fs ...string) V {
		kv := []any{}
		for _, f := range fs {
			kv = append(kv, f, vBool(true))
		}
		return vDict("features", vDict(kv...))
	}
	return vDict(
		"publisher", feat("payload_passthru_mode", "publisher_exclusion", "publisher_identification", "subscriber_blackwhite_listing"),
		"subscriber", feat("payload_passthru_mode", "publisher_identification", "pattern_based_subscription", "event_history"),
		"caller", feat("payload_passthru_mode", "call_canceling", "call_timeout", "caller_identification", "progressive_call_results", "progressive_call_invocations"),
		"callee", feat("payload_passthru_mode", "call_canceling", "call_timeout", "caller_identification", "progressive_call_results", "progressive_call_invocations", "shared_registration", "pattern_based_registration"),
	)
}

func noFeatureRoles() V {
	return vDict("publisher", vDict(), "subscriber", vDict(), "caller", vDict(), "callee", vDict())
}

func (w *worker) helloDetails(spec SessionSpec) V {
	if spec.Hello != nil {
		return *spec.Hello
	}
	roles := allRoles()
	if spec.Roles == "none" {
		roles = noFeatureRoles()
	}
	kv := []any{"roles", roles}
	if spec.Auth != "" {
		kv = append(kv, "authmethods", vList(vStr(spec.Auth)), "authid", vStr(orDefault(spec.AuthID, "alice")))
	}
	return vDict(kv...)
}

func orDefault(s, d string) string {
	if s == "" {
		return d
	}
	return s
}

// open establishes the transport (no HELLO).
func (w *worker) open(s *sess) error {
	if old := s.link(); old != nil {
		old.close()
	}
	var lk link
	var err error
	switch s.spec.Transport {
	case "raw":
		lk, err = dialRaw(w.rawAddrFor(s.spec.Limit), s.spec.Ser, false)
	case "rawnohs":
		lk, err = dialRaw(w.rawAddrFor(s.spec.Limit), s.spec.Ser, true)
	case "ws":
		addr := w.h.wsAddr
		if s.spec.Limit != 0 {
			addr = w.h.wsSmall
		}
		lk, err = dialWS(addr, s.spec.Ser, "")
	default:
		lk = newLocalLink(w.h.rtr)
	}
	if err != nil {
		return err
	}
	s.mu.Lock()
	s.lk, s.alive, s.est = lk, true, false
	s.seen = nil
	// waiters of the previous transport are released
	ws := s.waiters
	s.waiters = nil
	s.mu.Unlock()
	for _, w := range ws {
		close(w)
	}
	go s.pump(lk)
	return nil
}

func (w *worker) resolver(ss []*sess, s *sess) resolver {
	return func(ref string) any {
		s.mu.Lock()
		defer s.mu.Unlock()
		switch {
		case ref == "inv":
			return s.lastInv
		case ref == "sub":
			return s.lastSub
		case ref == "reg":
			return s.lastReg
		case ref == "pub":
			return s.lastPub
		case ref == "sid":
			return s.sid
		case ref == "req":
			s.lastReq++
			return wamp.ID(s.lastReq)
		case strings.HasPrefix(ref, "sid:"):
			n, _ := strconv.Atoi(ref[4:])
			if n >= 0 && n < len(ss) && ss[n] != s {
				ss[n].mu.Lock()
				defer ss[n].mu.Unlock()
				return ss[n].sid
			}
			return s.sid
		case strings.HasPrefix(ref, "inv:"), strings.HasPrefix(ref, "reg:"), strings.HasPrefix(ref, "sub:"):
			n, _ := strconv.Atoi(ref[4:])
			if n >= 0 && n < len(ss) && ss[n] != s {
				ss[n].mu.Lock()
				defer ss[n].mu.Unlock()
				switch ref[:3] {
				case "inv":
					return ss[n].lastInv
				case "reg":
					return ss[n].lastReg
				}
				return ss[n].lastSub
			}
		}
		return wamp.ID(1)
	}
}

func (w *worker) send(ss []*sess, s *sess, m *Msg, st *runStats) {
	s.mu.Lock()
	alive, lk := s.alive, s.lk
	s.mu.Unlock()
	if lk == nil || !alive {
		st.SendErr++
		return
	}
	res := w.resolver(ss, s)
	var err error
	if lk.isLocal() {
		tm, ok := m.typed(res)
		if !ok {
			st.Inexpress++
			return
		}
		err = lk.sendTyped(tm)
	} else {
		list, enc := m.wireList(res)
		if !enc {
			st.Inexpress++
			return
		}
		err = lk.sendList(list)
		if err != nil && strings.HasPrefix(err.Error(), "unencodable") {
			st.Inexpress++
			return
		}
	}
	if err != nil {
		st.SendErr++
		return
	}
	st.Sent++
}

// attach opens the transport, sends HELLO and completes authentication.
func (w *worker) attach(ss []*sess, s *sess, st *runStats) bool {
	st.Attaches++
	if err := w.open(s); err != nil {
		st.AttachFail++
		return false
	}
	realm := orDefault(s.spec.Realm, "realm1")
	w.send(ss, s, mk(1, vURI(realm), w.helloDetails(s.spec)), st)
	deadline := 1500 * time.Millisecond * w.timeMult
	for i := 0; i < 3; i++ {
		m, down := s.waitFor(func(m wamp.Message) bool {
			switch m.(type) {
			case *wamp.Welcome, *wamp.Abort, *wamp.Challenge:
				return true
			}
			return false
		}, deadline)
		if down || m == nil {
			st.AttachFail++
			return false
		}
		switch x := m.(type) {
		case *wamp.Welcome:
			return true
		case *wamp.Abort:
			st.AttachFail++
			return false
		case *wamp.Challenge:
			s.clearSeen()
			w.send(ss, s, mk(5, vStr(w.answer(s.spec.Auth, x)), vDict()), st)
		}
	}
	st.AttachFail++
	return false
}

func (w *worker) answer(method string, c *wamp.Challenge) string {
	switch method {
	case "ticket":
		return "ticket-secret"
	case "wampcra":
		return crsign.RespondChallenge("cra-secret", c, nil)
	case "cryptosign":
		chs, _ := wamp.AsString(c.Extra["challenge"])
		ch, _ := hex.DecodeString(chs)
		sig := ed25519.Sign(w.h.priv, ch)
		return hex.EncodeToString(append(sig, ch...))
	}
	return "wrong"
}

// syncSess makes sure the router's handler has finished with everything the
// session sent so far: a request that is always answered (UNSUBSCRIBE of a
// subscription that does not exist) travels behind it.
func (w *worker) syncSess(ss []*sess, s *sess, st *runStats) {
	s.mu.Lock()
	alive, est := s.alive, s.est
	s.mu.Unlock()
	if !alive || !est {
		time.Sleep(2 * time.Millisecond)
		return
	}
	w.reqCtr++
	req := wamp.ID(1<<52 + w.reqCtr)
	s.clearSeen()
	w.send(ss, s, mk(34, vID(uint64(req)), vID(1<<52+7)), st)
	_, down := s.waitFor(func(m wamp.Message) bool {
		switch e := m.(type) {
		case *wamp.Error:
			return e.Request == req
		case *wamp.Abort, *wamp.Goodbye:
			return true // the session is over
		}
		return false
	}, 300*time.Millisecond*w.timeMult)
	if down {
		st.Aborted++
		return
	}
	s.mu.Lock()
	if s.alive && s.got[8] == 0 {
		// no ERROR at all yet: timed out
	}
	s.mu.Unlock()
}

func (w *worker) step(ss []*sess, stp Step, st *runStats) {
	if stp.Op == "par" {
		var wg sync.WaitGroup
		bySess := map[int][]Step{}
		var order []int
		for _, p := range stp.Par {
			if _, ok := bySess[p.S]; !ok {
				order = append(order, p.S)
			}
			bySess[p.S] = append(bySess[p.S], p)
		}
		var mu sync.Mutex
		for _, k := range order {
			wg.Add(1)
			go func(steps []Step) {
				defer wg.Done()
				var local runStats
				for _, p := range steps {
					w.step(ss, p, &local)
				}
				mu.Lock()
				st.Sent += local.Sent
				st.Inexpress += local.Inexpress
				st.SendErr += local.SendErr
				st.Attaches += local.Attaches
				st.AttachFail += local.AttachFail
				st.Aborted += local.Aborted
				mu.Unlock()
			}(bySess[k])
		}
		wg.Wait()
		return
	}
	if stp.Op == "sleep" {
		time.Sleep(time.Duration(stp.Ms) * time.Millisecond)
		return
	}
	if stp.Op == "removerealm" {
		// the embedding application removes a realm while clients use it
		w.h.rtr.RemoveRealm(wamp.URI(stp.Hex))
		return
	}
	if stp.Op == "addrealm" {
		_ = w.h.rtr.AddRealm(&router.RealmConfig{URI: wamp.URI(stp.Hex), AnonymousAuth: true, AllowDisclose: true, EnableMetaKill: true})
		return
	}
	if stp.S < 0 || stp.S >= len(ss) {
		return
	}
	s := ss[stp.S]
	if stp.Re {
		s.mu.Lock()
		usable := s.alive && s.est
		s.mu.Unlock()
		if !usable {
			w.attach(ss, s, st)
		}
	}
	switch stp.Op {
	case "attach":
		w.attach(ss, s, st)
	case "ensure":
		s.mu.Lock()
		alive := s.alive && s.est
		s.mu.Unlock()
		if !alive {
			w.attach(ss, s, st)
		}
	case "open":
		st.Attaches++
		if err := w.open(s); err != nil {
			st.AttachFail++
		}
	case "msg":
		w.send(ss, s, stp.M, st)
	case "nilmsg":
		if lk := s.link(); lk != nil && lk.isLocal() {
			_ = lk.sendTyped(nil)
		}
	case "bytes":
		if lk := s.link(); lk != nil {
			b, _ := hex.DecodeString(stp.Hex)
			if err := lk.sendBytes(b); err != nil {
				st.SendErr++
			} else {
				st.Sent++
			}
		}
	case "wsframe":
		if lk := s.link(); lk != nil {
			b, _ := hex.DecodeString(stp.Hex)
			if err := lk.sendWSFrame(stp.Code, b); err != nil {
				st.SendErr++
			} else {
				st.Sent++
			}
		}
	case "close":
		if lk := s.link(); lk != nil {
			lk.close()
		}
	case "goodbye":
		w.send(ss, s, mk(6, vDict(), vURI("wamp.close.close_realm")), st)
		s.waitFor(func(m wamp.Message) bool { _, ok := m.(*wamp.Goodbye); return ok }, 300*time.Millisecond*w.timeMult)
		if lk := s.link(); lk != nil {
			lk.close()
		}
	case "sync":
		w.syncSess(ss, s, st)
	case "wait":
		d := time.Duration(stp.Ms) * time.Millisecond
		if d == 0 {
			d = 500 * time.Millisecond
		}
		s.waitFor(func(m wamp.Message) bool {
			t := int(m.MessageType())
			return t == stp.Code || t == 3 || t == 6 || (stp.Code == 4 && t == 2)
		}, d*w.timeMult)
	default:
		panic("harness: unknown step op " + stp.Op)
	}
}

func (w *worker) runHistory(h *History) runStats {
	st := runStats{Got: map[string]int{}}
	ss := make([]*sess, len(h.Sessions))
	for i, sp := range h.Sessions {
		ss[i] = w.newSess(sp)
	}
	slow := os.Getenv("C04_SLOWSTEPS") != ""
	for i, stp := range h.Steps {
		w.progress(i)
		t0 := time.Now()
		w.step(ss, stp, &st)
		if slow && time.Since(t0) > 15*time.Millisecond {
			fmt.Fprintf(os.Stderr, "SLOW step %d %s s=%d note=%s: %v\n", i, stp.Op, stp.S, stp.Note, time.Since(t0))
		}
	}
	// let the handlers finish, then drop every hostile session
	for _, s := range ss {
		s.mu.Lock()
		alive, est := s.alive, s.est
		s.mu.Unlock()
		if alive && est {
			w.syncSess(ss, s, &st)
		}
	}
	for _, s := range ss {
		if lk := s.link(); lk != nil {
			lk.close()
		}
		s.mu.Lock()
		for t, n := range s.got {
			st.Got[msgName(t)] += n
		}
		s.mu.Unlock()
	}
	return st
}

func (w *worker) rawAddrFor(limit int) string {
	if a, ok := w.h.rawLim[limit]; ok {
		return a
	}
	return w.h.rawAddr
}

// useConfig switches the worker to the router of the given configuration
// (started on first use); the probe sessions belong to the configuration.
func (w *worker) useConfig(c int) error {
	c = ((c % numConfigs) + numConfigs) % numConfigs
	if c == w.cfg {
		return nil
	}
	cur := w.hosts[w.cfg]
	cur.probeA, cur.probeB, cur.probeN = w.probeA, w.probeB, w.probeN
	hs := w.hosts[c]
	if hs == nil {
		h, err := startHost(w.logw, c)
		if err != nil {
			return err
		}
		hs = &hostState{h: h}
		w.hosts[c] = hs
	}
	w.cfg, w.h = c, hs.h
	w.probeA, w.probeB, w.probeN = hs.probeA, hs.probeB, hs.probeN
	return nil
}

// progress tells the parent (fd 3) which top-level step is about to run.
func (w *worker) progress(i int) {
	if w.prog == nil {
		return
	}
	b := [4]byte{byte(i), byte(i >> 8), byte(i >> 16), byte(i >> 24)}
	_, _ = w.prog.Write(b[:])
}

// ---------------------------------------------------------------- liveness probe

// probe: an uninvolved pair of sessions must still be served: publish/event,
// call/invocation/yield/result, a meta procedure, and a fresh attach (every
// fourth probe also over rawsocket and websocket).
func (w *worker) probe() error {
	var lastErr error
	for attempt := 0; attempt < 6; attempt++ {
		if lastErr = w.probeOnce(); lastErr == nil {
			return nil
		}
		// The probe sessions may have been killed legitimately: a hostile
		// session called wamp.session.kill_all, and kills it requested may
		// still be executing.  Start afresh; only a router that stays
		// unresponsive is a wedge.
		w.dropProbe()
		time.Sleep(time.Duration(50*(attempt+1)) * time.Millisecond)
	}
	return lastErr
}

func (w *worker) dropProbe() {
	for _, s := range []*sess{w.probeA, w.probeB} {
		if s != nil {
			if lk := s.link(); lk != nil {
				lk.close()
			}
		}
	}
	w.probeA, w.probeB = nil, nil
}

func (w *worker) probeOnce() error {
	var st runStats
	d := 3 * time.Second * w.timeMult
	if w.probeA == nil {
		a := w.newSess(SessionSpec{Transport: "local"})
		b := w.newSess(SessionSpec{Transport: "local"})
		ss := []*sess{a, b}
		if !w.attach(ss, a, &st) || !w.attach(ss, b, &st) {
			return errors.New("probe: cannot attach local sessions")
		}
		w.probeN++
		w.send(ss, a, mk(32, vID(1), vDict(), vURI("c04.probe.topic")), &st)
		if m, _ := a.waitFor(func(m wamp.Message) bool { _, ok := m.(*wamp.Subscribed); return ok }, d); m == nil {
			return errors.New("probe: SUBSCRIBE not answered")
		}
		w.send(ss, a, mk(64, vID(2), vDict(), vURI(fmt.Sprintf("c04.probe.proc%d", w.probeN))), &st)
		if m, _ := a.waitFor(func(m wamp.Message) bool { _, ok := m.(*wamp.Registered); return ok }, d); m == nil {
			return errors.New("probe: REGISTER not answered")
		}
		w.probeA, w.probeB = a, b
	}
	a, b := w.probeA, w.probeB
	ss := []*sess{a, b}
	a.clearSeen()
	b.clearSeen()
	w.reqCtr++
	req := 1<<51 + w.reqCtr
	// pub/sub
	w.send(ss, b, mk(16, vID(req), vDict("acknowledge", vBool(true)), vURI("c04.probe.topic"), vList(vID(req))), &st)
	if m, down := b.waitFor(func(m wamp.Message) bool { p, ok := m.(*wamp.Published); return ok && uint64(p.Request) == req }, d); m == nil {
		return fmt.Errorf("probe: PUBLISH not acknowledged (session down=%v)", down)
	}
	if m, down := a.waitFor(func(m wamp.Message) bool {
		e, ok := m.(*wamp.Event)
		if !ok || len(e.Arguments) != 1 {
			return false
		}
		id, _ := wamp.AsID(e.Arguments[0])
		return uint64(id) == req
	}, d); m == nil {
		return fmt.Errorf("probe: EVENT not delivered (session down=%v)", down)
	}
	// rpc
	w.send(ss, b, mk(48, vID(req+1), vDict(), vURI(fmt.Sprintf("c04.probe.proc%d", w.probeN)), vList(vID(req))), &st)
	inv, down := a.waitFor(func(m wamp.Message) bool { _, ok := m.(*wamp.Invocation); return ok }, d)
	if inv == nil {
		return fmt.Errorf("probe: INVOCATION not delivered (session down=%v)", down)
	}
	w.send(ss, a, mk(70, vID(uint64(inv.(*wamp.Invocation).Request)), vDict(), vList(vID(req))), &st)
	if m, down := b.waitFor(func(m wamp.Message) bool { r, ok := m.(*wamp.Result); return ok && uint64(r.Request) == req+1 }, d); m == nil {
		return fmt.Errorf("probe: RESULT not delivered (session down=%v)", down)
	}
	// meta procedure (meta session, realm goroutine)
	w.send(ss, b, mk(48, vID(req+2), vDict(), vURI("wamp.session.count")), &st)
	if m, down := b.waitFor(func(m wamp.Message) bool { r, ok := m.(*wamp.Result); return ok && uint64(r.Request) == req+2 }, d); m == nil {
		return fmt.Errorf("probe: wamp.session.count not answered (session down=%v)", down)
	}
	// attach path
	specs := []SessionSpec{{Transport: "local"}}
	if w.reqCtr%4 == 0 {
		specs = append(specs, SessionSpec{Transport: "raw", Ser: "json"}, SessionSpec{Transport: "ws", Ser: "msgpack"})
	}
	for _, sp := range specs {
		c := w.newSess(sp)
		if !w.attach([]*sess{c}, c, &st) {
			return fmt.Errorf("probe: a new %s session cannot attach", sp.Transport)
		}
		w.send([]*sess{c}, c, mk(6, vDict(), vURI("wamp.close.close_realm")), &st)
		c.waitFor(func(m wamp.Message) bool { _, ok := m.(*wamp.Goodbye); return ok }, d)
		c.link().close()
	}
	return nil
}

// ---------------------------------------------------------------- worker main loop

type workerReq struct {
	ID      int      `json:"id"`
	History *History `json:"history"`
}

type workerRsp struct {
	ID    int      `json:"id"`
	Ready bool     `json:"ready,omitempty"`
	OK    bool     `json:"ok"`
	Wedge string   `json:"wedge,omitempty"`
	Stats runStats `json:"stats"`
	Ms    float64  `json:"ms"`
	Gor   int      `json:"goroutines"`
}

func workerMain() {
	mult := time.Duration(1)
	if os.Getenv("C04_SLOW") != "" {
		mult = 4
	}
	var logw io.Writer = io.Discard
	if os.Getenv("C04_ROUTER_LOG") != "" {
		logw = os.Stderr
	}
	h, err := startHost(logw, 0)
	if err != nil {
		fmt.Fprintln(os.Stderr, "c04drive worker: cannot start router:", err)
		os.Exit(4)
	}
	// The protocol with the parent uses the original stdout; the process's fd 1
	// is pointed at stderr so that nothing the router prints (the cryptosign
	// authenticator uses fmt.Println) can corrupt it.
	protoFd, err := syscall.Dup(1)
	if err != nil {
		fmt.Fprintln(os.Stderr, "c04drive worker: dup:", err)
		os.Exit(4)
	}
	if err := syscall.Dup2(2, 1); err != nil {
		fmt.Fprintln(os.Stderr, "c04drive worker: dup2:", err)
		os.Exit(4)
	}
	protoOut := os.NewFile(uintptr(protoFd), "protocol")
	w := &worker{h: h, timeMult: mult, logw: logw, hosts: map[int]*hostState{0: {h: h}}}
	if f := os.NewFile(3, "progress"); f != nil {
		if _, err := f.Stat(); err == nil {
			w.prog = f
		}
	}
	out := json.NewEncoder(protoOut)
	if err := w.probe(); err != nil {
		fmt.Fprintln(os.Stderr, "c04drive worker: initial probe failed:", err)
		os.Exit(4)
	}
	_ = out.Encode(workerRsp{Ready: true, OK: true})
	in := bufio.NewReaderSize(os.Stdin, 1<<20)
	for {
		line, err := in.ReadBytes('\n')
		if len(line) > 0 {
			var req workerReq
			if e := json.Unmarshal(line, &req); e != nil {
				fmt.Fprintln(os.Stderr, "c04drive worker: bad request:", e)
				os.Exit(4)
			}
			t0 := time.Now()
			if err := w.useConfig(req.History.Config); err != nil {
				fmt.Fprintln(os.Stderr, "c04drive worker: cannot start router configuration:", err)
				os.Exit(4)
			}
			st := w.runHistory(req.History)
			rsp := workerRsp{ID: req.ID, OK: true, Stats: st}
			if perr := w.probe(); perr != nil {
				rsp.OK = false
				rsp.Wedge = perr.Error()
			}
			rsp.Ms = float64(time.Since(t0).Microseconds()) / 1000
			rsp.Gor = runtime.NumGoroutine()
			_ = out.Encode(rsp)
			if !rsp.OK {
				// the router no longer serves an uninvolved session: show where
				// its goroutines are and stop
				buf := make([]byte, 4<<20)
				n := runtime.Stack(buf, true)
				fmt.Fprintf(os.Stderr, "c04drive: WEDGE: %s\n%s\n", rsp.Wedge, buf[:n])
				os.Exit(3)
			}
		}
		if err != nil {
			return
		}
	}
}
