// c04drive: hostile-input harness for property C04.
//
// value.go: a JSON notation for Go values that keeps the dynamic type, so that
// a history is replayable byte for byte and local peers can hand the router
// exactly the Go value that was meant (wamp.ID vs uint64 vs int, wamp.Dict vs
// map[string]any vs map[any]any, typed slices, NaN, ...).
package main

import (
	"encoding/hex"
	"encoding/json"
	"fmt"
	"math"
	"reflect"
	"sort"
	"strconv"

	"github.com/gammazero/nexus/v3/wamp"
)

// V is the JSON form of a value: exactly one field set (or none: nil).
type V struct {
	B    *bool              `json:"b,omitempty"`
	I    *string            `json:"i,omitempty"`   // int
	I8   *string            `json:"i8,omitempty"`  // int8
	I16  *string            `json:"i16,omitempty"` // int16
	I32  *string            `json:"i32,omitempty"` // int32
	I64  *string            `json:"i64,omitempty"` // int64
	U    *string            `json:"u,omitempty"`   // uint
	U8   *string            `json:"u8,omitempty"`
	U16  *string            `json:"u16,omitempty"`
	U32  *string            `json:"u32,omitempty"`
	U64  *string            `json:"u64,omitempty"`
	ID   *string            `json:"id,omitempty"`   // wamp.ID
	F    *string            `json:"f,omitempty"`    // float64: decimal, NaN, +Inf, -Inf
	F32  *string            `json:"f32,omitempty"`  // float32
	S    *string            `json:"s,omitempty"`    // string
	URI  *string            `json:"uri,omitempty"`  // wamp.URI
	Bin  *string            `json:"bin,omitempty"`  // []byte (hex)
	L    *[]V               `json:"l,omitempty"`    // wamp.List
	LA   *[]V               `json:"la,omitempty"`   // []any
	LS   *[]string          `json:"ls,omitempty"`   // []string
	LID  *[]string          `json:"lid,omitempty"`  // []wamp.ID
	LI   *[]string          `json:"li,omitempty"`   // []int
	D    *map[string]V      `json:"d,omitempty"`    // wamp.Dict
	M    *map[string]V      `json:"m,omitempty"`    // map[string]any
	MS   *map[string]string `json:"ms,omitempty"`   // map[string]string
	MK   *[][2]V            `json:"mk,omitempty"`   // map[any]any
	O    *string            `json:"o,omitempty"`    // other: struct, ptr, chan, func, time
	Ref  *string            `json:"ref,omitempty"`  // resolved at run time: inv, sub, reg, pub, sid:<n>, req
	Deep *int               `json:"deep,omitempty"` // a list nested that many levels
}

func sp(s string) *string { return &s }

func vNil() V              { return V{} }
func vBool(b bool) V       { return V{B: &b} }
func vInt(i int) V         { return V{I: sp(strconv.Itoa(i))} }
func vInt64(i int64) V     { return V{I64: sp(strconv.FormatInt(i, 10))} }
func vUint64(u uint64) V   { return V{U64: sp(strconv.FormatUint(u, 10))} }
func vID(u uint64) V       { return V{ID: sp(strconv.FormatUint(u, 10))} }
func vFloat(s string) V    { return V{F: sp(s)} }
func vStr(s string) V      { return V{S: sp(s)} }
func vURI(s string) V      { return V{URI: sp(s)} }
func vBin(b []byte) V      { return V{Bin: sp(hex.EncodeToString(b))} }
func vList(vs ...V) V      { l := append([]V{}, vs...); return V{L: &l} }
func vSliceAny(vs ...V) V  { l := append([]V{}, vs...); return V{LA: &l} }
func vStrs(ss ...string) V { l := append([]string{}, ss...); return V{LS: &l} }
func vDict(kv ...any) V {
	m := map[string]V{}
	for i := 0; i+1 < len(kv); i += 2 {
		m[kv[i].(string)] = kv[i+1].(V)
	}
	return V{D: &m}
}
func vMap(kv ...any) V {
	m := map[string]V{}
	for i := 0; i+1 < len(kv); i += 2 {
		m[kv[i].(string)] = kv[i+1].(V)
	}
	return V{M: &m}
}
func vOther(s string) V { return V{O: sp(s)} }
func vRef(s string) V   { return V{Ref: sp(s)} }
func vDeep(n int) V     { return V{Deep: &n} }

func (v V) String() string {
	b, _ := json.Marshal(v)
	return string(b)
}

// kind names the Go dynamic type the value denotes (input distribution).
func (v V) kind() string {
	switch {
	case v.B != nil:
		return "bool"
	case v.I != nil:
		return "int"
	case v.I8 != nil:
		return "int8"
	case v.I16 != nil:
		return "int16"
	case v.I32 != nil:
		return "int32"
	case v.I64 != nil:
		return "int64"
	case v.U != nil:
		return "uint"
	case v.U8 != nil:
		return "uint8"
	case v.U16 != nil:
		return "uint16"
	case v.U32 != nil:
		return "uint32"
	case v.U64 != nil:
		return "uint64"
	case v.ID != nil:
		return "wamp.ID"
	case v.F != nil:
		switch *v.F {
		case "NaN", "+Inf", "-Inf":
			return "float64:" + *v.F
		}
		return "float64"
	case v.F32 != nil:
		return "float32"
	case v.S != nil:
		return "string"
	case v.URI != nil:
		return "wamp.URI"
	case v.Bin != nil:
		return "[]byte"
	case v.L != nil:
		return "wamp.List"
	case v.LA != nil:
		return "[]any"
	case v.LS != nil:
		return "[]string"
	case v.LID != nil:
		return "[]wamp.ID"
	case v.LI != nil:
		return "[]int"
	case v.D != nil:
		return "wamp.Dict"
	case v.M != nil:
		return "map[string]any"
	case v.MS != nil:
		return "map[string]string"
	case v.MK != nil:
		return "map[any]any"
	case v.O != nil:
		return "other:" + *v.O
	case v.Ref != nil:
		return "ref"
	case v.Deep != nil:
		return "nested"
	}
	return "nil"
}

type resolver func(ref string) any

type otherStruct struct {
	A int
	B string
}

func pi(s string, bits int) int64 {
	i, err := strconv.ParseInt(s, 10, bits)
	if err != nil {
		panic(fmt.Sprintf("harness: bad integer %q", s))
	}
	return i
}

func pu(s string, bits int) uint64 {
	u, err := strconv.ParseUint(s, 10, bits)
	if err != nil {
		panic(fmt.Sprintf("harness: bad unsigned integer %q", s))
	}
	return u
}

func pf(s string) float64 {
	switch s {
	case "NaN":
		return math.NaN()
	case "+Inf":
		return math.Inf(1)
	case "-Inf":
		return math.Inf(-1)
	}
	f, err := strconv.ParseFloat(s, 64)
	if err != nil {
		panic(fmt.Sprintf("harness: bad float %q", s))
	}
	return f
}

// goValue builds the Go value.  encodable=false: the value cannot be sent
// through a serializer (chan, func).
func (v V) goValue(res resolver) (val any, encodable bool) {
	encodable = true
	switch {
	case v.B != nil:
		return *v.B, true
	case v.I != nil:
		return int(pi(*v.I, 64)), true
	case v.I8 != nil:
		return int8(pi(*v.I8, 8)), true
	case v.I16 != nil:
		return int16(pi(*v.I16, 16)), true
	case v.I32 != nil:
		return int32(pi(*v.I32, 32)), true
	case v.I64 != nil:
		return pi(*v.I64, 64), true
	case v.U != nil:
		return uint(pu(*v.U, 64)), true
	case v.U8 != nil:
		return uint8(pu(*v.U8, 8)), true
	case v.U16 != nil:
		return uint16(pu(*v.U16, 16)), true
	case v.U32 != nil:
		return uint32(pu(*v.U32, 32)), true
	case v.U64 != nil:
		return pu(*v.U64, 64), true
	case v.ID != nil:
		return wamp.ID(pu(*v.ID, 64)), true
	case v.F != nil:
		return pf(*v.F), true
	case v.F32 != nil:
		return float32(pf(*v.F32)), true
	case v.S != nil:
		return *v.S, true
	case v.URI != nil:
		return wamp.URI(*v.URI), true
	case v.Bin != nil:
		b, err := hex.DecodeString(*v.Bin)
		if err != nil {
			panic("harness: bad hex")
		}
		return b, true
	case v.L != nil:
		l := make(wamp.List, len(*v.L))
		for i, x := range *v.L {
			var e bool
			l[i], e = x.goValue(res)
			encodable = encodable && e
		}
		return l, encodable
	case v.LA != nil:
		l := make([]any, len(*v.LA))
		for i, x := range *v.LA {
			var e bool
			l[i], e = x.goValue(res)
			encodable = encodable && e
		}
		return l, encodable
	case v.LS != nil:
		return append([]string{}, (*v.LS)...), true
	case v.LID != nil:
		l := make([]wamp.ID, len(*v.LID))
		for i, s := range *v.LID {
			l[i] = wamp.ID(pu(s, 64))
		}
		return l, true
	case v.LI != nil:
		l := make([]int, len(*v.LI))
		for i, s := range *v.LI {
			l[i] = int(pi(s, 64))
		}
		return l, true
	case v.D != nil:
		d := wamp.Dict{}
		for k, x := range *v.D {
			var e bool
			d[k], e = x.goValue(res)
			encodable = encodable && e
		}
		return d, encodable
	case v.M != nil:
		d := map[string]any{}
		for k, x := range *v.M {
			var e bool
			d[k], e = x.goValue(res)
			encodable = encodable && e
		}
		return d, encodable
	case v.MS != nil:
		d := map[string]string{}
		for k, x := range *v.MS {
			d[k] = x
		}
		return d, true
	case v.MK != nil:
		d := map[any]any{}
		for _, kv := range *v.MK {
			k, e1 := kv[0].goValue(res)
			x, e2 := kv[1].goValue(res)
			encodable = encodable && e1 && e2
			if k != nil && !reflect.TypeOf(k).Comparable() {
				continue // not usable as a map key
			}
			d[k] = x
		}
		return d, encodable
	case v.O != nil:
		switch *v.O {
		case "struct":
			return otherStruct{A: 1, B: "x"}, true
		case "ptr":
			return &otherStruct{A: 2, B: "y"}, true
		case "nilptr":
			var p *otherStruct
			return p, true
		case "chan":
			return make(chan int), false
		case "func":
			return func() {}, false
		case "complex":
			return complex(1, 2), false
		case "array":
			return [2]int{1, 2}, true
		case "error":
			return fmt.Errorf("an error value"), false
		}
		panic("harness: unknown other kind " + *v.O)
	case v.Ref != nil:
		if res == nil {
			return wamp.ID(1), true
		}
		return res(*v.Ref), true
	case v.Deep != nil:
		var cur any = "leaf"
		for i := 0; i < *v.Deep; i++ {
			if i%2 == 0 {
				cur = wamp.List{cur}
			} else {
				cur = wamp.Dict{"k": cur}
			}
		}
		return cur, true
	}
	return nil, true
}

// sortedKeys is used wherever a map is turned into a sequence, so that a
// history executes identically on every run.
func sortedKeys[T any](m map[string]T) []string {
	ks := make([]string, 0, len(m))
	for k := range m {
		ks = append(ks, k)
	}
	sort.Strings(ks)
	return ks
}
