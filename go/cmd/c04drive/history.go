package main

import (
	"fmt"
	"reflect"

	"github.com/gammazero/nexus/v3/wamp"
)

// Msg is a WAMP message in wire order: type code, then the fields.
type Msg struct {
	T int `json:"t"`
	F []V `json:"f"`
}

type Step struct {
	S    int    `json:"s"`
	Op   string `json:"op"` // attach open msg bytes wsframe close goodbye sync sleep wait par nilmsg
	M    *Msg   `json:"m,omitempty"`
	Hex  string `json:"hex,omitempty"`
	Ms   int    `json:"ms,omitempty"`
	Code int    `json:"code,omitempty"` // wsframe opcode / wait message type
	Re   bool   `json:"re,omitempty"`   // re-attach the session first when it is dead
	Par  []Step `json:"par,omitempty"`  // steps run concurrently (one goroutine per session)
	Note string `json:"note,omitempty"` // label for the input distribution, e.g. PUBLISH/ppt_serializer/int
}

type SessionSpec struct {
	Transport string `json:"transport"`       // local raw ws
	Ser       string `json:"ser,omitempty"`   // json msgpack cbor
	Realm     string `json:"realm,omitempty"` // default realm1
	Roles     string `json:"roles,omitempty"` // all (default) none
	Hello     *V     `json:"hello,omitempty"` // HELLO details (overrides Roles)
	Auth      string `json:"auth,omitempty"`  // ticket wampcra cryptosign : answer the CHALLENGE properly
	AuthID    string `json:"authid,omitempty"`
	// Limit selects the server the session connects to: rawsocket servers with
	// RecvLimit 0 (16M, the default server) / 512 / 1000 / 65536 and a small
	// outbound queue; websocket: any non-zero value selects the server with a
	// small outbound queue.
	Limit int `json:"limit,omitempty"`
}

type History struct {
	Config   int           `json:"config,omitempty"` // router configuration (worker.go: startHost)
	Base     string        `json:"base,omitempty"`   // name of the generated history this is a per-configuration copy of
	Name     string        `json:"name"`
	Stream   string        `json:"stream"`
	Sessions []SessionSpec `json:"sessions"`
	Steps    []Step        `json:"steps"`
}

var msgNames = map[int]string{
	1: "HELLO", 2: "WELCOME", 3: "ABORT", 4: "CHALLENGE", 5: "AUTHENTICATE", 6: "GOODBYE", 8: "ERROR",
	16: "PUBLISH", 17: "PUBLISHED", 32: "SUBSCRIBE", 33: "SUBSCRIBED", 34: "UNSUBSCRIBE", 35: "UNSUBSCRIBED", 36: "EVENT",
	48: "CALL", 49: "CANCEL", 50: "RESULT", 64: "REGISTER", 65: "REGISTERED", 66: "UNREGISTER", 67: "UNREGISTERED",
	68: "INVOCATION", 69: "INTERRUPT", 70: "YIELD",
}

func msgName(t int) string {
	if n, ok := msgNames[t]; ok {
		return n
	}
	return fmt.Sprintf("TYPE%d", t)
}

var allMsgTypes = []int{1, 2, 3, 4, 5, 6, 8, 16, 17, 32, 33, 34, 35, 36, 48, 49, 50, 64, 65, 66, 67, 68, 69, 70}

// fakeMsg: a message of a type the wamp package does not know (local peers).
type fakeMsg struct{ code int }

func (m *fakeMsg) MessageType() wamp.MessageType { return wamp.MessageType(m.code) }

// wireList: the list a serializer is given for a network transport.
func (m *Msg) wireList(res resolver) (list []any, encodable bool) {
	list = make([]any, 0, len(m.F)+1)
	list = append(list, m.T)
	encodable = true
	for _, f := range m.F {
		v, e := f.goValue(res)
		encodable = encodable && e
		list = append(list, v)
	}
	return list, encodable
}

// typed: the Go message struct a local peer hands to the router.  ok=false
// when the field values cannot be put into the struct's static types (such a
// message cannot exist in process; it is exercised over the network
// transports).
func (m *Msg) typed(res resolver) (msg wamp.Message, ok bool) {
	base := wamp.NewMessage(wamp.MessageType(m.T))
	if base == nil {
		return &fakeMsg{code: m.T}, true
	}
	val := reflect.ValueOf(base).Elem()
	for i := 0; i < val.NumField() && i < len(m.F); i++ {
		f := val.Field(i)
		gv, _ := m.F[i].goValue(res)
		if gv == nil {
			continue // zero value of the field
		}
		rv := reflect.ValueOf(gv)
		switch f.Type() {
		case reflect.TypeFor[wamp.ID]():
			switch rv.Kind() {
			case reflect.Int, reflect.Int8, reflect.Int16, reflect.Int32, reflect.Int64:
				f.SetUint(uint64(rv.Int()))
			case reflect.Uint, reflect.Uint8, reflect.Uint16, reflect.Uint32, reflect.Uint64:
				f.SetUint(rv.Uint())
			default:
				return nil, false
			}
		case reflect.TypeFor[wamp.MessageType]():
			switch rv.Kind() {
			case reflect.Int, reflect.Int8, reflect.Int16, reflect.Int32, reflect.Int64:
				f.SetInt(rv.Int())
			case reflect.Uint, reflect.Uint8, reflect.Uint16, reflect.Uint32, reflect.Uint64:
				f.SetInt(int64(rv.Uint()))
			default:
				return nil, false
			}
		case reflect.TypeFor[wamp.URI](), reflect.TypeFor[string]():
			switch x := gv.(type) {
			case string:
				f.SetString(x)
			case wamp.URI:
				f.SetString(string(x))
			case []byte:
				f.SetString(string(x))
			default:
				return nil, false
			}
		case reflect.TypeFor[wamp.Dict]():
			switch x := gv.(type) {
			case wamp.Dict:
				f.Set(reflect.ValueOf(x))
			case map[string]any:
				f.Set(reflect.ValueOf(wamp.Dict(x)))
			default:
				return nil, false
			}
		case reflect.TypeFor[wamp.List]():
			switch x := gv.(type) {
			case wamp.List:
				f.Set(reflect.ValueOf(x))
			case []any:
				f.Set(reflect.ValueOf(wamp.List(x)))
			default:
				return nil, false
			}
		default:
			return nil, false
		}
	}
	return base, true
}

// convenience constructors used by the generators

func mk(t int, f ...V) *Msg { return &Msg{T: t, F: f} }

func stepMsg(s int, note string, m *Msg) Step { return Step{S: s, Op: "msg", M: m, Note: note} }

func stepAttach(s int) Step { return Step{S: s, Op: "attach"} }
func stepSync(s int) Step   { return Step{S: s, Op: "sync"} }
func stepClose(s int) Step  { return Step{S: s, Op: "close"} }
func stepWait(s, t, ms int) Step {
	return Step{S: s, Op: "wait", Code: t, Ms: ms}
}
