package main

import (
	"encoding/json"
	"flag"
	"fmt"
	"os"
	"sort"
	"strconv"

	"github.com/gammazero/nexus/v3/wamp"
)

// accessorsMain runs the REAL accessors of package wamp on sample values and
// writes what they returned, so that the check can compare them with the Coq
// models (Safety/Accessors.v) inside the kernel.
type accCase struct {
	Acc string `json:"acc"`
	V   V      `json:"v"`
	Ok  bool   `json:"ok"`
	Res string `json:"res"` // canonical result, see canon* below
	Pan bool   `json:"panicked"`
}

func safeCall(f func()) (panicked bool) {
	defer func() {
		if recover() != nil {
			panicked = true
		}
	}()
	f()
	return false
}

func canonDict(d wamp.Dict) string {
	if d == nil {
		return "nil"
	}
	ks := make([]string, 0, len(d))
	for k := range d {
		ks = append(ks, k)
	}
	sort.Strings(ks)
	s := "keys"
	for _, k := range ks {
		s += ":" + k + "=" + canonVal(d[k])
	}
	return s
}

// canonVal: dynamic type of a value as NormalizeDict leaves it (one level).
func canonVal(v any) string {
	switch x := v.(type) {
	case nil:
		return "nil"
	case wamp.Dict:
		_ = x
		return "Dict"
	case wamp.List:
		return "List"
	case []any:
		return "SliceAny"
	case map[string]any:
		return "MapAny"
	}
	return "other"
}

func sampleValues(seed uint64, extra int) []V {
	vs := kindValues()
	r := &rng{s: seed*0x9e3779b97f4a7c15 + 17}
	// asciiSafe: keep string contents simple; kinds are what matters
	leaf := []V{vNil(), vBool(true), vInt(3), vInt64(-9), vUint64(1 << 63), vID(12), vID(1 << 53), vID(1<<53 + 1), vFloat("2.75"), vFloat("-1e19"), vFloat("NaN"),
		vStr("s"), vURI("u.v"), vBin([]byte("b")), vStrs("x"), {LID: &[]string{"4"}}, {MS: &map[string]string{"a": "b"}}, vOther("struct"), {F32: sp("1.25")},
		{I8: sp("3")}, {U16: sp("9")}, {I32: sp("-5")}, {U32: sp("77")}, {U: sp("18446744073709551615")}}
	var gen func(d int) V
	gen = func(d int) V {
		if d == 0 || r.intn(3) == 0 {
			return leaf[r.intn(len(leaf))]
		}
		n := r.intn(4)
		switch r.intn(6) {
		case 0:
			l := make([]V, n)
			for i := range l {
				l[i] = gen(d - 1)
			}
			return V{L: &l}
		case 1:
			l := make([]V, n)
			for i := range l {
				l[i] = gen(d - 1)
			}
			return V{LA: &l}
		case 2:
			m := map[string]V{}
			for i := 0; i < n; i++ {
				m[fmt.Sprintf("k%d", i)] = gen(d - 1)
			}
			return V{D: &m}
		case 3:
			m := map[string]V{}
			for i := 0; i < n; i++ {
				m[fmt.Sprintf("m%d", i)] = gen(d - 1)
			}
			return V{M: &m}
		case 4:
			var kv [][2]V
			for i := 0; i < n; i++ {
				k := []V{vStr(fmt.Sprintf("a%d", i)), vInt(i), vURI(fmt.Sprintf("u%d", i)), vBool(i%2 == 0)}[r.intn(4)]
				kv = append(kv, [2]V{k, gen(d - 1)})
			}
			return V{MK: &kv}
		}
		return leaf[r.intn(len(leaf))]
	}
	for i := 0; i < extra; i++ {
		vs = append(vs, gen(4))
	}
	return vs
}

func accessorsMain(args []string) {
	fs := flag.NewFlagSet("accessors", flag.ExitOnError)
	out := fs.String("out", "", "output file")
	seed := fs.Uint64("seed", 1, "seed")
	extra := fs.Int("extra", 200, "random nested values")
	fs.Parse(args)
	var cases []accCase
	for _, v := range sampleValues(*seed, *extra) {
		gv, _ := v.goValue(nil)
		add := func(acc string, f func() (bool, string)) {
			c := accCase{Acc: acc, V: v}
			c.Pan = safeCall(func() { c.Ok, c.Res = f() })
			cases = append(cases, c)
		}
		add("AsString", func() (bool, string) { s, ok := wamp.AsString(gv); return ok, s })
		add("AsURI", func() (bool, string) { s, ok := wamp.AsURI(gv); return ok, string(s) })
		add("AsInt64", func() (bool, string) { i, ok := wamp.AsInt64(gv); return ok, strconv.FormatInt(i, 10) })
		add("AsID", func() (bool, string) { i, ok := wamp.AsID(gv); return ok, strconv.FormatUint(uint64(i), 10) })
		add("AsFloat64", func() (bool, string) { _, ok := wamp.AsFloat64(gv); return ok, "" })
		add("AsBool", func() (bool, string) { b, ok := wamp.AsBool(gv); return ok, strconv.FormatBool(b) })
		add("AsDict", func() (bool, string) { d, ok := wamp.AsDict(gv); return ok, canonDict(d) })
		add("AsList", func() (bool, string) {
			l, ok := wamp.AsList(gv)
			if l == nil {
				return ok, "nil"
			}
			return ok, "len" + strconv.Itoa(len(l))
		})
		add("NormalizeDict", func() (bool, string) { d := wamp.NormalizeDict(gv); return d != nil, canonDict(d) })
		add("assert:string", func() (bool, string) { _, ok := gv.(string); return ok, "" })
		add("assert:bool", func() (bool, string) { _, ok := gv.(bool); return ok, "" })
		add("assert:int", func() (bool, string) { _, ok := gv.(int); return ok, "" })
		add("assert:wamp.ID", func() (bool, string) { _, ok := gv.(wamp.ID); return ok, "" })
		add("assert:wamp.Dict", func() (bool, string) { _, ok := gv.(wamp.Dict); return ok, "" })
		add("bare:string", func() (bool, string) { _ = gv.(string); return true, "" })
	}
	b, _ := json.Marshal(cases)
	if *out != "" {
		_ = os.WriteFile(*out, b, 0o644)
	}
	fmt.Printf("c04drive: %d accessor cases\n", len(cases))
}
