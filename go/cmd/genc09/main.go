// genc09 is the translator part of the C09 check.  It reads
// router/router.go, router/realm.go and the constants of package wamp from
// the repository's working tree and prints coq/gen/GenC09.v: the data of
// AttachClient / authClient that can be regenerated mechanically
//
//   - helloTimeout (ns)
//   - every ABORT exit of AttachClient in source order: reason URI, whether
//     a message text is attached; the shape of the sendAbort closure
//   - the client roles checked
//   - the transport injection (key, condition)
//   - the session-details assembly loops: source dict, skipped keys, order;
//     the session key
//   - the order of the stages of AttachClient
//   - authClient: the local-shortcut condition, the welcome dict literal for a
//     local peer, the default authmethod, the keys the router sets after
//     Authenticate
//
// Anything whose shape is not recognised is a fatal error (exit 2): the check
// then reports a broken tie instead of silently using stale data.
package main

import (
	"fmt"
	"go/ast"
	"go/parser"
	"go/token"
	"os"
	"path/filepath"
	"sort"
	"strconv"
	"strings"
)

func fatal(f string, a ...any) {
	fmt.Fprintf(os.Stderr, "genc09: "+f+"\n", a...)
	os.Exit(2)
}

var fset = token.NewFileSet()

func parseFile(p string) *ast.File {
	f, err := parser.ParseFile(fset, p, nil, parser.ParseComments)
	if err != nil {
		fatal("%v", err)
	}
	return f
}

// ---- constants of package wamp: name -> string
var wampConst = map[string]string{}

func loadWampConsts(dir string) {
	raw := map[string]ast.Expr{}
	files, _ := filepath.Glob(filepath.Join(dir, "*.go"))
	for _, p := range files {
		if strings.HasSuffix(p, "_test.go") {
			continue
		}
		f := parseFile(p)
		for _, d := range f.Decls {
			gd, ok := d.(*ast.GenDecl)
			if !ok || gd.Tok != token.CONST {
				continue
			}
			for _, s := range gd.Specs {
				vs := s.(*ast.ValueSpec)
				for i, n := range vs.Names {
					if i < len(vs.Values) {
						raw[n.Name] = vs.Values[i]
					}
				}
			}
		}
	}
	var resolve func(e ast.Expr, depth int) (string, bool)
	resolve = func(e ast.Expr, depth int) (string, bool) {
		if depth > 8 {
			return "", false
		}
		switch x := e.(type) {
		case *ast.BasicLit:
			if x.Kind == token.STRING {
				s, err := strconv.Unquote(x.Value)
				return s, err == nil
			}
		case *ast.CallExpr: // URI("...")
			if len(x.Args) == 1 {
				return resolve(x.Args[0], depth+1)
			}
		case *ast.Ident:
			if r, ok := raw[x.Name]; ok {
				return resolve(r, depth+1)
			}
		case *ast.ParenExpr:
			return resolve(x.X, depth+1)
		}
		return "", false
	}
	for n, e := range raw {
		if s, ok := resolve(e, 0); ok {
			wampConst[n] = s
		}
	}
}

// constString folds an expression to a string: a literal, wamp.X, or a
// conversion of one of these.
func constString(e ast.Expr) (string, bool) {
	switch x := e.(type) {
	case *ast.BasicLit:
		if x.Kind == token.STRING {
			s, err := strconv.Unquote(x.Value)
			return s, err == nil
		}
	case *ast.SelectorExpr:
		if id, ok := x.X.(*ast.Ident); ok && id.Name == "wamp" {
			s, ok := wampConst[x.Sel.Name]
			return s, ok
		}
	case *ast.CallExpr:
		if len(x.Args) == 1 {
			return constString(x.Args[0])
		}
	case *ast.ParenExpr:
		return constString(x.X)
	}
	return "", false
}

func exprText(e ast.Node) string {
	var sb strings.Builder
	ast.Inspect(e, func(n ast.Node) bool {
		switch x := n.(type) {
		case *ast.Ident:
			sb.WriteString(x.Name + " ")
		case *ast.BasicLit:
			sb.WriteString(x.Value + " ")
		case *ast.UnaryExpr:
			sb.WriteString(x.Op.String() + " ")
		case *ast.BinaryExpr:
			sb.WriteString("(" + x.Op.String() + ") ")
		}
		return true
	})
	return strings.TrimSpace(sb.String())
}

func findFunc(f *ast.File, recv, name string) *ast.FuncDecl {
	for _, d := range f.Decls {
		fd, ok := d.(*ast.FuncDecl)
		if !ok || fd.Name.Name != name {
			continue
		}
		if recv == "" && fd.Recv == nil {
			return fd
		}
		if fd.Recv != nil && len(fd.Recv.List) == 1 {
			t := fd.Recv.List[0].Type
			if st, ok := t.(*ast.StarExpr); ok {
				t = st.X
			}
			if id, ok := t.(*ast.Ident); ok && id.Name == recv {
				return fd
			}
		}
	}
	return nil
}

// ---- duration constant
var timeUnits = map[string]int64{"Nanosecond": 1, "Microsecond": 1e3, "Millisecond": 1e6, "Second": 1e9, "Minute": 60e9, "Hour": 3600e9}

func durationNS(e ast.Expr) (int64, bool) {
	switch x := e.(type) {
	case *ast.SelectorExpr:
		if id, ok := x.X.(*ast.Ident); ok && id.Name == "time" {
			u, ok := timeUnits[x.Sel.Name]
			return u, ok
		}
	case *ast.BasicLit:
		if x.Kind == token.INT {
			n, err := strconv.ParseInt(x.Value, 0, 64)
			return n, err == nil
		}
	case *ast.ParenExpr:
		return durationNS(x.X)
	case *ast.BinaryExpr:
		a, ok1 := durationNS(x.X)
		b, ok2 := durationNS(x.Y)
		if ok1 && ok2 {
			switch x.Op {
			case token.MUL:
				return a * b, true
			case token.ADD:
				return a + b, true
			}
		}
	}
	return 0, false
}

// ---- Coq printing
func cs(s string) string { return "\"" + strings.ReplaceAll(s, "\"", "\"\"") + "\"" }
func clist(l []string) string {
	q := make([]string, len(l))
	for i, s := range l {
		q[i] = cs(s)
	}
	return "[" + strings.Join(q, "; ") + "]"
}
func cbool(b bool) string {
	if b {
		return "true"
	}
	return "false"
}

// skipKeys recognises the guard of an assembly loop body and returns the keys
// for which the loop `continue`s:  if k == "a" || k == "b" { continue }   or
// switch k { case "a", "b": continue }.
var assemblyTarget string // the map the assembly loops fill

func skipKeys(body *ast.BlockStmt, keyVar string) ([]string, bool) {
	var keys []string
	for _, st := range body.List {
		switch x := st.(type) {
		case *ast.IfStmt:
			if x.Init != nil || x.Else != nil || len(x.Body.List) != 1 {
				return nil, false
			}
			if br, ok := x.Body.List[0].(*ast.BranchStmt); !ok || br.Tok != token.CONTINUE {
				return nil, false
			}
			var collect func(e ast.Expr) bool
			collect = func(e ast.Expr) bool {
				switch c := e.(type) {
				case *ast.ParenExpr:
					return collect(c.X)
				case *ast.BinaryExpr:
					if c.Op == token.LOR {
						return collect(c.X) && collect(c.Y)
					}
					if c.Op == token.EQL {
						id, ok := c.X.(*ast.Ident)
						lit := c.Y
						if !ok {
							id, ok = c.Y.(*ast.Ident)
							lit = c.X
						}
						if ok && id.Name == keyVar {
							if s, ok := constString(lit); ok {
								keys = append(keys, s)
								return true
							}
						}
					}
				}
				return false
			}
			if !collect(x.Cond) {
				return nil, false
			}
		case *ast.SwitchStmt:
			id, ok := x.Tag.(*ast.Ident)
			if !ok || id.Name != keyVar || x.Init != nil {
				return nil, false
			}
			for _, c := range x.Body.List {
				cc := c.(*ast.CaseClause)
				if len(cc.Body) != 1 {
					return nil, false
				}
				if br, ok := cc.Body[0].(*ast.BranchStmt); !ok || br.Tok != token.CONTINUE || cc.List == nil {
					return nil, false
				}
				for _, e := range cc.List {
					s, ok := constString(e)
					if !ok {
						return nil, false
					}
					keys = append(keys, s)
				}
			}
		case *ast.AssignStmt:
			// sessDetails[k] = v
			if len(x.Lhs) != 1 || len(x.Rhs) != 1 {
				return nil, false
			}
			ix, ok := x.Lhs[0].(*ast.IndexExpr)
			if !ok {
				return nil, false
			}
			if id, ok := ix.Index.(*ast.Ident); !ok || id.Name != keyVar {
				return nil, false
			}
			tgt, ok := ix.X.(*ast.Ident)
			if !ok || (assemblyTarget != "" && assemblyTarget != tgt.Name) {
				return nil, false
			}
			assemblyTarget = tgt.Name
		default:
			return nil, false
		}
	}
	sort.Strings(keys)
	return keys, true
}

func main() {
	if len(os.Args) != 2 {
		fatal("usage: genc09 <repo>")
	}
	repo := os.Args[1]
	loadWampConsts(filepath.Join(repo, "wamp"))
	routerF := parseFile(filepath.Join(repo, "router", "router.go"))
	realmF := parseFile(filepath.Join(repo, "router", "realm.go"))

	var out strings.Builder
	w := func(f string, a ...any) { fmt.Fprintf(&out, f+"\n", a...) }
	w("(* GENERATED by go/cmd/genc09 from router/router.go, router/realm.go and package wamp. Do not edit. *)")
	w("From Coq Require Import List String ZArith Bool.")
	w("Import ListNotations.")
	w("Open Scope string_scope.")
	w("")

	// ---- helloTimeout
	var helloNS int64 = -1
	for _, d := range routerF.Decls {
		gd, ok := d.(*ast.GenDecl)
		if !ok || gd.Tok != token.CONST {
			continue
		}
		for _, s := range gd.Specs {
			vs := s.(*ast.ValueSpec)
			for i, n := range vs.Names {
				if n.Name == "helloTimeout" && i < len(vs.Values) {
					if v, ok := durationNS(vs.Values[i]); ok {
						helloNS = v
					}
				}
			}
		}
	}
	if helloNS < 0 {
		fatal("const helloTimeout not found or not a recognised duration expression")
	}
	w("Definition gen_hello_timeout_ns : Z := %d.", helloNS)

	// ---- AttachClient
	fd := findFunc(routerF, "router", "AttachClient")
	if fd == nil || fd.Type.Params == nil || len(fd.Type.Params.List) < 2 {
		fatal("router.AttachClient not found")
	}
	clientVar := fd.Type.Params.List[0].Names[0].Name
	transportVar := fd.Type.Params.List[1].Names[0].Name

	// the sendAbort closure
	var abortName string
	var abortLit *ast.FuncLit
	for _, st := range fd.Body.List {
		as, ok := st.(*ast.AssignStmt)
		if !ok || len(as.Lhs) != 1 || len(as.Rhs) != 1 {
			continue
		}
		fl, ok := as.Rhs[0].(*ast.FuncLit)
		if !ok || len(fl.Type.Params.List) == 0 {
			continue
		}
		txt := exprText(fl.Body)
		if strings.Contains(txt, "Abort") {
			abortName = as.Lhs[0].(*ast.Ident).Name
			abortLit = fl
			break
		}
	}
	if abortLit == nil {
		fatal("AttachClient: the ABORT-sending closure was not found")
	}
	// shape: ... client.Send() <- &abortMsg ; client.Close()   (send strictly before close, close last)
	sendIdx, closeIdx := -1, -1
	for i, st := range abortLit.Body.List {
		switch x := st.(type) {
		case *ast.SendStmt:
			if strings.Contains(exprText(x.Chan), clientVar+" Send") {
				sendIdx = i
			}
		case *ast.ExprStmt:
			if strings.HasPrefix(exprText(x.X), clientVar+" Close") {
				closeIdx = i
			}
		}
	}
	abortCloses := sendIdx >= 0 && closeIdx > sendIdx
	w("Definition gen_abort_sends_then_closes : bool := %s.", cbool(abortCloses))
	// message text attached iff the error argument is non-nil
	msgCond := false
	ast.Inspect(abortLit.Body, func(n ast.Node) bool {
		if is, ok := n.(*ast.IfStmt); ok {
			if strings.Contains(exprText(is.Cond), "(!=)") && strings.Contains(exprText(is.Cond), "nil") &&
				strings.Contains(exprText(is.Body), "OptMessage") {
				msgCond = true
			}
		}
		return true
	})
	w("Definition gen_abort_message_iff_error : bool := %s.", cbool(msgCond))

	// walk AttachClient in source order
	type exit struct {
		reason string
		msg    bool
	}
	var exits []exit
	var stages []string
	var roles []string
	rolesFound := false
	type loop struct {
		src  string
		skip []string
	}
	var loops []loop
	sessionKey := ""
	transportKey, transportCond := "", ""
	helloErrCloses := false
	recvUsesHelloTimeout := false
	addStage := func(s string) {
		if len(stages) == 0 || stages[len(stages)-1] != s {
			stages = append(stages, s)
		}
	}
	ast.Inspect(fd.Body, func(n ast.Node) bool {
		if n == abortLit {
			return false
		}
		switch x := n.(type) {
		case *ast.CallExpr:
			ft := exprText(x.Fun)
			switch {
			case ft == abortName:
				if len(x.Args) != 2 {
					fatal("AttachClient: %s called with %d arguments", abortName, len(x.Args))
				}
				r, ok := constString(x.Args[0])
				if !ok {
					fatal("AttachClient: ABORT reason %s is not a constant", exprText(x.Args[0]))
				}
				id, isIdent := x.Args[1].(*ast.Ident)
				exits = append(exits, exit{r, !(isIdent && id.Name == "nil")})
			case ft == "wamp RecvTimeout":
				addStage("recv_hello")
				if len(x.Args) == 2 && exprText(x.Args[1]) == "helloTimeout" && exprText(x.Args[0]) == clientVar {
					recvUsesHelloTimeout = true
				}
			case ft == "wamp NewSession":
				addStage("new_session")
			case ft == "slices ContainsFunc":
				if len(x.Args) == 2 && strings.HasSuffix(exprText(x.Args[1]), "HasRole") {
					if cl, ok := x.Args[0].(*ast.CompositeLit); ok {
						rolesFound = true
						for _, e := range cl.Elts {
							s, ok := constString(e)
							if !ok {
								fatal("AttachClient: role %s is not a constant", exprText(e))
							}
							roles = append(roles, s)
						}
						addStage("roles_check")
					}
				}
			case strings.HasSuffix(ft, "HasRole") && len(x.Args) == 1:
				if s, ok := constString(x.Args[0]); ok {
					rolesFound = true
					roles = append(roles, s)
					addStage("roles_check")
				}
			case strings.HasSuffix(ft, "submit") && len(x.Args) == 1:
				if _, isLit := x.Args[0].(*ast.FuncLit); isLit {
					addStage("realm_lookup")
				}
			case strings.HasSuffix(ft, "authClient"):
				addStage("auth_client")
			case strings.HasSuffix(ft, "handleSession"):
				addStage("handle_session")
			}
		case *ast.SendStmt:
			ct := exprText(x.Chan)
			if strings.HasSuffix(ct, "actionChan") {
				addStage("realm_lookup")
			} else if strings.Contains(ct, clientVar+" Send") && exprText(x.Value) == "welcome" {
				addStage("send_welcome")
			}
		case *ast.IfStmt:
			ct := exprText(x.Cond)
			// if err != nil { client.Close(); return ... } right after RecvTimeout
			if ct == "(!=) err nil" {
				if len(stages) > 0 && stages[len(stages)-1] == "recv_hello" && len(exits) == 0 {
					for _, st := range x.Body.List {
						if es, ok := st.(*ast.ExprStmt); ok && strings.HasPrefix(exprText(es.X), clientVar+" Close") {
							helloErrCloses = true
						}
					}
				}
			}
			// if len(transportDetails) != 0 { hello.Details["transport"] = transportDetails }
			if strings.Contains(ct, "len "+transportVar) && len(x.Body.List) == 1 {
				if as, ok := x.Body.List[0].(*ast.AssignStmt); ok && len(as.Lhs) == 1 {
					if ix, ok := as.Lhs[0].(*ast.IndexExpr); ok && exprText(as.Rhs[0]) == transportVar {
						if s, ok := constString(ix.Index); ok {
							transportKey = s
							switch ct {
							case "(!=) len " + transportVar + " 0", "(>) len " + transportVar + " 0":
								transportCond = "nonempty"
							default:
								transportCond = ct
							}
							addStage("inject_transport")
						}
					}
				}
			}
		case *ast.RangeStmt:
			if cl, ok := x.X.(*ast.CompositeLit); ok && x.Value != nil && strings.Contains(exprText(x.Body), "HasRole "+exprText(x.Value)) {
				for _, e := range cl.Elts {
					s, ok := constString(e)
					if !ok {
						fatal("AttachClient: role %s is not a constant", exprText(e))
					}
					roles = append(roles, s)
				}
				rolesFound = true
				addStage("roles_check")
				return false
			}
			src := exprText(x.X)
			if strings.HasSuffix(src, "Details") {
				kv, ok := x.Key.(*ast.Ident)
				if !ok {
					fatal("AttachClient: assembly loop without key variable")
				}
				skip, ok := skipKeys(x.Body, kv.Name)
				if !ok {
					fatal("AttachClient: body of the loop over %s is not of the recognised form (guard + copy)", src)
				}
				name := strings.Fields(src)[0]
				loops = append(loops, loop{name, skip})
				addStage("assemble")
				return false
			}
		case *ast.AssignStmt:
			if len(x.Lhs) == 1 && len(x.Rhs) == 1 {
				if ix, ok := x.Lhs[0].(*ast.IndexExpr); ok && assemblyTarget != "" && exprText(ix.X) == assemblyTarget {
					if _, isIdent := x.Rhs[0].(*ast.Ident); isIdent {
						if s, ok := constString(ix.Index); ok {
							sessionKey = s
						}
					}
				}
			}
		}
		return true
	})
	if !rolesFound {
		fatal("AttachClient: the client roles check was not recognised")
	}
	sort.Strings(roles)
	if len(loops) == 0 || sessionKey == "" {
		fatal("AttachClient: the session details assembly was not recognised")
	}
	if transportKey == "" {
		fatal("AttachClient: the transport injection was not recognised")
	}
	var ex []string
	for _, e := range exits {
		ex = append(ex, fmt.Sprintf("(%s, %s)", cs(e.reason), cbool(e.msg)))
	}
	w("Definition gen_abort_exits : list (string * bool) := [%s].", strings.Join(ex, "; "))
	w("Definition gen_hello_error_closes_without_abort : bool := %s.", cbool(helloErrCloses))
	w("Definition gen_recv_uses_hello_timeout : bool := %s.", cbool(recvUsesHelloTimeout))
	w("Definition gen_client_roles : list string := %s.", clist(roles))
	w("Definition gen_transport_key : string := %s.", cs(transportKey))
	w("Definition gen_transport_condition : string := %s.", cs(transportCond))
	var ls []string
	for _, l := range loops {
		ls = append(ls, fmt.Sprintf("(%s, %s)", cs(l.src), clist(l.skip)))
	}
	w("Definition gen_assembly : list (string * list string) := [%s].", strings.Join(ls, "; "))
	w("Definition gen_session_key : string := %s.", cs(sessionKey))
	w("Definition gen_stages : list string := %s.", clist(stages))

	// ---- handleSession: realm-closed check, onJoin, (WELCOME), handler start
	hs := findFunc(realmF, "realm", "handleSession")
	if hs == nil {
		fatal("realm.handleSession not found")
	}
	var hsSteps []string
	for _, st := range hs.Body.List {
		switch x := st.(type) {
		case *ast.IfStmt:
			if strings.HasSuffix(exprText(x.Cond), "closed") && len(x.Body.List) > 0 {
				if ret, ok := x.Body.List[len(x.Body.List)-1].(*ast.ReturnStmt); ok && len(ret.Results) == 1 {
					hsSteps = append(hsSteps, "closed_check_returns_error")
				}
			}
		case *ast.ExprStmt:
			if strings.HasSuffix(exprText(x.X), "onJoin sess") || strings.Contains(exprText(x.X), "onJoin") {
				hsSteps = append(hsSteps, "on_join")
			}
		case *ast.SendStmt:
			if strings.HasSuffix(exprText(x.Chan), "Send") && exprText(x.Value) == "welcome" {
				hsSteps = append(hsSteps, "send_welcome")
			}
		case *ast.GoStmt:
			if strings.Contains(exprText(x.Call), "handleInboundMessages") {
				hsSteps = append(hsSteps, "start_handler")
			}
		}
	}
	w("Definition gen_handle_session_steps : list string := %s.", clist(hsSteps))

	// ---- authClient
	ac := findFunc(realmF, "realm", "authClient")
	if ac == nil {
		fatal("realm.authClient not found")
	}
	shortcut := ""
	var localLits [][2]string
	var localVars []string
	defaultMethod := ""
	var postKeys []string
	for _, st := range ac.Body.List {
		is, ok := st.(*ast.IfStmt)
		if !ok || !strings.Contains(exprText(is.Cond), "IsLocal") {
			continue
		}
		shortcut = exprText(is.Cond)
		ast.Inspect(is.Body, func(n ast.Node) bool {
			cl, ok := n.(*ast.CompositeLit)
			if !ok || exprText(cl.Type) != "wamp Dict" || len(localLits)+len(localVars) > 0 {
				return true
			}
			for _, e := range cl.Elts {
				kv := e.(*ast.KeyValueExpr)
				k, ok := constString(kv.Key)
				if !ok {
					fatal("authClient: non-constant key in the local welcome literal")
				}
				if s, ok := constString(kv.Value); ok {
					localLits = append(localLits, [2]string{k, s})
				} else {
					localVars = append(localVars, k)
				}
			}
			return false
		})
		break
	}
	if shortcut == "" || len(localLits) == 0 {
		fatal("authClient: the local-peer branch was not recognised")
	}
	ast.Inspect(ac.Body, func(n ast.Node) bool {
		switch x := n.(type) {
		case *ast.CallExpr:
			if exprText(x.Fun) == "append" && len(x.Args) == 2 && exprText(x.Args[0]) == "_authmethods" {
				if s, ok := constString(x.Args[1]); ok {
					defaultMethod = s
				}
			}
		case *ast.AssignStmt:
			if len(x.Lhs) == 1 {
				if ix, ok := x.Lhs[0].(*ast.IndexExpr); ok && exprText(ix.X) == "welcome Details" {
					if s, ok := constString(ix.Index); ok {
						postKeys = append(postKeys, s)
					}
				}
			}
		}
		return true
	})
	switch shortcut {
	case "(&&) client IsLocal ! r localAuth", "(&&) ! r localAuth client IsLocal":
		shortcut = "local && !require_local_auth"
	}
	sort.Slice(localLits, func(i, j int) bool { return localLits[i][0] < localLits[j][0] })
	sort.Strings(localVars)
	sort.Strings(postKeys)
	var ll []string
	for _, kv := range localLits {
		ll = append(ll, fmt.Sprintf("(%s, %s)", cs(kv[0]), cs(kv[1])))
	}
	w("Definition gen_local_shortcut_condition : string := %s.", cs(shortcut))
	w("Definition gen_local_welcome_literal : list (string * string) := [%s].", strings.Join(ll, "; "))
	w("Definition gen_local_welcome_computed : list string := %s.", clist(localVars))
	w("Definition gen_default_authmethod : string := %s.", cs(defaultMethod))
	w("Definition gen_router_set_welcome_keys : list string := %s.", clist(postKeys))

	// ---- the authenticators: every rejection point of Authenticate, in
	// source order, with the variables named by their role
	authDir := filepath.Join(repo, "router", "auth")
	for _, a := range []struct{ name, file, recv string }{
		{"ticket", "ticket.go", "TicketAuthenticator"},
		{"cra", "crauth.go", "CRAuthenticator"},
		{"cryptosign", "cryptosign.go", "CryptoSignAuthenticator"},
	} {
		f := parseFile(filepath.Join(authDir, a.file))
		fd := findFunc(f, a.recv, "Authenticate")
		if fd == nil {
			fatal("%s.Authenticate not found", a.recv)
		}
		roles := roleNames(fd.Body)
		w("Definition gen_%s_rejections : list string := %s.", a.name, clist(rejections(fd.Body, roles)))
		w("Definition gen_%s_challenge_extra : list string := %s.", a.name, clist(challengeExtra(fd.Body, roles)))
		if a.name == "cra" {
			mk := findFunc(f, a.recv, "makeChallengeStr")
			if mk == nil {
				fatal("makeChallengeStr not found")
			}
			format, args := sprintfCall(mk)
			w("Definition gen_cra_challenge_format : string := %s.", cs(format))
			w("Definition gen_cra_challenge_args : list string := %s.", clist(args))
		}
		if a.name == "cryptosign" {
			vs := findFunc(f, a.recv, "verifySignature")
			if vs == nil {
				fatal("verifySignature not found")
			}
			var params []string
			for _, p := range vs.Type.Params.List {
				for _, n := range p.Names {
					params = append(params, n.Name)
				}
			}
			vr := map[string]string{}
			for i, n := range params {
				vr[n] = fmt.Sprintf("ARG%d", i)
			}
			for k, v := range roleNames(vs.Body) {
				vr[k] = v
			}
			var callArgs []string
			ast.Inspect(fd.Body, func(n ast.Node) bool {
				if c, ok := n.(*ast.CallExpr); ok && strings.HasSuffix(exprText(c.Fun), "verifySignature") {
					for _, a := range c.Args {
						callArgs = append(callArgs, roleText(a, roles))
					}
				}
				return true
			})
			w("Definition gen_cryptosign_verify_call : list string := %s.", clist(callArgs))
			w("Definition gen_cryptosign_verify_arity : nat := %d.", len(params))
			w("Definition gen_cryptosign_verify_steps : list string := %s.", clist(returnsOf(vs.Body, vr)))
		}
	}
	fmt.Print(out.String())
}

// roleNames names local variables by what they hold.
func roleNames(body *ast.BlockStmt) map[string]string {
	r := map[string]string{}
	ast.Inspect(body, func(n ast.Node) bool {
		as, ok := n.(*ast.AssignStmt)
		if !ok || len(as.Rhs) != 1 || len(as.Lhs) == 0 {
			return true
		}
		id, ok := as.Lhs[0].(*ast.Ident)
		if !ok || id.Name == "_" {
			return true
		}
		set := func(role string) {
			if _, dup := r[id.Name]; !dup {
				r[id.Name] = role
			}
		}
		switch x := as.Rhs[0].(type) {
		case *ast.CallExpr:
			ft := exprText(x.Fun)
			switch {
			case strings.HasSuffix(ft, "keyStore AuthKey"):
				set("KEY")
			case strings.HasSuffix(ft, "keyStore AuthRole"):
				set("ROLE")
			case strings.HasSuffix(ft, "makeChallengeStr"), strings.HasSuffix(ft, "computeChallenge"):
				set("CHAL")
			case strings.HasSuffix(ft, "verifySignature"):
				set("VERIFIED")
			case ft == "wamp RecvTimeout":
				set("MSG")
			case ft == "wamp AsString":
				set("AUTHID")
			case ft == "hex DecodeString":
				set("DECODED")
			case ft == "sign Open":
				set("OPENED")
				if len(as.Lhs) == 2 {
					if id2, ok := as.Lhs[1].(*ast.Ident); ok && id2.Name != "_" {
						r[id2.Name] = "OPENOK"
					}
				}
			}
		case *ast.TypeAssertExpr:
			if strings.HasSuffix(exprText(x.Type), "wamp Authenticate") {
				set("AUTH")
				if len(as.Lhs) == 2 {
					if id2, ok := as.Lhs[1].(*ast.Ident); ok {
						r[id2.Name+"@auth"] = "ISAUTH"
					}
				}
			}
		}
		return true
	})
	return r
}

func roleText(e ast.Node, roles map[string]string) string {
	var sb strings.Builder
	ast.Inspect(e, func(n ast.Node) bool {
		switch x := n.(type) {
		case *ast.Ident:
			if r, ok := roles[x.Name]; ok {
				sb.WriteString(r + " ")
			} else {
				sb.WriteString(x.Name + " ")
			}
		case *ast.BasicLit:
			sb.WriteString(x.Value + " ")
		case *ast.UnaryExpr:
			sb.WriteString(x.Op.String() + " ")
		case *ast.BinaryExpr:
			sb.WriteString("(" + x.Op.String() + ") ")
		}
		return true
	})
	return strings.TrimSpace(sb.String())
}

// rejections lists the conditions of every `if c { ... return nil, err }` at
// the top level of Authenticate (the points where the client is refused).
func rejections(body *ast.BlockStmt, roles map[string]string) []string {
	var out []string
	for _, st := range body.List {
		is, ok := st.(*ast.IfStmt)
		if !ok || len(is.Body.List) == 0 {
			continue
		}
		ret, ok := is.Body.List[len(is.Body.List)-1].(*ast.ReturnStmt)
		if !ok || len(ret.Results) != 2 {
			continue
		}
		if id, ok := ret.Results[0].(*ast.Ident); !ok || id.Name != "nil" {
			continue
		}
		out = append(out, roleText(is.Cond, roles))
	}
	return out
}

// challengeExtra: the entries of the dict sent as CHALLENGE.Extra that are set
// unconditionally, as "key=value".
func challengeExtra(body *ast.BlockStmt, roles map[string]string) []string {
	var out []string
	ast.Inspect(body, func(n ast.Node) bool {
		as, ok := n.(*ast.AssignStmt)
		if !ok || len(as.Lhs) != 1 || len(as.Rhs) != 1 {
			return true
		}
		id, ok := as.Lhs[0].(*ast.Ident)
		if !ok || id.Name != "extra" {
			return true
		}
		if cl, ok := as.Rhs[0].(*ast.CompositeLit); ok {
			for _, e := range cl.Elts {
				kv := e.(*ast.KeyValueExpr)
				k, _ := constString(kv.Key)
				out = append(out, k+"="+roleText(kv.Value, roles))
			}
		}
		return true
	})
	ast.Inspect(body, func(n ast.Node) bool {
		cl, ok := n.(*ast.CompositeLit)
		if !ok || !strings.HasSuffix(exprText(cl.Type), "wamp Challenge") {
			return true
		}
		for _, e := range cl.Elts {
			kv := e.(*ast.KeyValueExpr)
			if exprText(kv.Key) == "Extra" {
				out = append(out, "Extra="+roleText(kv.Value, roles))
			}
		}
		return true
	})
	return out
}

func sprintfCall(fd *ast.FuncDecl) (string, []string) {
	format, ok2 := "", false
	var args []string
	ast.Inspect(fd.Body, func(n ast.Node) bool {
		c, ok := n.(*ast.CallExpr)
		if !ok || exprText(c.Fun) != "fmt Sprintf" || len(c.Args) < 1 {
			return true
		}
		var fold func(e ast.Expr) (string, bool)
		fold = func(e ast.Expr) (string, bool) {
			switch x := e.(type) {
			case *ast.BasicLit:
				s, err := strconv.Unquote(x.Value)
				return s, err == nil
			case *ast.BinaryExpr:
				a, ok1 := fold(x.X)
				b, ok2 := fold(x.Y)
				return a + b, ok1 && ok2 && x.Op == token.ADD
			case *ast.ParenExpr:
				return fold(x.X)
			}
			return "", false
		}
		format, ok2 = fold(c.Args[0])
		for _, a := range c.Args[1:] {
			args = append(args, exprText(a))
		}
		return false
	})
	if !ok2 {
		fatal("makeChallengeStr: the Sprintf format is not a constant")
	}
	return format, args
}

// returnsOf lists, in source order, the guarded returns of verifySignature as
// "cond => result" (cond "" for the final return).
func returnsOf(body *ast.BlockStmt, roles map[string]string) []string {
	var out []string
	for _, st := range body.List {
		switch x := st.(type) {
		case *ast.IfStmt:
			if len(x.Body.List) == 0 {
				continue
			}
			if ret, ok := x.Body.List[len(x.Body.List)-1].(*ast.ReturnStmt); ok && len(ret.Results) > 0 {
				out = append(out, roleText(x.Cond, roles)+" => "+roleText(ret.Results[0], roles))
			}
		case *ast.ReturnStmt:
			if len(x.Results) > 0 {
				out = append(out, "=> "+roleText(x.Results[0], roles))
			}
		case *ast.AssignStmt:
			if len(x.Rhs) == 1 {
				if c, ok := x.Rhs[0].(*ast.CallExpr); ok {
					ft := exprText(c.Fun)
					if ft == "sign Open" || ft == "hex DecodeString" {
						var as []string
						for _, a := range c.Args {
							as = append(as, roleText(a, roles))
						}
						out = append(out, ft+"("+strings.Join(as, ", ")+")")
					}
				}
			}
		}
	}
	return out
}
