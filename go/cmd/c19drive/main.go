// c19drive — runs the REAL nexus functions of property C19 on generated or
// given inputs and prints one line per case holding the inputs and what the
// implementation returned (format: see ocaml/c19/driver.ml).
//
//	c19drive sweep -maxlen 4 -pairlen 3 -rand 2000 -seed 1 -shards 16 -out <prefix>
//	    exhaustive strings over the 10-symbol alphabet x 6 modes, exhaustive
//	    pattern pairs, random long strings, boundary ids, AsID kinds, GlobalID
//	    samples; writes <prefix>.<k> and a JSON summary on stdout
//	c19drive replay < cases
//	    each input line may omit the result fields; they are recomputed
//
// IDGen.next and Session.lastRecvID are unexported: they are set through
// reflect+unsafe after checking the field's name, type and offset, so that
// the wrap at 2^53 and arbitrary last ids can be exercised (2^53 calls of
// Next are not an option).  Whenever the state is reachable through the API
// (1 <= last <= MaxID) the API path (UpdateLastRecvID on a fresh session) is
// used as well and both must agree.
package main

import (
	"bufio"
	"encoding/hex"
	"encoding/json"
	"flag"
	"fmt"
	"math"
	"os"
	"reflect"
	"strconv"
	"strings"
	"unsafe"

	"github.com/gammazero/nexus/v3/wamp"
)

// ---------------------------------------------------------------------------
// deterministic PRNG (splitmix64), all randomness from -seed

type rng struct{ s uint64 }

func (r *rng) next() uint64 {
	r.s += 0x9e3779b97f4a7c15
	z := r.s
	z = (z ^ (z >> 30)) * 0xbf58476d1ce4e5b9
	z = (z ^ (z >> 27)) * 0x94d049bb133111eb
	return z ^ (z >> 31)
}
func (r *rng) intn(n int) int { return int(r.next() % uint64(n)) }

// ---------------------------------------------------------------------------
// access to unexported state

var nextOff, lastOff uintptr

func initOffsets() error {
	t := reflect.TypeOf(wamp.IDGen{})
	if t.NumField() != 1 || t.Field(0).Name != "next" || t.Field(0).Type.Kind() != reflect.Uint64 || t.Field(0).Offset != 0 {
		return fmt.Errorf("wamp.IDGen is no longer struct{next uint64}: cannot set its state")
	}
	f, ok := reflect.TypeOf(wamp.Session{}).FieldByName("lastRecvID")
	if !ok || f.Type.Kind() != reflect.Uint64 {
		return fmt.Errorf("wamp.Session.lastRecvID (uint64 kind) not found: cannot set its state")
	}
	lastOff = f.Offset
	return nil
}

func setNext(g *wamp.IDGen, v uint64) { *(*uint64)(unsafe.Pointer(g)) = v }
func getNext(g *wamp.IDGen) uint64    { return *(*uint64)(unsafe.Pointer(g)) }
func setLast(s *wamp.Session, v uint64) {
	*(*uint64)(unsafe.Add(unsafe.Pointer(s), lastOff)) = v
}
func getLast(s *wamp.Session) uint64 {
	return *(*uint64)(unsafe.Add(unsafe.Pointer(s), lastOff))
}

// ---------------------------------------------------------------------------
// running one case

func hx(s string) string {
	if s == "" {
		return "-"
	}
	return hex.EncodeToString([]byte(s))
}

func unhx(s string) (string, error) {
	if s == "-" {
		return "", nil
	}
	b, err := hex.DecodeString(s)
	return string(b), err
}

func b01(b bool) string {
	if b {
		return "1"
	}
	return "0"
}

func matchString(p string) (string, error) {
	switch p {
	case "e":
		return wamp.MatchExact, nil
	case "p":
		return wamp.MatchPrefix, nil
	case "w":
		return wamp.MatchWildcard, nil
	case "o":
		return "", nil // any other string: treated as exact by the code
	}
	return "", fmt.Errorf("bad policy %q", p)
}

func guard(f func() string) (res string) {
	defer func() {
		if r := recover(); r != nil {
			res = "X"
		}
	}()
	return f()
}

func u(s string) (uint64, error) { return strconv.ParseUint(s, 16, 64) }

// runCase takes the input fields of a line and returns the complete line.
func runCase(f []string) (string, error) {
	need := func(n int) error {
		if len(f) < n {
			return fmt.Errorf("short line %q", strings.Join(f, " "))
		}
		return nil
	}
	switch f[0] {
	case "V":
		if err := need(4); err != nil {
			return "", err
		}
		m, err := matchString(f[2])
		if err != nil {
			return "", err
		}
		s, err := unhx(f[3])
		if err != nil {
			return "", err
		}
		r := guard(func() string { return b01(wamp.URI(s).ValidURI(f[1] == "1", m)) })
		return strings.Join([]string{"V", f[1], f[2], f[3], r}, " "), nil
	case "P", "W":
		if err := need(3); err != nil {
			return "", err
		}
		a, err := unhx(f[1])
		if err != nil {
			return "", err
		}
		b, err := unhx(f[2])
		if err != nil {
			return "", err
		}
		r := guard(func() string {
			if f[0] == "P" {
				return b01(wamp.URI(a).PrefixMatch(wamp.URI(b)))
			}
			return b01(wamp.URI(a).WildcardMatch(wamp.URI(b)))
		})
		return strings.Join([]string{f[0], f[1], f[2], r}, " "), nil
	case "N", "S":
		if err := need(3); err != nil {
			return "", err
		}
		st, err := u(f[1])
		if err != nil {
			return "", err
		}
		k, err := strconv.Atoi(f[2])
		if err != nil || k < 0 || k > 64 {
			return "", fmt.Errorf("bad count %q", f[2])
		}
		out := []string{f[0], f[1], f[2]}
		if f[0] == "N" {
			var g wamp.IDGen
			if st != 0 {
				setNext(&g, st)
			}
			for i := 0; i < k; i++ {
				id := g.Next()
				if getNext(&g) != uint64(id) {
					return "", fmt.Errorf("IDGen.Next: returned id and stored state differ")
				}
				out = append(out, strconv.FormatUint(uint64(id), 16))
			}
		} else {
			var g wamp.SyncIDGen
			if st != 0 {
				setNext(&g.IDGen, st)
			}
			for i := 0; i < k; i++ {
				out = append(out, strconv.FormatUint(uint64(g.Next()), 16))
			}
		}
		return strings.Join(out, " "), nil
	case "I", "U":
		if err := need(3); err != nil {
			return "", err
		}
		last, err := u(f[1])
		if err != nil {
			return "", err
		}
		id, err := u(f[2])
		if err != nil {
			return "", err
		}
		const maxID = uint64(1) << 53
		run := func(s *wamp.Session) string {
			if f[0] == "I" {
				return strings.Join([]string{"I", f[1], f[2], b01(s.IsNewRecvID(wamp.ID(id)))}, " ")
			}
			r := s.UpdateLastRecvID(wamp.ID(id))
			return strings.Join([]string{"U", f[1], f[2], strconv.FormatUint(getLast(s), 16), b01(r)}, " ")
		}
		s := &wamp.Session{}
		if last != 0 {
			setLast(s, last)
		}
		line := run(s)
		if last >= 1 && last <= maxID {
			// the same state reached through the API only
			s2 := &wamp.Session{}
			if !s2.UpdateLastRecvID(wamp.ID(last)) || getLast(s2) != last || run(s2) != line {
				line = strings.Join([]string{f[0], f[1], f[2], "X"}, " ")
			}
		}
		return line, nil
	case "A":
		if err := need(3); err != nil {
			return "", err
		}
		var v any
		switch f[1] {
		case "int64", "int", "int32":
			z, err := strconv.ParseInt(f[2], 16, 64)
			if err != nil {
				return "", err
			}
			switch f[1] {
			case "int64":
				v = z
			case "int":
				v = int(z)
			default:
				if z < math.MinInt32 || z > math.MaxInt32 {
					return "", fmt.Errorf("int32 payload out of range")
				}
				v = int32(z)
			}
		case "other":
			v = "12"
		default:
			n, err := u(f[2])
			if err != nil {
				return "", err
			}
			switch f[1] {
			case "id":
				v = wamp.ID(n)
			case "uint64":
				v = n
			case "uint":
				v = uint(n)
			case "uint32":
				if n > math.MaxUint32 {
					return "", fmt.Errorf("uint32 payload out of range")
				}
				v = uint32(n)
			case "float64":
				v = math.Float64frombits(n)
			case "float32":
				if n > math.MaxUint32 {
					return "", fmt.Errorf("float32 payload out of range")
				}
				v = math.Float32frombits(uint32(n))
			default:
				return "", fmt.Errorf("bad kind %q", f[1])
			}
		}
		id, ok := wamp.AsID(v)
		return strings.Join([]string{"A", f[1], f[2], strconv.FormatUint(uint64(id), 16), b01(ok)}, " "), nil
	case "G":
		id := uint64(wamp.GlobalID())
		var m1 string
		if id == 0 {
			m1 = "-1"
		} else {
			m1 = strconv.FormatUint(id-1, 16)
		}
		return "G " + strconv.FormatUint(id, 16) + " " + m1, nil
	}
	return "", fmt.Errorf("bad line kind %q", f[0])
}

// ---------------------------------------------------------------------------
// generation

var alphabet = []string{"a", "Z", "_", "0", ".", "#", " ", "\t", "é", "\xff"}

type sink struct {
	files  []*bufio.Writer
	n      int
	stats  map[string]int
	nontr  map[string]int
	sample map[string][]string
	seen   map[string]bool // dedupe for the non-exhaustive parts
}

func (s *sink) emit(fields []string, dedupe bool) error {
	line, err := runCase(fields)
	if err != nil {
		return err
	}
	if dedupe {
		key := strings.Join(fields, " ")
		if s.seen[key] {
			return nil
		}
		s.seen[key] = true
	}
	k := fields[0]
	s.stats[k]++
	if nontrivial(strings.Fields(line)) {
		s.nontr[k]++
	}
	if len(s.sample[k]) < 4 || (s.n%9973 == 0 && len(s.sample[k]) < 12) {
		s.sample[k] = append(s.sample[k], line)
	}
	w := s.files[s.n%len(s.files)]
	s.n++
	_, err = w.WriteString(line + "\n")
	return err
}

// nontrivial: the case exercises the decisive part of its rule.
//
//	V: the string has at least two components (contains '.') or is accepted
//	P: the prefix is non-empty;  W: the pattern has at least two components
//	N/S: always;  I/U: last != 0 and 1 <= id <= 2^53 (window logic reached)
//	A: an accepted kind whose value is non-zero;  G: always
func nontrivial(f []string) bool {
	switch f[0] {
	case "V":
		s, _ := unhx(f[3])
		return strings.Contains(s, ".") || f[4] == "1"
	case "P":
		return f[2] != "-"
	case "W":
		s, _ := unhx(f[2])
		return strings.Contains(s, ".")
	case "I", "U":
		last, _ := u(f[1])
		id, _ := u(f[2])
		return last != 0 && id >= 1 && id <= 1<<53
	case "A":
		return f[1] != "other" && f[2] != "0"
	}
	return true
}

func allStrings(maxlen int, alpha []string, f func(string) error) error {
	var rec func(prefix string, n int) error
	rec = func(prefix string, n int) error {
		if err := f(prefix); err != nil {
			return err
		}
		if n == maxlen {
			return nil
		}
		for _, a := range alpha {
			if err := rec(prefix+a, n+1); err != nil {
				return err
			}
		}
		return nil
	}
	return rec("", 0)
}

var extraBoundaries []uint64

func boundaryIDs() []uint64 {
	base := []uint64{0, 1, 500, 1<<53 - 500, 1 << 53, 1<<53 + 1, 1 << 63, math.MaxUint64}
	base = append(base, extraBoundaries...)
	seen := map[uint64]bool{}
	var out []uint64
	for _, b := range base {
		for d := -3; d <= 3; d++ {
			v := b + uint64(int64(d)) // wraps, on purpose
			if !seen[v] {
				seen[v] = true
				out = append(out, v)
			}
		}
	}
	return out
}

func h(v uint64) string { return strconv.FormatUint(v, 16) }

func sweep(maxlen, pairlen, nrand int, seed uint64, shards int, prefix string) error {
	s := &sink{stats: map[string]int{}, nontr: map[string]int{}, sample: map[string][]string{}, seen: map[string]bool{}}
	var closers []*os.File
	for i := 0; i < shards; i++ {
		f, err := os.Create(fmt.Sprintf("%s.%d", prefix, i))
		if err != nil {
			return err
		}
		closers = append(closers, f)
		s.files = append(s.files, bufio.NewWriterSize(f, 1<<20))
	}
	r := &rng{s: seed}
	modes := [][2]string{{"0", "e"}, {"0", "p"}, {"0", "w"}, {"1", "e"}, {"1", "p"}, {"1", "w"}}
	// 1. exhaustive strings x 6 modes
	nstr := 0
	if err := allStrings(maxlen, alphabet, func(str string) error {
		nstr++
		for _, m := range modes {
			if err := s.emit([]string{"V", m[0], m[1], hx(str)}, false); err != nil {
				return err
			}
		}
		return nil
	}); err != nil {
		return err
	}
	// 2. exhaustive pattern pairs over a 3-symbol alphabet
	pairAlpha := []string{"a", "b", "."}
	var small []string
	_ = allStrings(pairlen, pairAlpha, func(str string) error { small = append(small, str); return nil })
	for _, a := range small {
		for _, b := range small {
			if err := s.emit([]string{"P", hx(a), hx(b)}, false); err != nil {
				return err
			}
			if err := s.emit([]string{"W", hx(a), hx(b)}, false); err != nil {
				return err
			}
		}
	}
	// 3. random long strings (URI-like with noise), all modes incl. "other" match strings
	pieces := []string{"a", "z", "0", "9", "_", "com", "example", "topic1", "A", "Z", "-", "~", "é", "世", "\xff", "\xc3", "\x0b", "\u0085", " ", " ", "\t", "\n", "\f", "\r", "#"}
	randStr := func() string {
		var b strings.Builder
		n := 1 + r.intn(40)
		noise := r.intn(4) == 0
		for i := 0; i < n; i++ {
			switch {
			case r.intn(5) == 0:
				b.WriteString(".")
			case noise && r.intn(6) == 0:
				b.WriteString(pieces[9+r.intn(len(pieces)-9)])
			default:
				b.WriteString(pieces[r.intn(9)])
			}
		}
		return b.String()
	}
	for i := 0; i < nrand; i++ {
		str := randStr()
		for _, m := range append(modes, [2]string{"0", "o"}, [2]string{"1", "o"}) {
			if err := s.emit([]string{"V", m[0], m[1], hx(str)}, true); err != nil {
				return err
			}
		}
		// pattern derived from the string: blank some components / cut a prefix
		comps := strings.Split(str, ".")
		wc := make([]string, len(comps))
		copy(wc, comps)
		for j := range wc {
			if r.intn(3) == 0 {
				wc[j] = ""
			}
		}
		if r.intn(4) == 0 && len(wc) > 0 {
			wc[r.intn(len(wc))] = "x"
		}
		if r.intn(6) == 0 {
			wc = append(wc, "")
		}
		if err := s.emit([]string{"W", hx(str), hx(strings.Join(wc, "."))}, true); err != nil {
			return err
		}
		cut := r.intn(len(str) + 1)
		pre := str[:cut]
		if r.intn(4) == 0 {
			pre += "q"
		}
		if err := s.emit([]string{"P", hx(str), hx(pre)}, true); err != nil {
			return err
		}
	}
	// 4. ids: boundaries, window edges, random
	bs := boundaryIDs()
	for _, st := range bs {
		if err := s.emit([]string{"N", h(st), "3"}, true); err != nil {
			return err
		}
		if err := s.emit([]string{"S", h(st), "3"}, true); err != nil {
			return err
		}
	}
	if err := s.emit([]string{"N", "0", "40"}, true); err != nil {
		return err
	}
	var pairs [][2]uint64
	for _, a := range bs {
		for _, b := range bs {
			pairs = append(pairs, [2]uint64{a, b})
		}
	}
	const maxID = uint64(1) << 53
	for _, last := range bs {
		if last >= 1 && last <= maxID {
			for d := -3; d <= 3; d++ {
				id := uint64(int64(500) - int64(maxID-last) + int64(d))
				pairs = append(pairs, [2]uint64{last, id})
			}
		}
	}
	for i := 0; i < nrand; i++ {
		last := r.next() % (maxID + 1000)
		var id uint64
		switch r.intn(4) {
		case 0:
			id = r.next()
		case 1:
			id = r.next() % (maxID + 1000)
		case 2:
			id = last + uint64(int64(r.intn(7))-3)
		default:
			id = uint64(int64(500) - int64(maxID-last) + int64(r.intn(1200)) - 600)
		}
		pairs = append(pairs, [2]uint64{last, id})
		if i%8 == 0 {
			pairs = append(pairs, [2]uint64{r.next(), r.next() % (maxID + 2)})
		}
	}
	for _, p := range pairs {
		if err := s.emit([]string{"I", h(p[0]), h(p[1])}, true); err != nil {
			return err
		}
		if err := s.emit([]string{"U", h(p[0]), h(p[1])}, true); err != nil {
			return err
		}
	}
	// 5. AsID over every kind
	var f64s, f32s []uint64
	for _, b := range bs {
		x := math.Float64bits(float64(b))
		f64s = append(f64s, x, x+1, x-1, x|1<<63)
		y := uint64(math.Float32bits(float32(b)))
		f32s = append(f32s, y, y+1, y-1, y|1<<31)
	}
	for _, x := range []float64{0, math.Copysign(0, -1), 0.5, 0.9999999999999999, 1, 1.5, -1, 2, 9007199254740992, 9007199254740994, 9007199254740991,
		9.223372036854775807e18, -9.223372036854775808e18, 1e300, -1e300, math.Inf(1), math.Inf(-1), math.NaN(), math.SmallestNonzeroFloat64, math.MaxFloat64, 4503599627370496.5, 123456789.75} {
		f64s = append(f64s, math.Float64bits(x))
		f32s = append(f32s, uint64(math.Float32bits(float32(x))))
	}
	for i := 0; i < nrand/4+16; i++ {
		f64s = append(f64s, r.next())
		f32s = append(f32s, r.next()&0xffffffff)
		// random doubles of moderate magnitude
		f64s = append(f64s, (uint64(1023+r.intn(70))<<52)|(r.next()&(1<<52-1)))
		f32s = append(f32s, (uint64(127+r.intn(70))<<23)|(r.next()&(1<<23-1)))
	}
	for _, b := range bs {
		for _, k := range []string{"id", "uint64", "uint"} {
			if err := s.emit([]string{"A", k, h(b)}, true); err != nil {
				return err
			}
		}
		for _, k := range []string{"int64", "int"} {
			if err := s.emit([]string{"A", k, strconv.FormatInt(int64(b), 16)}, true); err != nil {
				return err
			}
		}
		if err := s.emit([]string{"A", "uint32", h(b & 0xffffffff)}, true); err != nil {
			return err
		}
		if err := s.emit([]string{"A", "int32", strconv.FormatInt(int64(int32(b&0xffffffff)), 16)}, true); err != nil {
			return err
		}
	}
	for _, b := range []uint64{1 << 31, 1<<31 - 1, 1<<32 - 1, 1<<31 + 1} {
		if err := s.emit([]string{"A", "uint32", h(b)}, true); err != nil {
			return err
		}
		if err := s.emit([]string{"A", "int32", strconv.FormatInt(int64(int32(b)), 16)}, true); err != nil {
			return err
		}
	}
	for _, x := range f64s {
		if err := s.emit([]string{"A", "float64", h(x)}, true); err != nil {
			return err
		}
	}
	for _, x := range f32s {
		if err := s.emit([]string{"A", "float32", h(x & 0xffffffff)}, true); err != nil {
			return err
		}
	}
	if err := s.emit([]string{"A", "other", "0"}, true); err != nil {
		return err
	}
	// 6. GlobalID samples
	for i := 0; i < nrand; i++ {
		if err := s.emit([]string{"G"}, false); err != nil {
			return err
		}
	}
	for i, w := range s.files {
		if err := w.Flush(); err != nil {
			return err
		}
		closers[i].Close()
	}
	nexh := 1
	for i, p := 0, 1; i < maxlen; i++ {
		p *= len(alphabet)
		nexh += p
	}
	sum := map[string]any{
		"lines": s.n, "by_kind": s.stats, "nontrivial_by_kind": s.nontr, "samples": s.sample,
		"exhaustive_strings": nstr, "exhaustive_strings_expected": nexh, "alphabet": alphabetNames(),
		"maxlen": maxlen, "pairlen": pairlen, "pair_strings": len(small), "rand": nrand, "seed": seed, "shards": shards,
	}
	b, _ := json.Marshal(sum)
	fmt.Println(string(b))
	return nil
}

func alphabetNames() []string {
	var out []string
	for _, a := range alphabet {
		out = append(out, hx(a))
	}
	return out
}

func replay() error {
	sc := bufio.NewScanner(os.Stdin)
	sc.Buffer(make([]byte, 1<<20), 1<<26)
	w := bufio.NewWriter(os.Stdout)
	defer w.Flush()
	for sc.Scan() {
		line := strings.TrimSpace(sc.Text())
		if line == "" || line[0] == '#' {
			continue
		}
		out, err := runCase(strings.Fields(line))
		if err != nil {
			return err
		}
		fmt.Fprintln(w, out)
	}
	return sc.Err()
}

func main() {
	if len(os.Args) < 2 {
		fmt.Fprintln(os.Stderr, "usage: c19drive sweep|replay ...")
		os.Exit(2)
	}
	if err := initOffsets(); err != nil {
		fmt.Fprintln(os.Stderr, "c19drive:", err)
		os.Exit(3)
	}
	var err error
	switch os.Args[1] {
	case "sweep":
		fs := flag.NewFlagSet("sweep", flag.ExitOnError)
		maxlen := fs.Int("maxlen", 4, "")
		pairlen := fs.Int("pairlen", 3, "")
		nrand := fs.Int("rand", 2000, "")
		seed := fs.Uint64("seed", 1, "")
		shards := fs.Int("shards", 16, "")
		out := fs.String("out", "", "")
		extra := fs.String("extra", "", "comma separated hex values added to the boundary ids")
		fs.Parse(os.Args[2:])
		for _, x := range strings.Split(*extra, ",") {
			if x == "" {
				continue
			}
			v, perr := strconv.ParseUint(x, 16, 64)
			if perr != nil {
				fmt.Fprintln(os.Stderr, "c19drive: bad -extra value", x)
				os.Exit(2)
			}
			extraBoundaries = append(extraBoundaries, v)
		}
		err = sweep(*maxlen, *pairlen, *nrand, *seed, *shards, *out)
	case "replay":
		err = replay()
	default:
		err = fmt.Errorf("unknown mode %s", os.Args[1])
	}
	if err != nil {
		fmt.Fprintln(os.Stderr, "c19drive:", err)
		os.Exit(3)
	}
}
