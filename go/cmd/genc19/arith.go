package main

// Statement-by-statement translation of the small integer functions of
// wamp/idgen.go, session.go and convert.go into Gallina.
//
// Types: Go uint64 / wamp.ID  -> N  (invariant: below 2^64)
//        Go int64 / int       -> Z  (invariant: within int64)
//        bool                 -> bool
// uint64 "+" and "-" become u64_add / u64_sub (coq/Wamp/Ids.v: reduction
// modulo 2^64 written out).  Receiver fields that a method reads or writes
// become parameters; written fields are returned in front of the results.
// Statements understood: x++, x = e, x := e, if c {..} [else {..}],
// if v, ok := AsInt64(x); ok {..}, return e..., and (as the last statement of
// a block) nothing else.  Anything else is an error.

import (
	"fmt"
	"go/ast"
	"go/token"
	"math/big"
	"sort"
	"strings"
)

type gtype int

const (
	tU64 gtype = iota
	tI64
	tBool
	tConst // untyped integer constant
)

func (t gtype) String() string { return [...]string{"uint64", "int64", "bool", "untyped const"}[t] }

type gexpr struct {
	s string
	t gtype
	c *big.Int // when t == tConst or a typed constant
}

var two64 = new(big.Int).Lsh(big.NewInt(1), 64)
var two63 = new(big.Int).Lsh(big.NewInt(1), 63)

func goTypeOf(e ast.Expr) (gtype, bool) {
	id, ok := e.(*ast.Ident)
	if !ok {
		return 0, false
	}
	switch id.Name {
	case "ID", "uint64", "uint":
		return tU64, true
	case "int64", "int":
		return tI64, true
	case "bool":
		return tBool, true
	}
	return 0, false
}

type fnTrans struct {
	p        *pkgInfo
	name     string
	recv     string            // receiver variable name
	recvType string            // receiver type name
	fields   map[string]gtype  // fields of the receiver used
	forder   []string          // in order of first use
	written  map[string]bool   // fields assigned
	results  []gtype
	oracles  map[string]string // extra parameters (coq name -> coq type)
	oorder   []string
	extra    []string // extra definitions emitted after the function
	methods  map[string]*methodSig
}

type methodSig struct {
	coq     string
	fields  []string // receiver fields it takes as leading parameters
	written []string
	results []gtype
}

type env map[string]gtype

func (e env) copy() env {
	n := env{}
	for k, v := range e {
		n[k] = v
	}
	return n
}

func (f *fnTrans) fieldVar(field string) string { return f.recv + "_" + field }

func (f *fnTrans) fieldType(field string) (gtype, error) {
	ts, ok := f.p.types[f.recvType]
	if !ok {
		return 0, fail("type %s not found", f.recvType)
	}
	st, ok := ts.Type.(*ast.StructType)
	if !ok {
		return 0, fail("type %s is not a struct", f.recvType)
	}
	for _, fl := range st.Fields.List {
		for _, n := range fl.Names {
			if n.Name == field {
				t, ok := goTypeOf(fl.Type)
				if !ok {
					return 0, fail("%s: field %s.%s has a type the translator does not model", f.p.pos(fl), f.recvType, field)
				}
				return t, nil
			}
		}
	}
	return 0, fail("field %s.%s not found", f.recvType, field)
}

func (f *fnTrans) useField(field string) (string, gtype, error) {
	if t, ok := f.fields[field]; ok {
		return f.fieldVar(field), t, nil
	}
	t, err := f.fieldType(field)
	if err != nil {
		return "", 0, err
	}
	f.fields[field] = t
	f.forder = append(f.forder, field)
	return f.fieldVar(field), t, nil
}

func nlit(v *big.Int) string { return v.String() }
func zlit(v *big.Int) string { return "(" + v.String() + ")%Z" }

// coerce an untyped constant to the type of the other operand
func (f *fnTrans) coerce(x gexpr, t gtype, at ast.Node) (gexpr, error) {
	if x.t != tConst {
		return x, nil
	}
	switch t {
	case tU64:
		if x.c.Sign() < 0 || x.c.Cmp(two64) >= 0 {
			return x, fail("%s: constant %s overflows uint64", f.p.pos(at), x.c)
		}
		if strings.HasPrefix(x.s, "gen_") {
			return gexpr{x.s, tU64, x.c}, nil
		}
		return gexpr{nlit(x.c), tU64, x.c}, nil
	case tI64:
		if x.c.Cmp(new(big.Int).Neg(two63)) < 0 || x.c.Cmp(two63) >= 0 {
			return x, fail("%s: constant %s overflows int64", f.p.pos(at), x.c)
		}
		if strings.HasPrefix(x.s, "gen_") {
			return gexpr{"(Z.of_N " + x.s + ")", tI64, x.c}, nil
		}
		return gexpr{zlit(x.c), tI64, x.c}, nil
	}
	return x, fail("%s: integer constant used as %s", f.p.pos(at), t)
}

func (f *fnTrans) expr(e ast.Expr, en env) (gexpr, error) {
	p := f.p
	switch e := e.(type) {
	case *ast.ParenExpr:
		return f.expr(e.X, en)
	case *ast.BasicLit:
		c, err := p.constExpr(e, 0)
		if err != nil || c.isStr {
			return gexpr{}, fail("%s: literal %s not understood here", p.pos(e), e.Value)
		}
		return gexpr{c.i.String(), tConst, c.i}, nil
	case *ast.Ident:
		if e.Name == "true" || e.Name == "false" {
			return gexpr{e.Name, tBool, nil}, nil
		}
		if t, ok := en[e.Name]; ok {
			return gexpr{e.Name, t, nil}, nil
		}
		if _, ok := p.consts[e.Name]; ok {
			c, err := p.constOf(e.Name, 0)
			if err != nil {
				return gexpr{}, err
			}
			if c.isStr {
				return gexpr{}, fail("%s: string constant %s in integer code", p.pos(e), e.Name)
			}
			switch c.typ {
			case "":
				return gexpr{"gen_" + e.Name, tConst, c.i}, nil
			case "ID", "uint64", "uint":
				return gexpr{"gen_" + e.Name, tU64, c.i}, nil
			case "int64", "int":
				return gexpr{"(Z.of_N gen_" + e.Name + ")", tI64, c.i}, nil
			}
			return gexpr{}, fail("%s: constant %s of type %s not modelled", p.pos(e), e.Name, c.typ)
		}
		return gexpr{}, fail("%s: identifier %s not understood", p.pos(e), e.Name)
	case *ast.SelectorExpr:
		if x, ok := e.X.(*ast.Ident); ok && x.Name == f.recv && f.recv != "" {
			v, t, err := f.useField(e.Sel.Name)
			if err != nil {
				return gexpr{}, err
			}
			return gexpr{v, t, nil}, nil
		}
		return gexpr{}, fail("%s: selector %q not understood", p.pos(e), p.src(e))
	case *ast.UnaryExpr:
		if e.Op == token.NOT {
			x, err := f.expr(e.X, en)
			if err != nil {
				return gexpr{}, err
			}
			if x.t != tBool {
				return gexpr{}, fail("%s: ! on non-bool", p.pos(e))
			}
			return gexpr{"(negb " + x.s + ")", tBool, nil}, nil
		}
		return gexpr{}, fail("%s: unary %s not modelled", p.pos(e), e.Op)
	case *ast.CallExpr:
		return f.call(e, en)
	case *ast.BinaryExpr:
		x, err := f.expr(e.X, en)
		if err != nil {
			return gexpr{}, err
		}
		y, err := f.expr(e.Y, en)
		if err != nil {
			return gexpr{}, err
		}
		if e.Op == token.LAND || e.Op == token.LOR {
			if x.t != tBool || y.t != tBool {
				return gexpr{}, fail("%s: %s on non-bool", p.pos(e), e.Op)
			}
			op := "&&"
			if e.Op == token.LOR {
				op = "||"
			}
			return gexpr{"(" + x.s + " " + op + " " + y.s + ")", tBool, nil}, nil
		}
		// numeric
		if x.t == tConst && y.t == tConst {
			r := new(big.Int)
			switch e.Op {
			case token.ADD:
				r.Add(x.c, y.c)
			case token.SUB:
				r.Sub(x.c, y.c)
			case token.MUL:
				r.Mul(x.c, y.c)
			case token.SHL:
				r.Lsh(x.c, uint(y.c.Uint64()))
			default:
				return gexpr{}, fail("%s: constant operator %s not modelled", p.pos(e), e.Op)
			}
			return gexpr{r.String(), tConst, r}, nil
		}
		if x.t == tConst {
			if x, err = f.coerce(x, y.t, e); err != nil {
				return gexpr{}, err
			}
		}
		if y.t == tConst {
			if y, err = f.coerce(y, x.t, e); err != nil {
				return gexpr{}, err
			}
		}
		if x.t != y.t || x.t == tBool && e.Op != token.EQL && e.Op != token.NEQ {
			return gexpr{}, fail("%s: operand types %s and %s of %s", p.pos(e), x.t, y.t, e.Op)
		}
		sc := ""
		if x.t == tI64 {
			sc = "%Z"
		}
		switch e.Op {
		case token.ADD, token.SUB:
			if x.t != tU64 {
				return gexpr{}, fail("%s: %s on %s not modelled (only uint64 arithmetic is)", p.pos(e), e.Op, x.t)
			}
			fn := "u64_add"
			if e.Op == token.SUB {
				fn = "u64_sub"
			}
			return gexpr{"(" + fn + " " + x.s + " " + y.s + ")", tU64, nil}, nil
		case token.EQL:
			if x.t == tBool {
				return gexpr{"(Bool.eqb " + x.s + " " + y.s + ")", tBool, nil}, nil
			}
			return gexpr{"(" + x.s + " =? " + y.s + ")" + sc, tBool, nil}, nil
		case token.NEQ:
			if x.t == tBool {
				return gexpr{"(negb (Bool.eqb " + x.s + " " + y.s + "))", tBool, nil}, nil
			}
			return gexpr{"(negb (" + x.s + " =? " + y.s + ")" + sc + ")", tBool, nil}, nil
		case token.LSS:
			return gexpr{"(" + x.s + " <? " + y.s + ")" + sc, tBool, nil}, nil
		case token.LEQ:
			return gexpr{"(" + x.s + " <=? " + y.s + ")" + sc, tBool, nil}, nil
		case token.GTR:
			return gexpr{"(" + y.s + " <? " + x.s + ")" + sc, tBool, nil}, nil
		case token.GEQ:
			return gexpr{"(" + y.s + " <=? " + x.s + ")" + sc, tBool, nil}, nil
		}
		return gexpr{}, fail("%s: operator %s not modelled", p.pos(e), e.Op)
	}
	return gexpr{}, fail("%s: expression %q not understood", p.pos(e), p.src(e))
}

func (f *fnTrans) call(e *ast.CallExpr, en env) (gexpr, error) {
	p := f.p
	// conversions
	if id, ok := e.Fun.(*ast.Ident); ok && len(e.Args) == 1 {
		if to, ok := goTypeOf(id); ok && to != tBool {
			x, err := f.expr(e.Args[0], en)
			if err != nil {
				return gexpr{}, err
			}
			if x.t == tConst {
				return f.coerce(x, to, e)
			}
			switch {
			case x.t == to:
				return x, nil
			case x.t == tI64 && to == tU64:
				return gexpr{"(u64_of_i64 " + x.s + ")", tU64, nil}, nil
			case x.t == tU64 && to == tI64:
				return gexpr{"(i64_of_u64 " + x.s + ")", tI64, nil}, nil
			}
			return gexpr{}, fail("%s: conversion %s(%s) not modelled", p.pos(e), id.Name, x.t)
		}
		// package-level function treated as an oracle: its result is a parameter
		if id.Name == "secureInt63n" {
			fd, ok := p.funcs["secureInt63n"]
			if !ok {
				return gexpr{}, fail("secureInt63n not found")
			}
			if err := checkSecureInt63n(p, fd); err != nil {
				return gexpr{}, err
			}
			arg, err := f.expr(e.Args[0], en)
			if err != nil {
				return gexpr{}, err
			}
			arg, err = f.coerce(arg, tI64, e)
			if err != nil {
				return gexpr{}, err
			}
			if arg.t != tI64 {
				return gexpr{}, fail("%s: argument of secureInt63n is not an int64", p.pos(e))
			}
			name := "secureInt63n_result"
			if _, dup := f.oracles[name]; dup {
				return gexpr{}, fail("%s: more than one call of secureInt63n", p.pos(e))
			}
			f.oracles[name] = "Z"
			f.oorder = append(f.oorder, name)
			f.extra = append(f.extra, fmt.Sprintf("(* argument n of the call secureInt63n(n) in %s; the oracle result r satisfies 0 <= r < n *)\nDefinition %s_bound : Z := %s.\n", f.name, f.name, arg.s))
			return gexpr{name, tI64, nil}, nil
		}
	}
	// method of the same receiver already translated
	if sel, ok := e.Fun.(*ast.SelectorExpr); ok {
		if x, ok := sel.X.(*ast.Ident); ok && x.Name == f.recv && f.recv != "" {
			ms, ok := f.methods[f.recvType+"."+sel.Sel.Name]
			if !ok {
				return gexpr{}, fail("%s: call of method %s not understood", p.pos(e), sel.Sel.Name)
			}
			if len(ms.written) != 0 || len(ms.results) != 1 {
				return gexpr{}, fail("%s: call of a state-changing method inside an expression not modelled", p.pos(e))
			}
			args := []string{}
			for _, fl := range ms.fields {
				v, _, err := f.useField(fl)
				if err != nil {
					return gexpr{}, err
				}
				args = append(args, v)
			}
			for _, a := range e.Args {
				x, err := f.expr(a, en)
				if err != nil {
					return gexpr{}, err
				}
				if x.t == tConst {
					return gexpr{}, fail("%s: constant argument: parameter type unknown", p.pos(a))
				}
				args = append(args, x.s)
			}
			return gexpr{"(" + ms.coq + " " + strings.Join(args, " ") + ")", ms.results[0], nil}, nil
		}
	}
	return gexpr{}, fail("%s: call %q not understood", p.pos(e), p.src(e))
}

// checkSecureInt63n verifies the shape the oracle contract rests on:
// max := big.NewInt(n); result, err := rand.Int(rand.Reader, max); ...; return result.Int64()
func checkSecureInt63n(p *pkgInfo, fd *ast.FuncDecl) error {
	src := p.src(fd.Body)
	norm := strings.Join(strings.Fields(src), " ")
	for _, want := range []string{"if n <= 0 { panic(", "max := big.NewInt(n)", "result, err := rand.Int(rand.Reader, max)", "return result.Int64()"} {
		if !strings.Contains(norm, want) {
			return fail("%s: secureInt63n no longer has the shape the oracle contract 0 <= r < n rests on (missing %q)", p.pos(fd), want)
		}
	}
	return nil
}

// ret renders the returned tuple: written fields first, then results.
func (f *fnTrans) ret(vals []gexpr) string {
	var parts []string
	wr := f.writtenOrder()
	for _, w := range wr {
		parts = append(parts, f.fieldVar(w))
	}
	for _, v := range vals {
		parts = append(parts, v.s)
	}
	if len(parts) == 1 {
		return parts[0]
	}
	return "(" + strings.Join(parts, ", ") + ")"
}

func (f *fnTrans) writtenOrder() []string {
	var wr []string
	for _, fl := range f.forder {
		if f.written[fl] {
			wr = append(wr, fl)
		}
	}
	return wr
}

// scanWritten finds the receiver fields assigned anywhere in the body, so
// that every return can carry them.
func (f *fnTrans) scanWritten(body *ast.BlockStmt) error {
	var err error
	mark := func(e ast.Expr) {
		if sel, ok := e.(*ast.SelectorExpr); ok {
			if x, ok := sel.X.(*ast.Ident); ok && x.Name == f.recv && f.recv != "" {
				if _, _, e2 := f.useField(sel.Sel.Name); e2 != nil {
					err = e2
				}
				f.written[sel.Sel.Name] = true
			}
		}
	}
	ast.Inspect(body, func(n ast.Node) bool {
		switch s := n.(type) {
		case *ast.AssignStmt:
			for _, l := range s.Lhs {
				mark(l)
			}
		case *ast.IncDecStmt:
			mark(s.X)
		}
		return true
	})
	return err
}

func (f *fnTrans) lhs(e ast.Expr, en env) (string, gtype, error) {
	if sel, ok := e.(*ast.SelectorExpr); ok {
		if x, ok := sel.X.(*ast.Ident); ok && x.Name == f.recv && f.recv != "" {
			v, t, err := f.useField(sel.Sel.Name)
			return v, t, err
		}
	}
	if id, ok := e.(*ast.Ident); ok {
		if t, ok := en[id.Name]; ok {
			return id.Name, t, nil
		}
	}
	return "", 0, fail("%s: assignment target %q not understood", f.p.pos(e), f.p.src(e))
}

func (f *fnTrans) stmts(list []ast.Stmt, en env, depth int) (string, error) {
	p := f.p
	if len(list) == 0 {
		if len(f.results) == 0 {
			return ind(depth) + f.ret(nil), nil
		}
		return "", fail("%s: control reaches the end of the function without return", f.name)
	}
	rest := list[1:]
	switch s := list[0].(type) {
	case *ast.ReturnStmt:
		if len(s.Results) != len(f.results) {
			return "", fail("%s: return arity", p.pos(s))
		}
		var vals []gexpr
		for i, r := range s.Results {
			x, err := f.expr(r, en)
			if err != nil {
				return "", err
			}
			if x, err = f.coerce(x, f.results[i], r); err != nil {
				return "", err
			}
			if x.t != f.results[i] {
				return "", fail("%s: returned %s where %s is declared", p.pos(r), x.t, f.results[i])
			}
			vals = append(vals, x)
		}
		return ind(depth) + f.ret(vals), nil
	case *ast.IncDecStmt:
		v, t, err := f.lhs(s.X, en)
		if err != nil {
			return "", err
		}
		if t != tU64 {
			return "", fail("%s: ++/-- on %s not modelled", p.pos(s), t)
		}
		fn := "u64_add"
		if s.Tok == token.DEC {
			fn = "u64_sub"
		}
		r, err := f.stmts(rest, en, depth)
		if err != nil {
			return "", err
		}
		return fmt.Sprintf("%slet %s := %s %s 1 in\n%s", ind(depth), v, fn, v, r), nil
	case *ast.AssignStmt:
		if len(s.Lhs) != 1 || len(s.Rhs) != 1 {
			return "", fail("%s: assignment form %q not understood", p.pos(s), p.src(s))
		}
		x, err := f.expr(s.Rhs[0], en)
		if err != nil {
			return "", err
		}
		en2 := en
		var v string
		switch s.Tok {
		case token.DEFINE:
			id, ok := s.Lhs[0].(*ast.Ident)
			if !ok {
				return "", fail("%s: := target not understood", p.pos(s))
			}
			if x.t == tConst {
				if x, err = f.coerce(x, tI64, s); err != nil { // untyped const defaults to int
					return "", err
				}
			}
			en2 = en.copy()
			en2[id.Name] = x.t
			v = id.Name
		case token.ASSIGN:
			var t gtype
			v, t, err = f.lhs(s.Lhs[0], en)
			if err != nil {
				return "", err
			}
			if x, err = f.coerce(x, t, s); err != nil {
				return "", err
			}
			if x.t != t {
				return "", fail("%s: assigning %s to %s", p.pos(s), x.t, t)
			}
		case token.ADD_ASSIGN, token.SUB_ASSIGN:
			var t gtype
			v, t, err = f.lhs(s.Lhs[0], en)
			if err != nil {
				return "", err
			}
			if x, err = f.coerce(x, t, s); err != nil {
				return "", err
			}
			if t != tU64 || x.t != tU64 {
				return "", fail("%s: %s on %s not modelled", p.pos(s), s.Tok, t)
			}
			fn := "u64_add"
			if s.Tok == token.SUB_ASSIGN {
				fn = "u64_sub"
			}
			x = gexpr{fn + " " + v + " " + x.s, tU64, nil}
		default:
			return "", fail("%s: assignment operator %s not modelled", p.pos(s), s.Tok)
		}
		r, err := f.stmts(rest, en2, depth)
		if err != nil {
			return "", err
		}
		return fmt.Sprintf("%slet %s := %s in\n%s", ind(depth), v, x.s, r), nil
	case *ast.IfStmt:
		var elseList []ast.Stmt
		switch e := s.Else.(type) {
		case nil:
		case *ast.BlockStmt:
			elseList = append(elseList, e.List...)
		case *ast.IfStmt:
			elseList = append(elseList, e)
		default:
			return "", fail("%s: else form not understood", p.pos(s))
		}
		thenList := append(append([]ast.Stmt{}, s.Body.List...), rest...)
		elseList = append(elseList, rest...)
		if s.Init != nil {
			// if v, ok := AsInt64(x); ok { ... }
			as, ok := s.Init.(*ast.AssignStmt)
			if !ok || as.Tok != token.DEFINE || len(as.Lhs) != 2 || len(as.Rhs) != 1 {
				return "", fail("%s: if-init %q not understood", p.pos(s), p.src(s.Init))
			}
			call, ok := as.Rhs[0].(*ast.CallExpr)
			if !ok {
				return "", fail("%s: if-init %q not understood (only v, ok := AsInt64(x))", p.pos(s), p.src(s.Init))
			}
			fn, ok2 := call.Fun.(*ast.Ident)
			if !ok2 || fn.Name != "AsInt64" || len(call.Args) != 1 {
				return "", fail("%s: if-init %q not understood (only v, ok := AsInt64(x))", p.pos(s), p.src(s.Init))
			}
			arg, ok := call.Args[0].(*ast.Ident)
			if !ok || en[arg.Name] != gtype(-1) {
				return "", fail("%s: argument of AsInt64 is not the dynamic-value parameter", p.pos(s))
			}
			v1, okv := as.Lhs[0].(*ast.Ident)
			v2, okk := as.Lhs[1].(*ast.Ident)
			c, okc := s.Cond.(*ast.Ident)
			if !okv || !okk || !okc || c.Name != v2.Name {
				return "", fail("%s: condition of the comma-ok if is not the ok variable", p.pos(s))
			}
			oname := "asInt64_" + arg.Name
			if _, dup := f.oracles[oname]; !dup {
				f.oracles[oname] = "option Z"
				f.oorder = append(f.oorder, oname)
			}
			en2 := en.copy()
			en2[v1.Name] = tI64
			en2[v2.Name] = tBool
			th, err := f.stmts(thenList, en2, depth+1)
			if err != nil {
				return "", err
			}
			el, err := f.stmts(elseList, en, depth+1)
			if err != nil {
				return "", err
			}
			return fmt.Sprintf("%smatch %s with\n%s| Some %s =>\n%s\n%s| None =>\n%s\n%send",
				ind(depth), oname, ind(depth), v1.Name, th, ind(depth), el, ind(depth)), nil
		}
		c, err := f.expr(s.Cond, en)
		if err != nil {
			return "", err
		}
		if c.t != tBool {
			return "", fail("%s: condition is not a bool", p.pos(s))
		}
		th, err := f.stmts(thenList, en, depth+1)
		if err != nil {
			return "", err
		}
		el, err := f.stmts(elseList, en, depth+1)
		if err != nil {
			return "", err
		}
		return fmt.Sprintf("%sif %s then\n%s\n%selse\n%s", ind(depth), c.s, th, ind(depth), el), nil
	}
	return "", fail("%s: statement %q not understood", p.pos(list[0]), p.src(list[0]))
}

// translate one function/method.  dyn names a parameter of type `any`
// (tracked so that AsInt64(dyn) can be recognised), "" if none.
func translateFn(p *pkgInfo, key, coqName string, methods map[string]*methodSig) (string, *methodSig, error) {
	fd, ok := p.funcs[key]
	if !ok {
		return "", nil, fail("function %s not found", key)
	}
	f := &fnTrans{p: p, name: coqName, fields: map[string]gtype{}, written: map[string]bool{}, oracles: map[string]string{}, methods: methods}
	if fd.Recv != nil {
		if len(fd.Recv.List) != 1 || len(fd.Recv.List[0].Names) != 1 {
			return "", nil, fail("%s: receiver not understood", p.pos(fd))
		}
		f.recv = fd.Recv.List[0].Names[0].Name
		f.recvType = strings.SplitN(key, ".", 2)[0]
	}
	en := env{}
	var params []string
	for _, fl := range fd.Type.Params.List {
		for _, n := range fl.Names {
			if id, ok := fl.Type.(*ast.Ident); ok && id.Name == "any" {
				en[n.Name] = gtype(-1)
				continue
			}
			if _, ok := fl.Type.(*ast.InterfaceType); ok {
				en[n.Name] = gtype(-1)
				continue
			}
			t, ok := goTypeOf(fl.Type)
			if !ok {
				return "", nil, fail("%s: parameter %s has a type the translator does not model", p.pos(fl), n.Name)
			}
			en[n.Name] = t
			params = append(params, fmt.Sprintf("(%s : %s)", n.Name, coqType(t)))
		}
	}
	if fd.Type.Results != nil {
		for _, fl := range fd.Type.Results.List {
			if len(fl.Names) != 0 {
				return "", nil, fail("%s: named results not modelled", p.pos(fl))
			}
			t, ok := goTypeOf(fl.Type)
			if !ok {
				return "", nil, fail("%s: result type not modelled", p.pos(fl))
			}
			f.results = append(f.results, t)
		}
	}
	if err := f.scanWritten(fd.Body); err != nil {
		return "", nil, err
	}
	body, err := f.stmts(fd.Body.List, en, 1)
	if err != nil {
		return "", nil, err
	}
	var fparams []string
	for _, fl := range f.forder {
		fparams = append(fparams, fmt.Sprintf("(%s : %s)", f.fieldVar(fl), coqType(f.fields[fl])))
	}
	var oparams []string
	for _, o := range f.oorder {
		oparams = append(oparams, fmt.Sprintf("(%s : %s)", o, f.oracles[o]))
	}
	all := append(append(fparams, oparams...), params...)
	var rts []string
	for _, w := range f.writtenOrder() {
		rts = append(rts, coqType(f.fields[w]))
	}
	for _, r := range f.results {
		rts = append(rts, coqType(r))
	}
	rt := strings.Join(rts, " * ")
	if rt == "" {
		rt = "unit"
	}
	var b strings.Builder
	fmt.Fprintf(&b, "(* %s: %s *)\n", p.pos(fd), strings.ReplaceAll(strings.SplitN(p.src(fd), "{", 2)[0], "*)", "* )"))
	fmt.Fprintf(&b, "Definition %s %s : %s :=\n%s.\n", coqName, strings.Join(all, " "), rt, body)
	for _, x := range f.extra {
		b.WriteString(x)
	}
	ms := &methodSig{coq: coqName, fields: append([]string{}, f.forder...), written: f.writtenOrder(), results: f.results}
	return b.String(), ms, nil
}

func coqType(t gtype) string {
	switch t {
	case tU64:
		return "N"
	case tI64:
		return "Z"
	case tBool:
		return "bool"
	}
	return "?"
}

// ---------------------------------------------------------------------------
// AsInt64: the type switch

var kindCtor = map[string][2]string{ // Go type -> (constructor, payload type)
	"int64": {"VInt64", "Z"}, "int": {"VInt", "Z"}, "int32": {"VInt32", "Z"},
	"ID": {"VID", "N"}, "uint64": {"VUint64", "N"}, "uint": {"VUint", "N"}, "uint32": {"VUint32", "N"},
	"float64": {"VFloat64", "F64"}, "float32": {"VFloat32", "F32"},
}

func genAsInt64(p *pkgInfo) (string, error) {
	fd, ok := p.funcs["AsInt64"]
	if !ok {
		return "", fail("AsInt64 not found")
	}
	if len(fd.Body.List) != 2 {
		return "", fail("%s: AsInt64 is not `switch v := v.(type) {...}; return 0, false`", p.pos(fd))
	}
	ts, ok := fd.Body.List[0].(*ast.TypeSwitchStmt)
	if !ok {
		return "", fail("%s: AsInt64 does not start with a type switch", p.pos(fd))
	}
	ret, ok := fd.Body.List[1].(*ast.ReturnStmt)
	if !ok || len(ret.Results) != 2 || p.src(ret.Results[1]) != "false" {
		return "", fail("%s: AsInt64 does not end with return _, false", p.pos(fd))
	}
	as, ok := ts.Assign.(*ast.AssignStmt)
	if !ok || len(as.Lhs) != 1 {
		return "", fail("%s: type switch without binding not understood", p.pos(ts))
	}
	bound := as.Lhs[0].(*ast.Ident).Name
	seen := map[string]bool{}
	var arms []string
	for _, cc := range ts.Body.List {
		cl := cc.(*ast.CaseClause)
		if cl.List == nil {
			return "", fail("%s: default clause in AsInt64's type switch not modelled", p.pos(cl))
		}
		if len(cl.List) != 1 {
			return "", fail("%s: multi-type case in AsInt64 not modelled", p.pos(cl))
		}
		tn := p.src(cl.List[0])
		k, ok := kindCtor[tn]
		if !ok {
			return "", fail("%s: case %s in AsInt64: dynamic type not modelled", p.pos(cl), tn)
		}
		if seen[tn] {
			return "", fail("%s: duplicate case %s", p.pos(cl), tn)
		}
		seen[tn] = true
		if len(cl.Body) != 1 {
			return "", fail("%s: case body not understood", p.pos(cl))
		}
		r, ok := cl.Body[0].(*ast.ReturnStmt)
		if !ok || len(r.Results) != 2 || p.src(r.Results[1]) != "true" {
			return "", fail("%s: case %s does not `return <int64>, true`", p.pos(cl), tn)
		}
		val := r.Results[0]
		if pe, ok := val.(*ast.ParenExpr); ok {
			val = pe.X
		}
		conv := ""
		if id, ok := val.(*ast.Ident); ok && id.Name == bound {
			if tn != "int64" {
				return "", fail("%s: case %s returns v without conversion", p.pos(cl), tn)
			}
			conv = "x"
		} else if c, ok := val.(*ast.CallExpr); ok && len(c.Args) == 1 && p.src(c.Fun) == "int64" && p.src(c.Args[0]) == bound {
			switch k[1] {
			case "Z":
				if tn == "int32" {
					conv = "i64_of_i32 x"
				} else {
					conv = "x"
				}
			case "N":
				if tn == "uint32" {
					conv = "i64_of_u32 x"
				} else {
					conv = "i64_of_u64 x"
				}
			case "F64":
				conv = "i64_of_f64 x"
			case "F32":
				conv = "i64_of_f32 x"
			}
		} else {
			return "", fail("%s: case %s returns %q: not understood", p.pos(cl), tn, p.src(val))
		}
		arms = append(arms, fmt.Sprintf("  | %s x => Some (%s)   (* case %s: return %s, true *)", k[0], conv, tn, p.src(val)))
	}
	var missing []string
	for tn, k := range kindCtor {
		if !seen[tn] {
			missing = append(missing, k[0])
		}
	}
	sort.Strings(missing)
	var b strings.Builder
	fmt.Fprintf(&b, "(* %s: func AsInt64(v any) (int64, bool) — Some i = (i, true), None = (0, false) *)\n", p.pos(fd))
	b.WriteString("Definition gen_as_int64 (v : value) : option Z :=\n  match v with\n")
	b.WriteString(strings.Join(arms, "\n") + "\n")
	if len(missing) > 0 {
		b.WriteString("  | " + strings.Join(missing, " _ | ") + " _ => None   (* no case in the source *)\n")
	}
	b.WriteString("  | VOther => None\n  end.\n")
	return b.String(), nil
}

// ---------------------------------------------------------------------------

func checkShape(p *pkgInfo, key string, wants ...string) error {
	fd, ok := p.funcs[key]
	if !ok {
		return fail("function %s not found", key)
	}
	norm := strings.Join(strings.Fields(p.src(fd.Body)), " ")
	want := "{ " + strings.Join(wants, " ") + " }"
	if norm != want {
		return fail("%s: body of %s is %q, the translator only accepts %q (a locked wrapper)", p.pos(fd), key, norm, want)
	}
	return nil
}

func genArith(p *pkgInfo) (string, error) {
	if ts, ok := p.types["ID"]; !ok || p.src(ts.Type) != "uint64" {
		return "", fail("type ID is not declared as uint64")
	}
	var b strings.Builder
	b.WriteString(header("Constants and integer code of idgen.go, session.go, convert.go.",
		"From Coq Require Import NArith ZArith Bool.\nFrom Nexus Require Import Wamp.Ids Wamp.Convert.\nOpen Scope N_scope.\n"))
	for _, cn := range []string{"MaxID", "deltaID"} {
		c, err := p.constOf(cn, 0)
		if err != nil {
			return "", err
		}
		if c.isStr || c.i.Sign() < 0 || c.i.Cmp(two64) >= 0 {
			return "", fail("constant %s is not a uint64 value", cn)
		}
		fmt.Fprintf(&b, "(* %s: const %s = %s *)\nDefinition gen_%s : N := %s.\n\n", p.pos(p.consts[cn]), cn, p.src(p.consts[cn].Values[p.cidx[cn]]), cn, c.i.String())
	}
	methods := map[string]*methodSig{}
	for _, it := range [][2]string{
		{"IDGen.Next", "gen_idgen_next"},
		{"Session.IsNewRecvID", "gen_is_new_recv_id"},
		{"Session.UpdateLastRecvIDLocked", "gen_update_last_recv_id"},
		{"AsID", "gen_as_id"},
		{"GlobalID", "gen_global_id"},
	} {
		txt, ms, err := translateFn(p, it[0], it[1], methods)
		if err != nil {
			return "", err
		}
		methods[it[0]] = ms
		b.WriteString(txt + "\n")
	}
	txt, err := genAsInt64(p)
	if err != nil {
		return "", err
	}
	b.WriteString(txt + "\n")
	// wrappers that must stay wrappers
	if err := checkShape(p, "SyncIDGen.Next", "g.lock.Lock()", "defer g.lock.Unlock()", "return g.IDGen.Next()"); err != nil {
		return "", err
	}
	if err := checkShape(p, "Session.UpdateLastRecvID", "s.Lock()", "defer s.Unlock()", "return s.UpdateLastRecvIDLocked(id)"); err != nil {
		return "", err
	}
	return b.String(), nil
}
