package main

// Translation of URI.PrefixMatch and URI.WildcardMatch into the combinators
// of coq/Wamp/Match.v.  Boolean and string-element expressions are evaluated
// in the option monad (None = index out of range panic).
//
// Understood: x := strings.Split(string(v), "."), len(a) <op> len(b),
// xs[i], "", string comparison == / !=, && || !, strings.HasPrefix(a, b),
// if c {..} [else {..}], `for i := range xs { if c { return <literal> } ... }`,
// return <bool expression>.

import (
	"fmt"
	"go/ast"
	"go/token"
	"strconv"
	"strings"
)

type mtype int

const (
	mStr   mtype = iota // plain bytes
	mOStr               // option bytes
	mList               // list bytes
	mNat                // nat
	mOBool              // option bool
)

type mexpr struct {
	s string
	t mtype
}

type mTrans struct {
	p    *pkgInfo
	name string
}

type menv map[string]mtype

func (e menv) copy() menv {
	n := menv{}
	for k, v := range e {
		n[k] = v
	}
	return n
}

func (m *mTrans) ostr(x mexpr, at ast.Node) (string, error) {
	switch x.t {
	case mStr:
		return "(oret " + x.s + ")", nil
	case mOStr:
		return x.s, nil
	}
	return "", fail("%s: string expected", m.p.pos(at))
}

func (m *mTrans) expr(e ast.Expr, en menv) (mexpr, error) {
	p := m.p
	switch e := e.(type) {
	case *ast.ParenExpr:
		return m.expr(e.X, en)
	case *ast.BasicLit:
		if e.Kind == token.STRING {
			s, err := strconv.Unquote(e.Value)
			if err == nil && s == "" {
				return mexpr{"[]", mStr}, nil
			}
		}
		return mexpr{}, fail("%s: literal %s not understood", p.pos(e), e.Value)
	case *ast.Ident:
		if e.Name == "true" || e.Name == "false" {
			return mexpr{"(oret " + e.Name + ")", mOBool}, nil
		}
		if t, ok := en[e.Name]; ok {
			return mexpr{e.Name, t}, nil
		}
		return mexpr{}, fail("%s: identifier %s not understood", p.pos(e), e.Name)
	case *ast.IndexExpr:
		x, err := m.expr(e.X, en)
		if err != nil {
			return mexpr{}, err
		}
		i, err := m.expr(e.Index, en)
		if err != nil {
			return mexpr{}, err
		}
		if x.t != mList || i.t != mNat {
			return mexpr{}, fail("%s: index expression %q not understood", p.pos(e), p.src(e))
		}
		return mexpr{"(oidx " + x.s + " " + i.s + ")", mOStr}, nil
	case *ast.UnaryExpr:
		if e.Op == token.NOT {
			x, err := m.expr(e.X, en)
			if err != nil {
				return mexpr{}, err
			}
			if x.t != mOBool {
				return mexpr{}, fail("%s: ! on non-bool", p.pos(e))
			}
			return mexpr{"(onot " + x.s + ")", mOBool}, nil
		}
	case *ast.CallExpr:
		fn := p.src(e.Fun)
		switch {
		case (fn == "string" || fn == "URI") && len(e.Args) == 1:
			x, err := m.expr(e.Args[0], en)
			if err != nil {
				return mexpr{}, err
			}
			if x.t != mStr && x.t != mOStr {
				return mexpr{}, fail("%s: conversion of a non-string", p.pos(e))
			}
			return x, nil
		case fn == "len" && len(e.Args) == 1:
			x, err := m.expr(e.Args[0], en)
			if err != nil {
				return mexpr{}, err
			}
			if x.t != mList {
				return mexpr{}, fail("%s: len of %q not modelled", p.pos(e), p.src(e.Args[0]))
			}
			return mexpr{"(length " + x.s + ")", mNat}, nil
		case fn == "strings.HasPrefix" && len(e.Args) == 2:
			a, err := m.expr(e.Args[0], en)
			if err != nil {
				return mexpr{}, err
			}
			b, err := m.expr(e.Args[1], en)
			if err != nil {
				return mexpr{}, err
			}
			if a.t != mStr || b.t != mStr {
				return mexpr{}, fail("%s: arguments of strings.HasPrefix not understood", p.pos(e))
			}
			return mexpr{"(oret (has_prefix " + a.s + " " + b.s + "))", mOBool}, nil
		case fn == "strings.Split" && len(e.Args) == 2:
			a, err := m.expr(e.Args[0], en)
			if err != nil {
				return mexpr{}, err
			}
			if lit, ok := e.Args[1].(*ast.BasicLit); !ok || lit.Value != `"."` {
				return mexpr{}, fail("%s: strings.Split separator is not \".\"", p.pos(e))
			}
			if a.t != mStr {
				return mexpr{}, fail("%s: argument of strings.Split not understood", p.pos(e))
			}
			return mexpr{"(split_dot " + a.s + ")", mList}, nil
		}
	case *ast.BinaryExpr:
		x, err := m.expr(e.X, en)
		if err != nil {
			return mexpr{}, err
		}
		y, err := m.expr(e.Y, en)
		if err != nil {
			return mexpr{}, err
		}
		switch e.Op {
		case token.LAND, token.LOR:
			if x.t != mOBool || y.t != mOBool {
				return mexpr{}, fail("%s: %s on non-bool", p.pos(e), e.Op)
			}
			fn := "oand"
			if e.Op == token.LOR {
				fn = "oor"
			}
			return mexpr{"(" + fn + " " + x.s + " " + y.s + ")", mOBool}, nil
		}
		if x.t == mNat && y.t == mNat {
			var s string
			switch e.Op {
			case token.EQL:
				s = "Nat.eqb " + x.s + " " + y.s
			case token.NEQ:
				s = "negb (Nat.eqb " + x.s + " " + y.s + ")"
			case token.LSS:
				s = "Nat.ltb " + x.s + " " + y.s
			case token.LEQ:
				s = "Nat.leb " + x.s + " " + y.s
			case token.GTR:
				s = "Nat.ltb " + y.s + " " + x.s
			case token.GEQ:
				s = "Nat.leb " + y.s + " " + x.s
			default:
				return mexpr{}, fail("%s: operator %s on lengths not modelled", p.pos(e), e.Op)
			}
			return mexpr{"(oret (" + s + "))", mOBool}, nil
		}
		if (x.t == mStr || x.t == mOStr) && (y.t == mStr || y.t == mOStr) && (e.Op == token.EQL || e.Op == token.NEQ) {
			a, _ := m.ostr(x, e)
			b, _ := m.ostr(y, e)
			fn := "ostr_eq"
			if e.Op == token.NEQ {
				fn = "ostr_ne"
			}
			return mexpr{"(" + fn + " " + a + " " + b + ")", mOBool}, nil
		}
	}
	return mexpr{}, fail("%s: expression %q not understood", p.pos(e), p.src(e))
}

func (m *mTrans) stmts(list []ast.Stmt, en menv, depth int) (string, error) {
	p := m.p
	if len(list) == 0 {
		return "", fail("%s: control reaches the end without return", m.name)
	}
	rest := list[1:]
	switch s := list[0].(type) {
	case *ast.ReturnStmt:
		if len(s.Results) != 1 {
			return "", fail("%s: return arity", p.pos(s))
		}
		x, err := m.expr(s.Results[0], en)
		if err != nil {
			return "", err
		}
		if x.t != mOBool {
			return "", fail("%s: returned value is not a bool", p.pos(s))
		}
		return ind(depth) + x.s, nil
	case *ast.AssignStmt:
		if s.Tok != token.DEFINE || len(s.Lhs) != 1 || len(s.Rhs) != 1 {
			return "", fail("%s: statement %q not understood", p.pos(s), p.src(s))
		}
		id, ok := s.Lhs[0].(*ast.Ident)
		if !ok {
			return "", fail("%s: := target", p.pos(s))
		}
		x, err := m.expr(s.Rhs[0], en)
		if err != nil {
			return "", err
		}
		if x.t != mList && x.t != mStr && x.t != mNat {
			return "", fail("%s: value of %q cannot be bound (it may panic)", p.pos(s), p.src(s.Rhs[0]))
		}
		en2 := en.copy()
		en2[id.Name] = x.t
		r, err := m.stmts(rest, en2, depth)
		if err != nil {
			return "", err
		}
		return fmt.Sprintf("%slet %s := %s in\n%s", ind(depth), id.Name, x.s, r), nil
	case *ast.IfStmt:
		if s.Init != nil {
			return "", fail("%s: if with init not understood", p.pos(s))
		}
		c, err := m.expr(s.Cond, en)
		if err != nil {
			return "", err
		}
		if c.t != mOBool {
			return "", fail("%s: condition is not a bool", p.pos(s))
		}
		var elseList []ast.Stmt
		switch e := s.Else.(type) {
		case nil:
		case *ast.BlockStmt:
			elseList = append(elseList, e.List...)
		case *ast.IfStmt:
			elseList = append(elseList, e)
		default:
			return "", fail("%s: else form", p.pos(s))
		}
		th, err := m.stmts(append(append([]ast.Stmt{}, s.Body.List...), rest...), en, depth+1)
		if err != nil {
			return "", err
		}
		el, err := m.stmts(append(elseList, rest...), en, depth+1)
		if err != nil {
			return "", err
		}
		return fmt.Sprintf("%soif %s\n%s(\n%s)\n%s(\n%s)", ind(depth), c.s, ind(depth), th, ind(depth), el), nil
	case *ast.RangeStmt:
		if s.Tok != token.DEFINE || s.Value != nil || s.Key == nil {
			return "", fail("%s: only `for i := range xs` is modelled", p.pos(s))
		}
		key, ok := s.Key.(*ast.Ident)
		if !ok || key.Name == "_" {
			return "", fail("%s: range key", p.pos(s))
		}
		xs, err := m.expr(s.X, en)
		if err != nil {
			return "", err
		}
		if xs.t != mList {
			return "", fail("%s: range over %q not modelled", p.pos(s), p.src(s.X))
		}
		en2 := en.copy()
		en2[key.Name] = mNat
		var conds []string
		lit := ""
		for _, st := range s.Body.List {
			is, ok := st.(*ast.IfStmt)
			if !ok || is.Init != nil || is.Else != nil || len(is.Body.List) != 1 {
				return "", fail("%s: loop body statement %q not understood (only `if c { return <literal> }`)", p.pos(st), p.src(st))
			}
			r, ok := is.Body.List[0].(*ast.ReturnStmt)
			if !ok || len(r.Results) != 1 {
				return "", fail("%s: loop body statement not understood", p.pos(st))
			}
			l := p.src(r.Results[0])
			if l != "true" && l != "false" {
				return "", fail("%s: loop returns a non-literal", p.pos(r))
			}
			if lit != "" && lit != l {
				return "", fail("%s: loop returns different literals", p.pos(r))
			}
			lit = l
			c, err := m.expr(is.Cond, en2)
			if err != nil {
				return "", err
			}
			if c.t != mOBool {
				return "", fail("%s: condition is not a bool", p.pos(is))
			}
			conds = append(conds, c.s)
		}
		if len(conds) == 0 {
			return "", fail("%s: empty loop body", p.pos(s))
		}
		cond := conds[len(conds)-1]
		for i := len(conds) - 2; i >= 0; i-- {
			cond = "(oor " + conds[i] + " " + cond + ")"
		}
		r, err := m.stmts(rest, en, depth+1)
		if err != nil {
			return "", err
		}
		return fmt.Sprintf("%sfor_range_ret (length %s) 0\n%s  (fun %s => %s)\n%s  (oret %s)\n%s  (\n%s)",
			ind(depth), xs.s, ind(depth), key.Name, cond, ind(depth), lit, ind(depth), r), nil
	}
	return "", fail("%s: statement %q not understood", p.pos(list[0]), p.src(list[0]))
}

func translateMatchFn(p *pkgInfo, key, coqName string) (string, error) {
	fd, ok := p.funcs[key]
	if !ok {
		return "", fail("method %s not found", key)
	}
	if fd.Recv == nil || len(fd.Recv.List) != 1 || len(fd.Recv.List[0].Names) != 1 || p.src(fd.Recv.List[0].Type) != "URI" {
		return "", fail("%s: receiver of %s not understood", p.pos(fd), key)
	}
	en := menv{}
	recv := fd.Recv.List[0].Names[0].Name
	en[recv] = mStr
	params := []string{recv}
	for _, fl := range fd.Type.Params.List {
		if t := p.src(fl.Type); t != "URI" && t != "string" {
			return "", fail("%s: parameter type %s not modelled", p.pos(fl), t)
		}
		for _, n := range fl.Names {
			en[n.Name] = mStr
			params = append(params, n.Name)
		}
	}
	if len(params) != 2 || fd.Type.Results == nil || len(fd.Type.Results.List) != 1 || p.src(fd.Type.Results.List[0].Type) != "bool" {
		return "", fail("%s: signature of %s not understood", p.pos(fd), key)
	}
	m := &mTrans{p: p, name: key}
	body, err := m.stmts(fd.Body.List, en, 1)
	if err != nil {
		return "", err
	}
	return fmt.Sprintf("(* %s: %s — None = run-time panic *)\nDefinition %s (%s : bytes) : option bool :=\n%s.\n",
		p.pos(fd), strings.TrimSpace(strings.SplitN(p.src(fd), "{", 2)[0]), coqName, strings.Join(params, " "), body), nil
}

func genMatch(p *pkgInfo) (string, error) {
	var b strings.Builder
	b.WriteString(header("URI.PrefixMatch and URI.WildcardMatch of identifier.go.",
		"From Coq Require Import List Bool Ascii.\nFrom Nexus Require Import Wamp.UriRule Wamp.Match.\nImport ListNotations.\n"))
	for _, it := range [][2]string{{"URI.PrefixMatch", "gen_prefix_match"}, {"URI.WildcardMatch", "gen_wildcard_match"}} {
		txt, err := translateMatchFn(p, it[0], it[1])
		if err != nil {
			return "", err
		}
		b.WriteString(txt + "\n")
	}
	return b.String(), nil
}
