// genc19 — translator for property C19.
//
// Reads <repo>/wamp/*.go (go/parser + go/ast only) and writes three Coq files
// into -out:
//
//	GenC19Regex.v  the six regexp.MustCompile literals of identifier.go as
//	               [re cset] terms and the decision tree of URI.ValidURI
//	GenC19Arith.v  MaxID, deltaID, IDGen.Next, Session.IsNewRecvID,
//	               Session.UpdateLastRecvIDLocked, AsID, AsInt64, GlobalID
//	               statement by statement over N / Z with u64_add / u64_sub
//	               (explicit mod 2^64) wherever Go uint64 arithmetic occurs
//	GenC19Match.v  URI.PrefixMatch and URI.WildcardMatch
//
// Every part fails loudly on a source form it does not understand: the part's
// output then only holds the error text (dependent Coq files do not compile)
// and the exit status is 1.  A JSON status goes to stdout.
package main

import (
	"encoding/json"
	"flag"
	"fmt"
	"go/ast"
	"go/parser"
	"go/token"
	"math/big"
	"os"
	"path/filepath"
	"sort"
	"strconv"
	"strings"
)

type pkgInfo struct {
	fset   *token.FileSet
	files  map[string]*ast.File
	consts map[string]*ast.ValueSpec // name -> spec (with index)
	cidx   map[string]int
	vars   map[string]ast.Expr // package-level var name -> initialiser
	funcs  map[string]*ast.FuncDecl
	types  map[string]*ast.TypeSpec
}

func fail(format string, a ...interface{}) error { return fmt.Errorf(format, a...) }

func load(repo string) (*pkgInfo, error) {
	dir := filepath.Join(repo, "wamp")
	ents, err := os.ReadDir(dir)
	if err != nil {
		return nil, err
	}
	p := &pkgInfo{fset: token.NewFileSet(), files: map[string]*ast.File{}, consts: map[string]*ast.ValueSpec{},
		cidx: map[string]int{}, vars: map[string]ast.Expr{}, funcs: map[string]*ast.FuncDecl{}, types: map[string]*ast.TypeSpec{}}
	for _, e := range ents {
		n := e.Name()
		if e.IsDir() || !strings.HasSuffix(n, ".go") || strings.HasSuffix(n, "_test.go") {
			continue
		}
		f, err := parser.ParseFile(p.fset, filepath.Join(dir, n), nil, parser.ParseComments)
		if err != nil {
			return nil, err
		}
		if f.Name.Name != "wamp" {
			continue
		}
		p.files[n] = f
		for _, d := range f.Decls {
			switch d := d.(type) {
			case *ast.GenDecl:
				for _, s := range d.Specs {
					switch s := s.(type) {
					case *ast.ValueSpec:
						for i, name := range s.Names {
							if d.Tok == token.CONST {
								p.consts[name.Name] = s
								p.cidx[name.Name] = i
							} else if i < len(s.Values) && len(s.Names) == len(s.Values) {
								p.vars[name.Name] = s.Values[i]
							}
						}
					case *ast.TypeSpec:
						p.types[s.Name.Name] = s
					}
				}
			case *ast.FuncDecl:
				p.funcs[funcKey(d)] = d
			}
		}
	}
	return p, nil
}

func funcKey(d *ast.FuncDecl) string {
	if d.Recv == nil || len(d.Recv.List) == 0 {
		return d.Name.Name
	}
	t := d.Recv.List[0].Type
	if s, ok := t.(*ast.StarExpr); ok {
		t = s.X
	}
	if id, ok := t.(*ast.Ident); ok {
		return id.Name + "." + d.Name.Name
	}
	return "?." + d.Name.Name
}

func (p *pkgInfo) pos(n ast.Node) string {
	ps := p.fset.Position(n.Pos())
	return fmt.Sprintf("%s:%d", filepath.Base(ps.Filename), ps.Line)
}

func (p *pkgInfo) src(n ast.Node) string {
	ps, pe := p.fset.Position(n.Pos()), p.fset.Position(n.End())
	b, err := os.ReadFile(ps.Filename)
	if err != nil {
		return "?"
	}
	return string(b[ps.Offset:pe.Offset])
}

// ---------------------------------------------------------------------------
// constants

type constVal struct {
	isStr bool
	s     string
	i     *big.Int
	typ   string // "" untyped, else the Go type name
}

func (p *pkgInfo) constOf(name string, depth int) (*constVal, error) {
	if depth > 20 {
		return nil, fail("constant %s: cyclic", name)
	}
	s, ok := p.consts[name]
	if !ok {
		return nil, fail("constant %s not found", name)
	}
	i := p.cidx[name]
	if len(s.Values) != len(s.Names) {
		return nil, fail("%s: constant %s without its own initialiser (iota groups not modelled)", p.pos(s), name)
	}
	v, err := p.constExpr(s.Values[i], depth+1)
	if err != nil {
		return nil, err
	}
	if s.Type != nil {
		id, ok := s.Type.(*ast.Ident)
		if !ok {
			return nil, fail("%s: constant type not understood", p.pos(s))
		}
		v.typ = id.Name
	}
	return v, nil
}

func (p *pkgInfo) constExpr(e ast.Expr, depth int) (*constVal, error) {
	switch e := e.(type) {
	case *ast.ParenExpr:
		return p.constExpr(e.X, depth)
	case *ast.BasicLit:
		switch e.Kind {
		case token.INT:
			v, ok := new(big.Int).SetString(strings.ReplaceAll(e.Value, "_", ""), 0)
			if !ok {
				return nil, fail("%s: integer literal %s", p.pos(e), e.Value)
			}
			return &constVal{i: v}, nil
		case token.STRING:
			s, err := strconv.Unquote(e.Value)
			if err != nil {
				return nil, fail("%s: string literal %s", p.pos(e), e.Value)
			}
			return &constVal{isStr: true, s: s}, nil
		}
	case *ast.Ident:
		if e.Name == "iota" {
			return nil, fail("%s: iota not modelled", p.pos(e))
		}
		return p.constOf(e.Name, depth)
	case *ast.CallExpr: // conversion T(c)
		if id, ok := e.Fun.(*ast.Ident); ok && len(e.Args) == 1 {
			switch id.Name {
			case "ID", "uint64", "int64", "int", "uint", "URI", "string":
				v, err := p.constExpr(e.Args[0], depth)
				if err != nil {
					return nil, err
				}
				c := *v
				c.typ = id.Name
				return &c, nil
			}
		}
	case *ast.BinaryExpr:
		a, err := p.constExpr(e.X, depth)
		if err != nil {
			return nil, err
		}
		b, err := p.constExpr(e.Y, depth)
		if err != nil {
			return nil, err
		}
		if a.isStr || b.isStr {
			return nil, fail("%s: string constant arithmetic not modelled", p.pos(e))
		}
		r := new(big.Int)
		switch e.Op {
		case token.ADD:
			r.Add(a.i, b.i)
		case token.SUB:
			r.Sub(a.i, b.i)
		case token.MUL:
			r.Mul(a.i, b.i)
		case token.SHL:
			if !b.i.IsUint64() || b.i.Uint64() > 200 {
				return nil, fail("%s: shift count", p.pos(e))
			}
			r.Lsh(a.i, uint(b.i.Uint64()))
		default:
			return nil, fail("%s: constant operator %s not modelled", p.pos(e), e.Op)
		}
		t := a.typ
		if t == "" {
			t = b.typ
		}
		return &constVal{i: r, typ: t}, nil
	}
	return nil, fail("%s: constant expression %q not understood", p.pos(e), p.src(e))
}

// ---------------------------------------------------------------------------

type part struct {
	name string
	file string
	gen  func(*pkgInfo) (string, error)
}

func header(title string, reqs string) string {
	return "(* GENERATED by /verif/go/cmd/genc19 from /repo/wamp — do not edit. " + title + " *)\n" + reqs + "\n"
}

func main() {
	repo := flag.String("repo", "/repo", "repository root")
	out := flag.String("out", "", "output directory")
	flag.Parse()
	if *out == "" {
		fmt.Fprintln(os.Stderr, "genc19: -out required")
		os.Exit(2)
	}
	status := map[string]string{}
	p, err := load(*repo)
	parts := []part{
		{"regex", "GenC19Regex.v", genRegex},
		{"arith", "GenC19Arith.v", genArith},
		{"match", "GenC19Match.v", genMatch},
	}
	rc := 0
	for _, pt := range parts {
		var txt string
		var e error
		if err != nil {
			e = err
		} else {
			txt, e = safely(pt.gen, p)
		}
		if e != nil {
			rc = 1
			status[pt.name] = "error: " + e.Error()
			msg := strings.ReplaceAll(e.Error(), "*)", "* )")
			msg = strings.ReplaceAll(msg, "(*", "( *")
			txt = "(* GENERATED by /verif/go/cmd/genc19 — TRANSLATION FAILED, the tie to the source is broken:\n   " +
				msg + "\n   Files that Require the generated definitions will not compile. *)\n" +
				"Definition gen_c19_" + pt.name + "_translation_failed : unit := tt.\n"
		} else {
			status[pt.name] = "ok"
		}
		if werr := os.WriteFile(filepath.Join(*out, pt.file), []byte(txt), 0o644); werr != nil {
			fmt.Fprintln(os.Stderr, werr)
			os.Exit(2)
		}
	}
	keys := make([]string, 0, len(status))
	for k := range status {
		keys = append(keys, k)
	}
	sort.Strings(keys)
	b, _ := json.Marshal(status)
	fmt.Println(string(b))
	os.Exit(rc)
}

func safely(f func(*pkgInfo) (string, error), p *pkgInfo) (txt string, err error) {
	defer func() {
		if r := recover(); r != nil {
			err = fail("translator panic: %v", r)
		}
	}()
	return f(p)
}

// ---------------------------------------------------------------------------
// regex part

func coqString(s string) string {
	return "\"" + strings.ReplaceAll(s, "\"", "\"\"") + "\""
}

func genRegex(p *pkgInfo) (string, error) {
	// the match-policy constants must be what the rule says they are
	for name, want := range map[string]string{"MatchExact": "exact", "MatchPrefix": "prefix", "MatchWildcard": "wildcard"} {
		c, err := p.constOf(name, 0)
		if err != nil {
			return "", err
		}
		if !c.isStr || c.s != want {
			return "", fail("constant %s is %q, the model expects %q", name, c.s, want)
		}
	}
	// regexp.MustCompile literals
	var names []string
	terms := map[string]string{}
	lits := map[string]string{}
	for name, init := range p.vars {
		call, ok := init.(*ast.CallExpr)
		if !ok {
			continue
		}
		sel, ok := call.Fun.(*ast.SelectorExpr)
		if !ok {
			continue
		}
		x, ok := sel.X.(*ast.Ident)
		if !ok || x.Name != "regexp" {
			continue
		}
		if sel.Sel.Name != "MustCompile" || len(call.Args) != 1 {
			return "", fail("%s: %s is built by regexp.%s: only MustCompile(literal) is modelled (POSIX/longest-match semantics differ)", p.pos(call), name, sel.Sel.Name)
		}
		lit, ok := call.Args[0].(*ast.BasicLit)
		if !ok || lit.Kind != token.STRING {
			return "", fail("%s: argument of regexp.MustCompile for %s is not a string literal", p.pos(call), name)
		}
		s, err := strconv.Unquote(lit.Value)
		if err != nil {
			return "", fail("%s: %v", p.pos(lit), err)
		}
		n, err := parseRegex(s)
		if err != nil {
			return "", fail("%s: %s: %v", p.pos(lit), name, err)
		}
		names = append(names, name)
		terms[name] = n.coq()
		lits[name] = s
	}
	sort.Strings(names)
	fd, ok := p.funcs["URI.ValidURI"]
	if !ok {
		return "", fail("method URI.ValidURI not found")
	}
	tr := &uriTree{p: p, known: terms, used: map[string]bool{}}
	if err := tr.signature(fd); err != nil {
		return "", err
	}
	body, err := tr.stmts(fd.Body.List, 1)
	if err != nil {
		return "", err
	}
	var b strings.Builder
	b.WriteString(header("Regular expressions of identifier.go and the decision tree of URI.ValidURI.",
		"From Coq Require Import List Bool NArith String.\nFrom Nexus Require Import Wamp.Regex Wamp.UriRule.\nImport ListNotations.\nOpen Scope N_scope.\n"))
	for _, n := range names {
		fmt.Fprintf(&b, "(* %s = regexp.MustCompile(`%s`) *)\nDefinition gen_%s : re cset :=\n  %s.\n\n", n, strings.ReplaceAll(lits[n], "*)", "* )"), n, terms[n])
	}
	b.WriteString("Definition gen_regex_table : list (string * string) :=\n  [")
	for i, n := range names {
		if i > 0 {
			b.WriteString(";\n   ")
		}
		fmt.Fprintf(&b, "(%s, %s)", coqString(n), coqString(lits[n]))
	}
	b.WriteString("]%string.\n\n")
	b.WriteString("(* func (u URI) ValidURI(strict bool, match string) bool — match is abstracted to its policy:\n   \"wildcard\" -> MWildcard, \"prefix\" -> MPrefix, every other string -> MExact. *)\n")
	b.WriteString("Definition gen_select (strict : bool) (m : policy) : re cset :=\n" + body + ".\n\n")
	b.WriteString("Definition gen_valid_uri (strict : bool) (m : policy) (s : bytes) : bool :=\n  matches_b (gen_select strict m) s.\n\n")
	var used []string
	for _, n := range names {
		if tr.used[n] {
			used = append(used, "gen_"+n)
		}
	}
	b.WriteString("Definition gen_used_regexes : list (re cset) := [" + strings.Join(used, "; ") + "].\n")
	return b.String(), nil
}

type uriTree struct {
	p      *pkgInfo
	known  map[string]string
	used   map[string]bool
	recv   string
	strict string
	match  string
}

func (t *uriTree) signature(fd *ast.FuncDecl) error {
	p := t.p
	if fd.Recv == nil || len(fd.Recv.List) != 1 || len(fd.Recv.List[0].Names) != 1 {
		return fail("%s: ValidURI receiver not understood", p.pos(fd))
	}
	t.recv = fd.Recv.List[0].Names[0].Name
	var params []string
	var types []string
	for _, f := range fd.Type.Params.List {
		id, ok := f.Type.(*ast.Ident)
		if !ok {
			return fail("%s: ValidURI parameter type not understood", p.pos(f))
		}
		for _, n := range f.Names {
			params = append(params, n.Name)
			types = append(types, id.Name)
		}
	}
	if len(params) != 2 || types[0] != "bool" || types[1] != "string" {
		return fail("%s: ValidURI signature is not (strict bool, match string)", p.pos(fd))
	}
	t.strict, t.match = params[0], params[1]
	if fd.Type.Results == nil || len(fd.Type.Results.List) != 1 {
		return fail("%s: ValidURI result not understood", p.pos(fd))
	}
	return nil
}

func ind(n int) string { return strings.Repeat("  ", n) }

func (t *uriTree) stmts(list []ast.Stmt, depth int) (string, error) {
	p := t.p
	if len(list) == 0 {
		return "", fail("ValidURI: control reaches the end of a block without return")
	}
	switch s := list[0].(type) {
	case *ast.ReturnStmt:
		if len(s.Results) != 1 {
			return "", fail("%s: return form not understood", p.pos(s))
		}
		return t.ret(s.Results[0], depth)
	case *ast.IfStmt:
		if s.Init != nil {
			return "", fail("%s: if with init statement not understood", p.pos(s))
		}
		c, err := t.cond(s.Cond)
		if err != nil {
			return "", err
		}
		rest := list[1:]
		thenS, err := t.stmts(append(append([]ast.Stmt{}, s.Body.List...), rest...), depth+1)
		if err != nil {
			return "", err
		}
		var elseList []ast.Stmt
		switch e := s.Else.(type) {
		case nil:
		case *ast.BlockStmt:
			elseList = append(elseList, e.List...)
		case *ast.IfStmt:
			elseList = append(elseList, e)
		default:
			return "", fail("%s: else form not understood", p.pos(s))
		}
		elseS, err := t.stmts(append(elseList, rest...), depth+1)
		if err != nil {
			return "", err
		}
		return fmt.Sprintf("%sif %s then\n%s\n%selse\n%s", ind(depth), c, thenS, ind(depth), elseS), nil
	case *ast.SwitchStmt:
		if s.Init != nil || s.Tag == nil {
			return "", fail("%s: switch form not understood", p.pos(s))
		}
		id, ok := s.Tag.(*ast.Ident)
		if !ok || id.Name != t.match {
			return "", fail("%s: switch on something other than the match argument", p.pos(s))
		}
		// rewrite as an if-chain; default last
		var def []ast.Stmt
		hasDef := false
		type arm struct {
			cond string
			body []ast.Stmt
		}
		var arms []arm
		for _, cc := range s.Body.List {
			cl := cc.(*ast.CaseClause)
			for _, st := range cl.Body {
				if br, ok := st.(*ast.BranchStmt); ok {
					return "", fail("%s: %s inside switch not understood", p.pos(br), br.Tok)
				}
			}
			if cl.List == nil {
				hasDef = true
				def = cl.Body
				continue
			}
			var cs []string
			for _, e := range cl.List {
				c, err := t.policyConst(e)
				if err != nil {
					return "", err
				}
				cs = append(cs, "policy_eqb m "+c)
			}
			arms = append(arms, arm{"(" + strings.Join(cs, " || ") + ")", cl.Body})
		}
		rest := list[1:]
		var build func(i int, d int) (string, error)
		build = func(i int, d int) (string, error) {
			if i == len(arms) {
				if hasDef {
					return t.stmts(append(append([]ast.Stmt{}, def...), rest...), d)
				}
				return t.stmts(rest, d)
			}
			th, err := t.stmts(append(append([]ast.Stmt{}, arms[i].body...), rest...), d+1)
			if err != nil {
				return "", err
			}
			el, err := build(i+1, d+1)
			if err != nil {
				return "", err
			}
			return fmt.Sprintf("%sif %s then\n%s\n%selse\n%s", ind(d), arms[i].cond, th, ind(d), el), nil
		}
		return build(0, depth)
	}
	return "", fail("%s: statement %q in ValidURI not understood", p.pos(list[0]), p.src(list[0]))
}

func (t *uriTree) policyConst(e ast.Expr) (string, error) {
	p := t.p
	var c *constVal
	var err error
	switch e := e.(type) {
	case *ast.Ident:
		c, err = p.constOf(e.Name, 0)
	case *ast.BasicLit:
		c, err = p.constExpr(e, 0)
	default:
		err = fail("%s: match compared with %q: not understood", p.pos(e), p.src(e))
	}
	if err != nil {
		return "", err
	}
	if !c.isStr {
		return "", fail("%s: match compared with a non-string", p.pos(e))
	}
	switch c.s {
	case "wildcard":
		return "MWildcard", nil
	case "prefix":
		return "MPrefix", nil
	}
	return "", fail("%s: match compared with %q: the model abstracts every string other than \"wildcard\"/\"prefix\" to the exact policy, so this comparison cannot be represented", p.pos(e), c.s)
}

func (t *uriTree) cond(e ast.Expr) (string, error) {
	p := t.p
	switch e := e.(type) {
	case *ast.ParenExpr:
		return t.cond(e.X)
	case *ast.Ident:
		if e.Name == t.strict {
			return "strict", nil
		}
	case *ast.UnaryExpr:
		if e.Op == token.NOT {
			c, err := t.cond(e.X)
			if err != nil {
				return "", err
			}
			return "negb (" + c + ")", nil
		}
	case *ast.BinaryExpr:
		switch e.Op {
		case token.LAND, token.LOR:
			a, err := t.cond(e.X)
			if err != nil {
				return "", err
			}
			b, err := t.cond(e.Y)
			if err != nil {
				return "", err
			}
			op := "&&"
			if e.Op == token.LOR {
				op = "||"
			}
			return "((" + a + ") " + op + " (" + b + "))", nil
		case token.EQL, token.NEQ:
			x, y := e.X, e.Y
			if id, ok := y.(*ast.Ident); ok && id.Name == t.match {
				x, y = y, x
			}
			id, ok := x.(*ast.Ident)
			if ok && id.Name == t.match {
				c, err := t.policyConst(y)
				if err != nil {
					return "", err
				}
				if e.Op == token.EQL {
					return "policy_eqb m " + c, nil
				}
				return "negb (policy_eqb m " + c + ")", nil
			}
			// strict == true etc.
			if ok && id.Name == t.strict {
				if lit, ok := y.(*ast.Ident); ok && (lit.Name == "true" || lit.Name == "false") {
					pos := (lit.Name == "true") == (e.Op == token.EQL)
					if pos {
						return "strict", nil
					}
					return "negb strict", nil
				}
			}
		}
	}
	return "", fail("%s: condition %q in ValidURI not understood", p.pos(e), p.src(e))
}

func (t *uriTree) ret(e ast.Expr, depth int) (string, error) {
	p := t.p
	if id, ok := e.(*ast.Ident); ok && (id.Name == "true" || id.Name == "false") {
		if id.Name == "true" {
			return "", fail("%s: ValidURI returns the constant true: accepts every string (no finite expression emitted)", p.pos(e))
		}
		return ind(depth) + "Emp", nil
	}
	call, ok := e.(*ast.CallExpr)
	if ok && len(call.Args) == 1 {
		if sel, ok := call.Fun.(*ast.SelectorExpr); ok && sel.Sel.Name == "MatchString" {
			if x, ok := sel.X.(*ast.Ident); ok {
				if _, known := t.known[x.Name]; known {
					// argument must be string(u) (or u) for the receiver u
					arg := call.Args[0]
					if c, ok := arg.(*ast.CallExpr); ok && len(c.Args) == 1 {
						if f, ok := c.Fun.(*ast.Ident); ok && f.Name == "string" {
							arg = c.Args[0]
						}
					}
					if a, ok := arg.(*ast.Ident); ok && a.Name == t.recv {
						t.used[x.Name] = true
						return ind(depth) + "gen_" + x.Name, nil
					}
				}
			}
		}
	}
	return "", fail("%s: return %q in ValidURI not understood (expected <regex>.MatchString(string(%s)))", p.pos(e), p.src(e), t.recv)
}
