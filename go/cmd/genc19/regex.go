package main

// Parser for the RE2 subset used by /repo/wamp/identifier.go, producing the
// Coq term of type [re cset] (coq/Wamp/Regex.v, UriRule.v).
//
// Accepted: ASCII literals, escapes (\. \# ... punctuation, \t \n \f \r \v \a,
// \xHH, \x{HH}, \s \S \d \D \w \W), classes [...] and [^...] of ASCII
// characters, ranges and the escapes \s \d \w, groups ( ) and (?: ),
// alternation |, postfix * + ? {n} {n,} {n,m}, and the anchors ^ (first
// character only) and $ (last character only), both required.
//
// Rejected loudly (the byte-level reading in coq/Wamp/Regex.v would not be
// justified, or the construct is simply not modelled): '.', non-ASCII
// characters, flags (?i) etc., lazy quantifiers, \b \B \A \z \pN \Q..\E,
// POSIX classes [:alpha:], negated Perl classes inside [...], anchors
// anywhere else, back-references.

import (
	"fmt"
	"strings"
)

type rng struct{ lo, hi int }

type reNode struct {
	kind string // emp eps chr cat alt star plus opt
	neg  bool
	rs   []rng
	a, b *reNode
}

type reParser struct {
	s   string
	pos int
}

func reErr(format string, a ...interface{}) error {
	return fmt.Errorf("regex: "+format, a...)
}

var wsRanges = []rng{{9, 10}, {12, 13}, {32, 32}} // RE2 \s = [\t\n\f\r ]
var digitRanges = []rng{{48, 57}}
var wordRanges = []rng{{48, 57}, {65, 90}, {97, 122}, {95, 95}}

func parseRegex(lit string) (*reNode, error) {
	for i := 0; i < len(lit); i++ {
		if lit[i] >= 0x80 {
			return nil, reErr("non-ASCII byte 0x%02x at %d in %q: byte-level reading not justified", lit[i], i, lit)
		}
	}
	if len(lit) < 2 || lit[0] != '^' || lit[len(lit)-1] != '$' || (len(lit) >= 3 && lit[len(lit)-2] == '\\' && !evenBackslashesBefore(lit, len(lit)-1)) {
		return nil, reErr("expression %q is not anchored as ^...$", lit)
	}
	p := &reParser{s: lit[1 : len(lit)-1]}
	n, err := p.alt()
	if err != nil {
		return nil, err
	}
	if p.pos != len(p.s) {
		return nil, reErr("unexpected %q at %d in %q", p.s[p.pos], p.pos+1, lit)
	}
	return n, nil
}

// evenBackslashesBefore reports whether the character at i is unescaped.
func evenBackslashesBefore(s string, i int) bool {
	n := 0
	for j := i - 1; j >= 0 && s[j] == '\\'; j-- {
		n++
	}
	return n%2 == 0
}

func (p *reParser) more() bool { return p.pos < len(p.s) }
func (p *reParser) peek() byte { return p.s[p.pos] }

func (p *reParser) alt() (*reNode, error) {
	n, err := p.concat()
	if err != nil {
		return nil, err
	}
	for p.more() && p.peek() == '|' {
		p.pos++
		m, err := p.concat()
		if err != nil {
			return nil, err
		}
		n = &reNode{kind: "alt", a: n, b: m}
	}
	return n, nil
}

func (p *reParser) concat() (*reNode, error) {
	var items []*reNode
	for p.more() && p.peek() != '|' && p.peek() != ')' {
		n, err := p.repeat()
		if err != nil {
			return nil, err
		}
		items = append(items, n)
	}
	if len(items) == 0 {
		return &reNode{kind: "eps"}, nil
	}
	n := items[len(items)-1]
	for i := len(items) - 2; i >= 0; i-- {
		n = &reNode{kind: "cat", a: items[i], b: n}
	}
	return n, nil
}

func catList(items []*reNode) *reNode {
	if len(items) == 0 {
		return &reNode{kind: "eps"}
	}
	n := items[len(items)-1]
	for i := len(items) - 2; i >= 0; i-- {
		n = &reNode{kind: "cat", a: items[i], b: n}
	}
	return n
}

func (p *reParser) repeat() (*reNode, error) {
	n, err := p.atom()
	if err != nil {
		return nil, err
	}
	for p.more() {
		c := p.peek()
		switch c {
		case '*':
			n = &reNode{kind: "star", a: n}
		case '+':
			n = &reNode{kind: "plus", a: n}
		case '?':
			n = &reNode{kind: "opt", a: n}
		case '{':
			end := strings.IndexByte(p.s[p.pos:], '}')
			if end < 0 {
				return nil, reErr("unterminated {..} at %d", p.pos+1)
			}
			body := p.s[p.pos+1 : p.pos+end]
			lo, hi, err := parseCount(body)
			if err != nil {
				return nil, err
			}
			var items []*reNode
			for i := 0; i < lo; i++ {
				items = append(items, n)
			}
			if hi < 0 {
				items = append(items, &reNode{kind: "star", a: n})
			} else {
				for i := lo; i < hi; i++ {
					items = append(items, &reNode{kind: "opt", a: n})
				}
			}
			n = catList(items)
			p.pos += end // the closing brace is consumed below
		default:
			return n, nil
		}
		p.pos++
		if p.more() && (p.peek() == '?' || p.peek() == '+') && (c == '*' || c == '+' || c == '?' || c == '{') {
			if p.peek() == '?' {
				return nil, reErr("lazy quantifier at %d not modelled", p.pos+1)
			}
			return nil, reErr("possessive/double quantifier at %d not modelled", p.pos+1)
		}
	}
	return n, nil
}

func parseCount(body string) (int, int, error) {
	num := func(s string) (int, error) {
		if s == "" || len(s) > 2 {
			return 0, reErr("repetition count %q not modelled", s)
		}
		v := 0
		for _, c := range s {
			if c < '0' || c > '9' {
				return 0, reErr("bad repetition count %q", s)
			}
			v = v*10 + int(c-'0')
		}
		return v, nil
	}
	parts := strings.Split(body, ",")
	switch len(parts) {
	case 1:
		v, err := num(parts[0])
		return v, v, err
	case 2:
		lo, err := num(parts[0])
		if err != nil {
			return 0, 0, err
		}
		if parts[1] == "" {
			return lo, -1, nil
		}
		hi, err := num(parts[1])
		if err != nil {
			return 0, 0, err
		}
		if hi < lo {
			return 0, 0, reErr("bad repetition {%s}", body)
		}
		return lo, hi, nil
	}
	return 0, 0, reErr("bad repetition {%s}", body)
}

func single(c int) *reNode { return &reNode{kind: "chr", rs: []rng{{c, c}}} }

func (p *reParser) atom() (*reNode, error) {
	c := p.peek()
	switch c {
	case '(':
		p.pos++
		if strings.HasPrefix(p.s[p.pos:], "?:") {
			p.pos += 2
		} else if p.more() && p.peek() == '?' {
			return nil, reErr("group flags / named groups at %d not modelled", p.pos+1)
		}
		n, err := p.alt()
		if err != nil {
			return nil, err
		}
		if !p.more() || p.peek() != ')' {
			return nil, reErr("missing ) at %d", p.pos+1)
		}
		p.pos++
		return n, nil
	case '[':
		return p.class()
	case '\\':
		neg, rs, err := p.escape(false)
		if err != nil {
			return nil, err
		}
		return &reNode{kind: "chr", neg: neg, rs: rs}, nil
	case '.':
		return nil, reErr("'.' (any character) at %d: matches one rune, not one byte; not modelled", p.pos+1)
	case '^', '$':
		return nil, reErr("anchor %q at %d other than at the two ends", c, p.pos+1)
	case '*', '+', '?', '{', '}', ')', ']', '|':
		return nil, reErr("unexpected %q at %d", c, p.pos+1)
	}
	p.pos++
	return single(int(c)), nil
}

// escape parses a backslash escape at p.pos; inClass restricts what is allowed.
func (p *reParser) escape(inClass bool) (bool, []rng, error) {
	p.pos++ // the backslash
	if !p.more() {
		return false, nil, reErr("trailing backslash")
	}
	c := p.peek()
	p.pos++
	switch c {
	case 's':
		return false, wsRanges, nil
	case 'd':
		return false, digitRanges, nil
	case 'w':
		return false, wordRanges, nil
	case 'S', 'D', 'W':
		if inClass {
			return false, nil, reErr("negated Perl class \\%c inside [...] not modelled", c)
		}
		switch c {
		case 'S':
			return true, wsRanges, nil
		case 'D':
			return true, digitRanges, nil
		}
		return true, wordRanges, nil
	case 't':
		return false, []rng{{9, 9}}, nil
	case 'n':
		return false, []rng{{10, 10}}, nil
	case 'f':
		return false, []rng{{12, 12}}, nil
	case 'r':
		return false, []rng{{13, 13}}, nil
	case 'v':
		return false, []rng{{11, 11}}, nil
	case 'a':
		return false, []rng{{7, 7}}, nil
	case 'x':
		hex := ""
		if p.more() && p.peek() == '{' {
			end := strings.IndexByte(p.s[p.pos:], '}')
			if end < 0 {
				return false, nil, reErr("bad \\x{..}")
			}
			hex = p.s[p.pos+1 : p.pos+end]
			p.pos += end + 1
		} else {
			if p.pos+2 > len(p.s) {
				return false, nil, reErr("bad \\x escape")
			}
			hex = p.s[p.pos : p.pos+2]
			p.pos += 2
		}
		v := 0
		if hex == "" || len(hex) > 2 {
			return false, nil, reErr("\\x{%s}: only ASCII code points are modelled", hex)
		}
		for _, h := range hex {
			d := strings.IndexRune("0123456789abcdef", h|0x20)
			if h >= '0' && h <= '9' {
				d = int(h - '0')
			}
			if d < 0 {
				return false, nil, reErr("bad hex digit %q", h)
			}
			v = v*16 + d
		}
		if v >= 0x80 {
			return false, nil, reErr("\\x%s: only ASCII code points are modelled", hex)
		}
		return false, []rng{{v, v}}, nil
	}
	if c < 0x80 && !(c >= '0' && c <= '9') && !(c >= 'a' && c <= 'z') && !(c >= 'A' && c <= 'Z') {
		return false, []rng{{int(c), int(c)}}, nil // escaped punctuation
	}
	return false, nil, reErr("escape \\%c not modelled", c)
}

func (p *reParser) class() (*reNode, error) {
	p.pos++ // [
	n := &reNode{kind: "chr"}
	if p.more() && p.peek() == '^' {
		n.neg = true
		p.pos++
	}
	first := true
	for {
		if !p.more() {
			return nil, reErr("missing ]")
		}
		c := p.peek()
		if c == ']' && !first {
			p.pos++
			break
		}
		if c == ']' {
			return nil, reErr("literal ] at the start of a class not modelled")
		}
		first = false
		if c == '[' {
			if p.pos+1 < len(p.s) && p.s[p.pos+1] == ':' {
				return nil, reErr("POSIX class at %d not modelled", p.pos+1)
			}
		}
		var lo int
		if c == '\\' {
			neg, rs, err := p.escape(true)
			if err != nil {
				return nil, err
			}
			_ = neg
			if len(rs) != 1 || rs[0].lo != rs[0].hi {
				n.rs = append(n.rs, rs...)
				if p.more() && p.peek() == '-' && p.pos+1 < len(p.s) && p.s[p.pos+1] != ']' {
					return nil, reErr("range starting at a class escape")
				}
				continue
			}
			lo = rs[0].lo
		} else {
			lo = int(c)
			p.pos++
		}
		hi := lo
		if p.more() && p.peek() == '-' && p.pos+1 < len(p.s) && p.s[p.pos+1] != ']' {
			p.pos++
			d := p.peek()
			if d == '\\' {
				_, rs, err := p.escape(true)
				if err != nil {
					return nil, err
				}
				if len(rs) != 1 || rs[0].lo != rs[0].hi {
					return nil, reErr("range ending at a class escape")
				}
				hi = rs[0].lo
			} else {
				hi = int(d)
				p.pos++
			}
			if hi < lo {
				return nil, reErr("bad range %c-%c", lo, hi)
			}
		}
		n.rs = append(n.rs, rng{lo, hi})
	}
	return n, nil
}

// coq renders the node as a term of type [re cset].
func (n *reNode) coq() string {
	switch n.kind {
	case "emp":
		return "Emp"
	case "eps":
		return "Eps"
	case "chr":
		var rs []string
		for _, r := range n.rs {
			rs = append(rs, fmt.Sprintf("(%d,%d)", r.lo, r.hi))
		}
		neg := "false"
		if n.neg {
			neg = "true"
		}
		return fmt.Sprintf("(Chr (CSet %s [%s]))", neg, strings.Join(rs, ";"))
	case "cat":
		return fmt.Sprintf("(Cat %s %s)", n.a.coq(), n.b.coq())
	case "alt":
		return fmt.Sprintf("(Alt %s %s)", n.a.coq(), n.b.coq())
	case "star":
		return fmt.Sprintf("(Star %s)", n.a.coq())
	case "plus":
		return fmt.Sprintf("(re_plus %s)", n.a.coq())
	case "opt":
		return fmt.Sprintf("(re_opt %s)", n.a.coq())
	}
	panic("bad node kind " + n.kind)
}
