// genc08 - translator for property C08 (per-peer ordering).
//
// Reads <repo>/router/*.go (non-test) and <repo>/transport/localpeer.go with
// go/parser and emits
//
//	-coq  <file>   coq/gen/GenC08Sites.v : gen_sites, gen_submits, gen_shape
//	-json <file>   the same facts for the check's diagnosis
//
// What it extracts
//
//   - every client-facing send (a send statement or select-send on X.Send()
//     where X is not the realm's meta peer, directly or through a function
//     that forwards one of its parameters to such a send, e.g. trySend), with
//     the message kind, the enclosing function, the send form and the
//     goroutine(s) the enclosing function runs in.  Closures sent on an
//     actionChan are attributed to the worker that executes them; literals
//     started with "go" are goroutines of their own; everything else follows
//     the static call graph of package router.
//   - every hand-over "X.actionChan <- func(){...}": worker, goroutine of the
//     hand-over statement, whether the function then waits on a channel the
//     closure closes / sends on, and the kinds the closure can send.
//   - shape facts: actionChan unbuffered, worker loop sequential, number of
//     workers, single handler loop without go statements, one handler
//     goroutine per session, localPeer queue is a Go channel.
//
// Anything it depends on and does not understand is a fatal error (exit 2):
// the check then reports a broken tie.
package main

import (
	"encoding/json"
	"flag"
	"fmt"
	"go/ast"
	"go/parser"
	"go/token"
	"os"
	"path/filepath"
	"sort"
	"strings"
)

type gor string

const (
	GBroker   gor = "GBroker"
	GDealer   gor = "GDealer"
	GRealm    gor = "GRealm"
	GHandler  gor = "GHandler"
	GMetaProc gor = "GMetaProc"
	GSpawned  gor = "GSpawned"
	GApi      gor = "GApi"
)

type fn struct {
	key      string
	recvType string
	ftype    *ast.FuncType
	body     *ast.BlockStmt
	root     *fn  // enclosing declared function (itself for declarations)
	fixed    gor  // fixed goroutine for pseudo functions (submitted closures, go literals)
	env      map[string]string
	calls    []*callEdge
	sends    []*rawSend
	fwdCalls []*fwdCall
	ctx      map[gor]bool
	pos      token.Pos
}

type callEdge struct {
	to   string
	args []ast.Expr
	pos  token.Pos
}

type rawSend struct {
	val  ast.Expr
	form string
	pos  token.Pos
	in   *fn
}

type fwdCall struct { // call of a (possible) forwarder, resolved late
	callee string
	args   []ast.Expr
	pos    token.Pos
	in     *fn
}

type forwarder struct {
	param int
	form  string
}

type Site struct {
	Kind string `json:"kind"`
	Gor  string `json:"gor"`
	Form string `json:"form"`
	Func string `json:"func"`
	File string `json:"file"`
	Line int    `json:"line"`
}

type Submit struct {
	Worker string   `json:"worker"`
	From   string   `json:"from"`
	Waits  bool     `json:"waits"`
	Kinds  []string `json:"kinds"`
	Func   string   `json:"func"`
	File   string   `json:"file"`
	Line   int      `json:"line"`
	Plain  bool     `json:"plain"`
}

type Shape struct {
	BrokerUnbuffered   bool `json:"broker_unbuffered"`
	DealerUnbuffered   bool `json:"dealer_unbuffered"`
	BrokerSequential   bool `json:"broker_sequential"`
	DealerSequential   bool `json:"dealer_sequential"`
	BrokerWorkers      int  `json:"broker_workers"`
	DealerWorkers      int  `json:"dealer_workers"`
	HandlerSingleLoop  bool `json:"handler_single_loop"`
	HandlerPerSession  int  `json:"handler_per_session"`
	SubmitPlain        bool `json:"submit_plain"`
	PeerFifoChan       bool `json:"peer_fifo_chan"`
}

var (
	fset      = token.NewFileSet()
	fns       = map[string]*fn{}
	order     []string
	structs   = map[string]map[string]string{} // type -> field -> type
	methodsOf = map[string]map[string]bool{}   // method name -> set of receiver types
	pseudoN   int
	submits   []*submitRaw
	goCalls   []*goCall // "go x.f()" statements
	unresolved []string
	fatalList []string
)

type submitRaw struct {
	worker gor
	in     *fn
	lit    *fn
	waits  bool
	plain  bool
	pos    token.Pos
}

type goCall struct {
	target string
	in     *fn
	inLoop bool
	pos    token.Pos
}

func fatal(format string, a ...any) {
	fatalList = append(fatalList, fmt.Sprintf(format, a...))
}

func posStr(p token.Pos) string {
	q := fset.Position(p)
	return fmt.Sprintf("%s:%d", filepath.Base(q.Filename), q.Line)
}

// ---------------------------------------------------------------- types

func typeName(e ast.Expr) string {
	switch t := e.(type) {
	case *ast.StarExpr:
		return typeName(t.X)
	case *ast.Ident:
		return t.Name
	case *ast.SelectorExpr:
		if x, ok := t.X.(*ast.Ident); ok {
			return x.Name + "." + t.Sel.Name
		}
	case *ast.ChanType:
		return "chan"
	case *ast.FuncType:
		return "func"
	case *ast.ArrayType:
		return "[]" + typeName(t.Elt)
	case *ast.MapType:
		return "map:" + typeName(t.Value)
	case *ast.InterfaceType:
		return "interface"
	}
	return ""
}

func isChanType(e ast.Expr) bool {
	_, ok := e.(*ast.ChanType)
	return ok
}

// ---------------------------------------------------------------- loading

func load(dir string, only func(string) bool) []*ast.File {
	ents, err := os.ReadDir(dir)
	if err != nil {
		fmt.Fprintln(os.Stderr, "genc08:", err)
		os.Exit(2)
	}
	var files []*ast.File
	for _, e := range ents {
		n := e.Name()
		if !strings.HasSuffix(n, ".go") || strings.HasSuffix(n, "_test.go") || !only(n) {
			continue
		}
		f, err := parser.ParseFile(fset, filepath.Join(dir, n), nil, parser.ParseComments)
		if err != nil {
			fmt.Fprintln(os.Stderr, "genc08: parse:", err)
			os.Exit(2)
		}
		// honour build constraints of the form "//go:build verif" (hooks) by skipping them:
		// the attribution must hold for the production build
		skip := false
		for _, cg := range f.Comments {
			for _, c := range cg.List {
				if strings.HasPrefix(c.Text, "//go:build") && strings.Contains(c.Text, "verif") && c.Pos() < f.Package {
					skip = true
				}
			}
		}
		if !skip {
			files = append(files, f)
		}
	}
	return files
}

func declare(files []*ast.File) {
	for _, f := range files {
		for _, d := range f.Decls {
			switch d := d.(type) {
			case *ast.GenDecl:
				for _, s := range d.Specs {
					ts, ok := s.(*ast.TypeSpec)
					if !ok {
						continue
					}
					st, ok := ts.Type.(*ast.StructType)
					if !ok {
						continue
					}
					m := map[string]string{}
					for _, fl := range st.Fields.List {
						for _, n := range fl.Names {
							m[n.Name] = typeName(fl.Type)
						}
					}
					structs[ts.Name.Name] = m
				}
			case *ast.FuncDecl:
				if d.Body == nil {
					continue
				}
				f := &fn{ftype: d.Type, body: d.Body, env: map[string]string{}, ctx: map[gor]bool{}, pos: d.Pos()}
				f.root = f
				if d.Recv != nil && len(d.Recv.List) == 1 {
					f.recvType = typeName(d.Recv.List[0].Type)
					if len(d.Recv.List[0].Names) == 1 {
						f.env[d.Recv.List[0].Names[0].Name] = f.recvType
					}
					f.key = f.recvType + "." + d.Name.Name
					if methodsOf[d.Name.Name] == nil {
						methodsOf[d.Name.Name] = map[string]bool{}
					}
					methodsOf[d.Name.Name][f.recvType] = true
				} else {
					f.key = d.Name.Name
				}
				bindParams(f, d.Type)
				fns[f.key] = f
				order = append(order, f.key)
			}
		}
	}
}

func bindParams(f *fn, t *ast.FuncType) {
	if t.Params == nil {
		return
	}
	for _, p := range t.Params.List {
		for _, n := range p.Names {
			f.env[n.Name] = typeName(p.Type)
		}
	}
}

func paramIndex(t *ast.FuncType, name string) int {
	i := 0
	if t.Params == nil {
		return -1
	}
	for _, p := range t.Params.List {
		if len(p.Names) == 0 {
			i++
			continue
		}
		for _, n := range p.Names {
			if n.Name == name {
				return i
			}
			i++
		}
	}
	return -1
}

// ---------------------------------------------------------------- expression typing (syntactic)

func resultType(f *fn) string {
	if f == nil || f.ftype.Results == nil || len(f.ftype.Results.List) == 0 {
		return ""
	}
	return typeName(f.ftype.Results.List[0].Type)
}

func resultTypes(f *fn) []string {
	var res []string
	if f == nil || f.ftype.Results == nil {
		return res
	}
	for _, r := range f.ftype.Results.List {
		n := len(r.Names)
		if n == 0 {
			n = 1
		}
		for i := 0; i < n; i++ {
			res = append(res, typeName(r.Type))
		}
	}
	return res
}

func lookupVar(f *fn, name string) string {
	for g := f; g != nil; {
		if t, ok := g.env[name]; ok {
			return t
		}
		if g.root == g {
			break
		}
		g = g.root
	}
	if f.root != nil {
		if t, ok := f.root.env[name]; ok {
			return t
		}
	}
	return ""
}

func exprType(e ast.Expr, f *fn) string {
	switch x := e.(type) {
	case *ast.ParenExpr:
		return exprType(x.X, f)
	case *ast.StarExpr:
		return exprType(x.X, f)
	case *ast.UnaryExpr:
		return exprType(x.X, f)
	case *ast.Ident:
		return lookupVar(f, x.Name)
	case *ast.CompositeLit:
		return typeName(x.Type)
	case *ast.SelectorExpr:
		bt := exprType(x.X, f)
		if flds, ok := structs[bt]; ok {
			return flds[x.Sel.Name]
		}
		return ""
	case *ast.CallExpr:
		if k := calleeKey(x, f); k != "" {
			if strings.HasPrefix(k, "local:") {
				return ""
			}
			return resultType(fns[k])
		}
	case *ast.TypeAssertExpr:
		if x.Type != nil {
			return typeName(x.Type)
		}
	}
	return ""
}

// calleeKey resolves a call to a function of the package ("" when it is not one,
// or cannot be resolved).
func calleeKey(c *ast.CallExpr, f *fn) string {
	switch fun := c.Fun.(type) {
	case *ast.Ident:
		if _, ok := fns[fun.Name]; ok {
			return fun.Name
		}
		return ""
	case *ast.SelectorExpr:
		bt := exprType(fun.X, f)
		if bt != "" {
			if _, ok := fns[bt+"."+fun.Sel.Name]; ok {
				return bt + "." + fun.Sel.Name
			}
			return ""
		}
		// receiver type unknown: remember when the name is a method of the package
		if id, ok := fun.X.(*ast.Ident); ok && (id.Name == "wamp" || id.Name == "fmt" || id.Name == "time" ||
			id.Name == "strings" || id.Name == "errors" || id.Name == "context" || id.Name == "rand" ||
			id.Name == "transport" || id.Name == "slices" || id.Name == "maps" || id.Name == "auth" ||
			id.Name == "serialize" || id.Name == "http" || id.Name == "net" || id.Name == "tls" ||
			id.Name == "websocket" || id.Name == "os" || id.Name == "log" || id.Name == "sync" ||
			id.Name == "atomic" || id.Name == "stdlog" || id.Name == "deque" || id.Name == "io") {
			return ""
		}
		if ts, ok := methodsOf[fun.Sel.Name]; ok && len(ts) > 0 {
			unresolved = append(unresolved, fmt.Sprintf("%s %s", posStr(c.Pos()), exprStr(c.Fun)))
			return "?" + fun.Sel.Name
		}
	}
	return ""
}

func exprStr(e ast.Expr) string {
	switch x := e.(type) {
	case *ast.Ident:
		return x.Name
	case *ast.SelectorExpr:
		return exprStr(x.X) + "." + x.Sel.Name
	case *ast.CallExpr:
		return exprStr(x.Fun) + "()"
	case *ast.StarExpr:
		return "*" + exprStr(x.X)
	case *ast.UnaryExpr:
		return x.Op.String() + exprStr(x.X)
	case *ast.ParenExpr:
		return "(" + exprStr(x.X) + ")"
	case *ast.IndexExpr:
		return exprStr(x.X) + "[...]"
	}
	return fmt.Sprintf("%T", e)
}

// ---------------------------------------------------------------- walking

type wstate struct {
	inLoop bool
}

// channel roles
func chanRole(ch ast.Expr, f *fn) (role string, worker gor) {
	switch x := ch.(type) {
	case *ast.CallExpr: // X.Send()
		if sel, ok := x.Fun.(*ast.SelectorExpr); ok && sel.Sel.Name == "Send" && len(x.Args) == 0 {
			if strings.Contains(exprStr(sel.X), "metaPeer") {
				return "meta", ""
			}
			return "client", ""
		}
	case *ast.SelectorExpr:
		if x.Sel.Name == "actionChan" {
			switch exprType(x.X, f) {
			case "broker":
				return "action", GBroker
			case "dealer":
				return "action", GDealer
			case "realm":
				return "action", GRealm
			case "router":
				return "action", "GRouter"
			default:
				fatal("%s: actionChan of unknown owner %s", posStr(ch.Pos()), exprStr(x.X))
				return "action", "?"
			}
		}
	}
	return "local", ""
}

func escaped(lit *ast.FuncLit, f *fn) {
	p := newPseudo(f, lit, GSpawned, "escaped")
	walkStmts(lit.Body.List, p, wstate{})
}

func newPseudo(parent *fn, lit *ast.FuncLit, fixed gor, tag string) *fn {
	pseudoN++
	p := &fn{key: fmt.Sprintf("%s$%s%d", parent.root.key, tag, pseudoN), ftype: lit.Type, body: lit.Body,
		root: parent.root, fixed: fixed, env: map[string]string{}, ctx: map[gor]bool{}, pos: lit.Pos(),
		recvType: parent.recvType}
	// closures see the variables of the enclosing function
	for k, v := range parent.env {
		p.env[k] = v
	}
	bindParams(p, lit.Type)
	fns[p.key] = p
	order = append(order, p.key)
	return p
}

func callsName(body ast.Node, name string) bool {
	found := false
	ast.Inspect(body, func(n ast.Node) bool {
		if c, ok := n.(*ast.CallExpr); ok {
			if s, ok := c.Fun.(*ast.SelectorExpr); ok && s.Sel.Name == name {
				found = true
			}
			if id, ok := c.Fun.(*ast.Ident); ok && id.Name == name {
				found = true
			}
		}
		return true
	})
	return found
}

func walkBlockForWaits(stmts []ast.Stmt, idx int, lit *ast.FuncLit) bool {
	// channels the closure closes or sends on
	sig := map[string]bool{}
	ast.Inspect(lit.Body, func(n ast.Node) bool {
		switch x := n.(type) {
		case *ast.CallExpr:
			if id, ok := x.Fun.(*ast.Ident); ok && id.Name == "close" && len(x.Args) == 1 {
				if a, ok := x.Args[0].(*ast.Ident); ok {
					sig[a.Name] = true
				}
			}
		case *ast.SendStmt:
			if a, ok := x.Chan.(*ast.Ident); ok {
				sig[a.Name] = true
			}
		}
		return true
	})
	for _, s := range stmts[idx+1:] {
		w := false
		ast.Inspect(s, func(n ast.Node) bool {
			if _, ok := n.(*ast.FuncLit); ok {
				return false
			}
			if u, ok := n.(*ast.UnaryExpr); ok && u.Op == token.ARROW {
				if a, ok := u.X.(*ast.Ident); ok && sig[a.Name] {
					w = true
				}
			}
			return true
		})
		if w {
			return true
		}
	}
	return false
}

func (f *fn) assign(lhs ast.Expr, rhs ast.Expr) {
	id, ok := lhs.(*ast.Ident)
	if !ok || id.Name == "_" {
		return
	}
	if t := exprType(rhs, f); t != "" {
		if _, had := f.env[id.Name]; !had {
			f.env[id.Name] = t
		}
	}
	if lit, ok := rhs.(*ast.FuncLit); ok {
		f.env[id.Name] = "func"
		localLits[f.root.key+"/"+id.Name] = lit
	}
}

var localLits = map[string]*ast.FuncLit{}

func walkStmts(list []ast.Stmt, f *fn, ws wstate) {
	for i, s := range list {
		// hand-over statement?
		if ss, ok := s.(*ast.SendStmt); ok {
			if role, worker := chanRole(ss.Chan, f); role == "action" {
				handOver(ss, worker, f, list, i, true)
				continue
			}
		}
		walk(s, f, ws)
	}
}

func handOver(ss *ast.SendStmt, worker gor, f *fn, list []ast.Stmt, idx int, plain bool) {
	lit, ok := ss.Value.(*ast.FuncLit)
	if !ok {
		if worker == "GRouter" {
			// the router's own goroutine (realm table) is not part of this property
			return
		}
		fatal("%s: value sent on an actionChan is not a function literal (%s)", posStr(ss.Pos()), exprStr(ss.Value))
		return
	}
	p := newPseudo(f, lit, worker, "action")
	waits := false
	if list != nil {
		waits = walkBlockForWaits(list, idx, lit)
	}
	submits = append(submits, &submitRaw{worker: worker, in: f, lit: p, waits: waits, plain: plain, pos: ss.Pos()})
	walkStmts(lit.Body.List, p, wstate{})
}

func walk(n ast.Node, f *fn, ws wstate) {
	switch x := n.(type) {
	case nil:
		return
	case *ast.BlockStmt:
		if x != nil {
			walkStmts(x.List, f, ws)
		}
	case *ast.ExprStmt:
		walkExpr(x.X, f, ws)
	case *ast.AssignStmt:
		for i, r := range x.Rhs {
			// a literal stored anywhere but in a local variable may run in any
			// goroutine: it is analysed as a goroutine of its own
			if lit, ok := r.(*ast.FuncLit); ok && i < len(x.Lhs) {
				if _, local := x.Lhs[i].(*ast.Ident); !local {
					escaped(lit, f)
					continue
				}
			}
			walkExpr(r, f, ws)
		}
		if len(x.Lhs) == len(x.Rhs) {
			for i := range x.Lhs {
				f.assign(x.Lhs[i], x.Rhs[i])
			}
		} else if len(x.Rhs) == 1 {
			if c, ok := x.Rhs[0].(*ast.CallExpr); ok {
				if k := calleeKey(c, f); k != "" && !strings.HasPrefix(k, "?") {
					rts := resultTypes(fns[k])
					for i, l := range x.Lhs {
						if id, ok := l.(*ast.Ident); ok && id.Name != "_" && i < len(rts) && rts[i] != "" {
							if _, had := f.env[id.Name]; !had {
								f.env[id.Name] = rts[i]
							}
						}
					}
				}
			}
		}
	case *ast.DeclStmt:
		if gd, ok := x.Decl.(*ast.GenDecl); ok {
			for _, s := range gd.Specs {
				if vs, ok := s.(*ast.ValueSpec); ok {
					for i, nm := range vs.Names {
						if vs.Type != nil {
							f.env[nm.Name] = typeName(vs.Type)
						}
						if i < len(vs.Values) {
							walkExpr(vs.Values[i], f, ws)
							f.assign(nm, vs.Values[i])
						}
					}
				}
			}
		}
	case *ast.GoStmt:
		if lit, ok := x.Call.Fun.(*ast.FuncLit); ok {
			fixed := GSpawned
			if callsName(lit.Body, "handleInboundMessages") {
				fixed = GHandler
				handlerSpawns = append(handlerSpawns, &goCall{target: "handleInboundMessages", in: f, inLoop: ws.inLoop, pos: x.Pos()})
			}
			p := newPseudo(f, lit, fixed, "go")
			for _, a := range x.Call.Args {
				walkExpr(a, f, ws)
			}
			walkStmts(lit.Body.List, p, wstate{})
		} else {
			k := calleeKey(x.Call, f)
			if k == "" {
				// a function of another package: it cannot reach this package's queues
			} else if strings.HasPrefix(k, "?") {
				fatal("%s: go statement whose target I cannot resolve (%s)", posStr(x.Pos()), exprStr(x.Call.Fun))
			} else {
				goCalls = append(goCalls, &goCall{target: k, in: f, inLoop: ws.inLoop, pos: x.Pos()})
			}
			for _, a := range x.Call.Args {
				walkExpr(a, f, ws)
			}
		}
	case *ast.DeferStmt:
		walkExpr(x.Call, f, ws)
	case *ast.ReturnStmt:
		for _, r := range x.Results {
			if lit, ok := r.(*ast.FuncLit); ok {
				escaped(lit, f)
				continue
			}
			walkExpr(r, f, ws)
		}
	case *ast.IfStmt:
		walk(x.Init, f, ws)
		walkExpr(x.Cond, f, ws)
		walk(x.Body, f, ws)
		walk(x.Else, f, ws)
	case *ast.ForStmt:
		walk(x.Init, f, ws)
		if x.Cond != nil {
			walkExpr(x.Cond, f, ws)
		}
		walk(x.Post, f, ws)
		walk(x.Body, f, wstate{inLoop: true})
	case *ast.RangeStmt:
		walkExpr(x.X, f, ws)
		if t := exprType(x.X, f); t != "" {
			if strings.HasPrefix(t, "map:") {
				if id, ok := x.Value.(*ast.Ident); ok {
					f.env[id.Name] = strings.TrimPrefix(t, "map:")
				}
			} else if strings.HasPrefix(t, "[]") {
				if id, ok := x.Value.(*ast.Ident); ok {
					f.env[id.Name] = strings.TrimPrefix(t, "[]")
				}
			}
		}
		walk(x.Body, f, wstate{inLoop: true})
	case *ast.SwitchStmt:
		walk(x.Init, f, ws)
		if x.Tag != nil {
			walkExpr(x.Tag, f, ws)
		}
		walk(x.Body, f, ws)
	case *ast.TypeSwitchStmt:
		walk(x.Init, f, ws)
		// "switch v := x.(type)": inside each clause v has the clause's type
		var bound string
		if as, ok := x.Assign.(*ast.AssignStmt); ok && len(as.Lhs) == 1 {
			if id, ok := as.Lhs[0].(*ast.Ident); ok {
				bound = id.Name
			}
		}
		for _, c := range x.Body.List {
			cc := c.(*ast.CaseClause)
			old, had := f.env[bound]
			if bound != "" && len(cc.List) == 1 {
				f.env[bound] = typeName(cc.List[0])
			}
			walkStmts(cc.Body, f, ws)
			if bound != "" {
				if had {
					f.env[bound] = old
				} else {
					delete(f.env, bound)
				}
			}
		}
	case *ast.CaseClause:
		for _, e := range x.List {
			walkExpr(e, f, ws)
		}
		walkStmts(x.Body, f, ws)
	case *ast.SelectStmt:
		hasDefault := false
		for _, c := range x.Body.List {
			if c.(*ast.CommClause).Comm == nil {
				hasDefault = true
			}
		}
		for _, c := range x.Body.List {
			cc := c.(*ast.CommClause)
			if ss, ok := cc.Comm.(*ast.SendStmt); ok {
				form := "FBlocking"
				if hasDefault {
					form = "FTry"
				}
				role, worker := chanRole(ss.Chan, f)
				switch role {
				case "client":
					walkExpr(ss.Value, f, ws)
					f.sends = append(f.sends, &rawSend{val: ss.Value, form: form, pos: ss.Pos(), in: f})
				case "action":
					handOver(ss, worker, f, nil, 0, false)
				default:
					walkExpr(ss.Value, f, ws)
				}
			} else if cc.Comm != nil {
				walk(cc.Comm, f, ws)
			}
			walkStmts(cc.Body, f, ws)
		}
	case *ast.SendStmt:
		role, worker := chanRole(x.Chan, f)
		switch role {
		case "client":
			walkExpr(x.Value, f, ws)
			f.sends = append(f.sends, &rawSend{val: x.Value, form: "FBlocking", pos: x.Pos(), in: f})
		case "action":
			handOver(x, worker, f, nil, 0, true)
		default:
			if lit, ok := x.Value.(*ast.FuncLit); ok {
				escaped(lit, f)
			} else {
				walkExpr(x.Value, f, ws)
			}
		}
	case *ast.LabeledStmt:
		walk(x.Stmt, f, ws)
	case *ast.IncDecStmt, *ast.BranchStmt, *ast.EmptyStmt:
	default:
		if e, ok := n.(ast.Expr); ok {
			walkExpr(e, f, ws)
			return
		}
		fatal("%s: statement form %T not understood", posStr(n.Pos()), n)
	}
}

var handlerSpawns []*goCall

func walkExpr(e ast.Expr, f *fn, ws wstate) {
	switch x := e.(type) {
	case nil:
		return
	case *ast.FuncLit:
		// a literal that is neither handed to a worker nor started with go runs
		// (if at all) in the goroutine of the enclosing function
		saved := map[string]string{}
		if x.Type.Params != nil {
			for _, p := range x.Type.Params.List {
				for _, n := range p.Names {
					if old, ok := f.env[n.Name]; ok {
						saved[n.Name] = old
					}
					f.env[n.Name] = typeName(p.Type)
				}
			}
		}
		walkStmts(x.Body.List, f, ws)
		for k, v := range saved {
			f.env[k] = v
		}
	case *ast.CallExpr:
		for _, a := range x.Args {
			walkExpr(a, f, ws)
		}
		if lit, ok := x.Fun.(*ast.FuncLit); ok {
			walkExpr(lit, f, ws)
			return
		}
		walkExpr(x.Fun, f, ws)
		k := calleeKey(x, f)
		if k != "" {
			f.calls = append(f.calls, &callEdge{to: k, args: x.Args, pos: x.Pos()})
			f.fwdCalls = append(f.fwdCalls, &fwdCall{callee: k, args: x.Args, pos: x.Pos(), in: f})
		}
		// function values passed as arguments are (possibly) called by the callee;
		// meta procedure handlers are called by the meta procedure goroutine
		for _, a := range x.Args {
			if vk := funcValueKey(a, f); vk != "" {
				from := k
				if sel, ok := x.Fun.(*ast.SelectorExpr); ok && sel.Sel.Name == "registerMetaProcedure" {
					from = "@metaproc"
				}
				valueEdges = append(valueEdges, [2]string{from, vk})
			}
		}
	case *ast.SelectorExpr:
		walkExpr(x.X, f, ws)
	case *ast.UnaryExpr:
		walkExpr(x.X, f, ws)
	case *ast.BinaryExpr:
		walkExpr(x.X, f, ws)
		walkExpr(x.Y, f, ws)
	case *ast.ParenExpr:
		walkExpr(x.X, f, ws)
	case *ast.StarExpr:
		walkExpr(x.X, f, ws)
	case *ast.IndexExpr:
		walkExpr(x.X, f, ws)
		walkExpr(x.Index, f, ws)
	case *ast.SliceExpr:
		walkExpr(x.X, f, ws)
	case *ast.TypeAssertExpr:
		walkExpr(x.X, f, ws)
	case *ast.KeyValueExpr:
		if lit, ok := x.Value.(*ast.FuncLit); ok {
			escaped(lit, f)
		} else {
			walkExpr(x.Value, f, ws)
		}
	case *ast.CompositeLit:
		for _, el := range x.Elts {
			walkExpr(el, f, ws)
		}
	case *ast.Ident, *ast.BasicLit, *ast.ArrayType, *ast.MapType, *ast.ChanType, *ast.FuncType,
		*ast.InterfaceType, *ast.StructType, *ast.Ellipsis, *ast.IndexListExpr:
	default:
		fatal("%s: expression form %T not understood", posStr(e.Pos()), e)
	}
}

var valueEdges [][2]string

func funcValueKey(a ast.Expr, f *fn) string {
	switch x := a.(type) {
	case *ast.SelectorExpr:
		bt := exprType(x.X, f)
		if bt != "" {
			if _, ok := fns[bt+"."+x.Sel.Name]; ok {
				return bt + "." + x.Sel.Name
			}
		}
	case *ast.Ident:
		if g, ok := fns[x.Name]; ok && g.recvType == "" && lookupVar(f, x.Name) == "" {
			return x.Name
		}
	}
	return ""
}

// ---------------------------------------------------------------- message kinds

var kindByType = map[string]string{
	"wamp.Event": "KEvent", "wamp.Subscribed": "KSubscribed", "wamp.Unsubscribed": "KUnsubscribed",
	"wamp.Published": "KPublished", "wamp.Invocation": "KInvocation", "wamp.Registered": "KRegistered",
	"wamp.Unregistered": "KUnregistered", "wamp.Result": "KResult", "wamp.Interrupt": "KInterrupt",
	"wamp.Goodbye": "KGoodbye", "wamp.Abort": "KAbort", "wamp.Welcome": "KWelcome",
	"wamp.Challenge": "KChallenge",
}

// kindOf returns the kind of the message an expression denotes; "param:<i>"
// when it is the i-th parameter of the enclosing declared function or closure;
// "" when unknown.
func kindOf(e ast.Expr, f *fn, depth int) string {
	if depth > 8 {
		return ""
	}
	switch x := e.(type) {
	case *ast.ParenExpr:
		return kindOf(x.X, f, depth+1)
	case *ast.UnaryExpr:
		if x.Op == token.AND {
			return kindOf(x.X, f, depth+1)
		}
	case *ast.CompositeLit:
		tn := typeName(x.Type)
		if tn == "wamp.Error" {
			return errorKind(x, f)
		}
		if k, ok := kindByType[tn]; ok {
			return k
		}
		if strings.HasPrefix(tn, "wamp.") {
			return "KOtherMsg"
		}
	case *ast.CallExpr:
		if sel, ok := x.Fun.(*ast.SelectorExpr); ok && sel.Sel.Name == "Goodbye" && len(x.Args) == 0 {
			return "KGoodbye" // wamp.Session.Goodbye() *wamp.Goodbye
		}
		if k := calleeKey(x, f); k != "" && !strings.HasPrefix(k, "?") {
			rt := resultType(fns[k])
			if kk, ok := kindByType[rt]; ok {
				return kk
			}
			if rt == "wamp.Error" {
				return "KErrorOther"
			}
		}
		if id, ok := x.Fun.(*ast.Ident); ok {
			if lit, ok := localLits[f.root.key+"/"+id.Name]; ok && lit.Type.Results != nil && len(lit.Type.Results.List) > 0 {
				if kk, ok := kindByType[typeName(lit.Type.Results.List[0].Type)]; ok {
					return kk
				}
			}
		}
	case *ast.Ident:
		// a parameter?
		if i := paramIndex(f.ftype, x.Name); i >= 0 && !assignedIn(f.body, x.Name) {
			return fmt.Sprintf("param:%d", i)
		}
		if f.root != f {
			if i := paramIndex(f.root.ftype, x.Name); i >= 0 && !assignedIn(f.root.body, x.Name) {
				// parameter of the enclosing declared function captured by a closure
				return fmt.Sprintf("rootparam:%d", i)
			}
		}
		// a local: all assignments must agree
		kinds := map[string]bool{}
		collectAssigned(f.root.body, x.Name, func(rhs ast.Expr, typ ast.Expr) {
			if rhs != nil {
				if k := kindOf(rhs, f, depth+1); k != "" {
					kinds[k] = true
				} else {
					kinds["?"] = true
				}
			} else if typ != nil {
				tn := typeName(typ)
				if k, ok := kindByType[tn]; ok {
					kinds[k] = true
				} else {
					kinds["?"] = true
				}
			}
		})
		// "x, err := f(...)": the kind follows from f's result type
		ast.Inspect(f.root.body, func(n ast.Node) bool {
			as, ok := n.(*ast.AssignStmt)
			if !ok || len(as.Rhs) != 1 || len(as.Lhs) < 2 {
				return true
			}
			c, ok := as.Rhs[0].(*ast.CallExpr)
			if !ok {
				return true
			}
			for i, l := range as.Lhs {
				if id, ok := l.(*ast.Ident); ok && id.Name == x.Name {
					if k := calleeKey(c, f); k != "" && !strings.HasPrefix(k, "?") {
						rts := resultTypes(fns[k])
						if i < len(rts) {
							if kk, ok := kindByType[rts[i]]; ok {
								kinds[kk] = true
								continue
							}
						}
					}
					kinds["?"] = true
				}
			}
			return true
		})
		if len(kinds) == 1 {
			for k := range kinds {
				if k != "?" {
					return k
				}
			}
		}
	}
	return ""
}

func assignedIn(body ast.Node, name string) bool {
	found := false
	collectAssigned(body, name, func(ast.Expr, ast.Expr) { found = true })
	return found
}

func collectAssigned(body ast.Node, name string, cb func(rhs ast.Expr, typ ast.Expr)) {
	ast.Inspect(body, func(n ast.Node) bool {
		switch x := n.(type) {
		case *ast.AssignStmt:
			if len(x.Lhs) == len(x.Rhs) {
				for i, l := range x.Lhs {
					if id, ok := l.(*ast.Ident); ok && id.Name == name {
						cb(x.Rhs[i], nil)
					}
				}
			}
		case *ast.ValueSpec:
			for i, nm := range x.Names {
				if nm.Name == name {
					if i < len(x.Values) {
						cb(x.Values[i], x.Type)
					} else {
						cb(nil, x.Type)
					}
				}
			}
		}
		return true
	})
}

func errorKind(c *ast.CompositeLit, f *fn) string {
	for _, el := range c.Elts {
		kv, ok := el.(*ast.KeyValueExpr)
		if !ok {
			continue
		}
		if id, ok := kv.Key.(*ast.Ident); !ok || id.Name != "Type" {
			continue
		}
		switch v := kv.Value.(type) {
		case *ast.SelectorExpr: // wamp.CALL
			if v.Sel.Name == "CALL" {
				return "KErrorCall"
			}
			return "KErrorOther"
		case *ast.CallExpr: // m.MessageType()
			if sel, ok := v.Fun.(*ast.SelectorExpr); ok && sel.Sel.Name == "MessageType" {
				switch t := exprType(sel.X, f); t {
				case "wamp.Call":
					return "KErrorCall"
				case "wamp.Message", "":
					return "KErrorReq"
				default:
					return "KErrorOther"
				}
			}
		}
		fatal("%s: ERROR literal with a Type I cannot classify (%s)", posStr(c.Pos()), exprStr(kv.Value))
		return "KErrorOther"
	}
	return "KErrorReq"
}

// ---------------------------------------------------------------- main

func main() {
	repo := flag.String("repo", "/repo", "repository root")
	coqOut := flag.String("coq", "", "output .v file")
	jsonOut := flag.String("json", "", "output .json file")
	flag.Parse()

	rfiles := load(filepath.Join(*repo, "router"), func(string) bool { return true })
	declare(rfiles)
	for _, k := range append([]string{}, order...) {
		f := fns[k]
		walkStmts(f.body.List, f, wstate{})
	}

	// ---- forwarders (functions that send one of their parameters to a client queue)
	fwd := map[string]forwarder{}
	type resolved struct {
		kind string
		form string
		pos  token.Pos
		in   *fn
	}
	var sites []resolved
	for _, k := range order {
		f := fns[k]
		for _, s := range f.sends {
			kd := kindOf(s.val, f, 0)
			switch {
			case strings.HasPrefix(kd, "param:") && f.root == f:
				var i int
				fmt.Sscanf(kd, "param:%d", &i)
				fwd[f.key] = forwarder{param: i, form: s.form}
			case strings.HasPrefix(kd, "rootparam:"):
				var i int
				fmt.Sscanf(kd, "rootparam:%d", &i)
				// a closure inside F sends F's parameter: F forwards, but from the closure's goroutine
				fatal("%s: a closure forwards a parameter of %s to a client queue: not understood", posStr(s.pos), f.root.key)
			case kd == "" || strings.HasPrefix(kd, "param:"):
				fatal("%s: cannot determine the kind of the message sent (%s) in %s", posStr(s.pos), exprStr(s.val), f.key)
			default:
				sites = append(sites, resolved{kd, s.form, s.pos, f})
			}
		}
	}
	// calls of forwarders, to a fixpoint (a function passing its own parameter on is a forwarder too)
	for changed := true; changed; {
		changed = false
		for _, k := range order {
			f := fns[k]
			for _, c := range f.fwdCalls {
				fw, ok := fwd[c.callee]
				if !ok || fw.param >= len(c.args) {
					continue
				}
				kd := kindOf(c.args[fw.param], f, 0)
				if strings.HasPrefix(kd, "param:") && f.root == f {
					var i int
					fmt.Sscanf(kd, "param:%d", &i)
					if _, had := fwd[f.key]; !had {
						fwd[f.key] = forwarder{param: i, form: fw.form}
						changed = true
					}
				}
			}
		}
	}
	for _, k := range order {
		f := fns[k]
		for _, c := range f.fwdCalls {
			fw, ok := fwd[c.callee]
			if !ok {
				continue
			}
			if fw.param >= len(c.args) {
				fatal("%s: call of forwarder %s with too few arguments", posStr(c.pos), c.callee)
				continue
			}
			// the receiving session must not be the meta peer
			isMeta := false
			for _, a := range c.args {
				if strings.Contains(exprStr(a), "metaPeer") {
					isMeta = true
				}
			}
			if isMeta {
				continue
			}
			kd := kindOf(c.args[fw.param], f, 0)
			switch {
			case strings.HasPrefix(kd, "param:") && f.root == f:
				// f is itself a forwarder: its callers are the sites
			case kd == "" || strings.HasPrefix(kd, "param:") || strings.HasPrefix(kd, "rootparam:"):
				fatal("%s: cannot determine the kind of the message passed to %s (%s) in %s",
					posStr(c.pos), c.callee, exprStr(c.args[fw.param]), f.key)
			default:
				sites = append(sites, resolved{kd, fw.form, c.pos, f})
			}
		}
	}

	// ---- goroutines of functions: propagate along the call graph
	// roots
	workerLoop := map[string]gor{} // run function -> worker
	sequential := map[gor]bool{}
	for _, k := range order {
		f := fns[k]
		if f.root != f {
			continue
		}
		ast.Inspect(f.body, func(n ast.Node) bool {
			rs, ok := n.(*ast.RangeStmt)
			if !ok {
				return true
			}
			role, worker := chanRole(rs.X, f)
			if role != "action" {
				if c, ok := rs.X.(*ast.CallExpr); ok {
					if s, ok := c.Fun.(*ast.SelectorExpr); ok && s.Sel.Name == "Recv" && strings.Contains(exprStr(s.X), "metaPeer") {
						metaProcFn = f.key
					}
				}
				return true
			}
			workerLoop[f.key] = worker
			// body must be exactly: <rangevar>()
			seq := false
			if id, ok := rs.Key.(*ast.Ident); ok && len(rs.Body.List) == 1 {
				if es, ok := rs.Body.List[0].(*ast.ExprStmt); ok {
					if c, ok := es.X.(*ast.CallExpr); ok && len(c.Args) == 0 {
						if ci, ok := c.Fun.(*ast.Ident); ok && ci.Name == id.Name {
							seq = true
						}
					}
				}
			}
			if prev, had := sequential[worker]; had {
				sequential[worker] = prev && seq
			} else {
				sequential[worker] = seq
			}
			return true
		})
	}
	workers := map[gor]int{}
	for _, g := range goCalls {
		if w, ok := workerLoop[g.target]; ok {
			n := 1
			if g.inLoop {
				n = 2 // "many"
			}
			workers[w] += n
			fns[g.target].ctx[w] = true
		} else if g.target == metaProcFn {
			fns[g.target].ctx[GMetaProc] = true
		} else {
			fns[g.target].ctx[GSpawned] = true
		}
	}
	called := map[string]bool{}
	for _, k := range order {
		for _, c := range fns[k].calls {
			called[c.to] = true
		}
	}
	for _, e := range valueEdges {
		called[e[1]] = true
	}
	for _, g := range goCalls {
		called[g.target] = true
	}
	for _, k := range order {
		f := fns[k]
		if f.fixed != "" {
			f.ctx[f.fixed] = true
		} else if !called[k] && len(f.ctx) == 0 {
			f.ctx[GApi] = true
		}
	}
	for changed := true; changed; {
		changed = false
		add := func(to string, g gor) {
			t, ok := fns[to]
			if !ok || t.fixed != "" {
				return
			}
			if !t.ctx[g] {
				t.ctx[g] = true
				changed = true
			}
		}
		for _, k := range order {
			f := fns[k]
			for g := range f.ctx {
				for _, c := range f.calls {
					add(c.to, g)
				}
			}
		}
		for _, e := range valueEdges {
			if e[0] == "@metaproc" {
				add(e[1], GMetaProc)
			} else if src, ok := fns[e[0]]; ok {
				for g := range src.ctx {
					add(e[1], g)
				}
			}
		}
	}

	// unresolved method calls matter only when the name could lead to a send or a hand-over
	reach := map[string]map[string]bool{} // fn -> kinds reachable
	var kindsFrom func(k string, seen map[string]bool, acc map[string]bool)
	siteKindsIn := map[string][]string{}
	for _, s := range sites {
		siteKindsIn[s.in.key] = append(siteKindsIn[s.in.key], s.kind)
	}
	submitIn := map[string]bool{}
	for _, s := range submits {
		submitIn[s.in.key] = true
	}
	kindsFrom = func(k string, seen map[string]bool, acc map[string]bool) {
		if seen[k] {
			return
		}
		seen[k] = true
		for _, kd := range siteKindsIn[k] {
			acc[kd] = true
		}
		f, ok := fns[k]
		if !ok {
			return
		}
		for _, c := range f.calls {
			kindsFrom(c.to, seen, acc)
		}
		for _, e := range valueEdges {
			if e[0] == k {
				kindsFrom(e[1], seen, acc)
			}
		}
	}
	_ = reach
	sensitive := map[string]bool{}
	for name, ts := range methodsOf {
		for t := range ts {
			acc := map[string]bool{}
			seen := map[string]bool{}
			kindsFrom(t+"."+name, seen, acc)
			hasSubmit := false
			for k := range seen {
				if submitIn[k] {
					hasSubmit = true
				}
			}
			if len(acc) > 0 || hasSubmit {
				sensitive[name] = true
			}
		}
	}
	for _, u := range unresolved {
		parts := strings.Split(u, ".")
		name := strings.TrimSuffix(parts[len(parts)-1], "()")
		if sensitive[name] {
			fatal("%s: call of a method named like a sending function on a receiver of unknown type", u)
		}
	}

	// ---- output
	var outSites []Site
	for _, s := range sites {
		var gs []string
		for g := range s.in.ctx {
			gs = append(gs, string(g))
		}
		sort.Strings(gs)
		if len(gs) == 0 {
			fatal("%s: function %s is never called and not an entry point I know", posStr(s.pos), s.in.key)
		}
		p := fset.Position(s.pos)
		for _, g := range gs {
			outSites = append(outSites, Site{Kind: s.kind, Gor: g, Form: s.form, Func: s.in.key,
				File: filepath.Base(p.Filename), Line: p.Line})
		}
	}
	sort.Slice(outSites, func(i, j int) bool {
		a, b := outSites[i], outSites[j]
		if a.File != b.File {
			return a.File < b.File
		}
		if a.Line != b.Line {
			return a.Line < b.Line
		}
		if a.Kind != b.Kind {
			return a.Kind < b.Kind
		}
		return a.Gor < b.Gor
	})
	var outSubmits []Submit
	submitPlain := true
	for _, s := range submits {
		if s.worker != GBroker && s.worker != GDealer && s.worker != GRealm {
			continue // the router's own action channel is not part of this property
		}
		acc := map[string]bool{}
		kindsFrom(s.lit.key, map[string]bool{}, acc)
		var ks []string
		for k := range acc {
			ks = append(ks, k)
		}
		sort.Strings(ks)
		var gs []string
		for g := range s.in.ctx {
			gs = append(gs, string(g))
		}
		sort.Strings(gs)
		if len(gs) == 0 {
			fatal("%s: hand-over in %s which is never called", posStr(s.pos), s.in.key)
		}
		if !s.plain && (s.worker == GBroker || s.worker == GDealer) {
			submitPlain = false
		}
		p := fset.Position(s.pos)
		for _, g := range gs {
			outSubmits = append(outSubmits, Submit{Worker: string(s.worker), From: g, Waits: s.waits, Kinds: ks,
				Func: s.in.key, File: filepath.Base(p.Filename), Line: p.Line, Plain: s.plain})
		}
	}
	sort.Slice(outSubmits, func(i, j int) bool {
		a, b := outSubmits[i], outSubmits[j]
		if a.File != b.File {
			return a.File < b.File
		}
		if a.Line != b.Line {
			return a.Line < b.Line
		}
		return a.From < b.From
	})

	shape := Shape{SubmitPlain: submitPlain}
	shape.BrokerUnbuffered = unbuffered(rfiles, "broker")
	shape.DealerUnbuffered = unbuffered(rfiles, "dealer")
	shape.BrokerSequential = sequential[GBroker]
	shape.DealerSequential = sequential[GDealer]
	shape.BrokerWorkers = workers[GBroker]
	shape.DealerWorkers = workers[GDealer]
	shape.HandlerSingleLoop, shape.HandlerPerSession = handlerShape()
	shape.PeerFifoChan = peerFifo(filepath.Join(*repo, "transport"))

	if len(fatalList) > 0 {
		sort.Strings(fatalList)
		for _, m := range fatalList {
			fmt.Fprintln(os.Stderr, "genc08: NOT UNDERSTOOD:", m)
		}
		os.Exit(2)
	}

	if *jsonOut != "" {
		b, _ := json.MarshalIndent(map[string]any{"sites": outSites, "submits": outSubmits, "shape": shape}, "", " ")
		if err := os.WriteFile(*jsonOut, append(b, '\n'), 0o644); err != nil {
			fmt.Fprintln(os.Stderr, "genc08:", err)
			os.Exit(2)
		}
	}
	if *coqOut != "" {
		if err := os.WriteFile(*coqOut, []byte(coqText(outSites, outSubmits, shape)), 0o644); err != nil {
			fmt.Fprintln(os.Stderr, "genc08:", err)
			os.Exit(2)
		}
	}
	fmt.Printf("genc08: %d client-facing send sites, %d hand-over sites\n", len(outSites), len(outSubmits))
}

var metaProcFn string

func unbuffered(files []*ast.File, typ string) bool {
	found, ok := false, true
	for _, f := range files {
		ast.Inspect(f, func(n ast.Node) bool {
			var val ast.Expr
			switch x := n.(type) {
			case *ast.CompositeLit:
				if typeName(x.Type) != typ {
					return true
				}
				for _, el := range x.Elts {
					if kv, isKV := el.(*ast.KeyValueExpr); isKV {
						if id, isID := kv.Key.(*ast.Ident); isID && id.Name == "actionChan" {
							val = kv.Value
						}
					}
				}
			case *ast.AssignStmt:
				for i, l := range x.Lhs {
					if s, isSel := l.(*ast.SelectorExpr); isSel && s.Sel.Name == "actionChan" && i < len(x.Rhs) {
						// owner type by receiver name convention is not reliable: accept only inside methods of typ
						_ = s
						val = nil
						fatal("%s: actionChan assigned outside a composite literal: not understood", posStr(x.Pos()))
					}
				}
			}
			if val == nil {
				return true
			}
			found = true
			c, isCall := val.(*ast.CallExpr)
			if !isCall {
				ok = false
				return true
			}
			if id, isID := c.Fun.(*ast.Ident); !isID || id.Name != "make" || len(c.Args) != 1 {
				ok = false
				return true
			}
			ct, isChan := c.Args[0].(*ast.ChanType)
			if !isChan || typeName(ct.Value) != "func" {
				ok = false
			}
			return true
		})
	}
	if !found {
		fatal("no initialisation of %s.actionChan found", typ)
	}
	return found && ok
}

func handlerShape() (single bool, perSession int) {
	var h *fn
	for _, k := range order {
		if strings.HasSuffix(k, ".handleInboundMessages") && fns[k].root == fns[k] {
			h = fns[k]
		}
	}
	if h == nil {
		fatal("handleInboundMessages not found")
		return false, 0
	}
	loops, gos := 0, 0
	for _, s := range h.body.List {
		if _, ok := s.(*ast.ForStmt); ok {
			loops++
		}
	}
	ast.Inspect(h.body, func(n ast.Node) bool {
		if _, ok := n.(*ast.GoStmt); ok {
			gos++
		}
		return true
	})
	single = loops == 1 && gos == 0
	// goroutines running the handler per session: spawn sites inside a function taking the session
	for _, g := range handlerSpawns {
		if strings.HasSuffix(g.in.root.key, ".handleSession") {
			n := 1
			if g.inLoop {
				n = 2
			}
			perSession += n
		}
	}
	// a direct "go r.handleInboundMessages(sess)" counts too
	for _, g := range goCalls {
		if strings.HasSuffix(g.target, ".handleInboundMessages") && strings.HasSuffix(g.in.root.key, ".handleSession") {
			perSession++
		}
	}
	return
}

func peerFifo(dir string) bool {
	files := load(dir, func(n string) bool { return n == "localpeer.go" })
	if len(files) != 1 {
		fatal("transport/localpeer.go not found")
		return false
	}
	fields := map[string]ast.Expr{}
	var sendRet string
	for _, d := range files[0].Decls {
		switch d := d.(type) {
		case *ast.GenDecl:
			for _, s := range d.Specs {
				if ts, ok := s.(*ast.TypeSpec); ok && ts.Name.Name == "localPeer" {
					if st, ok := ts.Type.(*ast.StructType); ok {
						for _, fl := range st.Fields.List {
							for _, n := range fl.Names {
								fields[n.Name] = fl.Type
							}
						}
					}
				}
			}
		case *ast.FuncDecl:
			if d.Name.Name == "Send" && d.Recv != nil && d.Body != nil && len(d.Body.List) == 1 {
				if r, ok := d.Body.List[0].(*ast.ReturnStmt); ok && len(r.Results) == 1 {
					if s, ok := r.Results[0].(*ast.SelectorExpr); ok {
						sendRet = s.Sel.Name
					}
				}
			}
		}
	}
	if sendRet == "" {
		fatal("localPeer.Send() does not simply return a field")
		return false
	}
	t, ok := fields[sendRet]
	return ok && isChanType(t)
}

func coqString(s string) string { return "\"" + strings.ReplaceAll(s, "\"", "\"\"") + "\"" }

func coqBool(b bool) string {
	if b {
		return "true"
	}
	return "false"
}

func coqText(sites []Site, subs []Submit, sh Shape) string {
	var b strings.Builder
	b.WriteString("(* GENERATED by go/cmd/genc08 from /repo/router/*.go and /repo/transport/localpeer.go - do not edit *)\n")
	b.WriteString("From Coq Require Import List NArith Bool String.\nFrom Nexus Require Import Order.Sites.\nImport ListNotations.\nOpen Scope N_scope.\nOpen Scope string_scope.\n\n")
	b.WriteString("Definition gen_sites : list site := [\n")
	for i, s := range sites {
		sep := ";"
		if i == len(sites)-1 {
			sep = ""
		}
		fmt.Fprintf(&b, "  mksite %s %s %s %s %d%s  (* %s *)\n", s.Kind, s.Gor, s.Form, coqString(s.Func), s.Line, sep, s.File)
	}
	b.WriteString("].\n\nDefinition gen_submits : list submit := [\n")
	for i, s := range subs {
		sep := ";"
		if i == len(subs)-1 {
			sep = ""
		}
		fmt.Fprintf(&b, "  mksubmit %s %s %s [%s] %s %d%s  (* %s *)\n", s.Worker, s.From, coqBool(s.Waits),
			strings.Join(s.Kinds, "; "), coqString(s.Func), s.Line, sep, s.File)
	}
	b.WriteString("].\n\n")
	fmt.Fprintf(&b, "Definition gen_shape : shape :=\n  mkshape %s %s %s %s %d %d %s %d %s %s.\n",
		coqBool(sh.BrokerUnbuffered), coqBool(sh.DealerUnbuffered), coqBool(sh.BrokerSequential),
		coqBool(sh.DealerSequential), sh.BrokerWorkers, sh.DealerWorkers, coqBool(sh.HandlerSingleLoop),
		sh.HandlerPerSession, coqBool(sh.SubmitPlain), coqBool(sh.PeerFifoChan))
	return b.String()
}
