// c14drive: the implementation side of the C14 correspondence check.
//
//	c14drive gen    -seed S -n N     structured random messages of all message types:
//	                                 Serialize with the three serializers, Deserialize the result
//	c14drive values -seed S -n N     random payload values: SerializeDataItem / DeserializeDataItem
//	c14drive table                   the exhaustive decision table of listToMsg (every message type
//	                                 x every field x every item shape; list lengths; code items)
//	c14drive mutate -seed S -n N     malformed / mutated byte strings ("never panics, error not message")
//	c14drive deser                   stdin: "<id> <fmt> <hex>"  ->  what Deserialize / DeserializeDataItem do
//	c14drive probe                   the recorded witnesses of the known defect classes
//	c14drive golden                  fixed messages of every type: the wire format (compared with corpus/C14/golden.txt)
//
// Every case is one output line
//
//	<kind> <id> <fmt> <hex> | M <msg or -> | D <result of Deserialize> | V <result of DeserializeDataItem(&any)>
//
// in the V-syntax shared with ocaml/c14/c14run.ml.  A Go panic is caught and
// reported as `panic <text>` for the input that caused it.  All randomness
// comes from the -seed argument (VERIF_SEED).
package main

import (
	"bufio"
	"encoding/hex"
	"encoding/json"
	"flag"
	"fmt"
	"math"
	"os"
	"reflect"
	"sort"
	"strconv"
	"strings"

	"github.com/gammazero/nexus/v3/transport/serialize"
	"github.com/gammazero/nexus/v3/wamp"
)

// ------------------------------------------------------------------ PRNG

type rng struct{ s uint64 }

func (r *rng) next() uint64 {
	r.s += 0x9e3779b97f4a7c15
	z := r.s
	z = (z ^ (z >> 30)) * 0xbf58476d1ce4e5b9
	z = (z ^ (z >> 27)) * 0x94d049bb133111eb
	return z ^ (z >> 31)
}
func (r *rng) intn(n int) int { return int(r.next() % uint64(n)) }
func (r *rng) chance(num, den int) bool {
	return r.intn(den) < num
}

// ------------------------------------------------------------------ V-syntax

var exotic = 0

func hexs(b []byte) string { return hex.EncodeToString(b) }

func printValue(b *strings.Builder, v any) {
	if v == nil {
		b.WriteString("N")
		return
	}
	rv := reflect.ValueOf(v)
	switch rv.Kind() {
	case reflect.Bool:
		if rv.Bool() {
			b.WriteString("T")
		} else {
			b.WriteString("F")
		}
	case reflect.Int, reflect.Int8, reflect.Int16, reflect.Int32, reflect.Int64:
		b.WriteString("I" + strconv.FormatInt(rv.Int(), 10))
	case reflect.Uint, reflect.Uint8, reflect.Uint16, reflect.Uint32, reflect.Uint64:
		b.WriteString("U" + strconv.FormatUint(rv.Uint(), 10))
	case reflect.Float64:
		b.WriteString(fmt.Sprintf("D%016x", math.Float64bits(rv.Float())))
	case reflect.String:
		b.WriteString("S" + hexs([]byte(rv.String())))
	case reflect.Slice:
		if rv.IsNil() {
			b.WriteString("N")
			return
		}
		if rv.Type().Elem().Kind() == reflect.Uint8 {
			b.WriteString("B" + hexs(rv.Bytes()))
			return
		}
		b.WriteString("L[")
		for i := 0; i < rv.Len(); i++ {
			b.WriteString(" ")
			printValue(b, rv.Index(i).Interface())
		}
		b.WriteString(" ]")
	case reflect.Map:
		if rv.IsNil() {
			b.WriteString("N")
			return
		}
		if rv.Type().Key().Kind() != reflect.String {
			exotic++
			b.WriteString("X" + strings.ReplaceAll(rv.Type().String(), " ", ""))
			return
		}
		keys := make([]string, 0, rv.Len())
		for _, k := range rv.MapKeys() {
			keys = append(keys, k.String())
		}
		sort.Strings(keys)
		b.WriteString("M{")
		for _, k := range keys {
			b.WriteString(" K" + hexs([]byte(k)) + " ")
			printValue(b, rv.MapIndex(reflect.ValueOf(k).Convert(rv.Type().Key())).Interface())
		}
		b.WriteString(" }")
	default:
		exotic++
		b.WriteString("X" + strings.ReplaceAll(rv.Type().String(), " ", ""))
	}
}

func valueStr(v any) string {
	var b strings.Builder
	printValue(&b, v)
	return b.String()
}

func msgStr(m wamp.Message) string {
	var b strings.Builder
	rv := reflect.ValueOf(m)
	if rv.Kind() == reflect.Pointer {
		rv = rv.Elem()
	}
	b.WriteString(rv.Type().Name())
	for i := 0; i < rv.NumField(); i++ {
		b.WriteString(" ")
		printValue(&b, rv.Field(i).Interface())
	}
	return b.String()
}

// ------------------------------------------------------------------ the implementation under test

var sers = map[string]serialize.Serializer{
	"json":    &serialize.JSONSerializer{},
	"msgpack": &serialize.MessagePackSerializer{},
	"cbor":    &serialize.CBORSerializer{},
}
var fmts = []string{"json", "msgpack", "cbor"}

func oneLine(s string) string {
	s = strings.ReplaceAll(s, "\n", " ")
	s = strings.ReplaceAll(s, "|", "/")
	if len(s) > 160 {
		s = s[:160]
	}
	return s
}

func doDeserialize(f string, data []byte) (res string) {
	defer func() {
		if r := recover(); r != nil {
			res = "panic " + oneLine(fmt.Sprint(r))
		}
	}()
	m, err := sers[f].Deserialize(data)
	if err != nil {
		return "err " + oneLine(err.Error())
	}
	if m == nil {
		return "err nil-message-without-error"
	}
	return "ok " + msgStr(m)
}

func doDataItem(f string, data []byte) (res string) {
	defer func() {
		if r := recover(); r != nil {
			res = "panic " + oneLine(fmt.Sprint(r))
		}
	}()
	var v any
	err := sers[f].DeserializeDataItem(data, &v)
	if err != nil {
		return "err " + oneLine(err.Error())
	}
	return "ok " + valueStr(v)
}

func doSerialize(f string, m wamp.Message) (data []byte, res string) {
	defer func() {
		if r := recover(); r != nil {
			res = "panic " + oneLine(fmt.Sprint(r))
		}
	}()
	b, err := sers[f].Serialize(m)
	if err != nil {
		return nil, "err " + oneLine(err.Error())
	}
	return b, ""
}

var out = bufio.NewWriterSize(os.Stdout, 1<<20)

func emit(kind string, id int, f string, data []byte, msg string) {
	fmt.Fprintf(out, "%s %d %s %s | M %s | D %s | V %s\n", kind, id, f, hexs(data), msg, doDeserialize(f, data), doDataItem(f, data))
}

// ------------------------------------------------------------------ generators

type stats struct {
	Structs      map[string]int `json:"messages_by_type"`
	Kinds        map[string]int `json:"payload_values_by_kind"`
	Depth        map[string]int `json:"payload_max_depth"`
	IntClass     map[string]int `json:"integers_by_boundary_class"`
	StrClass     map[string]int `json:"strings_by_class"`
	ArgsShape    map[string]int `json:"args_kwargs_shape"`
	Mutations    map[string]int `json:"mutations_by_kind"`
	TableShapes  int            `json:"table_item_shapes"`
	Cases        int            `json:"cases"`
	ExoticValues int            `json:"values_outside_universe_printed"`
}

var st = stats{Structs: map[string]int{}, Kinds: map[string]int{}, Depth: map[string]int{}, IntClass: map[string]int{},
	StrClass: map[string]int{}, ArgsShape: map[string]int{}, Mutations: map[string]int{}}

var boundaries = []uint64{0, 1, 23, 24, 31, 32, 127, 128, 255, 256, 32767, 32768, 65535, 65536,
	1<<31 - 1, 1 << 31, 1<<31 + 1, 1<<32 - 1, 1 << 32, 1<<32 + 1, 1<<53 - 1, 1 << 53, 1<<53 + 1,
	1<<63 - 1, 1 << 63, 1<<63 + 1, math.MaxUint64}

func genUint(r *rng) uint64 {
	switch r.intn(4) {
	case 0:
		st.IntClass["boundary"]++
		return boundaries[r.intn(len(boundaries))]
	case 1:
		st.IntClass["small"]++
		return uint64(r.intn(300))
	case 2:
		st.IntClass["wamp-id-range"]++
		return r.next()%(1<<53) + 1
	default:
		st.IntClass["random64"]++
		return r.next() >> uint(r.intn(64))
	}
}

func genInt(r *rng) int64 {
	u := genUint(r)
	switch r.intn(3) {
	case 0:
		if u > math.MaxInt64 {
			u >>= 1
		}
		return int64(u)
	case 1:
		// negative boundary: -u, -(u+1)
		if u > 1<<63 {
			u = 1 << 63
		}
		return -int64(u - 1) - 1
	default:
		if u > math.MaxInt64 {
			u >>= 1
		}
		return -int64(u)
	}
}

var strPool = []string{"", "a", "a.b.c", "wamp.error.invalid_argument", "é", "日本語", "\U0001F600", "a b c",
	"\"quoted\"", "back\\slash", "<tag>&amp;", "tab\there", "nl\nline", "cr\rret", "\x00nul", "\x01\x02\x1f", "\x7f del",
	"/slash", "\b\f", "ключ", "ß", "߿ࠀ￿", "\U00010000\U0010ffff", "xéèê"}

func genString(r *rng) string {
	switch r.intn(10) {
	case 0, 1, 2, 3, 4:
		st.StrClass["pool (escapes, non-ASCII, empty)"]++
		return strPool[r.intn(len(strPool))]
	case 5, 6:
		st.StrClass["random ascii"]++
		n := r.intn(40)
		b := make([]byte, n)
		for i := range b {
			b[i] = byte(32 + r.intn(95))
		}
		return string(b)
	case 7:
		st.StrClass["random unicode"]++
		n := r.intn(12)
		var sb strings.Builder
		for i := 0; i < n; i++ {
			var c rune
			switch r.intn(4) {
			case 0:
				c = rune(r.intn(0x80))
			case 1:
				c = rune(0x80 + r.intn(0x780))
			case 2:
				c = rune(0x800 + r.intn(0xF800))
				if c >= 0xD800 && c <= 0xDFFF {
					c = 0x2028
				}
			default:
				c = rune(0x10000 + r.intn(0x100000))
			}
			sb.WriteRune(c)
		}
		return sb.String()
	case 8:
		st.StrClass["length boundary (31,32,255,256)"]++
		n := []int{31, 32, 33, 255, 256, 257}[r.intn(6)]
		return strings.Repeat("x", n)
	default:
		if r.chance(1, 150) {
			st.StrClass["length boundary (65535,65536)"]++
			return strings.Repeat("y", []int{65535, 65536}[r.intn(2)])
		}
		st.StrClass["pool (escapes, non-ASCII, empty)"]++
		return strPool[r.intn(len(strPool))]
	}
}

func genBytes(r *rng) []byte {
	n := []int{0, 1, 2, 3, 4, 5, 16, 31, 32, 255, 256, 300}[r.intn(12)]
	b := make([]byte, n)
	for i := range b {
		b[i] = byte(r.next())
	}
	return b
}

var floatPool = []float64{0, math.Copysign(0, -1), 1, -1, 1.5, -2.25, 0.1, 1e-6, 9.999999e-7, 1e-7, 1e20, 1e21, 1.7976931348623157e308,
	5e-324, 2.2250738585072014e-308, 9007199254740992, 9007199254740993, 4294967296, 18446744073709551616, 9223372036854775808,
	-9223372036854775808, 3.141592653589793, 123456.789, 100000, math.Inf(1), math.Inf(-1)}

func genFloat(r *rng) float64 {
	if r.chance(3, 4) {
		return floatPool[r.intn(len(floatPool))]
	}
	if r.chance(1, 30) {
		return math.NaN()
	}
	return math.Float64frombits(r.next())
}

// genValue returns a payload value and its container depth.
func genValue(r *rng, depth int) (any, int) {
	k := r.intn(100)
	if depth <= 0 && k >= 70 {
		k = r.intn(70)
	}
	switch {
	case k < 6:
		st.Kinds["nil"]++
		return nil, 0
	case k < 12:
		st.Kinds["bool"]++
		return r.chance(1, 2), 0
	case k < 30:
		st.Kinds["signed int (int, int64, int8…int32)"]++
		v := genInt(r)
		switch r.intn(6) {
		case 0:
			return int(v), 0
		case 1:
			return int8(v), 0
		case 2:
			return int16(v), 0
		case 3:
			return int32(v), 0
		default:
			return v, 0
		}
	case k < 42:
		st.Kinds["unsigned int (uint64, wamp.ID, uint8…uint32)"]++
		v := genUint(r)
		switch r.intn(6) {
		case 0:
			return wamp.ID(v), 0
		case 1:
			return uint8(v), 0
		case 2:
			return uint16(v), 0
		case 3:
			return uint32(v), 0
		default:
			return v, 0
		}
	case k < 50:
		st.Kinds["float64"]++
		return genFloat(r), 0
	case k < 64:
		st.Kinds["string / wamp.URI"]++
		s := genString(r)
		if r.chance(1, 4) {
			return wamp.URI(s), 0
		}
		return s, 0
	case k < 70:
		st.Kinds["binary (serialize.BinaryData)"]++
		return serialize.BinaryData(genBytes(r)), 0
	case k < 85:
		st.Kinds["list"]++
		l, d := genList(r, depth-1)
		if r.chance(1, 2) {
			return wamp.List(l), d + 1
		}
		return l, d + 1
	default:
		st.Kinds["dict"]++
		m, d := genDict(r, depth-1)
		if r.chance(1, 2) {
			return wamp.Dict(m), d + 1
		}
		return m, d + 1
	}
}

func genList(r *rng, depth int) ([]any, int) {
	n := []int{0, 0, 1, 1, 2, 3, 5, 15, 16, 17}[r.intn(10)]
	if depth < 3 && n > 5 {
		n = 2
	}
	l := make([]any, n)
	md := 0
	for i := range l {
		v, d := genValue(r, depth)
		l[i] = v
		if d > md {
			md = d
		}
	}
	return l, md
}

func genDict(r *rng, depth int) (map[string]any, int) {
	n := []int{0, 0, 1, 1, 2, 3, 5, 15, 16, 17}[r.intn(10)]
	if depth < 3 && n > 5 {
		n = 2
	}
	m := make(map[string]any, n)
	md := 0
	for i := 0; i < n; i++ {
		v, d := genValue(r, depth)
		k := genString(r)
		if len(k) > 300 {
			k = k[:300]
		}
		m[k] = v
		if d > md {
			md = d
		}
	}
	return m, md
}

var msgTypes = []wamp.MessageType{wamp.HELLO, wamp.WELCOME, wamp.ABORT, wamp.CHALLENGE, wamp.AUTHENTICATE, wamp.GOODBYE,
	wamp.ERROR, wamp.PUBLISH, wamp.PUBLISHED, wamp.SUBSCRIBE, wamp.SUBSCRIBED, wamp.UNSUBSCRIBE, wamp.UNSUBSCRIBED,
	wamp.EVENT, wamp.CALL, wamp.CANCEL, wamp.RESULT, wamp.REGISTER, wamp.REGISTERED, wamp.UNREGISTER, wamp.UNREGISTERED,
	wamp.INVOCATION, wamp.INTERRUPT, wamp.YIELD}

// genMessage fills a message of the given type by reflection over its fields
// (so a changed struct is followed automatically).
func genMessage(r *rng, t wamp.MessageType, maxDepth int) wamp.Message {
	m := wamp.NewMessage(t)
	if m == nil {
		return nil
	}
	rv := reflect.ValueOf(m).Elem()
	st.Structs[rv.Type().Name()]++
	argsShape := ""
	md := 0
	for i := 0; i < rv.NumField(); i++ {
		f := rv.Field(i)
		name := rv.Type().Field(i).Name
		switch f.Interface().(type) {
		case wamp.ID:
			f.SetUint(genUint(r))
		case wamp.URI:
			f.SetString(genString(r))
		case string:
			f.SetString(genString(r))
		case wamp.MessageType:
			if r.chance(3, 4) {
				f.SetInt(int64(msgTypes[r.intn(len(msgTypes))]))
			} else {
				f.SetInt(genInt(r))
			}
		case wamp.Dict:
			c := r.intn(6)
			shape := "nonempty"
			switch {
			case c == 0:
				shape = "nil"
				f.Set(reflect.Zero(f.Type()))
			case c == 1:
				shape = "empty"
				f.Set(reflect.ValueOf(wamp.Dict{}))
			default:
				d, dd := genDict(r, maxDepth-1)
				if len(d) == 0 {
					shape = "empty"
				}
				if dd+1 > md {
					md = dd + 1
				}
				f.Set(reflect.ValueOf(wamp.Dict(d)))
			}
			if name == "ArgumentsKw" {
				argsShape += "kwargs=" + shape
			}
		case wamp.List:
			c := r.intn(6)
			shape := "nonempty"
			switch {
			case c == 0:
				shape = "nil"
				f.Set(reflect.Zero(f.Type()))
			case c == 1:
				shape = "empty"
				f.Set(reflect.ValueOf(wamp.List{}))
			default:
				l, dd := genList(r, maxDepth-1)
				if len(l) == 0 {
					shape = "empty"
				}
				if dd+1 > md {
					md = dd + 1
				}
				f.Set(reflect.ValueOf(wamp.List(l)))
			}
			if name == "Arguments" {
				argsShape += "args=" + shape + " "
			}
		default:
			fmt.Fprintf(os.Stderr, "c14drive: field %s.%s has a type the generator does not know (%s): left zero\n", rv.Type().Name(), name, f.Type())
		}
	}
	if argsShape != "" {
		st.ArgsShape[argsShape]++
	}
	st.Depth[strconv.Itoa(md)]++
	return m
}

func cmdGen(seed uint64, n int) {
	r := &rng{s: seed}
	id := 0
	for i := 0; i < n; i++ {
		t := msgTypes[i%len(msgTypes)]
		m := genMessage(r, t, 6)
		ms := msgStr(m)
		for _, f := range fmts {
			data, res := doSerialize(f, m)
			if res != "" {
				fmt.Fprintf(out, "G %d %s - | M %s | D serialize-%s | V -\n", id, f, ms, res)
			} else {
				emit("G", id, f, data, ms)
			}
			id++
		}
	}
	st.Cases = id
}

func cmdValues(seed uint64, n int) {
	r := &rng{s: seed ^ 0x5bd1e995}
	id := 0
	for i := 0; i < n; i++ {
		v, _ := genValue(r, 6)
		vs := valueStr(v)
		for _, f := range fmts {
			var data []byte
			var res string
			func() {
				defer func() {
					if p := recover(); p != nil {
						res = "panic " + oneLine(fmt.Sprint(p))
					}
				}()
				b, err := sers[f].SerializeDataItem(v)
				if err != nil {
					res = "err " + oneLine(err.Error())
				}
				data = b
			}()
			if res != "" {
				fmt.Fprintf(out, "I %d %s - | M %s | D - | V serialize-%s\n", id, f, vs, res)
			} else {
				fmt.Fprintf(out, "I %d %s %s | M %s | D - | V %s\n", id, f, hexs(data), vs, doDataItem(f, data))
			}
			id++
		}
	}
	// nesting boundary of the decoders (1023 levels)
	for _, d := range []int{1022, 1023, 1024} {
		var v any = []any{}
		for k := 1; k < d; k++ {
			v = []any{v}
		}
		for _, f := range fmts {
			b, err := sers[f].SerializeDataItem(v)
			if err != nil {
				continue
			}
			fmt.Fprintf(out, "I %d %s %s | M nested-list-depth-%d | D - | V %s\n", id, f, hexs(b), d, doDataItem(f, b))
			id++
		}
	}
	st.Cases = id
}

// ------------------------------------------------------------------ decision table

func itemShapes() []any {
	return []any{
		nil, true, false,
		int64(0), int64(5), int64(65), int64(-1), int64(math.MinInt64), int64(math.MaxInt64), int64(0x110000), int64(0xD800),
		uint64(0), uint64(5), uint64(65), uint64(1 << 63), uint64(math.MaxUint64), uint64(0x20AC),
		float64(0), math.Copysign(0, -1), float64(1), float64(1.5), float64(-1), float64(-1.5), float64(1 << 53), float64(1 << 63), float64(1 << 64),
		-float64(1 << 63), -float64(1<<63) * 2, 1e30, math.Inf(1), math.Inf(-1), math.NaN(), 5e-324,
		"", "a.b", "é", []byte{}, []byte{1, 2, 255}, serialize.BinaryData{3, 4},
		[]any{}, []any{int64(1), "x"}, map[string]any{}, map[string]any{"k": int64(1)},
	}
}

// a well-typed default item for a field
func defaultItem(f reflect.Value) any {
	switch f.Interface().(type) {
	case wamp.ID:
		return uint64(7)
	case wamp.URI, string:
		return "x.y"
	case wamp.MessageType:
		return int64(48)
	case wamp.Dict:
		return map[string]any{}
	case wamp.List:
		return []any{}
	}
	return nil
}

func cmdTable() {
	id := 0
	shapes := itemShapes()
	st.TableShapes = len(shapes)
	enc := func(kind string, items []any) {
		for _, f := range fmts {
			b, err := sers[f].SerializeDataItem(items)
			if err != nil {
				continue
			}
			emit(kind, id, f, b, "-")
			id++
		}
	}
	for _, t := range msgTypes {
		m := wamp.NewMessage(t)
		rv := reflect.ValueOf(m).Elem()
		nf := rv.NumField()
		full := []any{int64(t)}
		for i := 0; i < nf; i++ {
			full = append(full, defaultItem(rv.Field(i)))
		}
		// every list length from 1 (code only) to nf+3 (extra items)
		for l := 1; l <= nf+3; l++ {
			items := append([]any{}, full...)
			for len(items) < l {
				items = append(items, "extra")
			}
			enc("T", items[:l])
		}
		// every field x every item shape
		for i := 0; i < nf; i++ {
			for _, s := range shapes {
				items := append([]any{}, full...)
				items[i+1] = s
				enc("T", items)
			}
		}
	}
	// the code item
	for _, c := range []any{nil, true, int64(0), int64(7), int64(9), int64(15), int64(33), int64(71), int64(255), int64(-1), int64(-33),
		int64(math.MaxInt64), int64(math.MinInt64), uint64(33), uint64(1 << 31), uint64(1 << 63), uint64(1<<63 + 33), uint64(math.MaxUint64),
		float64(33), "33", []byte{33}, []any{int64(33)}, map[string]any{}} {
		enc("T", []any{c, uint64(1), uint64(2)})
	}
	// top-level things that are not a list
	for _, v := range []any{nil, true, int64(33), "x", []byte{1}, map[string]any{}, map[string]any{"a": int64(1)}, 1.5} {
		for _, f := range fmts {
			b, err := sers[f].SerializeDataItem(v)
			if err != nil {
				continue
			}
			emit("T", id, f, b, "-")
			id++
		}
	}
	st.Cases = id
}

// ------------------------------------------------------------------ known-defect witnesses

type probe struct {
	Sig  string
	Fmt  string
	Hex  string
	What string
}

func probes() []probe {
	js := func(s string) string { return hexs([]byte(s)) }
	return []probe{
		{"listToMsg:integer-accepted-for-string-field", "json", js(`[32,1,{},65]`), "SUBSCRIBE whose Topic item is the integer 65 is accepted with Topic \"A\""},
		{"listToMsg:integer-accepted-for-string-field", "msgpack", "9420018041", "SUBSCRIBE whose Topic item is the integer 65 is accepted with Topic \"A\""},
		{"listToMsg:integer-accepted-for-string-field", "cbor", "84182001a01841", "SUBSCRIBE whose Topic item is the integer 65 is accepted with Topic \"A\""},
		{"listToMsg:negative-integer-accepted-for-id-field", "json", js(`[32,-1,{},"a"]`), "SUBSCRIBE with Request -1 is accepted with Request 2^64-1"},
		{"listToMsg:negative-integer-accepted-for-id-field", "msgpack", "9420ff80a161", "SUBSCRIBE with Request -1 is accepted with Request 2^64-1"},
		{"listToMsg:negative-integer-accepted-for-id-field", "cbor", "84182020a06161", "SUBSCRIBE with Request -1 is accepted with Request 2^64-1"},
		{"listToMsg:inexact-float-accepted-for-integer-field", "json", js(`[32,1.5,{},"a"]`), "SUBSCRIBE with Request 1.5 is accepted with Request 1"},
		{"listToMsg:inexact-float-accepted-for-integer-field", "msgpack", "9420cb3ff800000000000080a161", "SUBSCRIBE with Request 1.5 is accepted with Request 1"},
		{"listToMsg:inexact-float-accepted-for-integer-field", "cbor", "841820fb3ff8000000000000a06161", "SUBSCRIBE with Request 1.5 is accepted with Request 1"},
		{"listToMsg:out-of-range-integer-accepted-for-msgtype-field", "json", js(`[8,18446744073709551615,1,{},"a"]`), "ERROR with request type 2^64-1 is accepted with Type -1"},
		{"Deserialize:map-accepted-as-message", "msgpack", "82100180a3612e62", "the MAP {16: 1, {}: \"a.b\"} is accepted as the PUBLISH [16, 1, {}, \"a.b\"]"},
		{"Deserialize:map-accepted-as-message", "cbor", "a2182101182202", "the MAP {33: 1, 34: 2} is accepted as the message [33, 1, 34, 2] = SUBSCRIBED"},
	}
}

func cmdProbe() {
	id := 0
	for _, p := range probes() {
		b, _ := hex.DecodeString(p.Hex)
		fmt.Fprintf(out, "P %d %s %s | M %s | D %s | V %s\n", id, p.Fmt, p.Hex, p.Sig+" "+strings.ReplaceAll(p.What, "|", "/"), doDeserialize(p.Fmt, b), doDataItem(p.Fmt, b))
		id++
	}
	// round-trip witnesses: Serialize then Deserialize a message built here
	const jsig = "json:float-from-2^52-written-as-integer-literal"
	for _, f := range []float64{-1e19, float64(1 << 63), 123456789012345678} {
		m := &wamp.Publish{Request: 1, Options: wamp.Dict{}, Topic: "a.b", Arguments: wamp.List{f}}
		data, res := doSerialize("json", m)
		if res != "" {
			fmt.Fprintf(out, "Q %d json - | M %s %s | D serialize-%s | V -\n", id, jsig, msgStr(m), res)
		} else {
			fmt.Fprintf(out, "Q %d json %s | M %s %s | D %s | V %s\n", id, hexs(data), jsig, msgStr(m), doDeserialize("json", data), doDataItem("json", data))
		}
		id++
	}
}

// ------------------------------------------------------------------ mutations

var interesting = []byte{0x00, 0x01, 0x7f, 0x80, 0x81, 0x8f, 0x90, 0x91, 0x9f, 0xa0, 0xa1, 0xbf, 0xc0, 0xc1, 0xc2, 0xc3, 0xc4, 0xc5, 0xc6, 0xc7,
	0xca, 0xcb, 0xcc, 0xcd, 0xce, 0xcf, 0xd0, 0xd1, 0xd2, 0xd3, 0xd4, 0xd9, 0xda, 0xdb, 0xdc, 0xdd, 0xde, 0xdf, 0xe0, 0xff,
	0x17, 0x18, 0x19, 0x1a, 0x1b, 0x1c, 0x1f, 0x20, 0x37, 0x38, 0x3b, 0x40, 0x5f, 0x60, 0x7b, 0x9b, 0xbb, 0xf4, 0xf5, 0xf6, 0xf7, 0xf9, 0xfa, 0xfb}
var jsonChars = []byte(`[]{},:"\ntfu0123456789eE.-+ /` + "\t\n")

func mutate(r *rng, f string, base []byte) ([]byte, string) {
	b := append([]byte{}, base...)
	pick := func() byte {
		if f == "json" {
			return jsonChars[r.intn(len(jsonChars))]
		}
		if r.chance(1, 2) {
			return interesting[r.intn(len(interesting))]
		}
		return byte(r.next())
	}
	k := r.intn(10)
	switch {
	case len(b) == 0 || k == 9:
		n := r.intn(24)
		b = make([]byte, n)
		for i := range b {
			b[i] = pick()
		}
		return b, "random bytes"
	case k == 0:
		i := r.intn(len(b))
		b[i] ^= 1 << uint(r.intn(8))
		return b, "bit flip"
	case k == 1 || k == 2:
		b[r.intn(len(b))] = pick()
		return b, "byte replaced"
	case k == 3:
		i := r.intn(len(b))
		return append(b[:i], b[i+1:]...), "byte deleted"
	case k == 4:
		i := r.intn(len(b) + 1)
		c := pick()
		b = append(b[:i], append([]byte{c}, b[i:]...)...)
		return b, "byte inserted"
	case k == 5:
		return b[:r.intn(len(b))], "truncated"
	case k == 6:
		i := r.intn(len(b))
		j := i + r.intn(len(b)-i)
		chunk := append([]byte{}, b[i:j]...)
		p := r.intn(len(b) + 1)
		b = append(b[:p], append(chunk, b[p:]...)...)
		return b, "chunk duplicated"
	case k == 7:
		// the top-level container header
		switch f {
		case "msgpack":
			if b[0]&0xf0 == 0x90 {
				b[0] = 0x80 | (b[0]&0x0f)/2
				return b, "top-level array header -> map header"
			}
		case "cbor":
			if b[0]&0xe0 == 0x80 {
				b[0] = 0xa0 | (b[0]&0x1f)/2
				return b, "top-level array header -> map header"
			}
		}
		b[0] = pick()
		return b, "first byte replaced"
	default:
		// two mutations
		b1, _ := mutate(r, f, b)
		b2, _ := mutate(r, f, b1)
		return b2, "double"
	}
}

func cmdMutate(seed uint64, n int) {
	r := &rng{s: seed ^ 0xa5a5a5a5}
	id := 0
	var bases [3][][]byte
	for i := 0; i < 200; i++ {
		m := genMessage(r, msgTypes[i%len(msgTypes)], 3)
		for fi, f := range fmts {
			b, res := doSerialize(f, m)
			if res == "" && len(b) < 400 {
				bases[fi] = append(bases[fi], b)
			}
		}
	}
	for i := 0; i < n; i++ {
		fi := i % 3
		f := fmts[fi]
		base := bases[fi][r.intn(len(bases[fi]))]
		b, kind := mutate(r, f, base)
		st.Mutations[kind]++
		emit("X", id, f, b, "-")
		id++
	}
	st.Cases = id
}

// ------------------------------------------------------------------ golden wire format

// cmdGolden serializes, for every message type, four fixed messages built by
// reflection over the struct (all fields set; trailing omitempty fields empty;
// first omitempty field nil and the following ones set; all fields set with
// dicts nested in dicts and lists) and deserializes the
// result.  Dicts hold one key, so the bytes are deterministic.  The output on
// the reference tree is committed as corpus/C14/golden.txt; the check compares.
func cmdGolden() {
	id := 0
	for _, t := range msgTypes {
		for variant := 0; variant < 4; variant++ {
			m := wamp.NewMessage(t)
			if m == nil {
				fmt.Fprintf(out, "S %d - - | M NewMessage(%d)=nil | D - | V -\n", id, int(t))
				id++
				continue
			}
			rv := reflect.ValueOf(m).Elem()
			seenOmit := 0
			for j := 0; j < rv.NumField(); j++ {
				f := rv.Field(j)
				// the value depends on the field's NAME, so that two fields changing places is seen
				i := 0
				for _, ch := range rv.Type().Field(j).Name {
					i = (i*31 + int(ch)) % 900
				}
				omit := strings.Contains(rv.Type().Field(j).Tag.Get("wamp"), "omitempty")
				if omit {
					seenOmit++
					if variant == 1 || (variant == 2 && seenOmit == 1) {
						continue
					}
				}
				switch f.Interface().(type) {
				case wamp.ID:
					f.SetUint(uint64(1000 + i))
				case wamp.URI:
					f.SetString(fmt.Sprintf("u.f%d", i))
				case string:
					f.SetString(fmt.Sprintf("s%d", i))
				case wamp.MessageType:
					f.SetInt(48)
				case wamp.Dict:
					if variant == 3 {
						// dicts nested in dicts and lists (one key each: deterministic bytes)
						f.Set(reflect.ValueOf(wamp.Dict{fmt.Sprintf("k%d", i): map[string]any{"n": []any{"x", map[string]any{"d": true}}}}))
					} else {
						f.Set(reflect.ValueOf(wamp.Dict{fmt.Sprintf("k%d", i): int64(i)}))
					}
				case wamp.List:
					if variant == 3 {
						f.Set(reflect.ValueOf(wamp.List{map[string]any{"m": map[string]any{"z": nil}}, "x"}))
					} else {
						f.Set(reflect.ValueOf(wamp.List{int64(i), "x"}))
					}
				}
			}
			ms := msgStr(m)
			for _, f := range fmts {
				data, res := doSerialize(f, m)
				if res != "" {
					fmt.Fprintf(out, "S %d %s - | M %s | D serialize-%s | V -\n", id, f, ms, res)
				} else {
					fmt.Fprintf(out, "S %d %s %s | M %s | D %s | V -\n", id, f, hexs(data), ms, doDeserialize(f, data))
				}
				id++
			}
		}
	}
	st.Cases = id
}

func cmdDeser() {
	sc := bufio.NewScanner(os.Stdin)
	sc.Buffer(make([]byte, 1<<20), 1<<28)
	for sc.Scan() {
		parts := strings.Fields(sc.Text())
		if len(parts) < 2 {
			continue
		}
		hx := ""
		if len(parts) > 2 {
			hx = parts[2]
		}
		b, err := hex.DecodeString(hx)
		if err != nil {
			fmt.Fprintf(out, "R %s %s %s | M - | D bad-hex | V bad-hex\n", parts[0], parts[1], hx)
			continue
		}
		fmt.Fprintf(out, "R %s %s %s | M - | D %s | V %s\n", parts[0], parts[1], hx, doDeserialize(parts[1], b), doDataItem(parts[1], b))
	}
}

// harnessExt is a type of the harness only (it never occurs in a generated
// payload): registering an extension for it must not change how ordinary
// messages are encoded or decoded.
type harnessExt []byte

// exerciseStateAPIs leaves the package-level serializer state as an
// application may legitimately leave it: every exported function of
// transport/serialize that changes that state is used, in the documented
// order (InitMsgpackHandle, then MsgpackRegisterExtension; deregistration;
// again).  JSON and CBOR have no such API (their handles are set up once, in
// init()).  A panic here is reported like any other.
func exerciseStateAPIs() {
	defer func() {
		if r := recover(); r != nil {
			fmt.Fprintf(out, "Z 0 msgpack - | M state-api | D panic %s | V -\n", oneLine(fmt.Sprint(r)))
		}
	}()
	enc := func(v reflect.Value) ([]byte, error) { return v.Bytes(), nil }
	dec := func(v reflect.Value, bs []byte) error { v.Elem().SetBytes(append([]byte{}, bs...)); return nil }
	rt := reflect.TypeFor[harnessExt]()
	serialize.InitMsgpackHandle()
	_ = serialize.MsgpackRegisterExtension(rt, 42, enc, dec)
	// use the extension once
	mp := sers["msgpack"]
	if b, err := mp.SerializeDataItem([]any{harnessExt{1, 2, 3}}); err == nil {
		var v any
		_ = mp.DeserializeDataItem(b, &v)
	}
	_ = serialize.MsgpackRegisterExtension(rt, 42, nil, nil) // deregister
	serialize.InitMsgpackHandle()                            // and start over, as the doc comment prescribes
	_ = serialize.MsgpackRegisterExtension(rt, 42, enc, dec)
}

func main() {
	if len(os.Args) < 2 {
		fmt.Fprintln(os.Stderr, "usage: c14drive gen|values|table|mutate|deser|probe [-seed S] [-n N]")
		os.Exit(2)
	}
	cmd := os.Args[1]
	fs := flag.NewFlagSet(cmd, flag.ExitOnError)
	seed := fs.Uint64("seed", 1, "VERIF_SEED")
	n := fs.Int("n", 100, "number of cases")
	state := fs.String("state", "fresh", "serializer state: fresh (as after package init) | reinit (after the public re-initialisation / extension-registration APIs have been used)")
	_ = fs.Parse(os.Args[2:])
	switch *state {
	case "fresh":
	case "reinit":
		exerciseStateAPIs()
	default:
		fmt.Fprintln(os.Stderr, "unknown -state "+*state)
		os.Exit(2)
	}
	defer out.Flush()
	switch cmd {
	case "gen":
		cmdGen(*seed, *n)
	case "values":
		cmdValues(*seed, *n)
	case "table":
		cmdTable()
	case "mutate":
		cmdMutate(*seed, *n)
	case "deser":
		cmdDeser()
	case "probe":
		cmdProbe()
	case "golden":
		cmdGolden()
	default:
		fmt.Fprintln(os.Stderr, "unknown command "+cmd)
		os.Exit(2)
	}
	st.ExoticValues = exotic
	js, _ := json.Marshal(st)
	fmt.Fprintf(out, "STATS %s\n", js)
}
