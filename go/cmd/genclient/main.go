// genclient is the translator part of the C16 / C17 checks.
//
// It reads client/client.go (go/parser + go/ast only) and prints
// coq/gen/GenClient.v on stdout:
//
//	gen_sites : the inventory of accessor sites on ROUTER-CONTROLLED data
//	            (Details / Arguments / ArgumentsKw / Options of received
//	            messages and everything that flows from them through
//	            parameters and local variables): bare assertions x.(T),
//	            comma-ok assertions, wamp.AsX conversions, index expressions
//	            with or without a dominating length check, dereferences of
//	            decoded pointers with or without a dominating nil check;
//	gen_funcs : per function, in source order, the channel operations (send /
//	            receive / close / select with or without default), go
//	            statements, calls of user-supplied function values, the
//	            shutdown calls (peer Close, EndRecv, context cancel, wait
//	            group operations), expectReply / returns, and calls of other
//	            functions of the file.
//
// Anything it does not recognise where it matters (a channel expression it
// cannot classify, a select case that is neither send nor receive, a type
// assertion form it does not know) stops it with a non-zero status: the check
// then reports a broken tie instead of silently skipping the construct.
package main

import (
	"fmt"
	"go/ast"
	"go/parser"
	"go/printer"
	"go/token"
	"os"
	"sort"
	"strings"
)

var fset = token.NewFileSet()

func fail(pos token.Pos, format string, a ...any) {
	fmt.Fprintf(os.Stderr, "genclient: %s: %s\n", fset.Position(pos), fmt.Sprintf(format, a...))
	os.Exit(2)
}

func src(n ast.Node) string {
	var b strings.Builder
	printer.Fprint(&b, fset, n)
	return b.String()
}

// message types a router sends to a client
var routerTypes = map[string]bool{
	"Event": true, "Invocation": true, "Interrupt": true, "Result": true, "Error": true,
	"Subscribed": true, "Unsubscribed": true, "Registered": true, "Unregistered": true,
	"Published": true, "Goodbye": true, "Abort": true, "Welcome": true, "Challenge": true,
}

var taintedFields = map[string]bool{"Details": true, "Arguments": true, "ArgumentsKw": true, "Options": true, "Extra": true}

func routerMsgType(t ast.Expr) bool {
	st, ok := t.(*ast.StarExpr)
	if !ok {
		return false
	}
	sel, ok := st.X.(*ast.SelectorExpr)
	if !ok {
		return false
	}
	pkg, ok := sel.X.(*ast.Ident)
	return ok && pkg.Name == "wamp" && routerTypes[sel.Sel.Name]
}

// ---------------------------------------------------------------------------
// sites

type site struct {
	fn   string
	line int
	kind string // SBare SCommaOk SAs SIndexGuarded SIndexUnguarded SKey SDerefGuarded SDerefUnguarded
	text string
}

type funcInfo struct {
	decl     *ast.FuncDecl
	name     string
	params   []string
	taintedP map[int]bool
}

type analyzer struct {
	funcs         map[string]*funcInfo
	sites         []site
	changedGlobal bool
	replyClass    string // what c.awaitingReply[...] yields: ChReply (a channel) or ChReplyWaiter (a record holding it)
}

// per-function taint state
type fstate struct {
	a       *analyzer
	fi      *funcInfo
	msgVars map[string]bool // identifiers holding a received message
	tainted map[string]bool // identifiers holding router-controlled data
	decoded map[string]bool // pointer variables filled from router-controlled data
	changed bool
}

func (f *fstate) isTainted(e ast.Expr) bool {
	switch e := e.(type) {
	case *ast.Ident:
		return f.tainted[e.Name]
	case *ast.SelectorExpr:
		if id, ok := e.X.(*ast.Ident); ok && f.msgVars[id.Name] && taintedFields[e.Sel.Name] {
			return true
		}
		return false
	case *ast.IndexExpr:
		return f.isTainted(e.X)
	case *ast.ParenExpr:
		return f.isTainted(e.X)
	case *ast.TypeAssertExpr:
		return f.isTainted(e.X)
	case *ast.CallExpr:
		// wamp.AsX(tainted) stays router-controlled
		if sel, ok := e.Fun.(*ast.SelectorExpr); ok {
			if id, ok := sel.X.(*ast.Ident); ok && id.Name == "wamp" && strings.HasPrefix(sel.Sel.Name, "As") && len(e.Args) == 1 {
				return f.isTainted(e.Args[0])
			}
		}
	}
	return false
}

func (f *fstate) markTainted(name string) {
	if name != "_" && !f.tainted[name] {
		f.tainted[name] = true
		f.changed = true
	}
}

func (f *fstate) markMsg(name string) {
	if name != "_" && !f.msgVars[name] {
		f.msgVars[name] = true
		f.changed = true
	}
}

// collect propagates taint through assignments, ranges, type switches and
// calls of functions of this file (to a fixpoint, driven by the caller).
func (f *fstate) collect(body ast.Node) {
	ast.Inspect(body, func(n ast.Node) bool {
		switch n := n.(type) {
		case *ast.AssignStmt:
			if len(n.Rhs) == 1 {
				rhs := n.Rhs[0]
				if f.isTainted(rhs) {
					if id, ok := n.Lhs[0].(*ast.Ident); ok {
						f.markTainted(id.Name)
					}
				}
				// msg := x.(*wamp.Result)
				if ta, ok := rhs.(*ast.TypeAssertExpr); ok && ta.Type != nil && routerMsgType(ta.Type) {
					if id, ok := n.Lhs[0].(*ast.Ident); ok {
						f.markMsg(id.Name)
					}
				}
			} else {
				for i, rhs := range n.Rhs {
					if i < len(n.Lhs) && f.isTainted(rhs) {
						if id, ok := n.Lhs[i].(*ast.Ident); ok {
							f.markTainted(id.Name)
						}
					}
				}
			}
		case *ast.RangeStmt:
			if f.isTainted(n.X) {
				if id, ok := n.Value.(*ast.Ident); ok && id != nil {
					f.markTainted(id.Name)
				}
			}
		case *ast.TypeSwitchStmt:
			// switch msg := msg.(type) { case *wamp.Event: ... }
			var bound string
			if as, ok := n.Assign.(*ast.AssignStmt); ok {
				if id, ok := as.Lhs[0].(*ast.Ident); ok {
					bound = id.Name
				}
			}
			if bound != "" {
				for _, c := range n.Body.List {
					cc := c.(*ast.CaseClause)
					for _, t := range cc.List {
						if routerMsgType(t) {
							f.markMsg(bound)
						}
					}
				}
			}
		case *ast.CallExpr:
			name := ""
			switch fn := n.Fun.(type) {
			case *ast.Ident:
				name = fn.Name
			case *ast.SelectorExpr:
				if id, ok := fn.X.(*ast.Ident); ok && id.Name == "c" {
					name = fn.Sel.Name
				}
			}
			if callee, ok := f.a.funcs[name]; ok {
				for i, arg := range n.Args {
					taintedArg := f.isTainted(arg)
					if id, ok := arg.(*ast.Ident); ok && f.msgVars[id.Name] {
						// a received message handed on: its parameter is a message variable
						if i < len(callee.params) && !callee.taintedP[-1-i] {
							callee.taintedP[-1-i] = true
							f.a.changedGlobal = true
						}
					}
					if taintedArg && i < len(callee.params) && !callee.taintedP[i] {
						callee.taintedP[i] = true
						f.a.changedGlobal = true
					}
				}
			}
			// serializer.DeserializeDataItem(<tainted bytes>, &v)
			if sel, ok := n.Fun.(*ast.SelectorExpr); ok && sel.Sel.Name == "DeserializeDataItem" && len(n.Args) == 2 {
				if u, ok := n.Args[1].(*ast.UnaryExpr); ok && u.Op == token.AND {
					if id, ok := u.X.(*ast.Ident); ok && f.isPointerVar(id.Name) {
						if !f.decoded[id.Name] {
							f.decoded[id.Name] = true
							f.changed = true
						}
					}
				}
			}
		}
		return true
	})
	// a pointer variable assigned from an assertion on router data
	ast.Inspect(body, func(n ast.Node) bool {
		if as, ok := n.(*ast.AssignStmt); ok && len(as.Rhs) == 1 {
			if ta, ok := as.Rhs[0].(*ast.TypeAssertExpr); ok && ta.Type != nil && f.isTainted(ta.X) {
				if _, isPtr := ta.Type.(*ast.StarExpr); isPtr {
					if id, ok := as.Lhs[0].(*ast.Ident); ok && !f.decoded[id.Name] {
						f.decoded[id.Name] = true
						f.changed = true
					}
				}
			}
		}
		return true
	})
}

func (f *fstate) isPointerVar(name string) bool {
	found := false
	ast.Inspect(f.fi.decl.Body, func(n ast.Node) bool {
		if d, ok := n.(*ast.ValueSpec); ok {
			for _, id := range d.Names {
				if id.Name == name {
					if _, ok := d.Type.(*ast.StarExpr); ok {
						found = true
					}
				}
			}
		}
		return true
	})
	return found
}

func (a *analyzer) add(fn string, pos token.Pos, kind string, n ast.Node) {
	a.sites = append(a.sites, site{fn, fset.Position(pos).Line, kind, src(n)})
}

// guards carries the expressions whose length / non-nilness is established
// on every path reaching the current statement.
type guards struct {
	length   map[string]bool
	nonnil   map[string]bool
	rangeKey map[string]string // list expression -> index variable of an enclosing `for i := range list`
}

func newGuards() guards {
	return guards{map[string]bool{}, map[string]bool{}, map[string]string{}}
}

func (g guards) clone() guards {
	n := newGuards()
	for k := range g.length {
		n.length[k] = true
	}
	for k := range g.nonnil {
		n.nonnil[k] = true
	}
	for k, v := range g.rangeKey {
		n.rangeKey[k] = v
	}
	return n
}

func looksLikeList(e ast.Expr) bool {
	s := src(e)
	return s == "args" || strings.HasSuffix(s, ".Arguments")
}

func endsInReturn(b *ast.BlockStmt) bool {
	if len(b.List) == 0 {
		return false
	}
	switch b.List[len(b.List)-1].(type) {
	case *ast.ReturnStmt:
		return true
	case *ast.BranchStmt:
		return true
	}
	return false
}

// lenCheck recognises `len(E) == 0`, `len(E) < 1`, `len(E) != 0`, `len(E) > 0`,
// `len(E) >= 1` and returns E and whether the condition means "empty".
func lenCheck(c ast.Expr) (string, bool, bool) {
	be, ok := c.(*ast.BinaryExpr)
	if !ok {
		return "", false, false
	}
	call, ok := be.X.(*ast.CallExpr)
	if !ok {
		return "", false, false
	}
	if id, ok := call.Fun.(*ast.Ident); !ok || id.Name != "len" || len(call.Args) != 1 {
		return "", false, false
	}
	lit, ok := be.Y.(*ast.BasicLit)
	if !ok {
		return "", false, false
	}
	e := src(call.Args[0])
	switch {
	case be.Op == token.EQL && lit.Value == "0", be.Op == token.LSS && lit.Value == "1":
		return e, true, true
	case be.Op == token.NEQ && lit.Value == "0", be.Op == token.GTR && lit.Value == "0", be.Op == token.GEQ && lit.Value == "1":
		return e, false, true
	}
	return "", false, false
}

func nilCheck(c ast.Expr) (string, bool, bool) {
	be, ok := c.(*ast.BinaryExpr)
	if !ok {
		return "", false, false
	}
	if id, ok := be.Y.(*ast.Ident); !ok || id.Name != "nil" {
		return "", false, false
	}
	switch be.Op {
	case token.EQL:
		return src(be.X), true, true
	case token.NEQ:
		return src(be.X), false, true
	}
	return "", false, false
}

func (f *fstate) scanExpr(e ast.Node, g guards, commaOK map[ast.Expr]bool) {
	ast.Inspect(e, func(n ast.Node) bool {
		switch n := n.(type) {
		case *ast.FuncLit:
			f.scanBlock(n.Body, g.clone())
			return false
		case *ast.TypeAssertExpr:
			if n.Type == nil {
				return true // x.(type) of a type switch
			}
			if f.isTainted(n.X) {
				if commaOK[n] {
					f.a.add(f.fi.name, n.Pos(), "SCommaOk", n)
				} else {
					f.a.add(f.fi.name, n.Pos(), "SBare", n)
				}
			}
		case *ast.CallExpr:
			if sel, ok := n.Fun.(*ast.SelectorExpr); ok {
				if id, ok := sel.X.(*ast.Ident); ok && id.Name == "wamp" && strings.HasPrefix(sel.Sel.Name, "As") && len(n.Args) == 1 && f.isTainted(n.Args[0]) {
					f.a.add(f.fi.name, n.Pos(), "SAs", n)
				}
			}
		case *ast.IndexExpr:
			if f.isTainted(n.X) {
				switch ix := n.Index.(type) {
				case *ast.BasicLit:
					if ix.Kind == token.INT {
						if g.length[src(n.X)] {
							f.a.add(f.fi.name, n.Pos(), "SIndexGuarded", n)
						} else {
							f.a.add(f.fi.name, n.Pos(), "SIndexUnguarded", n)
						}
					} else {
						f.a.add(f.fi.name, n.Pos(), "SKey", n)
					}
				default:
					id, isIdent := n.Index.(*ast.Ident)
					switch {
					case isIdent && g.rangeKey[src(n.X)] == id.Name:
						// a loop index bounded by `range` over the same list
						f.a.add(f.fi.name, n.Pos(), "SIndexGuarded", n)
					case looksLikeList(n.X):
						f.a.add(f.fi.name, n.Pos(), "SIndexUnguarded", n)
					default:
						// a map read by a constant name
						f.a.add(f.fi.name, n.Pos(), "SKey", n)
					}
				}
			}
		case *ast.SelectorExpr:
			if id, ok := n.X.(*ast.Ident); ok && f.decoded[id.Name] {
				if g.nonnil[id.Name] {
					f.a.add(f.fi.name, n.Pos(), "SDerefGuarded", n)
				} else {
					f.a.add(f.fi.name, n.Pos(), "SDerefUnguarded", n)
				}
			}
		}
		return true
	})
}

func commaOKSet(s ast.Stmt) map[ast.Expr]bool {
	m := map[ast.Expr]bool{}
	if as, ok := s.(*ast.AssignStmt); ok && len(as.Lhs) == 2 && len(as.Rhs) == 1 {
		if ta, ok := as.Rhs[0].(*ast.TypeAssertExpr); ok {
			m[ta] = true
		}
	}
	return m
}

func (f *fstate) scanStmt(s ast.Stmt, g guards) {
	switch s := s.(type) {
	case *ast.BlockStmt:
		f.scanBlock(s, g.clone())
	case *ast.IfStmt:
		if s.Init != nil {
			f.scanStmt(s.Init, g)
			// `if v, ok = x.(T); !ok { return }` establishes nothing about length
		}
		f.scanExpr(s.Cond, g, nil)
		thenG := g.clone()
		elseG := g.clone()
		if e, empty, ok := lenCheck(s.Cond); ok {
			if empty {
				elseG.length[e] = true
			} else {
				thenG.length[e] = true
			}
		}
		if e, isnil, ok := nilCheck(s.Cond); ok {
			if isnil {
				elseG.nonnil[e] = true
			} else {
				thenG.nonnil[e] = true
			}
		}
		f.scanBlock(s.Body, thenG)
		if s.Else != nil {
			f.scanStmt(s.Else, elseG)
		}
	case *ast.ForStmt:
		if s.Init != nil {
			f.scanStmt(s.Init, g)
		}
		if s.Cond != nil {
			f.scanExpr(s.Cond, g, nil)
		}
		f.scanBlock(s.Body, g.clone())
	case *ast.RangeStmt:
		f.scanExpr(s.X, g, nil)
		bg := g.clone()
		if id, ok := s.Key.(*ast.Ident); ok && id != nil {
			bg.rangeKey[src(s.X)] = id.Name
		}
		f.scanBlock(s.Body, bg)
	case *ast.SwitchStmt:
		if s.Init != nil {
			f.scanStmt(s.Init, g)
		}
		if s.Tag != nil {
			f.scanExpr(s.Tag, g, nil)
		}
		for _, c := range s.Body.List {
			cc := c.(*ast.CaseClause)
			for _, e := range cc.List {
				f.scanExpr(e, g, nil)
			}
			f.scanList(cc.Body, g.clone())
		}
	case *ast.TypeSwitchStmt:
		if s.Init != nil {
			f.scanStmt(s.Init, g)
		}
		for _, c := range s.Body.List {
			cc := c.(*ast.CaseClause)
			f.scanList(cc.Body, g.clone())
		}
	case *ast.SelectStmt:
		for _, c := range s.Body.List {
			cc := c.(*ast.CommClause)
			if cc.Comm != nil {
				f.scanStmt(cc.Comm, g)
			}
			f.scanList(cc.Body, g.clone())
		}
	case *ast.LabeledStmt:
		f.scanStmt(s.Stmt, g)
	case *ast.GoStmt:
		f.scanExpr(s.Call, g, nil)
	case *ast.DeferStmt:
		f.scanExpr(s.Call, g, nil)
	case nil:
	default:
		f.scanExpr(s, g, commaOKSet(s))
	}
}

func (f *fstate) scanList(l []ast.Stmt, g guards) {
	for _, s := range l {
		f.scanStmt(s, g)
		// an early exit on emptiness / nilness establishes the fact for the rest of the block
		if is, ok := s.(*ast.IfStmt); ok && is.Else == nil && endsInReturn(is.Body) {
			if e, empty, ok := lenCheck(is.Cond); ok && empty {
				g.length[e] = true
			}
			if e, isnil, ok := nilCheck(is.Cond); ok && isnil {
				g.nonnil[e] = true
			}
		}
	}
}

func (f *fstate) scanBlock(b *ast.BlockStmt, g guards) {
	if b != nil {
		f.scanList(b.List, g)
	}
}

// ---------------------------------------------------------------------------
// skeleton

// classify a channel expression by what it is in client.go
func classify(e ast.Expr, local map[string]string) string {
	s := src(e)
	switch s {
	case "c.sess.Send()":
		return "ChSessSend"
	case "c.Done()", "c.ctx.Done()":
		return "ChDone"
	case "c.sess.RecvDone()":
		return "ChRecvDone"
	case "ctx.Done()":
		return "ChCtx"
	case "timer.C", "sendCtx.Done()", "to.C":
		return "ChTimer"
	case "peer.Send()", "peer.Recv()", "p.Recv()":
		return "ChPeer"
	}
	// fields of the reply-waiter record, however the record was obtained
	if strings.HasSuffix(s, ".gone") {
		return "ChGone"
	}
	if strings.HasSuffix(s, ".ch") {
		return "ChReply"
	}
	if c, ok := local[s]; ok {
		return c
	}
	return ""
}

type op struct {
	kind     string // GSend GRecv GClose GSelect GGo GCall GUser GReturn GPeerClose GEndRecv GCancel GWgAdd GWgDone GWgWait GExpect GWaitReply
	ch       string
	name     string
	deferred bool
	hasDef   bool
	cases    []selCase
	body     []op
	line     int
}

type selCase struct {
	send bool
	ch   string
	body []op
}

type skel struct {
	a      *analyzer
	fn     string
	local  map[string]string // identifier -> channel class
	userFn map[string]bool   // identifiers holding user-supplied function values
}

func (k *skel) learn(body ast.Node) {
	ast.Inspect(body, func(n ast.Node) bool {
		as, ok := n.(*ast.AssignStmt)
		if !ok {
			return true
		}
		for i, rhs := range as.Rhs {
			if i >= len(as.Lhs) && len(as.Rhs) != 1 {
				continue
			}
			id, ok := as.Lhs[i].(*ast.Ident)
			if !ok {
				continue
			}
			r := src(rhs)
			switch {
			case strings.HasPrefix(r, "c.awaitingReply["):
				// the element type tells whether this is the channel itself
				// or the waiter record that holds it
				k.local[id.Name] = k.a.replyClass
			case r == "c.sess.Recv()":
				k.local[id.Name] = "ChRecv"
			case r == "c.sess.RecvDone()":
				k.local[id.Name] = "ChRecvDone"
			case strings.HasPrefix(r, "c.invHandlersQueues["):
				k.local[id.Name] = "ChInvQueue"
			case strings.HasPrefix(r, "make(chan *wamp.Invocation"):
				k.local[id.Name] = "ChInvQueue"
			case strings.HasPrefix(r, "make(chan InvokeResult"):
				k.local[id.Name] = "ChRes"
			case strings.HasPrefix(r, "make(chan *wamp.Result"):
				k.local[id.Name] = "ChProg"
			case strings.HasPrefix(r, "make(chan struct{}"):
				k.local[id.Name] = "ChLocalDone"
			case strings.HasPrefix(r, "make(chan wamp.Message"):
				k.local[id.Name] = "ChReply"
			case strings.HasSuffix(r, ".ch") && k.local[strings.TrimSuffix(r, ".ch")] == "ChReplyWaiter":
				k.local[id.Name] = "ChReply"
			}
		}
		return true
	})
}

func (k *skel) chanOf(e ast.Expr) string {
	c := classify(e, k.local)
	if c == "" {
		fail(e.Pos(), "cannot classify channel expression %q in %s", src(e), k.fn)
	}
	if c == "ChReplyWaiter" {
		fail(e.Pos(), "channel operation on a reply waiter record %q in %s", src(e), k.fn)
	}
	return c
}

func (k *skel) exprOps(e ast.Node, deferred bool) []op {
	var ops []op
	ast.Inspect(e, func(n ast.Node) bool {
		switch n := n.(type) {
		case *ast.FuncLit:
			// a closure that is not started with `go`: its body runs in place
			// (deferred closures run at function exit)
			for _, o := range k.block(n.Body) {
				o.deferred = o.deferred || deferred
				ops = append(ops, o)
			}
			return false
		case *ast.UnaryExpr:
			if n.Op == token.ARROW {
				ops = append(ops, op{kind: "GRecv", ch: k.chanOf(n.X), line: fset.Position(n.Pos()).Line})
			}
		case *ast.CallExpr:
			line := fset.Position(n.Pos()).Line
			s := src(n.Fun)
			switch {
			case s == "close" && len(n.Args) == 1:
				ops = append(ops, op{kind: "GClose", ch: k.chanOf(n.Args[0]), deferred: deferred, line: line})
			case s == "c.sess.Close" || s == "p.Close":
				ops = append(ops, op{kind: "GPeerClose", deferred: deferred, line: line})
			case s == "c.sess.EndRecv":
				ops = append(ops, op{kind: "GEndRecv", deferred: deferred, line: line})
			case s == "c.cancel":
				ops = append(ops, op{kind: "GCancel", name: "client", deferred: deferred, line: line})
			case s == "cancel":
				ops = append(ops, op{kind: "GCancel", name: "local", deferred: deferred, line: line})
			case s == "c.activeInvHandlers.Add":
				ops = append(ops, op{kind: "GWgAdd", line: line})
			case s == "c.activeInvHandlers.Done":
				ops = append(ops, op{kind: "GWgDone", deferred: deferred, line: line})
			case s == "c.activeInvHandlers.Wait":
				ops = append(ops, op{kind: "GWgWait", line: line})
			case s == "c.expectReply":
				ops = append(ops, op{kind: "GExpect", line: line})
			case s == "c.waitForReply" || s == "c.waitForReplyWithCancel":
				ops = append(ops, op{kind: "GWaitReply", line: line}, op{kind: "GCall", name: strings.TrimPrefix(s, "c."), line: line})
			default:
				name := ""
				switch fn := n.Fun.(type) {
				case *ast.Ident:
					name = fn.Name
					if k.userFn[name] {
						ops = append(ops, op{kind: "GUser", name: name, deferred: deferred, line: line})
					}
				case *ast.SelectorExpr:
					if id, ok := fn.X.(*ast.Ident); ok && id.Name == "c" {
						name = fn.Sel.Name
					}
				}
				if _, ok := k.a.funcs[name]; ok && !k.userFn[name] {
					ops = append(ops, op{kind: "GCall", name: name, deferred: deferred, line: line})
				}
			}
		}
		return true
	})
	return ops
}

func (k *skel) stmt(s ast.Stmt) []op {
	line := 0
	if s != nil {
		line = fset.Position(s.Pos()).Line
	}
	switch s := s.(type) {
	case nil:
		return nil
	case *ast.BlockStmt:
		return k.block(s)
	case *ast.SendStmt:
		ops := k.exprOps(s.Value, false)
		return append(ops, op{kind: "GSend", ch: k.chanOf(s.Chan), line: line})
	case *ast.GoStmt:
		if fl, ok := s.Call.Fun.(*ast.FuncLit); ok {
			return []op{{kind: "GGo", body: k.block(fl.Body), line: line}}
		}
		return []op{{kind: "GGo", body: k.exprOps(s.Call, false), name: src(s.Call.Fun), line: line}}
	case *ast.DeferStmt:
		return k.exprOps(s.Call, true)
	case *ast.ReturnStmt:
		ops := k.exprOps(s, false)
		return append(ops, op{kind: "GReturn", line: line})
	case *ast.SelectStmt:
		o := op{kind: "GSelect", line: line}
		for _, c := range s.Body.List {
			cc := c.(*ast.CommClause)
			if cc.Comm == nil {
				o.hasDef = true
				o.body = append(o.body, k.list(cc.Body)...)
				continue
			}
			var sc selCase
			switch cm := cc.Comm.(type) {
			case *ast.SendStmt:
				sc = selCase{send: true, ch: k.chanOf(cm.Chan)}
			case *ast.ExprStmt:
				u, ok := cm.X.(*ast.UnaryExpr)
				if !ok || u.Op != token.ARROW {
					fail(cm.Pos(), "select case that is neither send nor receive in %s", k.fn)
				}
				sc = selCase{ch: k.chanOf(u.X)}
			case *ast.AssignStmt:
				u, ok := cm.Rhs[0].(*ast.UnaryExpr)
				if !ok || u.Op != token.ARROW {
					fail(cm.Pos(), "select case that is neither send nor receive in %s", k.fn)
				}
				sc = selCase{ch: k.chanOf(u.X)}
			default:
				fail(cc.Pos(), "unknown select case form in %s", k.fn)
			}
			sc.body = k.list(cc.Body)
			o.cases = append(o.cases, sc)
		}
		return []op{o}
	case *ast.IfStmt:
		var ops []op
		ops = append(ops, k.stmt(s.Init)...)
		ops = append(ops, k.exprOps(s.Cond, false)...)
		ops = append(ops, k.block(s.Body)...)
		if s.Else != nil {
			ops = append(ops, k.stmt(s.Else)...)
		}
		return ops
	case *ast.ForStmt:
		var ops []op
		ops = append(ops, k.stmt(s.Init)...)
		if s.Cond != nil {
			ops = append(ops, k.exprOps(s.Cond, false)...)
		}
		return append(ops, k.block(s.Body)...)
	case *ast.RangeStmt:
		var ops []op
		// `for x := range ch` is a receive loop
		if c := classify(s.X, k.local); c != "" && c != "ChReplyWaiter" {
			ops = append(ops, op{kind: "GRecv", ch: c, line: line})
		}
		return append(ops, k.block(s.Body)...)
	case *ast.SwitchStmt:
		var ops []op
		ops = append(ops, k.stmt(s.Init)...)
		for _, c := range s.Body.List {
			ops = append(ops, k.list(c.(*ast.CaseClause).Body)...)
		}
		return ops
	case *ast.TypeSwitchStmt:
		var ops []op
		for _, c := range s.Body.List {
			ops = append(ops, k.list(c.(*ast.CaseClause).Body)...)
		}
		return ops
	case *ast.LabeledStmt:
		return k.stmt(s.Stmt)
	case *ast.BranchStmt, *ast.EmptyStmt, *ast.IncDecStmt:
		return nil
	case *ast.DeclStmt:
		return k.exprOps(s, false)
	case *ast.AssignStmt, *ast.ExprStmt:
		return k.exprOps(s, false)
	}
	fail(s.Pos(), "statement form %T not understood in %s", s, k.fn)
	return nil
}

func (k *skel) list(l []ast.Stmt) []op {
	var ops []op
	for _, s := range l {
		ops = append(ops, k.stmt(s)...)
	}
	return ops
}

func (k *skel) block(b *ast.BlockStmt) []op {
	if b == nil {
		return nil
	}
	return k.list(b.List)
}

// ---------------------------------------------------------------------------
// output

func coqStr(s string) string {
	s = strings.ReplaceAll(s, "\"", "'")
	s = strings.ReplaceAll(s, "\n", " ")
	s = strings.ReplaceAll(s, "\t", " ")
	var b strings.Builder
	for _, r := range s {
		if r < 32 || r > 126 {
			b.WriteByte('?')
		} else {
			b.WriteRune(r)
		}
	}
	return "\"" + b.String() + "\""
}

func printOps(b *strings.Builder, ops []op, ind string) {
	b.WriteString("[")
	for i, o := range ops {
		if i > 0 {
			b.WriteString(";")
		}
		b.WriteString("\n" + ind)
		switch o.kind {
		case "GSend", "GRecv":
			fmt.Fprintf(b, "%s %s %d", o.kind, o.ch, o.line)
		case "GClose":
			fmt.Fprintf(b, "GClose %s %v %d", o.ch, o.deferred, o.line)
		case "GSelect":
			fmt.Fprintf(b, "GSelect %d %v [", o.line, o.hasDef)
			for j, c := range o.cases {
				if j > 0 {
					b.WriteString("; ")
				}
				fmt.Fprintf(b, "(%v, %s, ", c.send, c.ch)
				printOps(b, c.body, ind+"    ")
				b.WriteString(")")
			}
			b.WriteString("] ")
			printOps(b, o.body, ind+"    ")
		case "GGo":
			fmt.Fprintf(b, "GGo %d ", o.line)
			printOps(b, o.body, ind+"  ")
		case "GCall", "GUser":
			fmt.Fprintf(b, "%s %s %v %d", o.kind, coqStr(o.name), o.deferred, o.line)
		case "GCancel":
			fmt.Fprintf(b, "GCancel %v %v %d", o.name == "client", o.deferred, o.line)
		case "GPeerClose", "GEndRecv", "GWgDone":
			fmt.Fprintf(b, "%s %v %d", o.kind, o.deferred, o.line)
		case "GReturn", "GWgAdd", "GWgWait", "GExpect", "GWaitReply":
			fmt.Fprintf(b, "%s %d", o.kind, o.line)
		default:
			panic("unknown op " + o.kind)
		}
	}
	b.WriteString("]")
}

func (a *analyzer) userParams(fd *ast.FuncDecl) map[string]bool {
	m := map[string]bool{}
	userTypes := map[string]bool{"EventHandler": true, "InvocationHandler": true, "ProgressHandler": true, "SendProgressiveData": true, "AuthFunc": true}
	if fd.Type.Params != nil {
		for _, f := range fd.Type.Params.List {
			if id, ok := f.Type.(*ast.Ident); ok && userTypes[id.Name] {
				for _, n := range f.Names {
					m[n.Name] = true
				}
			}
		}
	}
	return m
}

func main() {
	if len(os.Args) != 2 {
		fmt.Fprintln(os.Stderr, "usage: genclient <path to client/client.go>")
		os.Exit(2)
	}
	file, err := parser.ParseFile(fset, os.Args[1], nil, parser.ParseComments)
	if err != nil {
		fmt.Fprintln(os.Stderr, "genclient:", err)
		os.Exit(2)
	}
	a := &analyzer{funcs: map[string]*funcInfo{}}
	var order []string
	for _, d := range file.Decls {
		fd, ok := d.(*ast.FuncDecl)
		if !ok || fd.Body == nil {
			continue
		}
		fi := &funcInfo{decl: fd, name: fd.Name.Name, taintedP: map[int]bool{}}
		if fd.Type.Params != nil {
			for _, f := range fd.Type.Params.List {
				for _, n := range f.Names {
					fi.params = append(fi.params, n.Name)
				}
			}
		}
		a.funcs[fi.name] = fi
		order = append(order, fi.name)
	}
	// what does awaitingReply hold?
	a.replyClass = "ChReply"
	ast.Inspect(file, func(n ast.Node) bool {
		if f, ok := n.(*ast.Field); ok && len(f.Names) == 1 && f.Names[0].Name == "awaitingReply" {
			if mt, ok := f.Type.(*ast.MapType); ok {
				switch v := mt.Value.(type) {
				case *ast.ChanType:
					a.replyClass = "ChReply"
				case *ast.StarExpr:
					a.replyClass = "ChReplyWaiter"
					_ = v
				default:
					fail(f.Pos(), "awaitingReply has a value type this translator does not know: %s", src(mt.Value))
				}
			}
		}
		return true
	})

	// taint: to a global fixpoint
	states := map[string]*fstate{}
	for _, name := range order {
		fi := a.funcs[name]
		st := &fstate{a: a, fi: fi, msgVars: map[string]bool{}, tainted: map[string]bool{}, decoded: map[string]bool{}}
		if fi.decl.Type.Params != nil {
			for _, f := range fi.decl.Type.Params.List {
				if routerMsgType(f.Type) {
					for _, n := range f.Names {
						st.msgVars[n.Name] = true
					}
				}
			}
		}
		states[name] = st
	}
	for round := 0; round < 20; round++ {
		a.changedGlobal = false
		for _, name := range order {
			st := states[name]
			for i, p := range st.fi.params {
				if st.fi.taintedP[i] {
					st.tainted[p] = true
				}
				if st.fi.taintedP[-1-i] {
					st.msgVars[p] = true
				}
			}
			for {
				st.changed = false
				st.collect(st.fi.decl.Body)
				if !st.changed {
					break
				}
				a.changedGlobal = true
			}
		}
		if !a.changedGlobal {
			break
		}
	}
	for _, name := range order {
		st := states[name]
		st.scanBlock(st.fi.decl.Body, newGuards())
	}
	sort.SliceStable(a.sites, func(i, j int) bool { return a.sites[i].line < a.sites[j].line })

	var b strings.Builder
	b.WriteString("(* GENERATED by go/cmd/genclient from client/client.go -- do not edit. *)\n")
	b.WriteString("From Coq Require Import List String.\nFrom Nexus Require Import Client.ClientSkeleton.\nImport ListNotations.\nOpen Scope string_scope.\n\n")
	b.WriteString("Definition gen_ok : bool := true.\n\n")
	b.WriteString("Definition gen_sites : list site := [")
	for i, s := range a.sites {
		if i > 0 {
			b.WriteString(";")
		}
		fmt.Fprintf(&b, "\n  mk_site %s %d %s %s", coqStr(s.fn), s.line, s.kind, coqStr(s.text))
	}
	b.WriteString("].\n\n")
	// runReceiveFromRouter: which message types end run(), and which request
	// field each reply type is dispatched on
	var exits, dispatch []string
	if fi, ok := a.funcs["runReceiveFromRouter"]; ok {
		ast.Inspect(fi.decl.Body, func(n ast.Node) bool {
			ts, ok := n.(*ast.TypeSwitchStmt)
			if !ok {
				return true
			}
			for _, c := range ts.Body.List {
				cc := c.(*ast.CaseClause)
				if len(cc.List) != 1 {
					continue
				}
				st, ok := cc.List[0].(*ast.StarExpr)
				if !ok {
					continue
				}
				sel, ok := st.X.(*ast.SelectorExpr)
				if !ok {
					continue
				}
				typ := sel.Sel.Name
				for _, s := range cc.Body {
					ast.Inspect(s, func(m ast.Node) bool {
						switch m := m.(type) {
						case *ast.ReturnStmt:
							if len(m.Results) == 1 && src(m.Results[0]) == "true" {
								exits = append(exits, typ)
							}
						case *ast.CallExpr:
							if src(m.Fun) == "c.runSignalReply" {
								if len(m.Args) != 2 {
									fail(m.Pos(), "runSignalReply call with %d arguments", len(m.Args))
								}
								dispatch = append(dispatch, fmt.Sprintf("(%s, %s)", coqStr(typ), coqStr(src(m.Args[0])+" / "+src(m.Args[1]))))
							}
						}
						return true
					})
				}
			}
			return false
		})
	} else {
		fail(file.Pos(), "function runReceiveFromRouter not found")
	}
	b.WriteString("Definition gen_run_exits : list string := [")
	for i, e := range exits {
		if i > 0 {
			b.WriteString("; ")
		}
		b.WriteString(coqStr(e))
	}
	b.WriteString("].\n\n")
	b.WriteString("Definition gen_reply_dispatch : list (string * string) := [" + strings.Join(dispatch, "; ") + "].\n\n")
	b.WriteString("Definition gen_funcs : list gfunc := [")
	for i, name := range order {
		fi := a.funcs[name]
		k := &skel{a: a, fn: name, local: map[string]string{}, userFn: a.userParams(fi.decl)}
		// identifiers bound to user function values inside the body (handler, ok := c.eventHandlers[...])
		ast.Inspect(fi.decl.Body, func(n ast.Node) bool {
			if as, ok := n.(*ast.AssignStmt); ok && len(as.Rhs) == 1 {
				r := src(as.Rhs[0])
				if strings.HasPrefix(r, "c.eventHandlers[") || strings.HasPrefix(r, "c.invHandlers[") {
					if id, ok := as.Lhs[0].(*ast.Ident); ok {
						k.userFn[id.Name] = true
					}
				}
			}
			return true
		})
		// channel-typed parameters
		if fi.decl.Type.Params != nil {
			for _, f := range fi.decl.Type.Params.List {
				if ct, ok := f.Type.(*ast.ChanType); ok {
					cls := "ChUser"
					if strings.Contains(src(ct.Value), "wamp.Result") {
						cls = "ChProg"
					}
					for _, n := range f.Names {
						k.local[n.Name] = cls
					}
				}
			}
		}
		k.learn(fi.decl.Body)
		ops := k.block(fi.decl.Body)
		if i > 0 {
			b.WriteString(";")
		}
		fmt.Fprintf(&b, "\n mk_gfunc %s %d ", coqStr(name), fset.Position(fi.decl.Pos()).Line)
		printOps(&b, ops, "   ")
	}
	b.WriteString("].\n")
	fmt.Print(b.String())
}
