package c09drive

// gen.go: scenario generation.  A systematic core (every method x every
// response kind x local/remote x identity smuggling; every first-message kind
// x every realm situation) plus a seeded random stream over the whole space.

import (
	"fmt"
)

type rng struct{ s uint64 }

func (r *rng) next() uint64 {
	r.s += 0x9e3779b97f4a7c15
	z := r.s
	z = (z ^ (z >> 30)) * 0xbf58476d1ce4e5b9
	z = (z ^ (z >> 27)) * 0x94d049bb133111eb
	return z ^ (z >> 31)
}
func (r *rng) n(k int) int        { return int(r.next() % uint64(k)) }
func (r *rng) chance(p int) bool  { return r.n(100) < p }
func pick[T any](r *rng, l []T) T { return l[r.n(len(l))] }

const (
	seedA = "a11ce000a11ce000a11ce000a11ce000a11ce000a11ce000a11ce000a11ce000"
	seedB = "b0b00000b0b00000b0b00000b0b00000b0b00000b0b00000b0b00000b0b00000"
	seedC = "ca401000ca401000ca401000ca401000ca401000ca401000ca401000ca401000"
)

func stdUsers() []UserCfg {
	return []UserCfg{
		{AuthID: "alice", Role: strp("user"), Ticket: strp("tkt-alice"), CRASecret: strp("pw-alice"), CSSeed: strp(seedA)},
		{AuthID: "bob", Role: strp("admin"), Ticket: strp("tkt-bob"), CRASecret: strp("pw-bob"), Salt: "salt-bob", KeyLen: 32, Iters: 50, CSSeed: strp(seedB)},
		{AuthID: "carol", Role: nil, Ticket: strp("tkt-carol"), CRASecret: strp("pw-carol"), CSSeed: strp(seedC)},
		{AuthID: "dave", Role: strp("user")},
		{AuthID: "erin", Role: strp("user"), Ticket: strp(""), CSKeyRaw: strp("000102030405060708090a0b0c0d0e0f")},
	}
}

func stdKS(bypass bool) *KeyStoreCfg {
	p := "static-A"
	if bypass {
		p = "bypass-B"
	}
	return &KeyStoreCfg{Provider: p, Bypass: bypass, Users: stdUsers()}
}

var allMethods = []string{"anonymous", "ticket", "wampcra", "cryptosign"}

func realmWith(uri string, methods []string, bypass bool) RealmCfg {
	rc := RealmCfg{URI: uri}
	for _, m := range methods {
		if m == "anonymous" {
			rc.Auths = append(rc.Auths, AuthCfg{Method: "anonymous", Role: "guest"})
		} else {
			rc.Auths = append(rc.Auths, AuthCfg{Method: m, KS: stdKS(bypass)})
		}
	}
	return rc
}

func roles(names ...string) JV {
	d := map[string]any{}
	for _, n := range names {
		d[n] = jvD(map[string]any{})
	}
	return jvD(d)
}

func methodsJV(ms ...string) JV {
	var l []JV
	for _, m := range ms {
		l = append(l, jvS(m))
	}
	return jvL(l...)
}

// every value type a HELLO detail can carry
func smuggleValues() []JV {
	return []JV{
		jvS("admin"), jvS(""), jvB([]byte("root")), jvU("wamp.admin"), jvI(7), jvI(0), jvI(4503599627370497),
		jvF("1.5"), jvT(true), jvT(false), nil, jvL(), jvL(jvS("admin"), jvI(1)),
		jvD(map[string]any{}), jvD(map[string]any{"auth": jvD(map[string]any{"preauth": jvS("alice")})}),
		jvD(map[string]any{"k": jvL(jvD(map[string]any{"n": nil}))}),
	}
}

var identityKeys = []string{"authid", "authrole", "authmethod", "authprovider", "session", "transport", "authextra", "x_custom", "roles2"}

func baseScenario(id string) Scenario {
	return Scenario{
		ID:     id,
		Router: RouterCfg{Realms: []RealmCfg{realmWith("realm1", allMethods, false)}},
		Peer:   PeerCfg{Local: false},
		Hello: HelloSpec{First: "hello", Realm: "realm1",
			Details: jvD(map[string]any{"roles": roles("publisher", "caller", "subscriber")})},
		Resp:          RespSpec{Kind: "good"},
		Post:          []string{"subscribe", "publish", "call"},
		AuthTimeoutMs: 2000,
	}
}

func setDetail(sc *Scenario, k string, v JV) {
	d := jvDict(sc.Hello.Details)
	if d == nil {
		d = map[string]any{}
		sc.Hello.Details = jvD(d)
	}
	d[k] = v
}

var respKinds = []string{"good", "bad_secret", "replay", "signed_other", "wrong_type", "timeout", "abort", "closed", "garbage"}

var garbageSigs = []string{"", "zz", "00", "abc", "deadbeef", "AAAA", "====", "x y",
	"000000000000000000000000000000000000000000000000000000000000000000000000000000000000000000000000000000000000000000000000000000000000000000000000000000000000000000000000000000000000000000000000"}

var wrongCodes = []int{1, 2, 3, 4, 6, 16, 32, 48, 64}

// core: the systematic part, always run.
func genCore() []Scenario {
	var out []Scenario
	n := 0
	id := func() string { n++; return fmt.Sprintf("core%04d", n) }
	// every challenge method x response kind x user x local/remote(with RequireLocalAuth) x smuggling
	for _, m := range []string{"ticket", "wampcra", "cryptosign"} {
		for _, kind := range respKinds {
			for _, user := range []string{"alice", "bob"} {
				for _, local := range []bool{false, true} {
					for _, smug := range []bool{false, true} {
						sc := baseScenario(id())
						sc.Tags = []string{"core", m, kind}
						sc.Router.Realms[0].LocalAuth = local
						sc.Peer.Local = local
						setDetail(&sc, "authmethods", methodsJV(m))
						setDetail(&sc, "authid", jvS(user))
						sc.Resp.Kind = kind
						if kind == "wrong_type" {
							sc.Resp.WrongCode = wrongCodes[n%len(wrongCodes)]
						}
						if kind == "garbage" {
							sc.Resp.Literal = strp(garbageSigs[n%len(garbageSigs)])
						}
						if smug {
							setDetail(&sc, "authrole", jvS("admin"))
							setDetail(&sc, "authmethod", jvS("local"))
							setDetail(&sc, "authprovider", jvS("root"))
							setDetail(&sc, "session", jvI(1))
							setDetail(&sc, "transport", jvD(map[string]any{"auth": jvD(map[string]any{"preauth": jvS(user)}), "peer": jvS("spoofed")}))
						}
						out = append(out, sc)
					}
				}
			}
		}
	}
	// correctly keyed responses over something else than this run's challenge
	for _, m := range []string{"ticket", "wampcra", "cryptosign"} {
		for _, alt := range altVariants[m] {
			for _, user := range []string{"alice", "bob", "mallory"} {
				sc := baseScenario(id())
				sc.Tags = []string{"core", m, "alt", alt}
				setDetail(&sc, "authmethods", methodsJV(m))
				setDetail(&sc, "authid", jvS(user))
				sc.Resp.Kind, sc.Resp.Alt = "alt", alt
				out = append(out, sc)
			}
		}
	}
	// anonymous and the local shortcut, with every identity key x every value type
	for _, local := range []bool{false, true} {
		for _, key := range identityKeys {
			for vi, v := range smuggleValues() {
				sc := baseScenario(id())
				sc.Tags = []string{"core", "smuggle", key}
				sc.Peer.Local = local
				setDetail(&sc, key, v)
				if vi%3 == 0 {
					sc.Router.Realms[0].MetaStrict = true
				}
				out = append(out, sc)
			}
		}
	}
	// first message kinds x realm situations
	type realmCase struct {
		name     string
		realm    string
		template bool
		closing  bool
		stopped  bool
	}
	rcases := []realmCase{
		{"exists", "realm1", false, false, false}, {"exists+template", "realm1", true, false, false},
		{"template", "new.realm", true, false, false}, {"template-bad-uri", "bad realm", true, false, false},
		{"template-bad-uri2", "a..b", true, false, false}, {"template-hash", "a#b", true, false, false},
		{"missing", "nosuch", false, false, false}, {"empty", "", false, false, false}, {"empty+template", "", true, false, false},
		{"closing", "realm1", false, true, false}, {"closing-missing", "nosuch", false, true, false}, {"closing-empty", "", false, true, false},
		{"stopped", "realm1", false, false, true}, {"stopped-template", "new.realm", true, false, true}, {"stopped-empty", "", false, false, true},
	}
	firsts := []struct {
		first string
		code  int
	}{{"hello", 0}, {"timeout", 0}, {"closed", 0}, {"other", 5}, {"other", 3}, {"other", 16}, {"other", 32}, {"other", 6}, {"other", 2}, {"other", 48}}
	for _, rcse := range rcases {
		for _, f := range firsts {
			for _, local := range []bool{false, true} {
				sc := baseScenario(id())
				sc.Tags = []string{"core", "realm:" + rcse.name, "first:" + f.first}
				sc.Peer.Local = local
				sc.Hello.First, sc.Hello.OtherCode = f.first, f.code
				sc.Hello.Realm = rcse.realm
				if rcse.template {
					t := realmWith("", []string{"anonymous", "ticket"}, false)
					sc.Router.Template = &t
				}
				sc.Router.Closing = rcse.closing
				sc.Router.Stopped = rcse.stopped
				out = append(out, sc)
			}
		}
	}
	// roles and authmethods edge cases
	rolesCases := []JV{roles("publisher"), roles("callee"), roles("bogus"), roles(), nil, jvS("publisher"),
		jvL(jvS("publisher")), jvD(map[string]any{"caller": nil}), jvD(map[string]any{"subscriber": jvI(1)}), jvI(1)}
	for i, rv := range rolesCases {
		for _, local := range []bool{false, true} {
			sc := baseScenario(id())
			sc.Tags = []string{"core", "roles"}
			sc.Peer.Local = local
			setDetail(&sc, "roles", rv)
			if i == 4 {
				delete(jvDict(sc.Hello.Details), "roles")
			}
			out = append(out, sc)
		}
	}
	amCases := []JV{nil, jvL(), jvL(jvS("")), jvL(jvI(5), nil, jvS("ticket")), jvS("ticket"), jvL(jvS("bogus")),
		jvL(jvS("bogus"), jvS("wampcra"), jvS("ticket")), jvL(jvS("anonymous"), jvS("ticket")), jvL(jvS("ticket"), jvS("anonymous")),
		jvB([]byte("ticket")), jvB([]byte{}), jvL(jvB([]byte("ticket"))), jvL(jvU("cryptosign")), jvI(3), jvD(map[string]any{}),
		jvL(jvL(jvS("ticket")))}
	for _, am := range amCases {
		for _, cfgMethods := range [][]string{allMethods, {"ticket"}, {"anonymous"}, {}} {
			for _, authid := range []JV{jvS("alice"), nil} {
				sc := baseScenario(id())
				sc.Tags = []string{"core", "authmethods"}
				sc.Router.Realms[0] = realmWith("realm1", cfgMethods, false)
				setDetail(&sc, "authmethods", am)
				if authid != nil {
					setDetail(&sc, "authid", authid)
				}
				out = append(out, sc)
			}
		}
	}
	// the realm goes away during the handshake
	for _, m := range []string{"ticket", "wampcra", "cryptosign"} {
		sc := baseScenario(id())
		sc.Tags = []string{"core", "realm-closed", m}
		setDetail(&sc, "authmethods", methodsJV(m))
		setDetail(&sc, "authid", jvS("alice"))
		sc.RealmClosed = true
		out = append(out, sc)
	}
	{
		sc := baseScenario(id())
		sc.Tags = []string{"core", "realm-closed", "local"}
		sc.Peer.Local = true
		sc.RealmClosed = true
		out = append(out, sc)
	}
	// bypass key store: server-supplied versus client-smuggled transport.auth
	for _, m := range []string{"ticket", "wampcra", "cryptosign"} {
		for _, serverSide := range []bool{true, false} {
			for _, who := range []string{"alice", "bob", "mallory"} {
				for _, fail := range []bool{false, true} {
					sc := baseScenario(id())
					sc.Tags = []string{"core", "bypass", m}
					sc.Router.Realms[0] = realmWith("realm1", allMethods, true)
					setDetail(&sc, "authmethods", methodsJV(m))
					setDetail(&sc, "authid", jvS("alice"))
					tr := jvD(map[string]any{"auth": jvD(map[string]any{"preauth": jvS(who)})})
					if serverSide {
						sc.Peer.Transport = tr
						setDetail(&sc, "transport", jvD(map[string]any{"auth": jvD(map[string]any{"preauth": jvS("alice")})}))
					} else {
						setDetail(&sc, "transport", tr)
					}
					if fail {
						setDetail(&sc, "x_fail_welcome", jvT(true))
					}
					out = append(out, sc)
				}
			}
		}
	}
	// odd users
	for _, m := range []string{"ticket", "wampcra", "cryptosign"} {
		for _, who := range []string{"carol", "dave", "erin", "mallory", ""} {
			for _, kind := range []string{"good", "garbage", "bad_secret"} {
				sc := baseScenario(id())
				sc.Tags = []string{"core", "odd-user", m, who}
				setDetail(&sc, "authmethods", methodsJV(m))
				setDetail(&sc, "authid", jvS(who))
				sc.Resp.Kind = kind
				if kind == "garbage" {
					sc.Resp.Literal = strp("")
				}
				out = append(out, sc)
			}
		}
	}
	return out
}

func genRandom(seed uint64, count int) []Scenario {
	r := &rng{s: seed*0x9e3779b97f4a7c15 + 12345}
	var out []Scenario
	for i := 0; i < count; i++ {
		sc := baseScenario(fmt.Sprintf("r%d_%05d", seed, i))
		sc.Tags = []string{"random"}
		// realm configuration
		var methods []string
		for _, m := range allMethods {
			if r.chance(65) {
				methods = append(methods, m)
			}
		}
		bypass := r.chance(20)
		rc := realmWith("realm1", methods, bypass)
		rc.Anonymous = r.chance(25)
		rc.LocalAuth = r.chance(35)
		rc.MetaStrict = r.chance(25)
		if r.chance(10) && len(rc.Auths) > 0 {
			// a duplicate entry for a method: the later one wins
			dup := rc.Auths[r.n(len(rc.Auths))]
			if dup.Method == "anonymous" {
				dup.Role = "guest2"
			} else {
				dup.KS = stdKS(!bypass)
			}
			rc.Auths = append(rc.Auths, dup)
		}
		sc.Router.Realms = []RealmCfg{rc}
		if r.chance(20) {
			sc.Router.Realms = append(sc.Router.Realms, realmWith("realm2", []string{"anonymous"}, false))
		}
		if r.chance(25) {
			t := realmWith("", methods, bypass)
			t.StrictURI = r.chance(40)
			t.LocalAuth = r.chance(30)
			sc.Router.Template = &t
		}
		sc.Router.Closing = r.chance(3)
		sc.Router.Stopped = !sc.Router.Closing && r.chance(2)
		// peer
		sc.Peer.Local = r.chance(40)
		switch r.n(6) {
		case 0:
			sc.Peer.Transport = jvD(map[string]any{"auth": jvD(map[string]any{"preauth": jvS(pick(r, []string{"alice", "bob", "mallory"}))}), "peer": jvS("10.0.0.1")})
		case 1:
			sc.Peer.Transport = jvD(map[string]any{"auth": jvD(map[string]any{})})
		case 2:
			sc.Peer.Transport = jvD(map[string]any{"peer": jvS("10.0.0.2")})
		}
		// first message
		switch x := r.n(100); {
		case x < 86:
			sc.Hello.First = "hello"
		case x < 90:
			sc.Hello.First = "timeout"
		case x < 93:
			sc.Hello.First = "closed"
		default:
			sc.Hello.First, sc.Hello.OtherCode = "other", pick(r, wrongCodes[1:])
		}
		if r.chance(72) {
			sc.Hello.Realm = "realm1"
		} else {
			sc.Hello.Realm = pick(r, []string{"realm2", "new.realm", "new.realm", "NEW_realm", "bad realm", "a..b", "", "x#y", "realm1."})
		}
		// HELLO details
		d := map[string]any{}
		switch x := r.n(100); {
		case x < 80:
			var rs []string
			for _, n := range []string{"publisher", "subscriber", "callee", "caller"} {
				if r.chance(50) {
					rs = append(rs, n)
				}
			}
			if len(rs) == 0 {
				rs = []string{"caller"}
			}
			d["roles"] = roles(rs...)
		case x < 85:
			d["roles"] = roles("bogus")
		case x < 90:
			d["roles"] = roles()
		case x < 95:
			d["roles"] = pick(r, smuggleValues())
		}
		switch x := r.n(100); {
		case x < 20:
		case x < 75:
			var ms []JV
			for j, k := 0, 1+r.n(3); j < k; j++ {
				ms = append(ms, jvS(pick(r, []string{"anonymous", "ticket", "wampcra", "cryptosign", "ticket", "wampcra", "cryptosign", "bogus", ""})))
			}
			d["authmethods"] = jvL(ms...)
		case x < 90:
			var ms []JV
			for j, k := 0, 1+r.n(3); j < k; j++ {
				if r.chance(50) {
					ms = append(ms, pick(r, smuggleValues()))
				} else {
					ms = append(ms, jvS(pick(r, allMethods)))
				}
			}
			d["authmethods"] = jvL(ms...)
		default:
			d["authmethods"] = pick(r, smuggleValues())
		}
		switch x := r.n(100); {
		case x < 60:
			d["authid"] = jvS(pick(r, []string{"alice", "alice", "bob", "bob", "carol", "dave", "erin", "mallory", ""}))
		case x < 70:
			d["authid"] = pick(r, []JV{jvB([]byte("alice")), jvU("bob"), jvI(5), nil, jvL(jvS("alice")), jvT(true)})
		case x < 80:
			d["authid"] = pick(r, smuggleValues())
		}
		for _, key := range identityKeys[1:] {
			if r.chance(22) {
				d[key] = pick(r, smuggleValues())
			}
		}
		if r.chance(6) {
			d["x_fail_welcome"] = jvT(true)
		}
		if r.chance(3) {
			sc.Hello.Details = nil
		} else {
			sc.Hello.Details = jvD(d)
		}
		// response
		sc.Resp.Kind = pick(r, []string{"good", "good", "good", "bad_secret", "replay", "replay", "signed_other", "alt", "alt", "wrong_type", "timeout", "abort", "closed", "garbage"})
		if sc.Resp.Kind == "alt" {
			// the variant is resolved against the method that issues the challenge
			sc.Resp.Alt = "any:" + fmt.Sprint(r.n(1000))
		}
		if r.chance(15) {
			sc.Resp.User = pick(r, []string{"alice", "bob", "carol", "erin"})
		}
		sc.Resp.WrongCode = pick(r, wrongCodes)
		if sc.Resp.Kind == "garbage" {
			sc.Resp.Literal = strp(pick(r, garbageSigs))
		}
		sc.RealmClosed = r.chance(5)
		// half of the stream is steered into a CHALLENGE / AUTHENTICATE exchange
		if r.chance(50) {
			m := pick(r, []string{"ticket", "wampcra", "cryptosign"})
			found := false
			for _, a := range sc.Router.Realms[0].Auths {
				if a.Method == m {
					found = true
				}
			}
			if !found {
				sc.Router.Realms[0].Auths = append(sc.Router.Realms[0].Auths, AuthCfg{Method: m, KS: stdKS(bypass)})
			}
			sc.Router.Closing, sc.Router.Stopped = false, false
			sc.Hello.First, sc.Hello.Realm = "hello", "realm1"
			if sc.Peer.Local {
				sc.Router.Realms[0].LocalAuth = true
			}
			if sc.Hello.Details == nil {
				sc.Hello.Details = jvD(map[string]any{})
			}
			dd := jvDict(sc.Hello.Details)
			dd["roles"] = roles(pick(r, []string{"publisher", "subscriber", "callee", "caller"}))
			ms := []JV{jvS(m)}
			if r.chance(30) {
				ms = append([]JV{jvS("bogus")}, ms...)
			}
			if r.chance(30) {
				ms = append(ms, jvS(pick(r, allMethods)))
			}
			dd["authmethods"] = jvL(ms...)
			dd["authid"] = jvS(pick(r, []string{"alice", "alice", "alice", "bob", "bob", "bob", "carol", "erin", "dave", "mallory"}))
		}
		// later messages
		sc.Post = nil
		for _, p := range []string{"subscribe", "publish", "call"} {
			if r.chance(60) {
				sc.Post = append(sc.Post, p)
			}
		}
		sc.AuthTimeoutMs = pick(r, []int{500, 2000, 61000})
		out = append(out, sc)
	}
	return out
}
