package c09drive

// drive_test.go: entry point of the harness binary.
//
//	C09_MODE = gen   : generate scenarios (C09_SEED, C09_COUNT random ones after
//	                   the systematic core unless C09_NOCORE=1), keep those whose
//	                   index % C09_SHARDS == C09_SHARD, run them
//	C09_MODE = file  : run the scenarios of C09_IN (JSON lines)
//	C09_MODE = list  : only print the generated scenarios (JSON lines) to C09_OUT
//	C09_OUT          : JSON lines, one Outcome per scenario; a line
//	                   {"start": id} precedes each run so that a crash can be
//	                   attributed.

import (
	"bufio"
	"encoding/json"
	"fmt"
	"os"
	"regexp"
	"runtime"
	"sort"
	"strconv"
	"strings"
	"testing"
	"testing/synctest"
)

func envInt(name string, def int) int {
	if v, err := strconv.Atoi(os.Getenv(name)); err == nil {
		return v
	}
	return def
}

var leakRe = regexp.MustCompile(`(?m)^goroutine (\d+) \[[^\]]*synctest bubble[^\]]*\]:\n(\S+)\(`)

var leakedBefore = map[string]bool{}

// runInBubble runs one scenario in its own bubble.  A bubble refuses to end
// while goroutines started inside it are still blocked: that refusal is the
// goroutine-leak oracle; it is recorded, not fatal.
func runInBubble(t *testing.T, sc *Scenario) (out *Outcome) {
	defer func() {
		if p := recover(); p != nil {
			if out == nil {
				out = &Outcome{ID: sc.ID, Scenario: *sc}
				out.Panic = fmt.Sprint(p)
				return
			}
			buf := make([]byte, 1<<20)
			buf = buf[:runtime.Stack(buf, true)]
			seen := map[string]bool{}
			for _, m := range leakRe.FindAllStringSubmatch(string(buf), -1) {
				if !leakedBefore[m[1]] && !strings.HasPrefix(m[2], "testing") && !strings.HasPrefix(m[2], "internal/synctest") {
					leakedBefore[m[1]] = true
					seen[m[2]] = true
				}
			}
			var fns []string
			for f := range seen {
				fns = append(fns, f)
			}
			sort.Strings(fns)
			out.Leak = fmt.Sprint(p) + ": " + strings.Join(fns, ", ")
		}
	}()
	synctest.Test(t, func(t *testing.T) {
		out = runScenario(sc)
	})
	return out
}

func TestDrive(t *testing.T) {
	mode := os.Getenv("C09_MODE")
	if mode == "" {
		t.Skip("C09_MODE not set")
	}
	// One P: the few places where the router's own goroutines race with each
	// other (Router.Close against a queued AttachClient) then resolve the same
	// way on every run.
	runtime.GOMAXPROCS(1)

	var scs []Scenario
	switch mode {
	case "gen", "list":
		var all []Scenario
		if os.Getenv("C09_NOCORE") != "1" {
			all = append(all, genCore()...)
		}
		all = append(all, genRandom(uint64(envInt("C09_SEED", 1)), envInt("C09_COUNT", 0))...)
		shards, shard := envInt("C09_SHARDS", 1), envInt("C09_SHARD", 0)
		for i := range all {
			if i%shards == shard {
				scs = append(scs, all[i])
			}
		}
	case "file":
		f, err := os.Open(os.Getenv("C09_IN"))
		if err != nil {
			t.Fatal(err)
		}
		defer f.Close()
		rd := bufio.NewReaderSize(f, 1<<20)
		dec := json.NewDecoder(rd)
		for dec.More() {
			var sc Scenario
			if err := dec.Decode(&sc); err != nil {
				t.Fatal(err)
			}
			scs = append(scs, sc)
		}
	default:
		t.Fatalf("unknown C09_MODE %q", mode)
	}

	outf, err := os.Create(os.Getenv("C09_OUT"))
	if err != nil {
		t.Fatal(err)
	}
	defer outf.Close()
	w := bufio.NewWriter(outf)
	defer w.Flush()
	enc := json.NewEncoder(w)

	if mode == "list" {
		for i := range scs {
			enc.Encode(&scs[i])
		}
		return
	}
	for i := range scs {
		sc := &scs[i]
		enc.Encode(map[string]string{"start": sc.ID})
		w.Flush()
		out := runInBubble(t, sc)
		enc.Encode(out)
		w.Flush()
	}
}
