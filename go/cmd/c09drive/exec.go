package c09drive

// exec.go: runs one scenario against the real router inside a synctest bubble
// and records (a) the client events the router's receive operations saw,
// (b) everything the joining peer, an observer session and the harness could
// observe, (c) the oracle values and crypto facts the model needs.

import (
	"crypto/hmac"
	"crypto/sha256"
	"encoding/base64"
	"encoding/hex"
	"fmt"
	"io"
	"log"
	"regexp"
	"strconv"
	"strings"
	"testing/synctest"
	"time"

	"golang.org/x/crypto/nacl/sign"
	"golang.org/x/crypto/pbkdf2"

	"github.com/gammazero/nexus/v3/router"
	"github.com/gammazero/nexus/v3/router/auth"
	"github.com/gammazero/nexus/v3/transport"
	"github.com/gammazero/nexus/v3/wamp"
)

const (
	obsTopic = wamp.URI("c09.topic")
	obsProc  = wamp.URI("c09.proc")
	blockURI = wamp.URI("c09.block")
)

// hookPeer makes a router-side peer non-local (or keeps it local) and lets the
// harness act at the moment authClient asks IsLocal().
type hookPeer struct {
	wamp.Peer
	local     bool
	onIsLocal func()
	onClose   func()
}

func (h *hookPeer) Close() {
	if f := h.onClose; f != nil {
		h.onClose = nil
		f()
	}
	h.Peer.Close()
}

func (h *hookPeer) IsLocal() bool {
	if f := h.onIsLocal; f != nil {
		h.onIsLocal = nil
		f()
	}
	return h.local
}

// conn is the client side of a linked pair, scripted by the harness.
type conn struct {
	c              wamp.Peer
	closedByRouter bool
	clientClosed   bool
	got            []wamp.Message
}

// send offers m to the router; reports whether the router took it once every
// goroutine is durably blocked.
func (k *conn) send(m wamp.Message) bool {
	if k.clientClosed {
		return false
	}
	done := make(chan bool, 1)
	cancel := make(chan struct{})
	go func() {
		select {
		case k.c.Send() <- m:
			done <- true
		case <-cancel:
			done <- false
		}
	}()
	synctest.Wait()
	select {
	case r := <-done:
		return r
	default:
		close(cancel)
		return <-done
	}
}

// drain collects what the router has queued for this client.
func (k *conn) drain() []wamp.Message {
	var out []wamp.Message
	for !k.closedByRouter {
		select {
		case m, ok := <-k.c.Recv():
			if !ok {
				k.closedByRouter = true
			} else {
				out = append(out, m)
			}
		default:
			k.got = append(k.got, out...)
			return out
		}
	}
	k.got = append(k.got, out...)
	return out
}

func (k *conn) closeClient() {
	if !k.clientClosed {
		k.clientClosed = true
		k.c.Close()
	}
}

// Outcome is everything recorded for one scenario.
type Outcome struct {
	ID        string   `json:"id"`
	Scenario  Scenario `json:"scenario"`
	ModelCase string   `json:"model_case"` // s-expression for the model runner ("" when no model run applies)
	ImplObs   string   `json:"impl_obs"`   // canonical observation of the implementation
	Monitor   []Alarm  `json:"monitor"`    // spec monitor verdicts on the implementation's behaviour
	Notes     []string `json:"notes,omitempty"`
	// measured facts
	Class       string  `json:"class"`        // decisive branch exercised (for coverage counting)
	TRetMs      float64 `json:"t_ret_ms"`     // virtual time at which AttachClient returned
	TimeoutKind string  `json:"timeout_kind"` // "hello" | "auth" | ""
	Welcomed    bool    `json:"welcomed"`
	Observer    bool    `json:"observer"`
	Panic       string  `json:"panic,omitempty"`
	Leak        string  `json:"leak,omitempty"` // goroutines still blocked when the bubble had to end
}

type Alarm struct {
	Signature string `json:"signature"`
	What      string `json:"what"`
}

func strp(s string) *string { return &s }

func buildAuthenticators(rc *RealmCfg, timeout time.Duration) []auth.Authenticator {
	var as []auth.Authenticator
	for i := range rc.Auths {
		a := &rc.Auths[i]
		var ks auth.KeyStore
		if a.KS != nil {
			if a.KS.Bypass {
				ks = &bypassKeyStore{tableKeyStore{a.KS}}
			} else {
				ks = &tableKeyStore{a.KS}
			}
		}
		switch a.Method {
		case "anonymous":
			as = append(as, &auth.AnonymousAuth{AuthRole: a.Role})
		case "ticket":
			as = append(as, auth.NewTicketAuthenticator(ks, timeout))
		case "wampcra":
			as = append(as, auth.NewCRAuthenticator(ks, timeout))
		case "cryptosign":
			as = append(as, auth.NewCryptoSignAuthenticator(ks, timeout))
		default:
			panic("unknown method " + a.Method)
		}
	}
	return as
}

func buildRealm(rc *RealmCfg, timeout time.Duration) *router.RealmConfig {
	return &router.RealmConfig{
		URI:              wamp.URI(rc.URI),
		StrictURI:        rc.StrictURI,
		AnonymousAuth:    rc.Anonymous,
		AllowDisclose:    true,
		Authenticators:   buildAuthenticators(rc, timeout),
		RequireLocalAuth: rc.LocalAuth,
		MetaStrict:       rc.MetaStrict,
	}
}

// authCfgFor mirrors newRealm's map construction: the last entry for a method wins.
func authCfgFor(rc *RealmCfg, method string) *AuthCfg {
	var r *AuthCfg
	for i := range rc.Auths {
		if rc.Auths[i].Method == method {
			r = &rc.Auths[i]
		}
	}
	if r == nil && method == "anonymous" && rc.Anonymous {
		return &AuthCfg{Method: "anonymous", Role: "anonymous"}
	}
	return r
}

func findUser(ks *KeyStoreCfg, authid string) *UserCfg {
	if ks == nil {
		return nil
	}
	for i := range ks.Users {
		if ks.Users[i].AuthID == authid {
			return &ks.Users[i]
		}
	}
	return nil
}

// the realm configuration a HELLO for `realm` resolves to, by the harness's own reading
func resolveRealm(rt *RouterCfg, realm string) (*RealmCfg, bool) {
	for i := range rt.Realms {
		if rt.Realms[i].URI == realm {
			return &rt.Realms[i], false
		}
	}
	return rt.Template, rt.Template != nil
}

func asStringJV(j JV) (string, bool) {
	m, ok := j.(map[string]any)
	if !ok {
		return "", false
	}
	for _, k := range []string{"s", "u"} {
		if s, ok := m[k].(string); ok {
			return s, true
		}
	}
	if s, ok := m["b"].(string); ok {
		b, _ := hex.DecodeString(s)
		return string(b), true
	}
	return "", false
}

func claimedAuthID(details JV) string {
	d := jvDict(details)
	if d == nil {
		return ""
	}
	s, _ := asStringJV(d["authid"])
	return s
}

// ---------------------------------------------------------------------------
// client-side crypto (independent of router/auth and wamp/crsign)

func hmacB64(key []byte, msg string) string {
	h := hmac.New(sha256.New, key)
	h.Write([]byte(msg))
	return base64.StdEncoding.EncodeToString(h.Sum(nil))
}

// craRespond signs the challenge the way a WAMP-CRA client does.
func craRespond(secret string, extra wamp.Dict) string {
	ch, _ := extra["challenge"].(string)
	salt, _ := extra["salt"].(string)
	if salt == "" {
		return hmacB64([]byte(secret), ch)
	}
	iters, _ := wamp.AsInt64(extra["iterations"])
	keylen, _ := wamp.AsInt64(extra["keylen"])
	if iters == 0 {
		iters = 1000
	}
	if keylen == 0 {
		keylen = 32
	}
	dk := pbkdf2.Key([]byte(secret), []byte(salt), int(iters), int(keylen), sha256.New)
	return hmacB64([]byte(base64.StdEncoding.EncodeToString(dk)), ch)
}

func craVerifies(sig, chal string, key []byte) bool {
	b, err := base64.StdEncoding.DecodeString(sig)
	if err != nil {
		return false
	}
	h := hmac.New(sha256.New, key)
	h.Write([]byte(chal))
	return hmac.Equal(b, h.Sum(nil))
}

func csSign(seedHex string, msg []byte) string {
	_, priv := csKeyPair(seedHex)
	return hex.EncodeToString(sign.Sign(nil, msg, priv))
}

// csOpen opens a signed message under the stored key, padded or truncated to 32 bytes.
func csOpen(pk, sm []byte) ([]byte, bool) {
	var k [32]byte
	copy(k[:], pk)
	return sign.Open(nil, sm, &k)
}

var craChalRe = regexp.MustCompile(`^\{ "nonce":"([^"]*)", "authprovider":"(.*)", "authid":"(.*)", "timestamp":"([^"]*)", "authrole":"(.*)", "authmethod":"wampcra", "session":([0-9]+) \}$`)

// ---------------------------------------------------------------------------

type runner struct {
	sc            *Scenario
	rtr           router.Router
	out           *Outcome
	timeout       time.Duration
	gate          chan struct{}
	blocker       *conn
	observer      *conn
	obsSID        wamp.ID
	obsReq        wamp.ID
	closeDone     chan struct{}
	observerEarly bool          // the observer joined before the handshake (so it must see on_join)
	subJoin       wamp.ID       // observer's subscription to wamp.session.on_join
	all           []*attachment // every AttachClient started by the harness
}

func (r *runner) note(f string, a ...any) { r.out.Notes = append(r.out.Notes, fmt.Sprintf(f, a...)) }
func (r *runner) alarm(sig, f string, a ...any) {
	r.out.Monitor = append(r.out.Monitor, Alarm{Signature: sig, What: fmt.Sprintf(f, a...)})
}

// attach starts AttachClient for a fresh linked pair and returns the client side.
type attachment struct {
	k     *conn
	peer  *hookPeer
	done  chan struct{}
	err   error
	pnc   any
	tRet  time.Duration
	start time.Time
}

func (r *runner) attach(local bool, transportDetails wamp.Dict, onIsLocal func()) *attachment {
	c, rs := transport.LinkedPeers()
	a := &attachment{k: &conn{c: c}, done: make(chan struct{}), start: time.Now()}
	a.peer = &hookPeer{Peer: rs, local: local, onIsLocal: onIsLocal}
	go func() {
		defer close(a.done)
		defer func() {
			if p := recover(); p != nil {
				a.pnc = p
			}
			a.tRet = time.Since(a.start)
		}()
		a.err = r.rtr.AttachClient(a.peer, transportDetails)
	}()
	r.all = append(r.all, a)
	return a
}

func (a *attachment) finished() bool {
	select {
	case <-a.done:
		return true
	default:
		return false
	}
}

// awaitOutcome lets virtual time pass until the router reacted (a message for
// the client, the peer closed, or AttachClient returned), at most maxWait.
func (a *attachment) awaitOutcome(maxWait time.Duration) []wamp.Message {
	t0 := time.Now()
	for {
		synctest.Wait()
		msgs := a.k.drain()
		if len(msgs) > 0 || a.k.closedByRouter || a.finished() {
			return msgs
		}
		if time.Since(t0) >= maxWait {
			return nil
		}
		time.Sleep(50 * time.Millisecond)
	}
}

// goodResponse computes the response of a client that holds user u's secret.
func goodResponse(method string, u *UserCfg, ch *wamp.Challenge) (string, bool) {
	switch method {
	case "ticket":
		if u != nil && u.Ticket != nil {
			return *u.Ticket, true
		}
	case "wampcra":
		if u != nil && u.CRASecret != nil {
			return craRespond(*u.CRASecret, ch.Extra), true
		}
	case "cryptosign":
		if u != nil && u.CSSeed != nil {
			chHex, _ := ch.Extra["challenge"].(string)
			b, err := hex.DecodeString(chHex)
			if err == nil {
				return csSign(*u.CSSeed, b), true
			}
		}
	}
	return "", false
}

const otherSeed = "7e57c0de7e57c0de7e57c0de7e57c0de7e57c0de7e57c0de7e57c0de7e57c0de"

func badResponse(method string, u *UserCfg, ch *wamp.Challenge) string {
	switch method {
	case "ticket":
		if u != nil && u.Ticket != nil {
			return *u.Ticket + "x"
		}
		return "not-the-ticket"
	case "wampcra":
		return craRespond("wrong-secret", ch.Extra)
	case "cryptosign":
		chHex, _ := ch.Extra["challenge"].(string)
		b, _ := hex.DecodeString(chHex)
		return csSign(otherSeed, b) // validly signed, by somebody else's key
	}
	return "x"
}

// altVariants: responses a sloppy verifier might accept — made with the right
// secret over something other than this run's challenge, or over this run's
// challenge with a key anybody can compute.
var altVariants = map[string][]string{
	"ticket":     {"lit:empty", "lit:authid", "lit:prefix", "lit:upper", "lit:twice"},
	"wampcra":    {"msg:authid", "msg:empty", "msg:authrole", "msg:provider", "msg:method", "msg:session", "msg:nonce", "msg:nosession", "msg:notimestamp", "key:empty", "key:authid", "key:question", "key:nonce", "key:timestamp", "key:challenge", "key:session", "key:provider", "raw:unencoded"},
	"cryptosign": {"msg:zero", "msg:reversed", "msg:hexascii", "msg:flipped", "sig:swapped", "sig:upperhex", "key:zero"},
}

func altResponse(method, alt string, u *UserCfg, ch *wamp.Challenge, claimed string) string {
	switch method {
	case "ticket":
		t := ""
		if u != nil && u.Ticket != nil {
			t = *u.Ticket
		}
		switch alt {
		case "lit:empty":
			return ""
		case "lit:authid":
			return claimed
		case "lit:prefix":
			if len(t) > 0 {
				return t[:len(t)-1]
			}
			return "x"
		case "lit:upper":
			return strings.ToUpper(t)
		default:
			return t + t
		}
	case "wampcra":
		secret := "wrong-secret"
		if u != nil && u.CRASecret != nil {
			secret = *u.CRASecret
		}
		chal, _ := ch.Extra["challenge"].(string)
		over := func(msg string) string {
			e := wamp.Dict{}
			for k, v := range ch.Extra {
				e[k] = v
			}
			e["challenge"] = msg
			return craRespond(secret, e)
		}
		mm := craChalRe.FindStringSubmatch(chal)
		part := func(i int) string {
			if mm != nil {
				return mm[i]
			}
			return ""
		}
		switch alt {
		case "msg:authid":
			return over(claimed)
		case "msg:empty":
			return over("")
		case "msg:authrole":
			return over(part(5))
		case "msg:provider":
			return over(part(2))
		case "msg:method":
			return over("wampcra")
		case "msg:session":
			return over(part(6))
		case "msg:nonce":
			return over(part(1))
		case "msg:nosession":
			return over(regexp.MustCompile(`"session":[0-9]+`).ReplaceAllString(chal, `"session":0`))
		case "msg:notimestamp":
			return over(regexp.MustCompile(`"timestamp":"[^"]*"`).ReplaceAllString(chal, `"timestamp":""`))
		case "key:empty":
			return hmacB64(nil, chal)
		case "key:authid":
			return hmacB64([]byte(claimed), chal)
		case "key:question":
			return hmacB64([]byte("?"), chal)
		// keys anybody can compute from the CHALLENGE it was just sent
		case "key:nonce":
			return hmacB64([]byte(part(1)), chal)
		case "key:timestamp":
			return hmacB64([]byte(part(4)), chal)
		case "key:challenge":
			return hmacB64([]byte(chal), chal)
		case "key:session":
			return hmacB64([]byte(part(6)), chal)
		case "key:provider":
			return hmacB64([]byte(part(2)), chal)
		default: // the raw HMAC bytes, not base64
			s, _ := base64.StdEncoding.DecodeString(craRespond(secret, ch.Extra))
			return string(s)
		}
	case "cryptosign":
		seed := otherSeed
		if u != nil && u.CSSeed != nil {
			seed = *u.CSSeed
		}
		chHex, _ := ch.Extra["challenge"].(string)
		c, _ := hex.DecodeString(chHex)
		if len(c) != 32 {
			c = make([]byte, 32)
		}
		switch alt {
		case "msg:zero":
			return csSign(seed, make([]byte, 32))
		case "msg:reversed":
			r := make([]byte, 32)
			for i := range c {
				r[31-i] = c[i]
			}
			return csSign(seed, r)
		case "msg:hexascii":
			return csSign(seed, []byte(chHex)[:32])
		case "msg:flipped":
			f := append([]byte{}, c...)
			f[31] ^= 1
			return csSign(seed, f)
		case "sig:swapped":
			sm, _ := hex.DecodeString(csSign(seed, c))
			return hex.EncodeToString(append(append([]byte{}, sm[64:]...), sm[:64]...))
		case "sig:upperhex":
			return strings.ToUpper(csSign(seed, c)) // a correct response in upper-case hex (accepted by hex.DecodeString)
		default: // signed by the key pair whose seed is all zero
			return csSign(strings.Repeat("00", 32), c)
		}
	}
	return "x"
}

func wrongTypeMsg(code int) wamp.Message {
	switch wamp.MessageType(code) {
	case wamp.HELLO:
		return &wamp.Hello{Realm: "realm1", Details: wamp.Dict{"roles": wamp.Dict{"caller": wamp.Dict{}}}}
	case wamp.WELCOME:
		return &wamp.Welcome{ID: 1, Details: wamp.Dict{}}
	case wamp.ABORT:
		return &wamp.Abort{Reason: "wamp.error.client_abort", Details: wamp.Dict{}}
	case wamp.CHALLENGE:
		return &wamp.Challenge{AuthMethod: "ticket", Extra: wamp.Dict{}}
	case wamp.AUTHENTICATE:
		return &wamp.Authenticate{Signature: "sig", Extra: wamp.Dict{}}
	case wamp.GOODBYE:
		return &wamp.Goodbye{Reason: wamp.CloseRealm, Details: wamp.Dict{}}
	case wamp.SUBSCRIBE:
		return &wamp.Subscribe{Request: 901, Topic: obsTopic, Options: wamp.Dict{}}
	case wamp.CALL:
		return &wamp.Call{Request: 902, Procedure: obsProc, Options: wamp.Dict{}}
	case wamp.REGISTER:
		return &wamp.Register{Request: 903, Procedure: "c09.other", Options: wamp.Dict{}}
	default:
		return &wamp.Publish{Request: 904, Topic: obsTopic, Options: wamp.Dict{"acknowledge": true},
			Arguments: wamp.List{"smuggled"}}
	}
}

// joinGood attaches a well-behaved client (observer / earlier handshake) and
// returns its connection, WELCOME, and the AUTHENTICATE signature it used.
func (r *runner) joinGood(realm string, rc *RealmCfg, local bool, details wamp.Dict, method string, u *UserCfg) (*conn, *wamp.Welcome, *wamp.Challenge, string) {
	a := r.attach(local, nil, nil)
	if details == nil {
		details = wamp.Dict{}
	}
	if _, ok := details["roles"]; !ok {
		details["roles"] = wamp.Dict{"subscriber": wamp.Dict{}, "callee": wamp.Dict{}, "caller": wamp.Dict{}, "publisher": wamp.Dict{}}
	}
	if method != "" {
		details["authmethods"] = wamp.List{method}
		if u != nil {
			details["authid"] = u.AuthID
		}
	}
	if !a.k.send(&wamp.Hello{Realm: wamp.URI(realm), Details: details}) {
		return nil, nil, nil, ""
	}
	var chal *wamp.Challenge
	sig := ""
	for i := 0; i < 4; i++ {
		msgs := a.awaitOutcome(100 * time.Millisecond)
		for _, m := range msgs {
			switch x := m.(type) {
			case *wamp.Welcome:
				return a.k, x, chal, sig
			case *wamp.Challenge:
				chal = x
				s, ok := goodResponse(x.AuthMethod, u, x)
				if !ok {
					return nil, nil, nil, ""
				}
				sig = s
				a.k.send(&wamp.Authenticate{Signature: s, Extra: wamp.Dict{}})
			case *wamp.Abort:
				return nil, nil, nil, ""
			}
		}
		if a.k.closedByRouter {
			return nil, nil, nil, ""
		}
	}
	return nil, nil, nil, ""
}

// firstGoodLogin finds a method and user with which a client can authenticate on rc.
func firstGoodLogin(rc *RealmCfg) (string, *UserCfg, bool) {
	if authCfgFor(rc, "anonymous") != nil {
		return "anonymous", nil, true
	}
	for _, m := range []string{"ticket", "wampcra", "cryptosign"} {
		a := authCfgFor(rc, m)
		if a == nil || a.KS == nil {
			continue
		}
		for i := range a.KS.Users {
			u := &a.KS.Users[i]
			if u.Role == nil && m == "cryptosign" {
				continue
			}
			if _, ok := goodResponse(m, u, &wamp.Challenge{AuthMethod: m, Extra: wamp.Dict{"challenge": "00"}}); ok && storedKey(u, m) != nil && u.CSKeyRaw == nil {
				return m, u, true
			}
		}
	}
	return "", nil, false
}

func (r *runner) obsCall(proc wamp.URI, args wamp.List) (wamp.Message, []wamp.Message) {
	r.obsReq++
	req := r.obsReq
	if !r.observer.send(&wamp.Call{Request: req, Procedure: proc, Options: wamp.Dict{}, Arguments: args}) {
		return nil, nil
	}
	synctest.Wait()
	var others []wamp.Message
	var reply wamp.Message
	for _, m := range r.observer.drain() {
		switch x := m.(type) {
		case *wamp.Result:
			if x.Request == req {
				reply = m
				continue
			}
		case *wamp.Error:
			if x.Request == req {
				reply = m
				continue
			}
		}
		others = append(others, m)
	}
	return reply, others
}

// startObserver joins a local session to the realm and makes it subscribe to
// on_join and the probe topic and register the probe procedure.
func (r *runner) startObserver(realm string, rc *RealmCfg) {
	var k *conn
	var w *wamp.Welcome
	if !rc.LocalAuth {
		k, w, _, _ = r.joinGood(realm, rc, true, nil, "", nil)
	} else if m, u, ok := firstGoodLogin(rc); ok {
		k, w, _, _ = r.joinGood(realm, rc, true, nil, m, u)
	}
	if k == nil {
		return
	}
	r.observer, r.obsSID, r.obsReq = k, w.ID, 100
	k.send(&wamp.Subscribe{Request: 1, Topic: wamp.MetaEventSessionOnJoin, Options: wamp.Dict{}})
	k.send(&wamp.Subscribe{Request: 2, Topic: obsTopic, Options: wamp.Dict{}})
	k.send(&wamp.Register{Request: 3, Procedure: obsProc, Options: wamp.Dict{}})
	synctest.Wait()
	n := 0
	for _, m := range k.drain() {
		switch x := m.(type) {
		case *wamp.Subscribed:
			if x.Request == 1 {
				r.subJoin = x.Subscription
			}
			n++
		case *wamp.Registered:
			n++
		}
	}
	if n != 3 {
		r.note("observer setup incomplete (%d/3)", n)
		r.observer = nil
	}
	r.out.Observer = r.observer != nil
}

// projectOut renders a message the joining peer received.
func projectOut(m wamp.Message) string {
	switch x := m.(type) {
	case *wamp.Challenge:
		return "(challenge " + hx(x.AuthMethod) + " " + sexpGoDict(x.Extra) + ")"
	case *wamp.Welcome:
		d := wamp.Dict{}
		for k, v := range x.Details {
			d[k] = v
		}
		if roles, ok := d["roles"].(wamp.Dict); ok {
			p := wamp.Dict{}
			for k := range roles {
				p[k] = wamp.Dict{}
			}
			d["roles"] = p
		}
		return fmt.Sprintf("(welcome %d %s)", uint64(x.ID), sexpGoDict(d))
	case *wamp.Abort:
		_, has := x.Details["message"]
		return "(abort " + hx(string(x.Reason)) + " " + bit(has) + ")"
	}
	return fmt.Sprintf("(other %d)", int(m.MessageType()))
}

func postMessage(kind string, i int) wamp.Message {
	req := wamp.ID(500 + i)
	switch kind {
	case "subscribe":
		return &wamp.Subscribe{Request: req, Topic: "c09.other.topic", Options: wamp.Dict{}}
	case "call":
		return &wamp.Call{Request: req, Procedure: obsProc, Options: wamp.Dict{}, Arguments: wamp.List{"late"}}
	default:
		return &wamp.Publish{Request: req, Topic: obsTopic, Options: wamp.Dict{"acknowledge": true}, Arguments: wamp.List{"late"}}
	}
}

func postCode(kind string) int {
	switch kind {
	case "subscribe":
		return int(wamp.SUBSCRIBE)
	case "call":
		return int(wamp.CALL)
	}
	return int(wamp.PUBLISH)
}

func runScenario(sc *Scenario) *Outcome {
	out := &Outcome{ID: sc.ID, Scenario: *sc}
	r := &runner{sc: sc, out: out}
	r.timeout = time.Duration(sc.AuthTimeoutMs) * time.Millisecond
	if r.timeout == 0 {
		r.timeout = 2 * time.Second
	}
	logger := log.New(io.Discard, "", 0)

	// ---- router
	cfg := &router.Config{}
	for i := range sc.Router.Realms {
		cfg.RealmConfigs = append(cfg.RealmConfigs, buildRealm(&sc.Router.Realms[i], r.timeout))
	}
	if sc.Router.Template != nil {
		cfg.RealmTemplate = buildRealm(sc.Router.Template, r.timeout)
	}
	if sc.Router.Closing {
		r.gate = make(chan struct{})
		cfg.RealmConfigs = append(cfg.RealmConfigs, &router.RealmConfig{URI: blockURI, AnonymousAuth: true})
	}
	rtr, err := router.NewRouter(cfg, logger)
	if err != nil {
		out.Notes = append(out.Notes, "router construction failed: "+err.Error())
		out.Class = "invalid-config"
		return out
	}
	r.rtr = rtr

	rc, viaTemplate := resolveRealm(&sc.Router, sc.Hello.Realm)
	realmInConfig := rc != nil && !viaTemplate

	// ---- observer (existing realms only; a template realm is observed afterwards)
	if realmInConfig && !sc.Router.Closing && !sc.Router.Stopped {
		r.startObserver(sc.Hello.Realm, rc)
		r.observerEarly = r.observer != nil
	}

	// ---- earlier handshake whose transcript will be replayed
	claimed := claimedAuthID(sc.Hello.Details)
	secretUser := sc.Resp.User
	if secretUser == "" {
		secretUser = claimed
	}
	var captured = map[string]string{} // method -> signature captured earlier
	if rc != nil && (sc.Resp.Kind == "replay") && !sc.Router.Closing && !sc.Router.Stopped {
		for _, m := range []string{"ticket", "wampcra", "cryptosign"} {
			a := authCfgFor(rc, m)
			if a == nil {
				continue
			}
			u := findUser(a.KS, secretUser)
			if u == nil {
				continue
			}
			realmName := sc.Hello.Realm
			if viaTemplate || realmName == "" {
				continue
			}
			k, _, _, sig := r.joinGood(realmName, rc, false, nil, m, u)
			if k != nil {
				captured[m] = sig
				k.send(&wamp.Goodbye{Reason: wamp.CloseRealm, Details: wamp.Dict{}})
				synctest.Wait()
				k.drain()
				k.closeClient()
				synctest.Wait()
			}
		}
		if r.observer != nil {
			r.observer.drain() // on_join of the earlier sessions
			r.observer.got = nil
		}
	}

	// ---- router closing: hold Router.Close inside its action
	if sc.Router.Closing {
		// a session of another realm whose peer takes its time to close: the
		// realm's close() then waits for that session's handler, inside the
		// router's Close action, with router.closed already set.
		a := r.attach(false, nil, nil)
		gate := r.gate
		a.peer.onClose = func() { <-gate }
		a.k.send(&wamp.Hello{Realm: blockURI, Details: wamp.Dict{"roles": wamp.Dict{"subscriber": wamp.Dict{}}}})
		a.awaitOutcome(100 * time.Millisecond)
		r.blocker = a.k
		r.closeDone = make(chan struct{})
		go func() { rtr.Close(); close(r.closeDone) }()
		synctest.Wait()
	}

	if sc.Router.Stopped {
		rtr.Close()
		synctest.Wait()
	}

	// ---- the handshake under observation
	var events []string // what the router's receive operations saw, in order
	realmRemoved := false
	removeRealm := func() {
		if !realmRemoved {
			realmRemoved = true
			rtr.RemoveRealm(wamp.URI(sc.Hello.Realm))
		}
	}
	var hook func()
	if sc.RealmClosed && realmInConfig {
		// authClient asks IsLocal() first: the realm goes away right then
		// (for challenge methods again, harmlessly, when the CHALLENGE arrives)
		hook = removeRealm
	}
	a := r.attach(sc.Peer.Local, toGoDict(sc.Peer.Transport), hook)
	k := a.k

	helloDetails := toGoDict(sc.Hello.Details)
	switch sc.Hello.First {
	case "hello":
		if k.send(&wamp.Hello{Realm: wamp.URI(sc.Hello.Realm), Details: helloDetails}) {
			det := "(d)"
			if sc.Hello.Details != nil {
				det = sexpJV(sc.Hello.Details)
			}
			events = append(events, "(hello "+hx(sc.Hello.Realm)+" "+det+")")
		} else {
			r.note("HELLO was not taken by the router")
		}
	case "other":
		if k.send(wrongTypeMsg(sc.Hello.OtherCode)) {
			events = append(events, fmt.Sprintf("(other %d)", int(wrongTypeMsg(sc.Hello.OtherCode).MessageType())))
		}
	case "closed":
		k.closeClient()
		events = append(events, "closed")
	case "timeout":
		events = append(events, "timeout")
		out.TimeoutKind = "hello"
	}
	if sc.Router.Closing {
		synctest.Wait() // AttachClient is now queued behind the Close action
		close(r.gate)
	}

	var outMsgs []wamp.Message
	var challenge *wamp.Challenge
	var sentSig *string
	var welcome *wamp.Welcome
	var abort *wamp.Abort
	for step := 0; step < 6 && welcome == nil && abort == nil; step++ {
		msgs := a.awaitOutcome(70 * time.Second)
		outMsgs = append(outMsgs, msgs...)
		for _, m := range msgs {
			switch x := m.(type) {
			case *wamp.Welcome:
				welcome = x
			case *wamp.Abort:
				abort = x
			case *wamp.Challenge:
				if challenge != nil {
					r.alarm("handshake:second-challenge", "a second CHALLENGE was sent")
					continue
				}
				challenge = x
				if sc.RealmClosed && realmInConfig {
					removeRealm()
				}
				method := x.AuthMethod
				var u *UserCfg
				if ac := authCfgFor(rc, method); ac != nil {
					u = findUser(ac.KS, secretUser)
				}
				kind := sc.Resp.Kind
				sig := ""
				switch kind {
				case "good":
					if s, ok := goodResponse(method, u, x); ok {
						sig = s
					} else {
						sig = badResponse(method, u, x)
					}
				case "bad_secret":
					sig = badResponse(method, u, x)
				case "replay":
					if s, ok := captured[method]; ok {
						sig = s
					} else {
						sig = badResponse(method, u, x)
					}
				case "signed_other":
					// validly signed by the right key, but over other bytes than this challenge
					if method == "cryptosign" && u != nil && u.CSSeed != nil {
						sig = csSign(*u.CSSeed, []byte("0123456789abcdef0123456789abcdef"))
					} else if method == "wampcra" && u != nil && u.CRASecret != nil {
						e := wamp.Dict{}
						for kk, v := range x.Extra {
							e[kk] = v
						}
						e["challenge"] = "{ \"nonce\":\"other\" }"
						sig = craRespond(*u.CRASecret, e)
					} else {
						sig = badResponse(method, u, x)
					}
				case "alt":
					alt := sc.Resp.Alt
					if strings.HasPrefix(alt, "any:") {
						if vs := altVariants[method]; len(vs) > 0 {
							k, _ := strconv.Atoi(alt[4:])
							alt = vs[k%len(vs)]
						}
					}
					sig = altResponse(method, alt, u, x, claimed)
				case "garbage", "literal":
					if sc.Resp.Literal != nil {
						sig = *sc.Resp.Literal
					}
				}
				switch kind {
				case "wrong_type":
					wm := wrongTypeMsg(sc.Resp.WrongCode)
					if k.send(wm) {
						events = append(events, fmt.Sprintf("(other %d)", int(wm.MessageType())))
					}
				case "abort":
					if k.send(&wamp.Abort{Reason: "wamp.error.client_abort", Details: wamp.Dict{}}) {
						events = append(events, "(abort "+hx("wamp.error.client_abort")+")")
					}
				case "closed":
					k.closeClient()
					events = append(events, "closed")
				case "timeout":
					events = append(events, "timeout")
					out.TimeoutKind = "auth"
				default:
					if k.send(&wamp.Authenticate{Signature: sig, Extra: wamp.Dict{}}) {
						events = append(events, "(auth "+hx(sig)+" (d))")
						sentSig = strp(sig)
					}
				}
			}
		}
		if k.closedByRouter || a.finished() {
			synctest.Wait()
			more := k.drain()
			outMsgs = append(outMsgs, more...)
			for _, m := range more {
				switch x := m.(type) {
				case *wamp.Welcome:
					welcome = x
				case *wamp.Abort:
					abort = x
				}
			}
			break
		}
	}
	synctest.Wait()
	if !a.finished() {
		r.note("AttachClient did not return")
	}
	if a.pnc != nil {
		out.Panic = fmt.Sprint(a.pnc)
	}
	out.TRetMs = float64(a.tRet) / float64(time.Millisecond)
	out.Welcomed = welcome != nil

	// ---- later messages of the joining peer
	effects := 0
	for i, p := range sc.Post {
		m := postMessage(p, i)
		events = append(events, fmt.Sprintf("(other %d)", postCode(p)))
		taken := k.send(m)
		synctest.Wait()
		reacted := false
		if len(k.drain()) > 0 {
			reacted = true
		}
		if r.observer != nil {
			for _, om := range r.observer.drain() {
				switch x := om.(type) {
				case *wamp.Event:
					reacted = true
				case *wamp.Invocation:
					reacted = true
					r.observer.send(&wamp.Yield{Request: x.Request, Options: wamp.Dict{}})
					synctest.Wait()
					k.drain()
				}
			}
		}
		_ = taken
		if reacted {
			effects++
		}
	}

	// ---- was a realm created from the template?
	created := false
	createdObserved := !sc.Router.Closing && !sc.Router.Stopped
	if sc.Hello.First == "hello" && sc.Hello.Realm != "" && !realmInConfig && createdObserved && !uriOK(false, sc.Hello.Realm) {
		// AddRealm cannot be used as a probe for a URI no realm can have (and
		// a refused AddRealm leaks the broker and dealer it started)
		createdObserved = false
	} else if sc.Hello.First == "hello" && sc.Hello.Realm != "" && !realmInConfig && createdObserved {
		if err := rtr.AddRealm(&router.RealmConfig{URI: wamp.URI(sc.Hello.Realm), AnonymousAuth: true}); err != nil {
			if strings.Contains(err.Error(), "already exists") {
				created = true
			}
		} else {
			rtr.RemoveRealm(wamp.URI(sc.Hello.Realm))
		}
	}

	// ---- what another session is shown
	shown := "none"
	var shownDict wamp.Dict
	var onJoin []wamp.Dict
	if r.observer != nil {
		synctest.Wait()
		r.observer.drain()
		for _, m := range r.observer.got {
			if ev, ok := m.(*wamp.Event); ok && ev.Subscription == r.subJoin && len(ev.Arguments) == 1 {
				if d, ok := ev.Arguments[0].(wamp.Dict); ok {
					onJoin = append(onJoin, d)
				}
			}
		}
	}
	if created && welcome != nil && r.observer == nil && rc != nil {
		// template realm: observe after the fact
		r.startObserver(sc.Hello.Realm, rc)
	}
	var sessionList []wamp.ID
	if r.observer != nil && !realmRemoved {
		if welcome != nil {
			reply, _ := r.obsCall(wamp.MetaProcSessionGet, wamp.List{welcome.ID})
			if res, ok := reply.(*wamp.Result); ok && len(res.Arguments) == 1 {
				if d, ok := res.Arguments[0].(wamp.Dict); ok {
					shown = sexpGoDict(d)
					shownDict = d
				}
			}
		}
		reply, _ := r.obsCall(wamp.MetaProcSessionList, nil)
		if res, ok := reply.(*wamp.Result); ok && len(res.Arguments) == 1 {
			if l, ok := wamp.AsList(res.Arguments[0]); ok {
				for _, x := range l {
					if id, ok := wamp.AsID(x); ok {
						sessionList = append(sessionList, id)
					}
				}
			}
		}
	}

	// ---- canonical observation
	var outs []string
	for _, m := range outMsgs {
		outs = append(outs, projectOut(m))
	}
	haveShown := r.observer != nil && !realmRemoved
	if !haveShown {
		shown = "?" // not observed: never compared
	}
	createdObs := bit(created)
	if !createdObserved {
		createdObs = "?"
	}
	out.ImplObs = fmt.Sprintf("(obs %s (out%s) %s %s %s %s %d)", sc.ID, prefixSpace(outs),
		bit(k.closedByRouter), bit(a.err != nil || a.pnc != nil), shown, createdObs, effects)
	if !haveShown && welcome != nil {
		out.Notes = append(out.Notes, "no observer: shown details not observed")
	}

	// ---- oracle and crypto facts for the model
	var sid uint64
	gen, nonce, ts, csch := "", "", "", ""
	if welcome != nil {
		sid = uint64(welcome.ID)
	}
	var craFacts, openFacts []string
	if challenge != nil {
		method := challenge.AuthMethod
		ac := authCfgFor(rc, method)
		var cu *UserCfg
		if ac != nil {
			cu = findUser(ac.KS, claimed)
		}
		switch method {
		case "wampcra":
			ch, _ := challenge.Extra["challenge"].(string)
			if mm := craChalRe.FindStringSubmatch(ch); mm != nil {
				nonce, ts = mm[1], mm[4]
				if s, err := strconv.ParseUint(mm[6], 10, 64); err == nil && welcome == nil {
					sid = s
				}
			}
			if sentSig != nil {
				key := []byte("?")
				ok := false
				if cu != nil && storedKey(cu, "wampcra") != nil {
					key = storedKey(cu, "wampcra")
					ok = craVerifies(*sentSig, ch, key)
				}
				craFacts = append(craFacts, fmt.Sprintf("(%s %s %s %s)", hx(*sentSig), hx(ch), hx(string(key)), bit(ok)))
			}
		case "cryptosign":
			chHex, _ := challenge.Extra["challenge"].(string)
			if b, err := hex.DecodeString(chHex); err == nil {
				csch = string(b)
			}
			if sentSig != nil && cu != nil {
				if pk := storedKey(cu, "cryptosign"); pk != nil {
					if sm, err := hex.DecodeString(*sentSig); err == nil {
						m := "none"
						if msg, ok := csOpen(pk, sm); ok {
							m = hx(string(msg))
						}
						openFacts = append(openFacts, fmt.Sprintf("(%s %s %s)", hx(string(pk)), hx(string(sm)), m))
					}
				}
			}
		}
	}
	if welcome != nil {
		am, _ := welcome.Details["authmethod"].(string)
		if am == "anonymous" || (am == "local" && claimed == "") {
			gen, _ = welcome.Details["authid"].(string)
		}
	}
	transportSexp := "(d)"
	if sc.Peer.Transport != nil {
		transportSexp = sexpJV(sc.Peer.Transport)
	}
	out.ModelCase = fmt.Sprintf("(case %s 1 %s (peer %s %s) (oracle %d %s %s %s %s %s 0 %s) (script%s) (cra%s) (open%s))",
		sc.ID, sexpRouter(&sc.Router), bit(sc.Peer.Local), transportSexp,
		sid, hx(gen), hx(nonce), hx(ts), hx("?"), hx(csch), bit(realmRemoved),
		prefixSpace(events), prefixSpace(craFacts), prefixSpace(openFacts))

	// ---- monitor (the property itself, evaluated on what the implementation did)
	r.monitor(rc, viaTemplate, k, a, challenge, sentSig, welcome, abort, outMsgs, shownDict, haveShown, onJoin, sessionList, effects, claimed, realmRemoved)

	// ---- coverage class
	out.Class = classify(sc, challenge, welcome, abort, sentSig)

	// ---- cleanup: everything must have exited before the bubble ends
	if welcome != nil && !k.clientClosed {
		k.send(&wamp.Goodbye{Reason: wamp.CloseRealm, Details: wamp.Dict{}})
	}
	if r.observer != nil {
		r.observer.send(&wamp.Goodbye{Reason: wamp.CloseRealm, Details: wamp.Dict{}})
	}
	synctest.Wait()
	rtr.Close()
	if r.closeDone != nil {
		<-r.closeDone
	}
	synctest.Wait()
	for _, c := range []*conn{k, r.observer, r.blocker} {
		if c != nil {
			c.drain()
			c.closeClient()
		}
	}
	for _, x := range r.all {
		x.k.drain()
		x.k.closeClient()
	}
	synctest.Wait()
	for _, x := range r.all {
		<-x.done
	}
	return out
}

func classify(sc *Scenario, ch *wamp.Challenge, w *wamp.Welcome, ab *wamp.Abort, sig *string) string {
	var parts []string
	parts = append(parts, "first="+sc.Hello.First)
	if sc.Peer.Local {
		parts = append(parts, "local")
	} else {
		parts = append(parts, "remote")
	}
	if ch != nil {
		parts = append(parts, "chal="+ch.AuthMethod, "resp="+sc.Resp.Kind)
	}
	switch {
	case w != nil:
		am, _ := w.Details["authmethod"].(string)
		parts = append(parts, "welcome="+am)
	case ab != nil:
		parts = append(parts, "abort="+string(ab.Reason))
	default:
		parts = append(parts, "silent")
	}
	if sc.RealmClosed {
		parts = append(parts, "realm-closed")
	}
	if sc.Router.Closing {
		parts = append(parts, "router-closing")
	}
	if sc.Router.Stopped {
		parts = append(parts, "router-stopped")
	}
	return strings.Join(parts, " ")
}
