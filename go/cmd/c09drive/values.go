// Package c09drive is the correspondence harness for property C09 (the WAMP
// handshake of router.AttachClient).  It is built as a test binary
// (`go test -c`) because testing/synctest bubbles need a *testing.T.
//
// values.go: typed JSON encoding of WAMP values used in scenario files, their
// conversion to Go values handed to the router, and the canonical
// s-expression form shared with the extracted model runner (ocaml/auth).
package c09drive

import (
	"encoding/hex"
	"fmt"
	"sort"
	"strconv"
	"strings"

	"github.com/gammazero/nexus/v3/wamp"
)

// JV is a WAMP value in its scenario-file form:
//
//	nil                    -> nil
//	{"t": bool}            -> bool
//	{"i": int}             -> int64
//	{"f": "1.5"}           -> float64
//	{"s": "text"}          -> string
//	{"b": "hex"}           -> []byte
//	{"u": "uri"}           -> wamp.URI
//	{"l": [JV...]}         -> wamp.List
//	{"d": {"k": JV...}}    -> wamp.Dict
type JV = any

func jvS(s string) JV         { return map[string]any{"s": s} }
func jvB(b []byte) JV         { return map[string]any{"b": hex.EncodeToString(b)} }
func jvU(s string) JV         { return map[string]any{"u": s} }
func jvI(i int64) JV          { return map[string]any{"i": float64(i)} }
func jvF(tok string) JV       { return map[string]any{"f": tok} }
func jvT(b bool) JV           { return map[string]any{"t": b} }
func jvL(l ...JV) JV          { return map[string]any{"l": append([]any{}, l...)} }
func jvD(d map[string]any) JV { return map[string]any{"d": d} }
func jvDict(j JV) map[string]any {
	if m, ok := j.(map[string]any); ok {
		if d, ok := m["d"].(map[string]any); ok {
			return d
		}
	}
	return nil
}

// toGo converts a scenario value to the Go value the router will see.
func toGo(j JV) any {
	if j == nil {
		return nil
	}
	m, ok := j.(map[string]any)
	if !ok || len(m) != 1 {
		panic(fmt.Sprintf("bad scenario value %#v", j))
	}
	for k, v := range m {
		switch k {
		case "t":
			return v.(bool)
		case "i":
			switch n := v.(type) {
			case float64:
				return int64(n)
			case int64:
				return n
			case int:
				return int64(n)
			}
		case "f":
			f, err := strconv.ParseFloat(v.(string), 64)
			if err != nil {
				panic(err)
			}
			return f
		case "s":
			return v.(string)
		case "b":
			b, err := hex.DecodeString(v.(string))
			if err != nil {
				panic(err)
			}
			return b
		case "u":
			return wamp.URI(v.(string))
		case "l":
			l := wamp.List{}
			for _, x := range v.([]any) {
				l = append(l, toGo(x))
			}
			return l
		case "d":
			d := wamp.Dict{}
			for kk, x := range v.(map[string]any) {
				d[kk] = toGo(x)
			}
			return d
		}
	}
	panic(fmt.Sprintf("bad scenario value %#v", j))
}

func toGoDict(j JV) wamp.Dict {
	if j == nil {
		return nil
	}
	d, _ := toGo(j).(wamp.Dict)
	return d
}

func hx(s string) string { return "x" + hex.EncodeToString([]byte(s)) }

// sexpJV renders a scenario value as the model runner reads it.
func sexpJV(j JV) string {
	if j == nil {
		return "null"
	}
	m := j.(map[string]any)
	for k, v := range m {
		switch k {
		case "t":
			if v.(bool) {
				return "true"
			}
			return "false"
		case "i":
			return fmt.Sprintf("(i %d)", toGo(j).(int64))
		case "f":
			return "(fl " + hx(v.(string)) + ")"
		case "s":
			return "(s " + hx(v.(string)) + ")"
		case "b":
			b, _ := hex.DecodeString(v.(string))
			return "(b " + hx(string(b)) + ")"
		case "u":
			return "(u " + hx(v.(string)) + ")"
		case "l":
			var sb strings.Builder
			sb.WriteString("(l")
			for _, x := range v.([]any) {
				sb.WriteString(" " + sexpJV(x))
			}
			sb.WriteString(")")
			return sb.String()
		case "d":
			d := v.(map[string]any)
			keys := make([]string, 0, len(d))
			for kk := range d {
				keys = append(keys, kk)
			}
			sort.Strings(keys)
			var sb strings.Builder
			sb.WriteString("(d")
			for _, kk := range keys {
				sb.WriteString(" (" + hx(kk) + " " + sexpJV(d[kk]) + ")")
			}
			sb.WriteString(")")
			return sb.String()
		}
	}
	panic("bad scenario value")
}

// sexpGo renders a Go value observed at the implementation in the canonical
// form the model runner prints.  Unknown dynamic types are rendered as
// (unknown <type>) so that they can never compare equal to a model value.
func sexpGo(v any) string {
	switch x := v.(type) {
	case nil:
		return "null"
	case bool:
		if x {
			return "true"
		}
		return "false"
	case string:
		return "(s " + hx(x) + ")"
	case []byte:
		return "(b " + hx(string(x)) + ")"
	case wamp.URI:
		return "(u " + hx(string(x)) + ")"
	case int:
		return fmt.Sprintf("(i %d)", x)
	case int64:
		return fmt.Sprintf("(i %d)", x)
	case int32:
		return fmt.Sprintf("(i %d)", x)
	case uint64:
		return fmt.Sprintf("(i %d)", x)
	case uint32:
		return fmt.Sprintf("(i %d)", x)
	case uint:
		return fmt.Sprintf("(i %d)", x)
	case wamp.ID:
		return fmt.Sprintf("(i %d)", uint64(x))
	case float64:
		return "(fl " + hx(strconv.FormatFloat(x, 'g', -1, 64)) + ")"
	case wamp.List:
		return sexpGoList([]any(x))
	case []any:
		return sexpGoList(x)
	case wamp.Dict:
		return sexpGoDict(map[string]any(x))
	case map[string]any:
		return sexpGoDict(x)
	}
	return fmt.Sprintf("(unknown %T)", v)
}

func sexpGoList(l []any) string {
	var sb strings.Builder
	sb.WriteString("(l")
	for _, x := range l {
		sb.WriteString(" " + sexpGo(x))
	}
	sb.WriteString(")")
	return sb.String()
}

func sexpGoDict(d map[string]any) string {
	keys := make([]string, 0, len(d))
	for k := range d {
		keys = append(keys, k)
	}
	sort.Strings(keys)
	var sb strings.Builder
	sb.WriteString("(d")
	for _, k := range keys {
		sb.WriteString(" (" + hx(k) + " " + sexpGo(d[k]) + ")")
	}
	sb.WriteString(")")
	return sb.String()
}

func bit(b bool) string {
	if b {
		return "1"
	}
	return "0"
}
