package c09drive

// scenario.go: the symbolic, replayable description of one handshake and the
// deterministic key store (the Go twin of coq/Auth/KeyTable.v).

import (
	"bytes"
	"crypto/sha256"
	"encoding/base64"
	"encoding/hex"
	"errors"
	"fmt"
	"strings"

	"golang.org/x/crypto/nacl/sign"
	"golang.org/x/crypto/pbkdf2"

	"github.com/gammazero/nexus/v3/wamp"
)

type UserCfg struct {
	AuthID    string  `json:"authid"`
	Role      *string `json:"role"`       // nil: AuthRole returns an error
	Ticket    *string `json:"ticket"`     // nil: no ticket key
	CRASecret *string `json:"cra_secret"` // nil: no wampcra key
	Salt      string  `json:"salt"`
	KeyLen    int     `json:"keylen"`
	Iters     int     `json:"iters"`
	CSSeed    *string `json:"cs_seed"`    // hex, 32 bytes: Ed25519 seed; nil: no cryptosign key
	CSKeyRaw  *string `json:"cs_key_raw"` // hex: overrides the stored public key bytes (e.g. a short key)
}

type KeyStoreCfg struct {
	Provider string    `json:"provider"`
	Bypass   bool      `json:"bypass"`
	Users    []UserCfg `json:"users"`
}

type AuthCfg struct {
	Method string       `json:"method"` // anonymous | ticket | wampcra | cryptosign
	Role   string       `json:"role,omitempty"`
	KS     *KeyStoreCfg `json:"ks,omitempty"`
}

type RealmCfg struct {
	URI        string    `json:"uri"`
	Auths      []AuthCfg `json:"auths"`
	Anonymous  bool      `json:"anonymous"`
	LocalAuth  bool      `json:"local_auth"`
	StrictURI  bool      `json:"strict_uri"`
	MetaStrict bool      `json:"meta_strict"`
}

type RouterCfg struct {
	Realms   []RealmCfg `json:"realms"`
	Template *RealmCfg  `json:"template"`
	Closing  bool       `json:"closing"` // AttachClient arrives while Router.Close is in progress
	Stopped  bool       `json:"stopped"` // AttachClient arrives after Router.Close returned
}

type PeerCfg struct {
	Local     bool `json:"local"`
	Transport JV   `json:"transport"` // dict handed to AttachClient by the "server", or nil
}

type HelloSpec struct {
	First     string `json:"first"` // hello | other | timeout | closed
	OtherCode int    `json:"other_code,omitempty"`
	Realm     string `json:"realm"`
	Details   JV     `json:"details"` // dict or nil
}

type RespSpec struct {
	// good | bad_secret | replay | signed_other | alt | wrong_type | timeout | abort | closed | garbage | literal
	Kind      string  `json:"kind"`
	User      string  `json:"user,omitempty"`       // whose secret the client holds (default: the claimed authid)
	WrongCode int     `json:"wrong_code,omitempty"` // wrong_type: message sent instead of AUTHENTICATE
	Literal   *string `json:"literal,omitempty"`    // literal / garbage: the signature text
	Alt       string  `json:"alt,omitempty"`        // alt: a correctly keyed response over something else than this challenge
}

type Scenario struct {
	ID            string    `json:"id"`
	Router        RouterCfg `json:"router"`
	Peer          PeerCfg   `json:"peer"`
	Hello         HelloSpec `json:"hello"`
	Resp          RespSpec  `json:"resp"`
	RealmClosed   bool      `json:"realm_closed"` // the realm is removed while the handshake is in progress
	Post          []string  `json:"post"`         // subscribe | publish | call, sent after the outcome
	AuthTimeoutMs int       `json:"auth_timeout_ms"`
	Tags          []string  `json:"tags,omitempty"`
}

// ---------------------------------------------------------------------------
// deterministic key store

type tableKeyStore struct {
	cfg *KeyStoreCfg
}

type bypassKeyStore struct {
	tableKeyStore
}

func (ks *tableKeyStore) user(authid string) *UserCfg {
	for i := range ks.cfg.Users {
		if ks.cfg.Users[i].AuthID == authid {
			return &ks.cfg.Users[i]
		}
	}
	return nil
}

// storedKey is what AuthKey returns for a user and a method (nil: none).
func storedKey(u *UserCfg, method string) []byte {
	switch method {
	case "ticket":
		if u.Ticket != nil {
			return []byte(*u.Ticket)
		}
	case "wampcra":
		if u.CRASecret != nil {
			if u.Salt != "" {
				dk := pbkdf2.Key([]byte(*u.CRASecret), []byte(u.Salt), u.Iters, u.KeyLen, sha256.New)
				return []byte(base64.StdEncoding.EncodeToString(dk))
			}
			return []byte(*u.CRASecret)
		}
	case "cryptosign":
		if u.CSKeyRaw != nil {
			b, _ := hex.DecodeString(*u.CSKeyRaw)
			return b
		}
		if u.CSSeed != nil {
			pub, _ := csKeyPair(*u.CSSeed)
			return pub[:]
		}
	}
	return nil
}

func csKeyPair(seedHex string) (*[32]byte, *[64]byte) {
	seed, err := hex.DecodeString(seedHex)
	if err != nil || len(seed) != 32 {
		panic("bad cryptosign seed " + seedHex)
	}
	pub, priv, err := sign.GenerateKey(bytes.NewReader(seed))
	if err != nil {
		panic(err)
	}
	return pub, priv
}

func (ks *tableKeyStore) AuthKey(authid, authmethod string) ([]byte, error) {
	u := ks.user(authid)
	if u == nil {
		return nil, errors.New("no such user")
	}
	k := storedKey(u, authmethod)
	if k == nil {
		return nil, errors.New("no key for method")
	}
	return k, nil
}

func (ks *tableKeyStore) PasswordInfo(authid string) (string, int, int) {
	u := ks.user(authid)
	if u == nil {
		return "", 0, 0
	}
	return u.Salt, u.KeyLen, u.Iters
}

func (ks *tableKeyStore) AuthRole(authid string) (string, error) {
	u := ks.user(authid)
	if u == nil || u.Role == nil {
		return "", errors.New("no such user")
	}
	return *u.Role, nil
}

func (ks *tableKeyStore) Provider() string { return ks.cfg.Provider }

// AlreadyAuth: details.transport.auth.preauth is the string authid.
func (ks *bypassKeyStore) AlreadyAuth(authid string, details wamp.Dict) bool {
	t, ok := details["transport"].(wamp.Dict)
	if !ok {
		return false
	}
	a, ok := t["auth"].(wamp.Dict)
	if !ok {
		return false
	}
	s, ok := a["preauth"].(string)
	return ok && s == authid
}

// OnWelcome fails when HELLO details carry "x_fail_welcome", else notes itself
// in the welcome details.
func (ks *bypassKeyStore) OnWelcome(authid string, welcome *wamp.Welcome, details wamp.Dict) error {
	if _, ok := details["x_fail_welcome"]; ok {
		return errors.New("key store refused")
	}
	welcome.Details["ks_note"] = "seen"
	return nil
}

// ---------------------------------------------------------------------------
// s-expression form of the configuration, as the model runner reads it

func sexpUser(u *UserCfg) string {
	role := "none"
	if u.Role != nil {
		role = hx(*u.Role)
	}
	var keys []string
	for _, m := range []string{"ticket", "wampcra", "cryptosign"} {
		if k := storedKey(u, m); k != nil {
			keys = append(keys, "("+hx(m)+" "+hx(string(k))+")")
		}
	}
	return fmt.Sprintf("(user %s %s (%s) %s %d %d)", hx(u.AuthID), role, strings.Join(keys, " "),
		hx(u.Salt), u.KeyLen, u.Iters)
}

func sexpKS(ks *KeyStoreCfg) string {
	var us []string
	for i := range ks.Users {
		us = append(us, sexpUser(&ks.Users[i]))
	}
	return fmt.Sprintf("(ks %s %s (%s))", hx(ks.Provider), bit(ks.Bypass), strings.Join(us, " "))
}

func sexpRealmCfg(rc *RealmCfg) string {
	var as []string
	for _, a := range rc.Auths {
		if a.Method == "anonymous" {
			as = append(as, "(anonymous "+hx(a.Role)+")")
		} else {
			as = append(as, "("+a.Method+" "+sexpKS(a.KS)+")")
		}
	}
	return fmt.Sprintf("(rc %s %s %s %s (%s))", bit(rc.Anonymous), bit(rc.LocalAuth), bit(rc.StrictURI),
		bit(rc.MetaStrict), strings.Join(as, " "))
}

func sexpRouter(rt *RouterCfg) string {
	var rs []string
	for i := range rt.Realms {
		rs = append(rs, "("+hx(rt.Realms[i].URI)+" "+sexpRealmCfg(&rt.Realms[i])+")")
	}
	t := "none"
	if rt.Template != nil {
		t = sexpRealmCfg(rt.Template)
	}
	return fmt.Sprintf("(router %s (realms%s) %s)", bit(rt.Closing || rt.Stopped), prefixSpace(rs), t)
}

func prefixSpace(l []string) string {
	if len(l) == 0 {
		return ""
	}
	return " " + strings.Join(l, " ")
}
