package main

import (
	"bytes"
	"errors"
	"net"
	"strings"
	"sync"
	"time"

	"github.com/gammazero/nexus/v3/transport"
	"github.com/gammazero/nexus/v3/wamp"
)

// websocket message types (RFC 6455 opcodes, as gorilla/websocket names them)
const (
	wsText   = 1
	wsBinary = 2
	wsClose  = 8
)

type wsMsg struct {
	typ  int
	data []byte
}

// fakeWS implements transport.WebsocketConnection: scripted reads, recorded writes.
type fakeWS struct {
	mu     sync.Mutex
	writes []wsMsg
	reads  chan wsMsg
	closed chan struct{}
	once   sync.Once
}

func newFakeWS() *fakeWS {
	return &fakeWS{reads: make(chan wsMsg, 64), closed: make(chan struct{})}
}

func (f *fakeWS) Close() error { f.once.Do(func() { close(f.closed) }); return nil }
func (f *fakeWS) WriteControl(messageType int, data []byte, deadline time.Time) error {
	return nil
}
func (f *fakeWS) WriteMessage(messageType int, data []byte) error {
	select {
	case <-f.closed:
		return errors.New("fakews: closed")
	default:
	}
	f.mu.Lock()
	f.writes = append(f.writes, wsMsg{messageType, append([]byte(nil), data...)})
	f.mu.Unlock()
	return nil
}
func (f *fakeWS) ReadMessage() (int, []byte, error) {
	select {
	case m, ok := <-f.reads:
		if !ok {
			return 0, nil, errors.New("fakews: end of script")
		}
		return m.typ, m.data, nil
	case <-f.closed:
		return 0, nil, errors.New("fakews: closed")
	}
}
func (f *fakeWS) SetPongHandler(h func(appData string) error) {}
func (f *fakeWS) SetPingHandler(h func(appData string) error) {}
func (f *fakeWS) Subprotocol() string                         { return "" }

func (f *fakeWS) Writes() []wsMsg {
	f.mu.Lock()
	defer f.mu.Unlock()
	return append([]wsMsg(nil), f.writes...)
}

// <id> ws_peer <ser>
// websocketPeer over a fake connection: one websocket message per WAMP
// message, of the payload type given; an unserializable message and an
// undecodable frame are dropped as a whole without disturbing their neighbours.
func kindWsPeer(id string, a []string) {
	serName := a[0]
	ser := serializerByName(serName)
	ptype := wsBinary
	if serName == "json" {
		ptype = wsText
	}
	f := newFakeWS()
	peer := transport.NewWebsocketPeer(f, ser, ptype, nullLog, 0, 8)
	m1, b1 := sizedMsg(ser, 300)
	bad := &wamp.Publish{Request: 7, Options: wamp.Dict{}, Topic: "t", Arguments: wamp.List{complex(1, 2)}}
	m2 := goodbye("w")
	b2, _ := ser.Serialize(m2)
	peer.Send() <- m1
	peer.Send() <- bad
	peer.Send() <- m2
	deadline := time.Now().Add(3 * time.Second)
	for time.Now().Before(deadline) && len(f.Writes()) < 2 {
		time.Sleep(time.Millisecond)
	}
	time.Sleep(5 * time.Millisecond)
	ws := f.Writes()
	sendOK := len(ws) == 2 && ws[0].typ == ptype && bytes.Equal(ws[0].data, b1) && ws[1].typ == ptype && bytes.Equal(ws[1].data, b2)

	// receive side
	h1, hb1 := sizedMsg(ser, 200)
	h2, hb2 := sizedMsg(ser, 201)
	var got []string
	done := make(chan struct{})
	go func() {
		defer close(done)
		for m := range peer.Recv() {
			if m == nil {
				got = append(got, "nil")
			} else {
				got = append(got, canonMsg(ser, m))
			}
		}
	}()
	f.reads <- wsMsg{ptype, hb1}
	f.reads <- wsMsg{ptype, []byte{0xc1, 0xff, 0x00, '{'}}
	f.reads <- wsMsg{ptype, hb2}
	f.reads <- wsMsg{wsClose, nil}
	rdClosed := true
	select {
	case <-done:
	case <-time.After(3 * time.Second):
		rdClosed = false
	}
	recvOK := rdClosed && len(got) == 2 && got[0] == canonMsg(ser, h1) && got[1] == canonMsg(ser, h2)
	var kinds []string
	for _, w := range ws {
		kinds = append(kinds, map[int]string{wsText: "text", wsBinary: "binary"}[w.typ])
	}
	emit(id, "send_ok=%v writes=%d types=%s recv_ok=%v delivered=%d rd_closed=%v", sendOK, len(ws), strings.Join(kinds, ","), recvOK, len(got), rdClosed)
	if rdClosed {
		peer.Close()
	}
}

// ---- in-memory listener for the websocket server (real gorilla framing) ----

type memListener struct {
	ch     chan net.Conn
	closed chan struct{}
	once   sync.Once
}

func newMemListener() *memListener {
	return &memListener{ch: make(chan net.Conn, 16), closed: make(chan struct{})}
}

func (l *memListener) Accept() (net.Conn, error) {
	select {
	case c := <-l.ch:
		return c, nil
	case <-l.closed:
		return nil, errors.New("memlistener: closed")
	}
}
func (l *memListener) Close() error   { l.once.Do(func() { close(l.closed) }); return nil }
func (l *memListener) Addr() net.Addr { return memAddr{} }

func (l *memListener) Dial(network, addr string) (net.Conn, error) {
	a, b := newConnPair()
	select {
	case l.ch <- b:
		return a, nil
	case <-l.closed:
		return nil, errors.New("memlistener: closed")
	}
}
