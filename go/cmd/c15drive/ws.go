package main

import (
	"bytes"
	"errors"
	"fmt"
	"net"
	"strings"
	"sync"
	"time"

	"github.com/gammazero/nexus/v3/transport"
	"github.com/gammazero/nexus/v3/wamp"
)

// websocket message types (RFC 6455 opcodes, as gorilla/websocket names them)
const (
	wsText   = 1
	wsBinary = 2
	wsClose  = 8
)

type wsMsg struct {
	typ  int
	data []byte
}

// fakeWS implements transport.WebsocketConnection: scripted reads, recorded writes.
type fakeWS struct {
	mu     sync.Mutex
	writes []wsMsg
	reads  chan wsMsg
	closed chan struct{}
	once   sync.Once
}

func newFakeWS() *fakeWS {
	return &fakeWS{reads: make(chan wsMsg, 64), closed: make(chan struct{})}
}

func (f *fakeWS) Close() error { f.once.Do(func() { close(f.closed) }); return nil }
func (f *fakeWS) WriteControl(messageType int, data []byte, deadline time.Time) error {
	return nil
}
func (f *fakeWS) WriteMessage(messageType int, data []byte) error {
	select {
	case <-f.closed:
		return errors.New("fakews: closed")
	default:
	}
	f.mu.Lock()
	f.writes = append(f.writes, wsMsg{messageType, append([]byte(nil), data...)})
	f.mu.Unlock()
	return nil
}
func (f *fakeWS) ReadMessage() (int, []byte, error) {
	select {
	case m, ok := <-f.reads:
		if !ok {
			return 0, nil, errors.New("fakews: end of script")
		}
		return m.typ, m.data, nil
	case <-f.closed:
		return 0, nil, errors.New("fakews: closed")
	}
}
func (f *fakeWS) SetPongHandler(h func(appData string) error) {}
func (f *fakeWS) SetPingHandler(h func(appData string) error) {}
func (f *fakeWS) Subprotocol() string                         { return "" }

func (f *fakeWS) Writes() []wsMsg {
	f.mu.Lock()
	defer f.mu.Unlock()
	return append([]wsMsg(nil), f.writes...)
}

// <id> ws_peer <ser> <keepalive 0|1> <pattern>
// websocketPeer over a fake connection, with the plain sender loop
// (keepalive 0) or the keep-alive one (1; the interval is an hour, no ping is
// due during the case).  pattern: one letter per message handed to Send(),
// G = an ordinary message, B = one the codec cannot encode (a complex number
// among the arguments).  Reports which messages reached the connection (one
// websocket message per WAMP message, of the payload type given), and on the
// receive side that an undecodable frame is dropped without disturbing its
// neighbours.
func kindWsPeer(id string, a []string) {
	serName, ka, pattern := a[0], a[1] == "1", a[2]
	ser := serializerByName(serName)
	ptype := wsBinary
	if serName == "json" {
		ptype = wsText
	}
	f := newFakeWS()
	var keep time.Duration
	if ka {
		keep = time.Hour
	}
	peer := transport.NewWebsocketPeer(f, ser, ptype, nullLog, keep, 16)
	var want [][]byte
	lastGood := -1
	for i, c := range pattern {
		if c == 'G' {
			m, b := sizedMsg(ser, 200+i)
			want = append(want, b)
			lastGood = i
			peer.Send() <- m
		} else {
			want = append(want, nil)
			peer.Send() <- &wamp.Publish{Request: wamp.ID(100 + i), Options: wamp.Dict{}, Topic: "t", Arguments: wamp.List{"x", complex(1, 2)}}
		}
	}
	// wait for the last ordinary message (a sender that has stopped never writes it)
	deadline := time.Now().Add(1500 * time.Millisecond)
	for time.Now().Before(deadline) {
		ws := f.Writes()
		if lastGood < 0 || (len(ws) > 0 && bytes.Equal(ws[len(ws)-1].data, want[lastGood])) {
			break
		}
		time.Sleep(time.Millisecond)
	}
	time.Sleep(5 * time.Millisecond)
	var sent, kinds []string
	for _, w := range f.Writes() {
		idx := "?"
		for i, b := range want {
			if b != nil && bytes.Equal(b, w.data) {
				idx = fmt.Sprint(i)
			}
		}
		sent = append(sent, idx)
		kinds = append(kinds, map[int]string{wsText: "text", wsBinary: "binary"}[w.typ])
	}
	if len(sent) == 0 {
		sent, kinds = []string{"-"}, []string{"-"}
	}

	// receive side
	h1, hb1 := sizedMsg(ser, 200)
	h2, hb2 := sizedMsg(ser, 201)
	var got []string
	done := make(chan struct{})
	go func() {
		defer close(done)
		for m := range peer.Recv() {
			if m == nil {
				got = append(got, "nil")
			} else {
				got = append(got, canonMsg(ser, m))
			}
		}
	}()
	f.reads <- wsMsg{ptype, hb1}
	f.reads <- wsMsg{ptype, []byte{0xc1, 0xff, 0x00, '{'}}
	f.reads <- wsMsg{ptype, hb2}
	f.reads <- wsMsg{wsClose, nil}
	rdClosed := true
	select {
	case <-done:
	case <-time.After(3 * time.Second):
		rdClosed = false
	}
	recvOK := rdClosed && len(got) == 2 && got[0] == canonMsg(ser, h1) && got[1] == canonMsg(ser, h2)
	emit(id, "sent=%s types=%s recv_ok=%v delivered=%d rd_closed=%v", strings.Join(sent, ","), strings.Join(kinds, ","), recvOK, len(got), rdClosed)
	if rdClosed {
		peer.Close()
	}
}

// ---- in-memory listener for the websocket server (real gorilla framing) ----

type memListener struct {
	ch     chan net.Conn
	closed chan struct{}
	once   sync.Once
}

func newMemListener() *memListener {
	return &memListener{ch: make(chan net.Conn, 16), closed: make(chan struct{})}
}

func (l *memListener) Accept() (net.Conn, error) {
	select {
	case c := <-l.ch:
		return c, nil
	case <-l.closed:
		return nil, errors.New("memlistener: closed")
	}
}
func (l *memListener) Close() error   { l.once.Do(func() { close(l.closed) }); return nil }
func (l *memListener) Addr() net.Addr { return memAddr{} }

func (l *memListener) Dial(network, addr string) (net.Conn, error) {
	a, b := newConnPair()
	select {
	case l.ch <- b:
		return a, nil
	case <-l.closed:
		return nil, errors.New("memlistener: closed")
	}
}
