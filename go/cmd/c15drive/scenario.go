package main

import (
	"context"
	"encoding/json"
	"fmt"
	"math"
	"net/http"
	"os"
	"path/filepath"
	"reflect"
	"sort"
	"strings"
	"time"

	"github.com/gammazero/nexus/v3/router"
	"github.com/gammazero/nexus/v3/transport"
	"github.com/gammazero/nexus/v3/wamp"
)

// ---- canonical values: numeric kinds are identified, maps are sorted ----

func canonValue(v interface{}) interface{} {
	if v == nil {
		return nil
	}
	rv := reflect.ValueOf(v)
	switch rv.Kind() {
	case reflect.Bool:
		return rv.Bool()
	case reflect.Int, reflect.Int8, reflect.Int16, reflect.Int32, reflect.Int64:
		return fmt.Sprintf("#%d", rv.Int())
	case reflect.Uint, reflect.Uint8, reflect.Uint16, reflect.Uint32, reflect.Uint64, reflect.Uintptr:
		return fmt.Sprintf("#%d", rv.Uint())
	case reflect.Float32, reflect.Float64:
		f := rv.Float()
		if f == math.Trunc(f) && math.Abs(f) < 1<<62 {
			return fmt.Sprintf("#%d", int64(f))
		}
		return fmt.Sprintf("#%g", f)
	case reflect.String:
		return rv.String()
	case reflect.Slice, reflect.Array:
		if rv.Kind() == reflect.Slice && rv.Type().Elem().Kind() == reflect.Uint8 {
			return fmt.Sprintf("bytes:%x", rv.Bytes())
		}
		out := make([]interface{}, rv.Len())
		for i := range out {
			out[i] = canonValue(rv.Index(i).Interface())
		}
		return out
	case reflect.Map:
		m := map[string]interface{}{}
		for _, k := range rv.MapKeys() {
			m[fmt.Sprint(k.Interface())] = canonValue(rv.MapIndex(k).Interface())
		}
		return m
	case reflect.Ptr, reflect.Interface:
		if rv.IsNil() {
			return nil
		}
		return canonValue(rv.Elem().Interface())
	}
	return fmt.Sprintf("?%T", v)
}

// empty containers and nil are the same thing on the wire (omitted trailing fields)
func canonContainer(v interface{}) interface{} {
	c := canonValue(v)
	switch x := c.(type) {
	case nil:
		return "∅"
	case []interface{}:
		if len(x) == 0 {
			return "∅"
		}
	case map[string]interface{}:
		if len(x) == 0 {
			return "∅"
		}
	}
	return c
}

// ---- sessions over the transport under test ----

type sess struct {
	name string
	peer wamp.Peer
	log  []interface{}
	dead bool          // a message that had to arrive did not: do not wait again
	evs  []interface{} // meta scenario: EVENTs, compared as a multiset
}

type idAliases struct {
	m map[string]string
	n map[string]int
}

func (a *idAliases) of(kind string, id wamp.ID) string {
	key := fmt.Sprintf("%s/%d", kind, id)
	if s, ok := a.m[key]; ok {
		return s
	}
	a.n[kind]++
	s := fmt.Sprintf("%s%d", kind, a.n[kind])
	a.m[key] = s
	return s
}

type world struct {
	r       router.Router
	cleanup []func()
	connect func() (wamp.Peer, error)
	al      *idAliases
}

// connectLocal attaches an in-process helper session (never the one under test).
func (w *world) connectLocal() wamp.Peer {
	c, rEnd := transport.LinkedPeers()
	go func() { _ = w.r.Attach(rEnd) }()
	return c
}

func newWorld(transportName, serName string) (*world, error) {
	w := &world{r: newRouter(), al: &idAliases{m: map[string]string{}, n: map[string]int{}}}
	w.cleanup = append(w.cleanup, w.r.Close)
	switch transportName {
	case "local":
		w.connect = func() (wamp.Peer, error) {
			c, rEnd := transport.LinkedPeers()
			go func() { _ = w.r.Attach(rEnd) }()
			return c, nil
		}
	case "rawsocket":
		srv := router.NewRawSocketServer(w.r)
		path := filepath.Join(workdir, fmt.Sprintf("s%d.sock", os.Getpid()))
		_ = os.Remove(path)
		closer, err := srv.ListenAndServe("unix", path)
		if err != nil {
			return nil, err
		}
		w.cleanup = append(w.cleanup, func() { closer.Close() })
		w.connect = func() (wamp.Peer, error) {
			ctx, cancel := context.WithTimeout(context.Background(), 5*time.Second)
			defer cancel()
			return transport.ConnectRawSocketPeer(ctx, "unix", path, serialization(serName), nil, nullLog, 0)
		}
	case "websocket", "websocket-ka":
		// -ka: both ends run the keep-alive sender loop (interval one hour: no
		// ping is due during a scenario)
		var keep time.Duration
		if transportName == "websocket-ka" {
			keep = time.Hour
		}
		srv := router.NewWebsocketServer(w.r)
		srv.KeepAlive = keep
		l := newMemListener()
		hs := &http.Server{Handler: srv}
		go hs.Serve(l) //nolint:errcheck
		w.cleanup = append(w.cleanup, func() { hs.Close(); l.Close() })
		w.connect = func() (wamp.Peer, error) {
			ctx, cancel := context.WithTimeout(context.Background(), 5*time.Second)
			defer cancel()
			return transport.ConnectWebsocketPeer(ctx, "ws://verif.mem/ws", serialization(serName), nil, nullLog,
				&transport.WebsocketConfig{Dial: l.Dial, KeepAlive: keep})
		}
	default:
		return nil, fmt.Errorf("unknown transport %s", transportName)
	}
	return w, nil
}

func (w *world) close() {
	for i := len(w.cleanup) - 1; i >= 0; i-- {
		w.cleanup[i]()
	}
}

// recvOne waits for the next message of a session.
func (s *sess) recvOne(d time.Duration) (wamp.Message, string) {
	select {
	case m, ok := <-s.peer.Recv():
		if !ok {
			return nil, "closed"
		}
		if m == nil {
			return nil, "nil"
		}
		return m, ""
	case <-time.After(d):
		return nil, "timeout"
	}
}

func (s *sess) note(v ...interface{}) { s.log = append(s.log, v) }

// observe turns a received message into its canonical observation.
func (w *world) observe(m wamp.Message) []interface{} {
	al := w.al
	switch x := m.(type) {
	case *wamp.Welcome:
		roles, _ := wamp.AsDict(x.Details["roles"])
		var rn []string
		for k := range roles {
			rn = append(rn, k)
		}
		sort.Strings(rn)
		return []interface{}{"WELCOME", al.of("session", x.ID), strings.Join(rn, ",")}
	case *wamp.Subscribed:
		return []interface{}{"SUBSCRIBED", canonValue(x.Request), al.of("sub", x.Subscription)}
	case *wamp.Unsubscribed:
		return []interface{}{"UNSUBSCRIBED", canonValue(x.Request)}
	case *wamp.Registered:
		return []interface{}{"REGISTERED", canonValue(x.Request), al.of("reg", x.Registration)}
	case *wamp.Unregistered:
		return []interface{}{"UNREGISTERED", canonValue(x.Request)}
	case *wamp.Published:
		return []interface{}{"PUBLISHED", canonValue(x.Request), al.of("pub", x.Publication)}
	case *wamp.Event:
		return []interface{}{"EVENT", al.of("sub", x.Subscription), al.of("pub", x.Publication), canonContainer(x.Details), canonContainer(x.Arguments), canonContainer(x.ArgumentsKw)}
	case *wamp.Invocation:
		return []interface{}{"INVOCATION", al.of("inv", x.Request), al.of("reg", x.Registration), canonContainer(x.Details), canonContainer(x.Arguments), canonContainer(x.ArgumentsKw)}
	case *wamp.Result:
		return []interface{}{"RESULT", canonValue(x.Request), canonContainer(x.Details), canonContainer(x.Arguments), canonContainer(x.ArgumentsKw)}
	case *wamp.Error:
		return []interface{}{"ERROR", canonValue(int(x.Type)), canonValue(x.Request), string(x.Error)}
	case *wamp.Goodbye:
		return []interface{}{"GOODBYE", string(x.Reason)}
	case *wamp.Abort:
		return []interface{}{"ABORT", string(x.Reason)}
	}
	return []interface{}{fmt.Sprintf("%T", m)}
}

// expect receives one message and logs its observation.
func (w *world) expect(s *sess) wamp.Message {
	for {
		if s.dead {
			s.note("<nothing>")
			return nil
		}
		m, why := s.recvOne(4 * time.Second)
		if m == nil {
			s.note("<" + why + ">")
			s.dead = true
			return nil
		}
		// a message carrying a value no codec can encode only ever reaches an
		// in-process session (nothing is serialized on the way); over a
		// network transport it is dropped as a whole.  It is left out of the
		// observation so that the two can be compared.
		if carriesUnserialisable(m) {
			continue
		}
		s.log = append(s.log, w.observe(m))
		return m
	}
}

func hasComplex(v interface{}) bool {
	if v == nil {
		return false
	}
	rv := reflect.ValueOf(v)
	switch rv.Kind() {
	case reflect.Complex64, reflect.Complex128:
		return true
	case reflect.Slice, reflect.Array:
		for i := 0; i < rv.Len(); i++ {
			if hasComplex(rv.Index(i).Interface()) {
				return true
			}
		}
	case reflect.Map:
		for _, k := range rv.MapKeys() {
			if hasComplex(rv.MapIndex(k).Interface()) {
				return true
			}
		}
	case reflect.Ptr, reflect.Interface:
		if !rv.IsNil() {
			return hasComplex(rv.Elem().Interface())
		}
	}
	return false
}

func carriesUnserialisable(m wamp.Message) bool {
	switch x := m.(type) {
	case *wamp.Event:
		return hasComplex(x.Arguments) || hasComplex(x.ArgumentsKw)
	case *wamp.Invocation:
		return hasComplex(x.Arguments) || hasComplex(x.ArgumentsKw)
	case *wamp.Result:
		return hasComplex(x.Arguments) || hasComplex(x.ArgumentsKw)
	}
	return false
}

// unserialisable: a payload with a complex number somewhere inside
func unserialisablePayload() wamp.List {
	bad := interface{}(complex(1, 2))
	if payloadSeed == 0 {
		return wamp.List{"bad", wamp.Dict{"deep": wamp.List{1, bad}}}
	}
	g := &pgen{s: payloadSeed ^ 0x5bd1e995}
	var v interface{} = bad
	for d := int(g.next() % 3); d > 0; d-- {
		if g.next()%2 == 0 {
			v = wamp.List{g.value(2), v}
		} else {
			v = wamp.Dict{"in": v, "o": g.value(2)}
		}
	}
	return wamp.List{g.value(1), v}
}

func (w *world) silent(s *sess) {
	if s.dead {
		s.note("<nothing>")
		return
	}
	m, why := s.recvOne(80 * time.Millisecond)
	for m != nil && carriesUnserialisable(m) {
		m, why = s.recvOne(80 * time.Millisecond)
	}
	if why == "timeout" {
		s.note("<silent>")
		return
	}
	if m != nil {
		s.log = append(s.log, append([]interface{}{"UNEXPECTED"}, w.observe(m)...))
		return
	}
	s.note("<" + why + ">")
}

// payload seed: 0 = the fixed payload; otherwise values generated from the seed
var payloadSeed uint64

func payloadArgs() wamp.List {
	if payloadSeed != 0 {
		g := &pgen{s: payloadSeed}
		n := 1 + int(g.next()%6)
		l := wamp.List{}
		for i := 0; i < n; i++ {
			l = append(l, g.value(0))
		}
		return l
	}
	return wamp.List{42, -7, int64(1) << 40, "héllo wörld", true, nil, 1.5,
		wamp.List{1, "two", wamp.List{3}}, wamp.Dict{"k": 1, "n": wamp.Dict{"x": "y"}, "l": wamp.List{}}}
}

func payloadKw() wamp.Dict {
	if payloadSeed != 0 {
		g := &pgen{s: payloadSeed ^ 0x9e3779b97f4a7c15}
		d := wamp.Dict{}
		for i := 0; i < 1+int(g.next()%4); i++ {
			d[fmt.Sprintf("k%d", i)] = g.value(0)
		}
		return d
	}
	return wamp.Dict{"count": 3, "name": "kw", "nested": wamp.Dict{"list": wamp.List{1, 2, 3}}, "big": uint64(1) << 52}
}

// pgen: splitmix64-driven generator of WAMP values every serializer carries
// exactly (integers up to 2^53 in magnitude, halves, strings, bool, nil,
// nested lists and dicts)
type pgen struct{ s uint64 }

func (g *pgen) next() uint64 {
	g.s += 0x9e3779b97f4a7c15
	z := g.s
	z = (z ^ (z >> 30)) * 0xbf58476d1ce4e5b9
	z = (z ^ (z >> 27)) * 0x94d049bb133111eb
	return z ^ (z >> 31)
}

func (g *pgen) value(depth int) interface{} {
	k := g.next() % 10
	if depth >= 3 && k >= 8 {
		k = 0
	}
	switch k {
	case 0:
		return int(g.next() % 200)
	case 1:
		return -int64(g.next() % (1 << 31))
	case 2:
		bounds := []int64{1 << 31, 1<<31 - 1, 1 << 32, 1<<32 + 1, 1 << 53, 1<<53 - 1, -(1 << 31) - 1, 255, 256, 65535, 65536}
		return bounds[g.next()%uint64(len(bounds))]
	case 3:
		return uint64(g.next() % (1 << 53))
	case 4:
		return float64(int64(g.next()%2000)-1000) + 0.5
	case 5:
		words := []string{"", "a", "héllo", "日本語", "with \"quotes\" and \\", "line\nbreak", strings.Repeat("x", int(g.next()%300))}
		return words[g.next()%uint64(len(words))]
	case 6:
		return g.next()%2 == 0
	case 7:
		return nil
	case 8:
		l := wamp.List{}
		for i := 0; i < int(g.next()%4); i++ {
			l = append(l, g.value(depth+1))
		}
		return l
	default:
		d := wamp.Dict{}
		for i := 0; i < int(g.next()%4); i++ {
			d[fmt.Sprintf("f%d", i)] = g.value(depth + 1)
		}
		return d
	}
}

// <id> scenario <transport> <serializer> [<payload seed>]
func kindScenario(id string, a []string) {
	payloadSeed = 0
	if len(a) > 2 {
		payloadSeed = uint64(atoi(a[2]))
	}
	w, err := newWorld(a[0], a[1])
	if err != nil {
		emit(id, "setup=fail %v", err)
		return
	}
	defer w.close()
	var ss []*sess
	for _, n := range []string{"A", "B"} {
		p, err := w.connect()
		if err != nil {
			emit(id, "connect=fail %v", err)
			return
		}
		ss = append(ss, &sess{name: n, peer: p})
	}
	A, B := ss[0], ss[1]
	send := func(s *sess, m wamp.Message) { s.peer.Send() <- m }

	// join
	send(A, helloMsg())
	wa, _ := w.expect(A).(*wamp.Welcome)
	send(B, helloMsg())
	w.expect(B)
	// subscribe / register
	send(A, &wamp.Subscribe{Request: 1, Options: wamp.Dict{}, Topic: "verif.topic"})
	sub, _ := w.expect(A).(*wamp.Subscribed)
	send(A, &wamp.Register{Request: 2, Options: wamp.Dict{}, Procedure: "verif.proc"})
	w.expect(A)
	// publish with acknowledgement
	send(B, &wamp.Publish{Request: 3, Options: wamp.Dict{"acknowledge": true}, Topic: "verif.topic", Arguments: payloadArgs(), ArgumentsKw: payloadKw()})
	w.expect(B)
	w.expect(A)
	// messages no codec can encode are dropped as a whole and the following
	// ones still arrive, in order: (1) from an in-process publisher, so that
	// the router-side sender of A's transport meets them; (2) from B itself,
	// so that B's own sender does
	L := &sess{name: "L", peer: w.connectLocal()}
	send(L, helloMsg())
	if m, _ := L.recvOne(4 * time.Second); m == nil {
		A.note("<helper session did not join>")
	}
	nBad := 1
	if payloadSeed != 0 {
		nBad = 1 + int(payloadSeed%3)
	}
	for i := 0; i < nBad; i++ {
		send(L, &wamp.Publish{Request: wamp.ID(100 + i), Options: wamp.Dict{}, Topic: "verif.topic", Arguments: unserialisablePayload()})
		send(L, &wamp.Publish{Request: wamp.ID(200 + i), Options: wamp.Dict{}, Topic: "verif.topic", Arguments: wamp.List{"after", i}})
	}
	for i := 0; i < nBad; i++ {
		w.expect(A)
	}
	send(B, &wamp.Publish{Request: 20, Options: wamp.Dict{}, Topic: "verif.topic", Arguments: unserialisablePayload()})
	send(B, &wamp.Publish{Request: 21, Options: wamp.Dict{"acknowledge": true}, Topic: "verif.topic", Arguments: wamp.List{"after-own"}})
	w.expect(B)
	w.expect(A)
	// call / invocation / yield / result
	send(B, &wamp.Call{Request: 4, Options: wamp.Dict{}, Procedure: "verif.proc", Arguments: payloadArgs(), ArgumentsKw: payloadKw()})
	if inv, ok := w.expect(A).(*wamp.Invocation); ok {
		send(A, &wamp.Yield{Request: inv.Request, Options: wamp.Dict{}, Arguments: wamp.List{inv.Arguments, "done"}, ArgumentsKw: inv.ArgumentsKw})
	}
	w.expect(B)
	// call to nowhere
	send(B, &wamp.Call{Request: 5, Options: wamp.Dict{}, Procedure: "verif.nowhere"})
	w.expect(B)
	// meta procedures taking and returning numbers
	send(B, &wamp.Call{Request: 6, Options: wamp.Dict{}, Procedure: wamp.MetaProcSessionCount})
	w.expect(B)
	send(B, &wamp.Call{Request: 7, Options: wamp.Dict{}, Procedure: wamp.MetaProcSubLookup, Arguments: wamp.List{"verif.topic"}})
	if r, ok := w.expect(B).(*wamp.Result); ok && sub != nil && len(r.Arguments) == 1 {
		if got, ok := wamp.AsID(r.Arguments[0]); !ok || got != sub.Subscription {
			B.note("lookup-mismatch")
		}
		B.log[len(B.log)-1] = []interface{}{"RESULT", "#7", "∅", []interface{}{w.al.of("sub", sub.Subscription)}, "∅"}
	}
	if sub != nil {
		send(B, &wamp.Call{Request: 8, Options: wamp.Dict{}, Procedure: wamp.MetaProcSubCountSubscribers, Arguments: wamp.List{sub.Subscription}})
		w.expect(B)
	}
	if wa != nil {
		send(B, &wamp.Call{Request: 9, Options: wamp.Dict{}, Procedure: wamp.MetaProcSessionGet, Arguments: wamp.List{wa.ID}})
		if r, ok := w.expect(B).(*wamp.Result); ok && len(r.Arguments) == 1 {
			d, _ := wamp.AsDict(r.Arguments[0])
			sid, _ := wamp.AsID(d["session"])
			// authrole / authmethod / transport details legitimately depend on how the
			// session is attached (local peers are trusted): not part of this property
			B.log[len(B.log)-1] = []interface{}{"RESULT", "#9", "session_get", w.al.of("session", sid)}
		}
	}
	// leave the topic and the procedure; then nothing more arrives
	if sub != nil {
		send(A, &wamp.Unsubscribe{Request: 10, Subscription: sub.Subscription})
		w.expect(A)
	}
	send(B, &wamp.Publish{Request: 11, Options: wamp.Dict{"acknowledge": true}, Topic: "verif.topic", Arguments: wamp.List{1}})
	w.expect(B)
	w.silent(A)
	// goodbye
	send(A, &wamp.Goodbye{Reason: wamp.CloseRealm, Details: wamp.Dict{}})
	w.leave(A)
	send(B, &wamp.Goodbye{Reason: wamp.CloseRealm, Details: wamp.Dict{}})
	w.leave(B)
	A.peer.Close()
	B.peer.Close()
	L.peer.Close()

	obs := map[string]interface{}{"A": A.log, "B": B.log}
	js, _ := json.Marshal(obs)
	emit(id, "obs=%s", string(js))
}
