package main

import (
	"errors"
	"io"
	"net"
	"os"
	"sync"
	"time"
)

// half is one direction of an in-memory connection: an unbounded byte queue.
type half struct {
	mu            sync.Mutex
	cond          *sync.Cond
	buf           []byte
	wclosed       bool // writer side closed (reader sees EOF after draining)
	rclosed       bool // reader side closed (writer gets an error)
	readerWaiting bool // a Read is blocked on an empty queue
	total         int  // bytes ever written
	rdeadline     time.Time
	dtimer        *time.Timer
}

func newHalf() *half {
	h := &half{}
	h.cond = sync.NewCond(&h.mu)
	return h
}

// writeRec is one Write call as the wire saw it.
type writeRec struct {
	n    int
	data []byte // copy of the bytes (truncated to keep for large writes)
	full bool
}

// memConn is one end of an in-memory duplex connection implementing net.Conn.
// Every Write call is recorded; a Write for which hold returns true blocks
// until Release is called (the bytes reach the wire only then).
type memConn struct {
	rd, wr *half
	name   string

	mu       sync.Mutex
	closed   bool
	writes   []writeRec
	hold     func(b []byte) bool
	holding  bool
	release  chan struct{}
	heldOnce chan struct{}
}

func newConnPair() (*memConn, *memConn) {
	ab, ba := newHalf(), newHalf()
	a := &memConn{rd: ba, wr: ab, name: "A", release: make(chan struct{}), heldOnce: make(chan struct{})}
	b := &memConn{rd: ab, wr: ba, name: "B", release: make(chan struct{}), heldOnce: make(chan struct{})}
	return a, b
}

var errClosed = errors.New("memconn: use of closed connection")

func (c *memConn) Read(p []byte) (int, error) {
	h := c.rd
	h.mu.Lock()
	defer h.mu.Unlock()
	for len(h.buf) == 0 {
		if h.rclosed {
			return 0, errClosed
		}
		if h.wclosed {
			return 0, io.EOF
		}
		if !h.rdeadline.IsZero() && !time.Now().Before(h.rdeadline) {
			return 0, os.ErrDeadlineExceeded
		}
		h.readerWaiting = true
		h.cond.Broadcast()
		h.cond.Wait()
		h.readerWaiting = false
	}
	n := copy(p, h.buf)
	h.buf = h.buf[n:]
	if len(h.buf) == 0 {
		h.buf = nil
	}
	h.cond.Broadcast()
	return n, nil
}

func (c *memConn) Write(p []byte) (int, error) {
	c.mu.Lock()
	if c.closed {
		c.mu.Unlock()
		return 0, errClosed
	}
	holdIt := c.hold != nil && c.hold(p)
	if holdIt {
		c.hold = nil
		c.holding = true
	}
	c.mu.Unlock()
	if holdIt {
		close(c.heldOnce)
		<-c.release
		c.mu.Lock()
		c.holding = false
		c.mu.Unlock()
	}
	h := c.wr
	h.mu.Lock()
	defer h.mu.Unlock()
	if h.rclosed || h.wclosed {
		return 0, errClosed
	}
	rec := writeRec{n: len(p), full: len(p) <= 64}
	if rec.full {
		rec.data = append([]byte(nil), p...)
	} else {
		rec.data = append([]byte(nil), p[:16]...)
	}
	c.mu.Lock()
	c.writes = append(c.writes, rec)
	c.mu.Unlock()
	h.buf = append(h.buf, p...)
	h.total += len(p)
	h.cond.Broadcast()
	return len(p), nil
}

// Close closes both directions, like closing a socket.
func (c *memConn) Close() error {
	c.mu.Lock()
	if c.closed {
		c.mu.Unlock()
		return errClosed
	}
	c.closed = true
	c.mu.Unlock()
	c.wr.mu.Lock()
	c.wr.wclosed = true
	c.wr.cond.Broadcast()
	c.wr.mu.Unlock()
	c.rd.mu.Lock()
	c.rd.rclosed = true
	c.rd.cond.Broadcast()
	c.rd.mu.Unlock()
	return nil
}

// CloseWrite half-closes: the other end reads EOF after the queued bytes.
func (c *memConn) CloseWrite() {
	c.wr.mu.Lock()
	c.wr.wclosed = true
	c.wr.cond.Broadcast()
	c.wr.mu.Unlock()
}

func (c *memConn) IsClosed() bool {
	c.mu.Lock()
	defer c.mu.Unlock()
	return c.closed
}

// Release lets a held Write proceed.
func (c *memConn) Release() {
	select {
	case <-c.release:
	default:
		close(c.release)
	}
}

func (c *memConn) Writes() []writeRec {
	c.mu.Lock()
	defer c.mu.Unlock()
	return append([]writeRec(nil), c.writes...)
}

// waitPeerIdle waits until the OTHER end has consumed everything this end
// wrote and is blocked in Read (or has closed), i.e. its reader goroutine is
// quiescent.  Returns false on timeout.
func (c *memConn) waitPeerIdle(d time.Duration) bool {
	h := c.wr
	deadline := time.Now().Add(d)
	stop := time.AfterFunc(d, func() {
		h.mu.Lock()
		h.cond.Broadcast()
		h.mu.Unlock()
	})
	defer stop.Stop()
	h.mu.Lock()
	defer h.mu.Unlock()
	for {
		if h.rclosed || (len(h.buf) == 0 && h.readerWaiting) {
			return true
		}
		if time.Now().After(deadline) {
			return false
		}
		h.cond.Wait()
	}
}

// readAvailable returns the bytes queued for this end without blocking.
func (c *memConn) readAvailable() []byte {
	h := c.rd
	h.mu.Lock()
	defer h.mu.Unlock()
	b := h.buf
	h.buf = nil
	return b
}

// readFullTimeout reads exactly n bytes or gives up.
func (c *memConn) readFullTimeout(n int, d time.Duration) ([]byte, bool) {
	h := c.rd
	deadline := time.Now().Add(d)
	stop := time.AfterFunc(d, func() {
		h.mu.Lock()
		h.cond.Broadcast()
		h.mu.Unlock()
	})
	defer stop.Stop()
	h.mu.Lock()
	defer h.mu.Unlock()
	for len(h.buf) < n {
		if h.wclosed || h.rclosed || time.Now().After(deadline) {
			return nil, false
		}
		h.cond.Wait()
	}
	b := append([]byte(nil), h.buf[:n]...)
	h.buf = h.buf[n:]
	return b, true
}

// peerClosedWrite: the other end closed (we would read EOF after draining).
func (c *memConn) peerClosed() bool {
	h := c.rd
	h.mu.Lock()
	defer h.mu.Unlock()
	return h.wclosed
}

type memAddr struct{}

func (memAddr) Network() string { return "mem" }
func (memAddr) String() string  { return "mem" }

func (c *memConn) LocalAddr() net.Addr                { return memAddr{} }
func (c *memConn) RemoteAddr() net.Addr               { return memAddr{} }
func (c *memConn) SetDeadline(t time.Time) error      { return c.SetReadDeadline(t) }
func (c *memConn) SetWriteDeadline(t time.Time) error { return nil }

// SetReadDeadline: net/http relies on it to abort its background read when a
// connection is hijacked (websocket upgrade).
func (c *memConn) SetReadDeadline(t time.Time) error {
	h := c.rd
	h.mu.Lock()
	defer h.mu.Unlock()
	h.rdeadline = t
	if h.dtimer != nil {
		h.dtimer.Stop()
		h.dtimer = nil
	}
	if !t.IsZero() {
		d := time.Until(t)
		if d <= 0 {
			h.cond.Broadcast()
		} else {
			h.dtimer = time.AfterFunc(d, func() {
				h.mu.Lock()
				h.cond.Broadcast()
				h.mu.Unlock()
			})
		}
	}
	return nil
}
