package main

import (
	"fmt"
	"io"
	"net"
	"os"
	"path/filepath"
	"time"

	"github.com/gammazero/nexus/v3/router"
	"github.com/gammazero/nexus/v3/transport/serialize"
	"github.com/gammazero/nexus/v3/wamp"
)

const realmURI = "verif.realm"

func newRouter() router.Router {
	r, err := router.NewRouter(&router.Config{
		RealmConfigs: []*router.RealmConfig{{URI: realmURI, AnonymousAuth: true, AllowDisclose: true}},
	}, nullLog)
	if err != nil {
		panic(err)
	}
	return r
}

func helloMsg() *wamp.Hello {
	return &wamp.Hello{Realm: realmURI, Details: wamp.Dict{
		"roles": wamp.Dict{"publisher": wamp.Dict{}, "subscriber": wamp.Dict{}, "caller": wamp.Dict{}, "callee": wamp.Dict{}},
	}}
}

// join performs the rawsocket handshake and the WAMP HELLO/WELCOME on c.
func join(c net.Conn, ser serialize.Serializer, b1 byte) (reply []byte, welcome bool) {
	_, _ = c.Write([]byte{0x7f, b1, 0, 0})
	reply, ok := netEnd{c}.readFull(4, 3*time.Second)
	if !ok {
		return nil, false
	}
	hb, _ := ser.Serialize(helloMsg())
	_, _ = c.Write(frameBytes(0, hb))
	_, body, ok := readFrame(netEnd{c}, 3*time.Second)
	if !ok {
		return reply, false
	}
	m, err := ser.Deserialize(body)
	if err != nil {
		return reply, false
	}
	_, isW := m.(*wamp.Welcome)
	return reply, isW
}

// <id> router_recv <ser> <cfg recv limit> <hex stream>
// a real router behind router.RawSocketServer on a unix socket: handshake,
// HELLO/WELCOME, then the stream; is the connection closed, does anything come
// back, and is the router still alive for a second client afterwards?
func kindRouterRecv(id string, a []string) {
	serName, cfg, stream := a[0], atoi(a[1]), unhex(a[2])
	ser := serializerByName(serName)
	r := newRouter()
	defer r.Close()
	srv := router.NewRawSocketServer(r)
	srv.RecvLimit = cfg
	path := filepath.Join(workdir, fmt.Sprintf("r%d.sock", os.Getpid()))
	_ = os.Remove(path)
	closer, err := srv.ListenAndServe("unix", path)
	if err != nil {
		emit(id, "listen=fail %v", err)
		return
	}
	defer closer.Close()
	c, err := net.Dial("unix", path)
	if err != nil {
		emit(id, "dial=fail")
		return
	}
	defer c.Close()
	b1 := byte(0xf0) | serByte(serName)
	reply, welcome := join(c, ser, b1)
	if !welcome {
		emit(id, "reply=%s welcome=false", hexs(reply))
		return
	}
	_, _ = c.Write(stream)
	// collect what comes back until the peer closes or stays silent
	var back []byte
	closed := false
	buf := make([]byte, 4096)
	for {
		_ = c.SetReadDeadline(time.Now().Add(1200 * time.Millisecond))
		n, err := c.Read(buf)
		back = append(back, buf[:n]...)
		if err == io.EOF {
			closed = true
			break
		}
		if err != nil {
			if ne, ok := err.(net.Error); ok && ne.Timeout() {
				break
			}
			closed = true
			break
		}
		if len(back) > 1<<16 {
			break
		}
	}
	// liveness: a second client can still join
	alive := false
	if c2, err := net.Dial("unix", path); err == nil {
		_, alive = join(c2, ser, b1)
		c2.Close()
	}
	if len(back) > 1<<16 {
		back = back[:1<<16]
	}
	emit(id, "reply=%s welcome=true back=%s closed=%v alive=%v", hexs(reply), hexs(back), closed, alive)
}
