package main

import (
	"bytes"
	"context"
	"fmt"
	"io"
	"net"
	"os"
	"path/filepath"
	"strings"
	"sync"
	"time"

	"github.com/gammazero/nexus/v3/transport"
	"github.com/gammazero/nexus/v3/transport/serialize"
	"github.com/gammazero/nexus/v3/wamp"
)

// wireEnd is the harness's end of a connection to the peer under test.
type wireEnd interface {
	Write(b []byte) (int, error)
	readFull(n int, d time.Duration) ([]byte, bool)
	drain() // discard whatever the peer still writes, so that it can be closed
}

func (c *memConn) drain() {}

func (e netEnd) drain() {
	_ = e.c.SetReadDeadline(time.Time{})
	go io.Copy(io.Discard, e.c) //nolint:errcheck
}

func (c *memConn) readFull(n int, d time.Duration) ([]byte, bool) { return c.readFullTimeout(n, d) }

type netEnd struct{ c net.Conn }

func (e netEnd) Write(b []byte) (int, error) { return e.c.Write(b) }
func (e netEnd) readFull(n int, d time.Duration) ([]byte, bool) {
	_ = e.c.SetReadDeadline(time.Now().Add(d))
	b := make([]byte, n)
	if _, err := io.ReadFull(e.c, b); err != nil {
		return nil, false
	}
	return b, true
}

// readFrame reads one rawsocket frame from the peer under test.
func readFrame(w wireEnd, d time.Duration) (hdr, body []byte, ok bool) {
	hdr, ok = w.readFull(4, d)
	if !ok {
		return nil, nil, false
	}
	n := int(hdr[1])<<16 | int(hdr[2])<<8 | int(hdr[3])
	if n == 0 {
		return hdr, nil, true
	}
	body, ok = w.readFull(n, d)
	return hdr, body, ok
}

type acceptResult struct {
	peer wamp.Peer
	err  error
}

// acceptOn runs transport.AcceptRawSocket on the server end of a fresh
// in-memory connection after the harness end has written input.
func acceptOn(cfg int, input []byte, eof bool) (wamp.Peer, error, *memConn, *memConn, bool) {
	h, s := newConnPair()
	if len(input) > 0 {
		_, _ = h.Write(input)
	}
	if eof {
		h.CloseWrite()
	}
	ch := make(chan acceptResult, 1)
	go func() {
		p, err := transport.AcceptRawSocket(s, nullLog, cfg, 8)
		ch <- acceptResult{p, err}
	}()
	select {
	case r := <-ch:
		return r.peer, r.err, h, s, true
	case <-time.After(5 * time.Second):
		return nil, nil, h, s, false
	}
}

func goodbye(tag string) wamp.Message {
	return &wamp.Goodbye{Reason: wamp.URI("verif.sentinel." + tag), Details: wamp.Dict{}}
}

// <id> hs_server <cfg> <hex input>
func kindHsServer(id string, a []string) {
	cfg, input := atoi(a[0]), unhex(a[1])
	peer, err, h, s, ok := acceptOn(cfg, input, true && len(input) < 4)
	if !ok {
		emit(id, "result=hang")
		return
	}
	written := h.readAvailable()
	if err != nil || peer == nil {
		emit(id, "result=err written=%s closed=%v", hexs(written), s.IsClosed())
		return
	}
	// which serializer does the peer use?
	peer.Send() <- goodbye("x")
	_, body, okf := readFrame(h, 3*time.Second)
	ser := "none"
	if okf {
		ser = detectSer(body)
	}
	emit(id, "result=peer written=%s ser=%s", hexs(written), ser)
	peer.Close()
}

// probeSend pushes messages of the given serialized sizes through peer.Send()
// and reports what reached the wire.
func probeSend(peer wamp.Peer, w wireEnd, ser serialize.Serializer, sizes []int) string {
	var res []string
	for i, size := range sizes {
		msg, b := sizedMsg(ser, size)
		sentinel := goodbye(fmt.Sprint(i))
		sb, _ := ser.Serialize(sentinel)
		// a client-side peer has an unbuffered send queue and a real socket
		// has a bounded buffer: feed the peer while the wire is being read
		go func() {
			peer.Send() <- msg
			peer.Send() <- sentinel
		}()
		verdict := "dropped"
		for {
			hdr, body, ok := readFrame(w, 20*time.Second)
			if !ok {
				verdict += "+wire-stalled"
				res = append(res, fmt.Sprintf("%d:%s", size, verdict))
				w.drain()
				return strings.Join(res, ";")
			}
			if bytes.Equal(body, sb) && hdr[0] == 0 {
				break
			}
			if bytes.Equal(body, b) {
				verdict = "sent:" + hexs(hdr)
				continue
			}
			verdict = "garbled:" + hexs(hdr)
			res = append(res, fmt.Sprintf("%d:%s", size, verdict))
			w.drain()
			return strings.Join(res, ";")
		}
		res = append(res, fmt.Sprintf("%d:%s", size, verdict))
	}
	if len(res) == 0 {
		return "-"
	}
	return strings.Join(res, ";")
}

// probeRecv writes message frames of the given sizes to the peer and reports
// whether each was delivered intact or the peer closed.
func probeRecv(peer wamp.Peer, w wireEnd, ser serialize.Serializer, sizes []int) string {
	var res []string
	for _, size := range sizes {
		_, b := sizedMsg(ser, size)
		want, _ := canon(ser, b)
		if _, err := w.Write(frameBytes(0, b)); err != nil {
			// the peer may close as soon as it has seen the header: a failed
			// write of the rest is the same observation as "closed"
			verdict := "write-error"
			select {
			case _, ok := <-peer.Recv():
				if !ok {
					verdict = "closed"
				}
			case <-time.After(5 * time.Second):
			}
			res = append(res, fmt.Sprintf("%d:%s", size, verdict))
			break
		}
		select {
		case m, ok := <-peer.Recv():
			switch {
			case !ok:
				res = append(res, fmt.Sprintf("%d:closed", size))
				return strings.Join(res, ";")
			case m == nil:
				res = append(res, fmt.Sprintf("%d:nil", size))
			case canonMsg(ser, m) == want:
				res = append(res, fmt.Sprintf("%d:delivered", size))
			default:
				res = append(res, fmt.Sprintf("%d:wrong", size))
			}
		case <-time.After(20 * time.Second):
			res = append(res, fmt.Sprintf("%d:timeout", size))
			return strings.Join(res, ";")
		}
	}
	if len(res) == 0 {
		return "-"
	}
	return strings.Join(res, ";")
}

func csvInts(s string) []int {
	if s == "-" || s == "" {
		return nil
	}
	var r []int
	for _, x := range strings.Split(s, ",") {
		r = append(r, atoi(x))
	}
	return r
}

// <id> limits_server <cfg> <b1> <send sizes csv> <recv sizes csv>
func kindLimitsServer(id string, a []string) {
	cfg, b1 := atoi(a[0]), byte(atoi(a[1]))
	peer, err, h, _, ok := acceptOn(cfg, []byte{0x7f, b1, 0, 0}, false)
	if !ok || err != nil || peer == nil {
		emit(id, "hs=fail")
		return
	}
	h.readAvailable()
	ser := serializerByName(fmt.Sprint(b1 & 0xf))
	s1 := probeSend(peer, h, ser, csvInts(a[2]))
	s2 := probeRecv(peer, h, ser, csvInts(a[3]))
	emit(id, "hs=ok send=%s recv=%s", s1, s2)
	peer.Close()
}

// ---- client side over a unix socket (ConnectRawSocketPeer dials) ----

var (
	lnOnce sync.Once
	ln     net.Listener
	lnPath string
)

func listener() net.Listener {
	lnOnce.Do(func() {
		lnPath = filepath.Join(workdir, fmt.Sprintf("c%d.sock", os.Getpid()))
		_ = os.Remove(lnPath)
		var err error
		ln, err = net.Listen("unix", lnPath)
		if err != nil {
			panic(err)
		}
	})
	return ln
}

type connectResult struct {
	peer wamp.Peer
	err  error
}

// dialClient starts ConnectRawSocketPeer and plays the server end by script.
func dialClient(proto string, cfg int, reply []byte) (hello []byte, res connectResult, c net.Conn, ok bool) {
	l := listener()
	ch := make(chan connectResult, 1)
	go func() {
		ctx, cancel := context.WithTimeout(context.Background(), 5*time.Second)
		defer cancel()
		p, err := transport.ConnectRawSocketPeer(ctx, "unix", lnPath, serialization(proto), nil, nullLog, cfg)
		ch <- connectResult{p, err}
	}()
	c, err := l.Accept()
	if err != nil {
		return nil, connectResult{}, nil, false
	}
	hello, okh := netEnd{c}.readFull(4, 3*time.Second)
	if !okh {
		return nil, connectResult{}, c, false
	}
	if len(reply) > 0 {
		_, _ = c.Write(reply)
	}
	if len(reply) < 4 {
		if uc, isU := c.(*net.UnixConn); isU {
			_ = uc.CloseWrite()
		}
	}
	select {
	case res = <-ch:
		return hello, res, c, true
	case <-time.After(6 * time.Second):
		return hello, connectResult{}, c, false
	}
}

// <id> hs_client <proto> <cfg> <hex reply>
func kindHsClient(id string, a []string) {
	hello, res, c, ok := dialClient(a[0], atoi(a[1]), unhex(a[2]))
	if c != nil {
		defer c.Close()
	}
	if !ok {
		emit(id, "result=hang written=%s", hexs(hello))
		return
	}
	if res.err != nil || res.peer == nil {
		// did the client close the connection?
		_ = c.SetReadDeadline(time.Now().Add(2 * time.Second))
		var one [1]byte
		_, err := c.Read(one[:])
		emit(id, "result=err written=%s closed=%v", hexs(hello), err == io.EOF)
		return
	}
	res.peer.Send() <- goodbye("x")
	_, body, okf := readFrame(netEnd{c}, 3*time.Second)
	ser := "none"
	if okf {
		ser = detectSer(body)
	}
	emit(id, "result=peer written=%s ser=%s", hexs(hello), ser)
	res.peer.Close()
}

// <id> limits_client <proto> <cfg> <hex reply> <send sizes csv> <recv sizes csv>
func kindLimitsClient(id string, a []string) {
	_, res, c, ok := dialClient(a[0], atoi(a[1]), unhex(a[2]))
	if c != nil {
		defer c.Close()
	}
	if !ok || res.err != nil || res.peer == nil {
		emit(id, "hs=fail")
		return
	}
	ser := serializerByName(a[0])
	s1 := probeSend(res.peer, netEnd{c}, ser, csvInts(a[3]))
	s2 := probeRecv(res.peer, netEnd{c}, ser, csvInts(a[4]))
	emit(id, "hs=ok send=%s recv=%s", s1, s2)
	res.peer.Close()
}

// <id> recv <ser> <cfg> <nibble> <hex stream>
// the receive loop of a server-side peer on an arbitrary byte stream
func kindRecv(id string, a []string) {
	serName, cfg, nib, stream := a[0], atoi(a[1]), atoi(a[2]), unhex(a[3])
	ser := serializerByName(serName)
	peer, err, h, s, ok := acceptOn(cfg, []byte{0x7f, byte(nib<<4) | serByte(serName), 0, 0}, false)
	if !ok || err != nil || peer == nil {
		emit(id, "hs=fail")
		return
	}
	if _, okr := h.readFullTimeout(4, 2*time.Second); !okr {
		emit(id, "hs=noreply")
		return
	}
	var delivered []string
	done := make(chan struct{})
	go func() {
		defer close(done)
		for m := range peer.Recv() {
			if m == nil {
				delivered = append(delivered, "nil")
			} else {
				delivered = append(delivered, canonMsg(ser, m))
			}
		}
	}()
	_, _ = h.Write(stream)
	idle := h.waitPeerIdle(10 * time.Second)
	closedEarly := s.IsClosed()
	h.CloseWrite()
	rdClosed := true
	select {
	case <-done:
	case <-time.After(5 * time.Second):
		rdClosed = false
	}
	written := h.readAvailable()
	d := "-"
	if rdClosed && len(delivered) > 0 {
		d = strings.Join(delivered, ",")
	}
	emit(id, "hs=ok delivered=%s written=%s closed_early=%v rd_closed=%v idle=%v", d, hexs(written), closedEarly, rdClosed, idle)
	if rdClosed {
		peer.Close()
	}
}

// <id> canon <ser> <hex body>
func kindCanon(id string, a []string) {
	c, ok := canon(serializerByName(a[0]), unhex(a[1]))
	if !ok {
		emit(id, "fail")
		return
	}
	emit(id, "ok:%s", c)
}

// <id> ping_hold <ser> <nibble> <body size> <hex ping frame>
// a PING arrives while the writer goroutine is inside a frame: the body Write
// is held back by the connection.
func kindPingHold(id string, a []string) {
	serName, nib, size, ping := a[0], atoi(a[1]), atoi(a[2]), unhex(a[3])
	ser := serializerByName(serName)
	peer, err, h, s, ok := acceptOn(0, []byte{0x7f, byte(nib<<4) | serByte(serName), 0, 0}, false)
	if !ok || err != nil || peer == nil {
		emit(id, "hs=fail")
		return
	}
	h.readFullTimeout(4, 2*time.Second)
	base := len(s.Writes())
	msg, _ := sizedMsg(ser, size)
	s.mu.Lock()
	s.hold = func(p []byte) bool { return len(p) >= size }
	s.mu.Unlock()
	peer.Send() <- msg
	select {
	case <-s.heldOnce:
	case <-time.After(3 * time.Second):
		emit(id, "hs=ok held=false")
		return
	}
	atHold := len(s.Writes())
	_, _ = h.Write(ping)
	// give the reader goroutine time to answer (it cannot, if it needs the writer's mutex)
	pongBefore := false
	deadline := time.Now().Add(1500 * time.Millisecond)
	for time.Now().Before(deadline) {
		if len(s.Writes()) > atHold {
			pongBefore = true
			// let it finish the payload too
			time.Sleep(30 * time.Millisecond)
			break
		}
		time.Sleep(time.Millisecond)
	}
	s.Release()
	sentinel := goodbye("h")
	sb, _ := ser.Serialize(sentinel)
	peer.Send() <- sentinel
	want := 4 + size + 4 + len(sb) + len(ping)
	deadline = time.Now().Add(5 * time.Second)
	for time.Now().Before(deadline) {
		n := 0
		for _, w := range s.Writes()[base:] {
			n += w.n
		}
		if n >= want {
			break
		}
		time.Sleep(2 * time.Millisecond)
	}
	var recs []string
	for _, w := range s.Writes()[base:] {
		recs = append(recs, fmt.Sprintf("%d:%s", w.n, hexs(w.data)))
	}
	emit(id, "hs=ok held=true pong_before_release=%v sentinel=%s writes=%s", pongBefore, hexs(sb), strings.Join(recs, "|"))
	peer.Close()
}

// <id> send_unser <ser>
// a message that cannot be serialized is dropped as a whole; the next one arrives
func kindSendUnser(id string, a []string) {
	serName := a[0]
	ser := serializerByName(serName)
	peer, err, h, _, ok := acceptOn(0, []byte{0x7f, 0xf0 | serByte(serName), 0, 0}, false)
	if !ok || err != nil || peer == nil {
		emit(id, "hs=fail")
		return
	}
	h.readFullTimeout(4, 2*time.Second)
	bad := &wamp.Publish{Request: 7, Options: wamp.Dict{}, Topic: "t", Arguments: wamp.List{complex(1, 2)}}
	sentinel := goodbye("u")
	sb, _ := ser.Serialize(sentinel)
	peer.Send() <- bad
	peer.Send() <- sentinel
	var seen []string
	for {
		_, body, okf := readFrame(h, 3*time.Second)
		if !okf {
			seen = append(seen, "stalled")
			break
		}
		if bytes.Equal(body, sb) {
			seen = append(seen, "sentinel")
			break
		}
		seen = append(seen, "other:"+hexs(body))
	}
	emit(id, "hs=ok frames=%s", strings.Join(seen, ","))
	peer.Close()
}
