package main

import (
	"encoding/json"
	"fmt"
	"sort"
	"strings"
	"time"

	"github.com/gammazero/nexus/v3/wamp"
)

// The meta scenario: two watcher sessions A and B, attached over the transport
// under test, hold exact, prefix and wildcard subscriptions over the
// subscription, registration and session meta topics (several different
// subscriptions match each meta topic); a third session C, attached the same
// way, joins, subscribes, unsubscribes, registers, unregisters and leaves.
// What A and B receive must not depend on how the sessions are attached.
//
// Per session the replies are compared in order and the EVENTs as a multiset
// (the order of deliveries for different subscriptions follows Go map
// iteration).  Ids are renamed at the point where their owner learns them
// (WELCOME, SUBSCRIBED, REGISTERED), which is deterministic; publication ids,
// timestamps, authid/authrole/authmethod and transport details are left out.

type watch struct {
	topic wamp.URI
	match string
}

func metaArgs(w *world, topic string, args wamp.List) interface{} {
	id := func(kind string, v interface{}) interface{} {
		if n, ok := wamp.AsID(v); ok {
			return w.al.of(kind, n)
		}
		return canonValue(v)
	}
	at := func(i int) interface{} {
		if i < len(args) {
			return args[i]
		}
		return nil
	}
	entity := func(kind string) interface{} {
		d, ok := wamp.AsDict(at(1))
		if !ok {
			return canonValue(at(1))
		}
		out := map[string]interface{}{}
		for k, v := range d {
			switch k {
			case "id":
				out[k] = id(kind, v)
			case "created":
				out[k] = "<time>"
			default:
				out[k] = canonValue(v)
			}
		}
		return out
	}
	switch {
	case topic == string(wamp.MetaEventSubOnCreate):
		return []interface{}{id("session", at(0)), entity("sub")}
	case strings.HasPrefix(topic, "wamp.subscription."):
		return []interface{}{id("session", at(0)), id("sub", at(1))}
	case topic == string(wamp.MetaEventRegOnCreate):
		return []interface{}{id("session", at(0)), entity("reg")}
	case strings.HasPrefix(topic, "wamp.registration."):
		return []interface{}{id("session", at(0)), id("reg", at(1))}
	case topic == string(wamp.MetaEventSessionOnJoin):
		if d, ok := wamp.AsDict(at(0)); ok {
			return []interface{}{id("session", d["session"])}
		}
	case topic == string(wamp.MetaEventSessionOnLeave):
		return []interface{}{id("session", at(0))}
	}
	return canonContainer(args)
}

// metaEvent is the canonical observation of an EVENT in the meta scenario.
func (w *world) metaEvent(subs map[wamp.ID]watch, e *wamp.Event) []interface{} {
	det := map[string]interface{}{}
	topic := ""
	for k, v := range e.Details {
		det[k] = canonValue(v)
	}
	if t, ok := wamp.AsURI(e.Details["topic"]); ok {
		topic = string(t)
	} else if wt, ok := subs[e.Subscription]; ok && wt.match == "" {
		topic = string(wt.topic)
	}
	var d interface{} = "∅"
	if len(det) > 0 {
		d = det
	}
	return []interface{}{"EVENT", w.al.of("sub", e.Subscription), d, metaArgs(w, topic, e.Arguments), canonContainer(e.ArgumentsKw)}
}

// reply waits for the next message that is not an EVENT; EVENTs on the way go
// to the session's multiset.
func (w *world) reply(s *sess, subs map[wamp.ID]watch) wamp.Message {
	for {
		if s.dead {
			s.note("<nothing>")
			return nil
		}
		m, why := s.recvOne(4 * time.Second)
		if m == nil {
			s.note("<" + why + ">")
			s.dead = true
			return nil
		}
		if e, ok := m.(*wamp.Event); ok {
			s.evs = append(s.evs, w.metaEvent(subs, e))
			continue
		}
		s.log = append(s.log, w.observe(m))
		return m
	}
}

// leave waits for the end of a session that has sent GOODBYE.  Whether the
// router's GOODBYE still arrives before the connection ends is not compared:
// the router closes the peer right after queueing it, and Close() of a network
// peer discards what its sender has not written yet (in-process peers always
// deliver it).  Returns whether the peer was seen closed.
func (w *world) leave(s *sess) bool {
	for t := time.Now().Add(4 * time.Second); !s.dead && time.Now().Before(t); {
		m, why := s.recvOne(4 * time.Second)
		if m == nil {
			if why == "closed" {
				s.note("LEFT")
				return true
			}
			s.note("<" + why + ">")
			s.dead = true
			return false
		}
		if _, ok := m.(*wamp.Goodbye); ok {
			s.note("LEFT")
			return false
		}
		s.log = append(s.log, append([]interface{}{"UNEXPECTED"}, w.observe(m)...))
	}
	return false
}

// drain collects EVENTs until the end marker has been seen and the session
// has then been silent for a while.
func (w *world) drain(s *sess, subs map[wamp.ID]watch, marker wamp.ID) {
	seen := false
	deadline := time.Now().Add(6 * time.Second)
	for !s.dead && time.Now().Before(deadline) {
		wait := 3 * time.Second
		if seen {
			wait = 60 * time.Millisecond // everything caused earlier is ahead of the marker
		}
		m, why := s.recvOne(wait)
		if m == nil {
			if why == "timeout" && seen {
				return
			}
			if why != "timeout" {
				s.note("<" + why + ">")
				s.dead = true
			} else {
				s.note("<end marker missing>")
			}
			return
		}
		if e, ok := m.(*wamp.Event); ok {
			if e.Subscription == marker {
				seen = true
				continue
			}
			s.evs = append(s.evs, w.metaEvent(subs, e))
			continue
		}
		s.log = append(s.log, append([]interface{}{"UNEXPECTED"}, w.observe(m)...))
	}
}

// <id> scenario_meta <transport> <serializer> [<seed>]
func kindScenarioMeta(id string, a []string) {
	var seed uint64
	if len(a) > 2 {
		seed = uint64(atoi(a[2]))
	}
	w, err := newWorld(a[0], a[1])
	if err != nil {
		emit(id, "setup=fail %v", err)
		return
	}
	defer w.close()
	mk := func(n string) *sess {
		p, err := w.connect()
		if err != nil {
			return &sess{name: n, dead: true}
		}
		return &sess{name: n, peer: p}
	}
	A, B := mk("A"), mk("B")
	if A.dead || B.dead {
		emit(id, "connect=fail")
		return
	}
	send := func(s *sess, m wamp.Message) {
		if !s.dead {
			s.peer.Send() <- m
		}
	}
	subs := map[wamp.ID]watch{}
	// barrier: the reply of a meta procedure travels through the same queue
	// as the session and registration meta events, so once it is back every
	// meta event caused before the call has been handed to the broker
	barrier := func(s *sess, req int) {
		send(s, &wamp.Call{Request: wamp.ID(req), Options: wamp.Dict{}, Procedure: wamp.MetaProcSessionCount})
		w.reply(s, subs)
	}
	// the helper joins first, so that nobody is watching yet
	L := &sess{name: "L", peer: w.connectLocal()}
	send(L, helloMsg())
	L.recvOne(4 * time.Second)
	send(A, helloMsg())
	w.reply(A, subs)
	barrier(A, 90)

	// the watchers
	watchA := []watch{
		{wamp.MetaEventSubOnSubscribe, ""}, {"wamp..on_unsubscribe", "wildcard"}, {wamp.MetaEventSubOnCreate, ""},
		{"wamp.registration.", "prefix"}, {wamp.MetaEventSessionOnJoin, ""}, {"wamp.session.", "wildcard"},
		{"wamp..on_delete", "wildcard"},
	}
	watchB := []watch{
		{"wamp..on_subscribe", "wildcard"}, {"wamp.subscription.", "prefix"}, {wamp.MetaEventSubOnUnsubscribe, ""},
		{wamp.MetaEventRegOnRegister, ""}, {"wamp..on_register", "wildcard"}, {wamp.MetaEventRegOnUnregister, ""},
		{"wamp.session.", "prefix"}, {wamp.MetaEventSessionOnLeave, ""}, {wamp.MetaEventRegOnDelete, ""},
	}
	var markA, markB wamp.ID
	subscribe := func(s *sess, req int, wt watch) wamp.ID {
		opt := wamp.Dict{}
		if wt.match != "" {
			opt["match"] = wt.match
		}
		send(s, &wamp.Subscribe{Request: wamp.ID(req), Options: opt, Topic: wt.topic})
		if r, ok := w.reply(s, subs).(*wamp.Subscribed); ok {
			subs[r.Subscription] = wt
			return r.Subscription
		}
		return 0
	}
	for i, wt := range watchA {
		subscribe(A, i+1, wt)
	}
	markA = subscribe(A, 50, watch{"verif.meta.done", ""})
	// B joins while A is watching; its own on_join is out before it subscribes
	send(B, helloMsg())
	w.reply(B, subs)
	barrier(B, 90)
	for i, wt := range watchB {
		subscribe(B, i+1, wt)
	}
	markB = subscribe(B, 50, watch{"verif.meta.done", ""})

	// the actor
	C := mk("C")
	send(C, helloMsg())
	w.reply(C, subs)
	g := &pgen{s: seed ^ 0x1234567}
	type ent struct {
		id  wamp.ID
		sub bool
	}
	var live []ent
	req := 0
	doSub := func(topic wamp.URI, match string) {
		req++
		opt := wamp.Dict{}
		if match != "" {
			opt["match"] = match
		}
		send(C, &wamp.Subscribe{Request: wamp.ID(req), Options: opt, Topic: topic})
		if r, ok := w.reply(C, subs).(*wamp.Subscribed); ok {
			live = append(live, ent{r.Subscription, true})
		}
	}
	doReg := func(proc wamp.URI, match string) {
		req++
		opt := wamp.Dict{}
		if match != "" {
			opt["match"] = match
		}
		send(C, &wamp.Register{Request: wamp.ID(req), Options: opt, Procedure: proc})
		if r, ok := w.reply(C, subs).(*wamp.Registered); ok {
			live = append(live, ent{r.Registration, false})
		}
	}
	drop := func(i int) {
		e := live[i]
		live = append(live[:i], live[i+1:]...)
		req++
		if e.sub {
			send(C, &wamp.Unsubscribe{Request: wamp.ID(req), Subscription: e.id})
		} else {
			send(C, &wamp.Unregister{Request: wamp.ID(req), Registration: e.id})
		}
		w.reply(C, subs)
	}
	if seed == 0 {
		doSub("verif.meta.t1", "")
		doSub("verif.meta.", "prefix")
		doReg("verif.meta.p1", "")
		drop(0) // unsubscribe t1
		drop(1) // unregister p1
		doReg("verif.meta.p2", "")
		doSub("verif.meta..w", "wildcard")
	} else {
		n := 4 + int(g.next()%5)
		for i := 0; i < n; i++ {
			switch k := g.next() % 6; {
			case k == 0:
				doSub(wamp.URI(fmt.Sprintf("verif.meta.t%d", i)), "")
			case k == 1:
				doSub(wamp.URI(fmt.Sprintf("verif.meta.x%d.", i)), "prefix")
			case k == 2:
				doSub(wamp.URI(fmt.Sprintf("verif.meta..w%d", i)), "wildcard")
			case k == 3:
				doReg(wamp.URI(fmt.Sprintf("verif.meta.p%d", i)), "")
			case len(live) > 0:
				drop(int(g.next() % uint64(len(live))))
			default:
				doReg(wamp.URI(fmt.Sprintf("verif.meta.q%d.", i)), "prefix")
			}
		}
	}
	// C leaves with whatever it still holds
	send(C, &wamp.Goodbye{Reason: wamp.CloseRealm, Details: wamp.Dict{}})
	closed := w.leave(C)
	// the router closes C's peer after it has queued wamp.session.on_leave
	if !C.dead {
		for t := time.Now().Add(4 * time.Second); time.Now().Before(t) && !closed; {
			select {
			case _, ok := <-C.peer.Recv():
				closed = !ok
			case <-time.After(100 * time.Millisecond):
			}
		}
		if !closed {
			C.note("<peer not closed after GOODBYE>")
		}
		C.peer.Close()
	}

	// end marker from the in-process helper, behind a barrier; then collect
	send(L, &wamp.Call{Request: 1, Options: wamp.Dict{}, Procedure: wamp.MetaProcSessionCount})
	L.recvOne(4 * time.Second)
	send(L, &wamp.Publish{Request: 2, Options: wamp.Dict{}, Topic: "verif.meta.done"})
	w.drain(A, subs, markA)
	w.drain(B, subs, markB)
	// the watchers' own departure is not part of the observation (what the
	// one still attached sees of the other's leaving depends on who is faster)
	for _, s := range []*sess{A, B, L} {
		if s.peer != nil && !s.dead {
			s.peer.Close()
		}
	}
	multiset := func(evs []interface{}) []string {
		var out []string
		for _, e := range evs {
			b, _ := json.Marshal(e)
			out = append(out, string(b))
		}
		sort.Strings(out)
		return out
	}
	obs := map[string]interface{}{
		"A": A.log, "B": B.log, "C": C.log,
		"A.events": multiset(A.evs), "B.events": multiset(B.evs), "C.events": multiset(C.evs),
	}
	js, _ := json.Marshal(obs)
	emit(id, "obs=%s", string(js))
}
