// c15drive runs the nexus transports on scripted inputs and prints what they
// did, one line per case ("<id> <observation>"), for tools/checks/c15.py to
// compare with the extracted model.  It is always run as a child process: a
// panic inside the router or a transport goroutine kills it, and the parent
// reports the case named by the last "START <id>" line.
//
//	c15drive <casefile> <workdir>
//
// Case syntax: see the kind* functions.  All bytes are hex ("-" = empty).
package main

import (
	"bufio"
	"encoding/hex"
	"fmt"
	"io"
	"log"
	"os"
	"strconv"
	"strings"
	"time"

	"github.com/gammazero/nexus/v3/transport/serialize"
	"github.com/gammazero/nexus/v3/wamp"
)

var (
	out     *bufio.Writer
	workdir string
	nullLog = log.New(io.Discard, "", 0)
)

func hexs(b []byte) string {
	if len(b) == 0 {
		return "-"
	}
	return hex.EncodeToString(b)
}

func unhex(s string) []byte {
	if s == "-" || s == "" {
		return nil
	}
	b, err := hex.DecodeString(s)
	if err != nil {
		panic("bad hex in case: " + s)
	}
	return b
}

func atoi(s string) int {
	n, err := strconv.Atoi(s)
	if err != nil {
		panic("bad integer in case: " + s)
	}
	return n
}

func serializerByName(n string) serialize.Serializer {
	switch n {
	case "json", "1":
		return &serialize.JSONSerializer{}
	case "msgpack", "2":
		return &serialize.MessagePackSerializer{}
	case "cbor", "3":
		return &serialize.CBORSerializer{}
	}
	panic("unknown serializer " + n)
}

func serByte(n string) byte {
	switch n {
	case "json", "1":
		return 1
	case "msgpack", "2":
		return 2
	case "cbor", "3":
		return 3
	}
	panic("unknown serializer " + n)
}

func serialization(n string) serialize.Serialization {
	switch n {
	case "json", "1":
		return serialize.JSON
	case "msgpack", "2":
		return serialize.MSGPACK
	case "cbor", "3":
		return serialize.CBOR
	}
	panic("unknown serializer " + n)
}

// detectSer names the serializer that produced a message body.
func detectSer(b []byte) string {
	if len(b) == 0 {
		return "none"
	}
	switch {
	case b[0] == '[':
		return "json"
	case b[0]&0xf0 == 0x90 || b[0] == 0xdc:
		return "msgpack"
	case b[0]&0xe0 == 0x80:
		return "cbor"
	}
	return "unknown"
}

// sizedMsg builds a PUBLISH whose serialization is exactly size bytes.
func sizedMsg(ser serialize.Serializer, size int) (wamp.Message, []byte) {
	for topicLen := 1; topicLen <= 12; topicLen++ {
		topic := wamp.URI(strings.Repeat("t", topicLen))
		mk := func(pad int) (wamp.Message, []byte) {
			m := &wamp.Publish{Request: 1, Options: wamp.Dict{}, Topic: topic, Arguments: wamp.List{strings.Repeat("a", pad)}}
			b, err := ser.Serialize(m)
			if err != nil {
				panic(err)
			}
			return m, b
		}
		_, b0 := mk(0)
		pad := size - len(b0)
		if pad < 0 {
			break
		}
		for try := 0; try < 6 && pad >= 0; try++ {
			m, b := mk(pad)
			if len(b) == size {
				return m, b
			}
			pad -= len(b) - size
		}
	}
	panic(fmt.Sprintf("cannot build a message of %d bytes", size))
}

func len3(n int) []byte { return []byte{byte(n >> 16), byte(n >> 8), byte(n)} }

func frameBytes(t byte, body []byte) []byte {
	b := append([]byte{t}, len3(len(body))...)
	return append(b, body...)
}

// canon: what a body deserializes to, re-serialized (the comparable form of a message).
func canon(ser serialize.Serializer, body []byte) (string, bool) {
	m, err := ser.Deserialize(body)
	if err != nil || m == nil {
		return "", false
	}
	return canonMsg(ser, m), true
}

func canonMsg(ser serialize.Serializer, m wamp.Message) string {
	b, err := ser.Serialize(m)
	if err != nil {
		return "unserializable"
	}
	return hexs(b)
}

func emit(id, format string, a ...interface{}) {
	fmt.Fprintf(out, "%s %s\n", id, fmt.Sprintf(format, a...))
	out.Flush()
}

func main() {
	if len(os.Args) != 3 {
		fmt.Fprintln(os.Stderr, "usage: c15drive <casefile> <workdir>")
		os.Exit(2)
	}
	workdir = os.Args[2]
	f, err := os.Open(os.Args[1])
	if err != nil {
		fmt.Fprintln(os.Stderr, err)
		os.Exit(2)
	}
	defer f.Close()
	out = bufio.NewWriterSize(os.Stdout, 1<<16)
	defer out.Flush()
	// a watchdog: no single case may take longer than this
	sc := bufio.NewScanner(f)
	sc.Buffer(make([]byte, 1<<20), 1<<27)
	for sc.Scan() {
		line := strings.TrimSpace(sc.Text())
		if line == "" || strings.HasPrefix(line, "#") {
			continue
		}
		fs := strings.Split(line, " ")
		id, kind, args := fs[0], fs[1], fs[2:]
		fmt.Fprintf(out, "START %s\n", id)
		out.Flush()
		done := make(chan struct{})
		timer := time.AfterFunc(120*time.Second, func() {
			select {
			case <-done:
			default:
				fmt.Fprintf(os.Stdout, "%s HANG case exceeded 120s\n", id)
				os.Exit(4)
			}
		})
		switch kind {
		case "hs_server":
			kindHsServer(id, args)
		case "hs_client":
			kindHsClient(id, args)
		case "limits_server":
			kindLimitsServer(id, args)
		case "limits_client":
			kindLimitsClient(id, args)
		case "recv":
			kindRecv(id, args)
		case "canon":
			kindCanon(id, args)
		case "router_recv":
			kindRouterRecv(id, args)
		case "ping_hold":
			kindPingHold(id, args)
		case "send_unser":
			kindSendUnser(id, args)
		case "ws_peer":
			kindWsPeer(id, args)
		case "scenario":
			kindScenario(id, args)
		case "scenario_meta":
			kindScenarioMeta(id, args)
		case "arith":
			emit(id, "n/a")
		default:
			emit(id, "ERROR unknown kind %s", kind)
		}
		close(done)
		timer.Stop()
	}
}
