// genskel — translator for the goroutine/channel skeleton of nexus.
//
// Reads the non-test Go files of <repo>/router and <repo>/transport, type
// checks them (go/types, source importer) and writes coq/gen/GenSkeleton.v:
// per function (every method, plain function and function literal) the ordered
// list of concurrency-relevant operations — channel send / receive / close /
// range, select comm clauses (with or without default), Lock/Unlock, WaitGroup
// Add/Done/Wait, go statements, peer Close() calls, EndRecv, writes/tests of
// the `closed` flags, static calls — each with the ROLE of the channel
// recognised from the expression, plus the goroutine kinds that execute the
// function (closures sent on an action channel are attributed to the goroutine
// that RUNS them), the goroutine entry points, the handler's message dispatch
// table and the message types sent on the meta peer.
//
// It fails loudly (exit status 3, message on stderr naming file:line) on a
// channel operation, mutex, wait group or go statement whose role it cannot
// classify: the check reports that as a broken tie, never skips it.
package main

import (
	"flag"
	"fmt"
	"go/ast"
	"go/constant"
	"go/importer"
	"go/parser"
	"go/token"
	"go/types"
	"io"
	"os"
	"os/exec"
	"path/filepath"
	"sort"
	"strings"
)

type Op struct {
	Kind   string
	Role   string
	NB     bool
	Sel    int
	Loop   bool
	Defer  bool
	Path   [][2]int
	Line   int
	Callee string
	Msg    string
	Txt    string
}

type Func struct {
	Name     string
	File     string
	Pos      token.Pos
	Pkg      string
	Kinds    map[string]bool
	Ops      []Op
	Deferred []Op // LIFO, appended at the end
	Exported bool
	RecvType string
}

type pkgInfo struct {
	name  string
	dir   string
	files []*ast.File
	info  *types.Info
	pkg   *types.Package
}

var (
	fset     = token.NewFileSet()
	funcs    = map[string]*Func{}
	order    []string
	fatal    []string
	entries  [][2]string             // function, kind
	dispatch [][2]string             // message type, callee
	metaIn   [][2]string             // function, message type sent on the meta peer
	makes    [][3]string             // function, capacity expression, constant value or ""
	addrOf   = map[string][]string{} // signature -> address-taken functions
)

func fail(pos token.Pos, format string, a ...interface{}) {
	p := fset.Position(pos)
	fatal = append(fatal, fmt.Sprintf("%s:%d: %s", p.Filename, p.Line, fmt.Sprintf(format, a...)))
}

func main() {
	repo := flag.String("repo", "/repo", "repository root")
	out := flag.String("out", "", "output .v file (default stdout)")
	flag.Parse()
	if *out != "" {
		if abs, err := filepath.Abs(*out); err == nil {
			*out = abs
		}
	}
	if err := os.Chdir(*repo); err != nil {
		fmt.Fprintln(os.Stderr, err)
		os.Exit(3)
	}
	imp, err := exportImporter()
	if err != nil {
		fmt.Fprintln(os.Stderr, "genskel: "+err.Error())
		os.Exit(3)
	}
	var pkgs []*pkgInfo
	for _, d := range []string{"transport", "router"} {
		p, err := load(filepath.Join(*repo, d), d, imp)
		if err != nil {
			fmt.Fprintln(os.Stderr, "genskel: "+err.Error())
			os.Exit(3)
		}
		pkgs = append(pkgs, p)
	}
	for _, p := range pkgs {
		collectAddrTaken(p)
		collectMethods(p)
		collectSubmitters(p)
		if p.name == "transport" {
			collectPeerCloseBounds(p)
		}
		if p.name == "router" {
			collectConsts(p)
			collectYieldKeep(p)
			collectInvkDrops(p)
			collectYieldStopsTimer(p)
			collectCancelWaits(p)
		}
	}
	for _, p := range pkgs {
		for _, f := range p.files {
			for _, d := range f.Decls {
				fd, ok := d.(*ast.FuncDecl)
				if !ok || fd.Body == nil {
					continue
				}
				walkFuncDecl(p, fd)
			}
		}
	}
	attribute()
	if len(fatal) != 0 {
		sort.Strings(fatal)
		for _, m := range fatal {
			fmt.Fprintln(os.Stderr, "genskel: cannot classify: "+m)
		}
		os.Exit(3)
	}
	txt := emit()
	if *out == "" {
		fmt.Print(txt)
		return
	}
	old, err := os.ReadFile(*out)
	if err == nil && string(old) == txt {
		return
	}
	if err := os.MkdirAll(filepath.Dir(*out), 0o755); err != nil {
		fmt.Fprintln(os.Stderr, err)
		os.Exit(3)
	}
	if err := os.WriteFile(*out, []byte(txt), 0o644); err != nil {
		fmt.Fprintln(os.Stderr, err)
		os.Exit(3)
	}
}

// exportImporter type checks imports from the compiler's export data
// (`go list -export`, served from the build cache), which is much faster than
// type checking every dependency from source.
func exportImporter() (types.Importer, error) {
	cmd := exec.Command("go", "list", "-export", "-deps", "-f", "{{.ImportPath}}={{.Export}}", "./router", "./transport")
	cmd.Stderr = os.Stderr
	out, err := cmd.Output()
	if err != nil {
		return nil, fmt.Errorf("go list -export: %v", err)
	}
	files := map[string]string{}
	for _, l := range strings.Split(string(out), "\n") {
		if i := strings.Index(l, "="); i > 0 && len(l) > i+1 {
			files[l[:i]] = l[i+1:]
		}
	}
	lookup := func(path string) (io.ReadCloser, error) {
		f, ok := files[path]
		if !ok {
			return nil, fmt.Errorf("no export data for %s", path)
		}
		return os.Open(f)
	}
	return importer.ForCompiler(fset, "gc", lookup), nil
}

func load(dir, name string, imp types.Importer) (*pkgInfo, error) {
	pm, err := parser.ParseDir(fset, dir, func(fi os.FileInfo) bool {
		return !strings.HasSuffix(fi.Name(), "_test.go")
	}, parser.ParseComments)
	if err != nil {
		return nil, err
	}
	var ap *ast.Package
	for n, p := range pm {
		if !strings.HasSuffix(n, "_test") {
			ap = p
		}
	}
	if ap == nil {
		return nil, fmt.Errorf("no package in %s", dir)
	}
	var names []string
	for n := range ap.Files {
		names = append(names, n)
	}
	sort.Strings(names)
	p := &pkgInfo{name: name, dir: dir}
	for _, n := range names {
		f := ap.Files[n]
		// skip files excluded by build tags we do not set (e.g. //go:build verif hooks)
		if excludedByTag(f) {
			continue
		}
		p.files = append(p.files, f)
	}
	p.info = &types.Info{
		Types:      map[ast.Expr]types.TypeAndValue{},
		Uses:       map[*ast.Ident]types.Object{},
		Defs:       map[*ast.Ident]types.Object{},
		Selections: map[*ast.SelectorExpr]*types.Selection{},
	}
	var terrs []string
	conf := types.Config{Importer: imp, Error: func(err error) { terrs = append(terrs, err.Error()) }}
	p.pkg, _ = conf.Check("github.com/gammazero/nexus/v3/"+name, fset, p.files, p.info)
	if len(terrs) != 0 {
		return nil, fmt.Errorf("type errors in %s: %s", dir, strings.Join(terrs[:min(3, len(terrs))], "; "))
	}
	return p, nil
}

func excludedByTag(f *ast.File) bool {
	for _, cg := range f.Comments {
		if cg.Pos() > f.Package {
			break
		}
		for _, c := range cg.List {
			t := strings.TrimSpace(c.Text)
			if strings.HasPrefix(t, "//go:build") && strings.Contains(t, "verif") && !strings.Contains(t, "!verif") {
				return true
			}
		}
	}
	return false
}

// ---------------------------------------------------------------------------
// naming

func recvTypeName(t types.Type) string {
	if p, ok := t.(*types.Pointer); ok {
		t = p.Elem()
	}
	if n, ok := t.(*types.Named); ok {
		return n.Obj().Name()
	}
	return ""
}

func funcObjName(fn *types.Func) string {
	sig := fn.Type().(*types.Signature)
	if r := sig.Recv(); r != nil {
		return recvTypeName(r.Type()) + "." + fn.Name()
	}
	return fn.Name()
}

func inInventory(pkg *types.Package) bool {
	if pkg == nil {
		return false
	}
	p := pkg.Path()
	return strings.HasSuffix(p, "/v3/router") || strings.HasSuffix(p, "/v3/transport")
}

// sigKey: parameter and result types only (no names, no receiver).
func sigKey(sig *types.Signature) string {
	var b strings.Builder
	b.WriteString("func(")
	for i := 0; i < sig.Params().Len(); i++ {
		if i > 0 {
			b.WriteString(",")
		}
		b.WriteString(types.TypeString(sig.Params().At(i).Type(), nil))
	}
	if sig.Variadic() {
		b.WriteString("...")
	}
	b.WriteString(")(")
	for i := 0; i < sig.Results().Len(); i++ {
		if i > 0 {
			b.WriteString(",")
		}
		b.WriteString(types.TypeString(sig.Results().At(i).Type(), nil))
	}
	b.WriteString(")")
	return b.String()
}

func collectAddrTaken(p *pkgInfo) {
	for _, f := range p.files {
		var stack []ast.Node
		ast.Inspect(f, func(n ast.Node) bool {
			if n == nil {
				stack = stack[:len(stack)-1]
				return false
			}
			stack = append(stack, n)
			var id *ast.Ident
			switch e := n.(type) {
			case *ast.Ident:
				id = e
			default:
				return true
			}
			fn, ok := p.info.Uses[id].(*types.Func)
			if !ok || !inInventory(fn.Pkg()) {
				return true
			}
			// is it in call position?  parent (or grandparent via selector) is a CallExpr with Fun == it
			var self ast.Node = id
			i := len(stack) - 2
			if i >= 0 {
				if se, ok := stack[i].(*ast.SelectorExpr); ok && se.Sel == id {
					self = se
					i--
				}
			}
			if i >= 0 {
				if ce, ok := stack[i].(*ast.CallExpr); ok && ce.Fun == self {
					return true
				}
			}
			k := sigKey(fn.Type().(*types.Signature))
			name := funcObjName(fn)
			for _, x := range addrOf[k] {
				if x == name {
					return true
				}
			}
			addrOf[k] = append(addrOf[k], name)
			return true
		})
	}
}

// ---------------------------------------------------------------------------
// walker

type walker struct {
	p        *pkgInfo
	top      string // name of the enclosing declared function
	nlit     *int
	nstmt    *int
	cur      *Func
	loop     bool
	path     [][2]int
	deferred bool
	locals   map[types.Object]bool   // channels made in this function (or enclosing)
	alias    map[types.Object]string // local variable -> role of the channel it holds
	closures map[types.Object]string // local variable -> closure function name
	selCount *int
}

func newFunc(name, file string, pos token.Pos, pkg string) *Func {
	f := &Func{Name: name, File: file, Pos: pos, Pkg: pkg, Kinds: map[string]bool{}}
	if _, dup := funcs[name]; dup {
		fail(pos, "duplicate function name %s", name)
	}
	funcs[name] = f
	order = append(order, name)
	return f
}

func walkFuncDecl(p *pkgInfo, fd *ast.FuncDecl) {
	obj := p.info.Defs[fd.Name].(*types.Func)
	name := funcObjName(obj)
	file := filepath.Base(fset.Position(fd.Pos()).Filename)
	f := newFunc(name, p.name+"/"+file, fd.Pos(), p.name)
	f.Exported = fd.Name.IsExported()
	if r := obj.Type().(*types.Signature).Recv(); r != nil {
		f.RecvType = recvTypeName(r.Type())
	}
	nlit, nstmt, nsel := 0, 0, 0
	w := &walker{p: p, top: name, nlit: &nlit, nstmt: &nstmt, selCount: &nsel, cur: f,
		locals: map[types.Object]bool{}, alias: map[types.Object]string{}, closures: map[types.Object]string{}}
	w.block(fd.Body)
	w.finish()
}

func (w *walker) finish() {
	// deferred operations run at function exit, last deferred first
	for i := len(w.cur.Deferred) - 1; i >= 0; i-- {
		w.cur.Ops = append(w.cur.Ops, w.cur.Deferred[i])
	}
	w.cur.Deferred = nil
}

func (w *walker) emit(o Op, pos token.Pos) {
	o.Loop = w.loop
	o.Defer = w.deferred
	o.Path = append([][2]int(nil), w.path...)
	o.Line = fset.Position(pos).Line
	if w.deferred {
		w.cur.Deferred = append(w.cur.Deferred, o)
	} else {
		w.cur.Ops = append(w.cur.Ops, o)
	}
}

func (w *walker) text(n ast.Node) string {
	b := fset.Position(n.Pos())
	e := fset.Position(n.End())
	src, err := os.ReadFile(b.Filename)
	if err != nil || b.Offset < 0 || e.Offset > len(src) || b.Offset > e.Offset {
		return ""
	}
	s := string(src[b.Offset:e.Offset])
	s = strings.Join(strings.Fields(s), " ")
	if len(s) > 60 {
		s = s[:57] + "..."
	}
	return s
}

// closure creates a Func for a function literal and walks its body.
func (w *walker) closure(fl *ast.FuncLit) string {
	*w.nlit++
	name := fmt.Sprintf("%s$%d", w.top, *w.nlit)
	file := filepath.Base(fset.Position(fl.Pos()).Filename)
	f := newFunc(name, w.p.name+"/"+file, fl.Pos(), w.p.name)
	cw := &walker{p: w.p, top: w.top, nlit: w.nlit, nstmt: w.nstmt, selCount: w.selCount, cur: f,
		locals: w.locals, alias: w.alias, closures: w.closures}
	cw.block(fl.Body)
	cw.finish()
	return name
}

func (w *walker) block(b *ast.BlockStmt) {
	if b == nil {
		return
	}
	for _, s := range b.List {
		w.stmt(s)
	}
}

func (w *walker) withArm(id, arm int, f func()) {
	old := w.path
	w.path = append(append([][2]int(nil), old...), [2]int{id, arm})
	f()
	w.path = old
}

func (w *walker) newStmtID() int {
	*w.nstmt++
	return *w.nstmt
}

func (w *walker) stmt(s ast.Stmt) {
	switch s := s.(type) {
	case nil:
	case *ast.BlockStmt:
		w.block(s)
	case *ast.LabeledStmt:
		w.stmt(s.Stmt)
	case *ast.ExprStmt:
		w.expr(s.X)
	case *ast.SendStmt:
		w.send(s, 0, false)
	case *ast.IncDecStmt:
		w.expr(s.X)
	case *ast.AssignStmt:
		w.assign(s)
	case *ast.DeclStmt:
		if gd, ok := s.Decl.(*ast.GenDecl); ok {
			for _, sp := range gd.Specs {
				if vs, ok := sp.(*ast.ValueSpec); ok {
					for i, v := range vs.Values {
						if i < len(vs.Names) {
							w.bind(vs.Names[i], v)
						}
						w.expr(v)
					}
				}
			}
		}
	case *ast.ReturnStmt:
		for _, r := range s.Results {
			w.expr(r)
		}
	case *ast.BranchStmt, *ast.EmptyStmt:
	case *ast.IfStmt:
		w.stmt(s.Init)
		w.cond(s.Cond)
		id := w.newStmtID()
		w.withArm(id, 0, func() { w.block(s.Body) })
		if s.Else != nil {
			w.withArm(id, 1, func() { w.stmt(s.Else) })
		}
	case *ast.SwitchStmt:
		w.stmt(s.Init)
		if s.Tag != nil {
			w.cond(s.Tag)
		}
		id := w.newStmtID()
		for i, c := range s.Body.List {
			cc := c.(*ast.CaseClause)
			for _, e := range cc.List {
				w.cond(e)
			}
			w.withArm(id, i, func() {
				for _, st := range cc.Body {
					w.stmt(st)
				}
			})
		}
	case *ast.TypeSwitchStmt:
		w.stmt(s.Init)
		w.stmt(s.Assign)
		id := w.newStmtID()
		for i, c := range s.Body.List {
			cc := c.(*ast.CaseClause)
			before := len(w.cur.Ops)
			w.withArm(id, i, func() {
				for _, st := range cc.Body {
					w.stmt(st)
				}
			})
			if w.cur.Name == "realm.handleInboundMessages" {
				for _, te := range cc.List {
					mt := wampTypeName(w.p.info.TypeOf(te))
					if mt == "" {
						continue
					}
					for _, o := range w.cur.Ops[before:] {
						if o.Kind == "OCall" {
							dispatch = append(dispatch, [2]string{mt, o.Callee})
						}
					}
				}
			}
		}
	case *ast.SelectStmt:
		id := w.newStmtID()
		*w.selCount++
		sel := *w.selCount
		hasDefault := false
		for _, c := range s.Body.List {
			if c.(*ast.CommClause).Comm == nil {
				hasDefault = true
			}
		}
		for i, c := range s.Body.List {
			cc := c.(*ast.CommClause)
			w.withArm(id, i, func() {
				switch cm := cc.Comm.(type) {
				case nil:
				case *ast.SendStmt:
					w.send(cm, sel, hasDefault)
				case *ast.ExprStmt:
					w.recvExpr(cm.X, sel, hasDefault)
				case *ast.AssignStmt:
					if len(cm.Rhs) == 1 {
						w.recvExpr(cm.Rhs[0], sel, hasDefault)
					}
				}
				for _, st := range cc.Body {
					w.stmt(st)
				}
			})
		}
	case *ast.ForStmt:
		w.stmt(s.Init)
		old := w.loop
		w.loop = true
		if s.Cond != nil {
			w.cond(s.Cond)
		}
		w.block(s.Body)
		w.stmt(s.Post)
		w.loop = old
	case *ast.RangeStmt:
		w.expr(s.X)
		if t := w.p.info.TypeOf(s.X); t != nil {
			if _, ok := t.Underlying().(*types.Chan); ok {
				role := w.chanRole(s.X)
				w.emit(Op{Kind: "ORange", Role: role, Txt: w.text(s.X)}, s.Pos())
			}
		}
		old := w.loop
		w.loop = true
		w.block(s.Body)
		w.loop = old
	case *ast.GoStmt:
		for _, a := range s.Call.Args {
			w.expr(a)
		}
		switch fn := s.Call.Fun.(type) {
		case *ast.FuncLit:
			name := w.closure(fn)
			w.emit(Op{Kind: "OGo", Role: "RNone", Callee: name, Txt: "go func literal"}, s.Pos())
			w.goEntry(name, s.Pos())
		default:
			tgt := w.staticCallee(s.Call)
			if tgt == "" {
				if w.externalCallee(s.Call) {
					// goroutine running code outside the inventory (net/http server loop)
					w.emit(Op{Kind: "OGo", Role: "RNone", Callee: "", Txt: w.text(s.Call)}, s.Pos())
					return
				}
				fail(s.Pos(), "go statement with a target that is not a static function: %s", w.text(s.Call))
				return
			}
			w.emit(Op{Kind: "OGo", Role: "RNone", Callee: tgt, Txt: w.text(s.Call)}, s.Pos())
			w.goEntry(tgt, s.Pos())
		}
	case *ast.DeferStmt:
		old := w.deferred
		w.deferred = true
		if fl, ok := s.Call.Fun.(*ast.FuncLit); ok {
			// deferred literal: its body runs at exit in this goroutine
			w.block(fl.Body)
		} else {
			w.expr(s.Call)
		}
		w.deferred = old
	default:
		fail(s.Pos(), "statement form not understood: %T", s)
	}
}

// goEntry classifies the goroutine kind a go statement starts.
func (w *walker) goEntry(target string, pos token.Pos) {
	base := target
	if i := strings.Index(base, "$"); i >= 0 {
		base = base[:i]
	}
	short := target
	if i := strings.LastIndex(short, "."); i >= 0 {
		short = short[i+1:]
	}
	kind := ""
	switch {
	case strings.Contains(target, "$"):
		switch base {
		case "realm.createMetaSession":
			kind = "KMetaSess"
		case "realm.handleSession":
			kind = "KSessHandler"
		case "dealer.syncCall":
			kind = "KCallTimer"
		case "ConnectRawSocketPeer", "ConnectWebsocketPeer":
			kind = "KClientSide"
		}
	case short == "metaProcedureHandler":
		kind = "KMetaProc"
	case short == "run":
		switch strings.TrimSuffix(target, ".run") {
		case "broker":
			kind = "KBroker"
		case "dealer":
			kind = "KDealer"
		case "realm":
			kind = "KRealm"
		case "router":
			kind = "KRouter"
		}
	case short == "logMemStats":
		kind = "KMemStats"
	case short == "recvHandler":
		kind = "KPeerReader"
	case short == "sendHandler" || short == "sendHandlerKeepAlive":
		kind = "KPeerWriter"
	case short == "requestHandler" || short == "handleRawSocket":
		kind = "KAttach"
	}
	if kind == "" {
		fail(pos, "goroutine entry point %s started in %s has no known kind", target, w.cur.Name)
		return
	}
	if kind != "-" {
		entries = append(entries, [2]string{target, kind})
	}
}

func wampTypeName(t types.Type) string {
	if t == nil {
		return ""
	}
	if p, ok := t.(*types.Pointer); ok {
		t = p.Elem()
	}
	n, ok := t.(*types.Named)
	if !ok || n.Obj().Pkg() == nil || !strings.HasSuffix(n.Obj().Pkg().Path(), "/v3/wamp") {
		return ""
	}
	return n.Obj().Name()
}

func (w *walker) cond(e ast.Expr) {
	if e == nil {
		return
	}
	w.expr(e)
	// test of a `closed` bool flag
	found := false
	ast.Inspect(e, func(n ast.Node) bool {
		if _, isLit := n.(*ast.FuncLit); isLit {
			return false
		}
		if se, ok := n.(*ast.SelectorExpr); ok && se.Sel.Name == "closed" {
			if t := w.p.info.TypeOf(se); t != nil {
				if b, ok := t.Underlying().(*types.Basic); ok && b.Kind() == types.Bool {
					found = true
				}
			}
		}
		return true
	})
	if found {
		w.emit(Op{Kind: "OFlagTest", Role: "RFlagClosed", Txt: w.text(e)}, e.Pos())
	}
}

func (w *walker) bind(name *ast.Ident, v ast.Expr) {
	obj := w.p.info.Defs[name]
	if obj == nil {
		obj = w.p.info.Uses[name]
	}
	if obj == nil {
		return
	}
	switch x := v.(type) {
	case *ast.FuncLit:
		w.closures[obj] = w.closure(x)
		return
	case *ast.CallExpr:
		if id, ok := x.Fun.(*ast.Ident); ok && id.Name == "make" && len(x.Args) >= 1 {
			if t := w.p.info.TypeOf(x.Args[0]); t != nil {
				if ch, ok := t.Underlying().(*types.Chan); ok {
					w.locals[obj] = true
					w.recordMake(ch, x)
				}
			}
			return
		}
	}
	// alias of a classifiable channel expression (recv := sess.Recv())
	if t := w.p.info.TypeOf(v); t != nil {
		if _, ok := t.Underlying().(*types.Chan); ok {
			if r := w.chanRoleQuiet(v); r != "" {
				w.alias[obj] = r
			}
		}
	}
}

func (w *walker) recordMake(ch *types.Chan, x *ast.CallExpr) {
	if wampTypeName(ch.Elem()) != "Message" {
		return
	}
	capTxt, capVal := "0", "0"
	if len(x.Args) >= 2 {
		capTxt = w.text(x.Args[1])
		capVal = ""
		if tv, ok := w.p.info.Types[x.Args[1]]; ok && tv.Value != nil {
			if v, ok := constant.Int64Val(tv.Value); ok {
				capVal = fmt.Sprint(v)
			}
		}
	}
	makes = append(makes, [3]string{w.cur.Name, capTxt, capVal})
}

func (w *walker) assign(s *ast.AssignStmt) {
	// flag writes
	for _, l := range s.Lhs {
		if se, ok := l.(*ast.SelectorExpr); ok && se.Sel.Name == "closed" {
			if t := w.p.info.TypeOf(se); t != nil {
				if b, ok := t.Underlying().(*types.Basic); ok && b.Kind() == types.Bool {
					w.emit(Op{Kind: "OFlagSet", Role: "RFlagClosed", Txt: w.text(s)}, s.Pos())
				}
			}
		}
	}
	if len(s.Lhs) == len(s.Rhs) {
		for i, r := range s.Rhs {
			if id, ok := s.Lhs[i].(*ast.Ident); ok {
				if _, isLit := r.(*ast.FuncLit); isLit {
					w.bind(id, r)
					continue
				}
				w.bind(id, r)
			}
			w.expr(r)
		}
	} else {
		for _, r := range s.Rhs {
			w.expr(r)
		}
	}
	// composite-literal fields holding `make(chan wamp.Message, n)` are found in expr()
}

func (w *walker) send(s *ast.SendStmt, sel int, nb bool) {
	w.exprNoChanAccessor(s.Chan)
	role := w.chanRole(s.Chan)
	if fl, ok := s.Value.(*ast.FuncLit); ok {
		name := w.closure(fl)
		w.emit(Op{Kind: "OSubmit", Role: role, NB: nb, Sel: sel, Callee: name, Txt: w.text(s.Chan) + " <- func"}, s.Pos())
		k := actionKind(role)
		if k == "" {
			fail(s.Pos(), "function literal sent on a channel that is not an action channel: %s", w.text(s.Chan))
		} else {
			entries = append(entries, [2]string{name, k})
		}
		return
	}
	w.expr(s.Value)
	msg := ""
	if role == "RClientQ" || role == "RMetaSend" {
		msg = wampTypeName(w.p.info.TypeOf(s.Value))
		if msg == "" {
			msg = "Message"
		}
		if role == "RMetaSend" {
			metaIn = append(metaIn, [2]string{w.cur.Name, msg})
		}
	}
	w.emit(Op{Kind: "OSend", Role: role, NB: nb, Sel: sel, Msg: msg, Txt: w.text(s)}, s.Pos())
}

func actionKind(role string) string {
	switch role {
	case "RBrokerAct":
		return "KBroker"
	case "RDealerAct":
		return "KDealer"
	case "RRealmAct":
		return "KRealm"
	case "RRouterAct":
		return "KRouter"
	}
	return ""
}

func (w *walker) recvExpr(e ast.Expr, sel int, nb bool) {
	for {
		if p, ok := e.(*ast.ParenExpr); ok {
			e = p.X
			continue
		}
		break
	}
	u, ok := e.(*ast.UnaryExpr)
	if !ok || u.Op != token.ARROW {
		w.expr(e)
		return
	}
	w.exprNoChanAccessor(u.X)
	role := w.chanRole(u.X)
	w.emit(Op{Kind: "ORecv", Role: role, NB: nb, Sel: sel, Txt: w.text(e)}, e.Pos())
}

// exprNoChanAccessor walks the sub-expressions of a channel expression without
// treating the accessor call itself (X.Send(), X.Recv(), time.After(..)) as a call.
func (w *walker) exprNoChanAccessor(e ast.Expr) {
	switch x := e.(type) {
	case *ast.CallExpr:
		if se, ok := x.Fun.(*ast.SelectorExpr); ok {
			w.expr(se.X)
		}
		for _, a := range x.Args {
			w.expr(a)
		}
	case *ast.SelectorExpr:
		w.expr(x.X)
	case *ast.ParenExpr:
		w.exprNoChanAccessor(x.X)
	}
}

func (w *walker) chanRole(e ast.Expr) string {
	r := w.chanRoleQuiet(e)
	if r == "" {
		fail(e.Pos(), "channel expression with unknown role: %s (in %s)", w.text(e), w.cur.Name)
		return "RNone"
	}
	return r
}

func isPeerType(t types.Type) bool {
	if t == nil {
		return false
	}
	ms := types.NewMethodSet(t)
	has := func(n string) bool { return ms.Lookup(nil, n) != nil || lookupAny(ms, n) }
	return has("Send") && has("Recv") && has("Close") && has("IsLocal")
}

func lookupAny(ms *types.MethodSet, name string) bool {
	for i := 0; i < ms.Len(); i++ {
		if ms.At(i).Obj().Name() == name {
			return true
		}
	}
	return false
}

func lastName(e ast.Expr) string {
	switch x := e.(type) {
	case *ast.Ident:
		return x.Name
	case *ast.SelectorExpr:
		return x.Sel.Name
	case *ast.ParenExpr:
		return lastName(x.X)
	}
	return ""
}

func (w *walker) chanRoleQuiet(e ast.Expr) string {
	switch x := e.(type) {
	case *ast.ParenExpr:
		return w.chanRoleQuiet(x.X)
	case *ast.Ident:
		obj := w.p.info.Uses[x]
		if obj == nil {
			obj = w.p.info.Defs[x]
		}
		if obj != nil {
			if w.locals[obj] {
				return "RLocal"
			}
			if r, ok := w.alias[obj]; ok {
				return r
			}
		}
		return ""
	case *ast.SelectorExpr:
		owner := recvTypeName(w.p.info.TypeOf(x.X))
		switch x.Sel.Name {
		case "actionChan":
			switch owner {
			case "broker":
				return "RBrokerAct"
			case "dealer":
				return "RDealerAct"
			case "realm":
				return "RRealmAct"
			case "router":
				return "RRouterAct"
			}
		case "stopped":
			switch owner {
			case "broker":
				return "RStoppedBroker"
			case "dealer":
				return "RStoppedDealer"
			case "realm":
				return "RStoppedRealm"
			case "router":
				return "RStoppedRouter"
			}
		case "metaDone":
			if owner == "realm" {
				return "RMetaDone"
			}
		case "metaStop":
			if owner == "realm" {
				return "RMetaStop"
			}
		case "quit":
			if owner == "router" {
				return "RRouterQuit"
			}
		case "stopMemStats", "memStatsStopped":
			if owner == "router" {
				return "RMemStats"
			}
		case "C":
			if t := w.p.info.TypeOf(x.X); t != nil {
				s := t.String()
				if strings.HasSuffix(s, "time.Timer") || strings.HasSuffix(s, "time.Ticker") {
					return "RTimer"
				}
			}
		}
		if owner == "rawSocketPeer" || owner == "websocketPeer" || owner == "localPeer" {
			switch x.Sel.Name {
			case "wr":
				return "RPeerWr"
			case "rd":
				return "RPeerRd"
			case "closed":
				return "RPeerClosed"
			case "writerDone":
				return "RPeerWriterDone"
			case "recvDone":
				return "RPeerRecvDone"
			}
		}
		return ""
	case *ast.CallExpr:
		se, ok := x.Fun.(*ast.SelectorExpr)
		if !ok {
			return ""
		}
		// time.After(d)
		if id, ok := se.X.(*ast.Ident); ok {
			if pn, ok := w.p.info.Uses[id].(*types.PkgName); ok {
				if pn.Imported().Path() == "time" && se.Sel.Name == "After" {
					return "RTimer"
				}
				return ""
			}
		}
		xt := w.p.info.TypeOf(se.X)
		switch se.Sel.Name {
		case "Done":
			if xt != nil && strings.HasSuffix(xt.String(), "context.Context") {
				return "RTimer"
			}
		case "Send":
			if isPeerType(xt) {
				if lastName(se.X) == "metaPeer" {
					return "RMetaSend"
				}
				return "RClientQ"
			}
		case "Recv":
			if isPeerType(xt) {
				switch lastName(se.X) {
				case "metaPeer":
					return "RMetaRecv"
				case "metaSess":
					return "RMetaSend"
				}
				return "RSessRecv"
			}
		case "RecvDone":
			if recvTypeName(xt) == "Session" {
				return "RRecvDone"
			}
		}
		return ""
	}
	return ""
}

// staticCallee returns the inventory name of the function a call expression
// statically refers to, or "".
func (w *walker) staticCallee(c *ast.CallExpr) string {
	switch f := c.Fun.(type) {
	case *ast.Ident:
		if obj := w.p.info.Uses[f]; obj != nil {
			if fn, ok := obj.(*types.Func); ok && inInventory(fn.Pkg()) {
				return funcObjName(fn)
			}
			if n, ok := w.closures[obj]; ok {
				return n
			}
		}
	case *ast.SelectorExpr:
		if sel, ok := w.p.info.Selections[f]; ok {
			if fn, ok := sel.Obj().(*types.Func); ok && inInventory(fn.Pkg()) {
				if _, isIface := sel.Recv().Underlying().(*types.Interface); !isIface {
					return funcObjName(fn)
				}
			}
			return ""
		}
		if fn, ok := w.p.info.Uses[f.Sel].(*types.Func); ok && inInventory(fn.Pkg()) {
			return funcObjName(fn) // package-qualified
		}
	case *ast.ParenExpr:
		return w.staticCallee(&ast.CallExpr{Fun: f.X, Args: c.Args})
	}
	return ""
}

// externalCallee: the call statically refers to a function or method declared
// outside the inventory packages.
func (w *walker) externalCallee(c *ast.CallExpr) bool {
	switch f := c.Fun.(type) {
	case *ast.Ident:
		if fn, ok := w.p.info.Uses[f].(*types.Func); ok {
			return !inInventory(fn.Pkg())
		}
	case *ast.SelectorExpr:
		if sel, ok := w.p.info.Selections[f]; ok {
			if fn, ok := sel.Obj().(*types.Func); ok {
				return !inInventory(fn.Pkg())
			}
			return false
		}
		if fn, ok := w.p.info.Uses[f.Sel].(*types.Func); ok {
			return !inInventory(fn.Pkg())
		}
	}
	return false
}

func (w *walker) expr(e ast.Expr) {
	switch x := e.(type) {
	case nil:
	case *ast.FuncLit:
		// a literal used as a value (argument, field): treated as called here
		name := w.closure(x)
		w.emit(Op{Kind: "OCall", Role: "RNone", Callee: name, Txt: "func literal"}, x.Pos())
	case *ast.UnaryExpr:
		if x.Op == token.ARROW {
			w.recvExpr(x, 0, false)
			return
		}
		w.expr(x.X)
	case *ast.CallExpr:
		w.call(x)
	case *ast.CompositeLit:
		for _, el := range x.Elts {
			if kv, ok := el.(*ast.KeyValueExpr); ok {
				if ce, ok := kv.Value.(*ast.CallExpr); ok {
					if id, ok := ce.Fun.(*ast.Ident); ok && id.Name == "make" && len(ce.Args) >= 1 {
						if t := w.p.info.TypeOf(ce.Args[0]); t != nil {
							if ch, ok := t.Underlying().(*types.Chan); ok {
								w.recordMake(ch, ce)
							}
						}
					}
				}
				w.expr(kv.Value)
			} else {
				w.expr(el)
			}
		}
	default:
		first := true
		ast.Inspect(e, func(n ast.Node) bool {
			if n == nil {
				return false
			}
			if first {
				first = false
				return true
			}
			if ce, ok := n.(ast.Expr); ok {
				w.expr(ce)
			}
			return false
		})
	}
}

func (w *walker) call(c *ast.CallExpr) {
	// builtins and conversions
	if id, ok := c.Fun.(*ast.Ident); ok {
		if b, ok := w.p.info.Uses[id].(*types.Builtin); ok {
			if b.Name() == "close" && len(c.Args) == 1 {
				w.exprNoChanAccessor(c.Args[0])
				w.emit(Op{Kind: "OClose", Role: w.chanRole(c.Args[0]), Txt: w.text(c)}, c.Pos())
				return
			}
			for _, a := range c.Args {
				w.expr(a)
			}
			return
		}
	}
	if tv, ok := w.p.info.Types[c.Fun]; ok && tv.IsType() {
		for _, a := range c.Args {
			w.expr(a)
		}
		return
	}
	// immediately invoked literal
	if fl, ok := c.Fun.(*ast.FuncLit); ok {
		for _, a := range c.Args {
			w.expr(a)
		}
		w.block(fl.Body)
		return
	}
	if se, ok := c.Fun.(*ast.SelectorExpr); ok {
		if _, isSel := w.p.info.Selections[se]; isSel {
			w.expr(se.X)
			xt := w.p.info.TypeOf(se.X)
			xs := ""
			if xt != nil {
				xs = xt.String()
			}
			m := se.Sel.Name
			isMutex := strings.HasSuffix(xs, "sync.Mutex") || strings.HasSuffix(xs, "sync.RWMutex")
			switch {
			case isMutex && (m == "Lock" || m == "Unlock" || m == "RLock" || m == "RUnlock"):
				role := ""
				if lastName(se.X) == "closeLock" {
					role = "RCloseLock"
				} else if sx, ok := se.X.(*ast.SelectorExpr); ok {
					switch recvTypeName(w.p.info.TypeOf(sx.X)) {
					case "rawSocketPeer", "websocketPeer", "localPeer":
						role = "RPeerMutex"
					}
				}
				if role == "" {
					fail(c.Pos(), "mutex with unknown role: %s", w.text(se.X))
					role = "RNone"
				}
				k := "OLock"
				if strings.HasSuffix(m, "nlock") {
					k = "OUnlock"
				}
				w.emit(Op{Kind: k, Role: role, Txt: w.text(c)}, c.Pos())
				return
			case recvTypeName(xt) == "Session" && wampTypeName(xt) == "Session" && (m == "Lock" || m == "Unlock"):
				k := "OLock"
				if m == "Unlock" {
					k = "OUnlock"
				}
				w.emit(Op{Kind: k, Role: "RSessMutex", Txt: w.text(c)}, c.Pos())
				return
			case strings.HasSuffix(xs, "sync.WaitGroup") && (m == "Add" || m == "Done" || m == "Wait"):
				role := ""
				switch lastName(se.X) {
				case "waitHandlers":
					role = "RWgHandlers"
				case "timers":
					role = "RWgTimers"
				}
				if role == "" {
					fail(c.Pos(), "wait group with unknown role: %s", w.text(se.X))
					role = "RNone"
				}
				for _, a := range c.Args {
					w.expr(a)
				}
				w.emit(Op{Kind: "OWg" + m, Role: role, Txt: w.text(c)}, c.Pos())
				return
			case strings.HasSuffix(xs, "sync.Once") && m == "Do" && len(c.Args) == 1:
				if fl, ok := c.Args[0].(*ast.FuncLit); ok {
					w.block(fl.Body)
					return
				}
			case m == "Close" && isPeerType(xt):
				w.emit(Op{Kind: "OPeerClose", Role: "RClientQ", Txt: w.text(c)}, c.Pos())
				return
			case m == "EndRecv" && wampTypeName(xt) == "Session":
				for _, a := range c.Args {
					w.expr(a)
				}
				w.emit(Op{Kind: "OEndRecv", Role: "RRecvDone", Txt: w.text(c)}, c.Pos())
				return
			case (m == "Send" || m == "Recv" || m == "RecvDone" || m == "IsLocal") && (isPeerType(xt) || wampTypeName(xt) == "Session"):
				return // accessor
			}
		} else {
			// package-qualified or field of func type
			if id, ok := se.X.(*ast.Ident); ok {
				if _, isPkg := w.p.info.Uses[id].(*types.PkgName); !isPkg {
					w.expr(se.X)
				}
			} else {
				w.expr(se.X)
			}
		}
	}
	if tgt := w.staticCallee(c); tgt != "" {
		if sb, ok := submitters[tgt]; ok && sb.param < len(c.Args) {
			if fl, ok := c.Args[sb.param].(*ast.FuncLit); ok {
				// helper(func(){...}) where helper sends its parameter on an action
				// channel: the literal is a closure submitted to that goroutine.
				for i, a := range c.Args {
					if i != sb.param {
						w.expr(a)
					}
				}
				name := w.closure(fl)
				w.emit(Op{Kind: "OSubmit", Role: sb.role, Callee: name, Txt: w.text(c.Fun) + "(func)"}, c.Pos())
				entries = append(entries, [2]string{name, actionKind(sb.role)})
				w.emit(Op{Kind: "OCall", Role: "RNone", Callee: tgt, Txt: w.text(c.Fun)}, c.Pos())
				return
			}
		}
	}
	for _, a := range c.Args {
		w.expr(a)
	}
	if tgt := w.staticCallee(c); tgt != "" {
		w.emit(Op{Kind: "OCall", Role: "RNone", Callee: tgt, Txt: w.text(c.Fun)}, c.Pos())
		return
	}
	// interface method of an inventory interface, or a call through a func value:
	// every address-taken / implementing inventory function with that signature.
	ft := w.p.info.TypeOf(c.Fun)
	sig, _ := ft.(*types.Signature)
	if sig == nil && ft != nil {
		sig, _ = ft.Underlying().(*types.Signature)
	}
	if sig == nil {
		return
	}
	if se, ok := c.Fun.(*ast.SelectorExpr); ok {
		if sel, ok := w.p.info.Selections[se]; ok {
			if _, isIface := sel.Recv().Underlying().(*types.Interface); isIface {
				if n, ok := sel.Recv().(*types.Named); !ok || !inInventory(n.Obj().Pkg()) {
					return // interface declared elsewhere (error, wamp.Peer accessors, net.Conn, ...)
				}
				for _, name := range methodsBySig[se.Sel.Name+"|"+sigKey(sig)] {
					w.emit(Op{Kind: "OCall", Role: "RNone", Callee: name, Txt: w.text(c.Fun)}, c.Pos())
				}
				return
			}
		}
	}
	for _, name := range addrOf[sigKey(sig)] {
		w.emit(Op{Kind: "OCall", Role: "RNone", Callee: name, Txt: w.text(c.Fun)}, c.Pos())
	}
}

// submitters: functions that send one of their func-typed parameters on an
// action channel (e.g. router.submit): function name -> (parameter index, role).
type submitter struct {
	param int
	role  string
}

var submitters = map[string]submitter{}

func collectSubmitters(p *pkgInfo) {
	for _, f := range p.files {
		for _, d := range f.Decls {
			fd, ok := d.(*ast.FuncDecl)
			if !ok || fd.Body == nil {
				continue
			}
			obj := p.info.Defs[fd.Name].(*types.Func)
			var params []types.Object
			for _, fl := range fd.Type.Params.List {
				for _, n := range fl.Names {
					params = append(params, p.info.Defs[n])
				}
			}
			w := &walker{p: p, cur: &Func{Name: funcObjName(obj)}, locals: map[types.Object]bool{}, alias: map[types.Object]string{}, closures: map[types.Object]string{}}
			ast.Inspect(fd.Body, func(n ast.Node) bool {
				ss, ok := n.(*ast.SendStmt)
				if !ok {
					return true
				}
				id, ok := ss.Value.(*ast.Ident)
				if !ok {
					return true
				}
				role := w.chanRoleQuiet(ss.Chan)
				if actionKind(role) == "" {
					return true
				}
				for i, po := range params {
					if po != nil && p.info.Uses[id] == po {
						submitters[funcObjName(obj)] = submitter{i, role}
					}
				}
				return true
			})
		}
	}
}

// constMs: package-level time.Duration constants of the router package, in ms.
var constMs = map[string]int64{}

func collectConsts(p *pkgInfo) {
	for _, name := range []string{"sendResultDeadline", "yieldRetryDelay"} {
		obj := p.pkg.Scope().Lookup(name)
		c, ok := obj.(*types.Const)
		if !ok {
			if p.name == "router" {
				fatal = append(fatal, "constant "+name+" not found in package router")
			}
			continue
		}
		if v, ok := constant.Int64Val(constant.ToInt(c.Val())); ok {
			constMs[name] = v / 1000000
		}
	}
}

// yieldKeep: does dealer.syncYield keep the call in the dealer's tables when it
// asks dealer.yield for a retry?  "Some true" / "Some false" / "None" (the
// shape of the code is not one this reading decides) and a description.
//
// Reading: the clean-up of a final YIELD is a deferred function literal that
// deletes from d.calls / d.invocations / d.invocationByCall.  It must be
// guarded by a local boolean flag, and on every path that returns true (the
// "again" result) the last assignment to that flag, looked up through the
// enclosing blocks, must make the guard skip the deletes.
var yieldKeep, yieldKeepWhy = "None", "router.(*dealer).syncYield not found"

var callTables = map[string]bool{"calls": true, "invocations": true, "invocationByCall": true}

func isTableDelete(n ast.Node) bool {
	c, ok := n.(*ast.CallExpr)
	if !ok || len(c.Args) != 2 {
		return false
	}
	if id, ok := c.Fun.(*ast.Ident); !ok || id.Name != "delete" {
		return false
	}
	sel, ok := c.Args[0].(*ast.SelectorExpr)
	return ok && callTables[sel.Sel.Name]
}

func containsTableDelete(n ast.Node) bool {
	found := false
	ast.Inspect(n, func(x ast.Node) bool {
		if x != nil && isTableDelete(x) {
			found = true
		}
		return !found
	})
	return found
}

// flagCond reads a condition that is a flag or its negation.
func flagCond(e ast.Expr) (string, bool, bool) {
	switch c := e.(type) {
	case *ast.Ident:
		return c.Name, true, true
	case *ast.ParenExpr:
		return flagCond(c.X)
	case *ast.UnaryExpr:
		if c.Op == token.NOT {
			if n, v, ok := flagCond(c.X); ok {
				return n, !v, true
			}
		}
	}
	return "", false, false
}

func boolLit(e ast.Expr) (bool, bool) {
	if id, ok := e.(*ast.Ident); ok && (id.Name == "true" || id.Name == "false") {
		return id.Name == "true", true
	}
	return false, false
}

// assignsFlag: 1 = the statement itself assigns a boolean literal to the flag
// (value in v), 2 = it (or something nested in it) assigns the flag in a way
// this reading does not follow, 0 = it does not touch the flag.
func assignsFlag(st ast.Stmt, flag string) (int, bool) {
	switch a := st.(type) {
	case *ast.AssignStmt:
		for i, l := range a.Lhs {
			if id, ok := l.(*ast.Ident); ok && id.Name == flag {
				if len(a.Lhs) == len(a.Rhs) {
					if v, ok := boolLit(a.Rhs[i]); ok {
						return 1, v
					}
				}
				return 2, false
			}
		}
		return 0, false
	case *ast.DeclStmt:
		if gd, ok := a.Decl.(*ast.GenDecl); ok {
			for _, sp := range gd.Specs {
				vs, ok := sp.(*ast.ValueSpec)
				if !ok {
					continue
				}
				for i, n := range vs.Names {
					if n.Name != flag {
						continue
					}
					if len(vs.Values) == 0 {
						return 1, false // zero value
					}
					if i < len(vs.Values) {
						if v, ok := boolLit(vs.Values[i]); ok {
							return 1, v
						}
					}
					return 2, false
				}
			}
		}
		return 0, false
	}
	touched := false
	ast.Inspect(st, func(x ast.Node) bool {
		switch a := x.(type) {
		case *ast.AssignStmt:
			for _, l := range a.Lhs {
				if id, ok := l.(*ast.Ident); ok && id.Name == flag {
					touched = true
				}
			}
		case *ast.UnaryExpr:
			if id, ok := a.X.(*ast.Ident); ok && a.Op == token.AND && id.Name == flag {
				touched = true
			}
		}
		return !touched
	})
	if touched {
		return 2, false
	}
	return 0, false
}

type blockFrame struct {
	stmts []ast.Stmt
	idx   int
}

func collectYieldKeep(p *pkgInfo) {
	var fn *ast.FuncDecl
	for _, f := range p.files {
		for _, d := range f.Decls {
			if fd, ok := d.(*ast.FuncDecl); ok && fd.Name.Name == "syncYield" && fd.Recv != nil && fd.Body != nil {
				fn = fd
			}
		}
	}
	if fn == nil {
		return
	}
	where := func(pos token.Pos) string {
		q := fset.Position(pos)
		return fmt.Sprintf("%s:%d", filepath.Base(q.Filename), q.Line)
	}
	// 1. the deferred clean-up
	var cleanup *ast.FuncLit
	var deferPos token.Pos
	ast.Inspect(fn.Body, func(n ast.Node) bool {
		if ds, ok := n.(*ast.DeferStmt); ok && cleanup == nil {
			if fl, ok := ds.Call.Fun.(*ast.FuncLit); ok && containsTableDelete(fl.Body) {
				cleanup, deferPos = fl, ds.Pos()
			}
		}
		return true
	})
	if cleanup == nil {
		yieldKeep, yieldKeepWhy = "None", "no deferred function literal deleting from the call tables in syncYield"
		return
	}
	// 2. its guard: skipWhen = value of the flag for which the deletes are skipped
	flag, skipWhen, guarded, unknown := "", false, false, false
	for _, st := range cleanup.Body.List {
		if is, ok := st.(*ast.IfStmt); ok && is.Init == nil {
			n, v, okc := flagCond(is.Cond)
			onlyReturn := len(is.Body.List) == 1
			if onlyReturn {
				_, onlyReturn = is.Body.List[0].(*ast.ReturnStmt)
			}
			switch {
			case okc && onlyReturn && is.Else == nil && !containsTableDelete(is.Body):
				flag, skipWhen, guarded = n, v, true
			case okc && is.Else == nil && containsTableDelete(is.Body):
				flag, skipWhen, guarded = n, !v, true
			case containsTableDelete(is):
				unknown = true
			default:
				continue
			}
			break
		}
		if containsTableDelete(st) {
			break // deletes reached without a guard
		}
	}
	// 3. the "again" returns after the defer
	var verdicts []string
	anyAgain, allKeep := false, true
	var visit func(stmts []ast.Stmt, outer []blockFrame)
	judge := func(ret *ast.ReturnStmt, frames []blockFrame) {
		if ret.Pos() < deferPos || len(ret.Results) != 1 {
			return
		}
		v, ok := boolLit(ret.Results[0])
		if !ok {
			unknown = true
			verdicts = append(verdicts, where(ret.Pos())+": result is not a boolean literal")
			return
		}
		if !v {
			return
		}
		anyAgain = true
		if !guarded {
			allKeep = false
			verdicts = append(verdicts, where(ret.Pos())+": returns true (retry) while the deferred clean-up at "+where(deferPos)+" is unconditional")
			return
		}
		for k := len(frames) - 1; k >= 0; k-- {
			fr := frames[k]
			for i := fr.idx - 1; i >= 0; i-- {
				switch how, val := assignsFlag(fr.stmts[i], flag); how {
				case 1:
					if val != skipWhen {
						allKeep = false
						verdicts = append(verdicts, fmt.Sprintf("%s: returns true (retry) with %s = %v: the deferred clean-up at %s runs", where(ret.Pos()), flag, val, where(deferPos)))
					}
					return
				case 2:
					unknown = true
					verdicts = append(verdicts, where(fr.stmts[i].Pos())+": assignment to "+flag+" not followed")
					return
				}
			}
		}
		unknown = true
		verdicts = append(verdicts, where(ret.Pos())+": no assignment to "+flag+" found before it")
	}
	visit = func(stmts []ast.Stmt, outer []blockFrame) {
		for i, st := range stmts {
			frames := append(append([]blockFrame{}, outer...), blockFrame{stmts, i})
			switch s := st.(type) {
			case *ast.ReturnStmt:
				judge(s, frames)
			case *ast.BlockStmt:
				visit(s.List, frames)
			case *ast.LabeledStmt:
				visit([]ast.Stmt{s.Stmt}, frames)
			case *ast.IfStmt:
				visit(s.Body.List, frames)
				for e := s.Else; e != nil; {
					switch x := e.(type) {
					case *ast.BlockStmt:
						visit(x.List, frames)
						e = nil
					case *ast.IfStmt:
						visit(x.Body.List, frames)
						e = x.Else
					default:
						e = nil
					}
				}
			case *ast.ForStmt:
				visit(s.Body.List, frames)
			case *ast.RangeStmt:
				visit(s.Body.List, frames)
			case *ast.SwitchStmt:
				visit(s.Body.List, frames)
			case *ast.TypeSwitchStmt:
				visit(s.Body.List, frames)
			case *ast.SelectStmt:
				visit(s.Body.List, frames)
			case *ast.CaseClause:
				visit(s.Body, frames)
			case *ast.CommClause:
				visit(s.Body, frames)
			}
		}
	}
	visit(fn.Body.List, nil)
	switch {
	case !anyAgain && !unknown:
		yieldKeep, yieldKeepWhy = "None", "syncYield never returns true after its deferred clean-up (no retry path)"
	case !allKeep:
		yieldKeep, yieldKeepWhy = "Some false", strings.Join(verdicts, "; ")
	case unknown:
		yieldKeep, yieldKeepWhy = "None", strings.Join(verdicts, "; ")
	default:
		yieldKeep = "Some true"
		yieldKeepWhy = fmt.Sprintf("clean-up deferred at %s is skipped when %s = %v; every return true after it follows %s = %v", where(deferPos), flag, skipWhen, flag, skipWhen)
	}
}

// invkDrops: every place where the dealer forgets an invocation
// (delete(<x>.invocations, k)) or overwrites its timer handle
// (<x>.timerCancel = ...), with whether a call of <y>.timerCancel() comes
// first.  dealer.close can only stop the timers of invocations that are still
// in d.invocations (and then waits for the timer goroutines), so an invocation
// must not leave the table with its timer running.
//
// "Comes first": a statement that contains a timerCancel() call precedes the
// drop in one of the blocks enclosing it, looking outwards through enclosing
// blocks and function literals up to, and not beyond, the innermost loop body.
var invkDrops [][3]string // function, file:line, "true" / "false"

func hasTimerCancelCall(n ast.Node) bool {
	found := false
	ast.Inspect(n, func(x ast.Node) bool {
		if c, ok := x.(*ast.CallExpr); ok {
			if sel, ok := c.Fun.(*ast.SelectorExpr); ok && sel.Sel.Name == "timerCancel" {
				found = true
			}
		}
		return !found
	})
	return found
}

func collectInvkDrops(p *pkgInfo) {
	for _, f := range p.files {
		for _, d := range f.Decls {
			fd, ok := d.(*ast.FuncDecl)
			if !ok || fd.Body == nil {
				continue
			}
			name := fd.Name.Name
			if fd.Recv != nil && len(fd.Recv.List) == 1 {
				name = "(" + types.ExprString(fd.Recv.List[0].Type) + ")." + name
			}
			// path: the chain of nodes from the body down to the current one
			var path []ast.Node
			ast.Inspect(fd.Body, func(n ast.Node) bool {
				if n == nil {
					path = path[:len(path)-1]
					return true
				}
				path = append(path, n)
				drop := false
				switch x := n.(type) {
				case *ast.CallExpr:
					if id, ok := x.Fun.(*ast.Ident); ok && id.Name == "delete" && len(x.Args) == 2 {
						if sel, ok := x.Args[0].(*ast.SelectorExpr); ok && sel.Sel.Name == "invocations" {
							drop = true
						}
					}
				case *ast.AssignStmt:
					for _, l := range x.Lhs {
						if sel, ok := l.(*ast.SelectorExpr); ok && sel.Sel.Name == "timerCancel" {
							drop = true
						}
					}
				}
				if !drop {
					return true
				}
				cancelled := false
				// walk outwards: child = the node of path that lies inside parent
			outer:
				for i := len(path) - 1; i > 0; i-- {
					child, parent := path[i], path[i-1]
					var list []ast.Stmt
					switch b := parent.(type) {
					case *ast.BlockStmt:
						list = b.List
					case *ast.CaseClause:
						list = b.Body
					case *ast.CommClause:
						list = b.Body
					}
					for _, st := range list {
						if st == child {
							break
						}
						if st.End() <= child.Pos() && hasTimerCancelCall(st) {
							cancelled = true
							break outer
						}
					}
					switch parent.(type) {
					case *ast.ForStmt, *ast.RangeStmt:
						break outer
					}
				}
				pos := fset.Position(n.Pos())
				invkDrops = append(invkDrops, [3]string{p.name + "." + name, fmt.Sprintf("%s:%d", filepath.Base(pos.Filename), pos.Line), fmt.Sprint(cancelled)})
				return true
			})
		}
	}
}

// yieldStopsTimer: does the first attempt of a final YIELD stop the call's
// timeout timer on the path that asks for a retry?  cancelWaitsIfSent: does
// syncCancel take its "mode kill: wait for the callee" early return only
// inside the select case that queued the INTERRUPT?  Both "Some true" /
// "Some false" / "None" (shape not decided by this reading).
var yieldStopsTimer, yieldStopsTimerWhy = "None", "router.(*dealer).syncYield not found"
var cancelWaitsIfSent, cancelWaitsIfSentWhy = "None", "router.(*dealer).syncCancel not found"

// timerCancelOutsideLits: n contains a timerCancel() call that is not inside a
// function literal.
func timerCancelOutsideLits(n ast.Node) bool {
	found := false
	ast.Inspect(n, func(x ast.Node) bool {
		if _, ok := x.(*ast.FuncLit); ok {
			return false
		}
		if c, ok := x.(*ast.CallExpr); ok {
			if sel, ok := c.Fun.(*ast.SelectorExpr); ok && sel.Sel.Name == "timerCancel" {
				found = true
			}
		}
		return !found
	})
	return found
}

func findMethod(p *pkgInfo, name string) *ast.FuncDecl {
	for _, f := range p.files {
		for _, d := range f.Decls {
			if fd, ok := d.(*ast.FuncDecl); ok && fd.Name.Name == name && fd.Recv != nil && fd.Body != nil {
				return fd
			}
		}
	}
	return nil
}

func collectYieldStopsTimer(p *pkgInfo) {
	fn := findMethod(p, "syncYield")
	if fn == nil {
		return
	}
	where := func(pos token.Pos) string {
		q := fset.Position(pos)
		return fmt.Sprintf("%s:%d", filepath.Base(q.Filename), q.Line)
	}
	if !hasTimerCancelCall(fn.Body) {
		yieldStopsTimer, yieldStopsTimerWhy = "None", "syncYield does not call timerCancel at all"
		return
	}
	// the chain of enclosing statement lists of every "return true"
	var path []ast.Node
	anyAgain, all := false, true
	var notes []string
	ast.Inspect(fn.Body, func(n ast.Node) bool {
		if n == nil {
			path = path[:len(path)-1]
			return true
		}
		path = append(path, n)
		if _, ok := n.(*ast.FuncLit); ok {
			path = path[:len(path)-1]
			return false
		}
		ret, ok := n.(*ast.ReturnStmt)
		if !ok || len(ret.Results) != 1 {
			return true
		}
		if v, isLit := boolLit(ret.Results[0]); !isLit || !v {
			return true
		}
		anyAgain = true
		stopped := false
	outer:
		for i := len(path) - 1; i > 0; i-- {
			child, parent := path[i], path[i-1]
			var list []ast.Stmt
			switch b := parent.(type) {
			case *ast.BlockStmt:
				list = b.List
			case *ast.CaseClause:
				list = b.Body
			case *ast.CommClause:
				list = b.Body
			}
			for _, st := range list {
				if st == child {
					break
				}
				if st.End() <= child.Pos() && timerCancelOutsideLits(st) {
					stopped = true
					break outer
				}
			}
		}
		if !stopped {
			all = false
			notes = append(notes, where(ret.Pos())+": returns true (retry) and no timerCancel() outside a function literal precedes it")
		}
		return true
	})
	switch {
	case !anyAgain:
		yieldStopsTimer, yieldStopsTimerWhy = "None", "syncYield never returns true (no retry path)"
	case all:
		yieldStopsTimer, yieldStopsTimerWhy = "Some true", "a timerCancel() call outside the deferred clean-up precedes every return true"
	default:
		yieldStopsTimer, yieldStopsTimerWhy = "Some false", strings.Join(notes, "; ")
	}
}

func collectCancelWaits(p *pkgInfo) {
	fn := findMethod(p, "syncCancel")
	if fn == nil {
		return
	}
	where := func(pos token.Pos) string {
		q := fset.Position(pos)
		return fmt.Sprintf("%s:%d", filepath.Base(q.Filename), q.Line)
	}
	// the select that offers the INTERRUPT: a send on <x>.Send() and a default
	var sel *ast.SelectStmt
	var sendClause *ast.CommClause
	ast.Inspect(fn.Body, func(n ast.Node) bool {
		s, ok := n.(*ast.SelectStmt)
		if !ok || sel != nil {
			return true
		}
		var send *ast.CommClause
		hasDefault := false
		for _, c := range s.Body.List {
			cc := c.(*ast.CommClause)
			if cc.Comm == nil {
				hasDefault = true
				continue
			}
			if ss, ok := cc.Comm.(*ast.SendStmt); ok {
				if call, ok := ss.Chan.(*ast.CallExpr); ok {
					if se, ok := call.Fun.(*ast.SelectorExpr); ok && se.Sel.Name == "Send" {
						send = cc
					}
				}
			}
		}
		if send != nil && hasDefault {
			sel, sendClause = s, send
		}
		return true
	})
	if sel == nil {
		cancelWaitsIfSent, cancelWaitsIfSentWhy = "None", "no select { case <x>.Send() <- ...: ...; default: } in syncCancel"
		return
	}
	// the first removal of the call after that select
	limit := fn.Body.End()
	ast.Inspect(fn.Body, func(n ast.Node) bool {
		if c, ok := n.(*ast.CallExpr); ok && c.Pos() > sel.End() && c.Pos() < limit {
			if id, ok := c.Fun.(*ast.Ident); ok && id.Name == "delete" && len(c.Args) == 2 {
				if se, ok := c.Args[0].(*ast.SelectorExpr); ok && callTables[se.Sel.Name] {
					limit = c.Pos()
				}
			}
		}
		return true
	})
	inside, outside := 0, []string{}
	ast.Inspect(fn.Body, func(n ast.Node) bool {
		if _, ok := n.(*ast.FuncLit); ok {
			return false
		}
		ret, ok := n.(*ast.ReturnStmt)
		if !ok || ret.Pos() < sel.Pos() || ret.Pos() > limit {
			return true
		}
		if ret.Pos() >= sendClause.Pos() && ret.End() <= sendClause.End() {
			inside++
		} else {
			outside = append(outside, where(ret.Pos()))
		}
		return true
	})
	switch {
	case len(outside) > 0:
		cancelWaitsIfSent = "Some false"
		cancelWaitsIfSentWhy = "syncCancel returns with the call still pending at " + strings.Join(outside, ", ") + ", outside the select case (" + where(sendClause.Pos()) + ") that queued the INTERRUPT"
	case inside > 0:
		cancelWaitsIfSent, cancelWaitsIfSentWhy = "Some true", "the only early return after the INTERRUPT is offered lies inside the send case at "+where(sendClause.Pos())
	default:
		cancelWaitsIfSent, cancelWaitsIfSentWhy = "None", "syncCancel has no early return between the INTERRUPT select and the removal of the call"
	}
}

// peerCloseBounds: for every method Close of the transport package that waits
// for its sender goroutine (a receive from <x>.writerDone): does a call of
// SetWriteDeadline come first (a preceding statement of an enclosing block
// contains one)?  The sender may sit in a network write to a client that
// stopped reading; without a deadline that wait never ends.
var peerCloseBounds [][3]string // method, file:line of the receive, "Some true" / "Some false"

func containsCallNamed(n ast.Node, name string) bool {
	found := false
	ast.Inspect(n, func(x ast.Node) bool {
		if c, ok := x.(*ast.CallExpr); ok {
			if sel, ok := c.Fun.(*ast.SelectorExpr); ok && sel.Sel.Name == name {
				found = true
			}
		}
		return !found
	})
	return found
}

func collectPeerCloseBounds(p *pkgInfo) {
	for _, f := range p.files {
		for _, d := range f.Decls {
			fd, ok := d.(*ast.FuncDecl)
			if !ok || fd.Body == nil || fd.Recv == nil || fd.Name.Name != "Close" || len(fd.Recv.List) != 1 {
				continue
			}
			name := p.name + ".(" + types.ExprString(fd.Recv.List[0].Type) + ").Close"
			var path []ast.Node
			ast.Inspect(fd.Body, func(n ast.Node) bool {
				if n == nil {
					path = path[:len(path)-1]
					return true
				}
				path = append(path, n)
				u, ok := n.(*ast.UnaryExpr)
				if !ok || u.Op != token.ARROW {
					return true
				}
				sel, ok := u.X.(*ast.SelectorExpr)
				if !ok || sel.Sel.Name != "writerDone" {
					return true
				}
				bounded := false
			outer:
				for i := len(path) - 1; i > 0; i-- {
					child, parent := path[i], path[i-1]
					var list []ast.Stmt
					switch b := parent.(type) {
					case *ast.BlockStmt:
						list = b.List
					case *ast.CaseClause:
						list = b.Body
					case *ast.CommClause:
						list = b.Body
					}
					for _, st := range list {
						if st == child {
							break
						}
						if st.End() <= child.Pos() && containsCallNamed(st, "SetWriteDeadline") {
							bounded = true
							break outer
						}
					}
				}
				pos := fset.Position(n.Pos())
				v := "Some false"
				if bounded {
					v = "Some true"
				}
				peerCloseBounds = append(peerCloseBounds, [3]string{name, fmt.Sprintf("%s:%d", filepath.Base(pos.Filename), pos.Line), v})
				return true
			})
		}
	}
}

// methodsBySig: "name|signature" -> inventory methods, for interface calls.
var methodsBySig = map[string][]string{}

func collectMethods(p *pkgInfo) {
	for _, f := range p.files {
		for _, d := range f.Decls {
			fd, ok := d.(*ast.FuncDecl)
			if !ok || fd.Recv == nil || fd.Body == nil {
				continue
			}
			obj := p.info.Defs[fd.Name].(*types.Func)
			k := fd.Name.Name + "|" + sigKey(obj.Type().(*types.Signature))
			methodsBySig[k] = append(methodsBySig[k], funcObjName(obj))
		}
	}
}

// ---------------------------------------------------------------------------
// goroutine kind attribution

func attribute() {
	// server loops and metaProcedureHandler: by the channel they range over
	for _, name := range order {
		f := funcs[name]
		for _, o := range f.Ops {
			if o.Kind != "ORange" {
				continue
			}
			if k := actionKind(o.Role); k != "" {
				entries = append(entries, [2]string{name, k})
			}
			if o.Role == "RMetaRecv" {
				entries = append(entries, [2]string{name, "KMetaProc"})
			}
		}
	}
	// exported API
	for _, name := range order {
		f := funcs[name]
		if !f.Exported || strings.Contains(name, "$") {
			continue
		}
		if f.Pkg == "router" {
			switch {
			case name == "router.Attach" || name == "router.AttachClient":
				entries = append(entries, [2]string{name, "KAttach"})
			case f.RecvType == "WebsocketServer" || f.RecvType == "RawSocketServer":
				entries = append(entries, [2]string{name, "KAttach"})
			case f.RecvType == "router" || f.RecvType == "":
				entries = append(entries, [2]string{name, "KApi"})
			}
		} else {
			switch {
			case strings.HasPrefix(name, "Connect"):
				entries = append(entries, [2]string{name, "KClientSide"})
			case f.RecvType == "":
				entries = append(entries, [2]string{name, "KAttach"})
			}
		}
	}
	// de-duplicate entries, keep order
	seen := map[[2]string]bool{}
	var es [][2]string
	for _, e := range entries {
		if !seen[e] {
			seen[e] = true
			es = append(es, e)
		}
	}
	entries = es
	for _, e := range entries {
		if f, ok := funcs[e[0]]; ok {
			f.Kinds[e[1]] = true
		} else {
			fatal = append(fatal, "entry point "+e[0]+" is not an inventory function")
		}
	}
	var peerClose []string
	for _, name := range order {
		if strings.HasSuffix(name, "Peer.Close") {
			peerClose = append(peerClose, name)
		}
	}
	changed := true
	for changed {
		changed = false
		add := func(callee string, kinds map[string]bool) {
			g, ok := funcs[callee]
			if !ok {
				return
			}
			for k := range kinds {
				if !g.Kinds[k] {
					g.Kinds[k] = true
					changed = true
				}
			}
		}
		for _, name := range order {
			f := funcs[name]
			for _, o := range f.Ops {
				switch o.Kind {
				case "OCall":
					add(o.Callee, f.Kinds)
				case "OPeerClose":
					for _, pc := range peerClose {
						add(pc, f.Kinds)
					}
				}
			}
		}
	}
}

// ---------------------------------------------------------------------------
// output

func q(s string) string {
	s = strings.ReplaceAll(s, "\"", "'")
	var b strings.Builder
	for _, r := range s {
		if r < 32 || r > 126 {
			b.WriteByte('?')
		} else {
			b.WriteRune(r)
		}
	}
	return "\"" + b.String() + "\""
}

func coqBool(b bool) string {
	if b {
		return "true"
	}
	return "false"
}

func emit() string {
	var b strings.Builder
	b.WriteString("(* GENERATED by go/cmd/genskel from router/*.go and transport/*.go — do not edit. *)\n")
	b.WriteString("From Coq Require Import String List NArith Bool.\nFrom Nexus Require Import Conc.SkelTypes.\nImport ListNotations.\nLocal Open Scope string_scope.\nLocal Open Scope N_scope.\n\n")
	sort.SliceStable(order, func(i, j int) bool {
		a, c := funcs[order[i]], funcs[order[j]]
		if a.File != c.File {
			return a.File < c.File
		}
		return a.Pos < c.Pos
	})
	var names []string
	for _, name := range order {
		f := funcs[name]
		id := ident(name)
		names = append(names, id)
		fmt.Fprintf(&b, "Definition %s : func := mkFunc %s %s [%s] [\n", id, q(f.Name), q(f.File), strings.Join(sortedKinds(f.Kinds), "; "))
		for i, o := range f.Ops {
			var ps []string
			for _, p := range o.Path {
				ps = append(ps, fmt.Sprintf("(%d, %d)", p[0], p[1]))
			}
			sep := ";"
			if i == len(f.Ops)-1 {
				sep = ""
			}
			fmt.Fprintf(&b, "  mkOp %s %s %s %d %s %s [%s] %d %s %s %s%s\n", o.Kind, o.Role, coqBool(o.NB), o.Sel, coqBool(o.Loop), coqBool(o.Defer), strings.Join(ps, "; "), o.Line, q(o.Callee), q(o.Msg), q(""), sep)
		}
		b.WriteString("].\n\n")
	}
	b.WriteString("Definition gen_funcs : list func := [\n  " + strings.Join(names, ";\n  ") + "\n].\n\n")
	pairs := func(name string, l [][2]string, second func(string) string) {
		fmt.Fprintf(&b, "Definition %s := [\n", name)
		for i, e := range l {
			sep := ";"
			if i == len(l)-1 {
				sep = ""
			}
			fmt.Fprintf(&b, "  (%s, %s)%s\n", q(e[0]), second(e[1]), sep)
		}
		b.WriteString("].\n\n")
	}
	pairs("gen_entries : list (string * gkind)", entries, func(s string) string { return s })
	pairs("gen_dispatch : list (string * string)", dedup2(dispatch), q)
	pairs("gen_meta_inbound : list (string * string)", dedup2(metaIn), q)
	var subs []string
	for n := range submitters {
		subs = append(subs, q(n))
	}
	sort.Strings(subs)
	b.WriteString("Definition gen_submitters : list string := [" + strings.Join(subs, "; ") + "].\n\n")
	fmt.Fprintf(&b, "Definition gen_send_result_deadline_ms : N := %d.\nDefinition gen_yield_retry_delay_ms : N := %d.\n\n", constMs["sendResultDeadline"], constMs["yieldRetryDelay"])
	fmt.Fprintf(&b, "(* %s *)\nDefinition gen_yield_retry_keeps_invocation : option bool := %s.\n\n", strings.ReplaceAll(yieldKeepWhy, "*)", "* )"), yieldKeep)
	cm := func(x string) string { return strings.ReplaceAll(x, "*)", "* )") }
	fmt.Fprintf(&b, "(* %s *)\nDefinition gen_yield_stops_timer_before_retry : option bool := %s.\n\n", cm(yieldStopsTimerWhy), yieldStopsTimer)
	fmt.Fprintf(&b, "(* %s *)\nDefinition gen_cancel_waits_only_if_interrupt_sent : option bool := %s.\n\n", cm(cancelWaitsIfSentWhy), cancelWaitsIfSent)
	b.WriteString("Definition gen_peer_close_bounds_write : list (string * string * option bool) := [\n")
	for i, d := range peerCloseBounds {
		sep := ";"
		if i == len(peerCloseBounds)-1 {
			sep = ""
		}
		fmt.Fprintf(&b, "  (%s, %s, %s)%s\n", q(d[0]), q(d[1]), d[2], sep)
	}
	b.WriteString("].\n\n")
	b.WriteString("Definition gen_invocation_drops : list (string * string * bool) := [\n")
	for i, d := range invkDrops {
		sep := ";"
		if i == len(invkDrops)-1 {
			sep = ""
		}
		fmt.Fprintf(&b, "  (%s, %s, %s)%s\n", q(d[0]), q(d[1]), d[2], sep)
	}
	b.WriteString("].\n\n")
	fmt.Fprintf(&b, "Definition gen_queue_makes : list (string * string * string) := [\n")
	for i, m := range makes {
		sep := ";"
		if i == len(makes)-1 {
			sep = ""
		}
		fmt.Fprintf(&b, "  (%s, %s, %s)%s\n", q(m[0]), q(m[1]), q(m[2]), sep)
	}
	b.WriteString("].\n")
	return b.String()
}

func dedup2(l [][2]string) [][2]string {
	seen := map[[2]string]bool{}
	var r [][2]string
	for _, e := range l {
		if !seen[e] {
			seen[e] = true
			r = append(r, e)
		}
	}
	return r
}

func sortedKinds(m map[string]bool) []string {
	var r []string
	for k := range m {
		r = append(r, k)
	}
	sort.Strings(r)
	return r
}

func ident(name string) string {
	var b strings.Builder
	b.WriteString("fn_")
	for _, r := range name {
		switch {
		case r >= 'a' && r <= 'z', r >= 'A' && r <= 'Z', r >= '0' && r <= '9':
			b.WriteRune(r)
		case r == '$':
			b.WriteString("_lit")
		default:
			b.WriteByte('_')
		}
	}
	return b.String()
}
