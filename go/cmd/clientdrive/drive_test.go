package clientdrive

import (
	"bufio"
	"context"
	"encoding/json"
	"errors"
	"fmt"
	"os"
	"regexp"
	"runtime"
	"sort"
	"strconv"
	"strings"
	"sync"
	"sync/atomic"
	"testing"
	"testing/synctest"
	"time"

	"github.com/gammazero/nexus/v3/client"
	"github.com/gammazero/nexus/v3/transport"
	"github.com/gammazero/nexus/v3/transport/serialize"
	"github.com/gammazero/nexus/v3/wamp"
)

// ---------------------------------------------------------------------------
// Schedule language (JSON, one schedule per line of DRIVE_IN)

type Sched struct {
	ID     string  `json:"id"`
	Cfg    Cfg     `json:"cfg"`
	Bursts []Burst `json:"bursts"`
}

type Cfg struct {
	RTms       int64  `json:"rt_ms"`       // client ResponseTimeout
	PPT        bool   `json:"ppt"`         // router announces payload_passthru_mode
	NoProgCall bool   `json:"no_progcall"` // router does NOT announce progressive_call_invocations
	CancelMode string `json:"cancel_mode"` // "", kill, killnowait, skip
	Debug      bool   `json:"debug"`
	// Join: what the router answers to HELLO (default: WELCOME with roles)
	Join *Join `json:"join,omitempty"`
}

type Join struct {
	Reply   string         `json:"reply"` // welcome abort goodbye challenge result close none nil_details
	Details map[string]Val `json:"details,omitempty"`
}

type Burst struct {
	Adv    int64   `json:"adv"` // virtual ms to let pass before the labels are released together
	Labels []Label `json:"labels"`
	// Prearm: the goroutines that sleep Adv and then release the labels are
	// started before the labels of the PREVIOUS burst (which must have Adv 0)
	// run, so that their timers are older than the timers the client arms in
	// that burst (decides which side wins when both fire at the same instant).
	Prearm bool `json:"prearm,omitempty"`
}

type Label struct {
	K string `json:"k"` // api msg cancel hret close end chunk chunkerr sprog stall unstall setmode
	O int    `json:"o"` // op number (api, cancel, close, chunk*)
	// api
	Op         string         `json:"op,omitempty"` // subscribe unsubscribe register unregister publish call callprog
	Name       int            `json:"name,omitempty"`
	Ack        bool           `json:"ack,omitempty"`
	Prog       bool           `json:"prog,omitempty"`   // progress handler supplied
	Ctx        string         `json:"ctx,omitempty"`    // bg cancel deadline
	DeadlineMs int64          `json:"deadline_ms,omitempty"`
	Chunks     int            `json:"chunks,omitempty"` // callprog: number of chunks the business side will feed
	Opts       map[string]Val `json:"opts,omitempty"`   // extra user options (ppt_*)
	// msg
	M *Msg `json:"m,omitempty"`
	// hret / sprog
	Inv int64  `json:"inv,omitempty"`
	R   string `json:"r,omitempty"` // ok omit err canceled
	Tag int64  `json:"tag,omitempty"`
	// chunk
	Final bool `json:"final,omitempty"`
	// setmode
	Mode string `json:"mode,omitempty"`
}

type Ref struct {
	Op   *int  `json:"op,omitempty"` // request id of that op (0 when not known)
	Lit  int64 `json:"lit,omitempty"`
	Plus int64 `json:"plus,omitempty"`
}

type Msg struct {
	T       string         `json:"t"`
	Req     Ref            `json:"req"`
	Sub     int64          `json:"sub,omitempty"`
	Reg     int64          `json:"reg,omitempty"`
	Pub     int64          `json:"pub,omitempty"`
	ErrType int            `json:"errtype,omitempty"`
	URI     string         `json:"uri,omitempty"`
	Details map[string]Val `json:"details,omitempty"`
	Args    []Val          `json:"args,omitempty"`
	Kw      map[string]Val `json:"kw,omitempty"`
	NoArgs  bool           `json:"noargs,omitempty"` // send without Arguments even when Tag is set
	Tag     int64          `json:"tag,omitempty"`
	seq     int            // position of the label in its burst
}

// Val is a typed WAMP value as a (possibly hostile) peer can produce it.
type Val struct {
	Ty  string         `json:"ty"` // nil bool int uint goint float str bytes list dict map payload nilpayload id
	S   string         `json:"s,omitempty"`
	I   int64          `json:"i,omitempty"`
	U   uint64         `json:"u,omitempty"` // uint values above MaxInt64
	F   float64        `json:"f,omitempty"`
	B   bool           `json:"b,omitempty"`
	L   []Val          `json:"l,omitempty"`
	D   map[string]Val `json:"d,omitempty"`
	Dec string         `json:"dec,omitempty"` // bytes: garbage | null | valid | raw
	Ser string         `json:"ser,omitempty"` // bytes: json msgpack cbor
}

func serializerFor(name string) serialize.Serializer {
	switch name {
	case "msgpack":
		return &serialize.MessagePackSerializer{}
	case "cbor":
		return &serialize.CBORSerializer{}
	}
	return &serialize.JSONSerializer{}
}

func (v Val) goval() any {
	switch v.Ty {
	case "nil", "":
		return nil
	case "bool":
		return v.B
	case "int":
		return v.I
	case "uint":
		if v.U != 0 {
			return v.U
		}
		return uint64(v.I)
	case "goint":
		return int(v.I)
	case "id":
		return wamp.ID(v.I)
	case "float":
		return v.F
	case "str":
		return v.S
	case "bytes":
		switch v.Dec {
		case "null":
			switch v.Ser {
			case "msgpack":
				return []byte{0xc0}
			case "cbor":
				return []byte{0xf6}
			}
			return []byte("null")
		case "valid":
			b, err := serializerFor(v.Ser).SerializeDataItem(&wamp.PassthruPayload{Arguments: wamp.List{v.I}})
			if err != nil {
				panic("harness: cannot serialize payload: " + err.Error())
			}
			return b
		case "raw":
			return []byte(v.S)
		}
		return []byte{0xff, 0xfe, 0x00, 0xc1, 0x7b}
	case "list":
		l := make(wamp.List, 0, len(v.L))
		for _, x := range v.L {
			l = append(l, x.goval())
		}
		return l
	case "dict":
		d := wamp.Dict{}
		for k, x := range v.D {
			d[k] = x.goval()
		}
		return d
	case "map":
		d := map[string]any{}
		for k, x := range v.D {
			d[k] = x.goval()
		}
		return d
	case "payload":
		return &wamp.PassthruPayload{Arguments: wamp.List{v.I}}
	case "nilpayload":
		return (*wamp.PassthruPayload)(nil)
	}
	panic("harness: unknown value type " + v.Ty)
}

func dictOf(m map[string]Val) wamp.Dict {
	d := wamp.Dict{}
	for k, v := range m {
		d[k] = v.goval()
	}
	return d
}

// ---------------------------------------------------------------------------
// Observations

type Obs struct {
	E    string `json:"e"`           // start ret sent event evx inv invctx invret prog done closeret note
	T    int64  `json:"t"`           // virtual ms since bubble start
	B    int    `json:"b"`           // burst index (-1 = set-up, len = epilogue)
	O    int    `json:"o,omitempty"` // op
	R    string `json:"r,omitempty"`
	Typ  string `json:"typ,omitempty"`
	Req  int64  `json:"req,omitempty"`
	Sub  int64  `json:"sub,omitempty"`
	Reg  int64  `json:"reg,omitempty"`
	Pub  int64  `json:"pub,omitempty"`
	Tag  int64  `json:"tag,omitempty"`
	N    int    `json:"n,omitempty"` // number of arguments seen
	Prog bool   `json:"prog,omitempty"`
	Mode string `json:"mode,omitempty"`
	URI  string `json:"uri,omitempty"`
	XOp  int    `json:"xop,omitempty"`
	Ctx  bool   `json:"ctx,omitempty"` // handler saw its context cancelled
	Txt  string `json:"txt,omitempty"`
}

type Result struct {
	ID     string `json:"id"`
	Idx    int    `json:"idx"`
	Status string `json:"status"` // ok hang leak harness_error
	Why    string `json:"why,omitempty"`
	Obs    []Obs  `json:"obs"`
	Stacks string `json:"stacks,omitempty"`
	Log    string `json:"log,omitempty"`
	Procs  int    `json:"gomaxprocs"`
}

// ---------------------------------------------------------------------------
// Driver

type opState struct {
	o      int
	label  Label
	req    int64 // request id learnt from what the client sent (0 = unknown)
	cancel context.CancelFunc
	done   chan struct{}
	chunk  chan string // callprog: "more", "final", "err"
	sent   int
	ret    bool // the API call has returned
}

type driver struct {
	t      *testing.T
	s      *Sched
	c      *client.Client
	rp     wamp.Peer
	mu     sync.Mutex
	obs    []Obs
	t0     time.Time
	burst  int
	ops    map[int]*opState
	quit   chan struct{}
	stall     chan struct{} // non-nil while the router end does not read
	stallKick chan struct{}
	rel    map[int64]chan Label // invocation request id -> release channel
	ended  bool
	closeN int
	closed []chan struct{}
	logbuf strings.Builder
	// topic/procedure number -> subscription/registration ids announced by the script
	lastSub map[int][]int64
	lastReg map[int][]int64
	doneCh  chan struct{}
}

type capLog struct{ d *driver }

func (l capLog) put(s string) {
	l.d.mu.Lock()
	if l.d.logbuf.Len() < 1<<16 {
		l.d.logbuf.WriteString(s)
	}
	l.d.mu.Unlock()
}
func (l capLog) Print(v ...any)            { l.put(fmt.Sprint(v...) + "\n") }
func (l capLog) Println(v ...any)          { l.put(fmt.Sprintln(v...)) }
func (l capLog) Printf(f string, v ...any) { l.put(fmt.Sprintf(f, v...) + "\n") }

func (d *driver) now() int64 { return int64(time.Since(d.t0) / time.Millisecond) }

// progress counts what the harness has done so far (observations, bursts,
// schedules); the wall-clock watchdog of TestDrive reads it from outside the
// bubble.  curDriver is the driver of the schedule that is running.
var (
	progress  atomic.Int64
	curDriver atomic.Pointer[driver]
)

func (d *driver) log(o Obs) {
	progress.Add(1)
	d.mu.Lock()
	o.T = d.now()
	o.B = d.burst
	d.obs = append(d.obs, o)
	d.mu.Unlock()
}

func topicName(n int) string { return "t.n" + strconv.Itoa(n) }
func procName(n int) string  { return "p.n" + strconv.Itoa(n) }

func atag(args wamp.List) (int64, int) {
	if len(args) == 0 {
		return -1, 0
	}
	if n, ok := wamp.AsInt64(args[0]); ok {
		if _, isf := args[0].(float64); !isf {
			return n, len(args)
		}
	}
	return -1, len(args)
}

func (d *driver) welcome() *wamp.Welcome {
	dealer := wamp.Dict{"call_canceling": true, "payload_passthru_mode": d.s.Cfg.PPT, "progressive_call_invocations": !d.s.Cfg.NoProgCall, "progressive_call_results": true}
	broker := wamp.Dict{"payload_passthru_mode": d.s.Cfg.PPT}
	return &wamp.Welcome{ID: 4242, Details: wamp.Dict{"roles": wamp.Dict{
		"broker": wamp.Dict{"features": broker},
		"dealer": wamp.Dict{"features": dealer}}}}
}

// drain is the scripted router's reader: it records everything the client
// sends and learns which request id belongs to which op.
func (d *driver) drain(first chan<- wamp.Message) {
	n := 0
	recv := d.rp.Recv()
	for {
		// label "stall": the router end stops taking what the client sends
		// (a session handler that is busy, a transport writer that has gone)
		d.mu.Lock()
		st := d.stall
		d.mu.Unlock()
		if st != nil {
			<-st
			continue
		}
		select {
		case m, ok := <-recv:
			if !ok {
				d.log(Obs{E: "cclosed"})
				return
			}
			if n == 0 {
				n++
				first <- m
				continue
			}
			d.record(m)
		case <-d.stallKick:
		}
	}
}

func (d *driver) setStall(on bool) {
	d.mu.Lock()
	defer d.mu.Unlock()
	if on && d.stall == nil {
		d.stall = make(chan struct{})
		select {
		case d.stallKick <- struct{}{}:
		default:
		}
	} else if !on && d.stall != nil {
		close(d.stall)
		d.stall = nil
	}
}

func xop(opts wamp.Dict) int {
	if v, ok := wamp.AsInt64(opts["x_op"]); ok {
		return int(v)
	}
	return 0
}

func (d *driver) bind(o int, req wamp.ID) {
	d.mu.Lock()
	if op, ok := d.ops[o]; ok && op.req == 0 {
		op.req = int64(req)
	}
	d.mu.Unlock()
}

// bindBy finds the oldest op of the given kind without a request id whose
// name maps to the given subscription / registration id.
func (d *driver) bindBy(kind string, id int64, req wamp.ID) int {
	d.mu.Lock()
	defer d.mu.Unlock()
	keys := make([]int, 0, len(d.ops))
	for k := range d.ops {
		keys = append(keys, k)
	}
	sort.Ints(keys)
	for _, k := range keys {
		op := d.ops[k]
		if op.label.Op != kind || op.req != 0 {
			continue
		}
		if op.ret {
			continue // it returned without sending (not subscribed / not connected)
		}
		want := d.lastReg[op.label.Name]
		if kind == "unsubscribe" {
			want = d.lastSub[op.label.Name]
		}
		for _, w := range want {
			if w == id {
				op.req = int64(req)
				return k
			}
		}
	}
	// the script announced several ids for the topic / procedure: fall back
	// to the oldest operation of that kind still without a request id
	for _, k := range keys {
		op := d.ops[k]
		if op.label.Op == kind && op.req == 0 && !op.ret {
			op.req = int64(req)
			return k
		}
	}
	return 0
}

func (d *driver) record(m wamp.Message) {
	o := Obs{E: "sent", Typ: m.MessageType().String()}
	switch m := m.(type) {
	case *wamp.Subscribe:
		o.Req, o.XOp, o.URI = int64(m.Request), xop(m.Options), string(m.Topic)
		d.bind(o.XOp, m.Request)
	case *wamp.Unsubscribe:
		o.Req, o.Sub = int64(m.Request), int64(m.Subscription)
		o.XOp = d.bindBy("unsubscribe", o.Sub, m.Request)
	case *wamp.Register:
		o.Req, o.XOp, o.URI = int64(m.Request), xop(m.Options), string(m.Procedure)
		d.bind(o.XOp, m.Request)
	case *wamp.Unregister:
		o.Req, o.Reg = int64(m.Request), int64(m.Registration)
		o.XOp = d.bindBy("unregister", o.Reg, m.Request)
	case *wamp.Publish:
		o.Req, o.XOp, o.URI = int64(m.Request), xop(m.Options), string(m.Topic)
		o.Prog, _ = m.Options[wamp.OptAcknowledge].(bool)
		d.bind(o.XOp, m.Request)
	case *wamp.Call:
		o.Req, o.XOp, o.URI = int64(m.Request), xop(m.Options), string(m.Procedure)
		o.Prog, _ = m.Options[wamp.OptProgress].(bool)
		if rp, _ := m.Options[wamp.OptReceiveProgress].(bool); rp {
			o.Mode = "recvprog"
		}
		o.Tag, o.N = atag(m.Arguments)
		if o.XOp != 0 {
			d.bind(o.XOp, m.Request)
		} else {
			// later chunks of a progressive call carry no user options
			d.mu.Lock()
			for k, op := range d.ops {
				if op.req == int64(m.Request) {
					o.XOp = k
				}
			}
			d.mu.Unlock()
		}
	case *wamp.Cancel:
		o.Req = int64(m.Request)
		o.Mode, _ = wamp.AsString(m.Options[wamp.OptMode])
		d.mu.Lock()
		for k, op := range d.ops {
			if op.req == int64(m.Request) {
				o.XOp = k
			}
		}
		d.mu.Unlock()
	case *wamp.Yield:
		o.Req = int64(m.Request)
		o.Prog, _ = m.Options[wamp.OptProgress].(bool)
		o.Tag, o.N = atag(m.Arguments)
	case *wamp.Error:
		o.Req, o.URI, o.Mode = int64(m.Request), string(m.Error), m.Type.String()
		o.Tag, o.N = atag(m.Arguments)
		if len(m.Arguments) > 0 {
			if txt, ok := m.Arguments[0].(string); ok {
				o.Txt = txt
			}
		}
	case *wamp.Goodbye:
		o.URI = string(m.Reason)
	case *wamp.Abort:
		o.URI = string(m.Reason)
	}
	d.log(o)
}

func (d *driver) reqOf(r Ref) wamp.ID {
	var v int64
	if r.Op != nil {
		d.mu.Lock()
		if op, ok := d.ops[*r.Op]; ok {
			v = op.req
		}
		d.mu.Unlock()
		if v == 0 && r.Plus == 0 {
			return 0
		}
	} else {
		v = r.Lit
	}
	return wamp.ID(v + r.Plus)
}

func (d *driver) build(m *Msg) wamp.Message {
	req := d.reqOf(m.Req)
	details := dictOf(m.Details)
	var args wamp.List
	if m.Args != nil {
		args = make(wamp.List, 0, len(m.Args))
		for _, a := range m.Args {
			args = append(args, a.goval())
		}
	} else if m.Tag != 0 && !m.NoArgs {
		args = wamp.List{m.Tag}
	}
	var kw wamp.Dict
	if m.Kw != nil {
		kw = dictOf(m.Kw)
	}
	switch m.T {
	case "subscribed":
		return &wamp.Subscribed{Request: req, Subscription: wamp.ID(m.Sub)}
	case "unsubscribed":
		return &wamp.Unsubscribed{Request: req}
	case "registered":
		return &wamp.Registered{Request: req, Registration: wamp.ID(m.Reg)}
	case "unregistered":
		return &wamp.Unregistered{Request: req}
	case "published":
		return &wamp.Published{Request: req, Publication: wamp.ID(m.Pub)}
	case "result":
		return &wamp.Result{Request: req, Details: details, Arguments: args, ArgumentsKw: kw}
	case "error":
		uri := m.URI
		if uri == "" {
			uri = "x.err"
		}
		return &wamp.Error{Type: wamp.MessageType(m.ErrType), Request: req, Details: details, Error: wamp.URI(uri), Arguments: args, ArgumentsKw: kw}
	case "event":
		return &wamp.Event{Subscription: wamp.ID(m.Sub), Publication: wamp.ID(m.Pub), Details: details, Arguments: args, ArgumentsKw: kw}
	case "invocation":
		return &wamp.Invocation{Request: req, Registration: wamp.ID(m.Reg), Details: details, Arguments: args, ArgumentsKw: kw}
	case "interrupt":
		return &wamp.Interrupt{Request: req, Options: details}
	case "goodbye":
		uri := m.URI
		if uri == "" {
			uri = string(wamp.CloseGoodbyeAndOut)
		}
		return &wamp.Goodbye{Reason: wamp.URI(uri), Details: details}
	case "abort":
		return &wamp.Abort{Reason: wamp.URI(m.URI), Details: details}
	case "welcome":
		return &wamp.Welcome{ID: 7, Details: details}
	case "challenge":
		return &wamp.Challenge{AuthMethod: "x", Extra: details}
	// messages a router never sends (client -> router types echoed back)
	case "hello":
		return &wamp.Hello{Realm: "r", Details: details}
	case "authenticate":
		return &wamp.Authenticate{Signature: "s", Extra: details}
	case "subscribe":
		return &wamp.Subscribe{Request: req, Options: details, Topic: "t"}
	case "unsubscribe":
		return &wamp.Unsubscribe{Request: req, Subscription: wamp.ID(m.Sub)}
	case "publish":
		return &wamp.Publish{Request: req, Options: details, Topic: "t", Arguments: args}
	case "register":
		return &wamp.Register{Request: req, Options: details, Procedure: "p"}
	case "unregister":
		return &wamp.Unregister{Request: req, Registration: wamp.ID(m.Reg)}
	case "call":
		return &wamp.Call{Request: req, Options: details, Procedure: "p", Arguments: args}
	case "cancel":
		return &wamp.Cancel{Request: req, Options: details}
	case "yield":
		return &wamp.Yield{Request: req, Options: details, Arguments: args}
	}
	panic("harness: unknown message kind " + m.T)
}

func (d *driver) sendMsg(m *Msg) {
	msg := d.build(m)
	d.mu.Lock()
	switch m.T {
	case "subscribed":
		if m.Req.Op != nil {
			if op, ok := d.ops[*m.Req.Op]; ok && (op.label.Op == "subscribe" || op.label.Op == "subscribechan") {
				d.lastSub[op.label.Name] = append(d.lastSub[op.label.Name], m.Sub)
			}
		}
	case "registered":
		if m.Req.Op != nil {
			if op, ok := d.ops[*m.Req.Op]; ok && op.label.Op == "register" {
				d.lastReg[op.label.Name] = append(d.lastReg[op.label.Name], m.Reg)
			}
		}
	}
	ended := d.ended
	d.mu.Unlock()
	if ended {
		d.log(Obs{E: "note", Txt: "msg-after-end"})
		return
	}
	var req int64
	switch x := msg.(type) {
	case *wamp.Subscribed:
		req = int64(x.Request)
	case *wamp.Unsubscribed:
		req = int64(x.Request)
	case *wamp.Registered:
		req = int64(x.Request)
	case *wamp.Unregistered:
		req = int64(x.Request)
	case *wamp.Published:
		req = int64(x.Request)
	case *wamp.Result:
		req = int64(x.Request)
	case *wamp.Error:
		req = int64(x.Request)
	case *wamp.Invocation:
		req = int64(x.Request)
	case *wamp.Interrupt:
		req = int64(x.Request)
	}
	// which request id the script resolved to (the model is given the same);
	// logged BEFORE the send so that it precedes, in the log, everything the
	// client does because of the message
	d.log(Obs{E: "rmsg", Typ: m.T, Req: req, N: m.seq})
	select {
	case d.rp.Send() <- msg:
	default:
		d.log(Obs{E: "note", Txt: "router-queue-full"})
	}
}

var tailNum = regexp.MustCompile(`: (-?\d+)$`)

func (d *driver) classify(err error) (string, int64, int64, string) {
	if err == nil {
		return "ok", 0, 0, ""
	}
	var rpc client.RPCError
	switch {
	case errors.As(err, &rpc):
		tag, _ := atag(rpc.Err.Arguments)
		return "rpcerr", tag, int64(rpc.Err.Request), string(rpc.Err.Error)
	case errors.Is(err, client.ErrReplyTimeout):
		return "timeout", 0, 0, ""
	case errors.Is(err, client.ErrNotConn):
		return "notconn", 0, 0, ""
	case errors.Is(err, context.Canceled):
		return "ctx_canceled", 0, 0, ""
	case errors.Is(err, context.DeadlineExceeded):
		return "ctx_deadline", 0, 0, ""
	case errors.Is(err, client.ErrNotSubscribed):
		return "notsub", 0, 0, ""
	case errors.Is(err, client.ErrNotRegistered):
		return "notreg", 0, 0, ""
	case errors.Is(err, client.ErrAlreadyClosed):
		return "already_closed", 0, 0, ""
	case errors.Is(err, client.ErrPPTNotSupportedByRouter):
		return "ppt_unsupported", 0, 0, ""
	case errors.Is(err, client.ErrPPTSchemeInvalid):
		return "ppt_scheme_invalid", 0, 0, ""
	case errors.Is(err, client.ErrPPTSerializerInvalid):
		return "ppt_serializer_invalid", 0, 0, ""
	case errors.Is(err, client.ErrSerialization):
		return "serr", 0, 0, ""
	case errors.Is(err, client.ErrProgCallNotSupportedByRouter):
		return "progcall_unsupported", 0, 0, ""
	}
	txt := err.Error()
	switch {
	case strings.HasPrefix(txt, "received unexpected "):
		f := strings.Fields(txt)
		return "unexpected", 0, 0, f[2]
	case strings.HasPrefix(txt, "not expecting reply"):
		return "noexpect", 0, 0, ""
	case strings.HasPrefix(txt, "subscribing to"), strings.HasPrefix(txt, "unsubscribing to"),
		strings.HasPrefix(txt, "registering procedure"), strings.HasPrefix(txt, "unregistering procedure"),
		strings.HasPrefix(txt, "waiting for published"):
		var tag int64 = -1
		if m := tailNum.FindStringSubmatch(txt); m != nil {
			tag, _ = strconv.ParseInt(m[1], 10, 64)
		}
		return "err_reply", tag, 0, ""
	}
	return "other", 0, 0, txt
}

func (d *driver) userOpts(l Label) wamp.Dict {
	o := wamp.Dict{"x_op": l.O}
	for k, v := range l.Opts {
		o[k] = v.goval()
	}
	return o
}

func (d *driver) eventHandler(o int) client.EventHandler {
	return func(ev *wamp.Event) {
		tag, n := atag(ev.Arguments)
		d.log(Obs{E: "event", O: o, Sub: int64(ev.Subscription), Pub: int64(ev.Publication), Tag: tag, N: n})
		// give a concurrently running handler (there must be none) a chance
		// to show up between the two log lines
		for i := 0; i < 3; i++ {
			runtime.Gosched()
		}
		d.log(Obs{E: "evx", O: o, Pub: int64(ev.Publication)})
	}
}

func (d *driver) relChan(req int64) chan Label {
	d.mu.Lock()
	defer d.mu.Unlock()
	ch, ok := d.rel[req]
	if !ok {
		ch = make(chan Label)
		d.rel[req] = ch
	}
	return ch
}

func (d *driver) invHandler(o int) client.InvocationHandler {
	return func(ctx context.Context, inv *wamp.Invocation) client.InvokeResult {
		tag, n := atag(inv.Arguments)
		prog, _ := inv.Details[wamp.OptProgress].(bool)
		d.log(Obs{E: "inv", O: o, Req: int64(inv.Request), Reg: int64(inv.Registration), Tag: tag, N: n, Prog: prog, Ctx: ctx.Err() != nil})
		rel := d.relChan(int64(inv.Request))
		for {
			select {
			case l := <-rel:
				if l.K == "sprog" {
					err := d.c.SendProgress(ctx, wamp.List{l.Tag}, nil)
					r, _, _, _ := d.classify(err)
					d.log(Obs{E: "sprogret", Req: int64(inv.Request), R: r})
					continue
				}
				d.log(Obs{E: "invret", Req: int64(inv.Request), R: l.R})
				switch l.R {
				case "omit":
					return client.InvokeResult{Err: wamp.InternalProgressiveOmitResult}
				case "err":
					return client.InvokeResult{Err: "x.app.error", Args: wamp.List{l.Tag}}
				case "canceled":
					return client.InvocationCanceled
				}
				return client.InvokeResult{Args: wamp.List{l.Tag}}
			case <-ctx.Done():
				d.log(Obs{E: "invctx", Req: int64(inv.Request)})
				return client.InvocationCanceled
			case <-d.quit:
				return client.InvocationCanceled
			}
		}
	}
}

func (d *driver) execOp(op *opState) Obs {
	l := op.label
	ret := Obs{E: "ret", O: l.O}
	var err error
	var ctx context.Context = context.Background()
	switch l.Ctx {
	case "cancel":
		ctx, op.cancel = context.WithCancel(ctx)
	case "deadline":
		ctx, op.cancel = context.WithTimeout(ctx, time.Duration(l.DeadlineMs)*time.Millisecond)
	default:
		ctx, op.cancel = context.WithCancel(ctx) // only used by the epilogue
	}
	var progcb client.ProgressHandler
	if l.Prog {
		progcb = func(r *wamp.Result) {
			// let a Call that does not wait for this callback get ahead
			for i := 0; i < 3; i++ {
				runtime.Gosched()
			}
			tag, n := atag(r.Arguments)
			d.log(Obs{E: "prog", O: l.O, Tag: tag, N: n, Req: int64(r.Request)})
		}
	}
	switch l.Op {
	case "subscribe":
		err = d.c.Subscribe(topicName(l.Name), d.eventHandler(l.O), d.userOpts(l))
		if err == nil {
			id, ok := d.c.SubscriptionID(topicName(l.Name))
			if ok {
				ret.Sub = int64(id)
			}
		}
	case "subscribechan":
		// events are taken from an unbuffered channel by a reader that needs a
		// moment for each one (it yields the processor between two reads)
		events := make(chan *wamp.Event)
		h := d.eventHandler(l.O)
		go func() {
			for {
				select {
				case ev := <-events:
					h(ev)
				case <-d.doneCh:
					return
				}
			}
		}()
		err = d.c.SubscribeChan(topicName(l.Name), events, d.userOpts(l))
		if err == nil {
			id, ok := d.c.SubscriptionID(topicName(l.Name))
			if ok {
				ret.Sub = int64(id)
			}
		}
	case "unsubscribe":
		err = d.c.Unsubscribe(topicName(l.Name))
	case "register":
		err = d.c.Register(procName(l.Name), d.invHandler(l.O), d.userOpts(l))
		if err == nil {
			id, ok := d.c.RegistrationID(procName(l.Name))
			if ok {
				ret.Reg = int64(id)
			}
		}
	case "unregister":
		err = d.c.Unregister(procName(l.Name))
	case "publish":
		opts := d.userOpts(l)
		if l.Ack {
			opts[wamp.OptAcknowledge] = true
		}
		err = d.c.Publish(topicName(l.Name), opts, wamp.List{int64(l.O)}, nil)
	case "call":
		var res *wamp.Result
		res, err = d.c.Call(ctx, procName(l.Name), d.userOpts(l), wamp.List{int64(l.O)}, nil, progcb)
		if res != nil {
			ret.Tag, ret.N = atag(res.Arguments)
			ret.Req = int64(res.Request)
			ret.Prog, _ = res.Details[wamp.OptProgress].(bool)
		}
	case "callprog":
		var res *wamp.Result
		feed := func(fctx context.Context) (wamp.Dict, wamp.List, wamp.Dict, error) {
			d.mu.Lock()
			op.sent++
			k := op.sent
			d.mu.Unlock()
			if k == 1 {
				opts := d.userOpts(l)
				opts[wamp.OptProgress] = l.Chunks > 1
				return opts, wamp.List{int64(1000*l.O + k)}, nil, nil
			}
			select {
			case what := <-op.chunk:
				switch what {
				case "err":
					return nil, nil, nil, errors.New("business side failed")
				case "final":
					return wamp.Dict{wamp.OptProgress: false}, wamp.List{int64(1000*l.O + k)}, nil, nil
				}
				return wamp.Dict{wamp.OptProgress: true}, wamp.List{int64(1000*l.O + k)}, nil, nil
			case <-fctx.Done():
				d.log(Obs{E: "feederr", O: l.O})
				return nil, nil, nil, fctx.Err()
			case <-d.quit:
				return nil, nil, nil, errors.New("harness quit")
			}
		}
		res, err = d.c.CallProgressive(ctx, procName(l.Name), feed, progcb)
		if res != nil {
			ret.Tag, ret.N = atag(res.Arguments)
			ret.Req = int64(res.Request)
			ret.Prog, _ = res.Details[wamp.OptProgress].(bool)
		}
	default:
		panic("harness: unknown op " + l.Op)
	}
	var tag, req int64
	ret.R, tag, req, ret.Txt = d.classify(err)
	if err != nil {
		ret.Tag, ret.Req = tag, req
	}
	return ret
}

func (d *driver) startOp(l Label) {
	op := &opState{o: l.O, label: l, done: make(chan struct{}), chunk: make(chan string)}
	d.mu.Lock()
	d.ops[l.O] = op
	d.mu.Unlock()
	d.log(Obs{E: "start", O: l.O, Typ: l.Op})
	go func() {
		r := d.execOp(op)
		d.mu.Lock()
		op.ret = true
		d.mu.Unlock()
		d.log(r)
		close(op.done)
	}()
}

func (d *driver) exec(l Label) {
	switch l.K {
	case "api":
		d.startOp(l)
	case "msg":
		d.sendMsg(l.M)
	case "cancel":
		d.mu.Lock()
		op := d.ops[l.O]
		d.mu.Unlock()
		if op != nil && op.cancel != nil {
			op.cancel()
		}
	case "hret", "sprog":
		select {
		case d.relChan(l.Inv) <- l:
		default:
			d.log(Obs{E: "note", Txt: l.K + "-noop", Req: l.Inv})
		}
	case "chunk", "chunkerr":
		d.mu.Lock()
		op := d.ops[l.O]
		d.mu.Unlock()
		what := "more"
		if l.K == "chunkerr" {
			what = "err"
		} else if l.Final {
			what = "final"
		}
		if op == nil {
			return
		}
		select {
		case op.chunk <- what:
		default:
			d.log(Obs{E: "note", Txt: "chunk-noop", O: l.O})
		}
	case "close":
		d.startClose(l.O)
	case "end":
		d.end()
	case "setmode":
		// a configuration call of the application, between its other calls
		err := d.c.SetCallCancelMode(l.Mode)
		r := "ok"
		if err != nil {
			r = "error"
		}
		d.log(Obs{E: "setmode", Mode: l.Mode, R: r})
	case "stall":
		d.setStall(true)
	case "unstall":
		d.setStall(false)
	default:
		panic("harness: unknown label kind " + l.K)
	}
}

func (d *driver) end() {
	d.mu.Lock()
	was := d.ended
	d.ended = true
	d.mu.Unlock()
	if !was {
		d.rp.Close()
	}
}

func (d *driver) startClose(o int) {
	ch := make(chan struct{})
	d.mu.Lock()
	d.closeN++
	d.closed = append(d.closed, ch)
	d.mu.Unlock()
	d.log(Obs{E: "start", O: o, Typ: "close"})
	go func() {
		err := d.c.Close()
		r, _, _, _ := d.classify(err)
		d.log(Obs{E: "closeret", O: o, R: r})
		close(ch)
	}()
}

// clientGoroutines returns the stacks of goroutines that are executing code
// of the client package (the leak / hang census).
func clientGoroutines() []string {
	buf := make([]byte, 1<<20)
	n := runtime.Stack(buf, true)
	var res []string
	for _, g := range strings.Split(string(buf[:n]), "\n\n") {
		if strings.Contains(g, "nexus/v3/client.") {
			res = append(res, g)
		}
	}
	return res
}

func topFrames(stacks []string) string {
	var tops []string
	for _, g := range stacks {
		lines := strings.Split(g, "\n")
		state := ""
		if i := strings.Index(lines[0], "["); i >= 0 {
			state = strings.SplitN(lines[0][i+1:], ",", 2)[0]
			state = strings.TrimSuffix(strings.SplitN(state, " (", 2)[0], "]")
		}
		fn := ""
		for _, ln := range lines[1:] {
			if strings.Contains(ln, "nexus/v3/client.") && !strings.HasPrefix(ln, "\t") && !strings.HasPrefix(ln, "created by") {
				fn = ln
				if i := strings.LastIndex(fn, "("); i > 0 {
					fn = fn[:i]
				}
				fn = fn[strings.LastIndex(fn, "/")+1:]
				break
			}
		}
		tops = append(tops, state+"@"+fn)
	}
	sort.Strings(tops)
	return strings.Join(tops, ";")
}

// runSchedule executes one schedule in the current bubble.  It returns the
// result; when the client is hung or leaks goroutines the caller must not
// return from the bubble (synctest would panic) but report and exit.
func runSchedule(t *testing.T, s *Sched, idx int) *Result {
	res := &Result{ID: s.ID, Idx: idx, Status: "ok", Procs: runtime.GOMAXPROCS(0)}
	d := &driver{t: t, s: s, ops: map[int]*opState{}, quit: make(chan struct{}), rel: map[int64]chan Label{},
		lastSub: map[int][]int64{}, lastReg: map[int][]int64{}, stallKick: make(chan struct{}, 1), t0: time.Now(), burst: -1, doneCh: make(chan struct{})}
	curDriver.Store(d)
	cp, rp := transport.LinkedPeers()
	d.rp = rp
	first := make(chan wamp.Message, 1)
	go d.drain(first)
	go func() {
		<-first // HELLO
		j := s.Cfg.Join
		if j == nil {
			rp.Send() <- d.welcome()
			return
		}
		switch j.Reply {
		case "welcome":
			rp.Send() <- &wamp.Welcome{ID: 4242, Details: dictOf(j.Details)}
		case "nil_details":
			rp.Send() <- &wamp.Welcome{ID: 4242}
		case "abort":
			rp.Send() <- &wamp.Abort{Reason: "wamp.error.no_such_realm", Details: dictOf(j.Details)}
		case "goodbye":
			rp.Send() <- &wamp.Goodbye{Reason: "wamp.close.system_shutdown", Details: dictOf(j.Details)}
		case "challenge":
			rp.Send() <- &wamp.Challenge{AuthMethod: "ticket", Extra: dictOf(j.Details)}
		case "result":
			rp.Send() <- &wamp.Result{Request: 1, Details: dictOf(j.Details)}
		case "close":
			d.end()
		case "none":
		}
	}()
	rt := time.Duration(s.Cfg.RTms) * time.Millisecond
	c, err := client.NewClient(cp, client.Config{Realm: "verif.realm", ResponseTimeout: rt, Logger: capLog{d}, Debug: s.Cfg.Debug})
	if err != nil {
		if s.Cfg.Join == nil {
			res.Status, res.Why = "harness_error", "NewClient: "+err.Error()
			return res
		}
		// a refused join: NewClient has closed its peer; nothing may be left behind
		d.log(Obs{E: "join", R: "error", Txt: err.Error()})
		d.end()
		time.Sleep(time.Hour)
		synctest.Wait()
		if left := clientGoroutines(); len(left) > 0 {
			res.Status, res.Why, res.Stacks = "leak", topFrames(left), strings.Join(left, "\n\n")
		}
		res.Obs = append([]Obs(nil), d.obs...)
		return res
	}
	if s.Cfg.Join != nil {
		d.log(Obs{E: "join", R: "ok"})
	}
	d.c = c
	if s.Cfg.CancelMode != "" {
		if err := c.SetCallCancelMode(s.Cfg.CancelMode); err != nil {
			res.Status, res.Why = "harness_error", err.Error()
			return res
		}
	}
	go func() {
		<-c.Done()
		d.log(Obs{E: "done"})
		close(d.doneCh)
	}()
	synctest.Wait()

	arm := func(b Burst) {
		adv := time.Duration(b.Adv) * time.Millisecond
		// every label is released by its own goroutine at the same virtual
		// instant; router messages keep their order (one channel)
		var msgs []Label
		for li, l := range b.Labels {
			if l.K == "msg" {
				l.M.seq = li
				msgs = append(msgs, l)
				continue
			}
			l := l
			go func() { time.Sleep(adv); d.exec(l) }()
		}
		if len(msgs) > 0 {
			go func() {
				time.Sleep(adv)
				for _, l := range msgs {
					d.exec(l)
				}
			}()
		}
	}
	armed := false
	for bi, b := range s.Bursts {
		progress.Add(1)
		d.mu.Lock()
		d.burst = bi
		d.mu.Unlock()
		wasArmed := armed
		armed = false
		if b.Adv == 0 && bi+1 < len(s.Bursts) && s.Bursts[bi+1].Prearm && s.Bursts[bi+1].Adv > 0 {
			arm(s.Bursts[bi+1])
			armed = true
			synctest.Wait()
		}
		if b.Adv > 0 {
			if !wasArmed {
				arm(b)
			}
			time.Sleep(time.Duration(b.Adv) * time.Millisecond)
		} else {
			for li, l := range b.Labels {
				if l.M != nil {
					l.M.seq = li
				}
				d.exec(l)
			}
		}
		synctest.Wait()
	}

	// Epilogue (not compared with the model): everything is released, the
	// client is closed if the schedule did not do it, the router answers
	// GOODBYE, and an hour of virtual time passes.
	d.mu.Lock()
	d.burst = len(s.Bursts)
	needClose := d.closeN == 0
	d.mu.Unlock()
	close(d.quit)
	d.mu.Lock()
	for _, op := range d.ops {
		if op.cancel != nil {
			op.cancel()
		}
	}
	d.mu.Unlock()
	if needClose {
		d.startClose(0)
	}
	time.Sleep(time.Hour)
	synctest.Wait()
	d.end()
	time.Sleep(time.Hour)
	synctest.Wait()

	var why []string
	d.mu.Lock()
	for k, op := range d.ops {
		select {
		case <-op.done:
		default:
			why = append(why, fmt.Sprintf("op %d (%s) never returned", k, op.label.Op))
		}
	}
	for _, ch := range d.closed {
		select {
		case <-ch:
		default:
			why = append(why, "Close never returned")
		}
	}
	d.mu.Unlock()
	select {
	case <-d.doneCh:
	default:
		why = append(why, "Done never signalled")
	}
	sort.Strings(why)
	left := clientGoroutines()
	if len(why) > 0 {
		res.Status = "hang"
		res.Why = strings.Join(why, "; ") + " | " + topFrames(left)
		res.Stacks = strings.Join(left, "\n\n")
	} else if len(left) > 0 {
		res.Status = "leak"
		res.Why = topFrames(left)
		res.Stacks = strings.Join(left, "\n\n")
	}
	if res.Status == "ok" {
		// let the router end drain what is left so that its reader can finish
		d.setStall(false)
		synctest.Wait()
	}
	d.mu.Lock()
	res.Obs = append([]Obs(nil), d.obs...)
	res.Log = d.logbuf.String()
	if len(res.Log) > 4000 {
		res.Log = res.Log[len(res.Log)-4000:]
	}
	d.mu.Unlock()
	return res
}

func TestDrive(t *testing.T) {
	in := os.Getenv("DRIVE_IN")
	if in == "" {
		t.Skip("DRIVE_IN not set")
	}
	if p := os.Getenv("DRIVE_GOMAXPROCS"); p != "" {
		n, _ := strconv.Atoi(p)
		if n > 0 {
			runtime.GOMAXPROCS(n)
		}
	}
	from, _ := strconv.Atoi(os.Getenv("DRIVE_FROM"))
	to, _ := strconv.Atoi(os.Getenv("DRIVE_TO"))
	f, err := os.Open(in)
	if err != nil {
		t.Fatal(err)
	}
	defer f.Close()
	out, err := os.OpenFile(os.Getenv("DRIVE_OUT"), os.O_APPEND|os.O_CREATE|os.O_WRONLY, 0o644)
	if err != nil {
		t.Fatal(err)
	}
	defer out.Close()
	emit := func(v any) {
		b, _ := json.Marshal(v)
		out.Write(append(b, '\n'))
		out.Sync()
	}
	// Wall-clock watchdog.  Virtual time only moves when every goroutine of
	// the bubble is durably blocked; a goroutine that waits for a mutex (or
	// spins) is not, so a client stuck that way freezes the bubble for ever
	// and neither the hang oracle of runSchedule nor synctest's deadlock
	// detection is ever reached.  This goroutine lives outside the bubble (real
	// clock): when the harness has made no progress for DRIVE_WATCHDOG_MS it
	// reports the running schedule as hung, with every goroutine's stack, and
	// leaves the process.
	limit := 15 * time.Second
	if ms, _ := strconv.Atoi(os.Getenv("DRIVE_WATCHDOG_MS")); ms > 0 {
		limit = time.Duration(ms) * time.Millisecond
	}
	var running atomic.Int64
	running.Store(-1)
	go func() {
		last, since := progress.Load(), time.Now()
		for {
			time.Sleep(100 * time.Millisecond)
			if p := progress.Load(); p != last || running.Load() < 0 {
				last, since = p, time.Now()
				continue
			}
			if time.Since(since) < limit {
				continue
			}
			d := curDriver.Load()
			res := &Result{Idx: int(running.Load()), Status: "hang", Procs: runtime.GOMAXPROCS(0), Obs: []Obs{}}
			left := clientGoroutines()
			res.Why = fmt.Sprintf("no progress for %v of wall-clock time: a goroutine waits for a lock (or spins), the bubble can never become idle", limit) +
				" | " + topFrames(left)
			res.Stacks = strings.Join(left, "\n\n")
			if d != nil {
				res.ID = d.s.ID
				if d.mu.TryLock() {
					res.Obs = append([]Obs(nil), d.obs...)
					d.mu.Unlock()
				}
			}
			emit(res)
			os.Exit(3)
		}
	}()
	sc := bufio.NewScanner(f)
	sc.Buffer(make([]byte, 1<<20), 1<<26)
	idx := -1
	for sc.Scan() {
		idx++
		if idx < from || (to > 0 && idx >= to) {
			continue
		}
		var s Sched
		if err := json.Unmarshal(sc.Bytes(), &s); err != nil {
			t.Fatalf("schedule %d: %v", idx, err)
		}
		emit(map[string]any{"begin": idx, "id": s.ID})
		var res *Result
		i := idx
		curDriver.Store(nil)
		progress.Add(1)
		running.Store(int64(idx))
		synctest.Test(t, func(t *testing.T) {
			res = runSchedule(t, &s, i)
			if res.Status == "hang" || res.Status == "leak" {
				// the bubble cannot end: report and leave the process
				emit(res)
				os.Exit(3)
			}
		})
		running.Store(-1)
		emit(res)
	}
}
