// Package clientdrive is the correspondence harness for properties C16 and
// C17: it drives the real client.Client (client.NewClient over a
// transport.LinkedPeers pair) against a SCRIPTED ROUTER inside
// testing/synctest bubbles and records what the client was observed to do.
//
// It is built as a test binary (`go test -c`, see tools/common.py:go_build)
// because testing/synctest needs a *testing.T.  Inputs and outputs are JSON
// lines named by environment variables (DRIVE_IN, DRIVE_OUT, DRIVE_FROM,
// DRIVE_TO, DRIVE_GOMAXPROCS).  One schedule = one bubble.  A panic of the
// client kills the worker process (the parent reads the exit status and the
// stack from stderr); a hang is detected under the virtual clock, reported
// with a goroutine dump, and the worker exits with status 3.
package clientdrive
