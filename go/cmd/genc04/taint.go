package main

import (
	"fmt"
	"go/ast"
	"go/token"
	"go/types"
	"strings"
)

// Taint of an expression.  C=false: router-internal.  C=true: the value (or,
// for containers, some element) is chosen by a client.
type Taint struct {
	C bool
	// Own: the value itself (for a container: the container object, hence its
	// nil-ness and length) comes from the client.  C && !Own: a container
	// allocated by router code that holds client-chosen elements.
	Own     bool
	Field   string   // Options, Details, Arguments, ArgumentsKw, Extra, SessionDetails, Message, Bytes, HTTP, Unknown, or another message field name
	Path    []string // below Field: "k:<key>", "i:<n>", "*" (any element), "#key" (a map key)
	Derived bool     // went through an accessor / conversion / assertion
}

func (t Taint) String() string {
	if !t.C {
		return "internal"
	}
	s := t.Field
	for _, p := range t.Path {
		s += "/" + p
	}
	if t.Derived {
		s += "~"
	}
	return s
}

func (t Taint) ext(p string) Taint {
	if !t.C {
		return t
	}
	np := make([]string, len(t.Path), len(t.Path)+1)
	copy(np, t.Path)
	return Taint{C: true, Own: true, Field: t.Field, Path: append(np, p), Derived: t.Derived}
}

// held: the taint of a router-made container into which a value with taint t
// was stored.
func (t Taint) held() Taint {
	if !t.C {
		return t
	}
	return Taint{C: true, Own: false, Field: t.Field, Path: t.Path, Derived: true}
}

func (t Taint) derived() Taint {
	if t.C {
		t.Derived = true
	}
	return t
}

func join(a, b Taint) Taint {
	if a.C {
		if b.C && b.Own && !a.Own {
			return b
		}
		return a
	}
	return b
}

// node of the call graph: a declared function or a function literal.
type Node struct {
	Key    string // FullName, or parent key + "$n" for literals
	Short  string // e.g. router.(*broker).publish, router.(*realm).handleSession$1
	Pkg    *Pkg
	Decl   *ast.FuncDecl // nil for literals
	Lit    *ast.FuncLit  // nil for declarations
	Parent *Node         // enclosing node for literals
	Obj    *types.Func
	Body   *ast.BlockStmt
	Type   *ast.FuncType

	GoLaunched bool            // started by a go statement
	SentOn     map[string]bool // channel field keys the literal is sent on
	Exported   bool
	Calls      map[string]bool // outgoing edges (synchronous)
	Kinds      map[string]bool // goroutine labels (filled by kinds())
}

type Analysis struct {
	prog *Program

	nodes    map[string]*Node
	nodeList []*Node
	litNode  map[*ast.FuncLit]*Node
	declNode map[*types.Func]*Node // objects of the analysed packages' own checks
	byName   map[string]*Node      // FullName -> node

	varT     map[types.Object]*Taint
	fieldT   map[string]*Taint
	paramT   map[string][]Taint // node key -> per param
	recvT    map[string]*Taint
	resultT  map[string][]Taint
	litLocal map[types.Object]*ast.FuncLit // local variable bound once to a literal
	litAssig map[types.Object]int
	addrTake map[string]bool

	rangedChan map[string]string // channel field key -> node key that ranges over it

	// named types of the analysed packages (for interface dispatch)
	namedTypes []*types.Named

	changed bool
	cur     *Node
	curPkg  *Pkg
}

func shortName(full string) string {
	s := strings.ReplaceAll(full, modPath+"/", "")
	return s
}

func newAnalysis(prog *Program) *Analysis {
	a := &Analysis{
		prog: prog, nodes: map[string]*Node{}, litNode: map[*ast.FuncLit]*Node{}, declNode: map[*types.Func]*Node{},
		byName: map[string]*Node{}, varT: map[types.Object]*Taint{}, fieldT: map[string]*Taint{}, paramT: map[string][]Taint{},
		recvT: map[string]*Taint{}, resultT: map[string][]Taint{}, litLocal: map[types.Object]*ast.FuncLit{}, litAssig: map[types.Object]int{},
		addrTake: map[string]bool{}, rangedChan: map[string]string{},
	}
	for _, p := range prog.Pkgs {
		sc := p.Types.Scope()
		for _, n := range sc.Names() {
			if tn, ok := sc.Lookup(n).(*types.TypeName); ok {
				if nt, ok := tn.Type().(*types.Named); ok {
					a.namedTypes = append(a.namedTypes, nt)
				}
			}
		}
		for _, f := range p.Files {
			for _, d := range f.Decls {
				fd, ok := d.(*ast.FuncDecl)
				if !ok || fd.Body == nil {
					continue
				}
				obj := p.Info.Defs[fd.Name].(*types.Func)
				n := &Node{Key: obj.FullName(), Short: shortName(obj.FullName()), Pkg: p, Decl: fd, Obj: obj, Body: fd.Body, Type: fd.Type,
					Exported: fd.Name.IsExported(), Calls: map[string]bool{}, SentOn: map[string]bool{}, Kinds: map[string]bool{}}
				a.addNode(n)
				a.declNode[obj] = n
				a.byName[n.Key] = n
				cnt := 0
				ast.Inspect(fd.Body, func(x ast.Node) bool {
					if fl, ok := x.(*ast.FuncLit); ok {
						cnt++
						par := a.enclosing(n, fl)
						ln := &Node{Key: fmt.Sprintf("%s$%d", n.Key, cnt), Short: fmt.Sprintf("%s$%d", n.Short, cnt), Pkg: p, Lit: fl, Parent: par,
							Body: fl.Body, Type: fl.Type, Calls: map[string]bool{}, SentOn: map[string]bool{}, Kinds: map[string]bool{}}
						a.addNode(ln)
						a.litNode[fl] = ln
					}
					return true
				})
			}
		}
	}
	return a
}

// enclosing returns the innermost already-registered literal node (or the
// declaration node) containing fl.  Literals are registered in source order,
// so an outer literal is always registered before an inner one.
func (a *Analysis) enclosing(decl *Node, fl *ast.FuncLit) *Node {
	best := decl
	for l, n := range a.litNode {
		if n.Pkg != decl.Pkg {
			continue
		}
		if l.Pos() < fl.Pos() && fl.End() <= l.End() {
			if best == decl || (best.Lit != nil && l.Pos() > best.Lit.Pos()) {
				best = n
			}
		}
	}
	return best
}

func (a *Analysis) addNode(n *Node) {
	a.nodes[n.Key] = n
	a.nodeList = append(a.nodeList, n)
}

func (a *Analysis) joinInto(dst *Taint, src Taint) {
	if !dst.C && src.C {
		*dst = src
		a.changed = true
		return
	}
	if dst.C && !dst.Own && src.C && src.Own {
		*dst = src
		a.changed = true
	}
}

func (a *Analysis) vt(o types.Object) *Taint {
	t := a.varT[o]
	if t == nil {
		t = &Taint{}
		a.varT[o] = t
	}
	return t
}

func (a *Analysis) ft(key string) *Taint {
	t := a.fieldT[key]
	if t == nil {
		t = &Taint{}
		a.fieldT[key] = t
	}
	return t
}

func fieldKey(recv types.Type, name string) string {
	p, n, ok := namedOf(deref(recv))
	if !ok {
		return "?." + name
	}
	return p + "." + n + "." + name
}

func (a *Analysis) inScope(pkgPath string) bool {
	for _, p := range a.prog.Pkgs {
		if p.Path == pkgPath {
			return true
		}
	}
	return false
}

func (a *Analysis) typeOf(e ast.Expr) types.Type {
	if tv, ok := a.curPkg.Info.Types[e]; ok {
		return tv.Type
	}
	if id, ok := e.(*ast.Ident); ok {
		if o := a.curPkg.Info.ObjectOf(id); o != nil {
			return o.Type()
		}
	}
	return nil
}

// ---------------------------------------------------------------------------
// fixpoint

func (a *Analysis) run() {
	// Parameters of exported and address-taken functions whose static type
	// can carry client data are client-controlled from the start.
	for round := 0; ; round++ {
		a.changed = false
		for _, n := range a.nodeList {
			if n.Decl == nil {
				continue // literals are walked as part of their declaration
			}
			a.walkDecl(n)
		}
		if !a.changed {
			break
		}
		if round > 200 {
			fatalf("taint fixpoint did not converge")
		}
	}
}

func (a *Analysis) params(n *Node) []*types.Var {
	var res []*types.Var
	if n.Type.Params == nil {
		return nil
	}
	for _, f := range n.Type.Params.List {
		if len(f.Names) == 0 {
			res = append(res, nil)
			continue
		}
		for _, nm := range f.Names {
			v, _ := n.Pkg.Info.Defs[nm].(*types.Var)
			res = append(res, v)
		}
	}
	return res
}

func (a *Analysis) seedParams(n *Node, conservative bool) {
	ps := a.params(n)
	pt := a.paramT[n.Key]
	for len(pt) < len(ps) {
		pt = append(pt, Taint{})
	}
	a.paramT[n.Key] = pt
	for i, v := range ps {
		if v == nil {
			continue
		}
		if conservative && taintCapable(v.Type()) && !pt[i].C {
			f := "Unknown:param"
			if isHTTPRequest(v.Type()) {
				f = "HTTP"
			} else if isMessageIface(v.Type()) || isMsgStruct(v.Type()) || isChanOfMessage(v.Type()) {
				f = "Message"
			}
			pt[i] = Taint{C: true, Own: true, Field: f}
			a.changed = true
		}
		a.joinInto(a.vt(v), pt[i])
	}
	if n.Decl != nil && n.Decl.Recv != nil && len(n.Decl.Recv.List) == 1 && len(n.Decl.Recv.List[0].Names) == 1 {
		if rv, ok := n.Pkg.Info.Defs[n.Decl.Recv.List[0].Names[0]].(*types.Var); ok {
			if rt := a.recvT[n.Key]; rt != nil {
				a.joinInto(a.vt(rv), *rt)
			}
		}
	}
}

func (a *Analysis) walkDecl(n *Node) {
	a.cur, a.curPkg = n, n.Pkg
	a.seedParams(n, n.Exported || a.addrTake[n.Key])
	a.block(n.Body)
}

func (a *Analysis) walkLit(fl *ast.FuncLit) {
	n := a.litNode[fl]
	if n == nil {
		fatalf("function literal without node")
	}
	save := a.cur
	a.cur = n
	// A literal's parameters are bound at direct call sites when the literal
	// is held in a once-assigned local variable; otherwise conservatively.
	conservative := true
	for o, l := range a.litLocal {
		if l == fl && a.litAssig[o] == 1 {
			conservative = false
		}
	}
	a.seedParams(n, conservative)
	a.block(fl.Body)
	a.cur = save
}

// ---------------------------------------------------------------------------
// statements

func (a *Analysis) block(b *ast.BlockStmt) {
	if b == nil {
		return
	}
	for _, s := range b.List {
		a.stmt(s)
	}
}

func (a *Analysis) stmt(s ast.Stmt) {
	switch s := s.(type) {
	case nil, *ast.EmptyStmt, *ast.BranchStmt:
	case *ast.BlockStmt:
		a.block(s)
	case *ast.ExprStmt:
		a.evAll(s.X)
	case *ast.IncDecStmt:
		a.ev(s.X)
	case *ast.LabeledStmt:
		a.stmt(s.Stmt)
	case *ast.GoStmt:
		// a go statement is not a synchronous call edge
		before := map[string]bool{}
		for k := range a.cur.Calls {
			before[k] = true
		}
		a.evAll(s.Call)
		var target string
		switch f := unparen(s.Call.Fun).(type) {
		case *ast.FuncLit:
			target = a.litNode[f].Key
		default:
			if fn := calleeOf(a.curPkg.Info, s.Call); fn != nil {
				target = fn.FullName()
			}
		}
		if target != "" && !before[target] {
			delete(a.cur.Calls, target)
		}
	case *ast.DeferStmt:
		a.evAll(s.Call)
	case *ast.SendStmt:
		t := a.ev(s.Value)
		a.ev(s.Chan)
		a.assignTo(s.Chan, t)
	case *ast.ReturnStmt:
		a.ret(s)
	case *ast.DeclStmt:
		gd, ok := s.Decl.(*ast.GenDecl)
		if !ok {
			fatalf("unsupported declaration statement")
		}
		for _, sp := range gd.Specs {
			vs, ok := sp.(*ast.ValueSpec)
			if !ok {
				continue // type / const declarations
			}
			a.assign(identsToExprs(vs.Names), vs.Values, true)
		}
	case *ast.AssignStmt:
		a.assign(s.Lhs, s.Rhs, s.Tok == token.DEFINE)
	case *ast.IfStmt:
		a.stmt(s.Init)
		a.ev(s.Cond)
		a.block(s.Body)
		a.stmt(s.Else)
	case *ast.ForStmt:
		a.stmt(s.Init)
		if s.Cond != nil {
			a.ev(s.Cond)
		}
		a.stmt(s.Post)
		a.block(s.Body)
	case *ast.RangeStmt:
		t := a.ev(s.X)
		xt := a.typeOf(s.X)
		var kt, vt Taint
		if xt != nil {
			switch u := types.Unalias(xt).Underlying().(type) {
			case *types.Map:
				kt, vt = t.ext("#key").derived(), t.ext("*")
			case *types.Slice, *types.Array, *types.Pointer:
				vt = t.ext("*")
			case *types.Basic: // string or integer range
				vt = t.derived()
			case *types.Chan:
				vt = t
				if isMessageIface(u.Elem()) {
					vt = Taint{C: true, Own: true, Field: "Message"}
				}
				kt = vt
			case *types.Signature:
				kt, vt = t, t
			default:
				fatalf("range over unsupported type %s", xt)
			}
		}
		if s.Key != nil {
			a.assignTo(s.Key, kt)
		}
		if s.Value != nil {
			a.assignTo(s.Value, vt)
		}
		a.block(s.Body)
	case *ast.SwitchStmt:
		a.stmt(s.Init)
		if s.Tag != nil {
			a.ev(s.Tag)
		}
		for _, c := range s.Body.List {
			cc := c.(*ast.CaseClause)
			for _, e := range cc.List {
				a.ev(e)
			}
			for _, st := range cc.Body {
				a.stmt(st)
			}
		}
	case *ast.TypeSwitchStmt:
		a.stmt(s.Init)
		var x ast.Expr
		switch as := s.Assign.(type) {
		case *ast.AssignStmt:
			x = as.Rhs[0].(*ast.TypeAssertExpr).X
		case *ast.ExprStmt:
			x = as.X.(*ast.TypeAssertExpr).X
		}
		t := a.ev(x)
		for _, c := range s.Body.List {
			cc := c.(*ast.CaseClause)
			if o := a.curPkg.Info.Implicits[cc]; o != nil {
				a.joinInto(a.vt(o), t.derived())
			}
			for _, st := range cc.Body {
				a.stmt(st)
			}
		}
	case *ast.SelectStmt:
		for _, c := range s.Body.List {
			cc := c.(*ast.CommClause)
			a.stmt(cc.Comm)
			for _, st := range cc.Body {
				a.stmt(st)
			}
		}
	default:
		fatalf("unsupported statement %T at %s", s, a.prog.Fset.Position(s.Pos()))
	}
}

func identsToExprs(ids []*ast.Ident) []ast.Expr {
	r := make([]ast.Expr, len(ids))
	for i, x := range ids {
		r[i] = x
	}
	return r
}

func (a *Analysis) ret(s *ast.ReturnStmt) {
	n := a.cur
	nres := 0
	if n.Type.Results != nil {
		for _, f := range n.Type.Results.List {
			if len(f.Names) == 0 {
				nres++
			} else {
				nres += len(f.Names)
			}
		}
	}
	rt := a.resultT[n.Key]
	for len(rt) < nres {
		rt = append(rt, Taint{})
	}
	a.resultT[n.Key] = rt
	if len(s.Results) == 0 {
		// naked return: named results
		i := 0
		if n.Type.Results != nil {
			for _, f := range n.Type.Results.List {
				for _, nm := range f.Names {
					if o := n.Pkg.Info.Defs[nm]; o != nil {
						a.joinInto(&rt[i], *a.vt(o))
					}
					i++
				}
			}
		}
		return
	}
	if len(s.Results) == 1 && nres > 1 {
		ts := a.evMulti(s.Results[0], nres)
		for i := range ts {
			a.joinInto(&rt[i], ts[i])
		}
		return
	}
	for i, e := range s.Results {
		t := a.ev(e)
		if i < len(rt) {
			a.joinInto(&rt[i], t)
		}
	}
}

func (a *Analysis) assign(lhs, rhs []ast.Expr, define bool) {
	if len(rhs) == 0 {
		return
	}
	if len(lhs) > 1 && len(rhs) == 1 {
		ts := a.evMulti(rhs[0], len(lhs))
		for i, l := range lhs {
			a.assignTo(l, ts[i])
		}
		return
	}
	if len(lhs) != len(rhs) {
		fatalf("assignment count mismatch at %s", a.prog.Fset.Position(lhs[0].Pos()))
	}
	for i, l := range lhs {
		// remember local variables bound to function literals
		if fl, ok := rhs[i].(*ast.FuncLit); ok {
			if id, ok := l.(*ast.Ident); ok {
				if o := a.curPkg.Info.ObjectOf(id); o != nil {
					if a.litLocal[o] != fl {
						a.litLocal[o] = fl
						a.litAssig[o]++
					}
				}
			}
		} else if id, ok := l.(*ast.Ident); ok {
			if o := a.curPkg.Info.ObjectOf(id); o != nil {
				if _, isLit := a.litLocal[o]; isLit {
					a.litAssig[o] = 99 // reassigned with something else
				}
			}
		}
		a.assignTo(l, a.ev(rhs[i]))
	}
}

// assignTo joins t into whatever l designates.
func (a *Analysis) assignTo(l ast.Expr, t Taint) {
	switch l := l.(type) {
	case *ast.Ident:
		if l.Name == "_" {
			return
		}
		if o := a.curPkg.Info.ObjectOf(l); o != nil {
			a.joinInto(a.vt(o), t)
		}
	case *ast.ParenExpr:
		a.assignTo(l.X, t)
	case *ast.StarExpr:
		a.assignTo(l.X, t)
	case *ast.IndexExpr:
		a.ev(l.Index)
		a.assignTo(l.X, t.held()) // the container now holds a client value
	case *ast.SliceExpr:
		a.assignTo(l.X, t)
	case *ast.SelectorExpr:
		if sel := a.curPkg.Info.Selections[l]; sel != nil && sel.Kind() == types.FieldVal {
			a.ev(l.X)
			a.joinInto(a.ft(fieldKey(sel.Recv(), sel.Obj().Name())), t)
			return
		}
		if o := a.curPkg.Info.ObjectOf(l.Sel); o != nil { // package-level variable
			a.joinInto(a.vt(o), t)
		}
	case *ast.UnaryExpr:
		a.assignTo(l.X, t)
	case *ast.CallExpr, *ast.TypeAssertExpr, *ast.CompositeLit, *ast.BasicLit, *ast.FuncLit, *ast.BinaryExpr:
		// not addressable roots; nothing to record
	default:
		fatalf("unsupported assignment target %T at %s", l, a.prog.Fset.Position(l.Pos()))
	}
}

// ---------------------------------------------------------------------------
// expressions

func (a *Analysis) evAll(e ast.Expr) { a.evMulti(e, 0) }

func (a *Analysis) ev(e ast.Expr) Taint {
	ts := a.evMulti(e, 1)
	return ts[0]
}

// evMulti evaluates e expected to produce n values (n==0: don't care).
func (a *Analysis) evMulti(e ast.Expr, n int) []Taint {
	pad := func(ts []Taint) []Taint {
		for len(ts) < n || len(ts) == 0 {
			ts = append(ts, Taint{})
		}
		return ts
	}
	switch e := e.(type) {
	case *ast.CallExpr:
		return pad(a.call(e))
	case *ast.TypeAssertExpr:
		t := a.ev(e.X).derived()
		return pad([]Taint{t, {}})
	case *ast.IndexExpr:
		return pad([]Taint{a.index(e), {}})
	case *ast.UnaryExpr:
		if e.Op == token.ARROW {
			t := a.ev(e.X)
			if ct := a.typeOf(e.X); ct != nil && isChanOfMessage(ct) {
				t = Taint{C: true, Own: true, Field: "Message"}
			}
			return pad([]Taint{t, {}})
		}
	}
	return pad([]Taint{a.ev1(e)})
}

func (a *Analysis) ev1(e ast.Expr) Taint {
	switch e := e.(type) {
	case nil:
		return Taint{}
	case *ast.BasicLit:
		return Taint{}
	case *ast.Ident:
		o := a.curPkg.Info.ObjectOf(e)
		switch o := o.(type) {
		case *types.Var:
			return *a.vt(o)
		case *types.Func:
			a.markAddrTaken(o)
		}
		return Taint{}
	case *ast.ParenExpr:
		return a.ev(e.X)
	case *ast.StarExpr:
		return a.ev(e.X)
	case *ast.UnaryExpr:
		return a.ev(e.X)
	case *ast.BinaryExpr:
		x, y := a.ev(e.X), a.ev(e.Y)
		switch e.Op {
		case token.EQL, token.NEQ, token.LSS, token.GTR, token.LEQ, token.GEQ, token.LAND, token.LOR:
			return Taint{}
		}
		return join(x, y).derived()
	case *ast.SliceExpr:
		t := a.ev(e.X)
		a.ev(e.Low)
		a.ev(e.High)
		a.ev(e.Max)
		return t
	case *ast.KeyValueExpr:
		return a.ev(e.Value)
	case *ast.FuncLit:
		a.walkLit(e)
		return Taint{}
	case *ast.CompositeLit:
		return a.complit(e)
	case *ast.SelectorExpr:
		return a.selector(e)
	case *ast.ArrayType, *ast.MapType, *ast.ChanType, *ast.FuncType, *ast.InterfaceType, *ast.StructType, *ast.Ellipsis:
		return Taint{}
	case *ast.IndexListExpr:
		return Taint{}
	}
	fatalf("unsupported expression %T at %s", e, a.prog.Fset.Position(e.Pos()))
	return Taint{}
}

func (a *Analysis) markAddrTaken(f *types.Func) {
	k := f.FullName()
	if _, ok := a.byName[k]; ok && !a.addrTake[k] {
		a.addrTake[k] = true
		a.changed = true
	}
}

func (a *Analysis) selector(e *ast.SelectorExpr) Taint {
	sel := a.curPkg.Info.Selections[e]
	if sel == nil {
		// qualified identifier
		switch o := a.curPkg.Info.ObjectOf(e.Sel).(type) {
		case *types.Var:
			return *a.vt(o)
		case *types.Func:
			a.markAddrTaken(o)
		}
		return Taint{}
	}
	base := a.ev(e.X)
	switch sel.Kind() {
	case types.MethodVal, types.MethodExpr:
		if f, ok := sel.Obj().(*types.Func); ok {
			a.markAddrTaken(f)
		}
		return Taint{}
	}
	name := sel.Obj().Name()
	recv := sel.Recv()
	switch {
	case isMsgStruct(recv):
		if base.C {
			return Taint{C: true, Own: true, Field: name}
		}
		return *a.ft(fieldKey(recv, name))
	case isSessionType(recv):
		if name == "Details" {
			// The details map of a session is allocated by the router
			// (AttachClient / NewSession callers); its values come from HELLO.
			return Taint{C: true, Own: false, Field: "SessionDetails"}
		}
		return *a.ft(fieldKey(recv, name))
	}
	ft := *a.ft(fieldKey(recv, name))
	if ft.C {
		return ft
	}
	if base.C {
		if p, _, ok := namedOf(deref(recv)); !ok || !a.inScope(p) {
			// field of a client-controlled value of a foreign type
			return base.ext("." + name)
		}
	}
	return Taint{}
}

func (a *Analysis) constKey(e ast.Expr) (string, bool) {
	if tv, ok := a.curPkg.Info.Types[e]; ok && tv.Value != nil {
		s := tv.Value.ExactString()
		if len(s) >= 2 && s[0] == '"' {
			// string constant: unquote
			var out string
			if _, err := fmt.Sscanf(s, "%q", &out); err == nil {
				return "k:" + out, true
			}
		}
		return "i:" + s, true
	}
	return "", false
}

func (a *Analysis) index(e *ast.IndexExpr) Taint {
	if tv, ok := a.curPkg.Info.Types[e.X]; ok {
		if _, isSig := tv.Type.Underlying().(*types.Signature); isSig || tv.IsType() {
			return Taint{} // generic instantiation
		}
	}
	base := a.ev(e.X)
	a.ev(e.Index)
	if !base.C {
		return Taint{}
	}
	if k, ok := a.constKey(e.Index); ok {
		return base.ext(k)
	}
	return base.ext("*")
}

func (a *Analysis) complit(e *ast.CompositeLit) Taint {
	t := a.typeOf(e)
	var st *types.Struct
	if t != nil {
		st, _ = deref(t).Underlying().(*types.Struct)
	}
	var res Taint
	for i, el := range e.Elts {
		if st != nil {
			var fname string
			var val ast.Expr
			if kv, ok := el.(*ast.KeyValueExpr); ok {
				fname = kv.Key.(*ast.Ident).Name
				val = kv.Value
			} else {
				fname = st.Field(i).Name()
				val = el
			}
			a.joinInto(a.ft(fieldKey(t, fname)), a.ev(val))
			continue
		}
		if kv, ok := el.(*ast.KeyValueExpr); ok {
			a.ev(kv.Key)
			res = join(res, a.ev(kv.Value))
		} else {
			res = join(res, a.ev(el))
		}
	}
	if res.C {
		// a router-made container holding client values: elements are
		// client-controlled
		return Taint{C: true, Own: false, Field: res.Field, Path: append(append([]string{}, res.Path...), "^lit"), Derived: true}
	}
	return Taint{}
}
