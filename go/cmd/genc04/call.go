package main

import (
	"go/ast"
	"go/types"
)

// call evaluates a call expression: binds argument taints to the parameters
// of every possible callee inside the analysed packages, records call-graph
// edges and returns the taints of the results.
func (a *Analysis) call(e *ast.CallExpr) []Taint {
	info := a.curPkg.Info
	// conversion
	if tv, ok := info.Types[e.Fun]; ok && tv.IsType() {
		if len(e.Args) != 1 {
			fatalf("conversion with %d arguments", len(e.Args))
		}
		return []Taint{a.ev(e.Args[0]).derived()}
	}
	// builtins
	if id, ok := unparen(e.Fun).(*ast.Ident); ok {
		if b, ok := info.ObjectOf(id).(*types.Builtin); ok {
			return a.builtin(b.Name(), e)
		}
	}
	args := make([]Taint, len(e.Args))
	for i, x := range e.Args {
		args[i] = a.ev(x)
	}
	anyArg := Taint{}
	for _, t := range args {
		anyArg = join(anyArg, t)
	}
	sigT, _ := a.typeOf(e.Fun).(*types.Signature)
	if sigT == nil {
		if t := a.typeOf(e.Fun); t != nil {
			sigT, _ = t.Underlying().(*types.Signature)
		}
	}
	nres := 0
	if sigT != nil {
		nres = sigT.Results().Len()
	}
	results := make([]Taint, nres)

	var recvExpr ast.Expr
	var callee *types.Func
	dynamic := false
	switch f := unparen(e.Fun).(type) {
	case *ast.Ident:
		switch o := info.ObjectOf(f).(type) {
		case *types.Func:
			callee = o
		case *types.Var:
			// call of a function value held in a variable
			if fl, ok := a.litLocal[o]; ok && a.litAssig[o] == 1 {
				return a.callLit(fl, args, nres)
			}
			dynamic = true
		default:
			dynamic = true
		}
	case *ast.SelectorExpr:
		if sel := info.Selections[f]; sel != nil {
			switch sel.Kind() {
			case types.MethodVal:
				callee = sel.Obj().(*types.Func)
				recvExpr = f.X
			case types.FieldVal:
				a.ev(f)
				dynamic = true
			default:
				dynamic = true
			}
		} else if o, ok := info.ObjectOf(f.Sel).(*types.Func); ok {
			callee = o // pkg.Func
		} else {
			a.ev(f)
			dynamic = true
		}
	case *ast.FuncLit:
		a.cur.Calls[a.litNode[f].Key] = true
		res := a.callLit(f, args, nres)
		a.walkLit(f)
		return res
	case *ast.IndexExpr, *ast.IndexListExpr:
		// generic function instantiation, e.g. reflect.TypeFor[List]()
		var inner ast.Expr
		if ix, ok := f.(*ast.IndexExpr); ok {
			inner = ix.X
		} else {
			inner = f.(*ast.IndexListExpr).X
		}
		switch g := unparen(inner).(type) {
		case *ast.Ident:
			callee, _ = info.ObjectOf(g).(*types.Func)
		case *ast.SelectorExpr:
			callee, _ = info.ObjectOf(g.Sel).(*types.Func)
		}
		if callee == nil {
			a.ev(f)
			dynamic = true
		}
	default:
		a.ev(e.Fun)
		dynamic = true
	}

	var recvT Taint
	if recvExpr != nil {
		recvT = a.ev(recvExpr)
	}

	if dynamic || callee == nil {
		return a.unknownCall(e, args, join(anyArg, recvT), results, nil)
	}

	// interface method: dispatch to every implementation in scope
	if recvExpr != nil {
		rt := a.typeOf(recvExpr)
		if rt != nil {
			if it, ok := deref(rt).Underlying().(*types.Interface); ok {
				impls := a.implementations(it, callee.Name())
				for _, m := range impls {
					a.bind(m, args, recvT, e)
					a.cur.Calls[m.Key] = true
					for i, t := range a.resultT[m.Key] {
						if i < len(results) {
							results[i] = join(results[i], t)
						}
					}
				}
				if trustedComponent(rt) {
					return results
				}
				// implementations outside the analysed packages: unknown
				return a.unknownCall(e, args, join(anyArg, recvT), results, callee)
			}
		}
	}

	if n, ok := a.byName[callee.FullName()]; ok {
		a.bind(n, args, recvT, e)
		a.cur.Calls[n.Key] = true
		for i, t := range a.resultT[n.Key] {
			if i < len(results) {
				results[i] = join(results[i], t)
			}
		}
		return results
	}
	return a.unknownCall(e, args, join(anyArg, recvT), results, callee)
}

func unparen(e ast.Expr) ast.Expr {
	for {
		p, ok := e.(*ast.ParenExpr)
		if !ok {
			return e
		}
		e = p.X
	}
}

func (a *Analysis) callLit(fl *ast.FuncLit, args []Taint, nres int) []Taint {
	n := a.litNode[fl]
	a.cur.Calls[n.Key] = true
	pt := a.paramT[n.Key]
	ps := a.params(n)
	for len(pt) < len(ps) {
		pt = append(pt, Taint{})
	}
	for i := range args {
		if i < len(pt) {
			a.joinInto(&pt[i], args[i])
		}
	}
	a.paramT[n.Key] = pt
	res := make([]Taint, nres)
	for i, t := range a.resultT[n.Key] {
		if i < nres {
			res[i] = t
		}
	}
	return res
}

// bind joins argument taints into the parameters of node n.
func (a *Analysis) bind(n *Node, args []Taint, recv Taint, e *ast.CallExpr) {
	ps := a.params(n)
	pt := a.paramT[n.Key]
	for len(pt) < len(ps) {
		pt = append(pt, Taint{})
	}
	variadic := n.Type.Params != nil && len(n.Type.Params.List) > 0
	if variadic {
		_, variadic = n.Type.Params.List[len(n.Type.Params.List)-1].Type.(*ast.Ellipsis)
	}
	for i, t := range args {
		j := i
		if j >= len(pt) {
			if !variadic || len(pt) == 0 {
				continue
			}
			j = len(pt) - 1
		}
		a.joinInto(&pt[j], t)
	}
	a.paramT[n.Key] = pt
	if recv.C {
		rt := a.recvT[n.Key]
		if rt == nil {
			rt = &Taint{}
			a.recvT[n.Key] = rt
		}
		a.joinInto(rt, recv)
	}
}

// implementations returns the nodes of method `name` of every named type of
// the analysed packages whose method set implements the interface.
func (a *Analysis) implementations(it *types.Interface, name string) []*Node {
	var res []*Node
	for _, nt := range a.namedTypes {
		if _, isI := nt.Underlying().(*types.Interface); isI {
			continue
		}
		for _, t := range []types.Type{nt, types.NewPointer(nt)} {
			if !implementsByName(t, it) {
				continue
			}
			ms := types.NewMethodSet(t)
			for i := 0; i < ms.Len(); i++ {
				if f, ok := ms.At(i).Obj().(*types.Func); ok && f.Name() == name {
					if n, ok := a.byName[f.FullName()]; ok {
						dup := false
						for _, r := range res {
							dup = dup || r == n
						}
						if !dup {
							res = append(res, n)
						}
					}
				}
			}
			break
		}
	}
	return res
}

// implementsByName: every method name of the interface is in t's method set
// (packages are checked separately, so types.Implements cannot be used across
// them; arity-level precision is enough for dispatch over-approximation).
func implementsByName(t types.Type, it *types.Interface) bool {
	if it.NumMethods() == 0 {
		return false
	}
	ms := types.NewMethodSet(t)
	have := map[string]bool{}
	for i := 0; i < ms.Len(); i++ {
		have[ms.At(i).Obj().Name()] = true
	}
	for i := 0; i < it.NumMethods(); i++ {
		if !have[it.Method(i).Name()] {
			return false
		}
	}
	return true
}

// unknownCall: code outside the analysed packages, or a dynamic call.
func (a *Analysis) unknownCall(e *ast.CallExpr, args []Taint, anyT Taint, results []Taint, callee *types.Func) []Taint {
	name := ""
	pkg := ""
	if callee != nil {
		name = callee.Name()
		if callee.Pkg() != nil {
			pkg = callee.Pkg().Path()
		}
	}
	// sources: bytes read from a connection
	isRead := false
	switch {
	case pkg == "io" && (name == "ReadFull" || name == "ReadAtLeast" || name == "ReadAll"):
		isRead = true
	case name == "Read" || name == "ReadMessage" || name == "ReadFrom":
		isRead = true
	}
	if isRead {
		bt := Taint{C: true, Own: true, Field: "Bytes"}
		for _, x := range e.Args {
			a.assignTo(rootOf(x), bt)
		}
		for i := range results {
			results[i] = join(results[i], bt)
		}
		return results
	}
	// an &x argument of a call that handles client data receives client data
	if anyT.C {
		for _, x := range e.Args {
			if u, ok := unparen(x).(*ast.UnaryExpr); ok && u.Op.String() == "&" {
				a.assignTo(u.X, anyT.derived())
			}
		}
	}
	sig, _ := a.typeOf(e.Fun).(*types.Signature)
	for i := range results {
		var rt types.Type
		if sig != nil && i < sig.Results().Len() {
			rt = sig.Results().At(i).Type()
		}
		switch {
		case anyT.C:
			// result of unknown code applied to client data
			if rt != nil && isBoolOrError(rt) {
				continue
			}
			results[i] = join(results[i], anyT.derived())
		case rt != nil && (isMessageIface(rt) || isChanOfMessage(rt)):
			results[i] = join(results[i], Taint{C: true, Own: true, Field: "Message"})
		}
	}
	return results
}

func isBoolOrError(t types.Type) bool {
	if b, ok := t.Underlying().(*types.Basic); ok && b.Kind() == types.Bool {
		return true
	}
	return t.String() == "error"
}

func rootOf(e ast.Expr) ast.Expr {
	for {
		switch x := e.(type) {
		case *ast.ParenExpr:
			e = x.X
		case *ast.SliceExpr:
			e = x.X
		case *ast.IndexExpr:
			e = x.X
		case *ast.StarExpr:
			e = x.X
		case *ast.UnaryExpr:
			e = x.X
		default:
			return e
		}
	}
}

func (a *Analysis) builtin(name string, e *ast.CallExpr) []Taint {
	args := make([]Taint, len(e.Args))
	for i, x := range e.Args {
		if i == 0 && (name == "make" || name == "new") {
			continue // a type
		}
		args[i] = a.ev(x)
	}
	switch name {
	case "len", "cap":
		return []Taint{{}}
	case "append":
		var t Taint
		for _, x := range args {
			t = join(t, x)
		}
		return []Taint{t}
	case "min", "max":
		var t Taint
		for _, x := range args {
			t = join(t, x)
		}
		return []Taint{t.derived()}
	case "copy":
		if len(args) == 2 && args[1].C {
			a.assignTo(rootOf(e.Args[0]), args[1])
		}
		return []Taint{{}}
	case "make", "new", "delete", "close", "panic", "print", "println", "clear", "recover", "complex", "real", "imag":
		return []Taint{{}}
	}
	fatalf("unsupported builtin %s", name)
	return nil
}
