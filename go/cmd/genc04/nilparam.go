package main

import (
	"go/ast"
	"go/types"
)

// nilparam.go: parameters of pointer / interface type that some call site of
// the analysed packages passes as a literal nil (directly, or by handing on a
// parameter that is itself nil-able), and every dereference of such a
// parameter (field selection, method call) with whether a nil check
// dominates it.  prepareEvent(..., subscriber) is called with nil to build
// the copy of an event kept in the event history: `subscriber.HasFeature` is
// reachable with a nil subscriber by any client that publishes to a topic
// with history, so it must be guarded.

// nodeParams: parameter objects of a node (declaration or literal).
func (w *siteWalker) nodeParams(n *Node) []*types.Var { return w.a.params(n) }

// calleeNode: the node a call statically resolves to (declared function, or a
// literal bound once to a local variable).
func (w *siteWalker) calleeNode(p *Pkg, e *ast.CallExpr) *Node {
	a := w.a
	if fn := calleeOf(p.Info, e); fn != nil {
		if n, ok := a.byName[fn.FullName()]; ok {
			return n
		}
		return nil
	}
	if id, ok := unparen(e.Fun).(*ast.Ident); ok {
		if o := p.Info.ObjectOf(id); o != nil {
			if fl, ok := a.litLocal[o]; ok && a.litAssig[o] == 1 {
				return a.litNode[fl]
			}
		}
	}
	return nil
}

func derefable(t types.Type) bool {
	switch types.Unalias(t).Underlying().(type) {
	case *types.Pointer, *types.Interface:
		return true
	}
	return false
}

// collectNilParams: fixpoint over all calls.
func (w *siteWalker) collectNilParams() {
	a := w.a
	w.nilParams = map[string]map[int]bool{}
	mark := func(key string, i int) bool {
		if w.nilParams[key] == nil {
			w.nilParams[key] = map[int]bool{}
		}
		if w.nilParams[key][i] {
			return false
		}
		w.nilParams[key][i] = true
		return true
	}
	for changed := true; changed; {
		changed = false
		for _, n := range a.nodeList {
			ps := w.nodeParams(n)
			idxOf := func(o types.Object) int {
				for i, p := range ps {
					if p != nil && types.Object(p) == o {
						return i
					}
				}
				return -1
			}
			ast.Inspect(n.Body, func(x ast.Node) bool {
				if fl, ok := x.(*ast.FuncLit); ok && (n.Lit == nil || fl != n.Lit) {
					return false // its own node
				}
				c, ok := x.(*ast.CallExpr)
				if !ok {
					return true
				}
				callee := w.calleeNode(n.Pkg, c)
				if callee == nil {
					return true
				}
				cps := w.nodeParams(callee)
				for i, arg := range c.Args {
					if i >= len(cps) || cps[i] == nil || !derefable(cps[i].Type()) {
						continue
					}
					id, ok := unparen(arg).(*ast.Ident)
					if !ok {
						continue
					}
					o := n.Pkg.Info.ObjectOf(id)
					if _, isNil := o.(*types.Nil); isNil {
						if mark(callee.Key, i) {
							changed = true
						}
					} else if j := idxOf(o); j >= 0 && w.nilParams[n.Key][j] {
						// a nil-able parameter handed on
						if mark(callee.Key, i) {
							changed = true
						}
					}
				}
				return true
			})
		}
	}
}

// nilParamDeref: e.X of a selector is a nil-able parameter of the current node.
func (w *siteWalker) nilParamDeref(e *ast.SelectorExpr, fs Facts) {
	a := w.a
	id, ok := unparen(e.X).(*ast.Ident)
	if !ok {
		return
	}
	o := a.curPkg.Info.ObjectOf(id)
	if o == nil {
		return
	}
	// the parameter may belong to an enclosing function (closures capture it)
	for n := a.cur; n != nil; n = n.Parent {
		for i, p := range w.nodeParams(n) {
			if p == nil || types.Object(p) != o || !w.nilParams[n.Key][i] {
				continue
			}
			if sel := a.curPkg.Info.Selections[e]; sel == nil {
				return
			}
			s := w.add(e.Pos(), "nilparam", Taint{}, exprStr(e))
			s.Key = id.Name
			s.Guarded = fs.has("nonnil", id.Name) != nil
			return
		}
	}
}
