package main

import (
	"encoding/json"
	"flag"
	"fmt"
	"os"
	"sort"
	"strings"
)

type KeyUse struct {
	Field    string `json:"field"`
	Key      string `json:"key"`
	Accessor string `json:"accessor"`
	File     string `json:"file"`
	Line     int    `json:"line"`
	Func     string `json:"func"`
}

type PolicyInfo struct {
	Present   bool     `json:"present"`           // a panic sits in the default clause of a switch over a struct field
	Tag       string   `json:"tag,omitempty"`     // e.g. reg.policy
	TagKey    string   `json:"tag_key,omitempty"` // router.registration.policy
	Cases     []string `json:"cases,omitempty"`   // constants the switch handles
	File      string   `json:"file,omitempty"`
	Line      int      `json:"line,omitempty"`
	ShareForm string   `json:"share_form,omitempty"` // in | notin | unconstrained | none
	ShareSet  []string `json:"share_set,omitempty"`
	ShareFile string   `json:"share_file,omitempty"`
	ShareLine int      `json:"share_line,omitempty"`
}

type Output struct {
	Repo     string         `json:"repo"`
	Sites    []*Site        `json:"sites"`
	Keys     []KeyUse       `json:"keys"`
	Policy   PolicyInfo     `json:"policy"`
	Summary  map[string]int `json:"summary"`
	Unsafe   []int          `json:"unsafe_client_sites"` // mirror of Coq's site_safe, for targeting only
	Warnings []string       `json:"warnings"`
	// functions that read the details of a session parameter without locking
	// (function#parameter index; their call sites carry the obligation)
	DetailsDelegated []string `json:"details_delegated"`
}

func main() {
	repo := flag.String("repo", "/repo", "repository working tree")
	coqOut := flag.String("coq", "", "write the Coq inventory to this file")
	jsonOut := flag.String("json", "", "write the JSON inventory to this file")
	flag.Parse()

	prog := load(*repo)
	a := newAnalysis(prog)
	a.run()
	if dbg := os.Getenv("GENC04_DEBUG"); dbg != "" {
		for o, t := range a.varT {
			if t.C && strings.Contains(o.String(), dbg) {
				f, l := prog.pos(o.Pos())
				fmt.Fprintf(os.Stderr, "DEBUG var %s:%d %s own=%v %s\n", f, l, o.Name(), t.Own, t)
			}
		}
		for k, ts := range a.resultT {
			if strings.Contains(k, dbg) {
				fmt.Fprintf(os.Stderr, "DEBUG result %s %v\n", k, ts)
			}
		}
		for k, ts := range a.paramT {
			if strings.Contains(k, dbg) {
				fmt.Fprintf(os.Stderr, "DEBUG param %s %v\n", k, ts)
			}
		}
	}
	g := a.buildGraph()
	w := &siteWalker{a: a}
	w.run()
	g.kinds()
	sites := w.sorted()
	g.finishPeerClose(sites, w.calls)
	for _, s := range sites {
		if n := a.nodes[s.Node]; n != nil {
			s.Kinds = kindsOf(n)
		}
	}

	if dbg := os.Getenv("GENC04_DEBUG_CALLS"); dbg != "" {
		for _, n := range a.nodeList {
			if strings.Contains(n.Short, dbg) {
				fmt.Fprintf(os.Stderr, "DEBUG node %s go=%v kinds=%v\n   calls=%v\n", n.Short, n.GoLaunched, kindsOf(n), sortedKeys(n.Calls))
			}
		}
	}
	out := &Output{Repo: prog.Repo, Sites: sites, Summary: map[string]int{}}
	for _, s := range sites {
		out.Summary[s.Class+"/"+s.Origin]++
		if s.Key != "" && s.Origin != "internal" {
			acc := ""
			switch s.Class {
			case "assert":
				if s.CommaOk {
					acc = "comma-ok ." + "(" + s.Type + ")"
				} else {
					acc = "bare .(" + s.Type + ")"
				}
			case "accessor":
				acc = "wamp." + s.Accessor
			case "keyread":
				acc = "index:" + s.Accessor
			case "mapwrite":
				acc = "write"
			default:
				continue
			}
			out.Keys = append(out.Keys, KeyUse{Field: s.Field, Key: s.Key, Accessor: acc, File: s.File, Line: s.Line, Func: s.Func})
		}
	}
	out.Policy = policyInfo(w)
	out.DetailsDelegated = w.delegated
	for _, s := range sites {
		if relevant(s) && !mirrorSafe(s) {
			out.Unsafe = append(out.Unsafe, s.ID)
		}
	}
	if out.Unsafe == nil {
		out.Unsafe = []int{}
	}
	if out.Warnings == nil {
		out.Warnings = []string{}
	}

	if *jsonOut != "" {
		b, _ := json.MarshalIndent(out, "", " ")
		if err := os.WriteFile(*jsonOut, append(b, '\n'), 0o644); err != nil {
			fatalf("%v", err)
		}
	}
	if *coqOut != "" {
		if err := os.WriteFile(*coqOut, []byte(emitCoq(out)), 0o644); err != nil {
			fatalf("%v", err)
		}
	}
	keys := map[string]bool{}
	for _, k := range out.Keys {
		keys[k.Key] = true
	}
	fmt.Printf("genc04: %d sites (%d client/derived), %d distinct keys, %d unsafe client sites\n",
		len(sites), countClient(sites), len(keys), len(out.Unsafe))
}

// relevant mirrors Safety/Sites.v:site_relevant: the sites the C04
// obligations speak about.  Decoder internals (transport/serialize) are
// inventoried but owned by C14's list_to_msg_total.
func relevant(s *Site) bool {
	if strings.HasPrefix(s.File, "transport/serialize/") {
		return false
	}
	switch s.Class {
	case "peerclose", "panic", "msgsend", "detailsuse", "nilparam":
		return true
	}
	return s.Origin != "internal"
}

func countClient(ss []*Site) int {
	n := 0
	for _, s := range ss {
		if s.Origin != "internal" {
			n++
		}
	}
	return n
}

// policyInfo relates the panic in the default clause of a switch over a
// struct field (syncCall: reg.policy) with the condition under which another
// element is appended to the slice the switch selects from (syncRegister:
// reg.callees = append(reg.callees, callee)).
func policyInfo(w *siteWalker) PolicyInfo {
	var pi PolicyInfo
	if len(w.switches) == 0 {
		return pi
	}
	if len(w.switches) > 1 {
		fatalf("more than one panic in a switch default over a field: %v", w.switches)
	}
	ps := w.switches[0]
	if ps.TagKey == "" {
		fatalf("%s:%d: panic in the default clause of a switch whose tag is not a struct field (%s)", ps.File, ps.Line, ps.Tag)
	}
	pi.Present, pi.Tag, pi.TagKey, pi.Cases, pi.File, pi.Line = true, ps.Tag, ps.TagKey, ps.Cases, ps.File, ps.Line
	sort.Strings(pi.Cases)
	structKey := ps.TagKey[:strings.LastIndex(ps.TagKey, ".")]
	fieldName := ps.TagKey[strings.LastIndex(ps.TagKey, ".")+1:]
	pi.ShareForm = "none"
	for _, as := range w.appendFacts {
		if !strings.HasPrefix(as.Field, structKey+".") {
			continue
		}
		// facts about <base>.<fieldName>
		form, set := "unconstrained", []string(nil)
		for _, f := range as.Facts {
			if f.X != as.Base+"."+fieldName {
				continue
			}
			switch f.Kind {
			case "in":
				if form != "in" {
					form, set = "in", append([]string{}, f.Set...)
				} else {
					set = intersect(set, f.Set)
				}
			case "notin":
				if form == "unconstrained" {
					form, set = "notin", append([]string{}, f.Set...)
				} else if form == "notin" {
					set = append(set, f.Set...)
				}
			}
		}
		if pi.ShareForm != "none" {
			fatalf("several append sites grow a slice of %s; the policy obligation handles one", structKey)
		}
		sort.Strings(set)
		set = dedupe(set)
		pi.ShareForm, pi.ShareSet, pi.ShareFile, pi.ShareLine = form, set, as.File, as.Line
	}
	return pi
}

func dedupe(a []string) []string {
	var r []string
	for i, x := range a {
		if i == 0 || x != a[i-1] {
			r = append(r, x)
		}
	}
	return r
}

func intersect(a, b []string) []string {
	var r []string
	for _, x := range a {
		for _, y := range b {
			if x == y {
				r = append(r, x)
			}
		}
	}
	return r
}

// mirrorSafe mirrors Safety/Sites.v:site_safe.  It is used ONLY to aim the
// targeted hostile stream when the Coq obligation fails; the verdict on the
// obligation is Coq's.
func mirrorSafe(s *Site) bool {
	switch s.Class {
	case "assert":
		return s.CommaOk
	case "accessor":
		return accessorNames[s.Accessor]
	case "keyread", "connclose", "shutdown", "chanclose":
		return true
	case "index":
		switch s.Idx {
		case "const":
			return s.IdxN < s.LenGe
		case "range", "loopdown":
			return true
		case "loop":
			return s.IdxN <= s.IdxC
		case "last":
			return s.IdxN <= s.LenGe
		}
		return false
	case "slice":
		switch s.Slice {
		case "full", "prefix", "clamp", "uptorange":
			return true
		case "lenminus", "from", "upto":
			return s.IdxN <= s.LenGe
		}
		return false
	case "panic":
		switch s.Guard {
		case "nil-argument", "error", "constant-argument", "startup-reply":
			return true
		case "switch-default":
			return true // decided by the policy obligation
		}
		return false
	case "msgderef":
		return true // decided globally through msgsend
	case "msgsend":
		return s.Assigned
	case "peerclose":
		if s.Path == "presession" {
			return true
		}
		if s.Path == "exit" {
			b, d := false, false
			for _, x := range s.After {
				b = b || x == "removed-from:router.broker"
				d = d || x == "removed-from:router.dealer"
			}
			return b && d
		}
		if s.Path == "shutdown" {
			b, d := false, false
			for _, x := range s.After {
				b = b || x == "stopped:router.broker"
				d = d || x == "stopped:router.dealer"
			}
			return b && d
		}
		return false
	case "mapwrite":
		return s.NonNil != ""
	case "reflect", "div", "makelen":
		return s.Guarded
	case "callpanic":
		return false
	case "nilparam":
		return s.Guarded
	case "detailsuse":
		return s.Guard == "locked" || s.Guard == "after-removal" || s.Guard == "fresh"
	}
	return false
}
