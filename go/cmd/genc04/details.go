package main

import (
	"go/ast"
	"go/token"
	"go/types"
	"sort"
	"strings"
)

// details.go: every use of the details map of a session (Session.Details) and
// the session lock held at that point.
//
// The details of a session are written by the realm goroutine
// (wamp.session.modify_details) and by an Authorizer under the session's own
// mutex; everything else that reads them -- the publish filter in the broker
// goroutine, the session meta procedures, the disclose paths of dealer and
// broker, on_join -- must hold THAT session's lock.  A use is
//   * an index / range / write on E.Details (or on a local alias of it),
//   * E.Details passed to a call,
//   * a call handing a "safe session" copy (wamp.Session{Details: X.Details})
//     or a session to code that reads the parameter's details without locking
//     (PublishFilter.Allowed, Authorizer.Authorize, helpers).
// A use is accepted when the lock of the owner X is held (X.Lock() before it in
// the same function, no X.Unlock() in between), when the session was already
// deleted from the realm's client table earlier in the function (the only
// other writer can no longer find it), or when the session was created in this
// function and is not shared yet.  A function that reads the details of a
// session PARAMETER without locking delegates the duty to its call sites.

type sessArg struct {
	idx       int
	owner     string // text of the session expression whose details are meant
	synthetic bool   // a wamp.Session{Details: X.Details} copy
	paramIdx  int    // >= -1 when the owner's root is a parameter (-1: receiver) of the enclosing declaration, else -2
	fresh     bool
}

type sessCall struct {
	pos      token.Pos
	node     *Node
	decl     string // key of the enclosing declared function
	expr     string
	callees  []string
	trusted  bool // method of an application-supplied component interface
	args     []sessArg
	held     []string
	removed  map[string]bool // owners already deleted from a client table
	reported bool
}

type lockState struct {
	held    []string
	inDefer bool
}

func (w *siteWalker) declOf(n *Node) *Node {
	for n != nil && n.Decl == nil {
		n = n.Parent
	}
	return n
}

// paramIndex: index of obj among the parameters of the enclosing declared
// function (-1: its receiver), -2 when it is not one.
func (w *siteWalker) paramIndex(obj types.Object) int {
	d := w.declOf(w.a.cur)
	if d == nil || obj == nil {
		return -2
	}
	for i, p := range w.a.params(d) {
		if p != nil && types.Object(p) == obj {
			return i
		}
	}
	if d.Decl.Recv != nil && len(d.Decl.Recv.List) == 1 && len(d.Decl.Recv.List[0].Names) == 1 {
		if w.a.curPkg.Info.Defs[d.Decl.Recv.List[0].Names[0]] == obj {
			return -1
		}
	}
	return -2
}

func stripAddr(e ast.Expr) ast.Expr {
	for {
		e = unparen(e)
		switch x := e.(type) {
		case *ast.UnaryExpr:
			if x.Op == token.AND {
				e = x.X
				continue
			}
		case *ast.StarExpr:
			e = x.X
			continue
		}
		return e
	}
}

func (w *siteWalker) singleDef(e ast.Expr) (ast.Expr, bool) {
	id, ok := e.(*ast.Ident)
	if !ok {
		return nil, false
	}
	o := w.a.curPkg.Info.ObjectOf(id)
	if o == nil || len(w.varDefs[o]) != 1 || w.varDefs[o][0] == nil {
		return nil, false
	}
	return w.varDefs[o][0], true
}

// sessionLit: e is wamp.Session{...} or &wamp.Session{...}.
func (w *siteWalker) sessionLit(e ast.Expr) *ast.CompositeLit {
	cl, ok := stripAddr(e).(*ast.CompositeLit)
	if !ok {
		return nil
	}
	if t := w.a.typeOf(cl); t != nil && isSessionType(t) {
		return cl
	}
	return nil
}

// ownerOfSession: whose details does the session expression x carry?
func (w *siteWalker) ownerOfSession(x ast.Expr, depth int) (owner string, root *ast.Ident, synthetic, fresh bool) {
	x = stripAddr(x)
	if def, ok := w.singleDef(x); ok && depth < 4 {
		if cl := w.sessionLit(def); cl != nil {
			for _, el := range cl.Elts {
				if kv, ok := el.(*ast.KeyValueExpr); ok {
					if k, ok := kv.Key.(*ast.Ident); ok && k.Name == "Details" {
						if sel, ok := unparen(kv.Value).(*ast.SelectorExpr); ok && sel.Sel.Name == "Details" {
							if t := w.a.typeOf(sel.X); t != nil && isSessionType(t) {
								o, r, _, f := w.ownerOfSession(sel.X, depth+1)
								return o, r, true, f
							}
						}
						return exprStr(x), rootIdent(x), true, true // details from elsewhere: a new object
					}
				}
			}
			return exprStr(x), rootIdent(x), true, true
		}
		if c, ok := unparen(def).(*ast.CallExpr); ok {
			if fn := w.calleeFunc(c); fn != nil && fn.Name() == "NewSession" {
				return exprStr(x), rootIdent(x), false, true
			}
		}
	}
	return exprStr(x), rootIdent(x), false, false
}

func rootIdent(e ast.Expr) *ast.Ident {
	id, _ := rootOf(e).(*ast.Ident)
	if id == nil {
		if s, ok := rootOf(e).(*ast.SelectorExpr); ok {
			return rootIdent(s.X)
		}
	}
	return id
}

// detailsMap: e denotes the details map of a session (E.Details or a local
// variable defined as such).
func (w *siteWalker) detailsMap(e ast.Expr, depth int) (sess ast.Expr, ok bool) {
	e = unparen(e)
	if sel, isSel := e.(*ast.SelectorExpr); isSel && sel.Sel.Name == "Details" {
		if t := w.a.typeOf(sel.X); t != nil && isSessionType(t) {
			return sel.X, true
		}
		return nil, false
	}
	if def, isDef := w.singleDef(e); isDef && depth < 3 {
		return w.detailsMap(def, depth+1)
	}
	return nil, false
}

// removedBefore: a statement dominating the current position (closures sent
// to an action channel included) deletes owner / owner.ID from a map.
func (w *siteWalker) removedBefore(owner string) bool {
	found := false
	for bi := len(w.blockStack) - 1; bi >= 0 && !found; bi-- {
		for i := 0; i < w.stmtIndex[bi] && i < len(w.blockStack[bi]); i++ {
			ast.Inspect(w.blockStack[bi][i], func(x ast.Node) bool {
				if c, ok := x.(*ast.CallExpr); ok && len(c.Args) == 2 {
					if id, ok := c.Fun.(*ast.Ident); ok && id.Name == "delete" {
						k := exprStr(c.Args[1])
						if k == owner || k == owner+".ID" {
							found = true
						}
					}
				}
				return !found
			})
		}
	}
	return found
}

func (w *siteWalker) heldCopy() []string { return append([]string{}, w.locks.held...) }

func holds(held []string, owner string) bool {
	for _, h := range held {
		if h == owner {
			return true
		}
	}
	return false
}

// lockCall updates the lock set for X.Lock() / X.Unlock() on a session.
func (w *siteWalker) lockCall(e *ast.CallExpr) bool {
	sel, ok := unparen(e.Fun).(*ast.SelectorExpr)
	if !ok || len(e.Args) != 0 || (sel.Sel.Name != "Lock" && sel.Sel.Name != "Unlock") {
		return false
	}
	t := w.a.typeOf(sel.X)
	if t == nil || !isSessionType(t) {
		return false
	}
	x := exprStr(stripAddr(sel.X))
	if sel.Sel.Name == "Lock" {
		w.locks.held = append(w.locks.held, x)
		return true
	}
	if w.locks.inDefer {
		return true // released when the function returns
	}
	for i := len(w.locks.held) - 1; i >= 0; i-- {
		if w.locks.held[i] == x {
			w.locks.held = append(w.locks.held[:i], w.locks.held[i+1:]...)
			break
		}
	}
	return true
}

// detailsUse records a direct use of a session's details map.
func (w *siteWalker) detailsUse(pos token.Pos, sess ast.Expr, how, expr string) {
	owner, root, _, fresh := w.ownerOfSession(sess, 0)
	state := ""
	switch {
	case holds(w.locks.held, owner):
		state = "locked"
	case fresh:
		state = "fresh"
	case w.removedBefore(owner):
		state = "after-removal"
	case len(w.locks.held) > 0:
		state = "wronglock"
	}
	if state == "" && root != nil {
		if pi := w.paramIndex(w.a.curPkg.Info.ObjectOf(root)); pi >= -1 {
			// the function reads the details of a session it was given: its
			// call sites must hold the lock
			d := w.declOf(w.a.cur)
			if w.delegates == nil {
				w.delegates = map[string]map[int]bool{}
			}
			if w.delegates[d.Key] == nil {
				w.delegates[d.Key] = map[int]bool{}
			}
			w.delegates[d.Key][pi] = true
			return
		}
	}
	if state == "" {
		state = "unlocked"
	}
	s := w.add(pos, "detailsuse", Taint{}, expr)
	s.Guard = state
	s.Key = owner
	s.Method = how
	s.Detail = w.heldCopy()
}

// noteSessionArgs records a call that hands sessions (or safe-session copies)
// to other code, for the delegation check in finishDetails.
func (w *siteWalker) noteSessionArgs(e *ast.CallExpr) {
	a := w.a
	var args []sessArg
	for i, x := range e.Args {
		// the details map itself as an argument is a direct use
		if sx, ok := w.detailsMap(x, 0); ok {
			w.detailsUse(x.Pos(), sx, "passed to "+exprStr(e.Fun), exprStr(e))
			continue
		}
		t := a.typeOf(stripAddr(x))
		if t == nil || !isSessionType(t) {
			continue
		}
		owner, root, syn, fresh := w.ownerOfSession(x, 0)
		pi := -2
		if root != nil {
			pi = w.paramIndex(a.curPkg.Info.ObjectOf(root))
		}
		args = append(args, sessArg{idx: i, owner: owner, synthetic: syn, paramIdx: pi, fresh: fresh})
	}
	// the receiver of a method call on a session counts as argument -1
	if sel, ok := unparen(e.Fun).(*ast.SelectorExpr); ok {
		if t := a.typeOf(sel.X); t != nil && isSessionType(t) {
			owner, root, syn, fresh := w.ownerOfSession(sel.X, 0)
			pi := -2
			if root != nil {
				pi = w.paramIndex(a.curPkg.Info.ObjectOf(root))
			}
			args = append(args, sessArg{idx: -1, owner: owner, synthetic: syn, paramIdx: pi, fresh: fresh})
		}
	}
	if len(args) == 0 {
		return
	}
	rec := &sessCall{pos: e.Pos(), node: a.cur, expr: exprStr(e), args: args, held: w.heldCopy(), removed: map[string]bool{}}
	if d := w.declOf(a.cur); d != nil {
		rec.decl = d.Key
	}
	for _, ar := range args {
		if w.removedBefore(ar.owner) {
			rec.removed[ar.owner] = true
		}
	}
	if fn := calleeOf(a.curPkg.Info, e); fn != nil {
		if n, ok := a.byName[fn.FullName()]; ok {
			rec.callees = append(rec.callees, n.Key)
		}
		if sel, ok := unparen(e.Fun).(*ast.SelectorExpr); ok {
			if rt := a.typeOf(sel.X); rt != nil {
				if it, ok := deref(rt).Underlying().(*types.Interface); ok {
					for _, m := range a.implementations(it, fn.Name()) {
						rec.callees = append(rec.callees, m.Key)
					}
					rec.trusted = trustedComponent(rt)
				}
			}
		}
	}
	w.sessCalls = append(w.sessCalls, rec)
}

// finishDetails: call sites of functions that read the details of a session
// parameter without locking.
func (w *siteWalker) finishDetails() {
	if w.delegates == nil {
		w.delegates = map[string]map[int]bool{}
	}
	needs := func(rec *sessCall, ar sessArg) bool {
		for _, c := range rec.callees {
			if w.delegates[c][ar.idx] {
				return true
			}
		}
		// an application-supplied component given a copy of the session: it
		// has no way to lock, so the caller must
		return rec.trusted && ar.synthetic
	}
	type verdict struct {
		rec   *sessCall
		ar    sessArg
		state string
	}
	var out []verdict
	for changed := true; changed; {
		changed = false
		out = out[:0]
		for _, rec := range w.sessCalls {
			for _, ar := range rec.args {
				if !needs(rec, ar) {
					continue
				}
				st := ""
				switch {
				case holds(rec.held, ar.owner):
					st = "locked"
				case ar.fresh:
					st = "fresh"
				case rec.removed[ar.owner]:
					st = "after-removal"
				case len(rec.held) > 0:
					st = "wronglock"
				case ar.paramIdx >= -1 && rec.decl != "":
					if w.delegates[rec.decl] == nil {
						w.delegates[rec.decl] = map[int]bool{}
					}
					if !w.delegates[rec.decl][ar.paramIdx] {
						w.delegates[rec.decl][ar.paramIdx] = true
						changed = true
					}
					continue
				default:
					st = "unlocked"
				}
				out = append(out, verdict{rec, ar, st})
			}
		}
	}
	sort.SliceStable(out, func(i, j int) bool { return out[i].rec.pos < out[j].rec.pos })
	a := w.a
	for _, v := range out {
		a.cur, a.curPkg = v.rec.node, v.rec.node.Pkg
		s := w.add(v.rec.pos, "detailsuse", Taint{}, v.rec.expr)
		s.Guard = v.state
		s.Key = v.ar.owner
		s.Method = "session handed to code that reads its details"
		s.Detail = append([]string{}, v.rec.held...)
	}
	// for the evidence: which functions delegate
	for k, m := range w.delegates {
		for i := range m {
			w.delegated = append(w.delegated, shortName(k)+"#"+itoa(i))
		}
	}
	sort.Strings(w.delegated)
	_ = strings.TrimSpace
}
