// genc04: translator for property C04.
//
// Reads the non-test files of router, router/auth, wamp, transport and
// transport/serialize of the nexus repository (working tree), type-checks
// them with go/types, runs a conservative whole-program taint walk
// ("client-controlled" = flows from a received wamp.Message, from session
// details, from bytes read off a connection; unknown => client-controlled) and
// emits the inventory of panic-capable sites as a Coq file and as JSON.
//
// A source form the walk does not understand is a fatal error (exit 2): the
// check then reports a broken tie instead of silently skipping the construct.
package main

import (
	"fmt"
	"go/ast"
	"go/build"
	"go/importer"
	"go/parser"
	"go/token"
	"go/types"
	"os"
	"path/filepath"
	"sort"
	"strings"
)

const modPath = "github.com/gammazero/nexus/v3"

// Packages analysed, in dependency order.
var pkgDirs = []string{"wamp", "transport/serialize", "transport", "router/auth", "router"}

type Pkg struct {
	Dir   string // relative, e.g. "router"
	Path  string // import path
	Files []*ast.File
	Names []string // file names (relative to repo)
	Info  *types.Info
	Types *types.Package
}

type Program struct {
	Repo string
	Fset *token.FileSet
	Pkgs []*Pkg
}

func fatalf(format string, a ...any) {
	fmt.Fprintf(os.Stderr, "genc04: FATAL: "+format+"\n", a...)
	os.Exit(2)
}

func load(repo string) *Program {
	abs, err := filepath.Abs(repo)
	if err != nil {
		fatalf("%v", err)
	}
	// The source importer resolves module imports relative to the working
	// directory.
	if err := os.Chdir(abs); err != nil {
		fatalf("%v", err)
	}
	fset := token.NewFileSet()
	imp := importer.ForCompiler(fset, "source", nil)
	ctx := build.Default
	ctx.BuildTags = append(ctx.BuildTags, "verif")
	prog := &Program{Repo: abs, Fset: fset}
	for _, d := range pkgDirs {
		dir := filepath.Join(abs, d)
		ents, err := os.ReadDir(dir)
		if err != nil {
			fatalf("cannot read %s: %v", dir, err)
		}
		p := &Pkg{Dir: d, Path: modPath + "/" + d}
		for _, e := range ents {
			n := e.Name()
			if e.IsDir() || !strings.HasSuffix(n, ".go") || strings.HasSuffix(n, "_test.go") {
				continue
			}
			ok, err := ctx.MatchFile(dir, n)
			if err != nil {
				fatalf("%s/%s: %v", d, n, err)
			}
			if !ok {
				continue
			}
			f, err := parser.ParseFile(fset, filepath.Join(dir, n), nil, parser.ParseComments)
			if err != nil {
				fatalf("parse: %v", err)
			}
			p.Files = append(p.Files, f)
			p.Names = append(p.Names, d+"/"+n)
		}
		if len(p.Files) == 0 {
			fatalf("no Go files in %s", dir)
		}
		var terrs []string
		conf := types.Config{Importer: imp, Error: func(err error) { terrs = append(terrs, err.Error()) }}
		p.Info = &types.Info{
			Types:      map[ast.Expr]types.TypeAndValue{},
			Defs:       map[*ast.Ident]types.Object{},
			Uses:       map[*ast.Ident]types.Object{},
			Selections: map[*ast.SelectorExpr]*types.Selection{},
			Implicits:  map[ast.Node]types.Object{},
			Scopes:     map[ast.Node]*types.Scope{},
		}
		p.Types, _ = conf.Check(p.Path, fset, p.Files, p.Info)
		if len(terrs) != 0 {
			fatalf("type errors in %s (the repository does not compile?):\n  %s", d, strings.Join(terrs, "\n  "))
		}
		prog.Pkgs = append(prog.Pkgs, p)
	}
	return prog
}

func (prog *Program) pos(p token.Pos) (string, int) {
	ps := prog.Fset.Position(p)
	rel, err := filepath.Rel(prog.Repo, ps.Filename)
	if err != nil {
		rel = ps.Filename
	}
	return rel, ps.Line
}

// ---------------------------------------------------------------------------
// type predicates (by package path + name: packages are checked separately,
// so object identity across packages cannot be used)

func namedOf(t types.Type) (pkg, name string, ok bool) {
	t = types.Unalias(t)
	if n, isN := t.(*types.Named); isN {
		o := n.Obj()
		if o.Pkg() != nil {
			return o.Pkg().Path(), o.Name(), true
		}
		return "", o.Name(), true
	}
	return "", "", false
}

func isNamed(t types.Type, pkg, name string) bool {
	p, n, ok := namedOf(t)
	return ok && p == pkg && n == name
}

const wampPath = modPath + "/wamp"

func deref(t types.Type) types.Type {
	if p, ok := types.Unalias(t).Underlying().(*types.Pointer); ok {
		return p.Elem()
	}
	return t
}

func isEmptyIface(t types.Type) bool {
	i, ok := types.Unalias(t).Underlying().(*types.Interface)
	return ok && i.NumMethods() == 0
}

func isMessageIface(t types.Type) bool { return isNamed(t, wampPath, "Message") }

// isMsgStruct: a struct type of package wamp with a MessageType method.
func isMsgStruct(t types.Type) bool {
	t = deref(t)
	p, _, ok := namedOf(t)
	if !ok || p != wampPath {
		return false
	}
	if _, isS := t.Underlying().(*types.Struct); !isS {
		return false
	}
	ms := types.NewMethodSet(types.NewPointer(t))
	for i := 0; i < ms.Len(); i++ {
		if ms.At(i).Obj().Name() == "MessageType" {
			return true
		}
	}
	return false
}

func isDictType(t types.Type) bool {
	if isNamed(t, wampPath, "Dict") {
		return true
	}
	m, ok := types.Unalias(t).Underlying().(*types.Map)
	if !ok {
		return false
	}
	b, ok := m.Key().Underlying().(*types.Basic)
	return ok && b.Kind() == types.String && isEmptyIface(m.Elem())
}

func isMapType(t types.Type) bool {
	_, ok := types.Unalias(t).Underlying().(*types.Map)
	return ok
}

func isListType(t types.Type) bool {
	if isNamed(t, wampPath, "List") {
		return true
	}
	s, ok := types.Unalias(t).Underlying().(*types.Slice)
	return ok && isEmptyIface(s.Elem())
}

func isSessionType(t types.Type) bool { return isNamed(deref(t), wampPath, "Session") }

func isChanOfMessage(t types.Type) bool {
	c, ok := types.Unalias(t).Underlying().(*types.Chan)
	return ok && isMessageIface(c.Elem())
}

func isHTTPRequest(t types.Type) bool { return isNamed(deref(t), "net/http", "Request") }

func isReflectValue(t types.Type) bool { return isNamed(t, "reflect", "Value") }

// hasPeerMethods: the method set of t has Close, IsLocal, Recv, Send.
func hasPeerMethods(t types.Type) bool {
	if t == nil {
		return false
	}
	need := map[string]bool{"Close": false, "IsLocal": false, "Recv": false, "Send": false}
	check := func(ms *types.MethodSet) {
		for i := 0; i < ms.Len(); i++ {
			n := ms.At(i).Obj().Name()
			if _, ok := need[n]; ok {
				need[n] = true
			}
		}
	}
	check(types.NewMethodSet(t))
	if _, isPtr := t.Underlying().(*types.Pointer); !isPtr {
		if _, isI := t.Underlying().(*types.Interface); !isI {
			check(types.NewMethodSet(types.NewPointer(t)))
		}
	}
	for _, v := range need {
		if !v {
			return false
		}
	}
	return true
}

// taintCapable: a static type whose values can carry client-chosen dynamic
// content (used for parameters of exported / address-taken functions and for
// results of unknown calls).
func taintCapable(t types.Type) bool {
	if t == nil {
		return false
	}
	switch {
	case isEmptyIface(t), isDictType(t), isListType(t), isMessageIface(t), isMsgStruct(t), isChanOfMessage(t), isHTTPRequest(t):
		return true
	}
	return false
}

// trustedComponent: interfaces / function types through which the embedding
// application plugs its own code into the router. Their results are treated
// as router-internal (documented assumption).
func trustedComponent(t types.Type) bool {
	p, n, ok := namedOf(deref(t))
	if !ok {
		return false
	}
	switch p + "." + n {
	case modPath + "/router/auth.Authenticator", modPath + "/router/auth.KeyStore", modPath + "/router/auth.BypassKeyStore",
		modPath + "/router.Authorizer", modPath + "/router.PublishFilter", modPath + "/router.FilterFactory",
		modPath + "/stdlog.StdLog":
		return true
	}
	return false
}

func sortedKeys[V any](m map[string]V) []string {
	ks := make([]string, 0, len(m))
	for k := range m {
		ks = append(ks, k)
	}
	sort.Strings(ks)
	return ks
}
