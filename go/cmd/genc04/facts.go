package main

import (
	"go/ast"
	"go/constant"
	"go/token"
	"go/types"
	"strconv"
)

// A Fact is something a dominating condition or loop header establishes.
type Fact struct {
	Kind string // lenge, hasprefix, pos, nonnil, rangevar, looplt, loopdown, kind, convertible, in, notin
	X    string // canonical expression text
	Y    string
	N    int
	Set  []string
}

type Facts []Fact

func (fs Facts) with(more ...Fact) Facts {
	if len(more) == 0 {
		return fs
	}
	r := make(Facts, len(fs), len(fs)+len(more))
	copy(r, fs)
	return append(r, more...)
}

func (fs Facts) lenge(x string) int {
	n := 0
	for _, f := range fs {
		if f.Kind == "lenge" && f.X == x && f.N > n {
			n = f.N
		}
	}
	return n
}

func (fs Facts) has(kind, x string) *Fact {
	for i := len(fs) - 1; i >= 0; i-- {
		if fs[i].Kind == kind && fs[i].X == x {
			return &fs[i]
		}
	}
	return nil
}

func exprStr(e ast.Expr) string { return types.ExprString(unparen(e)) }

func (a *Analysis) intConst(e ast.Expr) (int, bool) {
	if tv, ok := a.curPkg.Info.Types[e]; ok && tv.Value != nil && tv.Value.Kind() == constant.Int {
		if v, ok := constant.Int64Val(tv.Value); ok {
			return int(v), true
		}
	}
	return 0, false
}

func (a *Analysis) strConst(e ast.Expr) (string, bool) {
	if tv, ok := a.curPkg.Info.Types[e]; ok && tv.Value != nil && tv.Value.Kind() == constant.String {
		return constant.StringVal(tv.Value), true
	}
	return "", false
}

// lenArg: e is len(X) -> X.
func (a *Analysis) lenArg(e ast.Expr) (ast.Expr, bool) {
	c, ok := unparen(e).(*ast.CallExpr)
	if !ok || len(c.Args) != 1 {
		return nil, false
	}
	id, ok := c.Fun.(*ast.Ident)
	if !ok || id.Name != "len" {
		return nil, false
	}
	if _, isB := a.curPkg.Info.ObjectOf(id).(*types.Builtin); !isB {
		return nil, false
	}
	return c.Args[0], true
}

// lenMinus: e is len(X) or len(X)-k -> (X, k).
func (a *Analysis) lenMinus(e ast.Expr) (ast.Expr, int, bool) {
	e = unparen(e)
	if x, ok := a.lenArg(e); ok {
		return x, 0, true
	}
	if b, ok := e.(*ast.BinaryExpr); ok && b.Op == token.SUB {
		if x, ok := a.lenArg(b.X); ok {
			if k, ok := a.intConst(b.Y); ok && k >= 0 {
				return x, k, true
			}
		}
	}
	return nil, 0, false
}

// condFacts returns the facts established when cond evaluates to `truth`.
func (a *Analysis) condFacts(cond ast.Expr, truth bool) Facts {
	cond = unparen(cond)
	switch c := cond.(type) {
	case *ast.UnaryExpr:
		if c.Op == token.NOT {
			return a.condFacts(c.X, !truth)
		}
	case *ast.BinaryExpr:
		switch c.Op {
		case token.LAND:
			if truth {
				return a.condFacts(c.X, true).with(a.condFacts(c.Y, true)...)
			}
			return nil
		case token.LOR:
			if !truth {
				fs := a.condFacts(c.X, false).with(a.condFacts(c.Y, false)...)
				// !(E == a || E == b) : E not in {a, b}
				if e, set, ok := a.eqChain(c); ok {
					fs = fs.with(Fact{Kind: "notin", X: e, Set: set})
				}
				return fs
			}
			if e, set, ok := a.eqChain(c); ok {
				return Facts{{Kind: "in", X: e, Set: set}}
			}
			return nil
		case token.EQL, token.NEQ, token.LSS, token.LEQ, token.GTR, token.GEQ:
			return a.cmpFacts(c, truth)
		}
	case *ast.CallExpr:
		// strings.HasPrefix(S, P)
		if sel, ok := c.Fun.(*ast.SelectorExpr); ok && (len(c.Args) == 2 || len(c.Args) == 1) {
			if f, ok := a.curPkg.Info.ObjectOf(sel.Sel).(*types.Func); ok && f.Pkg() != nil && f.Pkg().Path() == "strings" && f.Name() == "HasPrefix" && truth && len(c.Args) == 2 {
				return Facts{{Kind: "hasprefix", X: exprStr(c.Args[0]), Y: exprStr(c.Args[1])}}
			}
			// T.ConvertibleTo(U)
			if sel.Sel.Name == "ConvertibleTo" && truth {
				return Facts{{Kind: "convertible", X: exprStr(sel.X)}}
			}
			if sel.Sel.Name == "AssignableTo" && truth {
				return Facts{{Kind: "assignable", X: exprStr(sel.X)}}
			}
		}
	}
	return nil
}

// eqChain: E == c1 || E == c2 || ... with string constants.
func (a *Analysis) eqChain(e ast.Expr) (string, []string, bool) {
	e = unparen(e)
	b, ok := e.(*ast.BinaryExpr)
	if !ok {
		return "", nil, false
	}
	switch b.Op {
	case token.LOR:
		x1, s1, ok1 := a.eqChain(b.X)
		x2, s2, ok2 := a.eqChain(b.Y)
		if ok1 && ok2 && x1 == x2 {
			return x1, append(s1, s2...), true
		}
	case token.EQL:
		if s, ok := a.strConst(b.Y); ok {
			return exprStr(b.X), []string{s}, true
		}
		if s, ok := a.strConst(b.X); ok {
			return exprStr(b.Y), []string{s}, true
		}
	}
	return "", nil, false
}

func flip(op token.Token) token.Token {
	switch op {
	case token.LSS:
		return token.GTR
	case token.GTR:
		return token.LSS
	case token.LEQ:
		return token.GEQ
	case token.GEQ:
		return token.LEQ
	}
	return op
}

func negate(op token.Token) token.Token {
	switch op {
	case token.EQL:
		return token.NEQ
	case token.NEQ:
		return token.EQL
	case token.LSS:
		return token.GEQ
	case token.GEQ:
		return token.LSS
	case token.GTR:
		return token.LEQ
	case token.LEQ:
		return token.GTR
	}
	return op
}

func (a *Analysis) cmpFacts(c *ast.BinaryExpr, truth bool) Facts {
	op := c.Op
	x, y := unparen(c.X), unparen(c.Y)
	// put the constant / nil on the right
	if _, ok := a.intConst(x); ok {
		x, y, op = y, x, flip(op)
	} else if id, ok := x.(*ast.Ident); ok && id.Name == "nil" {
		x, y, op = y, x, flip(op)
	}
	if !truth {
		op = negate(op)
	}
	var fs Facts
	if id, ok := y.(*ast.Ident); ok && id.Name == "nil" {
		if op == token.NEQ {
			fs = append(fs, Fact{Kind: "nonnil", X: exprStr(x)})
		}
		return fs
	}
	// string equality -> membership facts
	if s, ok := a.strConst(y); ok {
		switch op {
		case token.EQL:
			fs = append(fs, Fact{Kind: "in", X: exprStr(x), Set: []string{s}})
		case token.NEQ:
			fs = append(fs, Fact{Kind: "notin", X: exprStr(x), Set: []string{s}})
		}
		return fs
	}
	// reflect Kind tests: X.Kind() == reflect.K
	if call, ok := x.(*ast.CallExpr); ok && len(call.Args) == 0 {
		if sel, ok := call.Fun.(*ast.SelectorExpr); ok && sel.Sel.Name == "Kind" && op == token.EQL {
			fs = append(fs, Fact{Kind: "kind", X: exprStr(sel.X), Y: exprStr(y)})
			return fs
		}
	}
	k, isConst := a.intConst(y)
	if !isConst {
		// len(A) == len(B)
		if la, ok := a.lenArg(x); ok {
			if lb, ok := a.lenArg(y); ok && op == token.EQL {
				fs = append(fs, Fact{Kind: "samelen", X: exprStr(la), Y: exprStr(lb)})
			}
			return fs
		}
		// X <= Y / X < Y : X is bounded above by a router-side quantity
		if op == token.LEQ || op == token.LSS {
			fs = append(fs, Fact{Kind: "bounded", X: exprStr(x), Y: exprStr(y)})
		}
		return fs
	}
	if lx, ok := a.lenArg(x); ok {
		n := -1
		switch op {
		case token.NEQ:
			if k == 0 {
				n = 1
			}
		case token.GTR:
			n = k + 1
		case token.GEQ:
			n = k
		case token.EQL:
			n = k
		}
		if n > 0 {
			fs = append(fs, Fact{Kind: "lenge", X: exprStr(lx), N: n})
		}
		return fs
	}
	switch op {
	case token.GTR:
		if k >= 0 {
			fs = append(fs, Fact{Kind: "pos", X: exprStr(x)})
		}
	case token.GEQ:
		if k >= 1 {
			fs = append(fs, Fact{Kind: "pos", X: exprStr(x)})
		}
	}
	return fs
}

// terminates: control never flows from the end of the statement list to the
// statement that follows the enclosing if.
func (a *Analysis) terminates(list []ast.Stmt) bool {
	if len(list) == 0 {
		return false
	}
	switch s := list[len(list)-1].(type) {
	case *ast.ReturnStmt:
		return true
	case *ast.BranchStmt:
		return s.Tok == token.CONTINUE || s.Tok == token.BREAK || s.Tok == token.GOTO
	case *ast.ExprStmt:
		if c, ok := s.X.(*ast.CallExpr); ok {
			if id, ok := c.Fun.(*ast.Ident); ok && id.Name == "panic" {
				return true
			}
		}
	case *ast.BlockStmt:
		return a.terminates(s.List)
	case *ast.IfStmt:
		if s.Else == nil {
			return false
		}
		if !a.terminates(s.Body.List) {
			return false
		}
		switch e := s.Else.(type) {
		case *ast.BlockStmt:
			return a.terminates(e.List)
		case *ast.IfStmt:
			return a.terminates([]ast.Stmt{e})
		}
	}
	return false
}

func itoa(n int) string { return strconv.Itoa(n) }
