package main

import (
	"go/ast"
	"go/token"
	"go/types"
	"sort"
	"strings"
)

// Site is one panic-capable (or close) site of the inventory.
type Site struct {
	ID     int      `json:"id"`
	File   string   `json:"file"`
	Line   int      `json:"line"`
	Func   string   `json:"func"`
	Node   string   `json:"-"`
	Kinds  []string `json:"goroutines"`
	Class  string   `json:"class"`
	Origin string   `json:"origin"` // client | derived | internal
	Taint  string   `json:"taint"`
	Field  string   `json:"field,omitempty"`
	Key    string   `json:"key,omitempty"`
	Expr   string   `json:"expr"`

	// assert
	CommaOk bool   `json:"comma_ok,omitempty"`
	Type    string `json:"type,omitempty"`
	// accessor / keyread
	Accessor string `json:"accessor,omitempty"`
	// index / slice
	Idx   string `json:"idx,omitempty"`   // const, range, loop, loopdown, last, other
	IdxN  int    `json:"idx_n,omitempty"` // constant / offset
	IdxC  int    `json:"idx_c,omitempty"` // loop slack
	LenGe int    `json:"len_ge,omitempty"`
	Array bool   `json:"array,omitempty"`
	// slice
	Slice string `json:"slice,omitempty"` // prefix, clamp, lenminus, full, other
	// panic
	Guard  string   `json:"guard,omitempty"`
	Detail []string `json:"detail,omitempty"`
	// close
	Path  string   `json:"close_path,omitempty"` // exit, presession, peerimpl, other
	Role  string   `json:"role,omitempty"`
	After []string `json:"after,omitempty"`
	// msgsend
	Assigned bool `json:"definitely_assigned,omitempty"`
	// mapwrite
	NonNil string `json:"nonnil,omitempty"`
	// reflect
	Method  string `json:"method,omitempty"`
	Guarded bool   `json:"guarded,omitempty"`
}

type siteWalker struct {
	a       *Analysis
	sites   []*Site
	commaOK map[ast.Expr]bool
	// statement context for close classification
	blockStack [][]ast.Stmt
	stmtIndex  []int
	condStack  []string
	switchTags []switchCtx
	varDefs    map[types.Object][]ast.Expr // single-definition right-hand sides
	calls      map[string][]callCtx
	// session details / lock discipline (details.go)
	locks     lockState
	sessCalls []*sessCall
	delegates map[string]map[int]bool
	delegated []string
	nilParams map[string]map[int]bool // node key -> parameter indices some call passes nil for
	// policy obligation
	appendFacts []appendSite
	switches    []panicSwitch
}

type switchCtx struct {
	tag     ast.Expr
	consts  []string
	inDeflt bool
}

type appendSite struct {
	File  string
	Line  int
	Func  string
	Field string // struct.field appended to
	Base  string // base variable text
	Facts Facts
}

type panicSwitch struct {
	File   string
	Line   int
	Func   string
	Tag    string // expression text
	TagKey string // struct.field key of the tag
	Base   string
	Cases  []string
}

// shape: the taint relevant for sites that depend on a container's nil-ness
// or length: only containers that themselves come from the client count.
func shape(t Taint) Taint {
	if t.C && !t.Own {
		return Taint{}
	}
	return t
}

func originOf(t Taint) string {
	switch {
	case !t.C:
		return "internal"
	case t.Derived:
		return "derived"
	}
	return "client"
}

func lastKey(t Taint) string {
	for i := len(t.Path) - 1; i >= 0; i-- {
		if strings.HasPrefix(t.Path[i], "k:") {
			return t.Path[i][2:]
		}
	}
	return ""
}

func (w *siteWalker) add(pos token.Pos, class string, t Taint, expr string) *Site {
	a := w.a
	f, l := a.prog.pos(pos)
	s := &Site{ID: len(w.sites), File: f, Line: l, Func: a.cur.Short, Node: a.cur.Key, Class: class, Origin: originOf(t), Taint: t.String(),
		Field: fieldOf(t), Key: lastKey(t), Expr: expr}
	w.sites = append(w.sites, s)
	return s
}

func fieldOf(t Taint) string {
	if !t.C {
		return ""
	}
	return t.Field
}

func (w *siteWalker) run() {
	a := w.a
	w.commaOK = map[ast.Expr]bool{}
	w.varDefs = map[types.Object][]ast.Expr{}
	for _, n := range a.nodeList {
		if n.Decl == nil {
			continue
		}
		a.cur, a.curPkg = n, n.Pkg
		w.collectDefs(n.Body)
	}
	w.collectNilParams()
	for _, n := range a.nodeList {
		if n.Decl == nil {
			continue
		}
		a.cur, a.curPkg = n, n.Pkg
		w.locks = lockState{}
		w.block(n.Body.List, nil)
	}
	w.finishDetails()
}

func (w *siteWalker) collectDefs(b *ast.BlockStmt) {
	info := w.a.curPkg.Info
	ast.Inspect(b, func(x ast.Node) bool {
		switch s := x.(type) {
		case *ast.AssignStmt:
			if len(s.Lhs) == len(s.Rhs) {
				for i, l := range s.Lhs {
					if id, ok := l.(*ast.Ident); ok {
						if o := info.ObjectOf(id); o != nil {
							w.varDefs[o] = append(w.varDefs[o], s.Rhs[i])
						}
					}
				}
			} else {
				for _, l := range s.Lhs {
					if id, ok := l.(*ast.Ident); ok {
						if o := info.ObjectOf(id); o != nil {
							w.varDefs[o] = append(w.varDefs[o], s.Rhs[0])
						}
					}
				}
			}
		case *ast.ValueSpec:
			for i, id := range s.Names {
				if o := info.ObjectOf(id); o != nil {
					if i < len(s.Values) {
						w.varDefs[o] = append(w.varDefs[o], s.Values[i])
					} else {
						w.varDefs[o] = append(w.varDefs[o], nil) // zero value
					}
				}
			}
		case *ast.IncDecStmt:
			if id, ok := s.X.(*ast.Ident); ok {
				if o := info.ObjectOf(id); o != nil {
					w.varDefs[o] = append(w.varDefs[o], s.X)
				}
			}
		}
		return true
	})
}

// block walks a statement list; facts established by a terminating if flow
// to the statements that follow it.
func (w *siteWalker) block(list []ast.Stmt, fs Facts) {
	w.blockStack = append(w.blockStack, list)
	w.stmtIndex = append(w.stmtIndex, 0)
	heldAtEntry := w.heldCopy()
	defer func() { w.locks.held = heldAtEntry }()
	for i, s := range list {
		w.stmtIndex[len(w.stmtIndex)-1] = i
		fs = w.stmt(s, fs)
	}
	w.blockStack = w.blockStack[:len(w.blockStack)-1]
	w.stmtIndex = w.stmtIndex[:len(w.stmtIndex)-1]
}

func (w *siteWalker) stmt(s ast.Stmt, fs Facts) Facts {
	a := w.a
	switch s := s.(type) {
	case nil, *ast.EmptyStmt, *ast.BranchStmt:
	case *ast.BlockStmt:
		w.block(s.List, fs)
	case *ast.ExprStmt:
		w.expr(s.X, fs, "stmt")
	case *ast.IncDecStmt:
		if ix, ok := s.X.(*ast.IndexExpr); ok && isMapType(a.typeOf(ix.X)) {
			w.mapWrite(ix, fs)
		}
		w.expr(s.X, fs, "raw")
	case *ast.LabeledStmt:
		return w.stmt(s.Stmt, fs)
	case *ast.GoStmt:
		w.expr(s.Call, fs, "stmt")
	case *ast.DeferStmt:
		w.locks.inDefer = true
		w.expr(s.Call, fs, "stmt")
		w.locks.inDefer = false
	case *ast.SendStmt:
		w.expr(s.Chan, fs, "raw")
		w.expr(s.Value, fs, "raw")
		w.msgSend(s, fs)
	case *ast.ReturnStmt:
		for _, e := range s.Results {
			w.expr(e, fs, "raw")
		}
	case *ast.DeclStmt:
		if gd, ok := s.Decl.(*ast.GenDecl); ok {
			for _, sp := range gd.Specs {
				if vs, ok := sp.(*ast.ValueSpec); ok {
					if len(vs.Names) == 2 && len(vs.Values) == 1 {
						w.commaOK[unparen(vs.Values[0])] = true
					}
					for _, v := range vs.Values {
						w.expr(v, fs, "raw")
					}
				}
			}
		}
	case *ast.AssignStmt:
		ctx := "raw"
		if len(s.Lhs) == 2 && len(s.Rhs) == 1 {
			w.commaOK[unparen(s.Rhs[0])] = true
			ctx = "lookup-ok"
			if id, ok := s.Lhs[0].(*ast.Ident); ok && id.Name == "_" {
				ctx = "presence"
			}
		}
		for _, r := range s.Rhs {
			w.expr(r, fs, ctx)
		}
		for i, l := range s.Lhs {
			switch l := unparen(l).(type) {
			case *ast.IndexExpr:
				if isMapType(a.typeOf(l.X)) {
					w.mapWrite(l, fs)
					w.expr(l.X, fs, "raw")
					w.expr(l.Index, fs, "raw")
				} else {
					w.expr(l, fs, "raw")
				}
			case *ast.Ident:
			default:
				w.expr(l, fs, "raw")
			}
			// facts: a map variable/field assigned a fresh map is non-nil
			if len(s.Lhs) == len(s.Rhs) {
				if ev := w.nonNilEvidence(s.Rhs[i]); ev != "" {
					fs = fs.with(Fact{Kind: "nonnil", X: exprStr(l), Y: ev})
				}
				w.noteAppend(l, s.Rhs[i], fs)
			}
		}
	case *ast.IfStmt:
		fs2 := fs
		if s.Init != nil {
			fs2 = w.stmt(s.Init, fs)
		}
		w.expr(s.Cond, fs2, "raw")
		pos := a.condFacts(s.Cond, true)
		neg := a.condFacts(s.Cond, false)
		w.condStack = append(w.condStack, exprStr(s.Cond))
		w.block(s.Body.List, fs2.with(pos...))
		w.condStack[len(w.condStack)-1] = "!(" + exprStr(s.Cond) + ")"
		bodyTerm := a.terminates(s.Body.List)
		elseTerm := false
		switch e := s.Else.(type) {
		case *ast.BlockStmt:
			w.block(e.List, fs2.with(neg...))
			elseTerm = a.terminates(e.List)
		case *ast.IfStmt:
			w.stmt(e, fs2.with(neg...))
			elseTerm = a.terminates([]ast.Stmt{e})
		}
		w.condStack = w.condStack[:len(w.condStack)-1]
		// facts for the statements after the if (the init's scope ends, but
		// facts about outer expressions remain valid)
		if bodyTerm && !elseTerm {
			return fs.with(neg...)
		}
		if elseTerm && !bodyTerm && s.Else != nil {
			return fs.with(pos...)
		}
	case *ast.ForStmt:
		fs2 := fs
		if s.Init != nil {
			fs2 = w.stmt(s.Init, fs)
		}
		if s.Cond != nil {
			w.expr(s.Cond, fs2, "raw")
		}
		fs2 = fs2.with(w.loopFacts(s)...)
		if s.Cond != nil {
			fs2 = fs2.with(a.condFacts(s.Cond, true)...)
		}
		if s.Post != nil {
			w.stmt(s.Post, fs2)
		}
		w.block(s.Body.List, fs2)
	case *ast.RangeStmt:
		w.expr(s.X, fs, "raw")
		if sx, ok := w.detailsMap(s.X, 0); ok {
			w.detailsUse(s.X.Pos(), sx, "range", exprStr(s.X))
		}
		fs2 := fs
		if id, ok := s.Key.(*ast.Ident); ok && id.Name != "_" {
			if xt := a.typeOf(s.X); xt != nil {
				switch types.Unalias(xt).Underlying().(type) {
				case *types.Slice, *types.Array, *types.Basic, *types.Pointer:
					fs2 = fs2.with(Fact{Kind: "rangevar", X: id.Name, Y: exprStr(s.X)})
				}
			}
		}
		w.block(s.Body.List, fs2)
	case *ast.SwitchStmt:
		fs2 := fs
		if s.Init != nil {
			fs2 = w.stmt(s.Init, fs)
		}
		if s.Tag != nil {
			w.expr(s.Tag, fs2, "raw")
		}
		var all []string
		for _, c := range s.Body.List {
			for _, e := range c.(*ast.CaseClause).List {
				if str, ok := a.strConst(e); ok {
					all = append(all, str)
				}
			}
		}
		var fallSets [][]string
		dfltTerm, hasDflt, allConst := false, false, true
		for _, c := range s.Body.List {
			cc := c.(*ast.CaseClause)
			cfs := fs2
			var consts []string
			for _, e := range cc.List {
				w.expr(e, fs2, "raw")
				if str, ok := a.strConst(e); ok {
					consts = append(consts, str)
				} else {
					allConst = false
				}
			}
			if s.Tag == nil && len(cc.List) == 1 {
				cfs = cfs.with(a.condFacts(cc.List[0], true)...)
			}
			if s.Tag != nil && len(consts) == len(cc.List) && len(consts) > 0 {
				cfs = cfs.with(Fact{Kind: "in", X: exprStr(s.Tag), Set: consts})
			}
			if s.Tag != nil && cc.List == nil && allConst {
				cfs = cfs.with(Fact{Kind: "notin", X: exprStr(s.Tag), Set: all})
			}
			w.switchTags = append(w.switchTags, switchCtx{tag: s.Tag, consts: all, inDeflt: cc.List == nil})
			w.block(cc.Body, cfs)
			w.switchTags = w.switchTags[:len(w.switchTags)-1]
			term := a.terminates(cc.Body)
			if cc.List == nil {
				hasDflt, dfltTerm = true, term
			} else if !term {
				fallSets = append(fallSets, consts)
			}
		}
		// after a tagged switch over string constants whose default
		// terminates, the tag is one of the constants of the clauses that
		// fall out of the switch
		if s.Tag != nil && hasDflt && dfltTerm && allConst {
			var set []string
			for _, cs := range fallSets {
				set = append(set, cs...)
			}
			return fs.with(Fact{Kind: "in", X: exprStr(s.Tag), Set: set})
		}
	case *ast.TypeSwitchStmt:
		fs2 := fs
		if s.Init != nil {
			fs2 = w.stmt(s.Init, fs)
		}
		switch as := s.Assign.(type) {
		case *ast.AssignStmt:
			w.expr(as.Rhs[0].(*ast.TypeAssertExpr).X, fs2, "typeswitch")
		case *ast.ExprStmt:
			w.expr(as.X.(*ast.TypeAssertExpr).X, fs2, "typeswitch")
		}
		for _, c := range s.Body.List {
			cc := c.(*ast.CaseClause)
			cfs := fs2
			// inside a non-nil type case the switched value is non-nil
			w.block(cc.Body, cfs)
		}
	case *ast.SelectStmt:
		for _, c := range s.Body.List {
			cc := c.(*ast.CommClause)
			cfs := fs
			if cc.Comm != nil {
				cfs = w.stmt(cc.Comm, fs)
			}
			w.block(cc.Body, cfs)
		}
	default:
		fatalf("sites: unsupported statement %T at %s", s, a.prog.Fset.Position(s.Pos()))
	}
	return fs
}

// loopFacts recognises  for i := 0; i < len(X)[-c] [&& ...]; i++  and
// for i := len(X)-1; i >= 0; i--.
func (w *siteWalker) loopFacts(s *ast.ForStmt) Facts {
	a := w.a
	var fs Facts
	init, ok := s.Init.(*ast.AssignStmt)
	if !ok || s.Cond == nil {
		return nil
	}
	for i, l := range init.Lhs {
		id, ok := l.(*ast.Ident)
		if !ok || i >= len(init.Rhs) {
			continue
		}
		// counting up from 0
		if k, ok := a.intConst(init.Rhs[i]); ok && k == 0 {
			for _, c := range conjuncts(s.Cond) {
				b, ok := c.(*ast.BinaryExpr)
				if !ok || b.Op != token.LSS {
					continue
				}
				if x, ok := unparen(b.X).(*ast.Ident); !ok || x.Name != id.Name {
					continue
				}
				if lx, k, ok := a.lenMinus(b.Y); ok {
					fs = append(fs, Fact{Kind: "looplt", X: id.Name, Y: exprStr(lx), N: k})
				} else if call, ok := unparen(b.Y).(*ast.CallExpr); ok && len(call.Args) == 0 {
					// i < val.Len()
					if sel, ok := call.Fun.(*ast.SelectorExpr); ok && sel.Sel.Name == "Len" {
						fs = append(fs, Fact{Kind: "looplt", X: id.Name, Y: exprStr(sel.X), N: 0})
					}
				}
			}
		}
		// counting down from len(X)-1
		if lx, k, ok := a.lenMinus(init.Rhs[i]); ok && k == 1 {
			if b, ok := unparen(s.Cond).(*ast.BinaryExpr); ok && b.Op == token.GEQ {
				if x, ok := unparen(b.X).(*ast.Ident); ok && x.Name == id.Name {
					if z, ok := a.intConst(b.Y); ok && z == 0 {
						fs = append(fs, Fact{Kind: "loopdown", X: id.Name, Y: exprStr(lx)})
					}
				}
			}
		}
	}
	return fs
}

func conjuncts(e ast.Expr) []ast.Expr {
	e = unparen(e)
	if b, ok := e.(*ast.BinaryExpr); ok && b.Op == token.LAND {
		return append(conjuncts(b.X), conjuncts(b.Y)...)
	}
	return []ast.Expr{e}
}

// nonNilEvidence: the expression certainly yields a non-nil map.
func (w *siteWalker) nonNilEvidence(e ast.Expr) string {
	a := w.a
	e = unparen(e)
	switch x := e.(type) {
	case *ast.CompositeLit:
		if isMapType(a.typeOf(x)) {
			return "lit"
		}
	case *ast.CallExpr:
		if id, ok := x.Fun.(*ast.Ident); ok && id.Name == "make" && len(x.Args) > 0 {
			if isMapType(a.typeOf(x)) {
				return "make"
			}
		}
		if f := w.calleeFunc(x); f != nil && f.Pkg() != nil && f.Pkg().Path() == wampPath && f.Name() == "NormalizeDict" && len(x.Args) == 1 {
			// NormalizeDict returns a fresh Dict{} whenever its argument's
			// static type is a map type (reflect kind Map even when nil)
			if isMapType(a.typeOf(x.Args[0])) {
				return "normalize"
			}
		}
	}
	return ""
}

func (w *siteWalker) calleeFunc(c *ast.CallExpr) *types.Func {
	info := w.a.curPkg.Info
	switch f := unparen(c.Fun).(type) {
	case *ast.Ident:
		fn, _ := info.ObjectOf(f).(*types.Func)
		return fn
	case *ast.SelectorExpr:
		fn, _ := info.ObjectOf(f.Sel).(*types.Func)
		return fn
	}
	return nil
}

// ---------------------------------------------------------------------------
// expressions

var accessorNames = map[string]bool{
	"AsString": true, "AsID": true, "AsURI": true, "AsInt64": true, "AsFloat64": true, "AsBool": true, "AsDict": true, "AsList": true,
	"ListToStrings": true, "OptionString": true, "OptionURI": true, "OptionID": true, "OptionInt64": true, "OptionFlag": true,
	"NormalizeDict": true, "DictChild": true, "DictValue": true, "DictFlag": true,
}

func (w *siteWalker) expr(e ast.Expr, fs Facts, ctx string) {
	a := w.a
	switch e := e.(type) {
	case nil, *ast.BasicLit, *ast.Ident:
	case *ast.ParenExpr:
		w.expr(e.X, fs, ctx)
	case *ast.StarExpr:
		w.expr(e.X, fs, "raw")
	case *ast.UnaryExpr:
		w.expr(e.X, fs, "raw")
	case *ast.BinaryExpr:
		w.expr(e.X, fs, "raw")
		switch e.Op {
		case token.LAND:
			w.expr(e.Y, fs.with(a.condFacts(e.X, true)...), "raw")
		case token.LOR:
			w.expr(e.Y, fs.with(a.condFacts(e.X, false)...), "raw")
		case token.QUO, token.REM:
			w.expr(e.Y, fs, "raw")
			if t := a.typeOf(e.Y); t != nil {
				if b, ok := t.Underlying().(*types.Basic); ok && b.Info()&types.IsInteger != 0 {
					if _, isConst := a.intConst(e.Y); !isConst {
						s := w.add(e.Pos(), "div", a.ev(e.Y), exprStr(e))
						if fs.has("pos", exprStr(e.Y)) != nil {
							s.Guarded = true
						}
					}
				}
			}
		default:
			w.expr(e.Y, fs, "raw")
		}
	case *ast.KeyValueExpr:
		w.expr(e.Key, fs, "raw")
		w.expr(e.Value, fs, "raw")
	case *ast.CompositeLit:
		for _, el := range e.Elts {
			w.expr(el, fs, "raw")
		}
	case *ast.FuncLit:
		n := a.litNode[e]
		save := a.cur
		saveLocks := w.locks
		if n.GoLaunched || len(n.SentOn) > 0 {
			w.locks = lockState{} // runs in another goroutine
		}
		a.cur = n
		w.block(e.Body.List, fs)
		a.cur = save
		w.locks = saveLocks
	case *ast.SelectorExpr:
		w.expr(e.X, fs, "raw")
		w.msgDeref(e, e.X, fs)
		w.nilParamDeref(e, fs)
	case *ast.TypeAssertExpr:
		if e.Type == nil {
			w.expr(e.X, fs, "typeswitch")
			return
		}
		t := a.ev(e.X)
		ty := types.ExprString(e.Type)
		ok := w.commaOK[e]
		s := w.add(e.Pos(), "assert", t, exprStr(e))
		s.CommaOk, s.Type = ok, ty
		if ok {
			w.expr(e.X, fs, "commaok:"+ty)
		} else {
			w.expr(e.X, fs, "bare:"+ty)
		}
		if isMessageIface(a.typeOf(e.X)) && !ok {
			w.msgDerefSite(e.X, fs, "bare assertion on message")
		}
	case *ast.IndexExpr:
		w.expr(e.X, fs, "raw")
		w.expr(e.Index, fs, "raw")
		w.indexSite(e, fs, ctx)
	case *ast.IndexListExpr:
	case *ast.SliceExpr:
		w.expr(e.X, fs, "raw")
		w.expr(e.Low, fs, "raw")
		w.expr(e.High, fs, "raw")
		w.expr(e.Max, fs, "raw")
		w.sliceSite(e, fs)
	case *ast.CallExpr:
		w.callSite(e, fs)
	case *ast.ArrayType, *ast.MapType, *ast.ChanType, *ast.FuncType, *ast.InterfaceType, *ast.StructType, *ast.Ellipsis:
	default:
		fatalf("sites: unsupported expression %T at %s", e, a.prog.Fset.Position(e.Pos()))
	}
}

func (w *siteWalker) indexSite(e *ast.IndexExpr, fs Facts, ctx string) {
	a := w.a
	xt := a.typeOf(e.X)
	if xt == nil {
		return
	}
	if tv, ok := a.curPkg.Info.Types[e.X]; ok && tv.IsType() {
		return
	}
	switch u := types.Unalias(xt).Underlying().(type) {
	case *types.Signature:
		return
	case *types.Map:
		if sx, ok := w.detailsMap(e.X, 0); ok && ctx != "mapwrite" {
			w.detailsUse(e.Pos(), sx, "read", exprStr(e))
		}
		t := a.ev(e.X)
		kt := t
		key := ""
		if k, ok := a.constKey(e.Index); ok {
			kt = t.ext(k)
			key = strings.TrimPrefix(k, "k:")
		} else {
			kt = t.ext("*")
		}
		s := w.add(e.Pos(), "keyread", kt, exprStr(e))
		s.Accessor = ctx
		s.Key = key
		return
	case *types.Pointer:
		if _, isArr := u.Elem().Underlying().(*types.Array); !isArr {
			return
		}
	}
	_, isArray := deref(xt).Underlying().(*types.Array)
	t := join(shape(a.ev(e.X)), a.ev(e.Index).derived())
	if isArray {
		if _, ok := a.intConst(e.Index); ok {
			return // checked by the compiler
		}
	}
	s := w.add(e.Pos(), "index", t, exprStr(e))
	s.Array = isArray
	xs := exprStr(e.X)
	s.LenGe = fs.lenge(xs)
	idx := unparen(e.Index)
	if k, ok := a.intConst(idx); ok {
		s.Idx, s.IdxN = "const", k
		return
	}
	if lx, k, ok := a.lenMinus(idx); ok && k >= 1 && exprStr(lx) == xs {
		s.Idx, s.IdxN = "last", k
		return
	}
	name, off := "", 0
	switch ix := idx.(type) {
	case *ast.Ident:
		name = ix.Name
	case *ast.BinaryExpr:
		if id, ok := unparen(ix.X).(*ast.Ident); ok && ix.Op == token.ADD {
			if k, ok := a.intConst(ix.Y); ok && k >= 0 {
				name, off = id.Name, k
			}
		}
	}
	if name != "" {
		for i := len(fs) - 1; i >= 0; i-- {
			f := fs[i]
			if f.X != name || f.Y != xs {
				continue
			}
			switch f.Kind {
			case "rangevar":
				if off == 0 {
					s.Idx = "range"
					return
				}
			case "looplt":
				s.Idx, s.IdxN, s.IdxC = "loop", off, f.N
				return
			case "loopdown":
				if off == 0 {
					s.Idx = "loopdown"
					return
				}
			}
		}
		// range variable over A used on B after len(A) == len(B) was established
		for _, f := range fs {
			if f.Kind == "samelen" && off == 0 && ((f.X == xs) || (f.Y == xs)) {
				other := f.X
				if other == xs {
					other = f.Y
				}
				for _, r := range fs {
					if r.Kind == "rangevar" && r.X == name && r.Y == other {
						s.Idx = "range"
						return
					}
				}
			}
		}
		// index variable ranging over another container of the same
		// length: X := make(T, len(Y)); for i := range Y { X[i] }
		if id, ok := unparen(e.X).(*ast.Ident); ok {
			if o := a.curPkg.Info.ObjectOf(id); o != nil && len(w.varDefs[o]) == 1 {
				if mk, ok := unparen(w.varDefs[o][0]).(*ast.CallExpr); ok && len(mk.Args) >= 2 {
					if f, ok := mk.Fun.(*ast.Ident); ok && f.Name == "make" {
						if ly, ok := a.lenArg(mk.Args[1]); ok {
							for _, f := range fs {
								if (f.Kind == "rangevar" || (f.Kind == "looplt" && f.N == 0)) && f.X == name && f.Y == exprStr(ly) && off == 0 {
									s.Idx = "range"
									return
								}
							}
						} else if call, ok := unparen(mk.Args[1]).(*ast.CallExpr); ok {
							if sel, ok := call.Fun.(*ast.SelectorExpr); ok && sel.Sel.Name == "Len" {
								for _, f := range fs {
									if f.Kind == "looplt" && f.N == 0 && f.X == name && f.Y == exprStr(sel.X) && off == 0 {
										s.Idx = "range"
										return
									}
								}
							}
						}
					}
				}
			}
		}
	}
	s.Idx = "other"
}

func (w *siteWalker) sliceSite(e *ast.SliceExpr, fs Facts) {
	a := w.a
	xt := a.typeOf(e.X)
	if xt == nil {
		return
	}
	_, isArray := deref(xt).Underlying().(*types.Array)
	constOK := func(x ast.Expr) bool {
		if x == nil {
			return true
		}
		_, ok := a.intConst(x)
		return ok
	}
	if isArray && constOK(e.Low) && constOK(e.High) && constOK(e.Max) {
		return // compile-time checked
	}
	t := join(shape(a.ev(e.X)), join(a.ev(e.Low), join(a.ev(e.High), a.ev(e.Max))).derived())
	s := w.add(e.Pos(), "slice", t, exprStr(e))
	xs := exprStr(e.X)
	s.LenGe = fs.lenge(xs)
	s.Array = isArray
	s.Slice = "other"
	switch {
	case e.Low == nil && e.High == nil:
		s.Slice = "full"
	case e.Low != nil && e.High == nil:
		if lp, ok := a.lenArg(e.Low); ok {
			for _, f := range fs {
				if f.Kind == "hasprefix" && f.X == xs && f.Y == exprStr(lp) {
					s.Slice = "prefix"
				}
			}
		}
		if id, ok := unparen(e.Low).(*ast.Ident); ok {
			// start := max(len(X)-E, 0) under E > 0
			if o := a.curPkg.Info.ObjectOf(id); o != nil && len(w.varDefs[o]) == 1 {
				if mx, ok := unparen(w.varDefs[o][0]).(*ast.CallExpr); ok && len(mx.Args) == 2 {
					if f, ok := mx.Fun.(*ast.Ident); ok && f.Name == "max" {
						if z, ok := a.intConst(mx.Args[1]); ok && z == 0 {
							if b, ok := unparen(mx.Args[0]).(*ast.BinaryExpr); ok && b.Op == token.SUB {
								if lx, ok := a.lenArg(b.X); ok && exprStr(lx) == xs && fs.has("pos", exprStr(b.Y)) != nil {
									s.Slice = "clamp"
								}
							}
						}
					}
				}
			}
		}
		if k, ok := a.intConst(e.Low); ok {
			s.Slice, s.IdxN = "from", k
		}
	case e.Low == nil && e.High != nil:
		if lx, k, ok := a.lenMinus(e.High); ok && exprStr(lx) == xs {
			s.Slice, s.IdxN = "lenminus", k
		} else if k, ok := a.intConst(e.High); ok {
			s.Slice, s.IdxN = "upto", k
		} else if id, ok := unparen(e.High).(*ast.Ident); ok {
			// x[:i+1] / x[:i] with i a range variable over x
			if f := fs.has("rangevar", id.Name); f != nil && f.Y == xs {
				s.Slice = "uptorange"
			}
		} else if b, ok := unparen(e.High).(*ast.BinaryExpr); ok && b.Op == token.ADD {
			if id, ok := unparen(b.X).(*ast.Ident); ok {
				if k, ok := a.intConst(b.Y); ok && k == 1 {
					if f := fs.has("rangevar", id.Name); f != nil && f.Y == xs {
						s.Slice = "uptorange"
					}
				}
			}
		}
	}
}

func (w *siteWalker) mapWrite(ix *ast.IndexExpr, fs Facts) {
	a := w.a
	if sx, ok := w.detailsMap(ix.X, 0); ok {
		w.detailsUse(ix.Pos(), sx, "write", exprStr(ix))
	}
	full := a.ev(ix.X)
	t := shape(full)
	s := w.add(ix.Pos(), "mapwrite", t, exprStr(ix))
	s.Taint = full.String()
	if k, ok := a.constKey(ix.Index); ok {
		s.Key = strings.TrimPrefix(k, "k:")
	}
	xs := exprStr(ix.X)
	if f := fs.has("nonnil", xs); f != nil {
		s.NonNil = f.Y
		if s.NonNil == "" {
			s.NonNil = "checked"
		}
		return
	}
	// a local variable all of whose definitions are fresh maps
	if id, ok := unparen(ix.X).(*ast.Ident); ok {
		if o := a.curPkg.Info.ObjectOf(id); o != nil && len(w.varDefs[o]) > 0 {
			ev := ""
			for _, d := range w.varDefs[o] {
				e := ""
				if d != nil {
					e = w.nonNilEvidence(d)
				}
				if e == "" {
					ev = ""
					break
				}
				ev = e
			}
			if ev != "" {
				s.NonNil = ev
				return
			}
		}
	}
	if full.C && full.Field == "SessionDetails" {
		s.NonNil = "session-details"
		return
	}
	// a field of a value returned by an application-supplied component
	// (Authenticator ...): non-nil by that component's contract
	if sel, ok := unparen(ix.X).(*ast.SelectorExpr); ok {
		if id, ok := unparen(sel.X).(*ast.Ident); ok {
			if o := a.curPkg.Info.ObjectOf(id); o != nil && len(w.varDefs[o]) > 0 {
				all := true
				for _, d := range w.varDefs[o] {
					c, ok := d.(*ast.CallExpr)
					if !ok {
						all = false
						break
					}
					fs, ok := unparen(c.Fun).(*ast.SelectorExpr)
					if !ok || a.typeOf(fs.X) == nil || !trustedComponent(a.typeOf(fs.X)) {
						all = false
						break
					}
				}
				if all {
					s.NonNil = "component"
				}
			}
		}
	}
}

func (w *siteWalker) callSite(e *ast.CallExpr, fs Facts) {
	a := w.a
	info := a.curPkg.Info
	// conversion
	if tv, ok := info.Types[e.Fun]; ok && tv.IsType() {
		for _, x := range e.Args {
			w.expr(x, fs, "raw")
		}
		return
	}
	if id, ok := unparen(e.Fun).(*ast.Ident); ok {
		if b, ok := info.ObjectOf(id).(*types.Builtin); ok {
			w.builtinSite(b.Name(), e, fs)
			return
		}
	}
	w.noteCall(e)
	if w.lockCall(e) {
		return
	}
	w.noteSessionArgs(e)
	fn := w.calleeFunc(e)
	// accessor calls of package wamp
	if fn != nil && fn.Pkg() != nil && fn.Pkg().Path() == wampPath && accessorNames[fn.Name()] && len(e.Args) > 0 {
		t := a.ev(e.Args[0])
		if strings.HasPrefix(fn.Name(), "Option") || fn.Name() == "DictChild" {
			if len(e.Args) == 2 {
				if k, ok := a.constKey(e.Args[1]); ok {
					t = t.ext(k)
				} else {
					t = t.ext("*")
				}
			}
		}
		s := w.add(e.Pos(), "accessor", t, exprStr(e))
		s.Accessor = fn.Name()
		w.expr(e.Args[0], fs, "acc:"+fn.Name())
		for _, x := range e.Args[1:] {
			w.expr(x, fs, "raw")
		}
		return
	}
	w.expr(e.Fun, fs, "raw")
	for _, x := range e.Args {
		w.expr(x, fs, "raw")
	}
	sel, isSel := unparen(e.Fun).(*ast.SelectorExpr)
	if !isSel {
		return
	}
	rt := a.typeOf(sel.X)
	// reflect.Value methods
	if rt != nil && isReflectValue(rt) {
		t := a.ev(sel.X)
		for _, x := range e.Args {
			t = join(t, a.ev(x))
		}
		s := w.add(e.Pos(), "reflect", t, exprStr(e))
		s.Method = sel.Sel.Name
		recv := exprStr(sel.X)
		switch sel.Sel.Name {
		case "MapKeys", "MapIndex", "SetMapIndex", "MapRange":
			s.Guarded = w.kindFact(fs, recv, "Map")
		case "Len":
			s.Guarded = w.kindFact(fs, recv, "Slice", "Array", "Map", "String", "Chan")
		case "Index":
			s.Guarded = w.kindFact(fs, recv, "Slice", "Array", "String")
		case "Elem":
			s.Guarded = w.kindFact(fs, recv, "Interface", "Pointer", "Ptr")
		case "NumField", "Field":
			s.Guarded = w.kindFact(fs, recv, "Struct")
		case "Convert":
			s.Guarded = fs.has("convertible", recv+".Type()") != nil
		case "Set":
			if len(e.Args) == 1 {
				arg := unparen(e.Args[0])
				if c, ok := arg.(*ast.CallExpr); ok {
					if s2, ok := c.Fun.(*ast.SelectorExpr); ok && s2.Sel.Name == "Convert" {
						s.Guarded = true
					}
					if f := w.calleeFunc(c); f != nil && f.Pkg() != nil && f.Pkg().Path() == "reflect" {
						s.Guarded = true // reflect.MakeMap / MakeSlice of the destination type
					}
				}
				if fs.has("assignable", exprStr(arg)+".Type()") != nil {
					s.Guarded = true
				}
			}
		default:
			s.Guarded = true // Kind, Type, Interface, String, IsValid ...: no kind requirement
			s.Method = sel.Sel.Name
		}
		return
	}
	if sel.Sel.Name == "Close" && len(e.Args) == 0 && rt != nil {
		t := a.ev(sel.X)
		if hasPeerMethods(rt) {
			s := w.add(e.Pos(), "peerclose", t, exprStr(e))
			s.Type = rt.String()
			w.classifyPeerClose(s, e)
		} else {
			s := w.add(e.Pos(), "connclose", t, exprStr(e))
			s.Type = shortName(rt.String())
		}
		return
	}
	if sel.Sel.Name == "close" && len(e.Args) == 0 {
		s := w.add(e.Pos(), "shutdown", Taint{}, exprStr(e))
		if rt != nil {
			s.Type = shortName(rt.String())
		}
		return
	}
	// method call on a received message
	w.msgDeref(sel, sel.X, fs)
	// known panicking library calls on client data
	if fn != nil && fn.Pkg() != nil {
		full := fn.Pkg().Path() + "." + fn.Name()
		switch full {
		case "regexp.MustCompile", "strings.Repeat", "bytes.Repeat", "text/template.Must", "html/template.Must":
			var t Taint
			for _, x := range e.Args {
				t = join(t, a.ev(x))
			}
			w.add(e.Pos(), "callpanic", t, exprStr(e)).Method = full
		}
	}
}

func (w *siteWalker) kindFact(fs Facts, recv string, kinds ...string) bool {
	for _, f := range fs {
		if f.Kind != "kind" || f.X != recv {
			continue
		}
		for _, k := range kinds {
			if f.Y == "reflect."+k {
				return true
			}
		}
	}
	return false
}

func (w *siteWalker) builtinSite(name string, e *ast.CallExpr, fs Facts) {
	a := w.a
	for _, x := range e.Args {
		if sx, ok := w.detailsMap(x, 0); ok {
			w.detailsUse(x.Pos(), sx, name, exprStr(e))
		}
	}
	for i, x := range e.Args {
		if i == 0 && (name == "make" || name == "new") {
			continue
		}
		w.expr(x, fs, "raw")
	}
	switch name {
	case "panic":
		w.panicSite(e, fs)
	case "close":
		ch := e.Args[0]
		s := w.add(e.Pos(), "chanclose", a.ev(ch), exprStr(e))
		s.Role = w.chanRole(ch)
	case "make":
		for _, x := range e.Args[1:] {
			if _, ok := a.intConst(x); ok {
				continue
			}
			if _, ok := a.lenArg(x); ok {
				continue
			}
			if _, _, ok := a.lenMinus(x); ok {
				continue
			}
			t := a.ev(x)
			if c, ok := unparen(x).(*ast.CallExpr); ok {
				if s, ok := c.Fun.(*ast.SelectorExpr); ok && (s.Sel.Name == "Len" || s.Sel.Name == "NumField") {
					continue // reflect length: non-negative
				}
				_ = c
			}
			if b, ok := unparen(x).(*ast.BinaryExpr); ok {
				// len(a)+len(b) and the like
				_, ok1 := a.lenArg(b.X)
				_, ok2 := a.lenArg(b.Y)
				_, c1 := a.intConst(b.X)
				_, c2 := a.intConst(b.Y)
				if (ok1 || c1) && (ok2 || c2) && b.Op == token.ADD {
					continue
				}
			}
			s := w.add(e.Pos(), "makelen", t.derived(), exprStr(e))
			s.Guarded = fs.has("pos", exprStr(x)) != nil || fs.has("bounded", exprStr(x)) != nil
		}
	}
}

func (w *siteWalker) chanRole(ch ast.Expr) string {
	a := w.a
	switch c := unparen(ch).(type) {
	case *ast.SelectorExpr:
		if sel := a.curPkg.Info.Selections[c]; sel != nil {
			return "field:" + shortName(fieldKey(sel.Recv(), sel.Obj().Name()))
		}
	case *ast.Ident:
		if o := a.curPkg.Info.ObjectOf(c); o != nil {
			if ds := w.varDefs[o]; len(ds) == 1 && ds[0] != nil {
				if mk, ok := unparen(ds[0]).(*ast.CallExpr); ok {
					if f, ok := mk.Fun.(*ast.Ident); ok && f.Name == "make" {
						return "local:" + c.Name
					}
				}
			}
			return "var:" + c.Name
		}
	}
	return "expr:" + exprStr(ch)
}

func (w *siteWalker) panicSite(e *ast.CallExpr, fs Facts) {
	a := w.a
	s := w.add(e.Pos(), "panic", Taint{}, exprStr(e))
	s.Detail = append([]string{}, w.condStack...)
	s.Guard = "other"
	// innermost switch default?
	if n := len(w.switchTags); n > 0 && w.switchTags[n-1].inDeflt && w.switchTags[n-1].tag != nil {
		sc := w.switchTags[n-1]
		s.Guard = "switch-default"
		s.Expr = exprStr(sc.tag)
		s.Detail = append([]string{"switch " + exprStr(sc.tag)}, sc.consts...)
		ps := panicSwitch{File: s.File, Line: s.Line, Func: s.Func, Tag: exprStr(sc.tag), Cases: sc.consts}
		if sel, ok := unparen(sc.tag).(*ast.SelectorExpr); ok {
			if sl := a.curPkg.Info.Selections[sel]; sl != nil {
				ps.TagKey = shortName(fieldKey(sl.Recv(), sl.Obj().Name()))
				ps.Base = exprStr(sel.X)
			}
		}
		w.switches = append(w.switches, ps)
		return
	}
	if len(w.condStack) == 0 {
		s.Guard = "unconditional"
		return
	}
	cond := w.condStack[len(w.condStack)-1]
	params := map[string]bool{}
	for n := a.cur; n != nil; n = n.Parent {
		for _, p := range a.params(n) {
			if p != nil {
				params[p.Name()] = true
			}
		}
	}
	// nil-argument guard: X == nil || Y == nil over parameters only
	isNilArg := true
	for _, d := range strings.Split(cond, " || ") {
		d = strings.TrimSpace(d)
		if !strings.HasSuffix(d, " == nil") || !params[strings.TrimSuffix(d, " == nil")] {
			isNilArg = false
		}
	}
	switch {
	case isNilArg:
		s.Guard = "nil-argument"
	case cond == "err != nil":
		s.Guard = "error"
	case cond == "n <= 0":
		s.Guard = "constant-argument"
	case cond == "!ok" || strings.HasPrefix(cond, "!("):
		s.Guard = "startup-reply"
	}
}

// noteAppend records  X.f = append(X.f, ...)  with the membership facts known
// about sibling string fields of X (used for the invocation-policy obligation).
func (w *siteWalker) noteAppend(l, r ast.Expr, fs Facts) {
	a := w.a
	c, ok := unparen(r).(*ast.CallExpr)
	if !ok || len(c.Args) < 2 {
		return
	}
	id, ok := c.Fun.(*ast.Ident)
	if !ok || id.Name != "append" {
		return
	}
	sel, ok := unparen(l).(*ast.SelectorExpr)
	if !ok || exprStr(c.Args[0]) != exprStr(l) {
		return
	}
	sl := a.curPkg.Info.Selections[sel]
	if sl == nil {
		return
	}
	f, ln := a.prog.pos(l.Pos())
	as := appendSite{File: f, Line: ln, Func: a.cur.Short, Field: shortName(fieldKey(sl.Recv(), sl.Obj().Name())), Base: exprStr(sel.X)}
	for _, ft := range fs {
		if (ft.Kind == "in" || ft.Kind == "notin") && strings.HasPrefix(ft.X, as.Base+".") {
			as.Facts = append(as.Facts, ft)
		}
	}
	w.appendFacts = append(w.appendFacts, as)
}

// ---------------------------------------------------------------------------
// messages: nil delivery and dereference

func (w *siteWalker) msgDeref(at ast.Node, x ast.Expr, fs Facts) {
	a := w.a
	t := a.typeOf(x)
	if t == nil || !isMessageIface(t) {
		return
	}
	w.msgDerefSite(x, fs, "method call on message")
}

func (w *siteWalker) msgDerefSite(x ast.Expr, fs Facts, what string) {
	a := w.a
	tt := a.ev(x)
	if !tt.C {
		return
	}
	s := w.add(x.Pos(), "msgderef", tt, exprStr(x))
	s.Method = what
	s.Guarded = fs.has("nonnil", exprStr(x)) != nil
}

func (w *siteWalker) msgSend(s *ast.SendStmt, fs Facts) {
	a := w.a
	ct := a.typeOf(s.Chan)
	if ct == nil || !isChanOfMessage(ct) {
		return
	}
	if a.curPkg.Dir != "transport" {
		return // router-made messages; transports deliver client messages
	}
	site := w.add(s.Pos(), "msgsend", Taint{C: true, Own: true, Field: "Message"}, exprStr(s.Chan)+" <- "+exprStr(s.Value))
	site.Assigned = w.definitelyAssigned(s)
}

// definitelyAssigned: the value sent is a variable that has been assigned on
// every path from its zero-valued declaration to the send.
func (w *siteWalker) definitelyAssigned(s *ast.SendStmt) bool {
	a := w.a
	id, ok := unparen(s.Value).(*ast.Ident)
	if !ok {
		_, isLit := unparen(s.Value).(*ast.UnaryExpr)
		return isLit // &T{...}
	}
	obj := a.curPkg.Info.ObjectOf(id)
	// find the innermost enclosing block (on the stack) holding the
	// declaration of obj
	for bi := len(w.blockStack) - 1; bi >= 0; bi-- {
		list := w.blockStack[bi]
		upto := w.stmtIndex[bi]
		for di := 0; di <= upto && di < len(list); di++ {
			zero, found := declares(a, list[di], obj)
			if !found {
				continue
			}
			if !zero {
				return true // declared with an initial value
			}
			da := false
			for k := di + 1; k < upto; k++ {
				da = assigns(a, list[k], obj, da)
			}
			// the send may sit inside the statement at index upto (select);
			// statements before it inside that statement are not considered
			return da
		}
	}
	return false
}

func declares(a *Analysis, s ast.Stmt, obj types.Object) (zero, found bool) {
	switch s := s.(type) {
	case *ast.DeclStmt:
		if gd, ok := s.Decl.(*ast.GenDecl); ok {
			for _, sp := range gd.Specs {
				if vs, ok := sp.(*ast.ValueSpec); ok {
					for _, n := range vs.Names {
						if a.curPkg.Info.ObjectOf(n) == obj {
							return len(vs.Values) == 0, true
						}
					}
				}
			}
		}
	case *ast.AssignStmt:
		if s.Tok == token.DEFINE {
			for _, l := range s.Lhs {
				if id, ok := l.(*ast.Ident); ok && a.curPkg.Info.Defs[id] == obj {
					return false, true
				}
			}
		}
	}
	return false, false
}

// assigns: definite-assignment transfer function for one statement.
func assigns(a *Analysis, s ast.Stmt, obj types.Object, in bool) bool {
	if in {
		return true
	}
	list := func(l []ast.Stmt) bool {
		d := false
		for _, x := range l {
			d = assigns(a, x, obj, d)
		}
		return d || a.terminates(l)
	}
	switch s := s.(type) {
	case *ast.AssignStmt:
		for _, l := range s.Lhs {
			if id, ok := l.(*ast.Ident); ok && a.curPkg.Info.ObjectOf(id) == obj {
				return true
			}
		}
	case *ast.BlockStmt:
		return list(s.List)
	case *ast.LabeledStmt:
		return assigns(a, s.Stmt, obj, in)
	case *ast.IfStmt:
		if s.Else == nil {
			return false
		}
		b := list(s.Body.List)
		switch e := s.Else.(type) {
		case *ast.BlockStmt:
			return b && list(e.List)
		case *ast.IfStmt:
			return b && assigns(a, e, obj, false)
		}
	case *ast.SwitchStmt:
		hasDefault := false
		for _, c := range s.Body.List {
			cc := c.(*ast.CaseClause)
			if cc.List == nil {
				hasDefault = true
			}
			if !list(cc.Body) {
				return false
			}
		}
		return hasDefault
	}
	return false
}

// ---------------------------------------------------------------------------

func (w *siteWalker) sorted() []*Site {
	sort.SliceStable(w.sites, func(i, j int) bool {
		if w.sites[i].File != w.sites[j].File {
			return w.sites[i].File < w.sites[j].File
		}
		return w.sites[i].Line < w.sites[j].Line
	})
	for i, s := range w.sites {
		s.ID = i
	}
	return w.sites
}
