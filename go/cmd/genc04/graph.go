package main

import (
	"go/ast"
	"go/token"
	"go/types"
	"sort"
	"strings"
)

// Graph facts derived from the syntax of each node.
type graphInfo struct {
	a              *Analysis
	handlerLoop    map[string]bool     // node receives client messages in a loop and dispatches on their type
	sessDeletes    map[string][]string // node -> owner struct types of maps from which a *Session key is deleted
	goTargets      map[string][]string // node -> keys of nodes it launches with go
	asyncEdges     map[string][]string // node -> literals it sends on a channel
	ranges         map[string]string   // channel field key -> node ranging over it
	sentOnField    map[string]string   // literal key -> channel field key
	reachMemo      map[string]map[string]bool
	precedingCalls map[*ast.CallExpr][]string
}

func (a *Analysis) buildGraph() *graphInfo {
	g := &graphInfo{a: a, handlerLoop: map[string]bool{}, sessDeletes: map[string][]string{}, goTargets: map[string][]string{},
		asyncEdges: map[string][]string{}, ranges: map[string]string{}, sentOnField: map[string]string{}, reachMemo: map[string]map[string]bool{}}
	for _, n := range a.nodeList {
		a.cur, a.curPkg = n, n.Pkg
		g.scan(n)
	}
	// a literal sent on a channel runs in the goroutine that ranges over
	// that channel
	for lit, ch := range g.sentOnField {
		if r, ok := g.ranges[ch]; ok {
			a.nodes[r].Calls[lit] = true
		}
	}
	return g
}

// ownBody visits the statements of n but not nested function literals.
func ownBody(n *Node, f func(ast.Node) bool) {
	ast.Inspect(n.Body, func(x ast.Node) bool {
		if fl, ok := x.(*ast.FuncLit); ok && (n.Lit == nil || fl != n.Lit) {
			return false
		}
		return f(x)
	})
}

func (g *graphInfo) scan(n *Node) {
	a := g.a
	info := n.Pkg.Info
	hasRecvLoop, hasTypeSwitch := false, false
	var visit func(x ast.Node, inLoop bool)
	visit = func(x ast.Node, inLoop bool) {
		ast.Inspect(x, func(y ast.Node) bool {
			if y == nil {
				return false
			}
			if fl, ok := y.(*ast.FuncLit); ok && (n.Lit == nil || fl != n.Lit) {
				ln := a.litNode[fl]
				// default: a literal runs synchronously in its parent
				if !ln.GoLaunched && len(ln.SentOn) == 0 {
					n.Calls[ln.Key] = true
				}
				return false
			}
			switch s := y.(type) {
			case *ast.GoStmt:
				switch f := unparen(s.Call.Fun).(type) {
				case *ast.FuncLit:
					ln := a.litNode[f]
					ln.GoLaunched = true
					delete(n.Calls, ln.Key)
					g.goTargets[n.Key] = append(g.goTargets[n.Key], ln.Key)
				default:
					if fn := calleeOf(info, s.Call); fn != nil {
						if t, ok := a.byName[fn.FullName()]; ok {
							t.GoLaunched = true
							g.goTargets[n.Key] = append(g.goTargets[n.Key], t.Key)
						}
					}
				}
				for _, arg := range s.Call.Args {
					visit(arg, inLoop)
				}
				return false
			case *ast.SendStmt:
				if fl, ok := unparen(s.Value).(*ast.FuncLit); ok {
					ln := a.litNode[fl]
					key := "expr:" + exprStr(s.Chan)
					if sel, ok := unparen(s.Chan).(*ast.SelectorExpr); ok {
						if sl := info.Selections[sel]; sl != nil {
							key = fieldKey(sl.Recv(), sl.Obj().Name())
						}
					}
					ln.SentOn[key] = true
					delete(n.Calls, ln.Key)
					g.sentOnField[ln.Key] = key
					g.asyncEdges[n.Key] = append(g.asyncEdges[n.Key], ln.Key)
				}
			case *ast.RangeStmt:
				if sel, ok := unparen(s.X).(*ast.SelectorExpr); ok {
					if sl := info.Selections[sel]; sl != nil {
						if _, isChan := sl.Obj().Type().Underlying().(*types.Chan); isChan {
							g.ranges[fieldKey(sl.Recv(), sl.Obj().Name())] = n.Key
						}
					}
				}
				if t := a.typeOfIn(n.Pkg, s.X); t != nil && isChanOfMessage(t) {
					hasRecvLoop = true
				}
			case *ast.ForStmt:
				if s.Init != nil {
					visit(s.Init, inLoop)
				}
				if s.Cond != nil {
					visit(s.Cond, inLoop)
				}
				visit(s.Body, true)
				return false
			case *ast.UnaryExpr:
				if s.Op == token.ARROW && inLoop {
					if t := a.typeOfIn(n.Pkg, s.X); t != nil && isChanOfMessage(t) {
						hasRecvLoop = true
					}
				}
			case *ast.TypeSwitchStmt:
				var x ast.Expr
				switch as := s.Assign.(type) {
				case *ast.AssignStmt:
					x = as.Rhs[0].(*ast.TypeAssertExpr).X
				case *ast.ExprStmt:
					x = as.X.(*ast.TypeAssertExpr).X
				}
				if t := a.typeOfIn(n.Pkg, x); t != nil && isMessageIface(t) {
					hasTypeSwitch = true
				}
			case *ast.CallExpr:
				if id, ok := s.Fun.(*ast.Ident); ok && id.Name == "delete" && len(s.Args) == 2 {
					if kt := a.typeOfIn(n.Pkg, s.Args[1]); kt != nil && isSessionType(kt) {
						owner := "?"
						if sel, ok := unparen(s.Args[0]).(*ast.SelectorExpr); ok {
							if sl := info.Selections[sel]; sl != nil {
								if p, nm, ok := namedOf(deref(sl.Recv())); ok {
									owner = shortName(p + "." + nm)
								}
							}
						}
						g.sessDeletes[n.Key] = append(g.sessDeletes[n.Key], owner)
					}
				}
			}
			return true
		})
	}
	visit(n.Body, false)
	if hasRecvLoop && hasTypeSwitch {
		g.handlerLoop[n.Key] = true
	}
}

func (a *Analysis) typeOfIn(p *Pkg, e ast.Expr) types.Type {
	if tv, ok := p.Info.Types[e]; ok {
		return tv.Type
	}
	if id, ok := e.(*ast.Ident); ok {
		if o := p.Info.ObjectOf(id); o != nil {
			return o.Type()
		}
	}
	return nil
}

func calleeOf(info *types.Info, c *ast.CallExpr) *types.Func {
	switch f := unparen(c.Fun).(type) {
	case *ast.Ident:
		fn, _ := info.ObjectOf(f).(*types.Func)
		return fn
	case *ast.SelectorExpr:
		fn, _ := info.ObjectOf(f.Sel).(*types.Func)
		return fn
	}
	return nil
}

// reach: nodes reachable from k through synchronous calls, literals handed to
// another goroutine over a channel, and (optionally) go statements.
func (g *graphInfo) reach(k string) map[string]bool {
	if r, ok := g.reachMemo[k]; ok {
		return r
	}
	r := map[string]bool{}
	var dfs func(string)
	dfs = func(x string) {
		if r[x] {
			return
		}
		r[x] = true
		n := g.a.nodes[x]
		if n == nil {
			return
		}
		for c := range n.Calls {
			dfs(c)
		}
		for _, c := range g.asyncEdges[x] {
			dfs(c)
		}
	}
	dfs(k)
	g.reachMemo[k] = r
	return r
}

// kinds labels every node with the goroutines that may execute it.
func (g *graphInfo) kinds() {
	a := g.a
	label := func(start, lbl string) {
		var dfs func(string)
		dfs = func(x string) {
			n := a.nodes[x]
			if n == nil || n.Kinds[lbl] {
				return
			}
			n.Kinds[lbl] = true
			for c := range n.Calls {
				dfs(c)
			}
		}
		dfs(start)
	}
	for _, n := range a.nodeList {
		if n.GoLaunched {
			label(n.Key, "go:"+goLabel(n))
		}
	}
	for _, n := range a.nodeList {
		if n.Decl != nil && n.Exported {
			label(n.Key, "api:"+n.Short)
		}
	}
	// address-taken functions run wherever their value is called: label them
	// with the goroutines of the nodes that contain dynamic calls is not
	// tracked; give them their own label.
	for k := range a.addrTake {
		if n := a.nodes[k]; n != nil && len(n.Kinds) == 0 {
			label(k, "value:"+n.Short)
		}
	}
	for _, n := range a.nodeList {
		if len(n.Kinds) == 0 {
			n.Kinds["unreferenced"] = true
		}
	}
}

func goLabel(n *Node) string {
	if n.Lit != nil {
		p := n
		for p.Parent != nil {
			p = p.Parent
		}
		return p.Short + "$"
	}
	return n.Short
}

func kindsOf(n *Node) []string {
	ks := make([]string, 0, len(n.Kinds))
	for k := range n.Kinds {
		ks = append(ks, k)
	}
	sort.Strings(ks)
	return ks
}

// callCtx: one static call of a function, with the calls that dominate it.
type callCtx struct {
	caller string
	pre    []string
}

// dominating: the in-scope functions called (and router components stopped)
// by the statements that dominate the current position: the statements
// preceding it in its block and in every enclosing block of the function.
func (w *siteWalker) dominating() []string {
	a := w.a
	var pre []string
	for bi := len(w.blockStack) - 1; bi >= 0; bi-- {
		for i := 0; i < w.stmtIndex[bi] && i < len(w.blockStack[bi]); i++ {
			ast.Inspect(w.blockStack[bi][i], func(x ast.Node) bool {
				if _, isLit := x.(*ast.FuncLit); isLit {
					return false
				}
				if c, ok := x.(*ast.CallExpr); ok {
					if fn := calleeOf(a.curPkg.Info, c); fn != nil {
						if n, ok := a.byName[fn.FullName()]; ok {
							pre = append(pre, n.Key)
						}
						// X.close() of a router component: it has stopped when the call returns
						if sel, ok := unparen(c.Fun).(*ast.SelectorExpr); ok && sel.Sel.Name == "close" && len(c.Args) == 0 {
							if rt := a.typeOf(sel.X); rt != nil {
								if p, nm, ok := namedOf(deref(rt)); ok {
									pre = append(pre, "stopped:"+shortName(p+"."+nm))
								}
							}
						}
					}
				}
				return true
			})
		}
	}
	return pre
}

// noteCall records the context of a static call (used to classify a peer
// close that sits in a helper function by the places the helper is called from).
func (w *siteWalker) noteCall(e *ast.CallExpr) {
	a := w.a
	key := ""
	if fn := calleeOf(a.curPkg.Info, e); fn != nil {
		if n, ok := a.byName[fn.FullName()]; ok {
			key = n.Key
		}
	} else if id, ok := unparen(e.Fun).(*ast.Ident); ok {
		if o := a.curPkg.Info.ObjectOf(id); o != nil {
			if fl, ok := a.litLocal[o]; ok && a.litAssig[o] == 1 {
				key = a.litNode[fl].Key
			}
		}
	}
	if key == "" {
		return
	}
	if w.calls == nil {
		w.calls = map[string][]callCtx{}
	}
	w.calls[key] = append(w.calls[key], callCtx{caller: a.cur.Key, pre: w.dominating()})
}

// classifyPeerClose records the raw material; finishPeerClose decides once
// the call graph is complete.
func (w *siteWalker) classifyPeerClose(s *Site, call *ast.CallExpr) {
	s.After = w.dominating()
	s.Detail = append([]string{}, w.condStack...)
}

type closeCtx struct {
	goRoot bool
	loop   bool
	remB   bool
	remD   bool
	stopB  bool
	stopD  bool
	attach bool // some function on the chain starts the handler (and is not the handler's goroutine)
}

func (g *graphInfo) finishPeerClose(sites []*Site, calls map[string][]callCtx) {
	a := g.a
	// handler starters: nodes that launch a goroutine reaching a handler loop
	starters := map[string]bool{}
	for k, ts := range g.goTargets {
		for _, t := range ts {
			for r := range g.reach(t) {
				if g.handlerLoop[r] {
					starters[k] = true
				}
			}
		}
	}
	reachesStarter := func(k string) bool {
		for r := range g.reach(k) {
			if starters[r] {
				return true
			}
		}
		return false
	}
	absorb := func(c closeCtx, pre []string) closeCtx {
		for _, p := range pre {
			switch p {
			case "stopped:router.broker":
				c.stopB = true
				continue
			case "stopped:router.dealer":
				c.stopD = true
				continue
			}
			if strings.HasPrefix(p, "stopped:") {
				continue
			}
			for r := range g.reach(p) {
				if g.handlerLoop[r] {
					c.loop = true
				}
				for _, o := range g.sessDeletes[r] {
					switch o {
					case "router.broker":
						c.remB = true
					case "router.dealer":
						c.remD = true
					}
				}
			}
		}
		return c
	}
	// expand: every chain of callers from node k up to a goroutine entry (or
	// a function nobody calls), accumulating what dominates each call
	var expand func(k string, c closeCtx, depth int, seen map[string]bool) []closeCtx
	expand = func(k string, c closeCtx, depth int, seen map[string]bool) []closeCtx {
		n := a.nodes[k]
		if n == nil {
			return []closeCtx{c}
		}
		if n.GoLaunched {
			c.goRoot = true
			return []closeCtx{c}
		}
		if reachesStarter(k) {
			c.attach = true
		}
		var callers []callCtx
		callers = append(callers, calls[k]...)
		if n.Lit != nil && n.Parent != nil && len(callers) == 0 {
			// a literal that is not called through a variable: runs where it is defined
			callers = append(callers, callCtx{caller: n.Parent.Key})
		}
		if len(callers) == 0 || depth == 0 || seen[k] {
			if n.Lit != nil && n.Parent != nil && reachesStarter(n.Parent.Key) {
				c.attach = true
			}
			return []closeCtx{c}
		}
		seen2 := map[string]bool{k: true}
		for x := range seen {
			seen2[x] = true
		}
		var out []closeCtx
		for _, cc := range callers {
			out = append(out, expand(cc.caller, absorb(c, cc.pre), depth-1, seen2)...)
		}
		return out
	}
	for _, s := range sites {
		if s.Class != "peerclose" {
			continue
		}
		pre := s.After
		s.After = nil
		chains := expand(s.Node, absorb(closeCtx{}, pre), 5, map[string]bool{})
		all := func(f func(closeCtx) bool) bool {
			for _, c := range chains {
				if !f(c) {
					return false
				}
			}
			return len(chains) > 0
		}
		tag := func(name string, f func(closeCtx) bool) {
			if all(f) {
				s.After = append(s.After, name)
			}
		}
		tag("handler-loop", func(c closeCtx) bool { return c.loop })
		tag("removed-from:router.broker", func(c closeCtx) bool { return c.remB })
		tag("removed-from:router.dealer", func(c closeCtx) bool { return c.remD })
		tag("stopped:router.broker", func(c closeCtx) bool { return c.stopB })
		tag("stopped:router.dealer", func(c closeCtx) bool { return c.stopD })
		switch {
		case all(func(c closeCtx) bool { return c.goRoot && c.loop }):
			s.Path = "exit"
		case all(func(c closeCtx) bool { return c.stopB || c.stopD }):
			s.Path = "shutdown"
		case all(func(c closeCtx) bool { return c.attach && !c.loop }):
			s.Path = "presession"
		default:
			s.Path = "other"
		}
	}
}
