package main

import (
	"fmt"
	"go/ast"
	"go/token"
	"go/types"
	"strings"
)

// The websocket peer's two sender loops (sendHandler, sendHandlerKeepAlive):
// what happens to ONE message taken from the send queue.  The clause
//
//	case msg := <-w.wr: ...
//
// is executed symbolically under the three possible courses of events
// (Serialize fails; Serialize succeeds and WriteMessage fails; both succeed)
// and for each the translator records whether WriteMessage was called and
// whether the loop goes on with the next message or the goroutine returns.
// The statements understood: assignments from w.serializer.Serialize(msg) and
// w.conn.WriteMessage(w.payloadType, b), `if err != nil` / `if err == nil`
// (with or without init statement, with else), `if !wamp.IsGoodbyeAck(msg)`
// around logging, logging calls, continue, return.

type wsScenario struct{ serFails, writeFails bool }

type wsRun struct {
	g       *gen
	recv    string
	sc      wsScenario
	err     string // "", "ser", "write": origin of the current non-nil error
	bObj    types.Object
	wrote   bool
	garbage bool // WriteMessage called although Serialize failed
	label   string
}

// exec returns "", "continue" or "return".
func (r *wsRun) exec(list []ast.Stmt) string {
	for _, s := range list {
		if o := r.stmt(s); o != "" {
			return o
		}
	}
	return ""
}

func (r *wsRun) assign(x *ast.AssignStmt) {
	g := r.g
	if len(x.Rhs) != 1 {
		g.t.failf(x, "unsupported assignment in a websocket send loop")
	}
	recv, f, args, ok := selCall(x.Rhs[0])
	if !ok {
		g.t.failf(x, "unsupported assignment in a websocket send loop")
	}
	switch {
	case recv == r.recv+".serializer" && f == "Serialize":
		if len(x.Lhs) != 2 || len(args) != 1 || !isIdent(args[0], "msg") {
			g.t.failf(x, "unsupported form of Serialize")
		}
		if id, ok := x.Lhs[0].(*ast.Ident); ok {
			r.bObj = g.lhsObj(id, x.Tok)
		}
		if !isIdent(x.Lhs[1], "err") {
			g.t.failf(x, "Serialize error is not assigned to err")
		}
		if r.sc.serFails {
			r.err = "ser"
		} else {
			r.err = ""
		}
	case recv == r.recv+".conn" && f == "WriteMessage":
		if len(args) != 2 || types.ExprString(args[0]) != r.recv+".payloadType" {
			g.t.failf(x, "WriteMessage is not called with the peer's payload type")
		}
		id, ok := args[1].(*ast.Ident)
		if !ok || g.t.info.Uses[id] != r.bObj {
			g.t.failf(x, "WriteMessage does not write the serialized message")
		}
		if len(x.Lhs) != 1 || !isIdent(x.Lhs[0], "err") {
			g.t.failf(x, "WriteMessage error is not assigned to err")
		}
		if r.sc.serFails {
			r.garbage = true
		}
		r.wrote = true
		if r.sc.writeFails {
			r.err = "write"
		} else {
			r.err = ""
		}
	default:
		g.t.failf(x, "unsupported call %s.%s in a websocket send loop", recv, f)
	}
}

func (r *wsRun) stmt(s ast.Stmt) string {
	g := r.g
	switch x := s.(type) {
	case *ast.AssignStmt:
		r.assign(x)
		return ""
	case *ast.ExprStmt:
		if g.isLogCall(x.X) {
			return ""
		}
	case *ast.BranchStmt:
		if x.Tok == token.CONTINUE && (x.Label == nil || x.Label.Name == r.label) {
			return "continue"
		}
	case *ast.ReturnStmt:
		if len(x.Results) == 0 {
			return "return"
		}
	case *ast.BlockStmt:
		return r.exec(x.List)
	case *ast.IfStmt:
		if x.Init != nil {
			a, ok := x.Init.(*ast.AssignStmt)
			if !ok {
				g.t.failf(s, "unsupported if-init in a websocket send loop")
			}
			r.assign(a)
		}
		var take bool
		if id, ok := isErrNotNil(x.Cond); ok && id.Name == "err" {
			take = r.err != ""
		} else if b, ok := x.Cond.(*ast.BinaryExpr); ok && b.Op == token.EQL && isIdent(b.X, "err") && isIdent(b.Y, "nil") {
			take = r.err == ""
		} else if u, ok := x.Cond.(*ast.UnaryExpr); ok && u.Op == token.NOT && strings.HasSuffix(types.ExprString(u.X), "IsGoodbyeAck(msg)") {
			// only decides whether the error is logged
			for _, t := range x.Body.List {
				es, isE := t.(*ast.ExprStmt)
				if !isE || !g.isLogCall(es.X) {
					g.t.failf(t, "the IsGoodbyeAck branch does more than logging")
				}
			}
			if x.Else != nil {
				g.t.failf(s, "the IsGoodbyeAck test has an else branch")
			}
			return ""
		} else {
			g.t.failf(s, "unsupported condition %s in a websocket send loop", types.ExprString(x.Cond))
		}
		if take {
			return r.exec(x.Body.List)
		}
		if x.Else != nil {
			return r.stmt(x.Else)
		}
		return ""
	}
	g.t.failf(s, "unsupported statement (%T) in a websocket send loop", s)
	return ""
}

func (g *gen) emitWsSend(method, defname string) {
	fd, ok := g.t.funcs["websocketPeer."+method]
	if !ok {
		panic(failure{"method websocketPeer." + method + " not found"})
	}
	w := fd.Recv.List[0].Names[0].Name
	loop, label, _ := g.findLoop(fd)
	var clause *ast.CommClause
	for _, s := range loop.Body.List {
		sel, ok := s.(*ast.SelectStmt)
		if !ok {
			g.t.failf(s, "websocket send loop body is not a single select")
		}
		for _, cl := range sel.Body.List {
			cc := cl.(*ast.CommClause)
			if a, ok := cc.Comm.(*ast.AssignStmt); ok && len(a.Rhs) == 1 {
				if u, ok := a.Rhs[0].(*ast.UnaryExpr); ok && u.Op == token.ARROW && types.ExprString(u.X) == w+".wr" {
					clause = cc
				}
			}
		}
	}
	if clause == nil {
		g.t.failf(fd, "no `case msg := <-%s.wr` in %s", w, method)
	}
	after := func(o string) string {
		if o == "return" {
			return "WsStop"
		}
		return "WsNext"
	}
	run := func(sc wsScenario) *wsRun {
		r := &wsRun{g: g, recv: w, sc: sc, label: label}
		o := r.exec(clause.Body)
		r.label = after(o)
		return r
	}
	se := run(wsScenario{serFails: true})
	we := run(wsScenario{writeFails: true})
	okr := run(wsScenario{})
	fmt.Fprintf(g.out, "\n(* %s: one message taken from the send queue *)\nDefinition %s : ws_send_shape :=\n  {| ws_on_ser_error := %s; ws_ser_error_writes := %v;\n     ws_on_write_ok := %s; ws_ok_writes := %v;\n     ws_on_write_error := %s |}.\n",
		g.sig(fd), defname, se.label, se.wrote || se.garbage, okr.label, okr.wrote, we.label)
}
