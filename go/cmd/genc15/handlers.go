package main

import (
	"fmt"
	"go/ast"
	"go/token"
	"go/types"
	"strconv"
	"strings"
)

// opCtx is the state of the op extraction inside one handler (or inside a
// helper method inlined into it).
type opCtx struct {
	g        *gen
	recv     string                  // receiver name of the handler (rs)
	en       *env                    // integer / list variables (length, header ...)
	parts    map[types.Object]string // byte-slice variables that denote PHeader / PPayload
	bufSize  map[types.Object]string // buf := make([]byte, n), not read yet
	errKind  map[types.Object]string // origin of the current error value
	loop     string                  // label of the handler loop
	inHelper bool
	deferred []string // ops to run at return of an inlined helper
	mode     string   // "recv" or "send"
	depth    int
}

func (c *opCtx) op(name string, args ...string) string {
	pre := "R"
	if c.mode == "send" {
		pre = "W"
	}
	if len(args) == 0 {
		return pre + name
	}
	return pre + name + " " + strings.Join(args, " ")
}

func (c *opCtx) connExpr(e ast.Expr) bool { return types.ExprString(e) == c.recv+".conn" }

// partsOf classifies the argument of a conn.Write.
func (c *opCtx) partsOf(e ast.Expr) []string {
	switch x := e.(type) {
	case *ast.ParenExpr:
		return c.partsOf(x.X)
	case *ast.Ident:
		if p, ok := c.parts[c.g.t.info.Uses[x]]; ok {
			return []string{p}
		}
	case *ast.SliceExpr:
		if x.Low == nil && x.High == nil {
			return c.partsOf(x.X)
		}
	case *ast.CallExpr:
		if isIdent(x.Fun, "append") && x.Ellipsis.IsValid() && len(x.Args) == 2 {
			return append(c.partsOf(x.Args[0]), c.partsOf(x.Args[1])...)
		}
	}
	c.g.t.failf(e, "cannot tell what bytes %s denotes (header / payload)", types.ExprString(e))
	return nil
}

func partList(ps []string) string { return "[" + strings.Join(ps, "; ") + "]" }

// endsCloseReturn: the block is logging, `_ = rs.conn.Close()`, then return/break.
func (c *opCtx) endsCloseReturn(b []ast.Stmt) bool {
	closed := false
	for i, s := range b {
		switch x := s.(type) {
		case *ast.ExprStmt:
			if !c.g.isLogCall(x.X) {
				return false
			}
		case *ast.AssignStmt:
			if len(x.Rhs) == 1 {
				if recv, f, _, ok := selCall(x.Rhs[0]); ok && recv == c.recv+".conn" && f == "Close" {
					closed = true
					continue
				}
			}
			return false
		case *ast.ReturnStmt:
			return closed && i == len(b)-1 && len(x.Results) == 0
		case *ast.BranchStmt:
			return closed && i == len(b)-1 && x.Tok == token.BREAK && x.Label == nil
		default:
			return false
		}
	}
	return false
}

// endsWith: logging then a branch statement / return of the given kind.
func (c *opCtx) logsThen(b []ast.Stmt, ok func(ast.Stmt) bool) bool {
	if len(b) == 0 {
		return false
	}
	for _, s := range b[:len(b)-1] {
		switch x := s.(type) {
		case *ast.ExprStmt:
			if !c.g.isLogCall(x.X) {
				return false
			}
		case *ast.IfStmt:
			// if !wamp.IsGoodbyeAck(msg) { log }
			for _, t := range x.Body.List {
				es, isE := t.(*ast.ExprStmt)
				if !isE || !c.g.isLogCall(es.X) {
					return false
				}
			}
			if x.Else != nil {
				return false
			}
		default:
			return false
		}
	}
	return ok(b[len(b)-1])
}

func (c *opCtx) isContinueLoop(s ast.Stmt) bool {
	b, ok := s.(*ast.BranchStmt)
	return ok && b.Tok == token.CONTINUE && (b.Label == nil || b.Label.Name == c.loop)
}

// stmts extracts the ops of a statement list.
func (c *opCtx) stmts(list []ast.Stmt) []string {
	g := c.g
	list = g.splitIfInit(list)
	var ops []string
	for i := 0; i < len(list); i++ {
		s := list[i]
		var next ast.Stmt
		if i+1 < len(list) {
			next = list[i+1]
		}
		// error check consuming the previous I/O statement
		if is, ok := s.(*ast.IfStmt); ok {
			if id, ok := isErrNotNil(is.Cond); ok {
				kind := c.errKind[g.t.info.Uses[id]]
				if is.Else != nil {
					g.t.failf(s, "error check with else")
				}
				switch kind {
				case "read":
					if c.inHelper {
						if !g.returnsError(is.Body.List) {
							g.t.failf(s, "read-error branch in helper does not return the error")
						}
					} else if !c.endsCloseReturn(is.Body.List) {
						g.t.failf(s, "read-error branch is not `log; conn.Close(); return`")
					}
				case "write":
					okEnd := func(st ast.Stmt) bool {
						if c.isContinueLoop(st) {
							return true
						}
						r, isR := st.(*ast.ReturnStmt)
						return isR && (len(r.Results) == 0 || c.inHelper)
					}
					if !(c.endsCloseReturn(is.Body.List) || c.logsThen(is.Body.List, okEnd)) {
						g.t.failf(s, "write-error branch does not leave the iteration")
					}
				case "deser":
					if !c.logsThen(is.Body.List, c.isContinueLoop) {
						g.t.failf(s, "deserialization-error branch is not `log; continue`")
					}
				case "ser":
					if !c.logsThen(is.Body.List, c.isContinueLoop) {
						g.t.failf(s, "serialization-error branch is not `log; continue`")
					}
				default:
					g.t.failf(s, "error check on a value of unknown origin")
				}
				continue
			}
		}
		switch x := s.(type) {
		case *ast.ExprStmt:
			if g.isLogCall(x.X) {
				continue
			}
			if recv, f, _, ok := selCall(x.X); ok && strings.HasPrefix(recv, c.recv+".") && (f == "Lock" || f == "Unlock") {
				m := strconv.Quote(strings.TrimPrefix(recv, c.recv+".")) + "%string"
				ops = append(ops, c.op(f, m))
				continue
			}
			g.t.failf(s, "unsupported expression statement %s", types.ExprString(x.X))
		case *ast.DeferStmt:
			if recv, f, _, ok := selCall(x.Call); ok && strings.HasPrefix(recv, c.recv+".") && f == "Unlock" && c.inHelper {
				m := strconv.Quote(strings.TrimPrefix(recv, c.recv+".")) + "%string"
				c.deferred = append([]string{c.op("Unlock", m)}, c.deferred...)
				continue
			}
			g.t.failf(s, "unsupported defer")
		case *ast.BranchStmt:
			if c.isContinueLoop(x) && !c.inHelper {
				ops = append(ops, c.op("Continue"))
				return ops
			}
			g.t.failf(s, "unsupported branch statement")
		case *ast.ReturnStmt:
			if c.inHelper {
				// return err / return nil: end of helper
				return ops
			}
			g.t.failf(s, "return without closing the connection")
		case *ast.AssignStmt:
			ops = append(ops, c.assign(x, next)...)
			// `_ = rs.conn.Close()` followed by return / break
			if len(ops) > 0 && ops[len(ops)-1] == c.op("CloseReturn") {
				return ops
			}
		case *ast.IfStmt:
			g.t.failf(s, "unsupported conditional inside a frame case")
		default:
			g.t.failf(s, "unsupported statement (%T) inside a handler", s)
		}
	}
	return ops
}

func (c *opCtx) setErr(lhs ast.Expr, tok token.Token, kind string) {
	if id, ok := lhs.(*ast.Ident); ok && id.Name != "_" {
		c.errKind[c.g.lhsObj(id, tok)] = kind
	}
}

func (c *opCtx) assign(x *ast.AssignStmt, next ast.Stmt) []string {
	g := c.g
	if len(x.Rhs) != 1 {
		g.t.failf(x, "multiple right-hand sides")
	}
	rhs := x.Rhs[0]
	// header[i] = v
	if ie, ok := x.Lhs[0].(*ast.IndexExpr); ok && len(x.Lhs) == 1 && x.Tok == token.ASSIGN {
		if id, ok := ie.X.(*ast.Ident); ok && c.parts[g.t.info.Uses[id]] == "PHeader" && c.mode == "recv" {
			iv, ok := g.constVal(ie.Index)
			if !ok {
				g.t.failf(x, "header index is not constant")
			}
			return []string{c.op("SetHeader", iv, g.intExpr(rhs, c.en))}
		}
		g.t.failf(x, "unsupported indexed assignment")
	}
	if call, ok := rhs.(*ast.CallExpr); ok {
		// buf := make([]byte, n)
		if isIdent(call.Fun, "make") && len(call.Args) == 2 && len(x.Lhs) == 1 {
			id := x.Lhs[0].(*ast.Ident)
			c.bufSize[g.lhsObj(id, x.Tok)] = g.intExpr(call.Args[1], c.en)
			return nil
		}
		recv, f, args, isSel := selCall(rhs)
		if isSel {
			switch {
			case recv == "io" && f == "ReadFull":
				if len(args) != 2 || !c.connExpr(args[0]) {
					g.t.failf(x, "io.ReadFull not reading from the connection")
				}
				id, ok := args[1].(*ast.Ident)
				if !ok {
					g.t.failf(x, "io.ReadFull target is not a variable")
				}
				obj := g.t.info.Uses[id]
				n, ok := c.bufSize[obj]
				if !ok {
					g.t.failf(x, "io.ReadFull into a buffer of unknown size")
				}
				delete(c.bufSize, obj)
				c.parts[obj] = "PPayload"
				c.setErr(x.Lhs[len(x.Lhs)-1], x.Tok, "read")
				return []string{c.op("ReadBody", n)}
			case recv == "io" && f == "CopyN":
				if len(args) != 3 || !c.connExpr(args[1]) {
					g.t.failf(x, "io.CopyN not reading from the connection")
				}
				c.setErr(x.Lhs[len(x.Lhs)-1], x.Tok, "read")
				n := g.intExpr(args[2], c.en)
				if c.connExpr(args[0]) {
					return []string{c.op("Echo", n)}
				}
				if types.ExprString(args[0]) == "io.Discard" {
					return []string{c.op("Discard", n)}
				}
				g.t.failf(x, "io.CopyN to an unsupported destination")
			case recv == c.recv+".conn" && f == "Write":
				c.setErr(x.Lhs[len(x.Lhs)-1], x.Tok, "write")
				return []string{c.op("Write", partList(c.partsOf(args[0])))}
			case recv == c.recv+".conn" && f == "Close":
				// must be followed by return / break
				switch n := next.(type) {
				case *ast.ReturnStmt:
					if len(n.Results) == 0 && !c.inHelper {
						return []string{c.op("CloseReturn")}
					}
				case *ast.BranchStmt:
					if n.Tok == token.BREAK && n.Label == nil && !c.inHelper {
						return []string{c.op("CloseReturn")}
					}
				}
				g.t.failf(x, "conn.Close() not followed by return")
			case recv == c.recv+".serializer" && f == "Deserialize":
				if len(args) != 1 || len(c.partsOf(args[0])) != 1 || c.partsOf(args[0])[0] != "PPayload" {
					g.t.failf(x, "Deserialize of something other than the frame body")
				}
				if len(x.Lhs) != 2 || !isIdent(x.Lhs[0], "msg") {
					g.t.failf(x, "Deserialize result is not assigned to msg")
				}
				c.setErr(x.Lhs[1], x.Tok, "deser")
				return []string{c.op("Deserialize")}
			case recv == c.recv:
				// helper method of the same receiver: inline
				if fd, ok := g.t.funcs[recvTypeName(g.recvTypeOf(c))+"."+f]; ok {
					ops := c.inline(fd, call)
					c.setErr(x.Lhs[len(x.Lhs)-1], x.Tok, "write")
					return ops
				}
			}
		}
	}
	g.t.failf(x, "unsupported assignment %s", types.ExprString(rhs))
	return nil
}

func (g *gen) recvTypeOf(c *opCtx) ast.Expr { return &ast.Ident{Name: "rawSocketPeer"} }

// inline extracts the ops of a helper method call rs.f(args).
func (c *opCtx) inline(fd *ast.FuncDecl, call *ast.CallExpr) []string {
	g := c.g
	if c.depth > 3 {
		g.t.failf(call, "helper inlining too deep")
	}
	sub := &opCtx{g: g, recv: fd.Recv.List[0].Names[0].Name, en: c.en, parts: map[types.Object]string{},
		bufSize: map[types.Object]string{}, errKind: map[types.Object]string{}, loop: c.loop,
		inHelper: true, mode: c.mode, depth: c.depth + 1}
	i := 0
	for _, f := range fd.Type.Params.List {
		for _, n := range f.Names {
			a := call.Args[i]
			i++
			if g.isListType(g.t.info.Defs[n].Type()) {
				ps := c.partsOf(a)
				if len(ps) != 1 {
					g.t.failf(a, "helper argument is a concatenation")
				}
				sub.parts[g.t.info.Defs[n]] = ps[0]
			} else {
				g.t.failf(a, "helper parameter %s of unsupported type", n.Name)
			}
		}
	}
	ops := sub.stmts(fd.Body.List)
	return append(ops, sub.deferred...)
}

// findLoop returns the (labelled) for loop of a handler and its label.
func (g *gen) findLoop(fd *ast.FuncDecl) (*ast.ForStmt, string, []ast.Stmt) {
	for i, s := range fd.Body.List {
		switch x := s.(type) {
		case *ast.LabeledStmt:
			if f, ok := x.Stmt.(*ast.ForStmt); ok {
				return f, x.Label.Name, fd.Body.List[i+1:]
			}
		case *ast.ForStmt:
			return x, "", fd.Body.List[i+1:]
		}
	}
	g.t.failf(fd, "no for loop found in %s", fd.Name.Name)
	return nil, "", nil
}

func (g *gen) emitRecvHandler() {
	fd, ok := g.t.funcs["rawSocketPeer.recvHandler"]
	if !ok {
		panic(failure{"method rawSocketPeer.recvHandler not found"})
	}
	rs := fd.Recv.List[0].Names[0].Name
	loop, label, after := g.findLoop(fd)
	if len(after) != 0 {
		g.t.failf(after[0], "statements after the receive loop are not supported")
	}
	if loop.Init != nil || loop.Cond != nil || loop.Post != nil {
		g.t.failf(loop, "receive loop is not `for {`")
	}
	en := newEnv()
	en.field[rs+".recvLimit"] = "v_recvLimit"
	c := &opCtx{g: g, recv: rs, en: en, parts: map[types.Object]string{}, bufSize: map[types.Object]string{},
		errKind: map[types.Object]string{}, loop: label, mode: "recv"}
	body := g.splitIfInit(loop.Body.List)

	var headerObj types.Object
	var lengthDef, overDef, tagDef string
	var overOps []string
	var caseRows []string
	defaultOps := "[]"
	haveSwitch, delivered := false, false
	stage := 0 // 0: before header read, 1: header read, 2: after switch
	for i := 0; i < len(body); i++ {
		s := body[i]
		switch x := s.(type) {
		case *ast.DeclStmt:
			gd := x.Decl.(*ast.GenDecl)
			for _, sp := range gd.Specs {
				vs := sp.(*ast.ValueSpec)
				for _, n := range vs.Names {
					obj := g.t.info.Defs[n]
					if arr, ok := obj.Type().Underlying().(*types.Array); ok && g.isListType(obj.Type()) {
						if arr.Len() != 4 {
							g.t.failf(s, "frame header array is not 4 bytes")
						}
						headerObj = obj
						en.obj[obj] = "v_header"
						c.parts[obj] = "PHeader"
					} else if n.Name == "msg" {
						// var msg wamp.Message: nil until assigned
					} else {
						g.t.failf(s, "unsupported declaration of %s in the receive loop", n.Name)
					}
				}
			}
		case *ast.AssignStmt:
			if len(x.Rhs) == 1 {
				if recv, f, args, ok := selCall(x.Rhs[0]); ok && recv == "io" && f == "ReadFull" && stage == 0 {
					if len(args) != 2 || !c.connExpr(args[0]) || len(c.partsOf(args[1])) != 1 || c.partsOf(args[1])[0] != "PHeader" {
						g.t.failf(s, "first read of the loop is not the 4-byte header")
					}
					// the error branch: any shape that ends in return
					if i+1 >= len(body) {
						g.t.failf(s, "header read without error check")
					}
					chk, ok := body[i+1].(*ast.IfStmt)
					if !ok {
						g.t.failf(s, "header read without error check")
					}
					if _, ok := isErrNotNil(chk.Cond); !ok || !terminates(chk.Body.List) {
						g.t.failf(chk, "header read-error branch does not return")
					}
					if _, isRet := chk.Body.List[len(chk.Body.List)-1].(*ast.ReturnStmt); !isRet {
						g.t.failf(chk, "header read-error branch does not return")
					}
					i++
					stage = 1
					continue
				}
			}
			if stage != 1 {
				g.t.failf(s, "unsupported assignment in the receive loop")
			}
			// pure definition (length := bytesToInt(header[1:]))
			id, ok := x.Lhs[0].(*ast.Ident)
			if !ok || len(x.Lhs) != 1 || x.Tok != token.DEFINE {
				g.t.failf(s, "unsupported assignment in the receive loop")
			}
			val := g.intExpr(x.Rhs[0], en)
			if id.Name == "length" {
				lengthDef = val
				en.obj[g.t.info.Defs[id]] = "v_length"
			} else {
				g.t.failf(s, "unsupported local %s in the receive loop (only `length`)", id.Name)
			}
		case *ast.IfStmt:
			if stage != 1 || lengthDef == "" || overDef != "" {
				g.t.failf(s, "unsupported conditional in the receive loop")
			}
			overDef = g.boolExpr(x.Cond, en)
			overOps = c.stmts(x.Body.List)
			if x.Else != nil || len(overOps) == 0 || overOps[len(overOps)-1] != "RCloseReturn" {
				g.t.failf(s, "the over-limit branch does not close the connection and leave the loop")
			}
		case *ast.SwitchStmt:
			if stage != 1 || x.Init != nil || x.Tag == nil || haveSwitch {
				g.t.failf(s, "unsupported switch in the receive loop")
			}
			haveSwitch = true
			tagDef = g.intExpr(x.Tag, en)
			for _, cl := range x.Body.List {
				cc := cl.(*ast.CaseClause)
				sub := &opCtx{g: g, recv: rs, en: en, parts: map[types.Object]string{headerObj: "PHeader"},
					bufSize: map[types.Object]string{}, errKind: map[types.Object]string{}, loop: label, mode: "recv"}
				ops := sub.stmts(cc.Body)
				if cc.List == nil {
					defaultOps = "[" + strings.Join(ops, "; ") + "]"
					continue
				}
				for _, v := range cc.List {
					cv, ok := g.constVal(v)
					if !ok {
						g.t.failf(v, "case value is not constant")
					}
					caseRows = append(caseRows, fmt.Sprintf("(%s, [%s])", cv, strings.Join(ops, "; ")))
				}
			}
			stage = 2
		case *ast.SelectStmt:
			if stage != 2 {
				g.t.failf(s, "select before the frame switch")
			}
			// one of the comm clauses must be rs.rd <- msg
			for _, cl := range x.Body.List {
				cc := cl.(*ast.CommClause)
				if snd, ok := cc.Comm.(*ast.SendStmt); ok {
					if types.ExprString(snd.Chan) == rs+".rd" && isIdent(snd.Value, "msg") {
						delivered = true
					}
				}
			}
		case *ast.SendStmt:
			if stage == 2 && types.ExprString(x.Chan) == rs+".rd" && isIdent(x.Value, "msg") {
				delivered = true
				continue
			}
			g.t.failf(s, "unsupported send in the receive loop")
		case *ast.ExprStmt:
			if !g.isLogCall(x.X) {
				g.t.failf(s, "unsupported expression statement in the receive loop")
			}
		default:
			g.t.failf(s, "unsupported statement (%T) in the receive loop", s)
		}
	}
	if !haveSwitch || !delivered || lengthDef == "" || overDef == "" {
		g.t.failf(fd, "receive loop lacks the length computation, the limit test, the frame switch or the delivery")
	}
	fmt.Fprintf(g.out, "\n(* %s: length := ... *)\nDefinition recv_length (v_header : list Z) : Z :=\n  %s.\n", g.sig(fd), lengthDef)
	fmt.Fprintf(g.out, "(* the limit test; when true: %s *)\nDefinition recv_over (v_length v_recvLimit : Z) : bool :=\n  %s.\n", strings.Join(overOps, "; "), overDef)
	fmt.Fprintf(g.out, "Definition recv_over_ops : list rop := [%s].\n", strings.Join(overOps, "; "))
	fmt.Fprintf(g.out, "(* switch tag *)\nDefinition frame_tag (v_header : list Z) : Z :=\n  %s.\n", tagDef)
	fmt.Fprintf(g.out, "Definition frame_cases (v_length : Z) : list (Z * list rop) :=\n  [%s].\n", strings.Join(caseRows, ";\n   "))
	fmt.Fprintf(g.out, "(* default clause; [] when the switch has none: control leaves the switch and msg (nil) is delivered *)\nDefinition frame_default (v_length : Z) : list rop :=\n  %s.\n", defaultOps)
}

func (g *gen) emitSendHandler() {
	fd, ok := g.t.funcs["rawSocketPeer.sendHandler"]
	if !ok {
		panic(failure{"method rawSocketPeer.sendHandler not found"})
	}
	rs := fd.Recv.List[0].Names[0].Name
	loop, label, _ := g.findLoop(fd)
	// the select's clause receiving from rs.wr
	var clause *ast.CommClause
	for _, s := range loop.Body.List {
		sel, ok := s.(*ast.SelectStmt)
		if !ok {
			g.t.failf(s, "send loop body is not a single select")
		}
		for _, cl := range sel.Body.List {
			cc := cl.(*ast.CommClause)
			if a, ok := cc.Comm.(*ast.AssignStmt); ok && len(a.Rhs) == 1 {
				if u, ok := a.Rhs[0].(*ast.UnaryExpr); ok && u.Op == token.ARROW && types.ExprString(u.X) == rs+".wr" {
					clause = cc
				}
			}
		}
	}
	if clause == nil {
		g.t.failf(fd, "no `case msg := <-%s.wr` in sendHandler", rs)
	}
	en := newEnv()
	en.field[rs+".sendLimit"] = "v_sendLimit"
	c := &opCtx{g: g, recv: rs, en: en, parts: map[types.Object]string{}, bufSize: map[types.Object]string{},
		errKind: map[types.Object]string{}, loop: label, mode: "send"}
	body := g.splitIfInit(clause.Body)
	var dropDef string
	var lets []string
	headerTerm := ""
	var ops []string
	var bodyObj types.Object
	for i := 0; i < len(body); i++ {
		s := body[i]
		switch x := s.(type) {
		case *ast.AssignStmt:
			if len(x.Rhs) == 1 {
				if recv, f, _, ok := selCall(x.Rhs[0]); ok && recv == rs+".serializer" && f == "Serialize" {
					id := x.Lhs[0].(*ast.Ident)
					bodyObj = g.lhsObj(id, x.Tok)
					c.parts[bodyObj] = "PPayload"
					en.lenOf[bodyObj] = "v_len_b"
					c.setErr(x.Lhs[1], x.Tok, "ser")
					if i+1 >= len(body) {
						g.t.failf(s, "Serialize without error check")
					}
					rest := c.stmts(body[i+1 : i+2])
					_ = rest
					i++
					continue
				}
				if _, isCall := x.Rhs[0].(*ast.CallExpr); isCall {
					if recv, f, _, ok := selCall(x.Rhs[0]); ok && (recv == rs+".conn" || recv == rs) && (f == "Write" || recv == rs) {
						// writes (possibly through a helper): everything from here on is ops
						ops = append(ops, c.stmts(body[i:])...)
						i = len(body)
						continue
					}
				}
			}
			if bodyObj == nil {
				g.t.failf(s, "statement before Serialize")
			}
			// pure definitions: lenBytes := intToBytes(len(b)); header := []byte{...}
			id, ok := x.Lhs[0].(*ast.Ident)
			if !ok || len(x.Lhs) != 1 {
				g.t.failf(s, "unsupported assignment in sendHandler")
			}
			let := g.pureAssign(x, en)
			lets = append(lets, let)
			obj := g.lhsObj(id, x.Tok)
			if g.isListType(obj.Type()) {
				c.parts[obj] = "PHeader?" + en.obj[obj]
			}
		case *ast.IfStmt:
			if bodyObj == nil || dropDef != "" {
				g.t.failf(s, "unsupported conditional in sendHandler")
			}
			if x.Else != nil || !c.logsThen(x.Body.List, c.isContinueLoop) {
				g.t.failf(s, "the size-limit branch is not `log; continue`")
			}
			dropDef = g.boolExpr(x.Cond, en)
		case *ast.ExprStmt:
			if g.isLogCall(x.X) {
				continue
			}
			if recv, f, _, ok := selCall(x.X); ok && strings.HasPrefix(recv, rs+".") && (f == "Lock" || f == "Unlock") {
				ops = append(ops, c.stmts(body[i:])...)
				i = len(body)
				continue
			}
			g.t.failf(s, "unsupported expression statement in sendHandler")
		default:
			g.t.failf(s, "unsupported statement (%T) in sendHandler", s)
		}
	}
	// resolve which list variable is the header: the one named in the writes
	for i, o := range ops {
		for obj, p := range c.parts {
			_ = obj
			if strings.HasPrefix(p, "PHeader?") && strings.Contains(o, p) {
				v := strings.TrimPrefix(p, "PHeader?")
				if headerTerm != "" && headerTerm != v {
					g.t.failf(fd, "two different header values are written")
				}
				headerTerm = v
				ops[i] = strings.ReplaceAll(o, p, "PHeader")
				o = ops[i]
			}
		}
	}
	if dropDef == "" || headerTerm == "" || len(ops) == 0 {
		g.t.failf(fd, "sendHandler lacks the limit test, the header or the writes")
	}
	fmt.Fprintf(g.out, "\n(* %s: the message is dropped when true *)\nDefinition send_drop (v_len_b v_sendLimit : Z) : bool :=\n  %s.\n", g.sig(fd), dropDef)
	fmt.Fprintf(g.out, "Definition send_header (v_len_b : Z) : list Z :=\n%s\n  %s.\n", indent(strings.Join(lets, "\n"), 2), headerTerm)
	fmt.Fprintf(g.out, "Definition send_ops : list wop := [%s].\n", strings.Join(ops, "; "))
}
