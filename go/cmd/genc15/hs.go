package main

import (
	"fmt"
	"go/ast"
	"go/token"
	"go/types"
	"strconv"
	"strings"
)

// hsState is the translation state inside a handshake function.
type hsState struct {
	en       *env
	written  []string          // Gallina list terms, one per conn.Write so far
	input    string            // Gallina name of the unread input
	nInput   int               // counter for input names
	ser      map[types.Object]string // serializer-typed variables
	errVar   map[types.Object]string // what the current value of an error variable came from: "read", "write"
	connName string
	peerFn   *ast.FuncDecl
}

func (s *hsState) clone() *hsState {
	n := *s
	n.en = s.en.clone()
	n.written = append([]string{}, s.written...)
	n.ser = map[types.Object]string{}
	for k, v := range s.ser {
		n.ser[k] = v
	}
	n.errVar = map[types.Object]string{}
	for k, v := range s.errVar {
		n.errVar[k] = v
	}
	return &n
}

func (s *hsState) writtenTerm() string { return "[" + strings.Join(s.written, "; ") + "]" }

var serializerTypes = map[string]string{
	"JSONSerializer":        "SerJSON",
	"MessagePackSerializer": "SerMsgpack",
	"CBORSerializer":        "SerCBOR",
}

// emitHandshake translates serverHandshake / clientHandshake.
func (g *gen) emitHandshake(name string) {
	fd, ok := g.t.funcs[name]
	if !ok {
		panic(failure{"function " + name + " not found"})
	}
	peerFn, ok := g.t.funcs["newRawSocketPeer"]
	if !ok {
		panic(failure{"function newRawSocketPeer not found"})
	}
	st := &hsState{en: newEnv(), input: "input", ser: map[types.Object]string{}, errVar: map[types.Object]string{}, peerFn: peerFn}
	var params []string
	for _, f := range fd.Type.Params.List {
		tv := g.t.info.Types[f.Type]
		for _, n := range f.Names {
			if _, isInt := g.kindOfType(tv.Type); isInt {
				v := st.en.fresh(n.Name)
				st.en.obj[g.t.info.Defs[n]] = v
				params = append(params, fmt.Sprintf("(%s : Z)", v))
			} else if n.Name == "conn" {
				st.connName = n.Name
			}
			// logger and other non-integer parameters carry no model content
		}
	}
	if st.connName == "" {
		g.t.failf(fd, "%s has no parameter named conn", name)
	}
	saved := g.out
	var deps strings.Builder
	g.out = &deps
	body := g.hsStmts(fd.Body.List, st)
	g.out = saved
	g.out.WriteString(deps.String())
	fmt.Fprintf(g.out, "\n(* %s *)\nDefinition %s %s (input : list Z) : hs_result :=\n%s.\n", g.sig(fd), snake(name), strings.Join(params, " "), indent(body, 2))
}

func isIdent(e ast.Expr, name string) bool {
	id, ok := e.(*ast.Ident)
	return ok && id.Name == name
}

// selCall matches x.f(args) and returns x (as source text), f, args.
func selCall(e ast.Expr) (string, string, []ast.Expr, bool) {
	c, ok := e.(*ast.CallExpr)
	if !ok {
		return "", "", nil, false
	}
	s, ok := c.Fun.(*ast.SelectorExpr)
	if !ok {
		return "", "", nil, false
	}
	return types.ExprString(s.X), s.Sel.Name, c.Args, true
}

func isErrNotNil(e ast.Expr) (*ast.Ident, bool) {
	b, ok := e.(*ast.BinaryExpr)
	if !ok || b.Op != token.NEQ || !isIdent(b.Y, "nil") {
		return nil, false
	}
	id, ok := b.X.(*ast.Ident)
	return id, ok
}

// splitIfInit turns `if INIT; COND {B}` into [INIT, if COND {B}] — valid here
// because the translated functions never shadow a live variable in INIT in a
// way that matters after the if: variables defined by INIT are only the
// blank identifier and an error value consumed by COND.
func (g *gen) splitIfInit(stmts []ast.Stmt) []ast.Stmt {
	var out []ast.Stmt
	for _, s := range stmts {
		if is, ok := s.(*ast.IfStmt); ok && is.Init != nil {
			if a, ok := is.Init.(*ast.AssignStmt); ok {
				for _, l := range a.Lhs {
					id, ok := l.(*ast.Ident)
					if !ok || (id.Name != "_" && id.Name != "err") {
						g.t.failf(s, "if-init defines %s: only `_` and `err` are supported", types.ExprString(l))
					}
				}
				cp := *is
				cp.Init = nil
				out = append(out, a, &cp)
				continue
			}
			g.t.failf(s, "unsupported if-init statement")
		}
		out = append(out, s)
	}
	return out
}

func (g *gen) lhsObj(id *ast.Ident, tok token.Token) types.Object {
	if tok == token.DEFINE {
		if o := g.t.info.Defs[id]; o != nil {
			return o
		}
	}
	return g.t.info.Uses[id]
}

func (g *gen) hsStmts(stmts []ast.Stmt, st *hsState) string {
	stmts = g.splitIfInit(stmts)
	if len(stmts) == 0 {
		panic(failure{"control reaches the end of a handshake function without return"})
	}
	s, rest := stmts[0], stmts[1:]
	switch x := s.(type) {
	case *ast.BlockStmt:
		return g.hsStmts(append(append([]ast.Stmt{}, x.List...), rest...), st)
	case *ast.DeclStmt:
		gd, ok := x.Decl.(*ast.GenDecl)
		if !ok || gd.Tok != token.VAR {
			g.t.failf(s, "unsupported declaration")
		}
		var lets []string
		for _, sp := range gd.Specs {
			vs := sp.(*ast.ValueSpec)
			if len(vs.Values) != 0 {
				g.t.failf(s, "var with initializer in a handshake function")
			}
			for _, n := range vs.Names {
				obj := g.t.info.Defs[n]
				switch {
				case g.isListType(obj.Type()):
					arr, ok := obj.Type().Underlying().(*types.Array)
					if !ok {
						g.t.failf(s, "var %s: only arrays are supported", n.Name)
					}
					z := make([]string, arr.Len())
					for i := range z {
						z[i] = "0"
					}
					v := st.en.fresh(n.Name)
					st.en.obj[obj] = v
					lets = append(lets, fmt.Sprintf("let %s := [%s] in", v, strings.Join(z, "; ")))
				case strings.HasSuffix(types.ExprString(vs.Type), "Serializer"):
					st.ser[obj] = "SerNone"
				default:
					if _, isInt := g.kindOfType(obj.Type()); isInt {
						v := st.en.fresh(n.Name)
						st.en.obj[obj] = v
						lets = append(lets, fmt.Sprintf("let %s := 0 in", v))
					} else {
						g.t.failf(s, "var %s of unsupported type %s", n.Name, types.ExprString(vs.Type))
					}
				}
			}
		}
		r := g.hsStmts(rest, st)
		if len(lets) == 0 {
			return r
		}
		return strings.Join(lets, "\n") + "\n" + r
	case *ast.AssignStmt:
		return g.hsAssign(x, rest, st)
	case *ast.IfStmt:
		// error check after a read / write
		if id, ok := isErrNotNil(x.Cond); ok {
			obj := g.t.info.Uses[id]
			switch st.errVar[obj] {
			case "write":
				// I/O failure of a write is outside the model; the branch must leave the function with an error
				if !g.returnsError(x.Body.List) || x.Else != nil {
					g.t.failf(s, "write-error branch does not return an error")
				}
				return g.hsStmts(rest, st)
			case "":
				g.t.failf(s, "error check on a value of unknown origin")
			default:
				g.t.failf(s, "unexpected error check (read errors are handled with the read)")
			}
		}
		c := g.boolExpr(x.Cond, st.en)
		thenS := append([]ast.Stmt{}, x.Body.List...)
		if !terminates(thenS) {
			thenS = append(thenS, rest...)
		}
		var elseS []ast.Stmt
		if x.Else != nil {
			elseS = append(elseS, x.Else)
			if !terminates(elseS) {
				elseS = append(elseS, rest...)
			}
		} else {
			elseS = rest
		}
		a := g.hsStmts(thenS, st.clone())
		b := g.hsStmts(elseS, st.clone())
		return fmt.Sprintf("if %s then\n%s\nelse\n%s", c, indent(a, 2), indent(b, 2))
	case *ast.SwitchStmt:
		if x.Init != nil || x.Tag == nil {
			g.t.failf(s, "unsupported switch form")
		}
		tag := st.en.fresh("tag")
		tagE := g.intExpr(x.Tag, st.en)
		var clauses []*ast.CaseClause
		var def *ast.CaseClause
		for _, c := range x.Body.List {
			cc := c.(*ast.CaseClause)
			for _, b := range cc.Body {
				if br, ok := b.(*ast.BranchStmt); ok && br.Tok == token.FALLTHROUGH {
					g.t.failf(b, "fallthrough")
				}
			}
			if cc.List == nil {
				def = cc
			} else {
				clauses = append(clauses, cc)
			}
		}
		var build func(i int) string
		build = func(i int) string {
			if i == len(clauses) {
				var body []ast.Stmt
				if def != nil {
					body = append(body, def.Body...)
				}
				if !terminates(body) {
					body = append(body, rest...)
				}
				return g.hsStmts(body, st.clone())
			}
			cc := clauses[i]
			var conds []string
			for _, v := range cc.List {
				conds = append(conds, fmt.Sprintf("(%s =? %s)", tag, g.intExpr(v, st.en)))
			}
			body := append([]ast.Stmt{}, cc.Body...)
			if !terminates(body) {
				body = append(body, rest...)
			}
			a := g.hsStmts(body, st.clone())
			return fmt.Sprintf("if %s then\n%s\nelse\n%s", strings.Join(conds, " || "), indent(a, 2), indent(build(i+1), 2))
		}
		return fmt.Sprintf("let %s := %s in\n%s", tag, tagE, build(0))
	case *ast.ReturnStmt:
		return g.hsReturn(x, st)
	case *ast.ExprStmt:
		if g.isLogCall(x.X) {
			return g.hsStmts(rest, st)
		}
	}
	g.t.failf(s, "unsupported statement (%T) in a handshake function", s)
	return ""
}

func (g *gen) isLogCall(e ast.Expr) bool {
	recv, f, _, ok := selCall(e)
	if !ok {
		return false
	}
	if !(strings.HasSuffix(recv, ".log") || recv == "logger" || strings.HasSuffix(recv, "Logger()")) {
		return false
	}
	return strings.HasPrefix(f, "Print")
}

// returnsError: the block ends with `return nil, <error>` (or `return <error>`).
func (g *gen) returnsError(b []ast.Stmt) bool {
	if len(b) == 0 {
		return false
	}
	r, ok := b[len(b)-1].(*ast.ReturnStmt)
	if !ok || len(r.Results) == 0 {
		return false
	}
	for _, s := range b[:len(b)-1] {
		es, ok := s.(*ast.ExprStmt)
		if !ok || !g.isLogCall(es.X) {
			return false
		}
	}
	last := r.Results[len(r.Results)-1]
	return !isIdent(last, "nil")
}

func (g *gen) hsAssign(x *ast.AssignStmt, rest []ast.Stmt, st *hsState) string {
	// I/O: io.ReadFull(conn, buf[:])  /  conn.Write(bytes)
	if len(x.Rhs) == 1 {
		if recv, f, args, ok := selCall(x.Rhs[0]); ok {
			if recv == "io" && f == "ReadFull" {
				return g.hsRead(x, args, rest, st)
			}
			if recv == st.connName && f == "Write" {
				if len(args) != 1 || len(x.Lhs) != 2 || !isIdent(x.Lhs[0], "_") {
					g.t.failf(x, "unsupported form of conn.Write")
				}
				st.written = append(st.written, g.listExpr(args[0], st.en))
				if id, ok := x.Lhs[1].(*ast.Ident); ok && id.Name != "_" {
					st.errVar[g.lhsObj(id, x.Tok)] = "write"
				}
				return g.hsStmts(rest, st)
			}
		}
	}
	if len(x.Lhs) != 1 || len(x.Rhs) != 1 {
		g.t.failf(x, "unsupported multiple assignment")
	}
	id, ok := x.Lhs[0].(*ast.Ident)
	if !ok {
		g.t.failf(x, "assignment to a non-variable")
	}
	obj := g.lhsObj(id, x.Tok)
	// serializer = &serialize.XSerializer{}
	if u, ok := x.Rhs[0].(*ast.UnaryExpr); ok && u.Op == token.AND {
		if cl, ok := u.X.(*ast.CompositeLit); ok {
			tn := types.ExprString(cl.Type)
			if i := strings.LastIndex(tn, "."); i >= 0 {
				tn = tn[i+1:]
			}
			if c, ok := serializerTypes[tn]; ok && len(cl.Elts) == 0 {
				st.ser[obj] = c
				return g.hsStmts(rest, st)
			}
		}
		g.t.failf(x, "unsupported address-of expression")
	}
	let := g.pureAssign(x, st.en)
	return let + "\n" + g.hsStmts(rest, st)
}

// hsRead handles  _, err := io.ReadFull(conn, buf[:])  followed by
// if err != nil { return nil, err }.
func (g *gen) hsRead(x *ast.AssignStmt, args []ast.Expr, rest []ast.Stmt, st *hsState) string {
	if len(args) != 2 || types.ExprString(args[0]) != st.connName {
		g.t.failf(x, "io.ReadFull not reading from conn")
	}
	sl, ok := args[1].(*ast.SliceExpr)
	if !ok || sl.Low != nil || sl.High != nil {
		g.t.failf(x, "io.ReadFull target is not buf[:]")
	}
	bid, ok := sl.X.(*ast.Ident)
	if !ok {
		g.t.failf(x, "io.ReadFull target is not a variable")
	}
	bobj := g.t.info.Uses[bid]
	arr, ok := bobj.Type().Underlying().(*types.Array)
	if !ok {
		g.t.failf(x, "io.ReadFull target is not an array")
	}
	if len(rest) == 0 {
		g.t.failf(x, "read without error check")
	}
	chk, ok := rest[0].(*ast.IfStmt)
	if !ok {
		g.t.failf(x, "read without error check")
	}
	if _, ok := isErrNotNil(chk.Cond); !ok || !g.returnsError(chk.Body.List) || chk.Else != nil {
		g.t.failf(chk, "read-error branch does not return the error")
	}
	v := st.en.fresh(bid.Name)
	st.en.obj[bobj] = v
	st.nInput++
	in2 := fmt.Sprintf("input_%d", st.nInput)
	errTerm := fmt.Sprintf("HsErr %s \"read error\"%%string", st.writtenTerm())
	prev := st.input
	st.input = in2
	body := g.hsStmts(rest[1:], st)
	return fmt.Sprintf("match read_n %d %s with\n| None => %s\n| Some (%s, %s) =>\n%s\nend", arr.Len(), prev, errTerm, v, in2, indent(body, 2))
}

func (g *gen) hsReturn(x *ast.ReturnStmt, st *hsState) string {
	if len(x.Results) != 2 {
		g.t.failf(x, "handshake return with %d results", len(x.Results))
	}
	if isIdent(x.Results[0], "nil") {
		return fmt.Sprintf("HsErr %s %s", st.writtenTerm(), strconv.Quote(g.errText(x.Results[1]))+"%string")
	}
	if !isIdent(x.Results[1], "nil") {
		g.t.failf(x, "return of both a peer and an error")
	}
	c, ok := x.Results[0].(*ast.CallExpr)
	if !ok || !isIdent(c.Fun, "newRawSocketPeer") {
		g.t.failf(x, "handshake does not return newRawSocketPeer(...)")
	}
	var ser, sl, rl string
	i := 0
	for _, f := range st.peerFn.Type.Params.List {
		for _, n := range f.Names {
			a := c.Args[i]
			i++
			switch n.Name {
			case "serializer":
				id, ok := a.(*ast.Ident)
				if !ok {
					g.t.failf(a, "serializer argument is not a variable")
				}
				ser, ok = st.ser[g.t.info.Uses[id]]
				if !ok {
					g.t.failf(a, "serializer variable with unknown value")
				}
			case "sendLimit":
				sl = g.intExpr(a, st.en)
			case "recvLimit":
				rl = g.intExpr(a, st.en)
			}
		}
	}
	if ser == "" || sl == "" || rl == "" {
		g.t.failf(x, "newRawSocketPeer lacks a serializer, sendLimit or recvLimit parameter")
	}
	return fmt.Sprintf("HsPeer %s %s %s %s", st.writtenTerm(), ser, sl, rl)
}

func (g *gen) errText(e ast.Expr) string {
	if id, ok := e.(*ast.Ident); ok {
		return id.Name
	}
	if _, f, args, ok := selCall(e); ok && (f == "New" || f == "Errorf") && len(args) >= 1 {
		if bl, ok := args[0].(*ast.BasicLit); ok && bl.Kind == token.STRING {
			s, err := strconv.Unquote(bl.Value)
			if err == nil {
				return s
			}
		}
	}
	g.t.failf(e, "unsupported error value %s", types.ExprString(e))
	return ""
}

// emitWrapper checks AcceptRawSocket / ConnectRawSocketPeer: they call the
// handshake, and on error close the connection and return the error.
func (g *gen) emitWrapper(name, hs, tag string) {
	fd, ok := g.t.funcs[name]
	if !ok {
		panic(failure{"function " + name + " not found"})
	}
	hfd := g.t.funcs[hs]
	en := newEnv()
	var params []string
	for _, f := range fd.Type.Params.List {
		tv := g.t.info.Types[f.Type]
		for _, n := range f.Names {
			if _, isInt := g.kindOfType(tv.Type); isInt {
				v := en.fresh(n.Name)
				en.obj[g.t.info.Defs[n]] = v
				params = append(params, v)
			}
		}
	}
	stmts := g.splitIfInit(fd.Body.List)
	found := false
	closes := false
	var argTerms []string
	for i, s := range stmts {
		a, ok := s.(*ast.AssignStmt)
		if !ok || len(a.Rhs) != 1 {
			continue
		}
		c, ok := a.Rhs[0].(*ast.CallExpr)
		if !ok || !isIdent(c.Fun, hs) {
			// local integer definitions the call may depend on (protocol byte)
			continue
		}
		found = true
		// arguments for the integer parameters of the handshake, in order
		j := 0
		for _, f := range hfd.Type.Params.List {
			tv := g.t.info.Types[f.Type]
			for range f.Names {
				if _, isInt := g.kindOfType(tv.Type); isInt {
					arg := c.Args[j]
					if id, ok := arg.(*ast.Ident); ok {
						if _, bound := en.obj[g.t.info.Uses[id]]; !bound {
							// a local computed earlier (protocol := getProtoByte(...)): becomes a parameter
							v := en.fresh(id.Name)
							en.obj[g.t.info.Uses[id]] = v
							params = append(params, v)
						}
					}
					argTerms = append(argTerms, g.intExpr(arg, en))
				}
				j++
			}
		}
		if i+1 >= len(stmts) {
			g.t.failf(s, "no error check after the handshake call")
		}
		chk, ok := stmts[i+1].(*ast.IfStmt)
		if !ok {
			g.t.failf(s, "no error check after the handshake call")
		}
		if _, ok := isErrNotNil(chk.Cond); !ok || !g.returnsError(onlyTail(chk.Body.List)) {
			g.t.failf(chk, "handshake error branch does not return the error")
		}
		for _, b := range chk.Body.List {
			if as, ok := b.(*ast.AssignStmt); ok && len(as.Rhs) == 1 {
				if recv, f, _, ok := selCall(as.Rhs[0]); ok && recv == "conn" && f == "Close" {
					closes = true
				}
			}
		}
		if i+2 >= len(stmts) {
			g.t.failf(s, "wrapper does not return the peer")
		}
		r, ok := stmts[i+2].(*ast.ReturnStmt)
		if !ok || len(r.Results) != 2 || !isIdent(r.Results[1], "nil") {
			g.t.failf(stmts[i+2], "wrapper does not return the peer")
		}
	}
	if !found {
		g.t.failf(fd, "%s does not call %s", name, hs)
	}
	var ps []string
	for _, p := range params {
		ps = append(ps, fmt.Sprintf("(%s : Z)", p))
	}
	fmt.Fprintf(g.out, "\n(* %s *)\nDefinition %s_handshake %s (input : list Z) : hs_result :=\n  %s %s input.\n", g.sig(fd), tag, strings.Join(ps, " "), snake(hs), strings.Join(argTerms, " "))
	fmt.Fprintf(g.out, "Definition %s_closes_on_error : bool := %v.\n", tag, closes)
}

// onlyTail drops `_ = conn.Close()` statements so returnsError sees logging + return only.
func onlyTail(b []ast.Stmt) []ast.Stmt {
	var out []ast.Stmt
	for _, s := range b {
		if as, ok := s.(*ast.AssignStmt); ok && len(as.Rhs) == 1 {
			if _, f, _, ok := selCall(as.Rhs[0]); ok && f == "Close" {
				continue
			}
		}
		out = append(out, s)
	}
	return out
}

// emitProtoTable translates getProtoByte: a switch over serialization
// constants returning protocol bytes.
func (g *gen) emitProtoTable(name string) {
	fd, ok := g.t.funcs[name]
	if !ok {
		panic(failure{"function " + name + " not found"})
	}
	if len(fd.Body.List) != 1 {
		g.t.failf(fd, "%s: expected a single switch", name)
	}
	sw, ok := fd.Body.List[0].(*ast.SwitchStmt)
	if !ok {
		g.t.failf(fd, "%s: expected a single switch", name)
	}
	var rows []string
	for _, c := range sw.Body.List {
		cc := c.(*ast.CaseClause)
		if len(cc.Body) != 1 {
			g.t.failf(cc, "case body is not a single return")
		}
		r, ok := cc.Body[0].(*ast.ReturnStmt)
		if !ok || len(r.Results) != 2 {
			g.t.failf(cc, "case body is not a single return")
		}
		if cc.List == nil {
			if isIdent(r.Results[1], "nil") {
				g.t.failf(cc, "default case of %s does not return an error", name)
			}
			continue
		}
		if !isIdent(r.Results[1], "nil") {
			continue // an error case
		}
		v := g.intExpr(r.Results[0], newEnv())
		for _, e := range cc.List {
			n := types.ExprString(e)
			if i := strings.LastIndex(n, "."); i >= 0 {
				n = n[i+1:]
			}
			rows = append(rows, fmt.Sprintf("(%s%%string, %s)", strconv.Quote(n), v))
		}
	}
	fmt.Fprintf(g.out, "\n(* %s *)\nDefinition %s : list (String.string * Z) :=\n  [%s].\n", g.sig(fd), snake(name), strings.Join(rows, "; "))
}

// emitRouterServer translates RawSocketServer.handleRawSocket: the arguments
// handed to transport.AcceptRawSocket and that the peer is attached.
func (g *gen) emitRouterServer() {
	fd, ok := g.t.funcs["RawSocketServer.handleRawSocket"]
	if !ok {
		panic(failure{"method RawSocketServer.handleRawSocket not found"})
	}
	recv := fd.Recv.List[0].Names[0].Name
	en := newEnv()
	en.field[recv+".RecvLimit"] = "cfg_RecvLimit"
	en.field[recv+".OutQueueSize"] = "cfg_OutQueueSize"
	stmts := g.splitIfInit(fd.Body.List)
	var lets []string
	var result string
	attached := false
	for i := 0; i < len(stmts); i++ {
		s := stmts[i]
		switch x := s.(type) {
		case *ast.AssignStmt:
			if len(x.Rhs) == 1 {
				if rcv, f, args, ok := selCall(x.Rhs[0]); ok {
					if rcv == "transport" && f == "AcceptRawSocket" {
						if len(args) != 4 {
							g.t.failf(s, "AcceptRawSocket called with %d arguments", len(args))
						}
						result = fmt.Sprintf("(%s, %s)", g.intExpr(args[2], en), g.intExpr(args[3], en))
						// error check follows
						if i+1 < len(stmts) {
							if chk, ok := stmts[i+1].(*ast.IfStmt); ok {
								if _, ok := isErrNotNil(chk.Cond); ok {
									i++
								}
							}
						}
						continue
					}
					if strings.HasSuffix(rcv, ".router") && (f == "Attach" || f == "AttachClient") {
						attached = true
						if i+1 < len(stmts) {
							if chk, ok := stmts[i+1].(*ast.IfStmt); ok {
								if _, ok := isErrNotNil(chk.Cond); ok {
									i++
								}
							}
						}
						continue
					}
				}
			}
			lets = append(lets, g.pureAssign(x, en))
		case *ast.IfStmt:
			// if qsize == 0 { qsize = defaultOutQueueSize }
			if x.Else != nil || len(x.Body.List) != 1 {
				g.t.failf(s, "unsupported if in handleRawSocket")
			}
			a, ok := x.Body.List[0].(*ast.AssignStmt)
			if !ok || a.Tok != token.ASSIGN || len(a.Lhs) != 1 {
				g.t.failf(s, "unsupported if body in handleRawSocket")
			}
			id := a.Lhs[0].(*ast.Ident)
			obj := g.t.info.Uses[id]
			cur := en.obj[obj]
			c := g.boolExpr(x.Cond, en)
			val := g.intExpr(a.Rhs[0], en)
			v := en.fresh(id.Name)
			en.obj[obj] = v
			lets = append(lets, fmt.Sprintf("let %s := if %s then %s else %s in", v, c, val, cur))
		case *ast.ExprStmt:
			if !g.isLogCall(x.X) {
				g.t.failf(s, "unsupported expression statement in handleRawSocket")
			}
		default:
			g.t.failf(s, "unsupported statement (%T) in handleRawSocket", s)
		}
	}
	if result == "" {
		g.t.failf(fd, "handleRawSocket does not call transport.AcceptRawSocket")
	}
	body := strings.Join(append(lets, result), "\n")
	fmt.Fprintf(g.out, "\n(* %s: (recvLimit, outQueueSize) handed to AcceptRawSocket *)\nDefinition server_accept_args (cfg_RecvLimit cfg_OutQueueSize : Z) : Z * Z :=\n%s.\n", g.sig(fd), indent(body, 2))
	fmt.Fprintf(g.out, "Definition server_attaches_peer : bool := %v.\n", attached)
}
