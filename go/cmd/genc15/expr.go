package main

import (
	"fmt"
	"go/ast"
	"go/constant"
	"go/token"
	"go/types"
	"strings"
	"unicode"
)

type gen struct {
	t       *pkgInfo
	out     *strings.Builder
	emitted map[string]bool

	elemSubst *elemSubst // inside a descending index loop: s[i] is the fold element
}

// env maps Go variables to Gallina terms.  Keys are types.Object for locals
// and parameters, and "recv.field" strings for fields read through the method
// receiver (rs.recvLimit ...).
type env struct {
	obj    map[types.Object]string
	field  map[string]string
	lenOf  map[types.Object]string // len(x) of these variables is a scalar parameter
	used   map[string]int          // Gallina names handed out, for versioning
	parent *env
}

func newEnv() *env {
	return &env{obj: map[types.Object]string{}, field: map[string]string{}, lenOf: map[types.Object]string{}, used: map[string]int{}}
}

func (e *env) clone() *env {
	n := newEnv()
	for k, v := range e.obj {
		n.obj[k] = v
	}
	for k, v := range e.field {
		n.field[k] = v
	}
	for k, v := range e.lenOf {
		n.lenOf[k] = v
	}
	for k, v := range e.used {
		n.used[k] = v
	}
	return n
}

// fresh returns a new Gallina name for Go variable name.
func (e *env) fresh(name string) string {
	base := "v_" + name
	n := e.used[base]
	e.used[base] = n + 1
	if n == 0 {
		return base
	}
	return fmt.Sprintf("%s_%d", base, n)
}

func snake(s string) string {
	var b strings.Builder
	rs := []rune(s)
	for i, r := range rs {
		if unicode.IsUpper(r) {
			if i > 0 && (unicode.IsLower(rs[i-1]) || (i+1 < len(rs) && unicode.IsLower(rs[i+1]))) {
				b.WriteByte('_')
			}
			b.WriteRune(unicode.ToLower(r))
		} else {
			b.WriteRune(r)
		}
	}
	return b.String()
}

// intKind describes an integer type: width and signedness.
type intKind struct {
	bits   int
	signed bool
}

func (g *gen) kindOfType(t types.Type) (intKind, bool) {
	b, ok := t.Underlying().(*types.Basic)
	if !ok {
		return intKind{}, false
	}
	switch b.Kind() {
	case types.Uint8:
		return intKind{8, false}, true
	case types.Uint16:
		return intKind{16, false}, true
	case types.Uint32:
		return intKind{32, false}, true
	case types.Uint64, types.Uint, types.Uintptr:
		return intKind{64, false}, true
	case types.Int8:
		return intKind{8, true}, true
	case types.Int16:
		return intKind{16, true}, true
	case types.Int32:
		return intKind{32, true}, true
	case types.Int64, types.Int:
		return intKind{64, true}, true
	}
	return intKind{}, false
}

func (g *gen) kindOf(e ast.Expr) intKind {
	tv, ok := g.t.info.Types[e]
	if !ok {
		g.t.failf(e, "no type information for expression %s", types.ExprString(e))
	}
	k, ok := g.kindOfType(tv.Type)
	if !ok {
		g.t.failf(e, "expression %s has non-integer type %v", types.ExprString(e), tv.Type)
	}
	return k
}

func (k intKind) wrap(x string) string {
	if k.signed {
		return fmt.Sprintf("(wrap_s %d %s)", k.bits, x)
	}
	return fmt.Sprintf("(wrap_u %d %s)", k.bits, x)
}

func zlit(s string) string {
	if strings.HasPrefix(s, "-") {
		return "(" + s + ")"
	}
	return s
}

// constVal returns the exact value of a constant integer expression.
func (g *gen) constVal(e ast.Expr) (string, bool) {
	tv, ok := g.t.info.Types[e]
	if !ok || tv.Value == nil {
		return "", false
	}
	if tv.Value.Kind() == constant.Int {
		return zlit(tv.Value.ExactString()), true
	}
	return "", false
}

// intExpr translates an integer-valued Go expression.
func (g *gen) intExpr(e ast.Expr, en *env) string {
	if v, ok := g.constVal(e); ok {
		return v
	}
	switch x := e.(type) {
	case *ast.ParenExpr:
		return g.intExpr(x.X, en)
	case *ast.Ident:
		obj := g.t.info.Uses[x]
		if obj == nil {
			obj = g.t.info.Defs[x]
		}
		if s, ok := en.obj[obj]; ok {
			return s
		}
		g.t.failf(e, "integer variable %s is not bound in the translated scope", x.Name)
	case *ast.SelectorExpr:
		if id, ok := x.X.(*ast.Ident); ok {
			key := id.Name + "." + x.Sel.Name
			if s, ok := en.field[key]; ok {
				return s
			}
		}
		g.t.failf(e, "unsupported selector %s", types.ExprString(e))
	case *ast.BinaryExpr:
		k := g.kindOf(e)
		switch x.Op {
		case token.ADD, token.SUB, token.MUL:
			op := map[token.Token]string{token.ADD: "+", token.SUB: "-", token.MUL: "*"}[x.Op]
			return k.wrap(fmt.Sprintf("(%s %s %s)", g.intExpr(x.X, en), op, g.intExpr(x.Y, en)))
		case token.AND:
			return fmt.Sprintf("(Z.land %s %s)", g.intExpr(x.X, en), g.intExpr(x.Y, en))
		case token.OR:
			return fmt.Sprintf("(Z.lor %s %s)", g.intExpr(x.X, en), g.intExpr(x.Y, en))
		case token.XOR:
			return fmt.Sprintf("(Z.lxor %s %s)", g.intExpr(x.X, en), g.intExpr(x.Y, en))
		case token.AND_NOT:
			return fmt.Sprintf("(Z.ldiff %s %s)", g.intExpr(x.X, en), g.intExpr(x.Y, en))
		case token.REM:
			// Go % truncates toward zero; only accepted for unsigned operands
			if k.signed {
				g.t.failf(e, "%% on a signed type is not supported")
			}
			return fmt.Sprintf("(%s mod %s)", g.intExpr(x.X, en), g.intExpr(x.Y, en))
		case token.QUO:
			if k.signed {
				g.t.failf(e, "/ on a signed type is not supported")
			}
			return fmt.Sprintf("(%s / %s)", g.intExpr(x.X, en), g.intExpr(x.Y, en))
		case token.SHL, token.SHR:
			g.checkShiftCount(x.Y)
			if x.Op == token.SHR {
				return fmt.Sprintf("(shr %s %s)", g.intExpr(x.X, en), g.intExpr(x.Y, en))
			}
			f := "shl_u"
			if k.signed {
				f = "shl_s"
			}
			return fmt.Sprintf("(%s %d %s %s)", f, k.bits, g.intExpr(x.X, en), g.intExpr(x.Y, en))
		}
		g.t.failf(e, "unsupported integer operator %s", x.Op)
	case *ast.CallExpr:
		// conversion T(x)
		if tv, ok := g.t.info.Types[x.Fun]; ok && tv.IsType() {
			if len(x.Args) != 1 {
				g.t.failf(e, "conversion with %d arguments", len(x.Args))
			}
			to := g.kindOf(e)
			from := g.kindOf(x.Args[0])
			inner := g.intExpr(x.Args[0], en)
			if fits(from, to) {
				return inner
			}
			return to.wrap(inner)
		}
		if id, ok := x.Fun.(*ast.Ident); ok {
			switch id.Name {
			case "len":
				return g.lenExpr(x.Args[0], en)
			case "min", "max":
				if _, isBuiltin := g.t.info.Uses[id].(*types.Builtin); isBuiltin {
					s := g.intExpr(x.Args[0], en)
					for _, a := range x.Args[1:] {
						s = fmt.Sprintf("(Z.%s %s %s)", id.Name, s, g.intExpr(a, en))
					}
					return s
				}
			}
			if fd, ok := g.t.funcs[id.Name]; ok && g.isPureSig(fd) {
				g.emitPure(id.Name)
				return g.callPure(fd, x, en)
			}
		}
		g.t.failf(e, "unsupported call %s in an integer expression", types.ExprString(x.Fun))
	case *ast.IndexExpr:
		if es := g.elemSubst; es != nil {
			if b, ok := x.X.(*ast.Ident); ok && g.t.info.Uses[b] == es.slice {
				if i, ok := x.Index.(*ast.Ident); ok && g.t.info.Uses[i] == es.index {
					return es.name
				}
			}
		}
		return fmt.Sprintf("(idx %s %s)", g.listExpr(x.X, en), g.intExpr(x.Index, en))
	}
	g.t.failf(e, "unsupported integer expression %s (%T)", types.ExprString(e), e)
	return ""
}

// fits: every value of type from is a value of type to.
func fits(from, to intKind) bool {
	if from.signed == to.signed {
		return from.bits <= to.bits
	}
	if !from.signed && to.signed {
		return from.bits < to.bits
	}
	return false
}

func (g *gen) checkShiftCount(y ast.Expr) {
	if _, ok := g.constVal(y); ok {
		tv := g.t.info.Types[y]
		if constant.Sign(tv.Value) < 0 {
			g.t.failf(y, "negative constant shift count")
		}
		return
	}
	if k := g.kindOf(y); k.signed {
		g.t.failf(y, "shift count of signed type (may panic at run time) is not supported")
	}
}

func (g *gen) callPure(fd *ast.FuncDecl, call *ast.CallExpr, en *env) string {
	var args []string
	i := 0
	for _, f := range fd.Type.Params.List {
		for range f.Names {
			a := call.Args[i]
			if g.isListType(g.t.info.Types[a].Type) {
				args = append(args, g.listExpr(a, en))
			} else {
				args = append(args, g.intExpr(a, en))
			}
			i++
		}
	}
	return fmt.Sprintf("(%s %s)", snake(fd.Name.Name), strings.Join(args, " "))
}

func (g *gen) isListType(t types.Type) bool {
	if t == nil {
		return false
	}
	switch u := t.Underlying().(type) {
	case *types.Slice:
		_, ok := g.kindOfType(u.Elem())
		return ok
	case *types.Array:
		_, ok := g.kindOfType(u.Elem())
		return ok
	}
	return false
}

// isPureSig: all parameters and the single result are integers or byte lists.
func (g *gen) isPureSig(fd *ast.FuncDecl) bool {
	if fd.Recv != nil || fd.Type.Results == nil || len(fd.Type.Results.List) != 1 {
		return false
	}
	ok := func(e ast.Expr) bool {
		tv, has := g.t.info.Types[e]
		if !has {
			return false
		}
		if _, isInt := g.kindOfType(tv.Type); isInt {
			return true
		}
		return g.isListType(tv.Type)
	}
	for _, f := range fd.Type.Params.List {
		if !ok(f.Type) {
			return false
		}
	}
	return ok(fd.Type.Results.List[0].Type)
}

// lenExpr translates len(x).
func (g *gen) lenExpr(x ast.Expr, en *env) string {
	if id, ok := x.(*ast.Ident); ok {
		obj := g.t.info.Uses[id]
		if s, ok := en.lenOf[obj]; ok {
			return s
		}
	}
	return fmt.Sprintf("(len %s)", g.listExpr(x, en))
}

// listExpr translates a []byte / [n]byte valued expression to a Gallina list Z.
func (g *gen) listExpr(e ast.Expr, en *env) string {
	switch x := e.(type) {
	case *ast.ParenExpr:
		return g.listExpr(x.X, en)
	case *ast.Ident:
		obj := g.t.info.Uses[x]
		if obj == nil {
			obj = g.t.info.Defs[x]
		}
		if s, ok := en.obj[obj]; ok {
			return s
		}
		g.t.failf(e, "byte-slice variable %s is not bound in the translated scope", x.Name)
	case *ast.SliceExpr:
		if x.Slice3 {
			g.t.failf(e, "3-index slice")
		}
		s := g.listExpr(x.X, en)
		if x.High != nil {
			s = fmt.Sprintf("(firstn (Z.to_nat %s) %s)", g.intExpr(x.High, en), s)
		}
		if x.Low != nil {
			s = fmt.Sprintf("(skipn (Z.to_nat %s) %s)", g.intExpr(x.Low, en), s)
		}
		return s
	case *ast.CompositeLit:
		if !g.isListType(g.t.info.Types[e].Type) {
			g.t.failf(e, "composite literal of unsupported type")
		}
		var el []string
		for _, v := range x.Elts {
			if _, isKV := v.(*ast.KeyValueExpr); isKV {
				g.t.failf(e, "keyed composite literal")
			}
			el = append(el, g.intExpr(v, en))
		}
		return "[" + strings.Join(el, "; ") + "]"
	case *ast.CallExpr:
		if id, ok := x.Fun.(*ast.Ident); ok {
			if id.Name == "append" && x.Ellipsis.IsValid() && len(x.Args) == 2 {
				return fmt.Sprintf("(app %s %s)", g.listExpr(x.Args[0], en), g.listExpr(x.Args[1], en))
			}
			if fd, ok := g.t.funcs[id.Name]; ok && g.isPureSig(fd) {
				g.emitPure(id.Name)
				return g.callPure(fd, x, en)
			}
		}
	}
	g.t.failf(e, "unsupported byte-slice expression %s", types.ExprString(e))
	return ""
}

// boolExpr translates a boolean Go expression.
func (g *gen) boolExpr(e ast.Expr, en *env) string {
	if tv, ok := g.t.info.Types[e]; ok && tv.Value != nil && tv.Value.Kind() == constant.Bool {
		if constant.BoolVal(tv.Value) {
			return "true"
		}
		return "false"
	}
	switch x := e.(type) {
	case *ast.ParenExpr:
		return g.boolExpr(x.X, en)
	case *ast.UnaryExpr:
		if x.Op == token.NOT {
			return fmt.Sprintf("(negb %s)", g.boolExpr(x.X, en))
		}
	case *ast.BinaryExpr:
		switch x.Op {
		case token.LAND:
			return fmt.Sprintf("(%s && %s)", g.boolExpr(x.X, en), g.boolExpr(x.Y, en))
		case token.LOR:
			return fmt.Sprintf("(%s || %s)", g.boolExpr(x.X, en), g.boolExpr(x.Y, en))
		case token.EQL, token.NEQ, token.LSS, token.LEQ, token.GTR, token.GEQ:
			a, b := g.intExpr(x.X, en), g.intExpr(x.Y, en)
			switch x.Op {
			case token.EQL:
				return fmt.Sprintf("(%s =? %s)", a, b)
			case token.NEQ:
				return fmt.Sprintf("(negb (%s =? %s))", a, b)
			case token.LSS:
				return fmt.Sprintf("(%s <? %s)", a, b)
			case token.LEQ:
				return fmt.Sprintf("(%s <=? %s)", a, b)
			case token.GTR:
				return fmt.Sprintf("(%s >? %s)", a, b)
			case token.GEQ:
				return fmt.Sprintf("(%s >=? %s)", a, b)
			}
		}
	}
	g.t.failf(e, "unsupported boolean expression %s", types.ExprString(e))
	return ""
}

func (g *gen) emitConst(name string) {
	if g.emitted["const:"+name] {
		return
	}
	for id, obj := range g.t.info.Defs {
		if id.Name != name || obj == nil {
			continue
		}
		c, ok := obj.(*types.Const)
		if !ok || c.Parent() != c.Pkg().Scope() {
			continue
		}
		if c.Val().Kind() != constant.Int {
			g.t.failf(id, "constant %s is not an integer", name)
		}
		g.emitted["const:"+name] = true
		fmt.Fprintf(g.out, "Definition c_%s : Z := %s.\n", name, zlit(c.Val().ExactString()))
		return
	}
	panic(failure{"constant " + name + " not found"})
}
