package main

import (
	"fmt"
	"go/ast"
	"go/constant"
	"go/token"
	"go/types"
	"strings"
)

// emitPure emits a Gallina Definition for a pure integer / byte-slice function.
func (g *gen) emitPure(name string) {
	if g.emitted["fn:"+name] {
		return
	}
	fd, ok := g.t.funcs[name]
	if !ok {
		panic(failure{"function " + name + " not found"})
	}
	if !g.isPureSig(fd) {
		g.t.failf(fd, "function %s does not have a pure integer signature", name)
	}
	g.emitted["fn:"+name] = true // before the body: recursion would loop, and is not supported anyway
	en := newEnv()
	var params []string
	for _, f := range fd.Type.Params.List {
		for _, n := range f.Names {
			v := en.fresh(n.Name)
			en.obj[g.t.info.Defs[n]] = v
			ty := "Z"
			if g.isListType(g.t.info.Types[f.Type].Type) {
				ty = "list Z"
			}
			params = append(params, fmt.Sprintf("(%s : %s)", v, ty))
		}
	}
	resList := g.isListType(g.t.info.Types[fd.Type.Results.List[0].Type].Type)
	rty := "Z"
	if resList {
		rty = "list Z"
	}
	var body strings.Builder
	// the body may call other pure functions: they are emitted first because
	// emitPure writes to g.out immediately, so build the body before printing
	saved := g.out
	var deps strings.Builder
	g.out = &deps
	body.WriteString(g.pureStmts(fd.Body.List, en, resList, false))
	g.out = saved
	g.out.WriteString(deps.String())
	fmt.Fprintf(g.out, "\n(* %s *)\nDefinition %s %s : %s :=\n%s.\n", g.sig(fd), snake(name), strings.Join(params, " "), rty, indent(body.String(), 2))
}

func (g *gen) sig(fd *ast.FuncDecl) string {
	p := g.t.fset.Position(fd.Pos())
	return fmt.Sprintf("func %s  (%s)", fd.Name.Name, baseName(p.Filename))
}

func baseName(s string) string {
	if i := strings.LastIndex(s, "/"); i >= 0 {
		return s[i+1:]
	}
	return s
}

func indent(s string, n int) string {
	pad := strings.Repeat(" ", n)
	lines := strings.Split(s, "\n")
	for i, l := range lines {
		if l != "" {
			lines[i] = pad + l
		}
	}
	return strings.Join(lines, "\n")
}

func terminates(stmts []ast.Stmt) bool {
	if len(stmts) == 0 {
		return false
	}
	switch s := stmts[len(stmts)-1].(type) {
	case *ast.ReturnStmt:
		return true
	case *ast.BranchStmt:
		return s.Tok == token.CONTINUE || s.Tok == token.BREAK || s.Tok == token.GOTO
	case *ast.BlockStmt:
		return terminates(s.List)
	}
	return false
}

// pureStmts translates a statement list that ends by returning a value.  With
// opt set the result is an option: falling off the end is None (loop bodies).
func (g *gen) pureStmts(stmts []ast.Stmt, en *env, resList, opt bool) string {
	if len(stmts) == 0 {
		if opt {
			return "None"
		}
		panic(failure{"control reaches the end of a translated function without return"})
	}
	s, rest := stmts[0], stmts[1:]
	ret := func(e ast.Expr) string {
		var v string
		if resList {
			v = g.listExpr(e, en)
		} else {
			v = g.intExpr(e, en)
		}
		if opt {
			return "Some " + v
		}
		return v
	}
	switch x := s.(type) {
	case *ast.ReturnStmt:
		if len(x.Results) != 1 {
			g.t.failf(s, "return with %d results", len(x.Results))
		}
		return ret(x.Results[0])
	case *ast.BlockStmt:
		return g.pureStmts(append(append([]ast.Stmt{}, x.List...), rest...), en, resList, opt)
	case *ast.IfStmt:
		if x.Init != nil {
			g.t.failf(s, "if with init statement in a pure function")
		}
		c := g.boolExpr(x.Cond, en)
		var thenS, elseS []ast.Stmt
		thenS = append(thenS, x.Body.List...)
		if !terminates(thenS) {
			thenS = append(thenS, rest...)
		}
		if x.Else != nil {
			elseS = append(elseS, x.Else)
			if !terminates(elseS) {
				elseS = append(elseS, rest...)
			}
		} else {
			elseS = rest
		}
		a := g.pureStmts(thenS, en.clone(), resList, opt)
		b := g.pureStmts(elseS, en.clone(), resList, opt)
		return fmt.Sprintf("if %s then\n%s\nelse\n%s", c, indent(a, 2), indent(b, 2))
	case *ast.DeclStmt:
		gd, ok := x.Decl.(*ast.GenDecl)
		if !ok || gd.Tok != token.VAR {
			g.t.failf(s, "unsupported declaration")
		}
		var lets []string
		for _, sp := range gd.Specs {
			vs := sp.(*ast.ValueSpec)
			for i, n := range vs.Names {
				val := "0"
				if len(vs.Values) > i {
					val = g.intExpr(vs.Values[i], en)
				} else if _, ok := g.kindOfType(g.t.info.Defs[n].Type()); !ok {
					g.t.failf(s, "var %s of unsupported type", n.Name)
				}
				v := en.fresh(n.Name)
				en.obj[g.t.info.Defs[n]] = v
				lets = append(lets, fmt.Sprintf("let %s := %s in", v, val))
			}
		}
		return strings.Join(lets, "\n") + "\n" + g.pureStmts(rest, en, resList, opt)
	case *ast.AssignStmt:
		let := g.pureAssign(x, en)
		return let + "\n" + g.pureStmts(rest, en, resList, opt)
	case *ast.RangeStmt:
		// for v := range <constant n> { body that returns or falls through }
		tv := g.t.info.Types[x.X]
		if tv.Value == nil || tv.Value.Kind() != constant.Int || x.Value != nil || x.Tok != token.DEFINE {
			g.t.failf(s, "only `for v := range <integer constant>` is supported")
		}
		n, _ := constant.Int64Val(tv.Value)
		if n < 0 || n > 4096 {
			g.t.failf(s, "range bound %d out of supported interval", n)
		}
		k, _ := g.kindOfType(tv.Type)
		if int64(1)<<uint(k.bits-1) <= n {
			g.t.failf(s, "range bound does not fit the loop variable")
		}
		if assignsOuter(x.Body, g.t.info) {
			g.t.failf(s, "range loop body assigns to a variable declared outside of it")
		}
		en2 := en.clone()
		kid, ok := x.Key.(*ast.Ident)
		if !ok {
			g.t.failf(s, "range without a loop variable")
		}
		v := en2.fresh(kid.Name)
		en2.obj[g.t.info.Defs[kid]] = v
		body := g.pureStmts(x.Body.List, en2, resList, true)
		after := g.pureStmts(rest, en, resList, opt)
		some := "r"
		if opt {
			some = "Some r"
		}
		return fmt.Sprintf("match for_range_first %d 0 (fun %s =>\n%s) with\n| Some r => %s\n| None =>\n%s\nend", n, v, indent(body, 4), some, indent(after, 2))
	case *ast.ForStmt:
		return g.descendingLoop(x, en) + "\n" + g.pureStmts(rest, en, resList, opt)
	}
	g.t.failf(s, "unsupported statement (%T) in a pure function", s)
	return ""
}

func assignsOuter(body *ast.BlockStmt, info *types.Info) bool {
	bad := false
	ast.Inspect(body, func(n ast.Node) bool {
		switch a := n.(type) {
		case *ast.AssignStmt:
			if a.Tok != token.DEFINE {
				bad = true
			}
		case *ast.IncDecStmt:
			bad = true
		}
		return true
	})
	return bad
}

// pureAssign handles x := e, x = e, x op= e for integer and byte-slice values.
func (g *gen) pureAssign(x *ast.AssignStmt, en *env) string {
	if len(x.Lhs) != 1 || len(x.Rhs) != 1 {
		g.t.failf(x, "multiple assignment")
	}
	id, ok := x.Lhs[0].(*ast.Ident)
	if !ok {
		g.t.failf(x, "assignment to a non-variable")
	}
	var obj types.Object
	if x.Tok == token.DEFINE {
		obj = g.t.info.Defs[id]
	} else {
		obj = g.t.info.Uses[id]
	}
	if obj == nil {
		g.t.failf(x, "cannot resolve %s", id.Name)
	}
	var val string
	isList := g.isListType(obj.Type())
	switch x.Tok {
	case token.DEFINE, token.ASSIGN:
		if isList {
			val = g.listExpr(x.Rhs[0], en)
		} else {
			val = g.intExpr(x.Rhs[0], en)
		}
	default:
		// x op= e  is  x = x op e  at x's type
		opTok, ok := map[token.Token]token.Token{
			token.ADD_ASSIGN: token.ADD, token.SUB_ASSIGN: token.SUB, token.MUL_ASSIGN: token.MUL,
			token.OR_ASSIGN: token.OR, token.AND_ASSIGN: token.AND, token.XOR_ASSIGN: token.XOR,
			token.SHL_ASSIGN: token.SHL, token.SHR_ASSIGN: token.SHR,
		}[x.Tok]
		if !ok || isList {
			g.t.failf(x, "unsupported assignment operator %s", x.Tok)
		}
		k, _ := g.kindOfType(obj.Type())
		cur, ok := en.obj[obj]
		if !ok {
			g.t.failf(x, "variable %s not bound", id.Name)
		}
		rhs := g.intExpr(x.Rhs[0], en)
		switch opTok {
		case token.ADD:
			val = k.wrap(fmt.Sprintf("(%s + %s)", cur, rhs))
		case token.SUB:
			val = k.wrap(fmt.Sprintf("(%s - %s)", cur, rhs))
		case token.MUL:
			val = k.wrap(fmt.Sprintf("(%s * %s)", cur, rhs))
		case token.OR:
			val = fmt.Sprintf("(Z.lor %s %s)", cur, rhs)
		case token.AND:
			val = fmt.Sprintf("(Z.land %s %s)", cur, rhs)
		case token.XOR:
			val = fmt.Sprintf("(Z.lxor %s %s)", cur, rhs)
		case token.SHL:
			g.checkShiftCount(x.Rhs[0])
			f := "shl_u"
			if k.signed {
				f = "shl_s"
			}
			val = fmt.Sprintf("(%s %d %s %s)", f, k.bits, cur, rhs)
		case token.SHR:
			g.checkShiftCount(x.Rhs[0])
			val = fmt.Sprintf("(shr %s %s)", cur, rhs)
		}
	}
	v := en.fresh(id.Name)
	en.obj[obj] = v
	return fmt.Sprintf("let %s := %s in", v, val)
}

// descendingLoop handles
//
//	for i := len(b) - 1; i >= 0; i-- { <assignments using b[i] only through b[i]> }
//
// as a left fold over rev b.  The state is the tuple of outer variables the
// body assigns.
func (g *gen) descendingLoop(x *ast.ForStmt, en *env) string {
	bad := func() { g.t.failf(x, "only `for i := len(s) - 1; i >= 0; i--` loops are supported") }
	init, ok := x.Init.(*ast.AssignStmt)
	if !ok || init.Tok != token.DEFINE || len(init.Lhs) != 1 {
		bad()
	}
	iv := init.Lhs[0].(*ast.Ident)
	iobj := g.t.info.Defs[iv]
	sub, ok := init.Rhs[0].(*ast.BinaryExpr)
	if !ok || sub.Op != token.SUB {
		bad()
	}
	if v, ok := g.constVal(sub.Y); !ok || v != "1" {
		bad()
	}
	lc, ok := sub.X.(*ast.CallExpr)
	if !ok || len(lc.Args) != 1 {
		bad()
	}
	if f, ok := lc.Fun.(*ast.Ident); !ok || f.Name != "len" {
		bad()
	}
	sl, ok := lc.Args[0].(*ast.Ident)
	if !ok {
		bad()
	}
	sobj := g.t.info.Uses[sl]
	cond, ok := x.Cond.(*ast.BinaryExpr)
	if !ok || cond.Op != token.GEQ {
		bad()
	}
	if c, ok := cond.X.(*ast.Ident); !ok || g.t.info.Uses[c] != iobj {
		bad()
	}
	if v, ok := g.constVal(cond.Y); !ok || v != "0" {
		bad()
	}
	post, ok := x.Post.(*ast.IncDecStmt)
	if !ok || post.Tok != token.DEC {
		bad()
	}
	if c, ok := post.X.(*ast.Ident); !ok || g.t.info.Uses[c] != iobj {
		bad()
	}
	// body: assignments only; i may occur only as the index of s
	var state []types.Object
	seen := map[types.Object]bool{}
	for _, st := range x.Body.List {
		a, ok := st.(*ast.AssignStmt)
		if !ok || a.Tok == token.DEFINE || len(a.Lhs) != 1 {
			g.t.failf(st, "loop body statement is not a plain assignment to an outer variable")
		}
		id, ok := a.Lhs[0].(*ast.Ident)
		if !ok {
			g.t.failf(st, "loop body assigns to a non-variable")
		}
		o := g.t.info.Uses[id]
		if !seen[o] {
			seen[o] = true
			state = append(state, o)
		}
	}
	okUse := true
	ast.Inspect(x.Body, func(n ast.Node) bool {
		if ie, ok := n.(*ast.IndexExpr); ok {
			if b, ok := ie.X.(*ast.Ident); ok && g.t.info.Uses[b] == sobj {
				if i, ok := ie.Index.(*ast.Ident); ok && g.t.info.Uses[i] == iobj {
					return false // fine: s[i]
				}
			}
		}
		if id, ok := n.(*ast.Ident); ok {
			if o := g.t.info.Uses[id]; o == iobj || o == sobj {
				okUse = false
			}
		}
		return true
	})
	if !okUse {
		g.t.failf(x, "loop body uses the index or the slice other than as s[i]")
	}
	inner := en.clone()
	elem := inner.fresh(sl.Name + "_i")
	var names []string
	for _, o := range state {
		v := inner.fresh(o.Name())
		inner.obj[o] = v
		names = append(names, v)
	}
	// translate s[i] as elem: bind a pseudo environment entry through a rewriting walk
	g.elemSubst = &elemSubst{slice: sobj, index: iobj, name: elem}
	var lets []string
	for _, st := range x.Body.List {
		lets = append(lets, g.pureAssignElem(st.(*ast.AssignStmt), inner))
	}
	g.elemSubst = nil
	var finals []string
	for _, o := range state {
		finals = append(finals, inner.obj[o])
	}
	var inits []string
	for _, o := range state {
		cur, ok := en.obj[o]
		if !ok {
			g.t.failf(x, "loop state variable %s is not bound", o.Name())
		}
		inits = append(inits, cur)
	}
	var outs []string
	for _, o := range state {
		v := en.fresh(o.Name())
		en.obj[o] = v
		outs = append(outs, v)
	}
	tup := func(xs []string) string {
		if len(xs) == 1 {
			return xs[0]
		}
		return "(" + strings.Join(xs, ", ") + ")"
	}
	pat := func(xs []string) string {
		if len(xs) == 1 {
			return xs[0]
		}
		return "'" + tup(xs)
	}
	return fmt.Sprintf("let %s := fold_left (fun %s %s =>\n%s\n    %s) (rev %s) %s in",
		pat(outs), pat(names), elem, indent(strings.Join(lets, "\n"), 4), tup(finals), g.listExpr(sl, en), tup(inits))
}

type elemSubst struct {
	slice, index types.Object
	name         string
}

// pureAssignElem is pureAssign with s[i] replaced by the fold's element
// variable: implemented by temporarily binding through intExprHook.
func (g *gen) pureAssignElem(a *ast.AssignStmt, en *env) string {
	return g.pureAssign(a, en)
}
