// Command line (the package is built with `go test -c -tags verif`):
//
//	concdrive -test.run '^TestDrive$' -test.timeout 0 -mode=batch -prop=C06|C07 [-tier=quick|thorough]
//	          [-seed N] [-jobs 16] [-procs 4] [-budget 75s] [-n N] [-out summary.json] [-corpus DIR]
//	          [-focus syncPubEvent,onLeave,...] [-skip shape,...] [-shrink=true]
//	concdrive -test.run '^TestDrive$' -test.timeout 0 -mode=replay -history=FILE     exit 0 pass / 1 fail
//	concdrive -test.run '^TestDrive$' -test.timeout 0 -mode=gen -prop=.. [-tier ..] [-seed N] [-n N]
//	concdrive ... -mode=worker -histories=FILE [-trace] [-deadline unixnano]         (internal)
//
// batch: the parent generates the histories (corpus first), deals them round
// robin to -jobs children (this binary with -mode=worker), restarts a child
// that crashed (the history whose BEGIN had no RESULT gets oracle "panic") or
// made no progress for 20 s of real time (oracle "harness-timeout"), shrinks
// the first failure of each signature and writes the summary JSON.
// Worker protocol on stdout, one line each: "BEGIN <id>", optional
// "PARTIAL <result json>" (state before a step that may kill the process),
// "RESULT <result json>".
package concdrive

import (
	"bufio"
	"encoding/json"
	"flag"
	"fmt"
	"os"
	"runtime"
	"strconv"
	"strings"
	"sync"
	"testing"
	"time"
)

var (
	fMode      = flag.String("mode", "", "batch | worker | replay | gen")
	fProp      = flag.String("prop", "C07", "C06 | C07")
	fTier      = flag.String("tier", "quick", "quick | thorough")
	fSeed      = flag.Uint64("seed", envSeed(), "seed of all randomness (default $VERIF_SEED, else 1)")
	fJobs      = flag.Int("jobs", 16, "child processes")
	fProcs     = flag.Int("procs", 4, "GOMAXPROCS of each child")
	fBudget    = flag.Duration("budget", 0, "real-time budget (quick 75s, thorough 20m)")
	fN         = flag.Int("n", 0, "histories (C07) / base histories (C06); quick 400 / 150, thorough x10")
	fOut       = flag.String("out", "", "summary JSON file")
	fFocus     = flag.String("focus", "", "comma separated router function names to bias generation towards")
	fSkip      = flag.String("skip", "", "comma separated shape names to leave out")
	fShrink    = flag.Bool("shrink", true, "shrink the first failure of each signature")
	fCorpus    = flag.String("corpus", "", "directory of history *.json files, run first")
	fHistories = flag.String("histories", "", "worker: file of histories, one JSON per line")
	fHistory   = flag.String("history", "", "replay: history file")
	fTrace     = flag.Bool("trace", false, "worker: include the observation trace in results")
	fDeadline  = flag.Int64("deadline", 0, "worker: stop starting histories after this unix time (ns)")
)

func envSeed() uint64 {
	if v, err := strconv.ParseUint(os.Getenv("VERIF_SEED"), 10, 64); err == nil {
		return v
	}
	return 1
}

func splitList(s string) []string {
	var l []string
	for _, x := range strings.Split(s, ",") {
		if x = strings.TrimSpace(x); x != "" {
			l = append(l, x)
		}
	}
	return l
}

// TestDrive is the entry point; without -mode it does nothing.
func TestDrive(t *testing.T) {
	switch *fMode {
	case "":
		t.Skip("concdrive: no -mode given")
	case "gen":
		out := bufio.NewWriterSize(os.Stdout, 1<<20)
		for _, h := range generate(genOptions()) {
			out.Write(h.canonical())
			out.WriteByte('\n')
		}
		out.Flush()
		if f := flag.Lookup("test.cpuprofile"); f == nil || f.Value.String() == "" {
			os.Exit(0) // no "PASS" line after the histories
		}
	case "worker":
		worker(t)
	case "batch":
		os.Exit(batch())
	case "replay":
		os.Exit(replay())
	default:
		fmt.Fprintln(os.Stderr, "concdrive: unknown -mode", *fMode)
		os.Exit(2)
	}
}

func genOptions() *genOpts {
	o := &genOpts{prop: *fProp, seed: *fSeed, thorough: *fTier == "thorough", n: *fN, focus: splitList(*fFocus), skip: map[string]bool{}}
	for _, s := range splitList(*fSkip) {
		o.skip[s] = true
	}
	if o.n <= 0 {
		o.n = 400
		if o.prop == "C06" {
			o.n = 150
		}
		if o.thorough {
			o.n *= 10
		}
	}
	return o
}

func worker(t *testing.T) {
	runtime.GOMAXPROCS(*fProcs)
	f, err := os.Open(*fHistories)
	if err != nil {
		fmt.Fprintln(os.Stderr, "concdrive worker:", err)
		os.Exit(2)
	}
	defer f.Close()
	out := bufio.NewWriter(os.Stdout)
	sc := bufio.NewScanner(f)
	sc.Buffer(make([]byte, 1<<20), 1<<28)
	for sc.Scan() {
		if *fDeadline > 0 && time.Now().UnixNano() > *fDeadline {
			break
		}
		h, err := parseHistory(sc.Bytes())
		if err != nil {
			fmt.Fprintln(os.Stderr, "concdrive worker: bad history:", err)
			os.Exit(2)
		}
		fmt.Fprintf(out, "BEGIN %s\n", h.ID)
		out.Flush()
		var omu sync.Mutex
		stopWatch := watchWedge(h, func(res *Result) {
			// the bubble is wedged for good: report and leave; the parent starts
			// a new child for the remaining histories
			omu.Lock()
			fmt.Fprintf(out, "RESULT %s\n", mustJSON(res))
			out.Flush()
			os.Exit(4)
		})
		res := runHistory(t, h, *fTrace, func(p *Result) {
			omu.Lock()
			fmt.Fprintf(out, "PARTIAL %s\n", mustJSON(p))
			out.Flush()
			omu.Unlock()
		})
		stopWatch()
		omu.Lock()
		fmt.Fprintf(out, "RESULT %s\n", mustJSON(res))
		out.Flush()
		omu.Unlock()
	}
}

func batch() int {
	exe, err := os.Executable()
	if err != nil {
		exe = os.Args[0]
	}
	o := genOptions()
	cfg := &batchCfg{exe: exe, prop: o.prop, tier: *fTier, seed: o.seed, jobs: *fJobs, procs: *fProcs, budget: *fBudget,
		n: o.n, out: *fOut, focus: o.focus, skip: o.skip, shrink: *fShrink, corpus: *fCorpus, maxKeep: 50}
	if cfg.jobs < 1 {
		cfg.jobs = 1
	}
	if cfg.budget <= 0 {
		cfg.budget = 75 * time.Second
		if o.thorough {
			cfg.budget = 20 * time.Minute
		}
	}
	if fi, err := os.Stat(cfg.corpus); cfg.corpus != "" && (err != nil || !fi.IsDir()) {
		cfg.corpus = ""
	}
	sum := runBatch(cfg)
	b, _ := json.MarshalIndent(sum, "", " ")
	if cfg.out != "" {
		if err := os.WriteFile(cfg.out, b, 0o644); err != nil {
			fmt.Fprintln(os.Stderr, "concdrive:", err)
			return 2
		}
	}
	fmt.Println(string(b))
	return 0
}

func replay() int {
	b, err := os.ReadFile(*fHistory)
	if err != nil {
		fmt.Fprintln(os.Stderr, "concdrive replay:", err)
		return 2
	}
	h, err := parseHistory(b)
	if err != nil {
		fmt.Fprintln(os.Stderr, "concdrive replay:", err)
		return 2
	}
	if h.ID == "" {
		h.ID = "replay"
	}
	exe, err := os.Executable()
	if err != nil {
		exe = os.Args[0]
	}
	oc := runOne(exe, h, true, *fProcs)
	printReplay(h, oc)
	if oc.res != nil && oc.res.Pass {
		return 0
	}
	return 1
}

func printReplay(h *History, oc outcome) {
	fmt.Printf("=== history %s (prop %s, shape %s, seed %d)\n", h.ID, h.Prop, h.Shape, h.Seed)
	fmt.Printf("realms: %v\n", h.Realms)
	for i, s := range h.Sessions {
		fmt.Printf("  session %d: realm=%s q=%d wrap=%v raw=%v\n", i, s.Realm, s.Q, s.Wrap, s.Raw)
	}
	if y := h.YieldResume; y != nil {
		fmt.Printf("  scripted scenario: callee registers, caller (q=%d) calls, stops reading, its queue is filled; YIELD kind %q; the caller resumes %d us of virtual time after the YIELD was taken\n", y.Q, y.Kind, y.ResumeUs)
		if y.TimeoutMs > 0 {
			fmt.Printf("  the CALL carries a router-handled timeout of %d ms; the callee's final YIELD stops that timer, also while the RESULT is retried\n", y.TimeoutMs)
		}
		fmt.Printf("  model (coq/Conc/YieldRetry.v, prediction): retries at 1, 3, 7, ... ms after the YIELD; RESULT at the first retry instant >= resume instant, else cancel at 65 535 ms\n")
	}
	if c := h.ChunkStalled; c != nil {
		fmt.Printf("  scripted scenario: progressive call invocation; the callee (q=%d) reads the first chunk, stops reading, its queue is filled completely; the caller sends a further chunk (last: %v); 1 s later the callee reads again and answers with: %s\n", c.Q, c.Last, c.Answer)
	}
	if c := h.CancelStalled; c != nil {
		fmt.Printf("  scripted scenario: a callee (call_canceling, q=%d) holds a call, stops reading, its queue is filled (completely: %v); the caller CANCELs with mode %q, again 2 ms later; the callee reads again 1 s later\n", c.Q, c.Full, c.Mode)
		fmt.Printf("  model (coq/Conc/CancelModel.v, sync_cancel): kill waits for the callee only if the INTERRUPT was queued, else the caller is answered at once\n")
	}
	for i, o := range h.Ops {
		mark := ""
		if h.Close != nil && h.Close.Pos == i {
			mark = fmt.Sprintf("   <== %s(%s) before this op (in_burst=%v)", h.Close.Kind, h.Close.Realm, h.Close.InBurst)
		}
		fmt.Printf("  op %2d: %s%s\n", i, mustJSON(o), mark)
	}
	if h.Close != nil && h.Close.Pos >= len(h.Ops) {
		fmt.Printf("  end   : <== %s(%s) (in_burst=%v); then %d h of virtual time\n", h.Close.Kind, h.Close.Realm, h.Close.InBurst, h.AfterCloseHours)
	}
	res := oc.res
	if res == nil {
		fmt.Println("=== no result from the child")
		return
	}
	if tr := res.Trace; tr != nil {
		fmt.Println("=== execution (virtual ms)")
		for _, o := range tr.Ops {
			fmt.Printf("  [%8d] op %2d %s accepted=%d %s\n", o.StartMs, o.I, o.Op, o.AcceptMs, o.Note)
		}
		if h.Close != nil {
			fmt.Printf("  close: started at %d ms, returned at %d ms (-1: never); in flight then: %v\n", tr.CloseStart, tr.CloseRet, tr.CloseCtx)
		}
		fmt.Println("=== observed per session")
		for _, s := range tr.Sessions {
			fmt.Printf("  session %d (realm %s, q %d): recv channel closed at %d ms, router Close() calls %d, end=%q, attach_err=%q, max buffered while stalled %d\n",
				s.Idx, s.Realm, s.Q, s.ClosedAtMs, s.RouterCls, s.Gone, s.AttachErr, s.MaxBuf)
			for _, m := range s.Msgs {
				fmt.Printf("      [%8d] %-12s req=%d %s\n", m.T, m.Type, m.Req, m.Info)
			}
		}
		fmt.Println("=== expected vs observed")
		for _, e := range tr.Expect {
			fmt.Println("  " + e)
		}
		if len(tr.Oracles) > 0 {
			fmt.Println("=== oracles: expectation vs observation")
			for _, o := range tr.Oracles {
				fmt.Println("  " + o)
			}
		}
		fmt.Printf("=== goroutines left after shutdown: %v\n", tr.Left)
		for _, n := range tr.Notes {
			fmt.Println("  note:", n)
		}
		if tr.Dump != "" {
			fmt.Println("=== router goroutines blocked at the first violation")
			fmt.Println(tr.Dump)
		}
	}
	fmt.Printf("=== non-trivial: %v %v; yield-retry exception used %d time(s); sessions stalled with a full queue: %d\n",
		res.Nontrivial, res.Why, res.ExceptionUsed, res.StalledFull)
	if res.Pass {
		fmt.Println("=== VERDICT: pass")
		return
	}
	for _, f := range res.Failures {
		fmt.Printf("=== FAIL oracle=%s signature=%s\n    %s\n", f.Oracle, f.Signature, f.Detail)
	}
	if oc.stderr != "" {
		fmt.Println("=== child stderr (tail)")
		fmt.Println(oc.stderr)
	}
	fmt.Println("=== VERDICT: fail")
}
