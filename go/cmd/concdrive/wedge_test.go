package concdrive

import (
	"fmt"
	"sort"
	"strings"
	"time"
)

// A goroutine that waits for a sync.Mutex is not "durably blocked" for
// testing/synctest: the bubble never becomes idle, its clock stops, and none of
// the virtual-time oracles can fire.  A router goroutine that waits for a
// mutex for seconds of REAL time while nothing else runs is a wedge (e.g. the
// broker locking a session it already holds).  This watchdog lives outside the
// bubble, on the real clock: every second it takes a goroutine dump; a
// goroutine of router/transport code that sits in sync.Mutex.Lock in three
// consecutive dumps makes the history fail with oracle "wedge" and signature
// wedge@<functions waiting for the mutex>.
const wedgeTick = time.Second

func mutexWaiters(dump string) map[string]string {
	res := map[string]string{}
	for _, g := range parseStacks(dump) {
		if g.bubble == "" || !(strings.HasPrefix(g.state, "sync.Mutex.Lock") || strings.HasPrefix(g.state, "sync.RWMutex") || strings.HasPrefix(g.state, "semacquire")) {
			continue
		}
		if top, _, harness := g.topNexus(); top != "" && !harness {
			res[g.id] = top + "\x00" + g.raw
		}
	}
	return res
}

// watchWedge starts the watchdog for one history; the returned function stops it.
func watchWedge(h *History, report func(*Result)) func() {
	stop := make(chan struct{})
	go func() {
		tk := time.NewTicker(wedgeTick)
		defer tk.Stop()
		seen := map[string]int{}
		for {
			select {
			case <-stop:
				return
			case <-tk.C:
			}
			now := mutexWaiters(allStacks())
			for id := range seen {
				if _, ok := now[id]; !ok {
					delete(seen, id)
				}
			}
			set := map[string]bool{}
			var raws []string
			for id, v := range now {
				seen[id]++
				if seen[id] >= 3 {
					top, raw, _ := strings.Cut(v, "\x00")
					set[top] = true
					raws = append(raws, raw)
				}
			}
			if len(set) == 0 {
				continue
			}
			select {
			case <-stop:
				return
			default:
			}
			var l []string
			for f := range set {
				l = append(l, f)
			}
			sort.Strings(l)
			res := &Result{ID: h.ID, Prop: h.Prop, Hash: h.contentHash(), OpsByKind: map[string]int{}, Nontrivial: true,
				Why: []string{"router-goroutine-waits-for-a-mutex"},
				Failures: []Failure{{"wedge", "wedge@" + strings.Join(l, ","),
					fmt.Sprintf("a router goroutine has been waiting for a sync.Mutex for %v of real time while the bubble made no progress (a mutex wait stops the bubble's clock, so no virtual-time oracle can fire): %s", 3*wedgeTick, strings.Join(l, ", "))}},
				Trace: &Trace{Dump: strings.Join(raws, "\n\n"), Notes: []string{"history abandoned by the real-clock watchdog"}}}
			report(res)
			return
		}
	}()
	return func() { close(stop) }
}
