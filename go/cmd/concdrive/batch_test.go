package concdrive

import (
	"bufio"
	"bytes"
	"encoding/json"
	"fmt"
	"os"
	"os/exec"
	"path/filepath"
	"sort"
	"strings"
	"sync"
	"syscall"
	"time"
)

const watchdog = 20 * time.Second

// FailRec is one failing history in the summary.
type FailRec struct {
	ID         string   `json:"id"`
	History    *History `json:"history"`
	Oracle     string   `json:"oracle"`
	Signature  string   `json:"signature"`
	Detail     string   `json:"detail"`
	StderrTail string   `json:"stderr_tail"`
	Also       []string `json:"also,omitempty"` // further signatures of the same history
	Shrunk     bool     `json:"shrunk,omitempty"`
	Original   string   `json:"original_id,omitempty"`
}

// Distribution describes the inputs that were executed.
type Distribution struct {
	OpsByKind      map[string]int `json:"ops_by_kind"`
	SessionsHist   map[string]int `json:"sessions_hist"`
	QueueSizes     map[string]int `json:"queue_sizes"`
	StalledSess    int            `json:"stalled_sessions"`
	ClosePositions int            `json:"close_positions"`
	Bursts         int            `json:"bursts"`
	Shapes         map[string]int `json:"shapes"`
	ExceptionUsed  int            `json:"exception_used"`
	SkippedOps     int            `json:"skipped_ops"`
	NontrivialWhy  map[string]int `json:"nontrivial_why"`
}

// Summary is what -mode=batch writes to -out.
type Summary struct {
	Prop          string         `json:"prop"`
	Tier          string         `json:"tier"`
	Seed          uint64         `json:"seed"`
	Generated     int            `json:"generated"`
	Evaluations   int            `json:"evaluations"`
	DistinctNT    int            `json:"distinct_nontrivial"`
	Rule          string         `json:"rule"`
	Samples       []*History     `json:"samples"`
	Dist          Distribution   `json:"distribution"`
	Failures      []FailRec      `json:"failures"`
	Signatures    map[string]int `json:"signatures"`
	FailingHist   int            `json:"failing_histories"`
	Restarts      int            `json:"child_restarts"`
	WallS         float64        `json:"wall_s"`
	PerSecond     float64        `json:"histories_per_s"`
	YieldResume   []yrRow        `json:"yield_resume"`
	CancelStalled []csRow        `json:"cancel_stalled"`
}

const (
	ruleC07 = "C07: at a quiescent point at least one session was stalled with a full router->client queue and, while it stayed full, at least one other session received a reply, event or invocation"
	ruleC06 = "C06: when Close/RemoveRealm was invoked at least one of {pending call, armed call timer, handshake in flight, queued burst op, stalled session, meta call in flight, message held in a handler} existed"
)

type outcome struct {
	h      *History
	res    *Result
	stderr string
}

// childRun runs the histories in child processes (restarting after a crash)
// and reports one outcome per executed history.
type childRun struct {
	exe      string
	trace    bool
	procs    int
	deadline time.Time
	restarts int
	tailN    int // bytes of child stderr kept (default 8000)
	mu       sync.Mutex
}

func tail(s string, n int) string {
	if len(s) > n {
		return "..." + s[len(s)-n:]
	}
	return s
}

func (c *childRun) run(hs []*History, emit func(outcome)) {
	rest := hs
	for len(rest) > 0 {
		if !c.deadline.IsZero() && time.Now().After(c.deadline) {
			return
		}
		done, crashed := c.once(rest, emit)
		rest = rest[done:]
		if !crashed {
			// worker stopped early only because of the deadline
			return
		}
		c.mu.Lock()
		c.restarts++
		c.mu.Unlock()
	}
}

// once starts one child for hs; it returns how many histories were consumed
// and whether the child died on the last of them.
func (c *childRun) once(hs []*History, emit func(outcome)) (int, bool) {
	f, err := os.CreateTemp("", "concdrive-*.jsonl")
	if err != nil {
		panic(err)
	}
	defer os.Remove(f.Name())
	w := bufio.NewWriter(f)
	for _, h := range hs {
		w.Write(h.canonical())
		w.WriteByte('\n')
	}
	w.Flush()
	f.Close()
	args := []string{"-test.run", "^TestDrive$", "-test.timeout", "0", "-mode=worker", "-histories=" + f.Name(),
		fmt.Sprintf("-trace=%v", c.trace), fmt.Sprintf("-procs=%d", c.procs)}
	if !c.deadline.IsZero() {
		args = append(args, fmt.Sprintf("-deadline=%d", c.deadline.UnixNano()))
	}
	cmd := exec.Command(c.exe, args...)
	var stderr bytes.Buffer
	cmd.Stderr = &stderr
	stdout, err := cmd.StdoutPipe()
	if err != nil {
		panic(err)
	}
	if err := cmd.Start(); err != nil {
		panic(err)
	}
	var mu sync.Mutex
	last := time.Now()
	killed := false
	stop := make(chan struct{})
	go func() {
		tk := time.NewTicker(250 * time.Millisecond)
		defer tk.Stop()
		for {
			select {
			case <-stop:
				return
			case <-tk.C:
				mu.Lock()
				if time.Since(last) > watchdog && !killed {
					killed = true
					_ = cmd.Process.Signal(syscall.SIGQUIT)
					time.AfterFunc(2*time.Second, func() { _ = cmd.Process.Kill() })
				}
				mu.Unlock()
			}
		}
	}()
	done := 0
	var cur *History
	var partial *Result
	sc := bufio.NewScanner(stdout)
	sc.Buffer(make([]byte, 1<<20), 1<<28)
	for sc.Scan() {
		line := sc.Text()
		mu.Lock()
		last = time.Now()
		mu.Unlock()
		switch {
		case strings.HasPrefix(line, "BEGIN "):
			if done < len(hs) {
				cur = hs[done]
			}
			partial = nil
		case strings.HasPrefix(line, "PARTIAL "):
			var r Result
			if json.Unmarshal([]byte(line[8:]), &r) == nil {
				partial = &r
			}
		case strings.HasPrefix(line, "RESULT "):
			var r Result
			if err := json.Unmarshal([]byte(line[7:]), &r); err == nil && cur != nil {
				emit(outcome{h: cur, res: &r})
			}
			done++
			cur = nil
		}
	}
	err = cmd.Wait()
	close(stop)
	if cur == nil {
		if err != nil && done < len(hs) && (c.deadline.IsZero() || time.Now().Before(c.deadline)) {
			// died between two histories: nothing to attribute it to
			if done == 0 {
				emit(outcome{h: hs[0], res: &Result{ID: hs[0].ID, Prop: hs[0].Prop, Hash: hs[0].contentHash(), OpsByKind: map[string]int{},
					Failures: []Failure{{"harness-error", "harness-error", "child died before its first history: " + fmt.Sprint(err)}}}, stderr: tail(stderr.String(), 4000)})
				return 1, true
			}
			return done, true
		}
		return done, false
	}
	// the child died while running cur
	mu.Lock()
	k := killed
	mu.Unlock()
	es := stderr.String()
	res := partial
	if res == nil {
		res = &Result{ID: cur.ID, Prop: cur.Prop, Hash: cur.contentHash(), OpsByKind: map[string]int{}}
	}
	res.Pass = false
	if k {
		res.Failures = append(res.Failures, Failure{"harness-timeout", "harness-timeout",
			fmt.Sprintf("no progress for %v of real time (a goroutine blocked on a mutex stops the bubble's clock); child killed", watchdog)})
	} else {
		sig := panicSignature("", es)
		det := "child exited: " + fmt.Sprint(err)
		if m := panicLine.FindString(es); m != "" {
			det = m
		}
		res.Failures = append(res.Failures, Failure{"panic", sig, det})
	}
	n := c.tailN
	if n <= 0 {
		n = 8000
	}
	emit(outcome{h: cur, res: res, stderr: tail(es, n)})
	return done + 1, true
}

type batchCfg struct {
	exe     string
	prop    string
	tier    string
	seed    uint64
	jobs    int
	procs   int
	budget  time.Duration
	n       int
	out     string
	focus   []string
	skip    map[string]bool
	shrink  bool
	corpus  string
	maxKeep int
	// no shrink re-run is started after this instant
	shrinkUntil time.Time
}

func loadCorpus(dir, prop string) []*History {
	var out []*History
	files, _ := filepath.Glob(filepath.Join(dir, "*.json"))
	sort.Strings(files)
	for _, f := range files {
		b, err := os.ReadFile(f)
		if err != nil {
			continue
		}
		h, err := parseHistory(b)
		if err != nil || h.Prop != prop {
			continue
		}
		if h.ID == "" {
			h.ID = "corpus-" + strings.TrimSuffix(filepath.Base(f), ".json")
		}
		out = append(out, h)
	}
	return out
}

func runBatch(cfg *batchCfg) *Summary {
	t0 := time.Now()
	o := &genOpts{prop: cfg.prop, seed: cfg.seed, thorough: cfg.tier == "thorough", n: cfg.n, focus: cfg.focus, skip: cfg.skip}
	var hs []*History
	if cfg.corpus != "" {
		hs = append(hs, loadCorpus(cfg.corpus, cfg.prop)...)
	}
	hs = append(hs, generate(o)...)
	sum := &Summary{Prop: cfg.prop, Tier: cfg.tier, Seed: cfg.seed, Generated: len(hs), Signatures: map[string]int{},
		Dist: Distribution{OpsByKind: map[string]int{}, SessionsHist: map[string]int{}, QueueSizes: map[string]int{},
			Shapes: map[string]int{}, NontrivialWhy: map[string]int{}}}
	sum.Rule = ruleC07
	if cfg.prop == "C06" {
		sum.Rule = ruleC06
	}
	// round-robin chunks so that every child sees the same mix
	chunks := make([][]*History, cfg.jobs)
	for i, h := range hs {
		chunks[i%cfg.jobs] = append(chunks[i%cfg.jobs], h)
	}
	// the budget covers execution; generation (deterministic, fast) is before
	cr := &childRun{exe: cfg.exe, procs: cfg.procs, deadline: time.Now().Add(cfg.budget)}
	var mu sync.Mutex
	nt := map[string]bool{}
	perSig := map[string]int{}
	closePos := map[int]bool{}
	var fails []outcome
	emit := func(oc outcome) {
		mu.Lock()
		defer mu.Unlock()
		sum.Evaluations++
		h, res := oc.h, oc.res
		if res.CancelStalled != nil {
			sum.CancelStalled = append(sum.CancelStalled, *res.CancelStalled)
		}
		if res.YieldResume != nil {
			sum.YieldResume = append(sum.YieldResume, *res.YieldResume)
		}
		if res.Nontrivial {
			nt[h.contentHash()] = true
			for _, w := range res.Why {
				sum.Dist.NontrivialWhy[w]++
			}
		}
		for k, v := range res.OpsByKind {
			sum.Dist.OpsByKind[k] += v
		}
		nSess := len(h.Sessions)
		stalled := map[int]bool{}
		flatOps(h.Ops, func(x *Op, _ bool) {
			switch x.Op {
			case "join", "hello_goodbye":
				nSess++
				sum.Dist.QueueSizes[fmt.Sprint(x.Q)]++
			case "stall":
				stalled[x.S] = true
			}
		})
		for _, x := range h.Ops {
			if x.Op == "burst" {
				sum.Dist.Bursts++
			}
		}
		for _, s := range h.Sessions {
			sum.Dist.QueueSizes[fmt.Sprint(s.Q)]++
		}
		sum.Dist.SessionsHist[fmt.Sprint(nSess)]++
		sum.Dist.StalledSess += len(stalled)
		sum.Dist.Shapes[h.Shape]++
		sum.Dist.ExceptionUsed += res.ExceptionUsed
		sum.Dist.SkippedOps += res.Skipped
		if h.Close != nil {
			closePos[h.Close.Pos] = true
			sum.Dist.ClosePositions++
		}
		if len(sum.Samples) < 4 && (res.Nontrivial || sum.Evaluations > 50) {
			sum.Samples = append(sum.Samples, h)
		}
		if !res.Pass {
			sum.FailingHist++
			for _, f := range res.Failures {
				sum.Signatures[f.Signature]++
			}
			p := res.Failures[0].Signature
			if perSig[p] < 5 && len(fails) < cfg.maxKeep {
				perSig[p]++
				fails = append(fails, oc)
			}
		}
	}
	var wg sync.WaitGroup
	for _, ch := range chunks {
		if len(ch) == 0 {
			continue
		}
		wg.Add(1)
		go func(ch []*History) {
			defer wg.Done()
			cr.run(ch, emit)
		}(ch)
	}
	wg.Wait()
	sum.DistinctNT = len(nt)
	sum.Restarts = cr.restarts
	// failures, the first of each signature shrunk
	sort.SliceStable(fails, func(i, j int) bool { return fails[i].h.ID < fails[j].h.ID })
	cfg.shrinkUntil = time.Now().Add(25 * time.Second)
	if cfg.tier == "thorough" {
		cfg.shrinkUntil = time.Now().Add(4 * time.Minute)
	}
	seen := map[string]bool{}
	var swg sync.WaitGroup
	recs := make([]FailRec, len(fails))
	sem := make(chan struct{}, cfg.jobs)
	for i, oc := range fails {
		f := oc.res.Failures[0]
		rec := FailRec{ID: oc.h.ID, History: oc.h, Oracle: f.Oracle, Signature: f.Signature, Detail: f.Detail, StderrTail: oc.stderr}
		for _, x := range oc.res.Failures[1:] {
			rec.Also = append(rec.Also, x.Signature)
		}
		recs[i] = rec
		if cfg.shrink && !seen[f.Signature] && f.Oracle != "harness-timeout" {
			seen[f.Signature] = true
			swg.Add(1)
			go func(i int, h *History, sig string) {
				defer swg.Done()
				sem <- struct{}{}
				defer func() { <-sem }()
				if sh, oc2 := shrinkHistory(cfg, h, sig); sh != nil {
					recs[i].Original = h.ID
					recs[i].History = sh
					recs[i].Shrunk = true
					for _, x := range oc2.res.Failures {
						if x.Signature == sig {
							recs[i].Detail = x.Detail
						}
					}
					if oc2.stderr != "" {
						recs[i].StderrTail = oc2.stderr
					}
				}
			}(i, oc.h, f.Signature)
		}
	}
	swg.Wait()
	sum.Failures = recs
	if sum.Failures == nil {
		sum.Failures = []FailRec{}
	}
	if sum.Samples == nil {
		sum.Samples = []*History{}
	}
	sum.WallS = time.Since(t0).Seconds()
	if sum.WallS > 0 {
		sum.PerSecond = float64(sum.Evaluations) / sum.WallS
	}
	return sum
}

// runOne executes a single history in a child and returns its outcome.
func runOne(exe string, h *History, trace bool, procs int) outcome {
	cr := &childRun{exe: exe, trace: trace, procs: procs}
	if trace {
		cr.tailN = 400000 // replay: the whole dump
	}
	var got outcome
	cr.run([]*History{h}, func(oc outcome) { got = oc })
	return got
}

func hasSig(oc outcome, sig string) bool {
	if oc.res == nil {
		return false
	}
	for _, f := range oc.res.Failures {
		if f.Signature == sig {
			return true
		}
	}
	return false
}

// dropOp returns a copy of h without top-level op i (j<0) or without op j of
// burst i; nil if that is not possible.
func dropOp(h *History, i, j int) *History {
	c := h.clone()
	if j >= 0 {
		b := c.Ops[i].Ops
		if len(b) <= 1 {
			return nil
		}
		c.Ops[i].Ops = append(append([]Op{}, b[:j]...), b[j+1:]...)
		return c
	}
	// dropping an op that adds a session would renumber the later ones
	bad := false
	if c.Ops[i].Op == "join" || c.Ops[i].Op == "hello_goodbye" {
		bad = true
	}
	for _, x := range c.Ops[i].Ops {
		if x.Op == "join" || x.Op == "hello_goodbye" {
			bad = true
		}
	}
	if bad {
		// fine only if no later op addresses a joined session; keep simple
		return nil
	}
	if c.Close != nil {
		if i < c.Close.Pos {
			c.Close.Pos--
		} else if i == c.Close.Pos && c.Close.InBurst {
			return nil
		}
	}
	c.Ops = append(append([]Op{}, c.Ops[:i]...), c.Ops[i+1:]...)
	return c
}

// dropSession removes initial session s and renumbers.
func dropSession(h *History, s int) *History {
	if len(h.Sessions) <= 1 {
		return nil
	}
	c := h.clone()
	c.Sessions = append(append([]SessionSpec{}, c.Sessions[:s]...), c.Sessions[s+1:]...)
	fix := func(ops []Op) []Op {
		var out []Op
		for _, x := range ops {
			if usesSession(x.Op) {
				if x.S == s {
					continue
				}
				if x.S > s {
					x.S--
				}
			}
			if x.Op == "kill" {
				if x.Target == s {
					continue
				}
				if x.Target > s {
					x.Target--
				}
			}
			if strings.HasPrefix(x.HoldUntil, "closed:") {
				var k int
				fmt.Sscanf(x.HoldUntil, "closed:%d", &k)
				if k == s {
					continue
				}
				if k > s {
					x.HoldUntil = fmt.Sprintf("closed:%d", k-1)
				}
			}
			out = append(out, x)
		}
		return out
	}
	var top []Op
	pos := -1
	if c.Close != nil {
		pos = c.Close.Pos
	}
	newPos := pos
	for i, x := range c.Ops {
		if x.Op == "burst" {
			x.Ops = fix(x.Ops)
			if len(x.Ops) == 0 {
				if i == pos && c.Close.InBurst {
					return nil
				}
				if i < pos {
					newPos--
				}
				continue
			}
			top = append(top, x)
			continue
		}
		if f := fix([]Op{x}); len(f) == 1 {
			top = append(top, f[0])
		} else {
			if i == pos && c.Close.InBurst {
				return nil
			}
			if i < pos {
				newPos--
			}
		}
	}
	c.Ops = top
	if c.Close != nil {
		c.Close.Pos = newPos
	}
	return c
}

// shrinkHistory greedily drops sessions and ops while the same signature
// reproduces in a child; at most ~40 re-runs.
func shrinkHistory(cfg *batchCfg, h *History, sig string) (*History, outcome) {
	budget := 40
	cur := h
	var curOC outcome
	improved := false
	try := func(c *History) bool {
		if c == nil || budget <= 0 || time.Now().After(cfg.shrinkUntil) {
			return false
		}
		budget--
		c.ID = h.ID + "-min"
		oc := runOne(cfg.exe, c, false, cfg.procs)
		if hasSig(oc, sig) {
			cur, curOC, improved = c, oc, true
			return true
		}
		return false
	}
	for pass := 0; pass < 3 && budget > 0; pass++ {
		changed := false
		for s := len(cur.Sessions) - 1; s >= 0 && budget > 0; s-- {
			if try(dropSession(cur, s)) {
				changed = true
			}
		}
		for i := len(cur.Ops) - 1; i >= 0 && budget > 0; i-- {
			if i >= len(cur.Ops) {
				continue
			}
			if try(dropOp(cur, i, -1)) {
				changed = true
				continue
			}
			if cur.Ops[i].Op == "burst" {
				for j := len(cur.Ops[i].Ops) - 1; j >= 0 && budget > 0; j-- {
					if i < len(cur.Ops) && j < len(cur.Ops[i].Ops) && try(dropOp(cur, i, j)) {
						changed = true
					}
				}
			}
		}
		if !changed {
			break
		}
	}
	if !improved {
		return nil, outcome{}
	}
	return cur, curOC
}
