package concdrive

import (
	"fmt"
	"strings"
	"sync"
	"testing/synctest"
	"time"

	"github.com/gammazero/nexus/v3/router"
	"github.com/gammazero/nexus/v3/wamp"
)

// root is the bubble's root function.
func (r *runner) root() {
	defer func() {
		if e := recover(); e != nil {
			r.fail("harness-error", "harness-error", fmt.Sprintf("root: %v", e))
			r.stopHarness()
		}
	}()
	r.t0 = time.Now()
	r.bubble = currentBubble()
	cfg := &router.Config{}
	if r.h.MemStats {
		cfg.MemStatsLogSec = 3600
	}
	if r.h.Template {
		cfg.RealmTemplate = r.realmConfig("")
	}
	for _, u := range r.h.Realms {
		cfg.RealmConfigs = append(cfg.RealmConfigs, r.realmConfig(u))
		r.realms[u] = true
	}
	rtr, err := router.NewRouter(cfg, r.lg)
	if err != nil {
		r.fail("harness-error", "harness-error", "NewRouter: "+err.Error())
		return
	}
	r.rtr = rtr
	if r.h.YieldResume != nil {
		r.rootYieldResume()
		r.endAt = r.now()
		return
	}
	if r.h.ChunkStalled != nil {
		r.rootChunkStalled()
		r.endAt = r.now()
		return
	}
	if r.h.CancelStalled != nil {
		r.rootCancelStalled()
		r.endAt = r.now()
		return
	}
	for _, sp := range r.h.Sessions {
		r.newSession(sp, false, nil)
	}
	synctest.Wait()
	if r.anyGated() {
		time.Sleep(gateOpenAfter)
		synctest.Wait()
	}
	r.check(false)

	ops := r.h.Ops
	cl := r.h.Close
	for i := 0; i <= len(ops); i++ {
		if r.aborted() {
			break
		}
		if cl != nil && cl.Pos == i && !r.closing {
			var with []Op
			if cl.InBurst && i < len(ops) {
				with = []Op{ops[i]}
				if ops[i].Op == "burst" {
					with = ops[i].Ops
				}
			}
			r.doClose(cl, i, with)
			if cl.Kind == "Close" {
				break
			}
			if cl.InBurst {
				continue
			}
		}
		if i == len(ops) {
			break
		}
		r.step(i, &ops[i])
	}
	if r.h.Prop == "C06" {
		r.finishC06()
	} else {
		r.finishC07()
	}
	r.endAt = r.now()
}

func (r *runner) aborted() bool {
	r.mu.Lock()
	defer r.mu.Unlock()
	return r.abort
}

func (r *runner) anyGated() bool {
	for _, s := range r.sess {
		if s.rp.gate && !s.welcome {
			return true
		}
	}
	return false
}

// step executes one top-level op, waits for quiescence and checks.
func (r *runner) step(i int, op *Op) {
	if op.Op == "burst" {
		r.opsByKind["burst"]++
		start := make(chan struct{})
		r.beginBurst(op.Ops)
		for j := range op.Ops {
			r.execOp(i, &op.Ops[j], start)
		}
		close(start)
		synctest.Wait()
		r.endBurst()
	} else {
		r.execOp(i, op, nil)
		synctest.Wait()
	}
	r.check(false)
	if r.strict && !r.aborted() {
		r.probe()
	}
	time.Sleep(stepGap)
	synctest.Wait()
}

func (r *runner) beginBurst(ops []Op) {
	r.burstLoad.Store(0)
	// Handshakes may overlap only when no RESULT retry can be in progress:
	// C06, nobody stalled now or during the last 66 s, no call in the burst.
	safe := !r.strict
	r.mu.Lock()
	for _, s := range r.sess {
		if s.stalled && s.gone == "" {
			r.lastStalled = r.now()
		}
		if !s.attachRet {
			// a handshake still in flight (in its WELCOME gate) keeps
			// realm.close waiting with the close lock held
			safe = false
		}
	}
	if r.lastStalled >= 0 && r.now()-r.lastStalled <= yieldRetryMax {
		safe = false
	}
	r.mu.Unlock()
	for _, o := range ops {
		switch o.Op {
		case "call", "metacall", "kill", "yield", "cancel":
			safe = false
		case "hello_goodbye":
			// A gated handshake keeps realm.close waiting (close lock held)
			// for up to 1 s of virtual time: nobody may queue on that mutex.
			safe = false
		case "join":
			if o.Wrap {
				safe = false
			}
		}
	}
	r.concurrentJoins = safe
	for _, o := range ops {
		n := 1
		if o.Repeat > 1 {
			n = o.Repeat
		}
		r.burstLoad.Add(int64(3 * n))
		switch o.Op {
		case "leave", "drop", "stall", "resume", "unsubscribe", "unregister":
			r.unstable[o.S] = true
		case "kill":
			r.unstable[o.Target] = true
		case "removerealm":
			for _, s := range r.sess {
				if s.spec.Realm == o.Realm {
					r.unstable[s.idx] = true
				}
			}
		}
	}
}

func (r *runner) endBurst() {
	r.concurrentJoins = false
	r.burstLoad.Store(0)
	r.unstable = map[int]bool{}
}

// strictFor tells whether replies owed to s can be demanded: with a small
// queue several messages arriving at the same instant may legitimately
// overflow before the drainer goroutine gets to run.
func (r *runner) strictFor(s *sess) bool {
	if !r.strict || s.transient || r.unstable[s.idx] {
		return false
	}
	load := 1
	if s.metaSub {
		load = 4
	}
	if bl := int(r.burstLoad.Load()); bl > 0 {
		load = bl
	}
	return s.spec.Q >= load
}

// live returns the session an op addresses, or nil when it cannot act.
func (r *runner) live(idx int) *sess {
	if idx < 0 || idx >= len(r.sess) {
		return nil
	}
	s := r.sess[idx]
	r.mu.Lock()
	defer r.mu.Unlock()
	if !s.welcome || s.gone != "" || s.leaving || s.dropped || s.held || s.transient || !r.realms[s.spec.Realm] {
		return nil
	}
	return s
}

// request queues a request message of session s and registers the reply
// expectation.
func (r *runner) request(s *sess, ot *opTrace, gate chan struct{}, desc string, reply bool, mk func(req wamp.ID) wamp.Message) (*outItem, *expect) {
	return r.requestPre(s, ot, gate, desc, reply, mk, nil)
}

// requestPre: pre runs (with r.mu held) after the expectation exists and
// before the message can reach the router, so that whatever the router sends
// back finds the bookkeeping in place.
func (r *runner) requestPre(s *sess, ot *opTrace, gate chan struct{}, desc string, reply bool, mk func(req wamp.ID) wamp.Message, pre func(it *outItem, e *expect)) (*outItem, *expect) {
	r.mu.Lock()
	req := s.nextReq
	s.nextReq++
	r.mu.Unlock()
	it := &outItem{msg: mk(req), desc: desc, gate: gate, opTr: ot}
	var e *expect
	r.mu.Lock()
	if reply {
		e = &expect{s: s, kind: "reply", desc: fmt.Sprintf("reply to %s (req %d)", desc, req), item: it,
			strict: r.strictFor(s), epoch: s.epoch}
		if s.stalled {
			e.void = "session stalled"
		}
		s.exps[req] = e
		r.exps = append(r.exps, e)
	}
	if pre != nil {
		pre(it, e)
	}
	r.mu.Unlock()
	s.push(it)
	return it, e
}

func (r *runner) skip(ot *opTrace, why string) {
	ot.Note = "skipped: " + why
	r.skipped++
}

// execOp performs one op; gate != nil inside a burst (the effect is released
// when gate is closed).
func (r *runner) execOp(i int, op *Op, gate chan struct{}) {
	r.opsByKind[op.Op]++
	r.opTr = append(r.opTr, opTrace{I: i, Op: string(mustJSON(op)), StartMs: ms(r.now()), AcceptMs: -1})
	ot := &r.opTr[len(r.opTr)-1]
	var s *sess
	if usesSession(op.Op) {
		if s = r.live(op.S); s == nil {
			if op.Op == "resume" || op.Op == "stall" {
				if op.S >= 0 && op.S < len(r.sess) {
					s = r.sess[op.S]
				}
			}
			if s == nil {
				r.skip(ot, "session not able to act")
				return
			}
		}
	}
	switch op.Op {
	case "subscribe":
		if strings.HasPrefix(op.Topic, "wamp.") {
			s.metaSub = true
		}
		r.requestPre(s, ot, gate, "SUBSCRIBE "+op.Topic, true, func(req wamp.ID) wamp.Message {
			return &wamp.Subscribe{Request: req, Options: wamp.Dict{}, Topic: wamp.URI(op.Topic)}
		}, func(_ *outItem, e *expect) { e.topic = op.Topic })
	case "unsubscribe":
		r.mu.Lock()
		id, ok := r.subMap(s.spec.Realm, op.Topic)[s.idx]
		delete(r.subMap(s.spec.Realm, op.Topic), s.idx)
		r.mu.Unlock()
		if !ok {
			r.skip(ot, "not subscribed")
			return
		}
		r.request(s, ot, gate, "UNSUBSCRIBE "+op.Topic, true, func(req wamp.ID) wamp.Message {
			r.mu.Lock()
			s.undone["t:"+op.Topic] = req
			r.mu.Unlock()
			return &wamp.Unsubscribe{Request: req, Subscription: id}
		})
	case "publish":
		r.publish(s, ot, gate, op)
	case "register":
		r.mu.Lock()
		r.everReg[s.spec.Realm+"|"+op.Proc] = append(r.everReg[s.spec.Realm+"|"+op.Proc], s)
		r.mu.Unlock()
		if s.stalled {
			// its REGISTERED will not be read: remember the callee anyway
			r.mu.Lock()
			if _, ok := r.regMap(s.spec.Realm)[op.Proc]; !ok {
				r.regMap(s.spec.Realm)[op.Proc] = s
			}
			r.mu.Unlock()
		}
		r.requestPre(s, ot, gate, "REGISTER "+op.Proc, true, func(req wamp.ID) wamp.Message {
			return &wamp.Register{Request: req, Options: wamp.Dict{}, Procedure: wamp.URI(op.Proc)}
		}, func(_ *outItem, e *expect) { e.proc = op.Proc })
	case "unregister":
		r.mu.Lock()
		id, ok := r.regIDs[s.idx][op.Proc]
		if ok {
			delete(r.regIDs[s.idx], op.Proc)
			delete(r.regMap(s.spec.Realm), op.Proc)
		}
		r.mu.Unlock()
		if !ok {
			r.skip(ot, "not registered")
			return
		}
		r.request(s, ot, gate, "UNREGISTER "+op.Proc, true, func(req wamp.ID) wamp.Message {
			r.mu.Lock()
			s.undone["p:"+op.Proc] = req
			r.mu.Unlock()
			return &wamp.Unregister{Request: req, Registration: id}
		})
	case "call":
		r.call(s, ot, gate, op.Proc, op, nil)
	case "metacall":
		var args wamp.List
		if op.Proc == "wamp.session.get" {
			args = wamp.List{s.sid}
		}
		r.call(s, ot, gate, op.Proc, nil, args)
	case "kill":
		if op.Target < 0 || op.Target >= len(r.sess) || op.Target == op.S || !r.sess[op.Target].welcome {
			r.skip(ot, "no such target")
			return
		}
		tg := r.sess[op.Target]
		r.mu.Lock()
		if tg.gone == "" && tg.spec.Realm == s.spec.Realm {
			tg.expGone = "killed"
			tg.leaving = true
			r.forget(tg)
		}
		r.mu.Unlock()
		r.call(s, ot, gate, "wamp.session.kill", nil, wamp.List{tg.sid})
	case "yield":
		r.mu.Lock()
		var c *callRec
		if len(s.heldInv) > 0 {
			c = s.heldInv[0]
			s.heldInv = s.heldInv[1:]
			s.yieldLocked(c)
			c.yielded.gate = gate
			c.yielded.opTr = ot
		}
		r.mu.Unlock()
		if c == nil {
			r.skip(ot, "no held invocation")
			return
		}
		select {
		case s.outSig <- struct{}{}:
		default:
		}
	case "cancel":
		r.mu.Lock()
		var c *callRec
		for _, x := range s.calls {
			if !x.exp.got && x.cancel == nil && !x.meta {
				c = x
				break
			}
		}
		r.mu.Unlock()
		if c == nil {
			// also allow cancelling a meta call (the stalled-metacall shapes)
			r.mu.Lock()
			for _, x := range s.calls {
				if !x.exp.got && x.cancel == nil {
					c = x
					break
				}
			}
			r.mu.Unlock()
		}
		if c == nil {
			r.skip(ot, "no pending call")
			return
		}
		copts := wamp.Dict{}
		if op.Mode != "" {
			copts["mode"] = op.Mode
		}
		c.cancel = s.push(&outItem{msg: &wamp.Cancel{Request: c.req, Options: copts}, desc: "CANCEL " + op.Mode, gate: gate, opTr: ot})
	case "leave":
		r.mu.Lock()
		s.leaving, s.expGone = true, "left"
		r.forget(s)
		e := &expect{s: s, kind: "goodbye", desc: "GOODBYE reply and closed transport", strict: r.strictFor(s), epoch: s.epoch}
		if s.stalled {
			e.void = "session stalled"
		}
		r.exps = append(r.exps, e)
		r.mu.Unlock()
		e.item = s.push(&outItem{msg: &wamp.Goodbye{Reason: wamp.CloseRealm, Details: wamp.Dict{}}, desc: "GOODBYE", gate: gate, opTr: ot})
	case "drop":
		r.mu.Lock()
		s.leaving, s.expGone = true, "dropped"
		r.forget(s)
		r.mu.Unlock()
		s.push(&outItem{kind: kindDrop, desc: "drop", gate: gate, opTr: ot})
	case "join":
		ns := r.newSessionAuth(SessionSpec{Realm: op.Realm, Q: op.Q, Wrap: op.Wrap}, false, gate, op.HoldUntil == "closed")
		if !r.realms[op.Realm] {
			ns.expGone = "realm absent"
		}
		if op.HoldUntil == "closed" {
			ns.expGone = "attach held across the close"
		}
	case "hello_goodbye":
		r.newSession(SessionSpec{Realm: op.Realm, Q: op.Q, Wrap: true}, true, gate)
	case "stall":
		if !s.stalled {
			s.setPaused(true)
			r.mu.Lock()
			s.stalled = true
			s.epoch++
			r.mu.Unlock()
		}
	case "resume":
		r.resume(s)
	case "addrealm":
		r.api(gate, "AddRealm "+op.Realm, func() {
			if err := r.rtr.AddRealm(r.realmConfig(op.Realm)); err == nil {
				r.mu.Lock()
				r.realms[op.Realm] = true
				r.mu.Unlock()
			}
		})
	case "removerealm":
		if gate == nil {
			r.settleHandshakes()
		}
		r.markRealmClosing(op.Realm)
		r.api(gate, "RemoveRealm "+op.Realm, func() { r.rtr.RemoveRealm(wamp.URI(op.Realm)) })
	case "sleep":
		if gate == nil && op.Ms > 0 {
			time.Sleep(time.Duration(op.Ms) * time.Millisecond)
		}
	case "selftest_hang":
		// Self-test of the parent's watchdog: a mutex wait is not a durable
		// block, so the bubble's clock stops and this never returns.
		var mu sync.Mutex
		mu.Lock()
		mu.Lock()
	default:
		r.skip(ot, "unknown op")
	}
}

// api runs a blocking router API call in its own goroutine; outside a burst
// it waits (virtual closeLimit) for it to return.
func (r *runner) api(gate chan struct{}, name string, f func()) {
	done := make(chan struct{})
	go func() {
		defer close(done)
		defer r.recoverAPI("panic", name)
		if gate != nil {
			<-gate
		}
		f()
	}()
	if gate != nil {
		return
	}
	tm := time.NewTimer(closeLimit)
	defer tm.Stop()
	select {
	case <-done:
	case <-tm.C:
		r.violation("close-hang", name+" did not return within 2 h", true)
	}
}

// markRealmClosing: the sessions of the realm are expected to be told and to
// go away; nothing is owed to them any more.
func (r *runner) markRealmClosing(realm string) {
	r.mu.Lock()
	defer r.mu.Unlock()
	delete(r.realms, realm)
	for _, s := range r.sess {
		if s.spec.Realm == realm && s.gone == "" {
			s.expGone = "realm removed"
			s.leaving = true
			r.forget(s)
		}
	}
}

func (r *runner) resume(s *sess) {
	r.mu.Lock()
	was := s.stalled
	r.mu.Unlock()
	if !was {
		return
	}
	if !s.spec.Raw {
		n := len(s.cli.Recv())
		r.mu.Lock()
		if n > s.maxBuf {
			s.maxBuf = n
		}
		r.mu.Unlock()
		if n > s.spec.Q {
			r.violation("queue-bound", fmt.Sprintf("s%d had %d messages buffered, queue size %d", s.idx, n, s.spec.Q), false)
		}
	}
	r.mu.Lock()
	s.stalled = false
	s.epoch++
	r.lastStalled = r.now()
	r.mu.Unlock()
	s.setPaused(false)
}

func (r *runner) publish(s *sess, ot *opTrace, gate chan struct{}, op *Op) {
	n := op.Repeat
	if n < 1 {
		n = 1
	}
	if n > 1 && r.burstLoad.Load() == 0 {
		// n replies / events arrive at one instant
		r.burstLoad.Store(int64(2 * n))
		defer r.burstLoad.Store(0)
	}
	for k := 0; k < n; k++ {
		r.mu.Lock()
		s.pubSeq++
		tok := fmt.Sprintf("e%d|%s.%d", s.idx, op.Topic, s.pubSeq)
		var subs []*sess
		for idx := range r.subMap(s.spec.Realm, op.Topic) {
			x := r.sess[idx]
			if x != s && x.gone == "" && !x.leaving {
				subs = append(subs, x)
			}
		}
		r.mu.Unlock()
		if op.HoldUntil != "" {
			r.armHold(s, op.HoldUntil, tok, 0)
		}
		r.requestPre(s, ot, gate, "PUBLISH "+op.Topic, op.Ack, func(req wamp.ID) wamp.Message {
			if op.HoldUntil == "close" {
				r.armHold(s, "authz", "", req)
			}
			popts := wamp.Dict{"acknowledge": op.Ack}
			switch op.Filter {
			case "exclude":
				popts["exclude"] = wamp.List{wamp.ID(4242)}
			case "exclude_authrole":
				popts["exclude_authrole"] = wamp.List{"nobody-role"}
			case "exclude_authid":
				popts["exclude_authid"] = wamp.List{"nobody"}
			}
			if op.Disclose {
				popts["disclose_me"] = true
			}
			if op.ToSelf {
				popts["exclude_me"] = false
			}
			return &wamp.Publish{Request: req, Options: popts, Topic: wamp.URI(op.Topic),
				Arguments: wamp.List{tok}}
		}, func(it *outItem, _ *expect) {
			r.events[tok] = map[int]*expect{}
			for _, x := range subs {
				e := &expect{s: x, kind: "event", desc: "EVENT " + tok, item: it, strict: r.strictFor(x), epoch: x.epoch}
				if x.stalled {
					e.void = "session stalled"
				}
				r.events[tok][x.idx] = e
				r.exps = append(r.exps, e)
			}
		})
	}
}

// armHold installs a schedule gate for a message of session s.
func (r *runner) armHold(s *sess, until, tok string, req wamp.ID) {
	ch := make(chan struct{})
	switch {
	case until == "authz":
		r.hold.mu.Lock()
		r.hold.authz[[2]wamp.ID{s.sid, req}] = ch
		r.hold.mu.Unlock()
		r.mu.Lock()
		r.relAt = append(r.relAt, ch)
		s.held = true
		r.mu.Unlock()
	case strings.HasPrefix(until, "closed:"):
		var idx int
		fmt.Sscanf(until, "closed:%d", &idx)
		if idx < 0 || idx >= len(r.sess) {
			return
		}
		r.hold.mu.Lock()
		r.hold.filter[tok] = ch
		r.hold.mu.Unlock()
		r.mu.Lock()
		s.held = true
		r.mu.Unlock()
		target := r.sess[idx].rp
		go func() {
			tm := time.NewTimer(holdFallback)
			select {
			case <-target.closed:
			case <-tm.C:
			}
			tm.Stop()
			close(ch)
		}()
	}
}

func (r *runner) call(s *sess, ot *opTrace, gate chan struct{}, proc string, op *Op, args wamp.List) {
	c := &callRec{caller: s, proc: proc, meta: op == nil}
	opts := wamp.Dict{}
	if op != nil {
		c.hold = op.Hold
		if op.TimeoutMs > 0 {
			opts["timeout"] = op.TimeoutMs
			c.timeout = time.Duration(op.TimeoutMs) * time.Millisecond
		}
		if op.PPT != "" {
			opts["ppt_scheme"] = op.PPT
			r.mu.Lock()
			s.expGone = "protocol violation (ppt)"
			r.mu.Unlock()
		}
	}
	r.requestPre(s, ot, gate, "CALL "+proc, true, func(req wamp.ID) wamp.Message {
		c.req = req
		c.token = fmt.Sprintf("c%d.%d", s.idx, req)
		if op != nil {
			if op.HoldUntil == "close" {
				r.armHold(s, "authz", "", req)
			}
			args = wamp.List{c.token}
		}
		return &wamp.Call{Request: req, Options: opts, Procedure: wamp.URI(proc), Arguments: args}
	}, func(it *outItem, e *expect) {
		c.item, c.exp = it, e
		e.call = c
		if !c.meta {
			c.modelCall = r.regMap(s.spec.Realm)[proc]
			if c.modelCall != nil {
				c.modelEp = c.modelCall.epoch
			}
		}
		r.calls[c.token] = c
		s.calls = append(s.calls, c)
	})
}

// probe: every live, draining session makes a round trip through the dealer
// (CALL of an unknown procedure -> ERROR) and one through the broker (PUBLISH
// with acknowledge to a topic without subscribers -> PUBLISHED), one message
// per session per quiescence.
func (r *runner) probe() {
	for round := 0; round < 2; round++ {
		any := false
		for _, s := range r.sess {
			if r.live(s.idx) == nil {
				continue
			}
			r.mu.Lock()
			busy := s.stalled || len(s.out) > 0
			for _, it := range s.sent {
				if it.state == itPending {
					busy = true
				}
			}
			r.mu.Unlock()
			if busy {
				continue
			}
			any = true
			if round == 0 {
				r.request(s, nil, nil, "probe CALL", true, func(req wamp.ID) wamp.Message {
					return &wamp.Call{Request: req, Options: wamp.Dict{}, Procedure: "verif.probe.none"}
				})
			} else {
				r.request(s, nil, nil, "probe PUBLISH", true, func(req wamp.ID) wamp.Message {
					return &wamp.Publish{Request: req, Options: wamp.Dict{"acknowledge": true}, Topic: "verif.probe.topic"}
				})
			}
		}
		if !any {
			return
		}
		synctest.Wait()
		r.check(false)
		if r.aborted() {
			return
		}
	}
}
