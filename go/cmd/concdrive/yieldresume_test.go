package concdrive

import (
	"fmt"
	"strings"
	"testing/synctest"
	"time"

	"github.com/gammazero/nexus/v3/wamp"
)

// Shape yield-to-stalled-caller-then-resume (C07): the documented exception
// of the property, checked for what it promises.  A caller with a queue of
// size 1 or 2 stops reading, its queue is filled, the callee YIELDs; the
// dealer retries the RESULT after 1, 2, 4, ... ms (instants 1, 3, 7, ... ms
// after the YIELD) and looks at its one minute deadline after each delay; the
// caller resumes reading t after the YIELD.
//
// Model (coq/Conc/YieldRetry.v, [run true (fun e => t <=? e) d D]; retryPredict
// below is its mirror and tools/checks/c07.py compares the two tables on every
// run): the RESULT is delivered at the first retry instant >= t, exactly once;
// if the deadline instant (65 535 ms) comes first the call is cancelled there.
// The invocation is KEPT during the retries (dealer.syncYield keepInvocation).
//
// Oracles (signatures yield-retry@<what>):
//
//	result-lost            delivery predicted, no final RESULT and no ERROR arrived
//	result-duplicated      more than one final reply / progressive RESULT repeated
//	result-wrong-instant   delivered, but not at the predicted retry instant
//	result-after-deadline  cancellation predicted, a RESULT arrived anyway
//	unexpected-error       an ERROR where a RESULT was predicted, or an ERROR
//	                       that is not wamp.error.canceled at the deadline instant
//	callee-release-instant the callee's next request was not taken exactly when
//	                       the retry ended (delivery or cancel instant)
//	bystander-delayed      a third session's round trip during the retry had latency > 0
//	dealer-tables-not-empty calls / invocations / invocationByCall not empty afterwards
//	progressive-order      several progressive YIELDs while the caller did not read: the
//	                       caller read them out of order, or one is missing before the final reply
//	interrupt-after-answer the callee got an INTERRUPT although it had answered and
//	                       the model delivers its RESULT (e.g. the call's timeout
//	                       fired during the retry)
//
// When the cancellation is predicted the caller's queue is still full at the
// deadline, so the ERROR wamp.error.canceled is dropped like every other
// message for a client that does not read ("loses the rest"): at most one
// such ERROR is accepted, none is required.  Events that fall on the same
// virtual instant (resume and a retry timer) are not ordered by the runtime:
// when t is itself a retry instant the next outcome is accepted too.
const yrShape = "yield-to-stalled-caller-then-resume"

// Constants of router/dealer.go (yieldRetryDelay, sendResultDeadline), in
// microseconds.  The translator regenerates them into gen/GenSkeleton.v and
// tools/checks/c07.py fails the tie when Coq's table (computed from the
// regenerated constants) differs from the one computed here.
const (
	yrDelayUs    = 1000
	yrDeadlineUs = 60_000_000
)

// YieldResumeSpec parametrises the scenario.
type YieldResumeSpec struct {
	Q        int    `json:"q"`
	Kind     string `json:"kind"` // final | progressive-final | stalled-progressive-final
	ResumeUs int64  `json:"resume_after_us"`
	// TimeoutMs > 0: the CALL carries a router-handled timeout (the callee did
	// not ask for forward_timeout).  The callee's final YIELD stops that timer
	// even when the RESULT has to be retried.
	TimeoutMs int `json:"call_timeout_ms,omitempty"`
}

// yrRow is the scenario's line in the summary.
type yrRow struct {
	Q           int    `json:"q"`
	Kind        string `json:"kind"`
	ResumeUs    int64  `json:"resume_after_us"`
	PredictedUs int64  `json:"predicted_us"`
	Predicted   string `json:"predicted"` // delivered | cancelled
	ObservedUs  int64  `json:"observed_us"`
	Observed    string `json:"observed"` // delivered | cancelled | lost | not-run
	ReleasedUs  int64  `json:"callee_released_us"`
	TimeoutMs   int    `json:"call_timeout_ms,omitempty"`
	Tables      []int  `json:"dealer_call_tables,omitempty"` // calls, invocations, invocationByCall
}

// retryPredict mirrors YieldRetry.run with room e := t <=? e: the retry loop
// of dealer.yield after a first attempt (instant 0) that found no room.
func retryPredict(dUs, DUs, tUs int64) (int64, string) {
	e, d := int64(0), dUs
	for i := 0; i < 64; i++ {
		e += d
		if e >= tUs {
			return e, "delivered"
		}
		if e >= DUs {
			return e, "cancelled"
		}
		d *= 2
	}
	return e, "out-of-fuel"
}

var yrKinds = []string{"final", "progressive-final", "stalled-progressive-final", "stalled-progressive-burst"}

func genYieldResume(o *genOpts) []*History {
	if o.prop != "C07" || o.skip[yrShape] {
		return nil
	}
	ts := []int64{500, 3000, 1_000_000, 30_000_000, 70_000_000}
	if o.thorough {
		ts = append(ts, 1, 1000, 2000, 7000, 100_000, 10_000_000, 60_000_000, 65_000_000, 65_535_000, 65_536_000, 100_000_000)
		r := subRng(o.seed, "yield-resume", 0)
		for i := 0; i < 24; i++ {
			// log-uniform between 1 us and ~134 s
			ts = append(ts, 1+int64(r.next()%(uint64(1)<<uint(1+r.intn(27)))))
		}
	}
	var out []*History
	add := func(q int, kind string, t int64, tmo int) {
		out = append(out, &History{ID: fmt.Sprintf("C07-yr-%03d", len(out)), Prop: "C07", Seed: o.seed, Shape: yrShape,
			Realms: []string{"realm1"}, Sessions: []SessionSpec{}, Ops: []Op{},
			YieldResume: &YieldResumeSpec{Q: q, Kind: kind, ResumeUs: t, TimeoutMs: tmo}})
	}
	for _, kind := range yrKinds {
		for _, q := range []int{1, 2} {
			for _, t := range ts {
				add(q, kind, t, 0)
			}
		}
	}
	// the call's own timeout expires while the final RESULT is being retried
	tmos := []int{200}
	if o.thorough {
		tmos = []int{20, 200, 5000, 40000}
	}
	for _, kind := range yrKinds[:2] {
		for _, q := range []int{1, 2} {
			for _, tmo := range tmos {
				for _, t := range []int64{3000, 1_000_000, 30_000_000, 70_000_000} {
					add(q, kind, t, tmo)
				}
			}
		}
	}
	return out
}

func (s *sess) takeReq() wamp.ID {
	s.r.mu.Lock()
	defer s.r.mu.Unlock()
	q := s.nextReq
	s.nextReq++
	return q
}

// msgsFrom returns a copy of the messages session s read from index from on.
func (s *sess) msgsFrom(from int) []recMsg {
	s.r.mu.Lock()
	defer s.r.mu.Unlock()
	if from > len(s.msgs) {
		from = len(s.msgs)
	}
	return append([]recMsg{}, s.msgs[from:]...)
}

func (r *runner) itemState(it *outItem) (itemState, time.Duration) {
	r.mu.Lock()
	defer r.mu.Unlock()
	return it.state, it.acc
}

func us(d time.Duration) int64 { return int64(d / time.Microsecond) }

func (r *runner) rootYieldResume() {
	sp := r.h.YieldResume
	row := &yrRow{Q: sp.Q, Kind: sp.Kind, ResumeUs: sp.ResumeUs, ObservedUs: -1, Observed: "not-run", ReleasedUs: -1, TimeoutMs: sp.TimeoutMs}
	row.PredictedUs, row.Predicted = retryPredict(yrDelayUs, yrDeadlineUs, sp.ResumeUs)
	r.yr = row
	r.opsByKind[yrShape]++
	r.yieldResumeBody(sp, row)
	r.mu.Lock()
	r.closing = true
	r.closeRet = r.now()
	r.mu.Unlock()
	r.emitPartial()
	r.stopHarness()
	r.dropAll()
	time.Sleep(3 * time.Hour)
	synctest.Wait()
	r.finalClose("teardown")
	if !r.hasFail("teardown", "panic") {
		r.leakCheck("teardown")
	}
}

func (r *runner) yieldResumeBody(sp *YieldResumeSpec, row *yrRow) {
	realm := "realm1"
	if len(r.h.Realms) > 0 {
		realm = r.h.Realms[0]
	}
	setup := func(f string, a ...any) {
		r.fail("harness-error", "harness-error", "yield-resume setup: "+fmt.Sprintf(f, a...))
	}
	bad := func(what, f string, a ...any) {
		r.fail("yield-retry", "yield-retry@"+what, fmt.Sprintf("q=%d kind=%s resume_after=%d us: ", sp.Q, sp.Kind, sp.ResumeUs)+fmt.Sprintf(f, a...))
	}
	if sp.Q < 1 || sp.ResumeUs < 1 {
		setup("q and resume_after_us must be positive")
		return
	}
	kindOK := false
	for _, k := range yrKinds {
		kindOK = kindOK || k == sp.Kind
	}
	if !kindOK {
		setup("unknown kind %q", sp.Kind)
		return
	}
	callee := r.newSession(SessionSpec{Realm: realm, Q: 64, Feat: true}, false, nil)
	caller := r.newSession(SessionSpec{Realm: realm, Q: sp.Q, Feat: true}, false, nil)
	filler := r.newSession(SessionSpec{Realm: realm, Q: 64, Feat: true}, false, nil)
	synctest.Wait()
	for _, s := range []*sess{callee, caller, filler} {
		if r.live(s.idx) == nil {
			setup("session %d did not join", s.idx)
			return
		}
	}
	has := func(s *sess, from int, typ string, req wamp.ID) (recMsg, bool) {
		for _, m := range s.msgsFrom(from) {
			if m.Type == typ && (req == 0 || m.Req == uint64(req)) {
				return m, true
			}
		}
		return recMsg{}, false
	}

	regReq := callee.takeReq()
	callee.push(&outItem{msg: &wamp.Register{Request: regReq, Options: wamp.Dict{}, Procedure: "yr.proc"}, desc: "REGISTER yr.proc"})
	subReq := caller.takeReq()
	caller.push(&outItem{msg: &wamp.Subscribe{Request: subReq, Options: wamp.Dict{}, Topic: "yr.fill"}, desc: "SUBSCRIBE yr.fill"})
	synctest.Wait()
	if _, ok := has(callee, 0, "REGISTERED", regReq); !ok {
		setup("no REGISTERED")
		return
	}
	if _, ok := has(caller, 0, "SUBSCRIBED", subReq); !ok {
		setup("no SUBSCRIBED")
		return
	}
	callReq := caller.takeReq()
	opts := wamp.Dict{}
	if sp.Kind != "final" {
		opts["receive_progress"] = true
	}
	if sp.TimeoutMs > 0 {
		if strings.HasPrefix(sp.Kind, "stalled-progressive") {
			setup("call_timeout_ms is for the kinds final and progressive-final (a call that was not answered finally may time out)")
			return
		}
		opts["timeout"] = sp.TimeoutMs
	}
	caller.push(&outItem{msg: &wamp.Call{Request: callReq, Options: opts, Procedure: "yr.proc", Arguments: wamp.List{"yr"}}, desc: "CALL yr.proc"})
	synctest.Wait()
	inv, ok := has(callee, 0, "INVOCATION", 0)
	if !ok {
		setup("no INVOCATION")
		return
	}
	invReq := wamp.ID(inv.Req)
	yield := func(progress bool, arg string) *outItem {
		o := wamp.Dict{}
		if progress {
			o["progress"] = true
		}
		return callee.push(&outItem{msg: &wamp.Yield{Request: invReq, Options: o, Arguments: wamp.List{arg}}, desc: "YIELD " + arg})
	}
	// replies of the call read by the caller so far
	type reply struct {
		t        int64 // ms
		typ, inf string
	}
	replies := func(from int) (l []reply) {
		for _, m := range caller.msgsFrom(from) {
			if (m.Type == "RESULT" || m.Type == "ERROR") && m.Req == uint64(callReq) {
				l = append(l, reply{m.T, m.Type, m.Info})
			}
		}
		return
	}
	if sp.Kind == "progressive-final" {
		for i := 0; i < 2; i++ {
			at := r.now()
			yield(true, fmt.Sprintf("p%d", i))
			synctest.Wait()
			l := replies(0)
			if len(l) != i+1 || l[i].typ != "RESULT" || !strings.HasPrefix(l[i].inf, "progress") || l[i].t != ms(at) {
				bad("result-lost", "progressive RESULT %d to a draining caller not delivered at once: %v", i, l)
				return
			}
			time.Sleep(stepGap)
		}
	}

	// the caller stops reading; its queue is filled
	caller.setPaused(true)
	r.mu.Lock()
	caller.stalled = true
	caller.epoch++
	r.mu.Unlock()
	for i := 0; i < sp.Q; i++ {
		q := filler.takeReq()
		filler.push(&outItem{msg: &wamp.Publish{Request: q, Options: wamp.Dict{}, Topic: "yr.fill", Arguments: wamp.List{i}}, desc: "PUBLISH yr.fill"})
	}
	synctest.Wait()
	if n := len(caller.cli.Recv()); n != sp.Q {
		setup("caller's queue holds %d messages, want %d", n, sp.Q)
		return
	}
	time.Sleep(stepGap)
	synctest.Wait()
	mark := len(caller.msgsFrom(0))
	calleeMark := len(callee.msgsFrom(0))
	fillerMark := len(filler.msgsFrom(0))

	// T0: the YIELD(s), the callee's next request behind them, a bystander's round trip
	T0 := r.now()
	var first *outItem
	if sp.Kind == "stalled-progressive-final" {
		first = yield(true, "p-stalled")
		yield(false, "final")
	} else if sp.Kind == "stalled-progressive-burst" {
		// the callee keeps yielding while the caller does not read
		first = yield(true, "p-b0")
		yield(true, "p-b1")
		yield(true, "p-b2")
		yield(false, "final")
	} else {
		first = yield(false, "final")
	}
	probeReq := callee.takeReq()
	probe := callee.push(&outItem{msg: &wamp.Call{Request: probeReq, Options: wamp.Dict{}, Procedure: "verif.probe.none"}, desc: "probe CALL (callee)"})
	byReq := filler.takeReq()
	filler.push(&outItem{msg: &wamp.Call{Request: byReq, Options: wamp.Dict{}, Procedure: "verif.probe.none"}, desc: "probe CALL (bystander)"})
	synctest.Wait()
	if st, acc := r.itemState(first); st != itAccepted || acc != T0 {
		bad("callee-release-instant", "the YIELD offered at %d ms was not taken at once (state %d, at %d ms)", ms(T0), st, ms(acc))
		return
	}
	if m, ok := has(filler, fillerMark, "ERROR", byReq); !ok || m.T != ms(T0) {
		bad("bystander-delayed", "a third session's CALL at %d ms (during the RESULT retry) was not answered at once: %v %v", ms(T0), m, ok)
		return
	}
	if l := replies(mark); len(l) > 0 || len(caller.cli.Recv()) != sp.Q {
		setup("the caller's queue was not full at the YIELD")
		return
	}
	r.mu.Lock()
	r.nontrivial = true
	r.why["stalled-full-queue-while-others-served"] = true
	r.why["yield-to-stalled-caller"] = true
	r.fullEver[caller.idx] = true
	r.mu.Unlock()

	// the caller resumes t after the YIELD
	time.Sleep(time.Duration(sp.ResumeUs) * time.Microsecond)
	caller.setPaused(false)
	r.mu.Lock()
	caller.stalled = false
	caller.epoch++
	r.mu.Unlock()
	synctest.Wait()
	time.Sleep(80 * time.Second)
	synctest.Wait()

	// --- observation
	rel := func(t int64) int64 { return (t - ms(T0)) * 1000 } // us after the YIELD
	var finals, progs, errs []reply
	for _, x := range replies(mark) {
		switch {
		case x.typ == "ERROR":
			errs = append(errs, x)
		case strings.HasPrefix(x.inf, "progress"):
			progs = append(progs, x)
		default:
			finals = append(finals, x)
		}
	}
	pst, pacc := r.itemState(probe)
	if pst == itAccepted {
		row.ReleasedUs = us(pacc - T0)
	}
	// allowed outcomes: the prediction, and when the resume falls on a retry
	// instant also the outcome of resuming just after it
	type pred struct {
		us   int64
		what string
	}
	allowed := []pred{{row.PredictedUs, row.Predicted}}
	if row.PredictedUs == sp.ResumeUs {
		u, w := retryPredict(yrDelayUs, yrDeadlineUs, sp.ResumeUs+1)
		allowed = append(allowed, pred{u, w})
	}
	okPred := func(u int64, what string) bool {
		for _, a := range allowed {
			if a.us == u && a.what == what {
				return true
			}
		}
		return false
	}
	canDeliver, canCancel := false, false
	for _, a := range allowed {
		canDeliver = canDeliver || a.what == "delivered"
		canCancel = canCancel || a.what == "cancelled"
	}
	r.orc("yield-retry: call timeout %d ms (0: none); YIELD taken at %d ms; caller (q=%d) resumed %d us later; model: %v; observed for CALL %d: final RESULTs %v, progressive RESULTs %v, ERRORs %v; callee's next request taken %d us after the YIELD",
		sp.TimeoutMs, ms(T0), sp.Q, sp.ResumeUs, allowed, callReq, finals, progs, errs, row.ReleasedUs)

	stalledProg := sp.Kind == "stalled-progressive-final" || sp.Kind == "stalled-progressive-burst"
	wantProgs := 0
	slack := int64(7000)
	if stalledProg {
		wantProgs = 1
	}
	// the message whose delivery instant the model predicts
	var subject []reply
	if stalledProg {
		subject = progs
	} else {
		subject = finals
	}
	if sp.Kind == "stalled-progressive-burst" {
		// progressive results reach the caller in yield order, each once, before
		// the final reply (every further one may need a retry of its own)
		wantProgs, slack = 3, 30000
		want := []string{"progress p-b0", "progress p-b1", "progress p-b2"}
		orderOK := len(progs) <= 3
		for i, x := range progs {
			orderOK = orderOK && i < 3 && x.inf == want[i]
		}
		if len(progs) > 0 && (!orderOK || len(progs) != 3 && len(finals) > 0) {
			bad("progressive-order", "the callee yielded p-b0, p-b1, p-b2, final; the caller read %v then %v", progs, finals)
		}
		if len(progs) > 1 {
			subject = progs[:1]
		}
	}
	switch {
	case len(subject) > 1 || len(finals) > 1 || len(finals)+len(errs) > 1:
		row.Observed = "duplicated"
		bad("result-duplicated", "the caller read final RESULTs %v, progressive RESULTs %v, ERRORs %v for one call", finals, progs, errs)
	case len(subject) == 1:
		row.Observed, row.ObservedUs = "delivered", rel(subject[0].t)
		switch {
		case !canDeliver:
			bad("result-after-deadline", "the model cancels the call at %d us; a RESULT arrived %d us after the YIELD", row.PredictedUs, row.ObservedUs)
		case !okPred(row.ObservedUs, "delivered"):
			bad("result-wrong-instant", "RESULT read %d us after the YIELD; the model delivers it at %v", row.ObservedUs, allowed)
		case len(errs) > 0:
			bad("unexpected-error", "RESULT delivered and also %v", errs)
		case stalledProg && len(finals) == 0:
			bad("result-lost", "the progressive RESULT arrived at %d us but the final RESULT of the YIELD queued behind it never did", row.ObservedUs)
		case stalledProg && (finals[0].t < subject[0].t || rel(finals[0].t) > row.ObservedUs+slack):
			bad("result-wrong-instant", "final RESULT at %d us, progressive one at %d us", rel(finals[0].t), row.ObservedUs)
		case len(progs) != wantProgs && !r.hasFail("yield-retry"):
			bad("result-duplicated", "progressive RESULTs after the YIELD: %v", progs)
		}
	default:
		// nothing of the subject kind arrived
		if len(errs) == 1 {
			row.Observed, row.ObservedUs = "cancelled", rel(errs[0].t)
		} else {
			row.Observed = "lost"
		}
		switch {
		case !canCancel:
			if len(errs) == 1 {
				bad("unexpected-error", "the model delivers the RESULT at %d us; the caller got ERROR %s at %d us instead", row.PredictedUs, errs[0].inf, row.ObservedUs)
			} else {
				bad("result-lost", "the model delivers the RESULT at %d us (first retry instant at which the caller has room); the caller, reading again since %d us, got neither that RESULT nor an ERROR within 80 s; callee's handler released at %d us",
					row.PredictedUs, sp.ResumeUs, row.ReleasedUs)
			}
		case len(errs) == 1 && (errs[0].inf != string(wamp.ErrCanceled) || !okPred(row.ObservedUs, "cancelled")):
			bad("unexpected-error", "ERROR %s at %d us; the model cancels at %v", errs[0].inf, row.ObservedUs, allowed)
		case stalledProg && len(finals) > 0:
			bad("result-after-deadline", "the call was cancelled during the progressive RESULT's retry, yet a final RESULT arrived: %v", finals)
		default:
			if row.Observed == "lost" {
				// cancelled with the ERROR dropped on the still full queue
				row.Observed = "cancelled"
				for _, a := range allowed {
					if a.what == "cancelled" {
						row.ObservedUs = a.us
					}
				}
			}
		}
	}
	// a callee that has answered is not interrupted (the call's timeout timer
	// was stopped by its final YIELD); at the deadline syncCancel may send one
	var intr []int64
	for _, m := range callee.msgsFrom(calleeMark) {
		if m.Type == "INTERRUPT" {
			intr = append(intr, rel(m.T))
		}
	}
	if len(intr) > 0 {
		r.orc("yield-retry: the callee read INTERRUPT at %v us after its final YIELD (call timeout %d ms)", intr, sp.TimeoutMs)
		for _, u := range intr {
			if !okPred(u, "cancelled") {
				bad("interrupt-after-answer", "the callee had answered finally (YIELD taken at 0 us) and got INTERRUPT at %d us; call timeout %d ms; model: %v", u, sp.TimeoutMs, allowed)
			}
		}
	}
	// the callee's handler is released exactly when the retry ends
	if !r.hasFail("yield-retry") {
		end := row.ObservedUs
		switch {
		case pst != itAccepted:
			bad("callee-release-instant", "the callee's next request was never taken (retry should have ended at %d us)", end)
		case !stalledProg && row.ReleasedUs != end:
			bad("callee-release-instant", "the callee's next request was taken %d us after the YIELD; the retry ended at %d us", row.ReleasedUs, end)
		case stalledProg && (row.ReleasedUs < end || row.ReleasedUs > end+slack):
			bad("callee-release-instant", "the callee's next request was taken %d us after the YIELD; the first retry ended at %d us", row.ReleasedUs, end)
		}
		if m, ok := has(callee, calleeMark, "ERROR", probeReq); pst == itAccepted && (!ok || m.T != ms(pacc)) {
			bad("callee-release-instant", "the callee's request taken at %d ms was not answered at once", ms(pacc))
		}
	}
	// nothing of the call is left in the dealer
	if sizes, ok := verifTableSizes(r.rtr, wamp.URI(realm)); ok && len(sizes) >= 15 {
		row.Tables = []int{sizes[12], sizes[13], sizes[14]}
		r.orc("yield-retry: dealer tables afterwards (calls, invocations, invocationByCall) = %v, expected all 0", row.Tables)
		if sizes[12] != 0 || sizes[13] != 0 || sizes[14] != 0 {
			bad("dealer-tables-not-empty", "calls=%d invocations=%d invocationByCall=%d after the call ended", sizes[12], sizes[13], sizes[14])
		}
	} else {
		r.note("router.VerifTableSizes not available: dealer tables not inspected")
	}
}
